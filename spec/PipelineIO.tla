------------------------------ MODULE PipelineIO ------------------------------
(* C01 - the input-opening layer of the reader life cycle (batchers.OpenFilesToChan / *)
(* openFileToReader, OpenReaderToChan), added to Pipeline.tla the way PipelineC02     *)
(* adds its variants: Pipeline's own actions are reused, only the reader's start is   *)
(* refined.  Shaped like the reader part of InputsLife.tla (C06): Open, Probe          *)
(* (gzip.NewReader pulls up to ProbeLen units out of the file before it can tell that *)
(* this is no gzip stream), Rewind (Seek(0, SeekStart) after a failed probe), then    *)
(* the scan loop of Pipeline.                                                          *)
(*                                                                                     *)
(*   Gunzip          the -z flag                                                       *)
(*   GzFiles         the files that are gzip streams (Lines[f] are the decoded lines)  *)
(*   StreamFiles     inputs that are not opened by name (stdin / a scripted reader:    *)
(*                   OpenReaderToChan - no open, no probe); every other file is plain  *)
(*   FifoFiles       files opened by name that cannot be rewound (FIFO, /dev/stdin, process    *)
(*                   substitution): Seek fails on them                                 *)
(*   FifoProbe       how such a file is probed: "peek" = the code since fix 0ceebc0    *)
(*                   (the gzip magic number is looked at through a buffered reader     *)
(*                   that then serves the data, nothing is consumed); "consume" = the  *)
(*                   code before it (gzip.NewReader consumes the window and the rewind *)
(*                   fails silently: the defect, kept as a negative control)           *)
(*   ProbeLen        size of the probe window, in lines (the unit of this model; the   *)
(*                   real window is 4096 bytes - bytes and line fragments are the      *)
(*                   business of the trace corpora)                                    *)
(*   RewindTo        "start" = the code; "current" = the fallback keeps the offset the *)
(*                   probe left behind (negative control: TLC must refute FinalOK)     *)
(*                                                                                     *)
(* The position of a reader in its file is Pipeline's pos[f]; a line the probe         *)
(* consumed and the fallback does not rewind over is never scanned, so FinalOK         *)
(* (every line classified exactly once, totals = true counts) and LineNoOK fail.       *)
(* With RewindTo = "start" every behaviour maps to a behaviour of Pipeline (IORefines: *)
(* open/probe/rewind are stuttering steps of a reader that has not scanned yet), so    *)
(* everything TLC establishes for Pipeline holds for every mix of plain / gzip /       *)
(* stream inputs with and without -z and for files below, at and above the window.     *)
EXTENDS Pipeline_MC

CONSTANTS Gunzip, GzFiles, StreamFiles, FifoFiles, FifoProbe, ProbeLen, RewindTo

KindOfFile(f) == IF f \in GzFiles THEN "gz" ELSE IF f \in StreamFiles THEN "stream" ELSE "plain"

\* sema <- struct{}{} ; wg.Add(1) ; go func(filename) { openFileToReader ... }
OpenerStartIO ==
  /\ opc = "loop" /\ onext <= NF /\ sema < Readers
  /\ sema' = sema + 1 /\ wgR' = wgR + 1
  /\ rpc' = [rpc EXCEPT ![onext] = IF KindOfFile(onext) = "stream" THEN "scan" ELSE "open"]
  /\ onext' = onext + 1
  /\ UNCHANGED <<opc, pos, rbatch, bstart, bchan, bclosed, wgW, rchan, rclosed, panic>>
  /\ UNCH_W /\ UNCH_C /\ UNCH_CNT

UNCH_IO == /\ UNCHANGED <<rbatch, bstart, sema, wgR, bchan, bclosed, wgW, rchan, rclosed, panic>>
           /\ UNCH_O /\ UNCH_W /\ UNCH_C /\ UNCH_CNT
\* os.Open(filename)
ReaderOpen(f) ==
  /\ rpc[f] = "open"
  /\ rpc' = [rpc EXCEPT ![f] = IF Gunzip THEN "probe" ELSE "scan"]
  /\ pos' = pos /\ UNCH_IO
\* gzip.NewReader(file): a gzip header -> the decoder becomes the reader (Lines[f] = decoded lines);
\* anything else -> min(ProbeLen, size) units were consumed before the header check failed
ReaderProbe(f) ==
  /\ rpc[f] = "probe"
  /\ IF KindOfFile(f) = "gz" \/ (f \in FifoFiles /\ FifoProbe = "peek")
     THEN rpc' = [rpc EXCEPT ![f] = "scan"] /\ pos' = pos
     ELSE /\ rpc' = [rpc EXCEPT ![f] = "rewind"]
          /\ pos' = [pos EXCEPT ![f] = IF Len(Lines[f]) < ProbeLen THEN Len(Lines[f]) ELSE ProbeLen]
  /\ UNCH_IO
\* "Reading as plain file": baseFile.Seek(0, io.SeekStart); the error of a file that cannot seek is not looked at
ReaderRewind(f) ==
  /\ rpc[f] = "rewind"
  /\ rpc' = [rpc EXCEPT ![f] = "scan"]
  /\ pos' = [pos EXCEPT ![f] = IF RewindTo = "start" /\ f \notin FifoFiles THEN 0 ELSE @]
  /\ UNCH_IO

StepIO ==
  \/ OpenerStartIO \/ OpenerLoopEnd \/ OpenerClose
  \/ \E f \in 1..NF : ReaderOpen(f) \/ ReaderProbe(f) \/ ReaderRewind(f) \/ Reader(f)
  \/ \E w \in 1..Workers : Worker(w)
  \/ Closer \/ Consumer
NextIO == StepIO \/ Done
FairIO == /\ WF_vars(OpenerStartIO \/ OpenerLoopEnd \/ OpenerClose)
          /\ \A f \in 1..NF : WF_vars(ReaderOpen(f) \/ ReaderProbe(f) \/ ReaderRewind(f) \/ Reader(f))
          /\ \A w \in 1..Workers : WF_vars(Worker(w))
          /\ WF_vars(Closer) /\ WF_vars(Consumer)
SpecIO == Init /\ [][NextIO]_vars /\ FairIO

\* ------------------------------------------------------------------ properties
TypeOKIO ==
  /\ \A f \in 1..NF : rpc[f] \in {"idle", "open", "probe", "rewind", "scan", "send", "final", "exit", "done"}
  /\ \A f \in 1..NF : pos[f] \in 0..Len(Lines[f]) /\ Len(rbatch[f]) <= Batch
  /\ Len(bchan) <= BufCap /\ Len(rchan) <= ReadCap
Opening == {"open", "probe", "rewind"}
SemaOKIO == /\ sema = Cardinality({f \in 1..NF : rpc[f] \in Opening \cup {"scan", "send", "final", "exit"}})
            /\ wgR = sema
\* nothing has been scanned while a reader is still opening; the scan starts at the first line
ScanFromStartOK ==
  \A f \in 1..NF : /\ rpc[f] \in Opening => rbatch[f] = <<>> /\ bstart[f] = 1
                   /\ (rpc[f] = "scan" /\ rbatch[f] = <<>> /\ bstart[f] = 1) => pos[f] = 0
\* refinement: a reader that is opening is a reader of Pipeline that has not scanned anything yet
P == INSTANCE Pipeline WITH
       rpc <- [f \in 1..NF |-> IF rpc[f] \in Opening THEN "scan" ELSE rpc[f]],
       pos <- [f \in 1..NF |-> IF rpc[f] \in Opening THEN 0 ELSE pos[f]]
IORefines == P!Init /\ [][P!Next]_P!vars
=============================================================================

-------------------------- MODULE ExprSyntaxIdx_MC --------------------------
(* B3 for the integer-versus-key decision of a lone word (ExprSyntaxIdx.tla).    *)
(*   arith  the digit-string arithmetic (IxAdd IxSub IxCmp IxPow2 IxMul) agrees  *)
(*          with TLC's integers on every pair below 60 (160) and every power <= 2^30  *)
(*   small  widths 4 and 8, EVERY string sign x 1..3 (4) digits: the abstract layer  *)
(*          is "value within -2^(W-1) .. 2^(W-1)-1" in TLC's own arithmetic, the *)
(*          Atoi transcription agrees with it, the wrapping control is exactly   *)
(*          arithmetic modulo 2^W                                                *)
(*   bound  widths 32 and 64 (beyond TLC's integers): 2^(W-1) + k, 2^W + k,      *)
(*          m * 2^W + k, 10 * 2^W + k for |k| <= 3, written plain / with leading *)
(*          zeros / with a minus sign: whether the value fits is known from the  *)
(*          construction (the sign of k), independently of IxCmp                 *)
(* Law for Mode (the design under test): IdxFaithful /\ IdxComplete.  Mode =     *)
(* "spec" and "atoi" pass; "wrap" (seeded change C09-4) and "sat" are rejected.  *)
EXTENDS ExprSyntaxIdx, TLC

CONSTANTS Mode, Thorough

VARIABLE c

Signs == {<<>>, <<45>>, <<43>>}
DigitStrs(n) == UNION {[1..k -> 48..57] : k \in 1..n}
Pow(k) == 2 ^ k
ArN == IF Thorough THEN 159 ELSE 59

Groups == {"arith", "small", "bound"}
Subs(g) ==
  CASE g = "arith" -> 0..ArN
    [] g = "small" -> {<<w, sg, d>> : w \in {4, 8}, sg \in Signs, d \in 48..57}
    [] g = "bound" -> {<<w, b>> : w \in {32, 64}, b \in {"half", "full", "2full", "3full", "10full", "half+full"}}

Base(w, b) ==
  CASE b = "half"      -> IxHalf(w)
    [] b = "full"      -> IxFull(w)
    [] b = "2full"     -> IxMul(IxFull(w), 2)
    [] b = "3full"     -> IxMul(IxFull(w), 3)
    [] b = "10full"    -> Append(IxFull(w), 48)
    [] b = "half+full" -> IxAdd(IxHalf(w), IxFull(w))
Shift(x, k) == IF k >= 0 THEN IxAdd(x, Itoa(k)) ELSE IxSub(x, Itoa(0 - k))
Forms == {"plain", "zeros", "minus", "minuszeros"}
Written(x, f) ==
  CASE f = "plain" -> x [] f = "zeros" -> <<48, 48>> \o x [] f = "minus" -> <<45>> \o x [] OTHER -> <<45, 48, 48, 48>> \o x

Cases(g, k) ==
  CASE g = "arith" -> {<<k, b>> : b \in 0..ArN} \cup (IF k <= 30 THEN {<<-1, k>>} ELSE {})
    [] g = "small" -> {<<k[1], k[2] \o <<k[3]>> \o t>> : t \in {<<>>} \cup DigitStrs(IF Thorough THEN 3 ELSE 2)}
    [] g = "bound" -> {<<k[1], k[2], j, f>> : j \in -3..3, f \in Forms}

\* ---- laws
ArithOK(x) ==
  IF x[1] = -1 THEN /\ IxPow2(x[2]) = Itoa(Pow(x[2])) /\ IxMul(Itoa(x[2]), 7) = Itoa(7 * x[2])
                    /\ IxP31 = IxPow2(31) /\ IxP32 = IxPow2(32) /\ IxP63 = IxPow2(63) /\ IxP64 = IxPow2(64)      \* the written-out powers
                    /\ IxP31 = IxMul(Itoa(Pow(30)), 2) /\ IxP64 = IxMul(IxP63, 2) /\ Len(IxP63) = 19 /\ Len(IxP64) = 20
  ELSE LET a == x[1]  b == x[2] IN
    /\ IxAdd(Itoa(a), Itoa(b)) = Itoa(a + b)
    /\ (a >= b => IxSub(Itoa(a), Itoa(b)) = Itoa(a - b))
    /\ IxCmp(Itoa(a), Itoa(b)) = (IF a < b THEN -1 ELSE IF a = b THEN 0 ELSE 1)
    /\ IxStrip(<<48, 48>> \o Itoa(a)) = Itoa(a)

\* two's complement of width w in TLC's integers
TwosN(v, w) == LET u == v % Pow(w) IN IF u >= Pow(w - 1) THEN u - Pow(w) ELSE u
SmallOK(x) ==
  LET w == x[1]  s == x[2]  v == ParseIntVal(s)
      fits == v >= 0 - Pow(w - 1) /\ v < Pow(w - 1)
      want == IF fits THEN IxGrp(Itoa(v)) ELSE IxKey(s)
      mag  == IF v < 0 THEN 0 - v ELSE v IN
  /\ ParseIntOK(s)
  /\ IxDenote(s, w) = want                                           \* the abstract layer is the arithmetic range test
  /\ IxAtoi(s, w) = want                                             \* strconv.Atoi refines it
  /\ IxWrap(s, w) = IxGrp(Itoa(IF v < 0 THEN TwosN(0 - TwosN(mag, w), w) ELSE TwosN(mag, w)))   \* the control is modular arithmetic
  /\ (s[1] # 43 => (IxIntWord(s) /\ IxCanon(s) = Itoa(v)))

BoundOK(x) ==
  LET w == x[1]  b == x[2]  j == x[3]  f == x[4]
      n == Shift(Base(w, b), j)
      s == Written(n, f)
      neg == f \in {"minus", "minuszeros"}
      fits == b = "half" /\ (IF neg THEN j <= 0 ELSE j < 0)          \* known from the construction
      want == IF fits THEN IxGrp(IxSigned(neg, n)) ELSE IxKey(s) IN
  /\ IxIntWord(s)
  /\ IxDenote(s, w) = want
  /\ IxAtoi(s, w) = want
  \* the wrapping control reproduces what the seeded change was observed to do: m * 2^W + k is read as k
  /\ (b \in {"full", "2full", "3full"} /\ j >= 0 /\ ~neg => IxWrap(s, w) = IxGrp(Itoa(j)))

ModelOK(g, x) == CASE g = "arith" -> ArithOK(x) [] g = "small" -> SmallOK(x) [] OTHER -> BoundOK(x)

TextOf(g, x) == IF g = "small" THEN x[2] ELSE Written(Shift(Base(x[1], x[2]), x[3]), x[4])
DesignOK(g, x) ==
  g = "arith" \/ LET s == TextOf(g, x)  r == IxDecide(s, x[1], Mode) IN IdxFaithful(s, r) /\ IdxComplete(s, x[1], r)

Init == c \in {[lv |-> 0, g |-> g, k |-> 0, x |-> <<>>] : g \in Groups}
Next == \/ c.lv = 0 /\ \E k \in Subs(c.g) : c' = [lv |-> 1, g |-> c.g, k |-> k, x |-> <<>>]
        \/ c.lv = 1 /\ \E x \in Cases(c.g, c.k) : c' = [lv |-> 2, g |-> c.g, k |-> 0, x |-> x]
LawOK == c.lv < 2 \/ ModelOK(c.g, c.x)
IdxLawOK == c.lv < 2 \/ DesignOK(c.g, c.x)
=============================================================================

----------------------------- MODULE LogDefer_Trace -----------------------------
(* B2: every record is one recorded execution of the REAL pkg/logger: W           *)
(* goroutines printing numbered lines through Print/Println/Printf while a        *)
(* controller goroutine calls DeferLogs / ImmediateLogs (the last call is         *)
(* ImmediateLogs), stderr redirected to a file.  rec = [t, h, err, junk] with h   *)
(* and err as in LogDeferLaws, junk = number of stderr lines that are not exactly *)
(* one complete `[Log] ...` line.  A history the laws of LogDefer.tla cannot      *)
(* explain is listed in `bad` with the laws it breaks; total (never stops).       *)
EXTENDS Integers, Sequences, FiniteSets, SequencesExt, TLC, Json
Trace == ndJsonDeserialize("trace.ndjson")
VARIABLES l, bad
tvars == <<l, bad>>
INSTANCE LogDeferLaws
WhyRec(r) == Why(r.h, r.err) \cup (IF r.junk = 0 THEN {} ELSE {"torn"})
TInit == l = 1 /\ bad = <<>>
TNext == /\ l <= Len(Trace)
         /\ l' = l + 1
         /\ LET w == WhyRec(Trace[l]) IN
            bad' = IF w = {} THEN bad ELSE Append(bad, [t |-> Trace[l].t, l |-> l, why |-> SetToSeq(w)])
TSpec == TInit /\ [][TNext]_tvars
Final == (l = Len(Trace) + 1) => JsonSerialize("bad.json", [bad |-> bad, consumed |-> l - 1, done |-> TRUE])
=============================================================================

------------------------------- MODULE TermCursor -------------------------------
(* C20, clauses "an update never wraps into neighbouring lines" / "on close parks *)
(* the cursor below the last line with the cursor visible again", the ROW         *)
(* bookkeeping of pkg/multiterm/multiterm.go PROVED with TLAPS for any number of   *)
(* updates to any line indices (TLC explores TermWriter.tla with the byte-level    *)
(* terminal for histories of <= 4 updates over a few lines).  The module is        *)
(* TermWriter.tla reduced to rows: the writer's fields cursor / maxLine /          *)
(* cursorHidden, the terminal's cursor row and visibility.  What goTo emits moves  *)
(* the terminal by exactly line - cursor rows (that many LF down, or ESC[1A that   *)
(* many times up - never above the first line, because the terminal stands where   *)
(* the writer believes); writing a text does not change the row - this is the      *)
(* assumption the width clause (TermTrim.tla: the visible width of what is written *)
(* never exceeds the terminal's) discharges.                                       *)
EXTENDS Integers, TLAPS
CONSTANT Base                       \* the terminal row of line 0 when the writer starts
ASSUME BaseNat == Base \in Nat
VARIABLES cursor, maxLine, hidden,  \* the writer
          row, visible,             \* the terminal
          closed
vars == <<cursor, maxLine, hidden, row, visible, closed>>

Init == cursor = 0 /\ maxLine = 0 /\ hidden = FALSE /\ row = Base /\ visible = TRUE /\ closed = FALSE

Max(a, b) == IF a > b THEN a ELSE b
WriteForLine(line) ==
  /\ ~closed
  /\ visible' = FALSE /\ hidden' = TRUE                  \* ESC[?25l the first time (HideCursor = TRUE)
  /\ row' = row + (line - cursor)                        \* goTo: line-cursor LF, or cursor-line times ESC[1A; CR; text; ESC[0K
  /\ cursor' = line /\ maxLine' = Max(maxLine, line)
  /\ UNCHANGED closed
Close ==
  /\ ~closed
  /\ row' = row + (maxLine - cursor) + 1                 \* goTo(maxLine); LF
  /\ visible' = (visible \/ hidden)                      \* ESC[?25h iff the cursor was hidden
  /\ cursor' = maxLine /\ closed' = TRUE
  /\ UNCHANGED <<maxLine, hidden>>
Next == Close \/ \E line \in Nat : WriteForLine(line)
Spec == Init /\ [][Next]_vars

TypeOK == cursor \in Nat /\ maxLine \in Nat /\ row \in Int /\ hidden \in BOOLEAN /\ visible \in BOOLEAN /\ closed \in BOOLEAN
\* the clauses
Belief == ~closed => (row = Base + cursor /\ (visible <=> ~hidden))   \* the terminal stands where the writer believes
InScreen == row >= Base                                              \* never above the first line (no write into earlier output)
Parked == closed => (row = Base + maxLine + 1 /\ visible)             \* below the last line in use, cursor visible again
Safe == Belief /\ InScreen /\ Parked
IndInv == TypeOK /\ Belief /\ Parked /\ cursor <= maxLine

THEOREM Safety == Spec => []Safe
<1>1. Init => IndInv
  BY BaseNat DEF Init, IndInv, TypeOK, Belief, Parked
<1>2. IndInv /\ [Next]_vars => IndInv'
  <2> SUFFICES ASSUME IndInv, [Next]_vars PROVE IndInv'
    OBVIOUS
  <2> USE BaseNat DEF IndInv, TypeOK, Belief, Parked, Max
  <2>1. ASSUME NEW line \in Nat, WriteForLine(line) PROVE IndInv'
    BY <2>1 DEF WriteForLine
  <2>2. CASE Close BY <2>2 DEF Close
  <2>3. CASE UNCHANGED vars BY <2>3 DEF vars
  <2> QED BY <2>1, <2>2, <2>3 DEF Next
<1>3. IndInv => Safe
  BY BaseNat DEF IndInv, Safe, TypeOK, Belief, InScreen, Parked
<1> QED
  BY <1>1, <1>2, <1>3, PTL DEF Spec
=============================================================================

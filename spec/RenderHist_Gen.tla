--------------------------- MODULE RenderHist_Gen ---------------------------
(* B1 generator for the render histories of RenderHist.tla: every history of       *)
(* MaxRenders `data operation; render; footers` steps (exhaustively, or sampled    *)
(* with -simulate) on one renderer instance, with the whole screen the machine     *)
(* written like the code shows after each step.  HistOK is checked in the same     *)
(* run, so every emitted screen satisfies the property's laws; the driver builds   *)
(* the REAL aggregator and the REAL renderer, replays the steps and compares the   *)
(* VirtualTerm after every render.                                                 *)
EXTENDS RenderHist, Json

VARIABLES htrail, hinit        \* sequence of [op, see]; the data the history started from
hgvars == <<hm, hpol, cf, k, data, ri, scr, ft, pn, hop, htrail, hinit>>

Cells(d) == {<<p[1], p[2], d[p]>> : p \in DOMAIN d}
OpJson(op) == IF op[1] = "t" THEN <<"t", SetToSeq(op[2])>> ELSE op
HGInit == HInit /\ htrail = <<>> /\ hinit = SetToSeq(Cells(data))
HGNext == HNext /\ hinit' = hinit /\ htrail' = Append(htrail, [op |-> OpJson(hop'), see |-> scr'])
HCfg ==
  CASE hm = "heat"  -> [rows |-> cf.rows, cols |-> cf.cols, fmin |-> cf.fmin, fmax |-> cf.fmax, bmin |-> cf.bmin, bmax |-> cf.bmax, tpl |-> cf.fmt, feet |-> cf.feet]
    [] hm = "spark" -> [rows |-> cf.rows, cols |-> cf.cols, tpl |-> cf.fmt, feet |-> cf.feet]
    [] hm = "table" -> [rows |-> cf.rows, cols |-> cf.cols, tpl |-> cf.fmt, feet |-> cf.feet, rowtot |-> cf.rowtot, coltot |-> cf.coltot]
    [] hm = "bars"  -> [stacked |-> cf.stacked, color |-> cf.color, uni |-> cf.uni, tpl |-> cf.fmt, feet |-> cf.feet]
HDump == (k = MaxRenders) => PrintT("VFJ " \o ToJson([k |-> "hist", m |-> hm, cfg |-> HCfg, init |-> hinit, trail |-> htrail]))
=============================================================================

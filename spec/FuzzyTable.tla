------------------------------ MODULE FuzzyTable ------------------------------
(* X04 (beyond the listed properties): pkg/fuzzy/fuzzyTable.go - the table that   *)
(* maps a key to an earlier, similar key (`rare fuzzy`, experimental build).      *)
(* Written like the code: an ordered list of (key, score), a counter of           *)
(* unsuccessful searches; GetMatchId scans the list in order - the first key      *)
(* whose similarity exceeds the threshold wins (its score grows, by the table     *)
(* size for an imperfect match, by one for a perfect one), every key passed over  *)
(* loses one point -; an unsuccessful search is counted, every tenth one sorts    *)
(* the list by score (ties in an unspecified order: sort.Slice) and cuts it to    *)
(* MaxSize; the new key is appended while there is room or the last key's score   *)
(* has fallen below 1.                                                            *)
(*                                                                                *)
(* What the user is owed (FuzzyLaws: invariants here, judge of real histories):   *)
(*   Sound     a key that is not new is mapped to a key that was handed out as    *)
(*             new before and is similar to it (ratio above the threshold)        *)
(*   Complete  while nothing was ever cut or refused (the table holds every key   *)
(*             handed out as new) a key is new only if no such key is similar     *)
(*   Repeat    asking again at once gives the same answer, and a key that was     *)
(*             just added answers for itself                                      *)
(*   Bounded   the table never holds more than MaxSize + Every keys (Every = 10), and at most     *)
(*             MaxSize + 1 right after a cut                                      *)
(* Design \in {"code", "firstonly" (only the first key is compared), "nocut"      *)
(* (the sort forgets to cut), "fresh" (the answer for a similar key is the new    *)
(* spelling)}: the last three are negative controls.                              *)
EXTENDS Integers, Sequences, FiniteSets, SequencesExt, TLC
CONSTANTS Vals,        \* the keys that may be asked for (sequences of code points)
          P, Q,        \* the similarity threshold matchDist = P / Q
          MaxOffset, MaxSize, MaxOps, Design,
          Every        \* every Every-th unsuccessful search sorts and cuts (10 in the code; smaller in the bounded model)

S4 == INSTANCE Sift4
Sim(a, b) == S4!Above(S4!Ratio(a, b, MaxOffset), P, Q)
Perfect(a, b) == S4!Ratio(a, b, MaxOffset)[1] * 100 >= 99 * S4!Ratio(a, b, MaxOffset)[2]     \* d >= 0.99

VARIABLES keys,       \* <<[k, score]>>
          searches,
          hist        \* <<[val, match, new, count, cut]>>  cut: this call sorted and cut the table
vars == <<keys, searches, hist>>

Init == keys = <<>> /\ searches = 0 /\ hist = <<>>

FirstSim(ks, v) == IF Design = "firstonly"
                     THEN (IF ks # <<>> /\ Sim(ks[1].k, v) THEN 1 ELSE 0)
                     ELSE (IF \E i \in 1..Len(ks) : Sim(ks[i].k, v)
                             THEN CHOOSE i \in 1..Len(ks) : Sim(ks[i].k, v) /\ \A j \in 1..(i - 1) : ~Sim(ks[j].k, v)
                             ELSE 0)
SortedDesc(ks) == \A i \in 1..(Len(ks) - 1) : ks[i].score >= ks[i + 1].score
Perms(ks) == {p \in [1..Len(ks) -> 1..Len(ks)] : \A i, j \in 1..Len(ks) : i # j => p[i] # p[j]}

Get(v) ==
  LET i == FirstSim(keys, v) IN
  IF i # 0 THEN
    /\ keys' = [j \in 1..Len(keys) |->
                  IF j < i THEN [keys[j] EXCEPT !.score = @ - 1]
                  ELSE IF j = i THEN [keys[j] EXCEPT !.score = @ + (IF Perfect(keys[i].k, v) THEN 1 ELSE Len(keys))]
                  ELSE keys[j]]
    /\ UNCHANGED searches
    /\ hist' = Append(hist, [val |-> v, match |-> (IF Design = "fresh" THEN v ELSE keys[i].k), new |-> FALSE,
                             count |-> Len(keys), cut |-> FALSE])
  ELSE
    LET dec == [j \in 1..Len(keys) |-> [keys[j] EXCEPT !.score = @ - 1]]
        tenth == searches + 1 >= Every
    IN \E p \in Perms(dec) :
         LET srt == [j \in 1..Len(dec) |-> dec[p[j]]]
             cutd == IF tenth THEN (IF Len(srt) > MaxSize /\ Design # "nocut" THEN SubSeq(srt, 1, MaxSize) ELSE srt) ELSE dec
             room == Len(cutd) < MaxSize \/ (Len(cutd) > 0 /\ cutd[Len(cutd)].score < 1)
         IN /\ (tenth => SortedDesc(srt)) /\ (~tenth => p = [j \in 1..Len(dec) |-> j])
            /\ keys' = IF room THEN Append(cutd, [k |-> v, score |-> 1]) ELSE cutd
            /\ searches' = IF tenth THEN 0 ELSE searches + 1
            /\ hist' = Append(hist, [val |-> v, match |-> v, new |-> TRUE, count |-> Len(keys'), cut |-> tenth])

Next == Len(hist) < MaxOps /\ \E v \in Vals : Get(v)
Spec == Init /\ [][Next]_vars

INSTANCE FuzzyLaws
TypeOK == searches \in 0..(Every - 1) /\ \A i \in 1..Len(keys) : keys[i].k \in Vals
Lawful == Why(hist, MaxSize, Every, LAMBDA a, b : Sim(a, b)) = {}
\* no key twice in the table (a key in the table answers for itself)
NoDouble == \A i, j \in 1..Len(keys) : i # j => keys[i].k # keys[j].k
=============================================================================

----------------------------- MODULE FuncFileOps -----------------------------
(* C10 - the funcs-file format as pure operators: stripping a physical line, the *)
(* declarative Meaning of a file, the loader as a recursive function (Load), and  *)
(* the layouts in which a definition may be written (used by FuncFile.tla, the    *)
(* state machine, and by the vector generator ExprOpt_Gen).                       *)
EXTENDS Bytes, TLC

HASH == 35
BSL  == 92

HasByteL(s, b) == \E i \in 1..Len(s) : s[i] = b

\* ---------------------------------------------------------------- one physical line
\* trimAfter(line, '#') then strings.TrimSpace
StripLine(line) ==
  LET h == IndexByte(line, HASH) IN TrimSpace(IF h = 0 THEN line ELSE SubSeq(line, 1, h - 1))
IsCont(s) == s # <<>> /\ s[Len(s)] = BSL                      \* strings.HasSuffix(line, "\\")
DropBsl(s) == SubSeq(s, 1, Len(s) - 1)                        \* strings.TrimSuffix(line, "\\"): the ONE continuation mark
\* negative control: strings.TrimRight(line, "\\") - the whole run of backslashes at the end of the line.  A line
\* ending in two backslashes is a body ending in a backslash (it escapes the first character of the next line)
\* followed by the continuation mark; only the mark may go.
RECURSIVE DropAllBsl(_)
DropAllBsl(s) == IF s # <<>> /\ s[Len(s)] = BSL THEN DropAllBsl(SubSeq(s, 1, Len(s) - 1)) ELSE s
\* number of backslashes a (stripped) line ends in
RECURSIVE BslRun(_)
BslRun(s) == IF s # <<>> /\ s[Len(s)] = BSL THEN 1 + BslRun(SubSeq(s, 1, Len(s) - 1)) ELSE 0

\* ---------------------------------------------------------------- declarative meaning
RECURSIVE Content(_)
\* the lines that are not blank and not comments, stripped
Content(lines) ==
  IF lines = <<>> THEN <<>>
  ELSE LET s == StripLine(lines[1]) IN (IF s = <<>> THEN <<>> ELSE <<s>>) \o Content(Tail(lines))

\* index of the line that ends the phrase starting at content line i (the first line from i on
\* that is not a continuation line, else the last line)
PhraseEnd(cs, i) ==
  LET E == {k \in i..Len(cs) : ~IsCont(cs[k])} IN IF E = {} THEN Len(cs) ELSE MinOf(E)
RECURSIVE PhraseText(_, _, _)
PhraseText(cs, i, k) ==
  IF i > k THEN <<>>
  ELSE (IF IsCont(cs[i]) THEN DropBsl(cs[i]) ELSE cs[i]) \o PhraseText(cs, i + 1, k)
RECURSIVE PhrasesFrom(_, _)
PhrasesFrom(cs, i) ==
  IF i > Len(cs) THEN <<>>
  ELSE LET k == PhraseEnd(cs, i)  t == PhraseText(cs, i, k) IN
       (IF t = <<>> THEN <<>> ELSE <<t>>) \o PhrasesFrom(cs, k + 1)
Phrases(lines) == PhrasesFrom(Content(lines), 1)

\* strings.SplitN(phrase, " ", 2)
DefOf(ph) == LET sp == IndexByte(ph, SP) IN
             IF sp = 0 THEN [name |-> ph, body |-> <<>>, ok |-> FALSE]
             ELSE [name |-> SubSeq(ph, 1, sp - 1), body |-> DropFirst(ph, sp), ok |-> TRUE]
RECURSIVE DefsOf(_)
DefsOf(phs) == IF phs = <<>> THEN <<>>
               ELSE LET d == DefOf(phs[1]) IN (IF d.ok THEN <<[name |-> d.name, body |-> d.body]>> ELSE <<>>) \o DefsOf(Tail(phs))
Meaning(lines) == DefsOf(Phrases(lines))

\* ---------------------------------------------------------------- the same machine as a function
\* (used by the vector generator, which needs the loader's result for a given file)
RECURSIVE RunLoad(_, _, _, _)
RunLoad(f, i, buf, acc) ==
  LET emit(b) == IF b = <<>> THEN acc
                 ELSE LET d == DefOf(b) IN IF d.ok THEN Append(acc, [name |-> d.name, body |-> d.body]) ELSE acc
  IN
  IF i > Len(f) THEN emit(buf)
  ELSE LET line == StripLine(f[i]) IN
       IF line = <<>> THEN RunLoad(f, i + 1, buf, acc)
       ELSE IF IsCont(line) THEN RunLoad(f, i + 1, buf \o DropBsl(line), acc)
       ELSE RunLoad(f, i + 1, <<>>, emit(buf \o line))
Load(f) == RunLoad(f, 1, <<>>, <<>>)

\* ---------------------------------------------------------------- definitions that do not compile
\* createAndAddFunc: the body is compiled by the loading compiler (keyBuilder.go Compile, C09's parse model SX!CompileF)
\* under the function table it has AT THAT MOMENT: the builtins and the definitions registered so far.  A body with a
\* compile error (unknown function - a misspelt helper, a call of a definition that itself failed or comes later -, an
\* unterminated or empty statement) is reported and NOT registered; the loader goes on with the next definition, and
\* whatever compiled is delivered to the function table (funclib.TryAddFunctions registers what it is handed even when
\* the loader also reports errors).  So a file means: every definition that compiles in its place - the failing ones are
\* as if they were not written.
SX == INSTANCE ExprSyntax
CompilesB(body, names) == SX!CompileF(body, [n \in names |-> 0]).er = <<>>
NamesOf(ds) == {ds[i].name : i \in 1..Len(ds)}
RECURSIVE RegisterFrom(_, _, _, _)
RegisterFrom(ds, builtins, i, acc) ==
  IF i > Len(ds) THEN acc
  ELSE RegisterFrom(ds, builtins, i + 1,
                    IF CompilesB(ds[i].body, builtins \cup NamesOf(acc)) THEN Append(acc, ds[i]) ELSE acc)
Registered(ds, builtins) == RegisterFrom(ds, builtins, 1, <<>>)
LoadC(f, builtins) == Registered(Load(f), builtins)

\* the bytes of the file: lines joined by LF; `nl`: whether the last line is terminated
RECURSIVE FileBytes(_, _)
FileBytes(f, nl) ==
  IF f = <<>> THEN <<>>
  ELSE IF Len(f) = 1 THEN f[1] \o (IF nl THEN <<LF>> ELSE <<>>)
  ELSE f[1] \o <<LF>> \o FileBytes(Tail(f), nl)


\* ---------------------------------------------------------------- writing a definition in a layout
\* A definition `name body` can be spread over physical lines in many ways that the
\* documentation declares equivalent.  Domain: name without blanks, no '#' and no line feed
\* anywhere, the phrase neither starts nor ends with a blank and does not end with '\'.
\* style = [cut, ind, csuf, lsuf, sep, eofc]
\*   cut  0: one line   1: a new line after every blank (that is not followed by a blank)
\*        2: one cut in the middle of the text, not necessarily at a blank
\*        3: a new line after every run of backslashes (the line then ends in run + 1 backslashes)
\*        4: a new line after every backslash (continuation lines that start with a backslash, lines that are
\*           nothing but `\\`)          5: a new line after the first backslash of every run
\*   ind  0/1/2: continuation lines are not indented / by blanks / by a tab (1, 2: also the first line)
\*   csuf how a continuation line ends   0: `\`   1: `\` and trailing blanks   2: `\ # comment`   3: `\# comment`
\*   lsuf how the last line ends         0: nothing  1: ` # comment`  2: trailing blanks  3: `# comment` right after the text
\*   sep  what stands between two lines of the phrase and after it
\*        0: nothing  1: a blank line  2: a comment line  3: a comment line that ends in `\`
\*   eofc TRUE: the last line of the phrase also ends in `\` (legal only at the end of the file)
CMT  == <<HASH, SP, 90, 90>>                                   \* "# ZZ"
CMTB == <<SP, HASH, 90, SP, BSL>>                              \* " #Z \"
PhraseOf(d) == d.name \o <<SP>> \o d.body
InLayoutDomain(d) ==
  LET p == PhraseOf(d) IN
  /\ d.name # <<>> /\ ~HasByteL(d.name, SP)
  /\ \A i \in 1..Len(p) : p[i] \notin {HASH, LF, CR, TAB}
  /\ p[Len(p)] \notin {SP, BSL} /\ d.body # <<>> /\ d.body[1] # SP
CutOK(p, k) == k >= 1 /\ k < Len(p) /\ p[k + 1] # SP
CutsOf(p, cut) ==
  CASE cut = 0 -> {}
    [] cut = 1 -> {k \in 1..(Len(p) - 1) : p[k] = SP /\ CutOK(p, k)}
    [] cut = 2 -> LET C == {k \in (Len(p) \div 2)..(Len(p) - 1) : CutOK(p, k)} IN IF C = {} THEN {} ELSE {MinOf(C)}
    [] cut = 3 -> {k \in 1..(Len(p) - 1) : p[k] = BSL /\ p[k + 1] # BSL /\ CutOK(p, k)}
    [] cut = 4 -> {k \in 1..(Len(p) - 1) : p[k] = BSL /\ CutOK(p, k)}
    [] cut = 5 -> {k \in 1..(Len(p) - 1) : p[k] = BSL /\ (k = 1 \/ p[k - 1] # BSL) /\ CutOK(p, k)}
RECURSIVE PiecesFrom(_, _, _)
PiecesFrom(p, from, cuts) ==
  LET C == {k \in cuts : k >= from} IN
  IF C = {} THEN <<SubSeq(p, from, Len(p))>>
  ELSE <<SubSeq(p, from, MinOf(C))>> \o PiecesFrom(p, MinOf(C) + 1, cuts)
Indent(ind) == CASE ind = 0 -> <<>> [] ind = 1 -> <<SP, SP>> [] ind = 2 -> <<TAB>>
ContSuffix(c) == CASE c = 0 -> <<BSL>> [] c = 1 -> <<BSL, SP, SP>> [] c = 2 -> <<BSL, SP>> \o CMT [] c = 3 -> <<BSL>> \o CMT
LastSuffix(l) == CASE l = 0 -> <<>> [] l = 1 -> <<SP>> \o CMT [] l = 2 -> <<SP, SP>> [] l = 3 -> CMT
SepLines(sep) == CASE sep = 0 -> <<>> [] sep = 1 -> <<<<>>>> [] sep = 2 -> <<CMT>> [] sep = 3 -> <<CMTB>>
RECURSIVE LayPieces(_, _, _)
LayPieces(ps, j, st) ==
  IF j > Len(ps) THEN <<>>
  ELSE LET last == j = Len(ps)
           ind == IF j > 1 \/ st.ind > 0 THEN Indent(st.ind) ELSE <<>>
           line == ind \o ps[j] \o (IF last THEN (IF st.eofc THEN <<BSL>> ELSE LastSuffix(st.lsuf)) ELSE ContSuffix(st.csuf))
       IN <<line>> \o (IF last /\ st.eofc THEN <<>> ELSE SepLines(st.sep)) \o LayPieces(ps, j + 1, st)
LayDef(d, st) == LET p == PhraseOf(d) IN LayPieces(PiecesFrom(p, 1, CutsOf(p, st.cut)), 1, st)
Style(cut, ind, csuf, lsuf, sep, eofc) == [cut |-> cut, ind |-> ind, csuf |-> csuf, lsuf |-> lsuf, sep |-> sep, eofc |-> eofc]
\* the file of a list of definitions; styles[i] is the style of definition i (eofc is honoured for the last one only)
RECURSIVE LayFile(_, _, _)
LayFile(ds, styles, i) ==
  IF i > Len(ds) THEN <<>>
  ELSE LayDef(ds[i], [styles[i] EXCEPT !.eofc = @ /\ i = Len(ds)]) \o LayFile(ds, styles, i + 1)

\* ---------------------------------------------------------------- the documentation's example
\* documentation example (docs/usage/funcsfile.md), line by line
DocExample == <<
  <<35,32,65,108,108,111,119,115,32,99,111,109,109,101,110,116,115,32,116,104,97,116,32,115,116,97,114,116,32,119,105,116,104,32,39,35,39>>,
  <<110,97,109,101,45,111,102,45,102,117,110,99,32,123,115,117,109,105,32,123,48,125,32,123,49,125,125,32,35,32,99,111,109,109,101,110,116,115,32,99,97,110,32,97,108,115,111,32,103,111,32,104,101,114,101>>,
  <<>>,
  <<35,32,77,117,108,116,105,45,108,105,110,101,32,101,110,100,115,32,119,105,116,104,32,39,92,39>>,
  <<99,108,97,115,115,105,102,121,108,101,110,32,123,115,119,105,116,99,104,32,92>>,
  <<32,32,32,32,35,32,115,104,111,114,116,32,115,116,114,105,110,103>>,
  <<32,32,32,32,123,108,116,32,123,108,101,110,32,123,48,125,125,32,53,125,32,115,104,111,114,116,32,92>>,
  <<32,32,32,32,35,32,108,111,110,103,32,115,116,114,105,110,103>>,
  <<32,32,32,32,123,103,116,32,123,108,101,110,32,123,48,125,125,32,49,53,125,32,108,111,110,103,32,92>>,
  <<32,32,32,32,109,101,100,105,117,109,32,92,32,35,32,101,108,115,101,44,32,109,101,100,105,117,109>>,
  <<125>> >>
DocMeaning == <<
  [name |-> <<110,97,109,101,45,111,102,45,102,117,110,99>>, body |-> <<123,115,117,109,105,32,123,48,125,32,123,49,125,125>>],
  [name |-> <<99,108,97,115,115,105,102,121,108,101,110>>,
   body |-> <<123,115,119,105,116,99,104,32,123,108,116,32,123,108,101,110,32,123,48,125,125,32,53,125,32,115,104,111,114,116,32,
              123,103,116,32,123,108,101,110,32,123,48,125,125,32,49,53,125,32,108,111,110,103,32,109,101,100,105,117,109,32,125>>] >>

\* ---------------------------------------------------------------- invariants of the loader
HasByte(s, b) == HasByteL(s, b)
\* what the documentation promises about comments and continuation lines
NoLeak(ds) ==
  \A i \in 1..Len(ds) :
    /\ ~HasByte(ds[i].body, HASH) /\ ~HasByte(ds[i].name, HASH)        \* nothing of a comment
    /\ ~HasByte(ds[i].name, SP) /\ ds[i].name # <<>>
    /\ ~HasByte(ds[i].body, LF)
=============================================================================

------------------------------- MODULE LogLock -------------------------------
(* The lock protocol of pkg/logger (LogDefer.tla without data): printers take the *)
(* read lock around "read the sink; write one line", the controller takes the    *)
(* write lock around "switch the sink (and flush)"; a waiting writer keeps new    *)
(* readers out.  Proved with TLAPS for ANY set of printers: while the controller  *)
(* is between Lock and Unlock no printer is inside its critical section, and a    *)
(* printer that is inside holds the read lock - so no printer ever writes to a    *)
(* sink it read before a switch (the reason NoLoss / ExactlyOnce of LogDefer hold *)
(* beyond the bounds TLC explored).                                               *)
EXTENDS Integers, FiniteSets, TLAPS
CONSTANT Writers
VARIABLES rd, wr, want, wpc, cpc
vars == <<rd, wr, want, wpc, cpc>>

Init == /\ rd = {} /\ wr = FALSE /\ want = FALSE
        /\ wpc = [w \in Writers |-> "idle"] /\ cpc = "idle"

PBegin(w) == /\ wpc[w] = "idle" /\ ~wr /\ ~want
             /\ rd' = rd \cup {w} /\ wpc' = [wpc EXCEPT ![w] = "locked"]
             /\ UNCHANGED <<wr, want, cpc>>
PWrite(w) == /\ wpc[w] = "locked"
             /\ wpc' = [wpc EXCEPT ![w] = "written"]
             /\ UNCHANGED <<rd, wr, want, cpc>>
PEnd(w) ==   /\ wpc[w] = "written"
             /\ rd' = rd \ {w} /\ wpc' = [wpc EXCEPT ![w] = "idle"]
             /\ UNCHANGED <<wr, want, cpc>>
CCall ==   /\ cpc = "idle" /\ cpc' = "wait" /\ want' = TRUE /\ UNCHANGED <<rd, wr, wpc>>
CLock ==   /\ cpc = "wait" /\ rd = {} /\ wr' = TRUE /\ want' = FALSE /\ cpc' = "in" /\ UNCHANGED <<rd, wpc>>
CSwitch == /\ cpc = "in" /\ cpc' = "out" /\ UNCHANGED <<rd, wr, want, wpc>>
CUnlock == /\ cpc = "out" /\ wr' = FALSE /\ cpc' = "idle" /\ UNCHANGED <<rd, want, wpc>>

Next == (\E w \in Writers : PBegin(w) \/ PWrite(w) \/ PEnd(w)) \/ CCall \/ CLock \/ CSwitch \/ CUnlock
Spec == Init /\ [][Next]_vars

TypeOK == /\ rd \subseteq Writers /\ wr \in BOOLEAN /\ want \in BOOLEAN
          /\ wpc \in [Writers -> {"idle", "locked", "written"}]
          /\ cpc \in {"idle", "wait", "in", "out"}
Inside(w) == wpc[w] \in {"locked", "written"}
\* the property: the controller's critical section excludes every printer's
Excl == cpc \in {"in", "out"} => \A w \in Writers : ~Inside(w)
IndInv == /\ TypeOK
          /\ \A w \in Writers : Inside(w) <=> w \in rd
          /\ wr <=> cpc \in {"in", "out"}
          /\ wr => rd = {}
          /\ want <=> cpc = "wait"

THEOREM Safety == Spec => []Excl
<1>1. Init => IndInv
  BY DEF Init, IndInv, TypeOK, Inside
<1>2. IndInv /\ [Next]_vars => IndInv'
  <2> SUFFICES ASSUME IndInv, [Next]_vars PROVE IndInv'
    OBVIOUS
  <2>1. ASSUME NEW w \in Writers, PBegin(w) PROVE IndInv'
    BY <2>1 DEF IndInv, TypeOK, Inside, PBegin
  <2>2. ASSUME NEW w \in Writers, PWrite(w) PROVE IndInv'
    BY <2>2 DEF IndInv, TypeOK, Inside, PWrite
  <2>3. ASSUME NEW w \in Writers, PEnd(w) PROVE IndInv'
    BY <2>3 DEF IndInv, TypeOK, Inside, PEnd
  <2>4. CASE CCall
    BY <2>4 DEF IndInv, TypeOK, Inside, CCall
  <2>5. CASE CLock
    BY <2>5 DEF IndInv, TypeOK, Inside, CLock
  <2>6. CASE CSwitch
    BY <2>6 DEF IndInv, TypeOK, Inside, CSwitch
  <2>7. CASE CUnlock
    BY <2>7 DEF IndInv, TypeOK, Inside, CUnlock
  <2>8. CASE UNCHANGED vars
    BY <2>8 DEF IndInv, TypeOK, Inside, vars
  <2> QED
    BY <2>1, <2>2, <2>3, <2>4, <2>5, <2>6, <2>7, <2>8 DEF Next
<1>3. IndInv => Excl
  BY DEF IndInv, Excl, Inside, TypeOK
<1> QED
  BY <1>1, <1>2, <1>3, PTL DEF Spec
=============================================================================

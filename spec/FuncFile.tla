------------------------------ MODULE FuncFile ------------------------------
(* C10 - the funcs-file loader (pkg/expressions/funcfile/loader.go) as a state   *)
(* machine over PHYSICAL LINES, and the documented meaning of a funcs file       *)
(* (docs/usage/funcsfile.md) as a declarative function of the same lines.        *)
(*                                                                               *)
(* docs:  "A functions file is key-value pairs of name to expression.  Lines     *)
(*         starting with #, or any characters after #, are considered comments.  *)
(*         Expressions can be multi-line by ending the previous line with a \."  *)
(*        (the example ends a line with `medium \ # else, medium`: the comment   *)
(*         is removed first, then the line is a continuation line)               *)
(*                                                                               *)
(* A line is a sequence of bytes (no LF).  The file is a sequence of lines.      *)
(*                                                                               *)
(*  declarative  Meaning(lines): strip the comment and the surrounding blanks    *)
(*               of every line, drop what is then empty, cut the rest into       *)
(*               phrases (zero or more lines ending in `\`, then one that does   *)
(*               not - or the end of the file), a phrase's text is its lines     *)
(*               without their final `\`, concatenated; a phrase `name body`     *)
(*               (first blank separates) is a definition, a phrase without a     *)
(*               blank defines nothing.                                          *)
(*  machine      the loader written like the code: one action per scanner.Scan() *)
(*               (variables sb, linenum, defs, the inner/outer loop position),   *)
(*               EOF handling included.                                          *)
(* TLC checks (FuncFile_MC) that the machine computes Meaning for every file of  *)
(* up to N lines over a line alphabet containing every documented line form,     *)
(* and the loader invariants.                                                    *)
EXTENDS FuncFileOps

CONSTANT TrimAll   \* FALSE: the code (TrimSuffix: one backslash is the continuation mark).  TRUE: negative control
                   \* (TrimRight: every trailing backslash goes) - must be refuted against Meaning
Unmark(line) == IF TrimAll THEN DropAllBsl(line) ELSE DropBsl(line)
CONSTANTS Builtins,  \* names the loading compiler knows before the file (the standard helpers)
          OnError    \* what a definition that does not compile does to the others.  "skip": the code (reported, not
                     \* registered, the loader goes on, everything that compiled is delivered).  Negative controls:
                     \* "dropall" - the loader hands back nothing at all when any definition failed (`return nil, err`);
                     \* "stop" - the loader gives up at the first failing definition

\* ---------------------------------------------------------------- the loader as a state machine
\* pc: "scan" (inner loop: the next scanner.Scan()) | "emit" (a phrase is complete) | "done"
VARIABLES file,      \* the physical lines
          pos,       \* lines consumed by the scanner
          sb,        \* strings.Builder of the phrase being read
          linenum,
          defs,      \* definitions registered so far, in order
          skipped,   \* phrases without an expression ("Missing expression")
          regs,      \* the definitions that compiled: compiler.Func(name, ..) and ret[name] = fnc
          errs,      \* definitions that did not compile
          pc
lvars == <<file, pos, sb, linenum, defs, skipped, regs, errs, pc>>

LInit(f) == file = f /\ pos = 0 /\ sb = <<>> /\ linenum = 0 /\ defs = <<>> /\ skipped = 0 /\ regs = <<>> /\ errs = 0 /\ pc = "scan"

\* for scanner.Scan() { linenum++ ; line := TrimSpace(trimAfter(..)) ; if line == "" { continue } ...
Scan ==
  /\ pc = "scan" /\ pos < Len(file)
  /\ pos' = pos + 1 /\ linenum' = linenum + 1
  /\ LET line == StripLine(file[pos + 1]) IN
     IF line = <<>> THEN UNCHANGED <<sb, pc>>                                    \* continue
     ELSE IF IsCont(line) THEN sb' = sb \o Unmark(line) /\ UNCHANGED pc          \* multiline
     ELSE sb' = sb \o line /\ pc' = "emit"                                       \* break
  /\ UNCHANGED <<file, defs, skipped, regs, errs>>
\* scanner.Scan() returns false: the inner loop ends
Eof ==
  /\ pc = "scan" /\ pos = Len(file)
  /\ pc' = IF sb = <<>> THEN "done" ELSE "emit"                                  \* if sb.Len() == 0 { break }
  /\ UNCHANGED <<file, pos, sb, linenum, defs, skipped, regs, errs>>
\* args := strings.SplitN(phrase, " ", 2) ... ret[args[0]] = fnc ; next round of the outer loop
Emit ==
  /\ pc = "emit"
  /\ LET d == DefOf(sb)
         def == [name |-> d.name, body |-> d.body]
         good == d.ok /\ CompilesB(d.body, Builtins \cup NamesOf(regs))      \* createAndAddFunc: compiler.Compile(expr)
     IN
     /\ IF d.ok THEN defs' = Append(defs, def) /\ UNCHANGED skipped
        ELSE skipped' = skipped + 1 /\ UNCHANGED defs
     /\ IF good THEN regs' = Append(regs, def) /\ UNCHANGED errs               \* compiler.Func(name, fnc); ret[name] = fnc
        ELSE IF d.ok THEN errs' = errs + 1 /\ UNCHANGED regs                    \* logged, errors++
        ELSE UNCHANGED <<regs, errs>>
     /\ pc' = IF d.ok /\ ~good /\ OnError = "stop" THEN "done" ELSE "scan"
  /\ sb' = <<>>
  /\ UNCHANGED <<file, pos, linenum>>
\* what the caller (main.go: funclib.TryAddFunctions(LoadDefinitionsFile(..))) is handed, and so what every key builder
\* of the process knows afterwards
Delivered == IF OnError = "dropall" /\ errs > 0 THEN <<>> ELSE regs
LNext == Scan \/ Eof \/ Emit

LineCount == linenum = pos /\ pos <= Len(file)
=============================================================================

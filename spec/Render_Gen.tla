----------------------------- MODULE Render_Gen -----------------------------
(* B1 generator for C14.                                                          *)
(*  Mode "fn"   : one vector per call of a drawing primitive over small ranges,     *)
(*                with every result Render.tla accepts (the exact floor, and the   *)
(*                neighbour binary rounding may produce at exact integer products). *)
(*  Mode "states" : aggregator states (kind ctr | sub | tbl, alphabet profile 1 | 2   *)
(*                chosen by the initial state).  The state machines of              *)
(*                Aggregators.tla (C07) are driven with the samples of a profile;   *)
(*                histories are kept sorted (count-style aggregators commute), so   *)
(*                every multiset of samples up to MaxLen is one vector: the history *)
(*                and the aggregated state the renderers must display.              *)
EXTENDS Aggregators, Render, Json

CONSTANTS Mode,       \* "fn" | "states"
          MaxLen      \* states: longest history; fn: 1 = smaller ranges, 2 = larger
VARIABLES hist, fn, kind, prof

gvars == <<ctr, sub, tbl, num, acc, hist, fn, kind, prof>>

\* ------------------------------------------------------------------ key pools
kA == <<97>>   kB == <<98>>   kC == <<99>>   kX == <<120>>   kY == <<121>>   kE == <<>>
kLong  == [i \in 1..22 |-> 97 + (i % 26)]                         \* longer than every default column width
kMulti == <<195, 169, 226, 136, 145, 230, 151, 165>>               \* UTF-8 of e-acute, n-ary sum, a CJK ideograph
kEsc   == <<27, 91, 51, 49, 109, 82, 27, 91, 48, 109>>             \* ESC[31mR ESC[0m
kSpace == <<97, 32, 98>>                                           \* "a b"
kNum   == <<49, 50>>                                               \* "12" (looks like a number / a bar key)
RElem(parts) == JoinSeq(parts, <<NUL>>)
D(n) == Itoa(n)

RElemsOf(M, Profile) ==
  CASE M = "ctr" /\ Profile = 1 ->          \* values: zero, negative, equal, huge
         {RElem(<<kA>>), RElem(<<kA, D(0)>>), RElem(<<kA, D(-3)>>), RElem(<<kB>>), RElem(<<kB, D(7)>>), RElem(<<kB, D(0)>>),
          RElem(<<kC, D(500000000)>>), RElem(<<kC, D(-3)>>), RElem(<<kC, D(999)>>)}
    [] M = "ctr" ->                          \* keys: empty, long, multi-byte, escape-containing, with a space, numeric
         {RElem(<<kE>>), RElem(<<kLong>>), RElem(<<kMulti>>), RElem(<<kEsc, D(2)>>), RElem(<<kSpace>>), RElem(<<kNum, D(100)>>),
          RElem(<<kLong, D(-1)>>), RElem(<<kA, D(3)>>)}
    [] M = "sub" /\ Profile = 1 ->
         {RElem(<<kA, kX>>), RElem(<<kA, kY, D(0)>>), RElem(<<kA, kY, D(5)>>), RElem(<<kB, kX, D(-2)>>), RElem(<<kB, kY>>),
          RElem(<<kB, kE, D(4)>>), RElem(<<kA, kX, D(1000000)>>), RElem(<<kC, kX, D(0)>>), RElem(<<kA, kE, D(-9)>>)}
    [] M = "sub" ->
         {RElem(<<kE, kX>>), RElem(<<kLong, kLong, D(2)>>), RElem(<<kMulti, kMulti>>), RElem(<<kEsc, kEsc, D(3)>>),
          RElem(<<kSpace, kY, D(2)>>), RElem(<<kA>>), RElem(<<kA, kE, D(0)>>), RElem(<<kNum, kNum, D(6)>>)}
    [] M = "tbl" /\ Profile = 1 ->            \* column NUL row NUL increment
         {RElem(<<kA, kX>>), RElem(<<kA, kY, D(0)>>), RElem(<<kB, kX, D(-4)>>), RElem(<<kB, kY, D(9)>>), RElem(<<kC, kX, D(15)>>),
          RElem(<<kC, kY, D(500000000)>>), RElem(<<kA, kX, D(2)>>), RElem(<<kB, kB, D(0)>>), RElem(<<kC, kE, D(-1)>>)}
    [] M = "tbl" ->
         {RElem(<<kE, kX>>), RElem(<<kE, kE, D(2)>>), RElem(<<kLong, kLong, D(3)>>), RElem(<<kMulti, kMulti>>), RElem(<<kEsc, kEsc, D(5)>>),
          RElem(<<kSpace, kA, D(2)>>), RElem(<<kA, kX, D(12)>>), RElem(<<kNum, kX, D(7)>>), RElem(<<kB>>)}
    [] OTHER -> {}
RElems == {}
RNoPreds == {}
RAccCfg == AccCfgOf(3)

\* ------------------------------------------------------ aggregator states
SInit == AInit /\ hist = <<>> /\ fn = 0 /\ kind \in {"ctr", "sub", "tbl"} /\ prof \in {1, 2}
Sorted(el) == IF hist = <<>> THEN TRUE ELSE ~BytesLess(el, hist[Len(hist)])
SNext ==
  /\ Len(hist) < MaxLen /\ UNCHANGED <<fn, kind, prof>>
  /\ \E el \in RElemsOf(kind, prof) :
       /\ Sorted(el) /\ hist' = Append(hist, el)
       /\ CASE kind = "ctr" -> ASampleCtr(el) [] kind = "sub" -> ASampleSub(el) [] OTHER -> ASampleTbl(el)

Pairs(f) == {<<k, f[k]>> : k \in DOMAIN f}
ExpState ==
  CASE kind = "ctr" -> [items |-> Pairs(ctr.cnt), total |-> CtrTotal(ctr)]
    [] kind = "sub" -> [subkeys |-> GridBs(sub),
                        rows |-> {<<a, {<<b, GridAt(sub, a, b)>> : b \in GridBs(sub)}>> : a \in GridAs(sub)}]
    [] OTHER        -> [cols |-> GridBs(tbl),
                        rows |-> {<<a, {<<b, GridAt(tbl, a, b)>> : b \in GridBs(tbl)}>> : a \in GridAs(tbl)},
                        min |-> GridMinMax(tbl)[1], max |-> GridMinMax(tbl)[2]]
\* the state machine agrees with the order-free fold (C07's law, re-checked on these alphabets)
SFoldOK ==
  CASE kind = "ctr" -> ctr = CtrFold(hist) [] kind = "sub" -> sub = SubFold(hist) [] OTHER -> tbl = TblFold(hist)
SDump == PrintT("VFJ " \o ToJson([k |-> "state", agg |-> kind, prof |-> prof, h |-> hist, exp |-> ExpState]))

\* -------------------------------------------------------- primitive calls
Vals == IF MaxLen <= 1 THEN -3..6 ELSE -3..9
Units == {u \in (0..12) \X (1..12) : u[1] <= u[2]}
\* every n the specification accepts for floor(u * k)
FloorAlts(u, k) == {n \in 0..k : FloorObs(n, u[1], k, u[2])}
FnCalls ==
  [f : {"scale"}, a : {<<v, mn, mx>> : v \in Vals, mn \in Vals, mx \in Vals}]
  \cup [f : {"bucket"}, a : {<<b, v, mn, mx>> : b \in {4, 10, 16}, v \in {-3, 0, 1, 2, 5, 8, 9}, mn \in {-3, 0, 2}, mx \in {-3, 0, 3, 8}}]
  \cup [f : {"length"}, a : {<<L, v, mn, mx>> : L \in {0, 1, 7, 50}, v \in {-3, 0, 1, 2, 5, 8, 9}, mn \in {-3, 0, 2}, mx \in {-3, 0, 3, 8}}]
  \cup [f : {"keys"}, a : {<<b, mn, mx>> : b \in {2, 6}, mn \in Vals, mx \in Vals}]
  \cup [f : {"bar"}, a : {<<u[1], u[2], L, uni>> : u \in Units, L \in {0, 1, 3, 10}, uni \in {0, 1}}]
  \cup [f : {"stack"}, a : {<<mv, ml, col, uni, x, y, z>> : mv \in {0, 1, 5, 9}, ml \in {0, 3, 10}, col \in {0, 1}, uni \in {0, 1},
                            x \in {-1, 0, 2, 9}, y \in {0, 3}, z \in {0, 1, 11}}]
  \cup [f : {"heat"}, a : {<<u[1], u[2], col, uni>> : u \in Units, col \in {0, 1}, uni \in {0, 1}}]
  \cup [f : {"spark"}, a : {<<u[1], u[2], uni>> : u \in Units, uni \in {0, 1}}]
  \cup [f : {"hi"}, a : {<<v>> : v \in {x * m : x \in -11..11, m \in {1, 10, 91, 1000, 100003}} \cup {2147483647, -2147483647}}]
  \cup [f : {"strlen"}, a : {<<col>> \o t : col \in {0, 1}, t \in {kE, kA, kLong, kMulti, kEsc, kSpace, kEsc \o kMulti \o kEsc, Wrap(GroupColor(7), kMulti)}}]
B(x) == x = 1
\* the set of acceptable results, each a sequence of integers
FnExpect(call) ==
  LET a == call.a IN
  CASE call.f = "scale"  -> {LinScale(a[1], a[2], a[3])}
    [] call.f = "bucket" -> {<<n>> : n \in {m \in FloorAlts(LinScale(a[2], a[3], a[4]), a[1] - 1) : m <= a[1] - 1}}
    [] call.f = "length" -> {<<n>> : n \in FloorAlts(LinScale(a[2], a[3], a[4]), a[1])}
    [] call.f = "keys"   -> {LinScaleKeys(a[1], a[2], a[3])}
    [] call.f = "bar"    -> IF B(a[4]) THEN {BarRunesUni(n) : n \in FloorAlts(<<a[1], a[2]>>, 9 * a[3])}
                            ELSE {BarRunesAscii(n) : n \in FloorAlts(<<a[1], a[2]>>, a[3])}
    [] call.f = "stack"  -> {StackRaw(SubSeq(a, 5, 7), a[1], a[2], B(a[3]), B(a[4]))}
    [] call.f = "heat"   -> {HeatRaw(n, B(a[3]), B(a[4])) : n \in FloorAlts(<<a[1], a[2]>>, HeatBuckets(B(a[3])) - 1)}
    [] call.f = "spark"  -> {<<SparkGlyph(n, B(a[3]))>> : n \in FloorAlts(<<a[1], a[2]>>, SparkLen(B(a[3])) - 1)}
    [] call.f = "hi"     -> {Hi(a[1])}
    [] call.f = "strlen" -> {<<VisLen(Tail(a), B(a[1]))>>}

FInit == AInit /\ hist = <<>> /\ fn \in FnCalls /\ kind = "fn" /\ prof = 0
FNext == UNCHANGED gvars
FDump == PrintT("VFJ " \o ToJson([k |-> "fn", f |-> fn.f, a |-> fn.a, exp |-> FnExpect(fn)]))
\* every vector has at least one acceptable result, at most two
FSane == Cardinality(FnExpect(fn)) \in {1, 2}

GInit == IF Mode = "fn" THEN FInit ELSE SInit
GNext == IF Mode = "fn" THEN FNext ELSE SNext
Dump  == IF Mode = "fn" THEN FDump ELSE SDump
Sane  == IF Mode = "fn" THEN FSane ELSE SFoldOK
=============================================================================

---------------------------- MODULE ScannerBatch ----------------------------
(* C04 - the batching layer that sits directly on top of the line scanner:       *)
(* Batcher.syncReaderToBatcher / syncReaderToBatcherWithTimeFlush                *)
(* (pkg/extractor/batchers/batcher.go).                                          *)
(*                                                                               *)
(* "A slice handed out for one line keeps its contents for as long as the caller *)
(* holds it" has a second level here: what the caller of the batcher receives is *)
(* a SLICE OF LINES (extractor.InputBatch.Batch, a []BString) - a view (array    *)
(* id, length) into a backing array of slice headers, each header a view into    *)
(* one of the scanner's read buffers (ScannerImm's memory model, unchanged).     *)
(* The reader goroutine keeps appending lines to "its" batch while the batches   *)
(* it already sent are queued in the channel or held by the consumer.            *)
(*                                                                               *)
(*   for readahead.Scan() {                                                      *)
(*     batch = append(batch, readahead.Bytes())                  BAppend         *)
(*     if len(batch) >= batchSize || time.Since(last) >= autoFlush {             *)
(*        c <- InputBatch{batch, source, batchStart}             FlushFull/Timer *)
(*        batchStart += len(batch); batch = make(.., 0, batchSize); last = now   *)
(*     } }                                                                       *)
(*   if len(batch) > 0 { c <- ... }                              FlushFinal      *)
(*                                                                               *)
(* ReuseOn selects after which kind of flush the batch's backing array is        *)
(* recycled (batch = batch[:0]) instead of replaced by a fresh make():           *)
(*   "never"  the code                                                           *)
(*   "final"  harmless (nothing is appended after the final flush): must pass    *)
(*   "timer"  negative control: TLC must refute BatchLifetime / BatchLinesOK     *)
(*   "full"   negative control: TLC must refute BatchLifetime / BatchLinesOK     *)
EXTENDS ScannerImm

CONSTANTS PBatch,    \* batchSize (>= 1)
          Timed,     \* TRUE: syncReaderToBatcherWithTimeFlush (stdin, follow); FALSE: syncReaderToBatcher (files)
          ReuseOn    \* "never" | "timer" | "full" | "final"

VARIABLES arrs,      \* every backing array of a []BString ever made: sequence of [1..PBatch -> header]
          ba, bl,    \* the reader's current batch: a view (array id, length) into arrs
          bcur,      \* ghost: numbers (indices into handed) of the lines in the current batch
          bstart,    \* batchStart: 1 + number of lines in the batches sent so far
          elapsed,   \* time.Since(lastBatchFlush) >= autoFlush
          bpc,       \* reader loop: "scan" | "append" | "decide" | "final" | "closed"
          sent,      \* every batch handed to the channel: [a, n, start, kind, lines (ghost)]
          held       \* indices into sent: batches queued in the channel or still held by the consumer

bvars == <<arrs, ba, bl, bcur, bstart, elapsed, bpc, sent, held>>
allvars == <<vars, bvars>>

\* a BString slice header: which buffer, which bytes (0,0,0 = a slot never written)
NoHdr == [b |-> 0, lo |-> 0, hi |-> 0]
Hdr(k) == [b |-> handed[k].b, lo |-> handed[k].lo, hi |-> handed[k].hi]
HdrBytes(h) == IF h.b = 0 THEN <<>> ELSE SubSeq(bufs[h.b], h.lo + 1, h.hi)
EmptyArr == [k \in 1..PBatch |-> NoHdr]

BInit ==
  /\ Init
  /\ arrs = <<EmptyArr>> /\ ba = 1 /\ bl = 0 /\ bcur = <<>> /\ bstart = 1
  /\ elapsed = FALSE /\ bpc = "scan" /\ sent = <<>> /\ held = {}

\* ---- the reader loop ---------------------------------------------------------------------
\* readahead.Scan(): one step of ScannerImm (every branch, the environment picks the Read results)
BScan ==
  /\ bpc = "scan"
  /\ Next
  /\ bpc' = IF Len(handed') > Len(handed) THEN "append"          \* Scan() returned true
            ELSE IF done' /\ ~done THEN "final"                   \* Scan() returned false
            ELSE "scan"
  /\ UNCHANGED <<arrs, ba, bl, bcur, bstart, elapsed, sent, held>>

\* batch = append(batch, readahead.Bytes()) : writes slot bl+1 of the current backing array
BAppend ==
  /\ bpc = "append"
  /\ arrs' = [arrs EXCEPT ![ba][bl + 1] = Hdr(Len(handed))]
  /\ bl' = bl + 1
  /\ bcur' = Append(bcur, Len(handed))
  /\ bpc' = "decide"
  /\ UNCHANGED <<vars, ba, bstart, elapsed, sent, held>>

\* c <- InputBatch{Batch: batch, BatchStart: batchStart}; then the next batch
Flush(kind) ==
  /\ sent' = Append(sent, [a |-> ba, n |-> bl, start |-> bstart, kind |-> kind, lines |-> bcur])
  /\ held' = held \cup {Len(sent) + 1}
  /\ bstart' = bstart + bl
  /\ bl' = 0 /\ bcur' = <<>>
  /\ elapsed' = FALSE                                             \* lastBatchFlush = time.Now()
  /\ IF ReuseOn = kind
     THEN UNCHANGED <<arrs, ba>>                                  \* batch = batch[:0]
     ELSE /\ arrs' = Append(arrs, EmptyArr)                       \* batch = make([]BString, 0, batchSize)
          /\ ba' = Len(arrs) + 1
  /\ UNCHANGED vars

FlushFull  == bpc = "decide" /\ bl >= PBatch /\ Flush("full") /\ bpc' = "scan"
FlushTimer == bpc = "decide" /\ bl < PBatch /\ Timed /\ elapsed /\ Flush("timer") /\ bpc' = "scan"
NoFlush ==
  /\ bpc = "decide" /\ bl < PBatch /\ ~(Timed /\ elapsed)
  /\ bpc' = "scan"
  /\ UNCHANGED <<vars, arrs, ba, bl, bcur, bstart, elapsed, sent, held>>
FlushFinal ==
  /\ bpc = "final"
  /\ IF bl > 0 THEN Flush("final")
     ELSE UNCHANGED <<vars, arrs, ba, bl, bcur, bstart, elapsed, sent, held>>
  /\ bpc' = "closed"

\* ---- the environment -----------------------------------------------------------------------
\* time passes: the source pauses inside Read (TickRead), or the reader goroutine is delayed
\* between Scan() returning and the time check (TickAny)
TickRead ==
  /\ Timed /\ ~elapsed /\ bpc = "scan" /\ pc = "read"
  /\ elapsed' = TRUE
  /\ UNCHANGED <<vars, arrs, ba, bl, bcur, bstart, bpc, sent, held>>
TickAny ==
  /\ Timed /\ ~elapsed /\ bpc = "append"
  /\ elapsed' = TRUE
  /\ UNCHANGED <<vars, arrs, ba, bl, bcur, bstart, bpc, sent, held>>
\* the consumer is done with a batch (any held batch, any time)
Release ==
  /\ \E i \in held : held' = held \ {i}
  /\ UNCHANGED <<vars, arrs, ba, bl, bcur, bstart, elapsed, bpc, sent>>

BNext == BScan \/ BAppend \/ FlushFull \/ FlushTimer \/ NoFlush \/ FlushFinal \/ TickRead \/ TickAny \/ Release
BSpec == BInit /\ [][BNext]_allvars /\ WF_allvars(BScan \/ BAppend \/ FlushFull \/ FlushTimer \/ NoFlush \/ FlushFinal)

\* ---- properties ----------------------------------------------------------------------------
Truth == A!RefSplit(delivered, st # "open")

BTypeOK ==
  /\ bpc \in {"scan", "append", "decide", "final", "closed"}
  /\ ba \in 1..Len(arrs) /\ bl \in 0..PBatch /\ Len(bcur) = bl
  /\ held \subseteq 1..Len(sent)
  /\ elapsed => Timed

\* what a holder of batch i reads NOW: the line headers in its slice, the bytes under them
BatchHdrs(i)  == [k \in 1..sent[i].n |-> arrs[sent[i].a][k]]
BatchBytes(i) == [k \in 1..sent[i].n |-> HdrBytes(arrs[sent[i].a][k])]

\* the slice of lines handed to the channel keeps its line views for as long as it is held ...
BatchLifetime == \A i \in held : BatchHdrs(i) = [k \in 1..sent[i].n |-> Hdr(sent[i].lines[k])]
\* ... stated on steps: no step (in particular no append) writes a slot of a held batch
BatchStable ==
  [][\A i \in held : i \in held' => \A k \in 1..sent[i].n : arrs'[sent[i].a][k] = arrs[sent[i].a][k]]_allvars
\* ... and composed with C04's Lifetime of the scanner's buffers: the holder of batch i reads the lines
\* number start .. start+n-1 of the byte stream
BatchLinesOK == held # {} => LET T == Truth IN
                \A i \in held : BatchBytes(i) = SubSeq(T, sent[i].start, sent[i].start + sent[i].n - 1)

\* batches partition the scanner's token sequence, in order; BatchStart is the running count
PartitionOK ==
  /\ \A i \in 1..Len(sent) :
       /\ sent[i].n \in 1..PBatch
       /\ sent[i].lines = [k \in 1..sent[i].n |-> sent[i].start + k - 1]
       /\ sent[i].start = IF i = 1 THEN 1 ELSE sent[i - 1].start + sent[i - 1].n
  /\ bstart = IF sent = <<>> THEN 1 ELSE sent[Len(sent)].start + sent[Len(sent)].n
  /\ bcur = [k \in 1..bl |-> bstart + k - 1]
  /\ bstart + bl - 1 = Len(handed) - (IF bpc = "append" THEN 1 ELSE 0)
\* when a batch is cut: full, timer (timed path only, not full), final (last, at most one)
KindOK ==
  \A i \in 1..Len(sent) :
    /\ sent[i].kind = "full"  => sent[i].n = PBatch
    /\ sent[i].kind = "timer" => Timed /\ sent[i].n < PBatch
    /\ sent[i].kind = "final" => i = Len(sent) /\ bpc = "closed"
    /\ sent[i].kind \in {"full", "timer", "final"}
BFinalOK == bpc = "closed" => LET T == A!RefSplit(delivered, TRUE) IN
  /\ done /\ st # "open" /\ bl = 0
  /\ bstart - 1 = Len(T)
  /\ toks = T
\* the scanner part is ScannerImm, step for step: C04's scanner results carry over unchanged
ScannerIsImm == [][Next]_vars
BTerminates == <>(bpc = "closed")
=============================================================================

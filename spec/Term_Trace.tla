------------------------------ MODULE Term_Trace ------------------------------
(* C20 B2 (and the judge of B1): recorded executions of the REAL writers          *)
(* (multiterm.New(), the buffered writer, WriteLineNoWrap).  The bytes the real    *)
(* code wrote to stdout are interpreted by the emulator of Term.tla and the        *)
(* screen is compared with the oracle of TermOracle.tla after every update and     *)
(* after Close.  Nothing of the transcription (TermWriter/TermTrim) is used.       *)
(*   reset{t, kind: "live"|"buf"|"trim", cols, trim}                               *)
(*   upd{line, text: runes, out: bytes [, exp: rows]}     close{out [, exp, crow, vis]} *)
(*   trim{text, cols, on, out}                                                      *)
(* `exp` (B1 only) is the screen the MODEL predicted for this step.                 *)
(* `latest` holds, per line, what the line must show (Shown of its latest text).    *)
(* A trace the specification cannot explain is recorded in `bad` with the first     *)
(* failing clause and skipped; many traces are concatenated.                        *)
EXTENDS TermOracle, Json, TLC

Trace == ndJsonDeserialize("trace.ndjson")
Above == << <<36>>, <<36, 36>> >>
Base  == Len(Above)

VARIABLES l, tid, kind, cols, trim, term, latest, free, closed, bad, more
tvars == <<l, tid, kind, cols, trim, term, latest, free, closed, bad, more>>
MaxBad == 150       \* rejected traces listed in full; further ones are only counted (`more`)

Ev == Trace[l]
Has(f) == f \in DOMAIN Ev
\* the width of what the bytes go to: a pipe has none
ECols(k, c, tr) == IF k = "buf" /\ ~tr THEN 1000000 ELSE c

RECURSIVE NextReset(_)
NextReset(i) == IF i > Len(Trace) \/ Trace[i].event = "reset" THEN i ELSE NextReset(i + 1)

\* verdict of one event: advance when "ok", otherwise note it and skip to the next trace
Judge(why, t2, lat2, free2, closed2) ==
  IF why = "ok"
  THEN /\ l' = l + 1 /\ term' = t2 /\ latest' = lat2 /\ free' = free2 /\ closed' = closed2
       /\ UNCHANGED <<tid, kind, cols, trim, bad, more>>
  ELSE /\ IF Len(bad) < MaxBad THEN bad' = Append(bad, [t |-> tid, l |-> l, why |-> why]) /\ more' = more
                             ELSE bad' = bad /\ more' = more + 1
       /\ l' = NextReset(l + 1)
       /\ UNCHANGED <<tid, kind, cols, trim, term, latest, free, closed>>

TReset ==
  /\ Ev.event = "reset"
  /\ l' = l + 1 /\ tid' = Ev.t /\ kind' = Ev.kind /\ cols' = Ev.cols /\ trim' = Ev.trim
  /\ term' = NewTerm(ECols(Ev.kind, Ev.cols, Ev.trim), TRUE, Above)
  /\ latest' = <<>> /\ free' = FALSE /\ closed' = FALSE
  /\ UNCHANGED <<bad, more>>

TUpd ==
  /\ Ev.event = "upd"
  /\ LET t2   == Feed(term, Ev.out)
         ec   == ECols(kind, cols, trim)
         dom  == ~free /\ ~closed /\ kind \in {"live", "buf"} /\ InDomain(Ev.line, Ev.text, ec, trim)
         lat2 == IF dom THEN SetLatest(latest, Ev.line, Shown(Ev.text, ec, trim)) ELSE latest
         why  == IF ~dom THEN "ok"                       \* outside the property's domain: nothing expected
                 ELSE IF t2.junk THEN "junk"
                 ELSE IF kind = "buf" THEN "ok"          \* judged at close
                 ELSE IF Why(t2, Above, lat2) # "ok" THEN Why(t2, Above, lat2)
                 ELSE IF Has("exp") /\ Canon(t2, Base) # Ev.exp THEN "b1-screen"
                 ELSE "ok"
     IN Judge(why, t2, lat2, ~dom, closed)

TClose ==
  /\ Ev.event = "close"
  /\ LET t2  == Feed(term, Ev.out)
         ec  == ECols(kind, cols, trim)
         why == IF free \/ closed THEN "ok"
                ELSE IF t2.junk THEN "junk"
                ELSE IF Why(t2, Above, latest) # "ok" THEN Why(t2, Above, latest)
                ELSE IF ~t2.vis THEN "cursor-hidden"
                ELSE IF ~ParkedOK(t2, Above, latest) THEN "cursor-not-below-last-line"
                ELSE IF kind = "buf" /\ t2.ctl THEN "buffered-output-uses-cursor-control"
                ELSE IF Has("exp") /\ (Canon(t2, Base) # Ev.exp \/ t2.r - Base - 1 # Ev.crow \/ t2.vis # Ev.vis)
                     THEN "b1-close"
                ELSE "ok"
     IN Judge(why, t2, latest, free, TRUE)

TPanic == Ev.event = "panic" /\ Judge("panic", term, latest, free, closed)

TTrim ==
  /\ Ev.event = "trim"
  /\ LET cut == Utf8Dec(Ev.out)
         why == IF ~WellFormed(Ev.text) \/ Ev.cols < 1 THEN "ok"
                ELSE IF Ev.on THEN (IF GoodCut(Ev.text, cut, Ev.cols) THEN "ok"
                                    ELSE IF ~IsPrefix(cut, Ev.text) THEN "trim-not-a-prefix"
                                    ELSE IF EndsInsideEscape(cut) THEN "trim-inside-escape"
                                    ELSE IF VisLen(cut) > Ev.cols THEN "trim-too-wide"
                                    ELSE "trim-too-short")
                ELSE IF cut = Ev.text THEN "ok" ELSE "notrim-changed"
     IN Judge(why, term, latest, free, closed)

TInit == l = 1 /\ tid = 0 /\ kind = "none" /\ cols = 1 /\ trim = FALSE /\ term = NewTerm(1, TRUE, Above)
         /\ latest = <<>> /\ free = TRUE /\ closed = TRUE /\ bad = <<>> /\ more = 0
TNext == l <= Len(Trace) /\ (TReset \/ TUpd \/ TClose \/ TTrim \/ TPanic)
TSpec == TInit /\ [][TNext]_tvars

Final == (l = Len(Trace) + 1) => JsonSerialize("bad.json", [bad |-> bad, more |-> more, consumed |-> l - 1, done |-> closed \/ kind = "trim"])
=============================================================================

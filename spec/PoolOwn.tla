------------------------------- MODULE PoolOwn -------------------------------
(* C05 - ownership of pooled evaluation contexts.                               *)
(*                                                                              *)
(* The expression helpers that evaluate a sub-expression in a context of their  *)
(* own take that context from a slicepool.ObjectPool (Get) and hand it back     *)
(* (Return) on the way out; the pool belongs to the compiled stage (the         *)
(* sub-context pool of pkg/expressions/stdlib/funcsRange.go even to the whole   *)
(* package), and the compiled expression is shared by all extractor workers.    *)
(* LockDiscipline.tla shows that Get and Return exclude each other; this module *)
(* says what the helpers owe the pool so that no two evaluations ever work in   *)
(* the same context - the data-race clause and "final output reflects all       *)
(* matches" for every expression that uses one of them:                         *)
(*                                                                              *)
(*   helper   pool    ways out (every one of them is an exit of the model)      *)
(*   @map     sub     end of the array | empty array                            *)
(*   @filter  sub     end of the array | empty array                            *)
(*   @reduce  sub     end of the array | empty array                            *)
(*   @for     sub     condition false | iteration-limit bail-out ("<INF>")      *)
(*   funcs-file function (lazySubContext)  ff    result                         *)
(*   {! math} (keyBuilderContextWrapper)   math  value | error count > 0        *)
(*                                                                              *)
(* An evaluation is a stack of frames (helpers nest: the body of @map may call  *)
(* @for, a funcs-file function, a formula ...); E evaluations (workers) run at  *)
(* once.  Get hands out ANY object of the pool (the order is the pool's own     *)
(* business) or makes a new one when the pool is empty.                         *)
(*                                                                              *)
(* Design = "defer"  the code: exactly one Return per Get on every way out      *)
(*          "double" the way out DP of helper DH returns its object twice       *)
(*                   (an explicit Return next to the deferred one)              *)
(*          "early"  ... returns it before the helper is done with it           *)
(*          "leak"   ... forgets the Return (harmless for ownership: the pool   *)
(*                   just makes a new object next time; must be ACCEPTED)       *)
(* "double" and "early" are negative controls: TLC must refute Own.             *)
EXTENDS Integers, Sequences, FiniteSets, FiniteSetsExt

CONSTANTS E,          \* evaluations that can be in progress at the same time
          MaxDepth,   \* nesting depth of helpers inside one evaluation
          PoolInit,   \* objects a pool is created with
          MaxObj,     \* bound on the objects of one pool (ids 1..MaxObj)
          Design, DH, DP,
          WaySel      \* which helpers / ways out this run explores (helpers of one pool with the same ways out are alike)

Helpers == {"map", "filter", "reduce", "for", "ff", "math"}
Pools   == {"sub", "ff", "math"}
PoolOf(h) == CASE h = "ff" -> "ff" [] h = "math" -> "math" [] OTHER -> "sub"
Paths(h) == CASE h = "for" -> {"end", "limit"}
              [] h = "math" -> {"end", "err"}
              [] h = "ff" -> {"end"}
              [] OTHER -> {"end", "empty"}
\* a body in which further helpers can run: not the formula (it reads keys only), not over an empty array
HasBody(h, path) == h # "math" /\ path # "empty"
AllWays == UNION {{<<h, p>> : p \in Paths(h)} : h \in Helpers}
Ways == CASE WaySel = "loops"  -> {<<"for", "end">>, <<"for", "limit">>, <<"map", "end">>, <<"map", "empty">>}
          [] WaySel = "arrays" -> {<<"filter", "end">>, <<"filter", "empty">>, <<"reduce", "end">>, <<"reduce", "empty">>, <<"map", "end">>}
          [] WaySel = "ctx"    -> {<<"ff", "end">>, <<"math", "end">>, <<"math", "err">>, <<"for", "end">>}
          [] OTHER -> AllWays

Returns(h, path) == IF Design \in {"double", "leak"} /\ h = DH /\ path = DP THEN (IF Design = "double" THEN 2 ELSE 0) ELSE 1
Early(h, path)   == Design = "early" /\ h = DH /\ path = DP

Obj == 1..MaxObj
Frame(h, path, o) == [h |-> h, path |-> path, o |-> o, gone |-> FALSE]

VARIABLES pool,    \* pool[p][o] = how many times object o lies in pool p
          made,    \* made[p] = objects pool p has created so far
          stack,   \* stack[e] = frames of evaluation e, innermost last
          val,     \* val[p][o] = <<e, depth>> of the frame that wrote the object last (what it holds)
          bad      \* "" or what went wrong when an object was used
vars == <<pool, made, stack, val, bad>>

Init ==
  /\ pool = [p \in Pools |-> [o \in Obj |-> IF o <= PoolInit THEN 1 ELSE 0]]
  /\ made = [p \in Pools |-> PoolInit]
  /\ stack = [e \in 1..E |-> <<>>]
  /\ val = [p \in Pools |-> [o \in Obj |-> <<0, 0>>]]
  /\ bad = ""

Depth(e) == Len(stack[e])
Top(e) == stack[e][Depth(e)]
InPool(p) == {o \in Obj : pool[p][o] > 0}

\* helper h is entered by evaluation e and will leave by `path`: Get, then the object is initialised
\* and written (`*sub = subContext{parent: context}`, Eval sets vals)
Enter(e, h, path) ==
  /\ Depth(e) < MaxDepth
  /\ Depth(e) > 0 => HasBody(Top(e).h, Top(e).path) /\ ~Top(e).gone
  /\ LET p == PoolOf(h) IN
     \E o \in (IF InPool(p) # {} THEN InPool(p) ELSE IF made[p] < MaxObj THEN {made[p] + 1} ELSE {}) :
       /\ IF InPool(p) # {} THEN pool' = [pool EXCEPT ![p][o] = @ - 1] /\ made' = made
          ELSE pool' = pool /\ made' = [made EXCEPT ![p] = @ + 1]
       /\ stack' = [stack EXCEPT ![e] = Append(@, Frame(h, path, o))]
       /\ val' = [val EXCEPT ![p][o] = <<e, Depth(e) + 1>>]
  /\ UNCHANGED bad

\* "early" only: the object goes back while the helper still works with it
GiveEarly(e) ==
  /\ Depth(e) > 0 /\ Early(Top(e).h, Top(e).path) /\ ~Top(e).gone
  /\ pool' = [pool EXCEPT ![PoolOf(Top(e).h)][Top(e).o] = @ + 1]
  /\ stack' = [stack EXCEPT ![e][Depth(e)].gone = TRUE]
  /\ UNCHANGED <<made, val, bad>>

\* the innermost helper of e finishes: it reads its context a last time (the body's last element
\* access, the formula's result) and leaves by its path, returning the object
Exit(e) ==
  /\ Depth(e) > 0
  /\ LET f == Top(e) p == PoolOf(f.h) n == IF f.gone THEN 0 ELSE Returns(f.h, f.path) IN
       /\ bad' = IF bad = "" /\ val[p][f.o] # <<e, Depth(e)>> THEN "foreign-value" ELSE bad
       /\ pool' = [pool EXCEPT ![p][f.o] = @ + n]
       /\ stack' = [stack EXCEPT ![e] = SubSeq(@, 1, Depth(e) - 1)]
       /\ val' = [val EXCEPT ![p][f.o] = <<0, 0>>]       \* what it held is of no interest to the next holder
  /\ UNCHANGED made

Next == \E e \in 1..E : (\E w \in Ways : Enter(e, w[1], w[2])) \/ Exit(e) \/ GiveEarly(e)
Spec == Init /\ [][Next]_vars

\* ------------------------------------------------------------- properties
Holders(p, o) == {<<e, d>> \in (1..E) \X (1..MaxDepth) : d <= Depth(e) /\ PoolOf(stack[e][d].h) = p /\ stack[e][d].o = o}
TypeOK ==
  /\ \A p \in Pools : made[p] \in PoolInit..MaxObj /\ \A o \in Obj : pool[p][o] \in 0..3
  /\ \A e \in 1..E : Depth(e) <= MaxDepth
\* an object is held by at most one evaluation (frame) at a time, and what lies in the pool is held by nobody:
\* Return gives back only what the caller holds, once
Own ==
  \A p \in Pools : \A o \in Obj :
    /\ Cardinality(Holders(p, o)) <= 1
    /\ pool[p][o] <= 1
    /\ pool[p][o] > 0 => Holders(p, o) = {}
    /\ o > made[p] => (pool[p][o] = 0 /\ Holders(p, o) = {})
\* consequence for the values: every helper finds in its context what it put there
NoForeign == bad = ""
\* nothing is lost either ("defer" only): every object is in the pool or held
Conserved == Design = "defer" => \A p \in Pools : \A o \in 1..made[p] : pool[p][o] + Cardinality(Holders(p, o)) = 1
=============================================================================

----------------------------- MODULE InputsUniv -----------------------------
(* C06 - the bounded universe of scenarios explored exhaustively (B3) and       *)
(* replayed on the real binary (B1): a skeleton tree                            *)
(*      a  ab  d/  d/c  d/e/  d/e/f  d/g/ (empty directory)                     *)
(* in which ONE file slot (a, d/c or d/e/f) is varied over content / kind /     *)
(* fault variants, crossed with argument lists built from 17 argument forms     *)
(* (paths to files, directories, missing paths, globs with and without hits),   *)
(* the flags -R, -z, --readers and the two commands; plus the stdin forms.      *)
(* The varied slot is also a FIFO (transport "pipe": unseekable, reports size   *)
(* 0) with plain / gzip / damaged gzip / empty content, and the tree is         *)
(* extended by ONE external input, /dev/stdin or /dev/fd/3 (what a shell passes *)
(* for <(cmd)), fed from a pipe or from a regular file.                         *)
EXTENDS Inputs
CONSTANT Level            \* 1: quick (pairs of arguments from a reduced form set), 2: all pairs

n_a  == <<97>>
n_ab == <<97, 98>>
n_c  == <<99>>
n_d  == <<100>>
n_e  == <<101>>
n_f  == <<102>>
n_g  == <<103>>
n_m  == <<109>>
n_x  == <<120>>

\* contents (serve both commands: "k 2" is a sample for histo, a plain line for filter)
K2 == <<107, 32, 50>>
J1 == <<106, 32, 49>>
K3 == <<107, 32, 51>>
K5 == <<107, 32, 53>>
Q  == <<113>>
R1 == <<114, 32, 49>>
SX == <<115, 32, 120>>        \* "s x": matched by histo, increment unparsable
ZZ == <<122, 122>>
A_DATA  == K2 \o <<LF>> \o J1 \o <<LF>>
AB_DATA == K3 \o <<LF>>
C_DATA  == Q \o <<LF, LF>> \o R1              \* empty middle line, no final newline
F_DATA  == SX \o <<LF>>
LONG    == K2 \o <<LF>> \o J1 \o <<LF>> \o K5 \o <<LF>>
HDRFRAG == <<31, 139, 8, 8, 1, 1>>            \* first bytes of a gzip header: NOT a gzip file
MAGICTXT == <<31, 139>> \o LONG                \* a text that starts with the gzip magic number (>= 10 bytes)
\* ten bytes that pass for a gzip header announcing a file name, then text without the terminating NUL:
\* the header check reads on, byte by byte, to the end of the input before it gives up
HDRNAME == <<31, 139, 8, 8, 0, 0, 0, 0, 0, 3>> \o K2 \o <<LF>> \o J1

P_a  == <<n_a>>
P_ab == <<n_ab>>
P_d  == <<n_d>>
P_c  == <<n_d, n_c>>
P_e  == <<n_d, n_e>>
P_f  == <<n_d, n_e, n_f>>
P_g  == <<n_d, n_g>>
DevStdin == << <<>>, <<100, 101, 118>>, <<115, 116, 100, 105, 110>> >>     \* /dev/stdin
DevFd3   == << <<>>, <<100, 101, 118>>, <<102, 100>>, <<51>> >>            \* /dev/fd/3

Slots == {P_a, P_c, P_f}
DefaultData(p) == IF p = P_a THEN A_DATA ELSE IF p = P_c THEN C_DATA ELSE F_DATA

\* variants of one slot: <<kind, data, transport>>
RegVariants(p) == {
  <<"file", <<>>, "reg">>, <<"file", <<LF>>, "reg">>, <<"file", ZZ, "reg">>, <<"file", HDRFRAG, "reg">>,
  <<"file", MAGICTXT, "reg">>,
  <<"gz", DefaultData(p), "reg">>, <<"gz", <<>>, "reg">>,
  <<"truncgz", LONG, "reg">>, <<"crcgz", DefaultData(p), "reg">>, <<"badgz", <<>>, "reg">>,
  \* several members: cut inside the first line; empty member in the middle; empty member first
  <<"mgz", DefaultData(p), "reg", <<2, Len(DefaultData(p)) - 2>> >>,
  <<"mgz", LONG, "reg", <<4, 0, Len(LONG) - 4>> >>,
  <<"mgz", DefaultData(p), "reg", <<0, Len(DefaultData(p))>> >> }
\* the same contents arriving through something that cannot be rewound and reports size 0
PipeVariants(p) == {
  <<"file", <<>>, "pipe">>, <<"file", DefaultData(p), "pipe">>, <<"file", HDRFRAG, "pipe">>,
  <<"file", MAGICTXT, "pipe">>, <<"file", HDRNAME, "pipe">>,
  <<"gz", DefaultData(p), "pipe">>, <<"gz", <<>>, "pipe">>,
  <<"truncgz", LONG, "pipe">>, <<"crcgz", DefaultData(p), "pipe">>, <<"badgz", <<>>, "pipe">>,
  <<"mgz", LONG, "pipe", <<4, 0, Len(LONG) - 4>> >> }
MemOf(v) == IF Len(v) >= 4 THEN v[4] ELSE <<>>
PipeSlots == IF Level >= 2 THEN Slots ELSE {P_a, P_f}
Variants(p) == RegVariants(p) \cup (IF p \in PipeSlots THEN PipeVariants(p) ELSE {})

TreeWith(slot, v) ==
  LET nd(p) == IF p = slot THEN [p |-> p, k |-> v[1], data |-> v[2], tr |-> v[3], mem |-> MemOf(v)]
               ELSE [p |-> p, k |-> "file", data |-> DefaultData(p), tr |-> "reg", mem |-> <<>>]
      dir(p) == [p |-> p, k |-> "dir", data |-> <<>>, tr |-> "reg", mem |-> <<>>] IN
  << nd(P_a), [p |-> P_ab, k |-> "file", data |-> AB_DATA, tr |-> "reg", mem |-> <<>>], dir(P_d),
     nd(P_c), dir(P_e), nd(P_f), dir(P_g) >>
T0 == TreeWith(<<>>, <<"file", <<>>, "reg">>)
\* the default tree plus one external input
ExtPaths == IF Level >= 2 THEN {DevStdin, DevFd3} ELSE {DevStdin}
ExtVariants(p) ==
  PipeVariants(P_a) \cup {<<"file", A_DATA, "reg">>, <<"file", MAGICTXT, "reg">>, <<"gz", A_DATA, "reg">>}
TreeExt(p, v) == Append(T0, [p |-> p, k |-> v[1], data |-> v[2], tr |-> v[3], mem |-> MemOf(v)])
\* the default tree plus one non-regular entry: in d/ before c, between c and e/, between e/ and g/, after g/;
\* in d/e/ before and after f
SpecialPos == { <<n_d, <<98>> >>, <<n_d, n_d>>, <<n_d, n_f>>, <<n_d, <<104>> >>,
                <<n_d, n_e, n_a>>, <<n_d, n_e, <<122>> >> }
SpecialVariants == {<<"file", A_DATA, "pipe">>} \cup {<<k, <<>>, "reg">> : k \in SpecialKinds}

\* the argument forms
gs == <<Star>>
Forms == <<
  P_a, P_ab, P_d, P_c, P_e, P_f, P_g,                 \* 1..7 existing files and directories
  <<n_m>>, <<n_a, n_x>>,                              \* 8 missing, 9 below a regular file
  <<gs>>, <<n_a \o gs>>, << <<Quest>> >>,             \* 10 "*"  11 "a*"  12 "?"
  <<n_d, gs>>, <<gs, gs>>, <<n_d, gs, n_f>>,          \* 13 "d/*"  14 "*/*"  15 "d/*/f"
  << <<122, Star>> >>, <<n_d, n_e, gs>>,              \* 16 "z*" (no hit -> literal)  17 "d/e/*"
  DevStdin, DevFd3 >>                                 \* 18 /dev/stdin  19 /dev/fd/3 (external inputs)
ExtForms == {18, 19}
PairForms == IF Level >= 2 THEN 1..Len(Forms) ELSE {1, 3, 6, 8, 13, 14}
\* an external input is paired with a file, a missing path, a glob - and with itself
ExtPartners == IF Level >= 2 THEN {1, 3, 8, 13, 14} ELSE {1, 8, 13}
ArgLists ==
  {<<Forms[i]>> : i \in 1..Len(Forms)} \cup {<<Forms[i], Forms[j]>> : i \in PairForms \ ExtForms, j \in PairForms \ ExtForms}
  \cup UNION {{<<Forms[e], Forms[j]>>, <<Forms[j], Forms[e]>>, <<Forms[e], Forms[e]>>} : e \in ExtForms, j \in ExtPartners}

StdinVariants == {[k |-> "data", data |-> A_DATA], [k |-> "data", data |-> <<>>],
                  [k |-> "data", data |-> ZZ], [k |-> "data", data |-> F_DATA],
                  [k |-> "dir", data |-> <<>>]}
NoStdin == [k |-> "data", data |-> <<>>]

SpecialTrees == UNION {{TreeExt(p, v) : v \in SpecialVariants} : p \in SpecialPos}
Trees == {T0} \cup UNION {{TreeWith(s, v) : v \in Variants(s)} : s \in Slots}
              \cup UNION {{TreeExt(p, v) : v \in ExtVariants(p)} : p \in ExtPaths}
              \cup SpecialTrees
\* the slot in which a tree differs from T0 (<<>> for T0)
VariedSlot(t) == LET S == {i \in DOMAIN t : i > Len(T0) \/ t[i] # T0[i]} IN IF S = {} THEN <<>> ELSE t[CHOOSE i \in S : TRUE].p

HasPipe(t) == \E i \in DOMAIN t : t[i].tr = "pipe"
\* the scenarios over the trees TS, argument lists AL and commands CS
FileScenariosIn(TS, AL, CS) ==
  {sc \in [tree : TS, stdin : {NoStdin}, args : AL, rec : BOOLEAN, gz : BOOLEAN,
           readers : {1, 2}, cmd : CS, nofile : {0}] :
     /\ InDomain(sc)
     /\ (Level < 2 /\ sc.cmd = "histo") => sc.readers = 2     \* quick: the histogram leg with one readers setting
     \* a varied slot that no argument mentions (no -R walk passes) is the same run as with T0
     /\ VariedSlot(sc.tree) # <<>> => \/ \E i \in DOMAIN Mentions(sc) : Mentions(sc)[i].p = VariedSlot(sc.tree)
                                       \/ (sc.tree \in SpecialTrees /\ VariedSlot(sc.tree) \in MayPaths(sc))
     \* quick: the non-regular entries with one command
     /\ (Level < 2 /\ sc.tree \in SpecialTrees) => sc.cmd = "filter" /\ (sc.readers = 1 \/ HasPipe(sc.tree))
     \* thorough: the non-regular entries with the argument forms that walk (or stay next to) them
     /\ (Level >= 2 /\ sc.tree \in SpecialTrees) => \A i \in DOMAIN sc.args : sc.args[i] \in {Forms[j] : j \in {1, 3, 5, 6, 7, 8, 13, 17}}}
FileScenariosOf(TS) == FileScenariosIn(TS, ArgLists, {"filter", "histo"})
StdinScenarios ==
  [tree : {T0}, stdin : StdinVariants, args : {<<>>, <<DashArg>>}, rec : {FALSE}, gz : {FALSE},
   readers : {1, 2}, cmd : {"filter", "histo"}, nofile : {0}]
Universe == FileScenariosOf(Trees) \cup StdinScenarios

\* the universe cut into n parts by tree (for parallel TLC runs); part 0 also holds the stdin scenarios
TreeSeq == SetToSeq(Trees)
UniversePart(part, n) ==
  FileScenariosOf({TreeSeq[i] : i \in {j \in 1..Len(TreeSeq) : j % n = part}})
  \cup (IF part = 0 THEN StdinScenarios ELSE {})
=============================================================================

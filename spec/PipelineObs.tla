---------------------------- MODULE PipelineObs ----------------------------
(* Abstract (property-level) specification of rare's extraction pipeline, C01.   *)
(*                                                                                 *)
(* The inputs are a family of files; every file is a sequence of lines.  A line   *)
(* is described by the three facts that decide its class:                         *)
(*    m   - did the matcher find a match                                          *)
(*    ig  - one truth value per ignore expression (value is "truthy")             *)
(*    k   - the extracted key (0 = the empty key; any other value = that key)     *)
(* The pipeline may classify the lines in ANY order and hand matched lines to the *)
(* consumer in ANY grouping, but every line is classified exactly once, the three *)
(* counters always equal the true counts of what has been classified, every       *)
(* matched line is emitted exactly once and the run ends.                         *)
(* Pipeline.tla (implementation-shaped) refines this module.                      *)
EXTENDS PipelineLines

VARIABLES
  acls,     \* [LineIds -> {"unread","matched","ignored","unmatched"}]
  aemit,    \* set of line ids handed to the consumer
  aread, amatched, aignored,   \* the three reported totals
  adone
avars == <<acls, aemit, aread, amatched, aignored, adone>>

AInit ==
  /\ acls = [id \in LineIds |-> "unread"]
  /\ aemit = {}
  /\ aread = 0 /\ amatched = 0 /\ aignored = 0
  /\ adone = FALSE

AClassify(id) ==
  /\ ~adone
  /\ acls[id] = "unread"
  /\ acls' = [acls EXCEPT ![id] = ClassOf(id)]
  /\ aread' = aread + 1
  /\ amatched' = amatched + (IF ClassOf(id) = "matched" THEN 1 ELSE 0)
  /\ aignored' = aignored + (IF ClassOf(id) = "ignored" THEN 1 ELSE 0)
  /\ UNCHANGED <<aemit, adone>>

AEmit(S) ==
  /\ ~adone
  /\ S # {}
  /\ S \subseteq {id \in LineIds : acls[id] = "matched"} \ aemit
  /\ aemit' = aemit \cup S
  /\ UNCHANGED <<acls, aread, amatched, aignored, adone>>

AFinish ==
  /\ ~adone
  /\ \A id \in LineIds : acls[id] # "unread"
  /\ aemit = OfClass("matched")
  /\ adone' = TRUE
  /\ UNCHANGED <<acls, aemit, aread, amatched, aignored>>

ANext == (\E id \in LineIds : AClassify(id)) \/ (\E S \in SUBSET LineIds : AEmit(S)) \/ AFinish
ASpec == AInit /\ [][ANext]_avars /\ WF_avars(ANext)

\* ---- what the property says about the end of a run
AFinalOK ==
  adone => /\ aread = Cardinality(LineIds)
           /\ amatched = Cardinality(OfClass("matched"))
           /\ aignored = Cardinality(OfClass("ignored"))
           /\ aread = amatched + aignored + Cardinality(OfClass("unmatched"))
           /\ aemit = OfClass("matched")
ACountersOK ==
  /\ aread = Cardinality({id \in LineIds : acls[id] # "unread"})
  /\ amatched = Cardinality({id \in LineIds : acls[id] = "matched"})
  /\ aignored = Cardinality({id \in LineIds : acls[id] = "ignored"})
ATerminates == <>adone
=============================================================================

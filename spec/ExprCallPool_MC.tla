--------------------------- MODULE ExprCallPool_MC ---------------------------
(* Programs for ExprCallPool (what a .cfg file cannot spell).                      *)
(* Flat:   {u1 {0} {k}}                      one site, body {sumi {0} {1}} reads   *)
(*                                           both arguments                         *)
(* Nest:   {u4 {0} {u1 {1} x}}{u1 {0} {k}}   u4's body {u1 {1} {u1 {0} 7}} holds   *)
(*         two sites of its own (shared by every caller of u4); an argument that   *)
(*         is itself a call is evaluated lazily in the caller's context            *)
(* Reent:  see below                                                               *)
(* Key:    {u2 {0} a} with body {k}-{if {0} {1} {2}}: key pass-through, a missing  *)
(*         argument                                                                *)
EXTENDS ExprCallPool

G(i) == <<"grp", i>>
K == <<"key">>
C(s) == <<"call", s>>
U1 == <<G(1), G(2)>>                       \* {sumi {0} {1}}

SitesFlat == {"a"}
BodyFlat == [s \in SitesFlat |-> U1]
ArgsFlat == [s \in SitesFlat |-> << <<G(1)>>, <<K>> >>]
MainFlat == <<C("a")>>

SitesNest == {"a", "b1", "b2", "c", "d"}
BodyNest == [s \in SitesNest |-> IF s = "a" THEN <<C("b1")>> ELSE U1]
ArgsNest == [s \in SitesNest |->
  CASE s = "a"  -> << <<G(1)>>, <<C("c")>> >>
    [] s = "b1" -> << <<G(2)>>, <<C("b2")>> >>
    [] s = "b2" -> << <<G(1)>>, <<>> >>
    [] s = "c"  -> << <<G(2)>>, <<>> >>
    [] s = "d"  -> << <<G(1)>>, <<K>> >>]
MainNest == <<C("a"), C("d")>>

\* NestS: {u4 {0} {u1 {1} x}} with a body {u1 {1} 7} - one site in the body, one call as an argument
SitesNestS == {"a", "b1", "c"}
BodyNestS == [s \in SitesNestS |-> IF s = "a" THEN <<C("b1")>> ELSE U1]
ArgsNestS == [s \in SitesNestS |->
  CASE s = "a"  -> << <<G(1)>>, <<C("c")>> >>
    [] s = "b1" -> << <<G(2)>>, <<>> >>
    [] s = "c"  -> << <<G(2)>>, <<>> >>]
MainNestS == <<C("a")>>

\* Reent: {u4 {0} {u4 {1} x}} - both calls run the SAME compiled body, whose site b1 is entered again (for the inner
\* call, reached through b1's lazily evaluated argument) while it is still active for the outer call; afterwards the
\* outer b1 reads another argument: it must still resolve in the OUTER call's context
SitesReent == {"a", "c", "b1"}
BodyReent == [s \in SitesReent |-> IF s = "b1" THEN U1 ELSE <<C("b1")>>]
ArgsReent == [s \in SitesReent |->
  CASE s = "a"  -> << <<G(1)>>, <<C("c")>> >>
    [] s = "c"  -> << <<G(2)>>, <<>> >>
    [] s = "b1" -> << <<G(2)>>, <<G(1)>> >>]
MainReent == <<C("a")>>

SitesKey == {"a"}
BodyKey == [s \in SitesKey |-> <<K, G(1), G(2), G(3)>>]
ArgsKey == [s \in SitesKey |-> << <<G(1)>>, <<>> >>]
MainKey == <<C("a"), G(1)>>
=============================================================================

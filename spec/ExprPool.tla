------------------------------- MODULE ExprPool -------------------------------
(* C17 (and the pooled-context part of C10): the per-call sub-contexts of         *)
(* @map / @filter / @reduce / @for, written like the code                         *)
(*   pkg/expressions/stdlib/funcsRange.go   subContext, subContextPool, kfArray*  *)
(*   pkg/slicepool/objpool.go               ObjectPool.Get / Return               *)
(*                                                                                *)
(*   stage(context):                                                              *)
(*     sub := subContextPool.Get()            get1: m.Lock()                      *)
(*                                            get2: end := len(pool)-1; ret = pool[end]   (or newer()) *)
(*                                            get3: pool = pool[:end]; m.Unlock() *)
(*     *sub = subContext{parent: context}     init  (@for: only if InitFor)       *)
(*     for each element:                                                          *)
(*        sub.vals = {v0, v1}                 set                                 *)
(*        args[1](sub)                        body: the sub-expression reads {0}, {1} from sub and  *)
(*                                                  named keys through sub.parent (recursively);     *)
(*                                                  it may itself call a helper with context = sub   *)
(*     subContextPool.Return(sub)             ret1: m.Lock()  ret2: pool = append(pool, sub); m.Unlock() *)
(*                                                                                *)
(* W evaluator goroutines each perform a HISTORY of up to J evaluations; an        *)
(* evaluation is a program: the chain of helpers it nests (<<"map","for">> is     *)
(* {@map .. {@for ..}}), evaluated against a match context of its own.  "map"     *)
(* stands for @map, @filter and @reduce, which have the same shape.               *)
(*                                                                                *)
(* Invariants: every sub-expression sees ITS OWN values and the named keys of     *)
(* ITS OWN enclosing match (SeesOwn); no pooled object is held by two frames or   *)
(* is in the pool while held (Exclusive); nothing leaks (NoLeak).                 *)
(* With InitFor = FALSE (the code before the repair) TLC finds the history in     *)
(* which @for resolves keys in the context of an earlier evaluation; with         *)
(* Locked = FALSE it finds two evaluators taking the same object.                 *)
EXTENDS Integers, Sequences, FiniteSets

CONSTANTS W,        \* evaluator goroutines
          J,        \* evaluations per goroutine
          P,        \* initial pool size (5 in the code)
          E,        \* elements per list (sub-expression evaluations per helper call)
          Progs,    \* the programs an evaluation may be: sequences over {"map", "for"}
          InitFor,  \* TRUE: @for initialises its sub-context like the other helpers
          Locked    \* TRUE: Get/Return hold the pool's mutex

VARIABLES pool,     \* sequence of object ids (the free list; Get takes the LAST one)
          mutex,    \* 0 or the goroutine holding the pool's mutex
          created,  \* objects 1..created exist
          parent,   \* parent[o]: NilP | <<"ctx", w, j>> (a match context) | <<"obj", o'>> (a sub-context)
          val,      \* val[o]: NilV or the token last stored by sub.Eval
          ev        \* ev[w] = [job, prog, stack, pc, ret, end]

vars == <<pool, mutex, created, parent, val, ev>>

Evals == 1..W
MaxDepth == 2
MaxObj == P + W * MaxDepth
Objs == 1..MaxObj

NilP == <<"nil">>          \* a nil parent pointer
NilV == <<>>               \* the zero value of vals
Ctx(w, j) == <<"ctx", w, j>>
Token(w, j, d, it) == <<w, j, d, it>>
Frame(h, o, it) == [h |-> h, obj |-> o, it |-> it]

Top(w) == ev[w].stack[Len(ev[w].stack)]
Depth(w) == Len(ev[w].stack)
\* the context a helper call at depth d of evaluator w is given
ContextOf(w, d) == IF d = 1 THEN Ctx(w, ev[w].job) ELSE <<"obj", ev[w].stack[d - 1].obj>>

\* named keys: sub.GetKey(k) = sub.parent.GetKey(k), recursively, down to a match context
RECURSIVE RootFrom(_, _)
RootFrom(p, fuel) ==
  IF p = NilP THEN NilP                                     \* nil pointer dereference
  ELSE IF p[1] = "ctx" THEN p
  ELSE IF fuel = 0 THEN <<"cycle">>                         \* unbounded recursion
  ELSE RootFrom(parent[p[2]], fuel - 1)
Root(o) == RootFrom(parent[o], MaxObj)

Init ==
  /\ pool = [i \in 1..P |-> i]
  /\ mutex = 0
  /\ created = P
  /\ parent = [o \in Objs |-> NilP]
  /\ val = [o \in Objs |-> NilV]
  /\ ev = [w \in Evals |-> [job |-> 0, prog |-> <<>>, stack |-> <<>>, pc |-> "idle", ret |-> 0, end |-> 0]]

Set(w, f) == ev' = [ev EXCEPT ![w] = f]
SetTop(s, fr) == [s EXCEPT ![Len(s)] = fr]

\* ---- an evaluation begins: BuildKey(ctx) reaches the outermost helper
Start(w) ==
  /\ ev[w].pc = "idle" /\ ev[w].job < J
  /\ \E p \in Progs :
       Set(w, [ev[w] EXCEPT !.job = @ + 1, !.prog = p, !.stack = <<Frame(p[1], 0, 0)>>, !.pc = "get1"])
  /\ UNCHANGED <<pool, mutex, created, parent, val>>

\* ---- ObjectPool.Get
Get1(w) ==
  /\ ev[w].pc = "get1"
  /\ IF Locked THEN mutex = 0 /\ mutex' = w ELSE UNCHANGED mutex
  /\ Set(w, [ev[w] EXCEPT !.pc = "get2"])
  /\ UNCHANGED <<pool, created, parent, val>>
Get2(w) ==
  /\ ev[w].pc = "get2"
  /\ IF pool = <<>>
     THEN /\ created < MaxObj                                \* s.newer()
          /\ created' = created + 1
          /\ Set(w, [ev[w] EXCEPT !.pc = "init", !.stack = SetTop(@, [Top(w) EXCEPT !.obj = created + 1])])
          /\ mutex' = IF Locked THEN 0 ELSE mutex
     ELSE /\ Set(w, [ev[w] EXCEPT !.pc = "get3", !.ret = pool[Len(pool)], !.end = Len(pool) - 1])
          /\ UNCHANGED <<created, mutex>>
  /\ UNCHANGED <<pool, parent, val>>
Get3(w) ==
  /\ ev[w].pc = "get3"
  /\ pool' = SubSeq(pool, 1, IF ev[w].end <= Len(pool) THEN ev[w].end ELSE Len(pool))
  /\ mutex' = IF Locked THEN 0 ELSE mutex
  /\ Set(w, [ev[w] EXCEPT !.pc = "init", !.stack = SetTop(@, [Top(w) EXCEPT !.obj = ev[w].ret])])
  /\ UNCHANGED <<created, parent, val>>

\* ---- *sub = subContext{parent: context}
InitSub(w) ==
  /\ ev[w].pc = "init"
  /\ LET o == Top(w).obj IN
     IF Top(w).h # "for" \/ InitFor
     THEN /\ parent' = [parent EXCEPT ![o] = ContextOf(w, Depth(w))]
          /\ val' = [val EXCEPT ![o] = NilV]
     ELSE UNCHANGED <<parent, val>>
  /\ Set(w, [ev[w] EXCEPT !.pc = IF E = 0 THEN "ret1" ELSE "set"])
  /\ UNCHANGED <<pool, mutex, created>>

\* ---- sub.Eval(stage, v0, v1): s.vals[0] = v0; ...
SetVals(w) ==
  /\ ev[w].pc = "set"
  /\ val' = [val EXCEPT ![Top(w).obj] = Token(w, ev[w].job, Depth(w), Top(w).it)]
  /\ Set(w, [ev[w] EXCEPT !.pc = "body"])
  /\ UNCHANGED <<pool, mutex, created, parent>>

\* ---- ... return stage(s): a leaf reads the sub-context (see SeesOwn), or a nested helper is called with it
Body(w) ==
  /\ ev[w].pc = "body"
  /\ IF Depth(w) < Len(ev[w].prog)
     THEN Set(w, [ev[w] EXCEPT !.stack = Append(@, Frame(ev[w].prog[Depth(w) + 1], 0, 0)), !.pc = "get1"])
     ELSE Set(w, [ev[w] EXCEPT !.pc = "next"])
  /\ UNCHANGED <<pool, mutex, created, parent, val>>

NextElem(w) ==
  /\ ev[w].pc = "next"
  /\ LET it == Top(w).it + 1 IN
     Set(w, [ev[w] EXCEPT !.stack = SetTop(@, [Top(w) EXCEPT !.it = it]), !.pc = IF it < E THEN "set" ELSE "ret1"])
  /\ UNCHANGED <<pool, mutex, created, parent, val>>

\* ---- defer subContextPool.Return(sub)
Ret1(w) ==
  /\ ev[w].pc = "ret1"
  /\ IF Locked THEN mutex = 0 /\ mutex' = w ELSE UNCHANGED mutex
  /\ Set(w, [ev[w] EXCEPT !.pc = "ret2"])
  /\ UNCHANGED <<pool, created, parent, val>>
Ret2(w) ==
  /\ ev[w].pc = "ret2"
  /\ pool' = Append(pool, Top(w).obj)
  /\ mutex' = IF Locked THEN 0 ELSE mutex
  /\ LET s == SubSeq(ev[w].stack, 1, Depth(w) - 1) IN
     Set(w, [ev[w] EXCEPT !.stack = s, !.pc = IF s = <<>> THEN "idle" ELSE "next"])
  /\ UNCHANGED <<created, parent, val>>

Next == \E w \in Evals : Start(w) \/ Get1(w) \/ Get2(w) \/ Get3(w) \/ InitSub(w) \/ SetVals(w) \/ Body(w)
                         \/ NextElem(w) \/ Ret1(w) \/ Ret2(w)
Spec == Init /\ [][Next]_vars

\* ---------------------------------------------------------------- invariants
Held == {<<w, d>> \in Evals \X (1..MaxDepth) : d <= Depth(w) /\ ev[w].stack[d].obj # 0}
ObjAt(wd) == ev[wd[1]].stack[wd[2]].obj

TypeOK ==
  /\ created \in P..MaxObj /\ mutex \in 0..W
  /\ \A i \in 1..Len(pool) : pool[i] \in 1..created
  /\ \A w \in Evals : ev[w].job \in 0..J /\ Depth(w) <= MaxDepth

\* no object is held twice, none is in the free list while held, the free list has no duplicates
Exclusive ==
  /\ \A a, b \in Held : a # b => ObjAt(a) # ObjAt(b)
  /\ \A a \in Held : \A i \in 1..Len(pool) : pool[i] # ObjAt(a)
  /\ \A i, k \in 1..Len(pool) : i # k => pool[i] # pool[k]

\* a frame whose values have been stored (it is evaluating its sub-expression, or a nested helper is)
Live(w, d) == d < Depth(w) \/ (d = Depth(w) /\ ev[w].pc = "body")
\* every evaluation sees its own values ({0}) and the named keys of its own enclosing match
SeesOwn ==
  \A w \in Evals : \A d \in 1..Depth(w) :
    Live(w, d) => LET o == ev[w].stack[d].obj IN
                  /\ val[o] = Token(w, ev[w].job, d, ev[w].stack[d].it)
                  /\ Root(o) = Ctx(w, ev[w].job)

Quiet == \A w \in Evals : ev[w].pc = "idle"
NoLeak == Quiet => Len(pool) = created
Bounded == created <= (IF P > W * MaxDepth THEN P ELSE W * MaxDepth)
MutexOK == Locked => \A w \in Evals : (ev[w].pc \in {"get2", "get3", "ret2"}) = (mutex = w)
=============================================================================

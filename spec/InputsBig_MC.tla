---------------------------- MODULE InputsBig_MC ----------------------------
(* B3 for the symbolic contents: every small descriptor, every small window.   *)
EXTENDS InputsBig, TLC
CONSTANTS MaxW, MaxN, MaxB
VARIABLE g
SmallG == [pre : 0..MaxW, w : 2..MaxW, n : 0..MaxN, tail : 0..2]
BInit == g \in SmallG
BNext == UNCHANGED g
Layout == ContentOK(g) /\ LLayout(g)
RunsLaw == LRuns(g)
Geometry == \A B \in 2..MaxB : LHit(g, B)
\* the record numbers identify the records as long as the field holds the digits
Distinct == \A i, j \in 0..g.n : (i # j /\ Len(Itoa(i)) <= g.w - 1 /\ Len(Itoa(j)) <= g.w - 1) => RecText(i, g.w - 1) # RecText(j, g.w - 1)
\* negative control (must be REFUTED): without the divisibility premise the window boundary is missed
CtlNoDivides == \A B \in 2..MaxB : g.pre = 0 => \A k \in 1..((g.w * g.n) \div B) : k * B \in Ends(g)
=============================================================================

----------------------------- MODULE ExprWideInt -----------------------------
(* C17 - integers of ANY size, exactly.  TLC's own integers are 32 bit wide, the  *)
(* integer arguments of @range / @select / @slice (and the values a @for loop     *)
(* carries) are 64 bit wide, and the interesting behaviour of index and           *)
(* generator arithmetic sits at the ends of that type.  So the specification      *)
(* computes on the TEXT of the numbers:                                           *)
(*   a natural number is its sequence of ASCII digits without leading zeros       *)
(*   (<<>> is 0); a wide integer is [neg, d] with neg = FALSE for 0.              *)
(* Addition, subtraction and comparison are the school algorithms (carry /        *)
(* borrow chains from the right).  There is no "overflow" here: the sum of two    *)
(* int64 values simply is a number that may or may not fit an int64 (WFits64).    *)
(* ExprWideInt_MC checks the operators against TLC's integers where both exist,   *)
(* and the ring / order laws on values around 2^31, 2^63 and 2^64.                *)
EXTENDS Bytes

\* ---------------------------------------------------------------- naturals
RECURSIVE WnNorm(_)
WnNorm(d) == IF d # <<>> /\ d[1] = 48 THEN WnNorm(Tail(d)) ELSE d
RECURSIVE WnZeros(_)
WnZeros(n) == IF n <= 0 THEN <<>> ELSE <<48>> \o WnZeros(n - 1)
WnPad(d, n) == WnZeros(n - Len(d)) \o d
WnIsNat(d) == (\A i \in 1..Len(d) : IsDigit(d[i])) /\ (d = <<>> \/ d[1] # 48)

\* a < b
WnLess(a, b) ==
  \/ Len(a) < Len(b)
  \/ Len(a) = Len(b) /\ \E i \in 1..Len(a) : a[i] < b[i] /\ \A j \in 1..(i - 1) : a[j] = b[j]

\* digits i..1 (from the right) of a + b with carry c into position i; a, b padded to one length
RECURSIVE WnAddAt(_, _, _, _)
WnAddAt(a, b, i, c) ==
  IF i = 0 THEN (IF c = 1 THEN <<49>> ELSE <<>>)
  ELSE LET s == (a[i] - 48) + (b[i] - 48) + c IN
       WnAddAt(a, b, i - 1, s \div 10) \o <<48 + (s % 10)>>
WnAdd(a, b) ==
  LET n == IF Len(a) > Len(b) THEN Len(a) ELSE Len(b) IN
  WnNorm(WnAddAt(WnPad(a, n), WnPad(b, n), n, 0))

\* a - b for a >= b, borrow br out of position i
RECURSIVE WnSubAt(_, _, _, _)
WnSubAt(a, b, i, br) ==
  IF i = 0 THEN <<>>
  ELSE LET s == (a[i] - 48) - (b[i] - 48) - br IN
       WnSubAt(a, b, i - 1, IF s < 0 THEN 1 ELSE 0) \o <<48 + (IF s < 0 THEN s + 10 ELSE s)>>
WnSub(a, b) == WnNorm(WnSubAt(a, WnPad(b, Len(a)), Len(a), 0))

\* ---------------------------------------------------------------- integers
W(neg, d) == [neg |-> neg /\ d # <<>>, d |-> d]
WZero == W(FALSE, <<>>)
WOne  == W(FALSE, <<49>>)
WIsWide(x) == x.neg \in BOOLEAN /\ WnIsNat(x.d) /\ (x.d = <<>> => ~x.neg)
WNeg(x) == W(~x.neg, x.d)
WAbs(x) == W(FALSE, x.d)
WSign(x) == IF x.d = <<>> THEN 0 ELSE IF x.neg THEN 0 - 1 ELSE 1
WAdd(x, y) ==
  IF x.neg = y.neg THEN W(x.neg, WnAdd(x.d, y.d))
  ELSE IF WnLess(x.d, y.d) THEN W(y.neg, WnSub(y.d, x.d))
  ELSE W(x.neg, WnSub(x.d, y.d))
WSub(x, y) == WAdd(x, WNeg(y))
WLess(x, y) ==
  IF x.neg # y.neg THEN x.neg
  ELSE IF x.neg THEN WnLess(y.d, x.d) ELSE WnLess(x.d, y.d)
WLeq(x, y) == ~WLess(y, x)
WDouble(x) == WAdd(x, x)
RECURSIVE WPow2(_)
WPow2(k) == IF k <= 0 THEN WOne ELSE WDouble(WPow2(k - 1))
\* x * k for a small natural k (double and add)
RECURSIVE WMulNat(_, _)
WMulNat(x, k) ==
  IF k <= 0 THEN WZero
  ELSE LET h == WDouble(WMulNat(x, k \div 2)) IN IF k % 2 = 1 THEN WAdd(h, x) ELSE h
WMulInt(x, k) == IF k < 0 THEN WNeg(WMulNat(x, 0 - k)) ELSE WMulNat(x, k)

\* ---------------------------------------------------------------- text (strconv.Atoi / strconv.Itoa)
\* Atoi's grammar: an optional sign and at least one digit; leading zeros are allowed, "-0" is 0
WIsIntText(s) == s # <<>> /\ ParseIntOK(s)
WDigitsOf(s) == IF s[1] \in {43, 45} THEN Tail(s) ELSE s
WOf(s) == W(s[1] = 45, WnNorm(WDigitsOf(s)))
WText(x) == (IF x.neg THEN <<45>> ELSE <<>>) \o (IF x.d = <<>> THEN <<48>> ELSE x.d)

\* ---------------------------------------------------------------- TLC integers
WOfInt(n) == IF n = 0 THEN WZero ELSE W(n < 0, NatDigits(IF n < 0 THEN 0 - n ELSE n))
WIsSmall(x) == Len(x.d) <= 9                                   \* |x| < 10^9
WToInt(x) == LET v == DigitsVal(x.d, 0) IN IF x.neg THEN 0 - v ELSE v
\* x clamped to lo..hi (TLC integers, |lo|, |hi| < 10^9)
WClampInt(x, lo, hi) ==
  IF WLess(x, WOfInt(lo)) THEN lo ELSE IF WLess(WOfInt(hi), x) THEN hi ELSE WToInt(x)

\* ---------------------------------------------------------------- the machine types
\* two's complement with b bits: -2^(b-1) .. 2^(b-1) - 1
WMinOf(b) == WNeg(WPow2(b - 1))
WMaxOf(b) == WSub(WPow2(b - 1), WOne)
WFitsBits(x, b) == WLeq(WMinOf(b), x) /\ WLeq(x, WMaxOf(b))
\* (written out: TLC does not keep the value of a definition that is computed by recursion)
WMax64 == W(FALSE, <<57, 50, 50, 51, 51, 55, 50, 48, 51, 54, 56, 53, 52, 55, 55, 53, 56, 48, 55>>)     \* 9223372036854775807
WMin64 == W(TRUE, <<57, 50, 50, 51, 51, 55, 50, 48, 51, 54, 56, 53, 52, 55, 55, 53, 56, 48, 56>>)      \* -9223372036854775808
WTwo64 == W(FALSE, <<49, 56, 52, 52, 54, 55, 52, 52, 48, 55, 51, 55, 48, 57, 53, 53, 49, 54, 49, 54>>) \* 18446744073709551616
WFits64(x) == WLeq(WMin64, x) /\ WLeq(x, WMax64)
\* what a b-bit register holds after the exact result x of ONE addition / subtraction of two b-bit values
WWrap(x, b) ==
  IF WLess(WMaxOf(b), x) THEN WSub(x, WPow2(b))
  ELSE IF WLess(x, WMinOf(b)) THEN WAdd(x, WPow2(b)) ELSE x
WWrap64(x) ==
  IF WLess(WMax64, x) THEN WSub(x, WTwo64) ELSE IF WLess(x, WMin64) THEN WAdd(x, WTwo64) ELSE x

ASSUME WMax64 = WMaxOf(64) /\ WMin64 = WMinOf(64) /\ WTwo64 = WPow2(64)
=============================================================================

----------------------------- MODULE AggLoopObs -----------------------------
(* C05 - abstract (observable) specification of the aggregation loop.          *)
(*                                                                              *)
(* What an observer of RunAggregationLoop can see: a match being sampled        *)
(* (SEnter .. SExit), the output function running (REnter .. RExit; on entry it *)
(* reads the aggregate and then the extractor's matched-lines counter), and the *)
(* loop returning (Ret).  The property C05 in these terms:                      *)
(*   - a render never overlaps a sample (nor another render),                   *)
(*   - every render shows per-key counts <= the final counts and a matched      *)
(*     total >= the sum of the counts shown,                                    *)
(*   - the loop returns only after a render that started after the last sample  *)
(*     and after every match was sampled, and nothing renders afterwards.       *)
(* `total` (key -> number of matching lines of the whole input) never changes;  *)
(* it is a variable so that a trace specification can set it per trace and the  *)
(* implementation-shaped model (AggLoop) can substitute its constant.           *)
EXTENDS Integers, FiniteSets, Functions, FiniteSetsExt

VARIABLES
  total,     \* key -> count over the complete input (constant during a run)
  cnt,       \* key -> number of completed samples
  inS,       \* a Sample call is in progress
  inR,       \* the output function is running
  snap,      \* counts shown by the most recent render (at its entry)
  snapM,     \* matched-lines total read by the most recent render
  fresh,     \* a render ran to completion and no sample happened since it started
  returned   \* the loop has returned

ovars == <<total, cnt, inS, inR, snap, snapM, fresh, returned>>

SumF(f) == FoldFunction(LAMBDA a, b : a + b, 0, f)
Zero(f) == [k \in DOMAIN f |-> 0]
LeqF(f, g) == \A k \in DOMAIN f : f[k] <= g[k]

OInit ==
  /\ cnt = Zero(total) /\ inS = FALSE /\ inR = FALSE
  /\ snap = Zero(total) /\ snapM = 0 /\ fresh = FALSE /\ returned = FALSE

SEnter ==
  /\ ~inS /\ ~inR /\ ~returned
  /\ inS' = TRUE
  /\ UNCHANGED <<total, cnt, inR, snap, snapM, fresh, returned>>

\* Sample(k) returned; k must be a key of the input and must not exceed its total
SExit(k) ==
  /\ inS
  /\ k \in DOMAIN total /\ cnt[k] < total[k]
  /\ cnt' = [cnt EXCEPT ![k] = @ + 1]
  /\ inS' = FALSE /\ fresh' = FALSE
  /\ UNCHANGED <<total, inR, snap, snapM, returned>>

\* a run of samples with no render in between, observed as a whole: d = key -> number of completed
\* samples (the same as Len-many SEnter/SExit pairs; used by traces of runs with very many matches)
SBulk(d) ==
  /\ ~inS /\ ~inR /\ ~returned
  /\ DOMAIN d \subseteq DOMAIN total
  /\ \A k \in DOMAIN d : d[k] >= 1 /\ cnt[k] + d[k] <= total[k]
  /\ cnt' = [k \in DOMAIN total |-> IF k \in DOMAIN d THEN cnt[k] + d[k] ELSE cnt[k]]
  /\ fresh' = FALSE
  /\ UNCHANGED <<total, inS, inR, snap, snapM, returned>>

\* the output function starts: it shows s and the matched total m
REnter(s, m) ==
  /\ ~inS /\ ~inR /\ ~returned
  /\ s = cnt                        \* what it reads is the aggregate (no torn state)
  /\ m >= SumF(s) /\ m <= SumF(total)
  /\ snap' = s /\ snapM' = m /\ inR' = TRUE
  /\ fresh' = FALSE
  /\ UNCHANGED <<total, cnt, inS, returned>>

RExit ==
  /\ inR
  /\ inR' = FALSE /\ fresh' = TRUE
  /\ UNCHANGED <<total, cnt, inS, snap, snapM, returned>>

\* the loop returns: the last thing that happened is a complete render of everything
Ret ==
  /\ ~inS /\ ~inR /\ ~returned
  /\ fresh /\ snap = total /\ snapM = SumF(total)
  /\ returned' = TRUE
  /\ UNCHANGED <<total, cnt, inS, inR, snap, snapM, fresh>>

\* parameter-free forms (refinement target)
SExitAny  == \E k \in DOMAIN total : SExit(k)
REnterAny == REnter(snap', snapM')
ONext == SEnter \/ SExitAny \/ REnterAny \/ RExit \/ Ret
OSpec == OInit /\ [][ONext]_ovars

\* ---- what follows from the abstract specification (checked in AggLoop's B3) --
OMutex       == ~(inS /\ inR)
OSnapLeFinal == LeqF(snap, total) /\ LeqF(cnt, total)
OMatchedGe   == snapM >= SumF(snap)
OFinal       == returned => (snap = total /\ cnt = total /\ ~inS /\ ~inR)
=============================================================================

----------------------------- MODULE TermOracle -----------------------------
(* C20.  The property-level oracle: what a person must see on the terminal of    *)
(* Term.tla after a history of per-line updates.  Nothing here mentions how a    *)
(* writer achieves it (no cursor bookkeeping, no escape sequences emitted).      *)
(*                                                                              *)
(* Texts are sequences of code points.  DOMAIN (WellFormed): printable runes     *)
(* (no C0/C1 controls, no DEL; every rune assumed one cell wide) and complete    *)
(* colour sequences ESC [ (digit | ;)* m.  Outside the domain nothing is         *)
(* expected.                                                                     *)
EXTENDS Term

Printable(x) == x >= 32 /\ x # 127 /\ ~(x \in 128..159)

\* index of the `m` closing the colour sequence that starts at s[i] = ESC, or 0 if malformed
RECURSIVE SgrEndFrom(_, _)
SgrEndFrom(s, k) ==                     \* k: next position to look at (after ESC [)
  IF k > Len(s) THEN 0
  ELSE IF s[k] = 109 THEN k
  ELSE IF s[k] \in 48..59 THEN SgrEndFrom(s, k + 1)
  ELSE 0
SgrEnd(s, i) == IF i + 1 <= Len(s) /\ s[i + 1] = 91 THEN SgrEndFrom(s, i + 2) ELSE 0

RECURSIVE WellFormedFrom(_, _)
WellFormedFrom(s, i) ==
  IF i > Len(s) THEN TRUE
  ELSE IF s[i] = ESC THEN LET e == SgrEnd(s, i) IN e # 0 /\ WellFormedFrom(s, e + 1)
  ELSE Printable(s[i]) /\ WellFormedFrom(s, i + 1)
WellFormed(s) == WellFormedFrom(s, 1)

\* the visible runes of a well-formed text: colour sequences removed
RECURSIVE VisibleFrom(_, _)
VisibleFrom(s, i) ==
  IF i > Len(s) THEN <<>>
  ELSE IF s[i] = ESC
       THEN LET e == SgrEnd(s, i) IN IF e = 0 THEN <<>> ELSE VisibleFrom(s, e + 1)
       ELSE <<s[i]>> \o VisibleFrom(s, i + 1)
Visible(s) == VisibleFrom(s, 1)
VisLen(s)  == Len(Visible(s))

\* does the (prefix) p end inside a colour sequence, i.e. an ESC that is never closed?
EndsInsideEscape(p) ==
  \E i \in 1..Len(p) : p[i] = ESC /\ \A k \in i..Len(p) : p[k] # 109

(* What a line shows: with trimming the first `cols` visible runes, without      *)
(* trimming the whole visible text (domain: it must fit, see InDomain).           *)
Shown(text, cols, trim) ==
  IF trim THEN TakeFirst(Visible(text), MinI(cols, VisLen(text))) ELSE Visible(text)

(* The trimming law: `cut` is what was written for `text` on a terminal `cols`   *)
(* wide: a prefix, not more than `cols` visible runes, nothing visible dropped   *)
(* that fits, and not ending inside a colour sequence.                            *)
GoodCut(text, cut, cols) ==
  /\ IsPrefix(cut, text)
  /\ ~EndsInsideEscape(cut)
  /\ VisLen(cut) <= cols
  /\ Visible(cut) = Shown(text, cols, TRUE)

(* An update the property talks about. *)
InDomain(line, text, cols, trim) ==
  line >= 0 /\ WellFormed(text) /\ (trim \/ VisLen(text) <= cols)

RowAt(t, i) == IF i <= Len(t.rows) THEN t.rows[i] ELSE <<>>

(* The screen oracle.  `above` are the rows that were on the screen above the     *)
(* writer's first line; shown[k] is what line k-1 must show (Shown of the text    *)
(* most recently written to it, <<>> when never written); lines 0..Len(shown)-1   *)
(* are in use.                                                                    *)
AboveUntouched(t, above) == \A i \in 1..Len(above) : RowAt(t, i) = above[i]
LinesShown(t, above, shown) ==
  \A k \in 1..Len(shown) : RTrim(RowAt(t, Len(above) + k)) = RTrim(shown[k])
BelowBlank(t, above, shown) ==
  \A i \in (Len(above) + Len(shown) + 1)..Len(t.rows) : RTrim(t.rows[i]) = <<>>
StreamIntact(t) == ~t.broken /\ Idle(t)         \* no text was cut inside a sequence

ScreenOK(t, above, shown) ==
  /\ AboveUntouched(t, above)
  /\ LinesShown(t, above, shown)
  /\ BelowBlank(t, above, shown)
  /\ ~t.wrapped
  /\ StreamIntact(t)

\* from the latest texts to what must be shown
ShownAll(latest, cols, trim) == [k \in 1..Len(latest) |-> Shown(latest[k], cols, trim)]

\* after close: the cursor is on the row below the last line in use, and visible
ParkedOK(t, above, shown) ==
  /\ t.vis
  /\ shown # <<>> => t.r = Len(above) + Len(shown) + 1

\* first failing clause, for diagnostics
Why(t, above, shown) ==
  IF t.broken \/ ~Idle(t) THEN "cut-inside-sequence"
  ELSE IF t.wrapped THEN "wrapped"
  ELSE IF ~AboveUntouched(t, above) THEN "wrote-above-first-line"
  ELSE IF ~LinesShown(t, above, shown) THEN "screen"
  ELSE IF ~BelowBlank(t, above, shown) THEN "wrote-below-last-line"
  ELSE "ok"

\* record the latest text of a line (the store grows with <<>> for the gap)
SetLatest(latest, line, text) ==
  LET grown == IF Len(latest) > line THEN latest
               ELSE latest \o [i \in 1..(line + 1 - Len(latest)) |-> <<>>]
  IN  [grown EXCEPT ![line + 1] = text]

\* canonical view of the rows from the writer's first line on (B1 compares these)
RECURSIVE DropBlankTail(_)
DropBlankTail(rs) == IF rs # <<>> /\ Last(rs) = <<>> THEN DropBlankTail(Front(rs)) ELSE rs
Canon(t, base) == DropBlankTail([i \in 1..(Len(t.rows) - base) |-> RTrim(t.rows[base + i])])

-----------------------------------------------------------------------------
(* UTF-8 *)
Utf8Rune(x) ==
  IF x < 128 THEN <<x>>
  ELSE IF x < 2048 THEN <<192 + x \div 64, 128 + (x % 64)>>
  ELSE IF x < 65536 THEN <<224 + x \div 4096, 128 + ((x \div 64) % 64), 128 + (x % 64)>>
  ELSE <<240 + x \div 262144, 128 + ((x \div 4096) % 64), 128 + ((x \div 64) % 64), 128 + (x % 64)>>
RECURSIVE Utf8(_)
Utf8(rs) == IF rs = <<>> THEN <<>> ELSE Utf8Rune(rs[1]) \o Utf8(Tail(rs))

RECURSIVE Utf8DecFrom(_, _)
Utf8DecFrom(b, i) ==
  IF i > Len(b) THEN <<>>
  ELSE LET x == b[i] IN
    IF x < 128 THEN <<x>> \o Utf8DecFrom(b, i + 1)
    ELSE IF x \in 194..223 /\ i + 1 <= Len(b)
      THEN <<(x - 192) * 64 + (b[i+1] - 128)>> \o Utf8DecFrom(b, i + 2)
    ELSE IF x \in 224..239 /\ i + 2 <= Len(b)
      THEN <<(x - 224) * 4096 + (b[i+1] - 128) * 64 + (b[i+2] - 128)>> \o Utf8DecFrom(b, i + 3)
    ELSE IF x \in 240..244 /\ i + 3 <= Len(b)
      THEN <<(x - 240) * 262144 + (b[i+1] - 128) * 4096 + (b[i+2] - 128) * 64 + (b[i+3] - 128)>>
           \o Utf8DecFrom(b, i + 4)
    ELSE <<-1>>                                       \* not UTF-8
Utf8Dec(b) == Utf8DecFrom(b, 1)
-----------------------------------------------------------------------------
(* Text pools of the model-checking configurations (cfg files cannot hold tuples) *)
TxEmpty  == <<>>
TxA      == <<97>>                                           \* a
TxABC    == <<97, 98, 99>>                                   \* abc
TxColour == <<27, 91, 51, 49, 109, 97, 98, 27, 91, 48, 109>> \* ESC[31m ab ESC[0m
TxMulti  == <<233, 8594>>                                    \* e-acute, rightwards arrow (2 + 3 bytes)
TxMidCol == <<97, 27, 91, 49, 59, 51, 50, 109, 98, 99, 100>> \* a ESC[1;32m bcd
TxWideB  == <<119073, 109, 27, 91, 109, 120>>                \* U+1D121 (4 bytes), m, ESC[m, x
TextsB3  == {TxEmpty, TxA, TxABC, TxColour, TxMulti}
TextsB3x == TextsB3 \cup {TxMidCol, TxWideB}

(* Colour sequences have no maximal length: ESC [ (digit | ;)* m  stacks any number  *)
(* of attributes (24-bit colour ESC[38;2;r;g;bm: 19 runes, foreground + background   *)
(* + attributes: 40 and more).  SgrOfLen(n) is a complete colour sequence of exactly  *)
(* n runes (n >= 3): parameters ddd;ddd;...                                           *)
SgrParam(k) == IF k % 4 = 0 THEN 59 ELSE 48 + ((3 * k) % 10)
SgrOfLen(n) == <<ESC, 91>> \o [k \in 1..(n - 3) |-> SgrParam(k)] \o <<109>>
\* the text with every colour sequence replaced by one of n runes (malformed tail kept as it is)
RECURSIVE RecolourFrom(_, _, _)
RecolourFrom(s, i, n) ==
  IF i > Len(s) THEN <<>>
  ELSE IF s[i] = ESC
       THEN LET e == SgrEnd(s, i) IN
            IF e = 0 THEN SubSeq(s, i, Len(s)) ELSE SgrOfLen(n) \o RecolourFrom(s, e + 1, n)
       ELSE <<s[i]>> \o RecolourFrom(s, i + 1, n)
Recolour(s, n) == RecolourFrom(s, 1, n)
HasColour(s) == \E i \in 1..Len(s) : s[i] = ESC
\* oracle-level law (TermTrimSgr_MC): how long the colour sequences are is invisible
LengthBlind(s, n, cols) ==
  WellFormed(s) => /\ WellFormed(Recolour(s, n))
                   /\ Visible(Recolour(s, n)) = Visible(s)
                   /\ Shown(Recolour(s, n), cols, TRUE) = Shown(s, cols, TRUE)

\* texts with long colour sequences
TxTrue  == <<27, 91, 51, 56, 59, 50, 59, 50, 53, 53, 59, 49, 50, 56, 59, 54, 52, 109,   \* ESC[38;2;255;128;64m (18)
             97, 98, 27, 91, 48, 109>>                                                   \* ab ESC[0m
TxStack == <<97, 27, 91, 49, 59, 52, 59, 51, 56, 59, 53, 59, 49, 57, 54, 109, 98, 99, 100>>  \* a ESC[1;4;38;5;196m (15) bcd
TxDeep  == <<120>> \o SgrOfLen(43) \o <<121, 122>> \o SgrOfLen(3)                       \* x <43 runes> yz ESC[m
TextsSgr == {TxEmpty, TxABC, TxTrue, TxStack, TxDeep}

\* every concatenation of at most n tokens
RECURSIVE Concats(_, _)
Concats(tokens, n) ==
  IF n = 0 THEN {<<>>} ELSE LET S == Concats(tokens, n - 1) IN S \cup {s \o t : s \in S, t \in tokens}
TrimTokens == {<<97>>, <<109>>, <<233>>, <<27, 91, 51, 49, 109>>, <<27, 91, 109>>}
=============================================================================

----------------------------- MODULE ExprSyntax -----------------------------
(* C09 - template syntax of rare expressions: literals, escapes, quotes and      *)
(* nesting parse as documented (docs/usage/expressions.md, "Syntax").            *)
(*                                                                               *)
(* Two layers.                                                                   *)
(*                                                                               *)
(* (a) ABSTRACT SYNTAX.  A template is a sequence of nodes                       *)
(*        Lit(s) | Grp(n) | Key(k) | Call(f, args)                               *)
(*     (an argument may also be a double-quoted sub-template, the documented     *)
(*     "{0}" idiom of the array helpers: node kind "qt")                         *)
(*     and the documented concrete syntax is given by a PRINTER over annotated   *)
(*     trees: every node carries the free choices the documentation leaves to    *)
(*     the writer (which blanks separate the arguments, blanks after `{` and     *)
(*     before `}`, whether an argument that needs no quotes is quoted anyway,    *)
(*     which top-level characters are written with a backslash).  WFTpl states   *)
(*     which annotated trees are inside the documented domain; PrintTpl gives    *)
(*     their text; Spell(StripT(t)) is what evaluating the template must yield   *)
(*     with transparent functions and a recording context.  The three documented *)
(*     malformations are annotations as well (closing brace dropped, an empty    *)
(*     statement, a function name that is not registered); ErrLower/ErrUpper     *)
(*     bound the error classes the compiler has to report.                       *)
(*                                                                               *)
(* (b) PARSE MODEL.  CompileM / SplitM / SimpleVarM transcribe the three         *)
(*     cooperating scanners of pkg/expressions (Compile's brace-depth + escape   *)
(*     scanner, splitTokenizedArguments, stageSimpleVariable) as recursive       *)
(*     operators over code-point sequences.  It is total: every text yields a    *)
(*     stage list and a list of error classes.                                   *)
(*                                                                               *)
(* The laws connecting the layers (ExprSyntax_MC): parsing a printed tree gives  *)
(* the tree back, the escaped rendering of any string evaluates to the string,   *)
(* every documented malformation yields its documented class.                    *)
(*                                                                               *)
(* Text is a sequence of Unicode code points (the compiler works on []rune).     *)
(*                                                                               *)
(* The parse model and the error bounds are parameterised by the FUNCTION TABLE  *)
(* of the key builder (registered name -> version of the implementation); the    *)
(* un-suffixed operators use the table every fresh test key builder starts with  *)
(* (BaseFt).  ExprSyntaxHist.tla puts the compiler into a state machine whose    *)
(* table changes (KeyBuilder.Func) between Compile calls.                        *)
EXTENDS Bytes, TLC, ExprSyntaxIdx

BSL == 92     \* backslash
LBR == 123    \* {
RBR == 125    \* }
QUO == 34     \* "

\* unicode.IsSpace
IsSpaceU(c) ==
  \/ c \in {9, 10, 11, 12, 13, 32, 133, 160, 5760, 8232, 8233, 8239, 8287, 12288}
  \/ (c >= 8192 /\ c <= 8202)

\* registered (transparent) functions of the test key builder: f g h1 and a non-ASCII name
Funcs == {<<102>>, <<103>>, <<104, 49>>, <<955, 120>>}
\* a function table maps every registered name to the version of its implementation; version 0 is the
\* standard transparent function, version v > 0 a second transparent implementation that also writes FV v
BaseFt == [f \in Funcs |-> 0]

\* ------------------------------------------------------------------ nodes
\* One record shape for every node (TLC compares records field by field).
N(k, s, n, args) == [k |-> k, s |-> s, n |-> n, args |-> args]
LitN(s)        == N("lit", s, 0, <<>>)
GrpN(n)        == N("grp", <<>>, n, <<>>)
KeyN(s)        == N("key", s, 0, <<>>)
CallN(f, args) == N("call", f, 0, args)
CallV(f, v, args) == N("call", f, v, args)     \* a call bound to version v of f
CatN(parts)    == N("cat", <<>>, 0, parts)     \* an argument compiled to several stages (joinStages)
BigN(s)        == N("big", s, 0, <<>>)         \* a group reference whose index (s: canonical signed decimal) has more than
                                               \* the 9 digits TLC's integers hold (ExprSyntaxIdx.tla decides the range)
EmptyN         == N("empty", <<>>, 0, <<>>)    \* malformation: a statement without content
QtN(parts)     == N("qt", <<>>, 0, parts)      \* printer only: a quoted argument holding text and statements

\* ------------------------------------------------------------------ the observable
(* The test functions are transparent: f(a, b) renders  FO f FA a FS b FC ; the *)
(* recording context answers GetMatch(i) with GO i GC and GetKey(k) with         *)
(* KO k KC.  The markers are private-use code points that never occur in         *)
(* generated text, so the rendering spells the parsed tree unambiguously.        *)
FO == 57345
FA == 57346
FS == 57347
FC == 57348
GO == 57349
GC == 57350
KO == 57351
KC == 57352
FV == 57353
IsMarker(c) == c >= 57344 /\ c <= 57599

(* SpellT(st, tag): the rendering against the recording context of the evaluator   *)
(* `tag` (ExprSyntaxEval.tla: every concurrent evaluation has its own context;   *)
(* GetMatch(i) answers GO i tag GC, GetKey(k) KO k tag KC); Spell = the untagged  *)
(* context of a single evaluation.                                               *)
RECURSIVE SpellNT(_, _)
RECURSIVE SpellArgsT(_, _, _)
RECURSIVE SpellSeqT(_, _, _)
SpellNT(x, tag) ==
  CASE x.k = "lit"  -> x.s
    [] x.k = "grp"  -> <<GO>> \o Itoa(x.n) \o tag \o <<GC>>
    [] x.k = "big"  -> <<GO>> \o x.s \o tag \o <<GC>>
    [] x.k = "key"  -> <<KO>> \o x.s \o tag \o <<KC>>
    [] x.k = "call" -> <<FO>> \o x.s \o (IF x.n = 0 THEN <<>> ELSE <<FV>> \o Itoa(x.n)) \o <<FA>>
                       \o SpellArgsT(x.args, 1, tag) \o <<FC>>
    [] x.k = "cat"  -> SpellSeqT(x.args, 1, tag)
    [] OTHER        -> <<>>
SpellArgsT(args, j, tag) ==
  IF j > Len(args) THEN <<>>
  ELSE IF j = Len(args) THEN SpellNT(args[j], tag)
  ELSE SpellNT(args[j], tag) \o <<FS>> \o SpellArgsT(args, j + 1, tag)
SpellSeqT(st, j, tag) == IF j > Len(st) THEN <<>> ELSE SpellNT(st[j], tag) \o SpellSeqT(st, j + 1, tag)
SpellT(st, tag) == SpellSeqT(st, 1, tag)
SpellN(x) == SpellNT(x, <<>>)
Spell(st) == SpellSeqT(st, 1, <<>>)

\* ------------------------------------------------------------------ normal form
(* Adjacent literal stages are indistinguishable (and merged by the optimiser),  *)
(* an argument compiled to no stage is the empty literal, to one stage that      *)
(* stage.                                                                        *)
JoinM(st) == IF st = <<>> THEN LitN(<<>>) ELSE IF Len(st) = 1 THEN st[1] ELSE CatN(st)

RECURSIVE MergeL(_, _, _)
MergeL(st, j, acc) ==
  IF j > Len(st) THEN acc
  ELSE LET x == st[j] IN
    IF x.k = "lit" /\ x.s = <<>> THEN MergeL(st, j + 1, acc)
    ELSE IF x.k = "lit" /\ acc # <<>> /\ acc[Len(acc)].k = "lit"
      THEN MergeL(st, j + 1, [acc EXCEPT ![Len(acc)] = LitN(acc[Len(acc)].s \o x.s)])
    ELSE MergeL(st, j + 1, Append(acc, x))

RECURSIVE NormNode(_)
RECURSIVE NormArg(_)
NormNode(x) ==
  IF x.k = "call" THEN CallV(x.s, x.n, [j \in 1..Len(x.args) |-> NormArg(x.args[j])]) ELSE x
NormArg(x) ==
  LET parts == IF x.k = "cat" THEN x.args ELSE <<x>> IN
  JoinM(MergeL([j \in 1..Len(parts) |-> NormNode(parts[j])], 1, <<>>))
NormSeq(st) == MergeL([j \in 1..Len(st) |-> NormNode(st[j])], 1, <<>>)

\* =================================================================== (a) printer
(* Annotated node:                                                               *)
(*   k s n args   as above (args are annotated nodes)                            *)
(*   sep          call: the blank run written before each argument               *)
(*   lead trail   statement: blank runs after `{` and before `}`                 *)
(*   q            literal argument: written in double quotes                     *)
(*   (kind "qt": a quoted argument whose args are its parts - literal pieces,    *)
(*    written as they are, and statements without any quote inside)              *)
(*   esc          top-level literal: 1 = this character is written with `\`      *)
(*   drop         statement: malformation, the closing brace is missing          *)
(*   (kind "grp" with s # <<>>: the integer is written as the digit string s -    *)
(*    leading zeros, a minus sign, any number of digits; whether it IS a group     *)
(*    reference is decided by its value, ExprSyntaxIdx.tla)                        *)
AN(k, s, n, args, sep, lead, trail, q, esc, drop) ==
  [k |-> k, s |-> s, n |-> n, args |-> args, sep |-> sep, lead |-> lead, trail |-> trail,
   q |-> q, esc |-> esc, drop |-> drop]

EscChar(c, e) ==
  IF e = 0 THEN <<c>>
  ELSE IF c = LF THEN <<BSL, 110>>          \* \n
  ELSE IF c = TAB THEN <<BSL, 116>>         \* \t
  ELSE IF c = CR THEN <<BSL, 114>>          \* \r
  ELSE <<BSL, c>>
\* the escaped rendering of s: Escape(s) of the property, one choice per character
EscapeP(s, esc) == Flatten([i \in 1..Len(s) |-> EscChar(s[i], esc[i])])

CloseOf(a) == IF a.drop THEN <<>> ELSE <<RBR>>

RECURSIVE PrintN(_, _)
PrintN(a, top) ==
  CASE a.k = "lit"   -> IF top THEN EscapeP(a.s, a.esc)
                        ELSE IF a.q THEN <<QUO>> \o a.s \o <<QUO>> ELSE a.s
    [] a.k = "grp"   -> <<LBR>> \o a.lead \o (IF a.s = <<>> THEN Itoa(a.n) ELSE a.s) \o a.trail \o CloseOf(a)
    [] a.k = "key"   -> <<LBR>> \o a.lead \o a.s \o a.trail \o CloseOf(a)
    [] a.k = "empty" -> <<LBR>> \o a.lead \o CloseOf(a)
    [] a.k = "call"  -> <<LBR>> \o a.lead \o a.s
                        \o Flatten([j \in 1..Len(a.args) |-> a.sep[j] \o PrintN(a.args[j], FALSE)])
                        \o a.trail \o CloseOf(a)
    [] a.k = "qt"    -> <<QUO>>
                        \o Flatten([j \in 1..Len(a.args) |->
                                      IF a.args[j].k = "lit" THEN a.args[j].s ELSE PrintN(a.args[j], FALSE)])
                        \o <<QUO>>
    [] OTHER         -> <<>>
PrintTpl(tpl) == Flatten([j \in 1..Len(tpl) |-> PrintN(tpl[j], TRUE)])

\* ---- the documented domain
\* white space: every character the property's "whitespace" covers - the Unicode White_Space characters the
\* unchanged tokenizer (argSplitter.go: unicode.IsSpace) separates arguments on, not only space and tab
Blank(w) == \A i \in 1..Len(w) : IsSpaceU(w[i])
IsSpecial(c) == c \in {QUO, LBR, RBR, BSL}
IsChar(c) == c >= 1 /\ c <= 1114111 /\ ~(c >= 55296 /\ c <= 57343) /\ ~IsMarker(c)
PlainChar(c) == IsChar(c) /\ ~IsSpecial(c)
\* a bare word: what can stand unquoted between blanks
Word(s) == s # <<>> /\ \A i \in 1..Len(s) : PlainChar(s[i]) /\ ~IsSpaceU(s[i])
\* a key name: a word that nobody would read as an integer
KeyWord(s) == Word(s) /\ \E i \in 1..Len(s) : ~IsDigit(s[i]) /\ s[i] \notin {43, 45}
\* top level: `{` and `\` need the backslash, n t r must not get one (they would turn into control characters)
EscOK(c, e) == e \in {0, 1} /\ (c \in {LBR, BSL} => e = 1) /\ (c \in {110, 116, 114} => e = 0)

RECURSIVE NoQuote(_)
NoQuote(a) == a.k # "qt" /\ (a.k = "lit" => ~a.q) /\ \A j \in 1..Len(a.args) : NoQuote(a.args[j])
RECURSIVE WFStmt(_)
RECURSIVE WFArg(_)
WFStmt(a) ==
  /\ Blank(a.lead) /\ Blank(a.trail) /\ a.drop \in BOOLEAN
  /\ CASE a.k = "grp"   -> IF a.s = <<>> THEN a.n >= 0 /\ a.n <= 999999999 ELSE a.n = 0 /\ IxIntWord(a.s)
       [] a.k = "key"   -> KeyWord(a.s)
       [] a.k = "empty" -> a.trail = <<>>
       [] a.k = "call"  -> /\ Word(a.s)
                           /\ Len(a.args) >= 1 /\ Len(a.sep) = Len(a.args)
                           /\ \A j \in 1..Len(a.args) :
                                a.sep[j] # <<>> /\ Blank(a.sep[j]) /\ WFArg(a.args[j])
       [] OTHER         -> FALSE
WFArg(a) ==
  IF a.k = "lit"
  THEN /\ \A i \in 1..Len(a.s) : PlainChar(a.s[i])
       /\ a.q \in BOOLEAN /\ (a.q \/ Word(a.s))          \* empty or blank-containing arguments need quotes
  ELSE IF a.k = "qt"
  THEN /\ Len(a.args) >= 1
       /\ \A j \in 1..Len(a.args) :
            LET p == a.args[j] IN
            IF p.k = "lit" THEN p.s # <<>> /\ \A i \in 1..Len(p.s) : PlainChar(p.s[i])
            ELSE WFStmt(p) /\ NoQuote(p)                  \* a quote inside would end the argument
  ELSE WFStmt(a)
WFTop(a) ==
  IF a.k = "lit"
  THEN /\ a.s # <<>> /\ Len(a.esc) = Len(a.s)
       /\ \A i \in 1..Len(a.s) : IsChar(a.s[i]) /\ EscOK(a.s[i], a.esc[i])
  ELSE WFStmt(a)

\* ---- malformations
RECURSIVE CountDrop(_)
CountDrop(a) ==
  (IF a.k \notin {"lit", "qt"} /\ a.drop THEN 1 ELSE 0)
  + FoldLeft(LAMBDA acc, x : acc + CountDrop(x), 0, a.args)
\* F is the set of registered function names
RECURSIVE ErrFullF(_, _)
\* every class somebody could justify for this node
ErrFullF(a, F) ==
  (IF a.k \notin {"lit", "qt"} /\ a.drop THEN {"unterminated"} ELSE {})
  \cup (IF a.k = "empty" THEN {"empty"} ELSE {})
  \cup (IF a.k = "call" /\ a.s \notin F THEN {"unknownFunc"} ELSE {})
  \cup UNION {ErrFullF(a.args[j], F) : j \in 1..Len(a.args)}
RECURSIVE ErrSureF(_, _)
\* the classes that must be reported (arguments of an unknown function need not be looked at)
ErrSureF(a, F) ==
  IF a.k = "empty" THEN {"empty"}
  ELSE IF a.k = "call" /\ a.s \notin F THEN {"unknownFunc"}
  ELSE UNION {ErrSureF(a.args[j], F) : j \in 1..Len(a.args)}
RECURSIVE SureCnt(_, _, _)
\* ... and how many statements of class c must be reported: EVERY empty statement and every call of an
\* unregistered function is an error of its own, also when the same text occurs twice
SureCnt(a, F, c) ==
  IF a.k = "empty" THEN (IF c = "empty" THEN 1 ELSE 0)
  ELSE IF a.k = "call" /\ a.s \notin F THEN (IF c = "unknownFunc" THEN 1 ELSE 0)
  ELSE FoldLeft(LAMBDA acc, x : acc + SureCnt(x, F, c), 0, a.args)
ErrFull(a) == ErrFullF(a, Funcs)
ErrSure(a) == ErrSureF(a, Funcs)

DropsIn(tpl) == FoldLeft(LAMBDA acc, x : acc + CountDrop(x), 0, tpl)
FirstDrop(tpl) == MinOf({j \in 1..Len(tpl) : CountDrop(tpl[j]) > 0})
RawClose(a) == a.k = "lit" /\ \E i \in 1..Len(a.s) : a.s[i] = RBR /\ a.esc[i] = 0

(* Well-formed annotated template inside the documented domain.  With a dropped  *)
(* closing brace the rest of the text belongs to the open statement, so no raw   *)
(* `}` may follow at top level (it would close it again).                        *)
WFTpl(tpl) ==
  /\ \A j \in 1..Len(tpl) : WFTop(tpl[j])
  /\ DropsIn(tpl) > 0 => \A j \in (FirstDrop(tpl) + 1)..Len(tpl) : ~RawClose(tpl[j])

ErrClasses == {"unterminated", "empty", "unknownFunc"}
ErrUpperF(tpl, F) == UNION {ErrFullF(tpl[j], F) : j \in 1..Len(tpl)}
ErrLowerF(tpl, F) ==
  IF DropsIn(tpl) > 0
  THEN {"unterminated"} \cup UNION {ErrSureF(tpl[j], F) : j \in 1..(FirstDrop(tpl) - 1)}
  ELSE UNION {ErrSureF(tpl[j], F) : j \in 1..Len(tpl)}
\* the number of errors of class c that must be reported at least
ErrLowCntF(tpl, F, c) ==
  IF DropsIn(tpl) > 0
  THEN (IF c = "unterminated" THEN 1 ELSE 0)
       + FoldLeft(LAMBDA acc, x : acc + SureCnt(x, F, c), 0, SubSeq(tpl, 1, FirstDrop(tpl) - 1))
  ELSE FoldLeft(LAMBDA acc, x : acc + SureCnt(x, F, c), 0, tpl)
ErrLowCntsF(tpl, F) == [c \in ErrClasses |-> ErrLowCntF(tpl, F, c)]
MutatedF(tpl, F) == DropsIn(tpl) > 0 \/ ErrUpperF(tpl, F) # {}

Mutated(tpl) == MutatedF(tpl, Funcs)
ErrUpper(tpl) == ErrUpperF(tpl, Funcs)
ErrLower(tpl) == ErrLowerF(tpl, Funcs)
ErrLowCnts(tpl) == ErrLowCntsF(tpl, Funcs)

\* ---- the tree a printed template denotes
\* index width of the implementation's integers (Go int on the 64-bit platforms rare is built for)
IdxWidth == 64
\* a decision of ExprSyntaxIdx as a node
IxNodeOf(r) ==
  IF ~r.grp THEN KeyN(r.s)
  ELSE IF Len(r.s) - (IF r.s[1] = 45 THEN 1 ELSE 0) <= 9 THEN GrpN(ParseIntVal(r.s)) ELSE BigN(r.s)
\* a written integer denotes the group of that number if the number is an index at all, else it is a word: a key
WrittenInt(s) == IxNodeOf(IxDenote(s, IdxWidth))
RECURSIVE StripN(_)
StripN(a) ==
  CASE a.k = "lit"  -> LitN(a.s)
    [] a.k = "grp"  -> IF a.s = <<>> THEN GrpN(a.n) ELSE WrittenInt(a.s)
    [] a.k = "key"  -> KeyN(a.s)
    [] a.k = "call" -> CallN(a.s, [j \in 1..Len(a.args) |-> StripN(a.args[j])])
    [] a.k = "qt"   -> CatN([j \in 1..Len(a.args) |-> StripN(a.args[j])])
    [] OTHER        -> N(a.k, <<>>, 0, <<>>)
StripT(tpl) == NormSeq([j \in 1..Len(tpl) |-> StripN(tpl[j])])
\* ... under a function table: every call is bound to the version registered when the template is compiled
RECURSIVE StripNF(_, _)
StripNF(a, ft) ==
  CASE a.k = "lit"  -> LitN(a.s)
    [] a.k = "grp"  -> IF a.s = <<>> THEN GrpN(a.n) ELSE WrittenInt(a.s)
    [] a.k = "key"  -> KeyN(a.s)
    [] a.k = "call" -> CallV(a.s, IF a.s \in DOMAIN ft THEN ft[a.s] ELSE 0, [j \in 1..Len(a.args) |-> StripNF(a.args[j], ft)])
    [] a.k = "qt"   -> CatN([j \in 1..Len(a.args) |-> StripNF(a.args[j], ft)])
    [] OTHER        -> N(a.k, <<>>, 0, <<>>)
StripTF(tpl, ft) == NormSeq([j \in 1..Len(tpl) |-> StripNF(tpl[j], ft)])

\* =================================================================== (b) parse model
Unescape(c) == IF c = 110 THEN LF ELSE IF c = 114 THEN CR ELSE IF c = 116 THEN TAB ELSE c

\* ---- argSplitter.go splitTokenizedArguments: blank-separated tokenizer respecting escapes, quotes and {}
RECURSIVE SLoop(_, _, _, _, _, _, _)
SLoop(s, i, args, sb, td, quoted, escaped) ==
  IF i > Len(s) THEN (IF sb # <<>> THEN Append(args, sb) ELSE args)
  ELSE LET c == s[i] IN
    IF escaped THEN SLoop(s, i + 1, args, Append(sb, c), td, quoted, FALSE)
    ELSE IF c = BSL THEN SLoop(s, i + 1, args, sb, td, quoted, TRUE)
    ELSE IF c = QUO /\ ~quoted THEN
      SLoop(s, i + 1, args, IF td > 0 THEN Append(sb, QUO) ELSE sb, td, TRUE, FALSE)
    ELSE IF c = QUO /\ quoted THEN
      IF td > 0 THEN SLoop(s, i + 1, args, Append(sb, QUO), td, FALSE, FALSE)
      ELSE SLoop(s, i + 1, Append(args, sb), <<>>, td, FALSE, FALSE)      \* always append, even if empty
    ELSE IF c = LBR /\ ~quoted THEN SLoop(s, i + 1, args, Append(sb, c), td + 1, quoted, FALSE)
    ELSE IF c = RBR /\ ~quoted THEN SLoop(s, i + 1, args, Append(sb, c), td - 1, quoted, FALSE)
    ELSE IF IsSpaceU(c) /\ sb # <<>> /\ td = 0 /\ ~quoted THEN
      SLoop(s, i + 1, Append(args, sb), <<>>, td, quoted, FALSE)
    ELSE IF ~IsSpaceU(c) \/ quoted \/ td > 0 THEN
      SLoop(s, i + 1, args, Append(sb, c), td, quoted, FALSE)
    ELSE SLoop(s, i + 1, args, sb, td, quoted, FALSE)
SplitM(s) == SLoop(s, 1, <<>>, <<>>, 0, FALSE, FALSE)

\* ---- stage.go stageSimpleVariable: an integer is a match group, anything else a key.  "Integer" is strconv.Atoi's
\* verdict, transcribed for digit strings of any length in ExprSyntaxIdx.tla (IxAtoi: accumulator with a range check
\* at every step, width IdxWidth); a number that is out of range is a key like any other word.
SimpleVarM(s) == IxNodeOf(IxAtoi(s, IdxWidth))

ErrText(name) == <<60, 69, 114, 114, 58>> \o name \o <<62>>      \* <Err:name>

\* ---- keyBuilder.go Compile (ft: the key builder's function table at the time of the call)
RECURSIVE CompileF(_, _)
RECURSIVE CLoop(_, _, _, _, _, _, _)
RECURSIVE StatementM(_, _)
StatementM(sb, ft) ==
  LET args == SplitM(sb) IN
  IF Len(args) = 0 THEN [st |-> <<>>, er |-> <<"empty">>]
  ELSE IF Len(args) = 1 THEN [st |-> <<SimpleVarM(args[1])>>, er |-> <<>>]
  ELSE IF args[1] \in DOMAIN ft THEN
    LET cs == [j \in 1..(Len(args) - 1) |-> CompileF(args[j + 1], ft)] IN
    [st |-> <<CallV(args[1], ft[args[1]], [j \in 1..Len(cs) |-> JoinM(cs[j].st)])>>,
     er |-> Flatten([j \in 1..Len(cs) |-> cs[j].er])]
  ELSE [st |-> <<LitN(ErrText(args[1]))>>, er |-> <<"unknownFunc">>]

\* r text, i position, depth = inStatement, sb the string builder, st stages, er errors
CLoop(r, i, depth, sb, st, er, ft) ==
  IF i > Len(r) THEN
    [st |-> IF sb # <<>> THEN Append(st, LitN(sb)) ELSE st,
     er |-> IF depth # 0 THEN Append(er, "unterminated") ELSE er]
  ELSE LET c == r[i] IN
    IF c = BSL THEN
      IF i + 1 <= Len(r) THEN CLoop(r, i + 2, depth, Append(sb, Unescape(r[i + 1])), st, er, ft)
      ELSE CLoop(r, i + 1, depth, Append(sb, BSL), st, er, ft)     \* lone trailing backslash (outside the domain)
    ELSE IF c = LBR THEN
      IF depth = 0
      THEN CLoop(r, i + 1, 1, <<>>, IF sb # <<>> THEN Append(st, LitN(sb)) ELSE st, er, ft)
      ELSE CLoop(r, i + 1, depth + 1, Append(sb, c), st, er, ft)
    ELSE IF c = RBR /\ depth > 0 THEN
      IF depth = 1
      THEN LET res == StatementM(sb, ft) IN CLoop(r, i + 1, 0, <<>>, st \o res.st, er \o res.er, ft)
      ELSE CLoop(r, i + 1, depth - 1, Append(sb, c), st, er, ft)
    ELSE CLoop(r, i + 1, depth, Append(sb, c), st, er, ft)
CompileF(r, ft) == CLoop(r, 1, 0, <<>>, <<>>, <<>>, ft)
CompileM(r) == CompileF(r, BaseFt)

ParseModel(text) == CompileM(text)
ErrSet(p) == {p.er[j] : j \in 1..Len(p.er)}
\* the value of a template without statements
EvalLit(p) == Spell(p.st)

\* does the model stay inside what it can compute (no integer beyond 9 digits)?
RECURSIVE HasBig(_)
HasBig(x) == x.k = "big" \/ \E j \in 1..Len(x.args) : HasBig(x.args[j])

\* =================================================================== laws (checked by ExprSyntax_MC, used by ExprSyntax_Trace)
\* parsing a printed well-formed tree gives the tree back, without errors (under any function table ft;
\* calls are bound to the versions registered in ft)
\* (the ...P forms take the parse result p, so that a caller can share it)
RoundTripP(tpl, ft, p) ==
  /\ p.er = <<>>
  /\ NormSeq(p.st) = StripTF(tpl, ft)
  /\ Spell(p.st) = Spell(StripTF(tpl, ft))
RoundTripOKF(tpl, ft) == RoundTripP(tpl, ft, CompileF(PrintTpl(tpl), ft))
RoundTripOK(tpl) == RoundTripOKF(tpl, BaseFt) /\ StripTF(tpl, BaseFt) = StripT(tpl)
\* a malformed template yields its documented classes, every malformed statement an error of its own
CountOf(er, c) == Cardinality({j \in 1..Len(er) : er[j] = c})
ErrClassP(tpl, ft, p) ==
  LET F == DOMAIN ft
      got == ErrSet(p) IN
  /\ ErrLowerF(tpl, F) \subseteq got /\ got \subseteq ErrUpperF(tpl, F)
  /\ \A c \in ErrClasses : CountOf(p.er, c) >= ErrLowCntF(tpl, F, c)
ErrClassOKF(tpl, ft) == ErrClassP(tpl, ft, CompileF(PrintTpl(tpl), ft))
ErrClassOK(tpl) == ErrClassOKF(tpl, BaseFt)
\* the escaped rendering of s evaluates to s
EscapeOK(s, esc) ==
  LET p == ParseModel(EscapeP(s, esc)) IN
  /\ p.er = <<>> /\ EvalLit(p) = s
  /\ p.st = (IF s = <<>> THEN <<>> ELSE <<LitN(s)>>)
=============================================================================

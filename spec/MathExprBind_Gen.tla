--------------------------- MODULE MathExprBind_Gen ---------------------------
(* B1 generator for MathExprBind: formulas (trees over x, y, a variable z the    *)
(* data never have, constants; one and two operators, unary operators and       *)
(* functions) printed in several variants, each with what the specification     *)
(* says for every row of GRows (the cells of x and y: four numbers or no        *)
(* number): the error marker (bad), the value n/d (def), or no demand           *)
(* (def = FALSE / lazy = TRUE).  The driver compiles every printing ONCE and    *)
(* evaluates the compiled object along a schedule over the rows (so that every  *)
(* evaluation follows another one on the same object), then from several        *)
(* goroutines at once; the result of every evaluation is compared with the      *)
(* row's expectation - it may depend on nothing else.                           *)
EXTENDS MathExprBind, Json

VARIABLE vec

X == Var(1)
Y == Var(2)
Z == Var(3)                                   \* no such index / key in the data
N0 == Num(<<0, 1>>)
N2 == Num(<<2, 1>>)
N3 == Num(<<3, 1>>)
GCells == <<NumCell(<<3, 1>>), NumCell(<<0 - 1, 2>>), NumCell(<<0, 1>>), NumCell(<<7, 2>>), BadCell>>
GRows == [i \in 1..25 |-> <<GCells[((i - 1) \div 5) + 1], GCells[((i - 1) % 5) + 1]>>]

L4 == {X, Y, N2, N0}
O1 == {"+", "-", "*", "/", "^", "<", "==", "&&", "||", "%", "&", "<<"}
O2 == {"+", "*", "&&"}
One == {Bin(o, a, b) : o \in O1, a \in L4, b \in L4} \cup {X, Y, N3}
Unary == {Un(u, Bin(o, a, b)) : u \in {"-", "!", "abs", "sqrt"}, o \in {"+", "*"}, a \in {X, N2}, b \in {Y, N0}}
         \cup {Bin(o, Un(u, a), b) : u \in {"-", "!", "abs", "floor"}, o \in {"+", "*", "<"}, a \in {X, N2}, b \in {Y, N3}}
         \cup {Un(u, a) : u \in {"-", "!", "abs", "round"}, a \in {X, N3}}
Two == {Bin(o1, Bin(o2, a, b), c) : o1 \in O2, o2 \in O2, a \in {X, Y, N2}, b \in {X, Y, N2}, c \in {X, Y, N2}}
       \cup {Bin(o1, a, Bin(o2, b, c)) : o1 \in O2, o2 \in O2, a \in {X, Y, N2}, b \in {X, Y, N2}, c \in {X, Y, N2}}
Absent == {Z} \cup {Bin(o, Z, a) : o \in {"+", "*", "||"}, a \in {X, N2}} \cup {Bin(o, a, Z) : o \in {"+", "*", "||"}, a \in {X, N2}}
          \cup {Un("abs", Z), Bin("*", N0, Z), Bin("-", Z, Z)}
Families == <<<<"one", One>>, <<"absent", Absent>>, <<"unary", Unary>>, <<"two", Two>>>>

RowExp(t, row) ==
  LET r == BindResult(t, row) IN
  [bad |-> r.bad, lazy |-> Lazy(t), def |-> r.v.def, n |-> r.v.n, d |-> r.v.d]
BAlts(t) == {PrintF(t, [par |-> "full", imp |-> FALSE, num |-> "d", var |-> "boxed"]),
             PrintF(t, [par |-> "min", imp |-> FALSE, num |-> "x", var |-> "idx"])}
BVector(g, t) == [g |-> g, toks |-> PrintF(t, V0), alts |-> BAlts(t), reads |-> Len(ReadSeq(t)),
               exp |-> [i \in 1..25 |-> RowExp(t, GRows[i])]]
Header == [g |-> "hdr", rows |-> [i \in 1..25 |-> [c \in 1..2 |-> [k |-> GRows[i][c].k, n |-> GRows[i][c].q[1], d |-> GRows[i][c].q[2]]]]]

\* model-level sanity of the expectation: no variable => never the marker; the marker <=> some variable that occurs reads no number
ExpLaw(t) ==
  /\ VarsOf(t) = {} => \A i \in 1..25 : ~BindResult(t, GRows[i]).bad
  /\ \A i \in 1..25 : BindResult(t, GRows[i]).bad <=> (\E v \in VarsOf(t) : CellOf(GRows[i], v).k = "bad")
  /\ 3 \in VarsOf(t) => \A i \in 1..25 : BindResult(t, GRows[i]).bad
  /\ \A i \in 1..25 : ResultOK(t, GRows[i], BindResult(t, GRows[i]))
  /\ Len(ReadSeq(t)) >= Cardinality(VarsOf(t))

GInitB == vec \in {[k |-> "hdr"]} \cup UNION {{[k |-> "t", g |-> Families[f][1], t |-> t] : t \in Families[f][2]} : f \in 1..Len(Families)}
GNextB == FALSE /\ vec' = vec
GLawB == vec.k = "t" => ExpLaw(vec.t)
DumpB == PrintT("VFJ " \o ToJson(IF vec.k = "hdr" THEN Header ELSE BVector(vec.g, vec.t)))
=============================================================================

------------------------------- MODULE Inputs -------------------------------
(* C06 - named inputs: what one invocation                                      *)
(*     rare <cmd> [-R] [-z] [--readers n] <args...>   (cwd = root of `tree`)    *)
(* must read, deliver and report.  This module is the functional oracle: the    *)
(* expansion of the arguments into *mentions* (Expand), the result of opening   *)
(* and reading one mention (ReadOutcome), the rows the command must output, the *)
(* number of read errors and the exit status (with its precedence).  The        *)
(* implementation-shaped life cycle of the readers is InputsLife.tla, which     *)
(* TLC shows to produce exactly these outcomes under every interleaving.        *)
(*                                                                              *)
(* A scenario is a record                                                       *)
(*   tree    : sequence of nodes [p |-> path, k |-> kind, data |-> bytes,       *)
(*                                tr |-> transport, mem |-> member sizes]       *)
(*             path = sequence of components, component = byte sequence         *)
(*             kind = "dir" | "file" | "gz" | "mgz" | "truncgz" | "crcgz" |     *)
(*                    "badgz"                                                   *)
(*                  | "sock" | "symfile" | "symdir" | "dangling" | "dev"        *)
(*                    (directory entries that are neither a directory nor a     *)
(*                    regular file: unix socket, symbolic link to a file / to a *)
(*                    directory / to nothing, device node; a FIFO is a "file"   *)
(*                    with transport "pipe")                                    *)
(*             data = the (decompressed) content                                *)
(*             mem  = for "mgz" (a gzip file of several members: cat a.gz b.gz, *)
(*                    gzip -c >> x.gz) the plain sizes of the members, in       *)
(*                    order (>= 2 members, a member may be empty, a line may    *)
(*                    span members); <<>> for every other kind                  *)
(*             tr   = "reg"  a regular file: can be rewound, reports its size   *)
(*                    "pipe" a FIFO / inherited pipe: cannot be rewound and     *)
(*                           reports size 0 whatever it will deliver            *)
(*             a path whose first component is empty is ABSOLUTE: an input that *)
(*             exists outside the directory tree (/dev/stdin, /dev/fd/3 = a     *)
(*             process substitution); globs and walks never produce it          *)
(*   stdin   : [k |-> "data" | "dir", data |-> bytes]                           *)
(*   args    : sequence of arguments, each a path whose components may contain  *)
(*             the glob characters * and ?                                      *)
(*   rec, gz : BOOLEAN (-R, -z);  readers : Nat;  cmd : "filter" | "histo"      *)
(*   nofile  : the descriptor limit of the process (RLIMIT_NOFILE), 0 = default *)
EXTENDS Bytes

Slash == 47
Star  == 42
Quest == 63
Colon == 58
StdinName == <<60, 115, 116, 100, 105, 110, 62>>      \* "<stdin>"
DashArg   == << <<45>> >>                               \* the argument "-"

GzKinds   == {"gz", "mgz", "truncgz", "crcgz", "badgz"}
FileKinds == {"file"} \cup GzKinds
\* directory entries that are neither directories nor regular files (besides the FIFO = transport "pipe")
SpecialKinds == {"sock", "symfile", "symdir", "dangling", "dev"}
Kinds     == {"dir"} \cup FileKinds \cup SpecialKinds
Transports == {"reg", "pipe"}
\* a REGULAR file - what the property's -R clause speaks of - and its complement among the non-directories
Regular(n) == n.k \in FileKinds /\ n.tr = "reg"
Special(n) == n.k \in SpecialKinds \/ (n.k # "dir" /\ n.tr = "pipe")
RECURSIVE SumSeq(_)
SumSeq(s) == IF s = <<>> THEN 0 ELSE s[1] + SumSeq(Tail(s))
IsAbs(p)  == p # <<>> /\ p[1] = <<>>

PathStr(p) == JoinSeq(p, <<Slash>>)

\* ------------------------------------------------------------------ the tree
Nodes(tree) == {tree[i] : i \in DOMAIN tree}
Exists(tree, p) == \E i \in DOMAIN tree : tree[i].p = p
NodeAt(tree, p) == tree[CHOOSE i \in DOMAIN tree : tree[i].p = p]
KindAt(tree, p) == IF Exists(tree, p) THEN NodeAt(tree, p).k ELSE "absent"
DataAt(tree, p) == IF Exists(tree, p) THEN NodeAt(tree, p).data ELSE <<>>

IsPathPrefix(r, p) == Len(r) <= Len(p) /\ SubSeq(p, 1, Len(r)) = r

\* well-formed: paths unique and non-empty, every proper prefix of a path is a directory,
\* no glob character or separator inside a name, directories carry no data
TreeOK(tree) ==
  /\ \A i, j \in DOMAIN tree : tree[i].p = tree[j].p => i = j
  /\ \A i \in DOMAIN tree :
       /\ tree[i].k \in Kinds /\ tree[i].tr \in Transports
       /\ tree[i].p # <<>>
       /\ \A c \in DOMAIN tree[i].p :
            /\ tree[i].p[c] # <<>> \/ (c = 1 /\ Len(tree[i].p) > 1)
            /\ \A x \in DOMAIN tree[i].p[c] : tree[i].p[c][x] \notin {Slash, Star, Quest, 0, 91, 92}
       /\ IF IsAbs(tree[i].p) THEN tree[i].k # "dir"
          ELSE \A n \in 1..(Len(tree[i].p) - 1) : KindAt(tree, SubSeq(tree[i].p, 1, n)) = "dir"
       /\ tree[i].k \in {"dir", "badgz"} \cup SpecialKinds => tree[i].data = <<>>
       /\ tree[i].k \in {"dir"} \cup SpecialKinds => tree[i].tr = "reg"
       /\ IF tree[i].k = "mgz"
          THEN /\ Len(tree[i].mem) >= 2 /\ \A j \in DOMAIN tree[i].mem : tree[i].mem[j] >= 0
               /\ SumSeq(tree[i].mem) = Len(tree[i].data)
          ELSE tree[i].mem = <<>>

\* ------------------------------------------- glob matching (filepath.Match on * ? and literals)
RECURSIVE Match(_, _)
Match(pat, name) ==
  IF pat = <<>> THEN name = <<>>
  ELSE IF pat[1] = Star
       THEN Match(Tail(pat), name) \/ (name # <<>> /\ Match(pat, Tail(name)))
       ELSE name # <<>> /\ (pat[1] = Quest \/ pat[1] = name[1]) /\ Match(Tail(pat), Tail(name))

\* bytewise / component-wise lexical order: the order in which filepath.Walk and filepath.Glob
\* produce names (sorted per directory, depth first)
RECURSIVE BLess(_, _)
BLess(a, b) ==
  IF b = <<>> THEN FALSE ELSE IF a = <<>> THEN TRUE
  ELSE IF a[1] # b[1] THEN a[1] < b[1] ELSE BLess(Tail(a), Tail(b))
RECURSIVE PLess(_, _)
PLess(p, q) ==
  IF q = <<>> THEN FALSE ELSE IF p = <<>> THEN TRUE
  ELSE IF p[1] # q[1] THEN BLess(p[1], q[1]) ELSE PLess(Tail(p), Tail(q))
SortPaths(S) == SetToSortSeq(S, PLess)

\* every REGULAR file strictly below root: what a -R walk must mention
Below(root, m) == Len(m.p) > Len(root) /\ IsPathPrefix(root, m.p)
WalkSet(tree, root) == {n.p : n \in {m \in Nodes(tree) : Regular(m) /\ Below(root, m)}}
\* the other non-directories below root: the property does not say whether a walk mentions them
WalkMay(tree, root) == {n.p : n \in {m \in Nodes(tree) : Special(m) /\ Below(root, m)}}
\* every existing path (file OR directory) matching the pattern component by component
\* (a relative pattern never produces an absolute path: * does not match the root)
GlobSet(tree, pat) ==
  {n.p : n \in {m \in Nodes(tree) : Len(m.p) = Len(pat) /\ IsAbs(m.p) = IsAbs(pat)
                                     /\ \A i \in 1..Len(pat) : Match(pat[i], m.p[i])}}

\* one argument -> the sequence of paths it mentions
ExpandArg(tree, a, rec) ==
  IF rec /\ KindAt(tree, a) = "dir"
  THEN SortPaths(WalkSet(tree, a))                      \* -R dir: regular files below it
  ELSE LET g == GlobSet(tree, a) IN
       IF g # {} THEN SortPaths(g)                      \* glob hits (a literal that exists hits itself)
       ELSE <<a>>                                        \* literal fallback: reported when it cannot be opened

RECURSIVE ExpandAll(_, _, _)
ExpandAll(tree, args, rec) ==
  IF args = <<>> THEN <<>> ELSE ExpandArg(tree, args[1], rec) \o ExpandAll(tree, Tail(args), rec)

UsesStdin(args) == IF args = <<>> THEN TRUE ELSE args[1] = DashArg

\* a mention: [std |-> is standard input, p |-> path]
Mentions(sc) ==
  IF UsesStdin(sc.args) THEN << [std |-> TRUE, p |-> <<>>] >>
  ELSE LET e == ExpandAll(sc.tree, sc.args, sc.rec) IN [i \in 1..Len(e) |-> [std |-> FALSE, p |-> e[i]]]

NameOf(m) == IF m.std THEN StdinName ELSE PathStr(m.p)

\* the non-regular entries below the -R directory arguments.  The property demands that every REGULAR file
\* below a directory argument is read exactly once - wherever such entries sit among them; whether an entry of
\* this set is itself opened (and then delivers something or counts as a read error) is left open:
\* rows under these names are not judged, each may add at most one read error
MayPaths(sc) ==
  IF UsesStdin(sc.args) \/ ~sc.rec THEN {}
  ELSE UNION {WalkMay(sc.tree, sc.args[i]) : i \in {j \in DOMAIN sc.args : KindAt(sc.tree, sc.args[j]) = "dir"}}
\* how often the walks reach path p
MayCount(sc, p) ==
  IF UsesStdin(sc.args) \/ ~sc.rec THEN 0
  ELSE Cardinality({i \in DOMAIN sc.args : KindAt(sc.tree, sc.args[i]) = "dir" /\ p \in WalkMay(sc.tree, sc.args[i])})
MayTotal(sc) == LET P == MayPaths(sc) ps == SetToSeq(P) IN SumSeq([i \in DOMAIN ps |-> MayCount(sc, ps[i])])

\* ------------------------------------------------- the walk, written like filepath.Walk + callback
\* filepath.Walk lists a directory in lexical order and calls the callback for every entry (Lstat: a symbolic
\* link is an entry of its own, never followed); the callback's answer "skipdir" for a directory skips that
\* directory, for any OTHER entry it skips THE REST OF THE DIRECTORY THAT CONTAINS IT.
\*   policy "code"    the callback of GlobExpand: emit every non-directory, answer nil
\*          "regular" emit regular files only, answer nil (admissible: specials are not demanded)
\*          "skipdir" answer skipdir for FIFOs, sockets and device nodes (looks like "skip this entry")
Children(tree, dir) ==
  SortPaths({n.p : n \in {m \in Nodes(tree) : Len(m.p) = Len(dir) + 1 /\ IsPathPrefix(dir, m.p)}})
Unopenable(n) == (n.k # "dir" /\ n.tr = "pipe") \/ n.k \in {"sock", "dev"}
Callback(policy, n) ==
  CASE policy = "code"    -> [emit |-> n.k # "dir", ret |-> "nil"]
    [] policy = "regular" -> [emit |-> Regular(n), ret |-> "nil"]
    [] policy = "skipdir" -> IF Unopenable(n) THEN [emit |-> FALSE, ret |-> "skipdir"]
                             ELSE [emit |-> n.k # "dir", ret |-> "nil"]
RECURSIVE WalkList(_, _, _)
WalkList(tree, list, policy) ==
  IF list = <<>> THEN <<>>
  ELSE LET n == NodeAt(tree, list[1])
           a == Callback(policy, n) IN
       IF n.k = "dir"
       THEN (IF a.ret = "skipdir" THEN <<>> ELSE WalkList(tree, Children(tree, n.p), policy))
            \o WalkList(tree, Tail(list), policy)
       ELSE (IF a.emit THEN <<n.p>> ELSE <<>>)
            \o (IF a.ret = "skipdir" THEN <<>> ELSE WalkList(tree, Tail(list), policy))
\* the names a -R walk of directory root sends to the readers
WalkImpl(tree, root, policy) == WalkList(tree, Children(tree, root), policy)
RegularOnly(tree, paths) == SelectSeq(paths, LAMBDA p : Regular(NodeAt(tree, p)))

\* the members of a multi-member gzip node
RECURSIVE CutBy(_, _)
CutBy(d, sizes) == IF sizes = <<>> THEN <<>> ELSE <<TakeFirst(d, sizes[1])>> \o CutBy(DropFirst(d, sizes[1]), Tail(sizes))
Members(n) == IF n.k = "mgz" THEN CutBy(n.data, n.mem) ELSE <<n.data>>

\* ------------------------------------------------------------- open and read
\* full = the bytes of the input, mode = "exact" (all of full is delivered) | "prefix" (some
\* prefix of full is delivered), err = 1 iff the input counts as a read error
ReadOutcome(sc, m) ==
  IF m.std
  THEN IF sc.stdin.k = "dir" THEN [full |-> <<>>, mode |-> "exact", err |-> 1]
       ELSE [full |-> sc.stdin.data, mode |-> "exact", err |-> 0]
  ELSE LET k == KindAt(sc.tree, m.p)
           d == DataAt(sc.tree, m.p) IN
       CASE k = "absent"  -> [full |-> <<>>, mode |-> "exact", err |-> 1]   \* cannot be opened
         [] k = "dir"     -> [full |-> <<>>, mode |-> "exact", err |-> 1]   \* opens, reading fails
         [] k = "file"    -> [full |-> d, mode |-> "exact", err |-> 0]      \* -z: probe fails, read from byte 0
         [] k = "gz"      -> [full |-> d, mode |-> "exact", err |-> 0]      \* (domain: only with -z)
         [] k = "mgz"     -> [full |-> d, mode |-> "exact", err |-> 0]      \* ALL members, concatenated
         [] k = "crcgz"   -> [full |-> d, mode |-> "exact", err |-> 1]      \* fails after the last byte
         [] k = "truncgz" -> [full |-> d, mode |-> "prefix", err |-> 1]     \* fails somewhere inside
         [] k = "badgz"   -> [full |-> <<>>, mode |-> "exact", err |-> 1]   \* fails at the first byte
         [] k \in SpecialKinds -> [full |-> <<>>, mode |-> "free", err |-> 0] \* nothing demanded (outside the domain)

\* ReadOutcome does not look at the transport: what an input delivers, and whether it counts as a
\* read error, is the same for a regular file, a FIFO, /dev/stdin and a process substitution.

\* the bytes the operating system hands out for a node when nothing decodes them (abstract image of
\* the compressed file: it starts with the gzip magic number and is never equal to the content)
GzMagic == <<31, 139>>
Image(k, d) == IF k \in GzKinds THEN GzMagic \o <<8>> \o d ELSE d
HasMagic(b) == Len(b) >= 2 /\ SubSeq(b, 1, 2) = GzMagic
\* the size the operating system reports before anything was read
ReportedSize(k, d, tr) == IF tr = "pipe" THEN 0 ELSE Len(Image(k, d))

\* the resource --readers bounds: inputs are opened under the reader slot, so never more than
\* `readers` of the mentioned inputs are open at the same time - however many are mentioned
MaxOpen(sc) == sc.readers
\* descriptors the process may need besides its inputs (standard streams, runtime poller, the
\* directory that is being listed): with nofile >= readers + FdReserve no readable input may fail
FdReserve == 16

\* ------------------------------------------------------------------- lines
DropOneCR(s) == IF s # <<>> /\ s[Len(s)] = CR THEN SubSeq(s, 1, Len(s) - 1) ELSE s
LinesOf(s) ==
  LET parts == SplitOn(s, LF)
      n     == Len(parts)
      term  == [i \in 1..(n - 1) |-> DropOneCR(parts[i])]
  IN IF parts[n] # <<>> THEN term \o <<parts[n]>> ELSE term

\* ------------------------------------------------------------------- the two commands
\*   filter    -m '^.+$'          -e '{src}:{line}:{0}'
\*   histogram -m '^(\w+) (\w+)$' -e '{src}:{line}:{1}' -e '{2}' --csv -
IsWordC(c) == IsDigit(c) \/ IsUpper(c) \/ IsLower(c) \/ c = 95
IsWord(s) == s # <<>> /\ \A i \in 1..Len(s) : IsWordC(s[i])
HistoLeft(t)  == SubSeq(t, 1, IndexByte(t, SP) - 1)
HistoRight(t) == DropFirst(t, IndexByte(t, SP))
HistoMatch(t) == IndexByte(t, SP) # 0 /\ IsWord(HistoLeft(t)) /\ IsWord(HistoRight(t))
\* "lib" = the batcher observed directly (no matcher): every line is a row
Matches(cmd, t) == IF cmd = "filter" THEN t # <<>> ELSE IF cmd = "lib" THEN TRUE ELSE HistoMatch(t)
BadInc(cmd, t)  == cmd = "histo" /\ HistoMatch(t) /\ ~AllDigits(HistoRight(t))

RowKey(name, i, t) == name \o <<Colon>> \o Itoa(i) \o <<Colon>> \o t
SampleOf(cmd, name, i, t) ==
  IF cmd \in {"filter", "lib"} THEN [r |-> RowKey(name, i, t), n |-> 1]
  ELSE [r |-> RowKey(name, i, HistoLeft(t)), n |-> ParseIntVal(HistoRight(t))]

\* the samples one delivered input contributes (line numbers count every line, matched or not)
RECURSIVE SamplesFrom(_, _, _, _)
SamplesFrom(cmd, name, lines, i) ==
  IF i > Len(lines) THEN <<>>
  ELSE (IF Matches(cmd, lines[i]) /\ ~BadInc(cmd, lines[i]) THEN <<SampleOf(cmd, name, i, lines[i])>> ELSE <<>>)
       \o SamplesFrom(cmd, name, lines, i + 1)
SamplesOf(cmd, name, bytes) == SamplesFrom(cmd, name, LinesOf(bytes), 1)
NMatched(cmd, bytes) == LET l == LinesOf(bytes) IN Cardinality({i \in 1..Len(l) : Matches(cmd, l[i])})
NBadInc(cmd, bytes)  == LET l == LinesOf(bytes) IN Cardinality({i \in 1..Len(l) : BadInc(cmd, l[i])})

\* ------------------------------------------------------------------- tallies
RECURSIVE SumN(_)
SumN(s) == IF s = <<>> THEN 0 ELSE s[1].n + SumN(Tail(s))
\* rows of the output: filter prints a row once per sample (n = multiplicity), histogram sums n per row key
Tally(samples) ==
  LET keys == {samples[i].r : i \in DOMAIN samples} IN
  [k \in keys |-> SumN(SelectSeq(samples, LAMBDA s : s.r = k))]

\* ------------------------------------------------------------------- exit status
ExitCode(nerr, nparse, nmatched) ==
  IF nerr > 0 THEN 2 ELSE IF nparse > 0 THEN 2 ELSE IF nmatched = 0 THEN 1 ELSE 0
ExitMsg(nerr, nparse) ==
  IF nerr > 0 THEN "read" ELSE IF nparse > 0 THEN "parse" ELSE "none"

\* ------------------------------------------------------------------- outcome of a run
\* deliv = sequence (one per mention) of the bytes actually delivered
RECURSIVE FlatSamples(_, _, _, _)
FlatSamples(cmd, ms, deliv, i) ==
  IF i > Len(ms) THEN <<>>
  ELSE SamplesOf(cmd, NameOf(ms[i]), deliv[i]) \o FlatSamples(cmd, ms, deliv, i + 1)
RECURSIVE SumF(_, _)
SumF(f, i) == IF i = 0 THEN 0 ELSE f[i] + SumF(f, i - 1)

OutcomeOf(sc, ms, deliv) ==
  LET nerr    == SumF([i \in 1..Len(ms) |-> ReadOutcome(sc, ms[i]).err], Len(ms))
      matched == SumF([i \in 1..Len(ms) |-> NMatched(sc.cmd, deliv[i])], Len(ms))
      parse   == SumF([i \in 1..Len(ms) |-> NBadInc(sc.cmd, deliv[i])], Len(ms))
      read    == SumF([i \in 1..Len(ms) |-> Len(LinesOf(deliv[i]))], Len(ms))
  IN [tally |-> Tally(FlatSamples(sc.cmd, ms, deliv, 1)), nerr |-> nerr, matched |-> matched,
      parse |-> parse, read |-> read,
      exit |-> ExitCode(nerr, parse, matched), msg |-> ExitMsg(nerr, parse)]

\* ends of a run (exit status, final message) the specification allows when up to ns read errors - and lines
\* nobody demands - may come from non-regular entries passed by a -R walk
AllowedEnd(o, ns) ==
  LET u == IF ns > 0 THEN {0, 1} ELSE {0} IN
  {<<ExitCode(o.nerr + e, o.parse + q, o.matched + m), ExitMsg(o.nerr + e, o.parse + q)>> : e \in 0..ns, q \in u, m \in u}
\* the rows that are judged: those of sources that are not in the free set
FreeNames(sc) == {PathStr(p) : p \in MayPaths(sc)}
Judged(t, free) == [k \in {x \in DOMAIN t : \A nm \in free : ~IsPrefixOf(nm \o <<Colon>>, x)} |-> t[k]]

PrefixIdx(sc, ms) == {i \in 1..Len(ms) : ReadOutcome(sc, ms[i]).mode = "prefix"}

\* all delivery vectors the specification allows
RECURSIVE Prod(_, _)
Prod(choice, n) == IF n = 0 THEN {<<>>} ELSE {Append(d, c) : d \in Prod(choice, n - 1), c \in choice[n]}
Deliveries(sc) ==
  LET ms == Mentions(sc)
      choice == [i \in 1..Len(ms) |->
                  LET ro == ReadOutcome(sc, ms[i]) IN
                  IF ro.mode = "prefix" THEN {TakeFirst(ro.full, n) : n \in 0..Len(ro.full)} ELSE {ro.full}]
  IN Prod(choice, Len(ms))
Outcomes(sc) == {OutcomeOf(sc, Mentions(sc), d) : d \in Deliveries(sc)}

\* the outcome when every "prefix" input delivers cut bytes (cut is clamped)
OutcomeCut(sc, cut) ==
  LET ms == Mentions(sc) IN
  OutcomeOf(sc, ms, [i \in 1..Len(ms) |-> LET ro == ReadOutcome(sc, ms[i]) IN
                       IF ro.mode = "prefix" THEN TakeFirst(ro.full, IF cut < Len(ro.full) THEN cut ELSE Len(ro.full))
                       ELSE ro.full])
\* the outcome with every input delivered completely
OutcomeFull(sc) ==
  LET ms == Mentions(sc) IN OutcomeOf(sc, ms, [i \in 1..Len(ms) |-> ReadOutcome(sc, ms[i]).full])

\* ------------------------------------------------------------------- domain of the specification
NoBadBytes(d) == \A i \in DOMAIN d : d[i] \in 0..255 /\ d[i] # CR
ArgOK(a) == a # <<>> /\ \A c \in DOMAIN a : (a[c] # <<>> \/ (c = 1 /\ Len(a) > 1))
                                              /\ \A x \in DOMAIN a[c] : a[c][x] \notin {Slash, 0, 91, 92}
PipePaths(tree) == {tree[i].p : i \in {j \in DOMAIN tree : tree[j].tr = "pipe"}}
InDomain(sc) ==
  /\ TreeOK(sc.tree)
  /\ \A i \in DOMAIN sc.tree : NoBadBytes(sc.tree[i].data)
  /\ NoBadBytes(sc.stdin.data)
  /\ sc.cmd \in {"filter", "histo", "lib"} /\ sc.readers >= 1
  /\ sc.nofile = 0 \/ sc.nofile >= sc.readers + FdReserve
  /\ IF UsesStdin(sc.args)
     THEN /\ Len(sc.args) <= 1 /\ ~sc.gz          \* "-" alone or nothing; -z with stdin is refused
          /\ \A i \in DOMAIN sc.tree : ~IsAbs(sc.tree[i].p)
     ELSE /\ \A i \in DOMAIN sc.args : ArgOK(sc.args[i]) /\ sc.args[i] # DashArg
          \* an absolute argument names an existing external input, literally
          /\ \A i \in DOMAIN sc.args : IsAbs(sc.args[i]) =>
                /\ Exists(sc.tree, sc.args[i])
                /\ \A c \in DOMAIN sc.args[i] : \A x \in DOMAIN sc.args[i][c] : sc.args[i][c][x] \notin {Star, Quest}
          \* a pipe hands its bytes out once: it is mentioned - by name, by a glob or by a -R walk - at most once
          /\ LET ms == Mentions(sc) IN
             \A p \in PipePaths(sc.tree) :
               Cardinality({i \in DOMAIN ms : ms[i].p = p}) + MayCount(sc, p) <= 1
          \* sockets, symbolic links and device nodes are in the domain only as entries a -R walk passes:
          \* no argument names them and no glob hits them
          /\ \A i \in DOMAIN Mentions(sc) : KindAt(sc.tree, Mentions(sc)[i].p) \notin SpecialKinds
          \* without -z nothing is demanded about how compressed files look
          /\ ~sc.gz => \A i \in DOMAIN Mentions(sc) : KindAt(sc.tree, Mentions(sc)[i].p) \notin GzKinds
=============================================================================

--------------------------- MODULE ExprSyntaxEval ---------------------------
(* C09 - "braces nest; hence an expression tree printed with this syntax          *)
(* evaluates exactly as the tree dictates": the EVALUATION of one compiled        *)
(* template, as a machine of frames.                                             *)
(*                                                                               *)
(* A compiled template (keyBuilder.go) is a tree of stages: literals, group and  *)
(* key lookups, function calls whose arguments are stages again, and JOINED      *)
(* argument stages ("cat": an argument written as several pieces, a{1}b or       *)
(* "x {0} y", compiled by joinStages into one stage that concatenates them).  A  *)
(* function of a funcs file (funcfile/stage.go) is a compiled template of its    *)
(* own, applied through a sub-context whose {0} {1} .. evaluate the argument      *)
(* stages of the call site, lazily, in the caller's context - so the SAME        *)
(* compiled body (the same stages) is active once per nesting level when a        *)
(* function is applied to itself, and one CompiledKeyBuilder is evaluated by      *)
(* several goroutines at once ("can be considered thread-safe"; the extractor     *)
(* workers do).                                                                  *)
(*                                                                               *)
(* The machine makes explicit where every piece of state of an evaluation lives: *)
(*   stk[w]    worker w's stack of frames (stage, context, next piece, and the    *)
(*             frame's own accumulator) - private to ONE evaluation               *)
(*   scratch   accumulators that belong to a compiled STAGE (shared by every      *)
(*             evaluation of that stage); the constant Shared says which kinds of *)
(*             stage keep their accumulator there:                               *)
(*               {}       the code as it is (strings.Builder per call)           *)
(*               {"cat"}  joinStages appending into one buffer allocated next to *)
(*                        the closure (seeded change C09-5)              REFUTED *)
(*               {"seq"}  BuildKey doing the same                        REFUTED *)
(* Law EvalOK: whatever the interleaving of the workers and whatever the nesting, *)
(* every evaluation returns the DENOTATION of the compiled tree in its own        *)
(* context (EvalD, a plain recursive function: no state at all).                  *)
(* Grain = "fine": every step of every worker is an interleaving point;           *)
(* Grain = "lookup": a worker runs from one context lookup to the next (what a    *)
(* test harness can control from outside: ExprSyntaxEval_Gen exports every such   *)
(* schedule for replay on the real code with gated contexts).                     *)
EXTENDS ExprSyntax

CONSTANTS Shared, Grain, CaseSel        \* CaseSel: 0 = every case of the pool, k = case k only

\* ------------------------------------------------------------------ the pool: funcs-file definitions, template, workers
Pool == <<
  [defs |-> <<>>,
   text |-> <<60, 123, 102, 32, 123, 48, 125, 45, 123, 49, 125, 45, 123, 50, 125, 125, 62>>, nw |-> 2],   \*  1     <{f {0}-{1}-{2}}>
  [defs |-> <<>>,
   text |-> <<123, 102, 32, 97, 123, 48, 125, 32, 123, 103, 32, 123, 49, 125, 98, 125, 125, 120>>, nw |-> 2],   \*  2     {f a{0} {g {1}b}}x
  [defs |-> <<<<<<119, 114, 97, 112>>, <<123, 102, 32, 60, 123, 48, 125, 62, 125>>>>>>,
   text |-> <<123, 119, 114, 97, 112, 32, 123, 119, 114, 97, 112, 32, 123, 48, 125, 125, 125>>, nw |-> 1],   \*  3  wrap {f <{0}>}   {wrap {wrap {0}}}
  [defs |-> <<<<<<119, 114, 97, 112>>, <<123, 102, 32, 60, 123, 48, 125, 62, 125>>>>>>,
   text |-> <<123, 119, 114, 97, 112, 32, 123, 119, 114, 97, 112, 32, 123, 48, 125, 125, 125>>, nw |-> 2],   \*  4  wrap {f <{0}>}   {wrap {wrap {0}}}
  [defs |-> <<<<<<119, 114, 97, 112>>, <<123, 102, 32, 60, 123, 48, 125, 62, 125>>>>>>,
   text |-> <<123, 119, 114, 97, 112, 32, 123, 119, 114, 97, 112, 32, 123, 119, 114, 97, 112, 32, 123, 48, 125, 125, 125, 125, 45, 123, 102, 32, 97, 123, 49, 125, 125>>, nw |-> 2],   \*  5  wrap {f <{0}>}   {wrap {wrap {wrap {0}}}}-{f a{1}}
  [defs |-> <<<<<<119, 114, 97, 112>>, <<123, 102, 32, 60, 123, 48, 125, 62, 125>>>>, <<<<112, 97, 105, 114>>, <<123, 48, 125, 43, 123, 49, 125>>>>>>,
   text |-> <<123, 112, 97, 105, 114, 32, 123, 112, 97, 105, 114, 32, 123, 48, 125, 32, 120, 123, 49, 125, 125, 32, 123, 119, 114, 97, 112, 32, 123, 50, 125, 125, 125>>, nw |-> 2],   \*  6  wrap {f <{0}>}; pair {0}+{1}   {pair {pair {0} x{1}} {wrap {2}}}
  [defs |-> <<<<<<107, 118>>, <<123, 102, 32, 123, 107, 125, 61, 123, 48, 125, 125>>>>>>,
   text |-> <<123, 107, 118, 32, 123, 107, 118, 32, 123, 49, 125, 125, 125>>, nw |-> 2],   \*  7  kv {f {k}={0}}   {kv {kv {1}}}
  [defs |-> <<>>,
   text |-> <<123, 102, 32, 34, 97, 32, 123, 48, 125, 32, 98, 34, 32, 123, 49, 125, 99, 125>>, nw |-> 2],   \*  8     {f "a {0} b" {1}c}
  [defs |-> <<<<<<100, 98, 108>>, <<123, 48, 125, 123, 48, 125>>>>>>,
   text |-> <<123, 100, 98, 108, 32, 120, 123, 48, 125, 125>>, nw |-> 2],   \*  9  dbl {0}{0}   {dbl x{0}}
  [defs |-> <<<<<<119, 114, 97, 112>>, <<123, 102, 32, 60, 123, 48, 125, 62, 125>>>>, <<<<116, 119, 111>>, <<123, 119, 114, 97, 112, 32, 123, 48, 125, 125, 123, 119, 114, 97, 112, 32, 123, 49, 125, 125>>>>>>,
   text |-> <<123, 116, 119, 111, 32, 123, 116, 119, 111, 32, 97, 32, 123, 48, 125, 125, 32, 123, 107, 125, 125>>, nw |-> 1],   \* 10  wrap {f <{0}>}; two {wrap {0}}{wrap {1}}   {two {two a {0}} {k}}
  [defs |-> <<<<<<119, 114, 97, 112>>, <<123, 102, 32, 60, 123, 48, 125, 62, 125>>>>>>,
   text |-> <<123, 119, 114, 97, 112, 32, 123, 119, 114, 97, 112, 32, 123, 48, 125, 125, 125>>, nw |-> 3]   \* 11  wrap {f <{0}>}   {wrap {wrap {0}}}
>>

\* ------------------------------------------------------------------ compilation (C09's parse model)
\* funcfile/loader.go createAndAddFunc: a body is compiled with the functions defined so far, then registered
RECURSIVE LoadDefs(_, _, _, _)
LoadDefs(defs, j, ft, fns) ==
  IF j > Len(defs) THEN [ft |-> ft, fns |-> fns, ok |-> TRUE]
  ELSE LET p == CompileF(defs[j][2], ft) IN
       IF p.er # <<>> THEN [ft |-> ft, fns |-> fns, ok |-> FALSE]
       ELSE LoadDefs(defs, j + 1, (defs[j][1] :> 0) @@ ft, (defs[j][1] :> p.st) @@ fns)
EmptyFns == [x \in {} |-> <<>>]
ProgOf(cs) ==
  LET ld == LoadDefs(cs.defs, 1, BaseFt, EmptyFns)
      p  == CompileF(cs.text, ld.ft) IN
  [top |-> p.st, fns |-> ld.fns, ok |-> ld.ok /\ p.er = <<>>]

VARIABLES cid, prog, stk, scratch, res
evars == <<cid, prog, stk, scratch, res>>

NoRes == <<-1>>
Tag(w) == <<58>> \o Itoa(w)                              \* the context of worker w answers GO i :w GC / KO k :w KC
IdxText(x) == IF x.k = "grp" THEN Itoa(x.n) ELSE x.s
IdxNeg(x) == IF x.k = "grp" THEN x.n < 0 ELSE x.s[1] = 45
BaseLookup(x, w) == IF x.k = "key" THEN <<KO>> \o x.s \o Tag(w) \o <<KC>> ELSE <<GO>> \o IdxText(x) \o Tag(w) \o <<GC>>

\* ------------------------------------------------------------------ the denotation: what the tree dictates
\* subs: the chain of sub-contexts, innermost first; each is the list of argument nodes of a call site of a funcs-file function
IsUser(pg, x) == x.k = "call" /\ x.s \in DOMAIN pg.fns
RECURSIVE EvalD(_, _, _, _)
RECURSIVE EvalSeqD(_, _, _, _, _)
RECURSIVE EvalArgsD(_, _, _, _, _)
EvalD(pg, x, w, subs) ==
  CASE x.k = "lit" -> x.s
    [] x.k \in {"grp", "big"} ->
         IF subs = <<>> THEN BaseLookup(x, w)
         ELSE IF IdxNeg(x) THEN EvalD(pg, x, w, Tail(subs))                   \* not an argument: forwarded to the caller's context
         ELSE IF x.k = "big" \/ x.n >= Len(subs[1]) THEN <<>>
         ELSE EvalD(pg, subs[1][x.n + 1], w, Tail(subs))                       \* argument x.n of the call site, in the caller's context
    [] x.k = "key" -> BaseLookup(x, w)                                         \* keys are the base context's at every depth
    [] x.k = "cat" -> EvalSeqD(pg, x.args, 1, w, subs)
    [] x.k = "call" ->
         IF IsUser(pg, x) THEN EvalSeqD(pg, pg.fns[x.s], 1, w, <<x.args>> \o subs)
         ELSE <<FO>> \o x.s \o <<FA>> \o EvalArgsD(pg, x.args, 1, w, subs) \o <<FC>>
    [] OTHER -> <<>>
EvalSeqD(pg, st, j, w, subs) == IF j > Len(st) THEN <<>> ELSE EvalD(pg, st[j], w, subs) \o EvalSeqD(pg, st, j + 1, w, subs)
EvalArgsD(pg, args, j, w, subs) ==
  IF j > Len(args) THEN <<>>
  ELSE IF j = Len(args) THEN EvalD(pg, args[j], w, subs)
  ELSE EvalD(pg, args[j], w, subs) \o <<FS>> \o EvalArgsD(pg, args, j + 1, w, subs)
Denote(pg, w) == EvalSeqD(pg, pg.top, 1, w, <<>>)

\* ------------------------------------------------------------------ the machine
\* a stage is named by where it sits: the compiled template it belongs to (<<>> = the template, else the function) + path
Ref(root, path) == [root |-> root, path |-> path]
Kid(ref, j) == Ref(ref.root, Append(ref.path, j))
RECURSIVE Descend(_, _)
Descend(x, path) == IF path = <<>> THEN x ELSE Descend(x.args[path[1]], Tail(path))
NodeAt(pg, ref) == Descend(N("seq", <<>>, 0, IF ref.root = <<>> THEN pg.top ELSE pg.fns[ref.root]), ref.path)
KindOfN(pg, x) == IF IsUser(pg, x) THEN "ucall" ELSE x.k
Frame(ref, ctx) == [ref |-> ref, ctx |-> ctx, i |-> 0, acc |-> <<>>]
Ctx(w, subs) == [w |-> w, subs |-> subs]
Parent(ctx) == Ctx(ctx.w, Tail(ctx.subs))
AccOf(sc, ref) == IF ref \in DOMAIN sc THEN sc[ref] ELSE <<>>

\* the outcome of one step: stack, scratch, result (NoRes while running), lk = the step was a lookup in the base context
Out(s, sc, r, lk) == [s |-> s, sc |-> sc, r |-> r, lk |-> lk]
Pop(s) == SubSeq(s, 1, Len(s) - 1)
Replace(s, f) == [s EXCEPT ![Len(s)] = f]

\* the top frame returns v to the frame below it
Return(pg, s, sc, v, lk) ==
  LET rest == Pop(s) IN
  IF rest = <<>> THEN Out(<<>>, sc, v, lk)
  ELSE LET p == rest[Len(rest)]
           kd == KindOfN(pg, NodeAt(pg, p.ref))
           piece == IF kd = "call" /\ p.i > 1 THEN <<FS>> \o v ELSE v IN
       IF kd \in Shared
       THEN Out(Replace(rest, [p EXCEPT !.i = @ + 1]), (p.ref :> (AccOf(sc, p.ref) \o piece)) @@ sc, NoRes, lk)
       ELSE Out(Replace(rest, [p EXCEPT !.i = @ + 1, !.acc = @ \o piece]), sc, NoRes, lk)

Small(pg, s, sc) ==
  LET f  == s[Len(s)]
      x  == NodeAt(pg, f.ref)
      kd == KindOfN(pg, x) IN
  CASE kd = "lit" -> Return(pg, s, sc, x.s, FALSE)
    [] kd \in {"grp", "big"} ->
         IF f.ctx.subs = <<>> THEN Return(pg, s, sc, BaseLookup(x, f.ctx.w), TRUE)
         ELSE IF IdxNeg(x) THEN Out(Replace(s, [f EXCEPT !.ctx = Parent(f.ctx)]), sc, NoRes, FALSE)
         ELSE IF kd = "big" \/ x.n >= Len(f.ctx.subs[1]) THEN Return(pg, s, sc, <<>>, FALSE)
         ELSE Out(Replace(s, Frame(f.ctx.subs[1][x.n + 1], Parent(f.ctx))), sc, NoRes, FALSE)       \* return s.args[idx](s.sub)
    [] kd = "key" ->
         IF f.ctx.subs = <<>> THEN Return(pg, s, sc, BaseLookup(x, f.ctx.w), TRUE)
         ELSE Out(Replace(s, [f EXCEPT !.ctx = Parent(f.ctx)]), sc, NoRes, FALSE)
    [] kd = "ucall" ->                                                                             \* return stage.BuildKey(subCtx)
         Out(Replace(s, Frame(Ref(x.s, <<>>), Ctx(f.ctx.w, <<[j \in 1..Len(x.args) |-> Kid(f.ref, j)]>> \o f.ctx.subs))), sc, NoRes, FALSE)
    [] OTHER ->                                                                                     \* seq cat call
         IF kd # "call" /\ x.args = <<>> THEN Return(pg, s, sc, <<>>, FALSE)
         ELSE IF kd = "seq" /\ Len(x.args) = 1 THEN Out(Replace(s, Frame(Kid(f.ref, 1), f.ctx)), sc, NoRes, FALSE)   \* BuildKey: a single stage is called directly
         ELSE IF f.i = 0 THEN                                                                       \* enter: a fresh accumulator - or the stage's one, emptied
           Out(Replace(s, [f EXCEPT !.i = 1]), IF kd \in Shared THEN (f.ref :> <<>>) @@ sc ELSE sc, NoRes, FALSE)
         ELSE IF f.i <= Len(x.args) THEN Out(Append(s, Frame(Kid(f.ref, f.i), f.ctx)), sc, NoRes, FALSE)
         ELSE LET a == IF kd \in Shared THEN AccOf(sc, f.ref) ELSE f.acc IN
              Return(pg, s, sc, IF kd = "call" THEN <<FO>> \o x.s \o <<FA>> \o a \o <<FC>> ELSE a, FALSE)

\* is the worker about to ask the base context?
AtLookup(pg, s) ==
  s # <<>> /\ LET f == s[Len(s)]  x == NodeAt(pg, f.ref) IN x.k \in {"grp", "big", "key"} /\ f.ctx.subs = <<>>
RECURSIVE RunOn(_, _)
RunOn(pg, o) == IF o.r # NoRes \/ AtLookup(pg, o.s) THEN o ELSE RunOn(pg, Small(pg, o.s, o.sc))
\* from one lookup to the next: answer the pending lookup (or start), then run until the next one is pending
Macro(pg, s, sc) == RunOn(pg, Small(pg, s, sc))

Workers == 1..Pool[cid].nw
Init ==
  /\ cid \in (IF CaseSel = 0 THEN 1..Len(Pool) ELSE {CaseSel})
  /\ prog = ProgOf(Pool[cid])
  /\ stk = [w \in 1..Pool[cid].nw |-> <<Frame(Ref(<<>>, <<>>), Ctx(w, <<>>))>>]
  /\ scratch = [x \in {} |-> <<>>]
  /\ res = [w \in 1..Pool[cid].nw |-> NoRes]
StepW(w) ==
  /\ res[w] = NoRes
  /\ LET o == IF Grain = "fine" THEN Small(prog, stk[w], scratch) ELSE Macro(prog, stk[w], scratch) IN
     /\ stk' = [stk EXCEPT ![w] = o.s]
     /\ scratch' = o.sc
     /\ res' = [res EXCEPT ![w] = o.r]
  /\ UNCHANGED <<cid, prog>>
Next == \E w \in Workers : StepW(w)
Spec == Init /\ [][Next]_evars

\* ------------------------------------------------------------------ laws
Done == \A w \in Workers : res[w] # NoRes
CompilesOK == prog.ok
EvalOK == \A w \in Workers : res[w] # NoRes => res[w] = Denote(prog, w)
\* without funcs-file functions the denotation is the spelling of the tree (ExprSyntax.tla) in the worker's context
SpellAgrees == Pool[cid].defs = <<>> => \A w \in Workers : Denote(prog, w) = SpellT(prog.top, Tag(w))
\* nothing is left behind in the frames: a finished worker has no stack; nesting is bounded by the template
StackOK == \A w \in Workers : (res[w] # NoRes => stk[w] = <<>>) /\ Len(stk[w]) <= 40
\* with no stage-owned accumulator the workers share nothing at all
NoSharing == Shared = {} => scratch = [x \in {} |-> <<>>]
EvalLawsOK == CompilesOK /\ EvalOK /\ SpellAgrees /\ StackOK /\ NoSharing
=============================================================================

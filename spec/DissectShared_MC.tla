-------------------------- MODULE DissectShared_MC --------------------------
(* C12 - model-checking instances of DissectShared: the catalogue of            *)
(* DissectImpl_MC (same numbering) and small line sets; the configuration picks *)
(* patterns (PatNos), lines (LineNos), workers and the design constants.        *)
EXTENDS DissectShared
CONSTANTS PatNos, LineNos

A == 97  UA == 65  BB == 98  COL == 58
EA == <<195, 169>>      \* e-acute, lower case (UTF-8)
UE == <<195, 137>>      \* E-acute, upper case (UTF-8)
T(name, skip) == <<PCT, LBR>> \o (IF skip /\ name # <<>> THEN <<QM>> ELSE <<>>) \o name \o <<RBR>>

Catalogue == <<
  T(<<120>>, FALSE),                                                      \* 1 %{x}
  <<A>> \o T(<<120>>, FALSE) \o <<COL>>,                                    \* 2 a%{x}:
  T(<<120>>, FALSE) \o <<COL>> \o T(<<121>>, FALSE) \o <<COL>>,              \* 3 %{x}:%{y}:
  <<A, BB>> \o T(<<>>, TRUE) \o <<COL, COL>> \o T(<<121>>, FALSE),           \* 4 ab%{}::%{y}
  T(<<120>>, FALSE) \o <<SP>> \o T(<<115>>, TRUE) \o <<COL>> \o T(<<122>>, FALSE), \* 5 %{x} %{?s}:%{z}
  EA \o T(<<120>>, FALSE) \o EA,                                            \* 6 e'%{x}e'
  <<UA>> \o T(<<120>>, FALSE) \o <<UA, COL>> \o T(<<121>>, FALSE) \o <<BB>>,  \* 7 A%{x}A:%{y}b
  <<A>>,                                                                  \* 8 a   (no tokens)
  <<>>                                                                    \* 9 empty pattern
>>
MCPats == {Catalogue[i] : i \in PatNos}

LineCat == << <<A, COL, BB, COL>>,                 \* 1 a:b:
              <<A, BB, COL, COL, A>>,              \* 2 ab::a
              <<UA, A, UA, COL, A, BB>>,           \* 3 AaA:ab
              <<BB, UA, COL, COL>>,                \* 4 bA::
              <<A, SP, BB, COL, A>>,               \* 5 a b:a
              EA \o <<A>> \o EA,                   \* 6 e'ae'
              <<>> >>                              \* 7 empty line
MCLines == {LineCat[i] : i \in LineNos}
=============================================================================

----------------------------- MODULE TermWriter -----------------------------
(* C20.  Transcription of rare's in-place terminal writer                        *)
(*   pkg/multiterm/multiterm.go  (TermWriter: cursor, maxLine, cursorHidden;     *)
(*                                WriteForLine, goTo, writeAtCursor, Close)       *)
(*   pkg/multiterm/cursor.go     (the escape sequences)                           *)
(*   pkg/multiterm/linetrim.go   (WriteLineNoWrap)                                *)
(* composed with the terminal of Term.tla: every API call emits bytes, the        *)
(* terminal consumes them.  TLC checks that the composition satisfies the         *)
(* oracle of TermOracle.tla after EVERY call, for every history within the        *)
(* constants.  (The buffered writer is TermBuffered.tla.)                          *)
EXTENDS TermTrim

CONSTANTS ColsSet,     \* terminal widths to explore
          TrimSet,     \* values of multiterm.AutoTrim to explore
          OnlcrSet,    \* tty output modes of the terminal to explore (TRUE: LF implies CR)
          Lines,       \* line indices updates may use (naturals)
          Texts,       \* texts updates may use (sequences of code points)
          MaxUpdates   \* history length bound

ClearLine  == TRUE     \* New() defaults
HideCursor == TRUE
Above == << <<36>>, <<36, 36>> >>          \* earlier output above the first line: "$", "$$"
Base  == Len(Above)

VARIABLES Cols, AutoTrim,                  \* package variables computedCols / AutoTrim (fixed per behaviour)
          cursor, maxLine, cursorHidden,   \* the writer's fields
          closed, nupd,
          term,                            \* the terminal (Term.tla)
          latest                           \* oracle: latest text per line
vars == <<Cols, AutoTrim, cursor, maxLine, cursorHidden, closed, nupd, term, latest>>

-----------------------------------------------------------------------------
(* cursor.go *)
RECURSIVE Digits(_)
Digits(n) == IF n < 10 THEN <<48 + n>> ELSE Digits(n \div 10) \o <<48 + (n % 10)>>
MoveUpSeq(n)   == <<ESC, 91>> \o Digits(n) \o <<65>>          \* ESC [ n A
HideCursorSeq  == <<ESC, 91, 63, 50, 53, 108>>                \* ESC [ ? 2 5 l
ShowCursorSeq  == <<ESC, 91, 63, 50, 53, 104>>                \* ESC [ ? 2 5 h
EraseRemaining == <<ESC, 91, 48, 75>>                         \* ESC [ 0 K

RECURSIVE Rep(_, _)
Rep(s, n) == IF n <= 0 THEN <<>> ELSE s \o Rep(s, n - 1)

(* multiterm.go *)
GoToBytes(line) ==                \* goTo: newlines down, ESC[1A up, then CR
  (IF cursor < line THEN Rep(<<10>>, line - cursor) ELSE Rep(MoveUpSeq(1), cursor - line)) \o <<13>>
WriteAtCursor(text) == WriteLineNoWrap(text, AutoTrim, Cols) \o (IF ClearLine THEN EraseRemaining ELSE <<>>)

Init ==
  /\ Cols \in ColsSet /\ AutoTrim \in TrimSet
  /\ cursor = 0 /\ maxLine = 0 /\ cursorHidden = FALSE /\ closed = FALSE /\ nupd = 0
  /\ \E o \in OnlcrSet : term = NewTerm(Cols, o, Above)
  /\ latest = <<>>

WriteForLine(line, text) ==
  /\ ~closed /\ nupd < MaxUpdates
  /\ InDomain(line, text, Cols, AutoTrim)
  /\ LET hide == IF HideCursor /\ ~cursorHidden THEN HideCursorSeq ELSE <<>> IN
     term' = Feed(term, hide \o GoToBytes(line) \o WriteAtCursor(text))
  /\ cursorHidden' = (cursorHidden \/ HideCursor)
  /\ maxLine' = MaxI(maxLine, line)
  /\ cursor' = line
  /\ nupd' = nupd + 1
  /\ latest' = SetLatest(latest, line, text)
  /\ UNCHANGED <<closed, Cols, AutoTrim>>

Close ==
  /\ ~closed
  /\ term' = Feed(term, GoToBytes(maxLine) \o <<10>> \o (IF cursorHidden THEN ShowCursorSeq ELSE <<>>))
  /\ cursor' = maxLine
  /\ closed' = TRUE
  /\ UNCHANGED <<maxLine, cursorHidden, nupd, latest, Cols, AutoTrim>>

Next == Close \/ \E line \in Lines, text \in Texts : WriteForLine(line, text)
Spec == Init /\ [][Next]_vars

-----------------------------------------------------------------------------
(* What TLC checks (B3) *)
\* the property: after every call every line shows its latest text, nothing else changed,
\* nothing wrapped, no sequence was cut
Screen == ScreenOK(term, Above, ShownAll(latest, Cols, AutoTrim))
\* after Close the cursor is parked below the last line and visible again
Parked == closed => ParkedOK(term, Above, ShownAll(latest, Cols, AutoTrim))
\* never outside the emulated subset (the model would be meaningless otherwise)
Emulated == ~term.junk
\* the writer's belief about the cursor row is the terminal's cursor row
Belief == ~closed => term.r = Base + 1 + cursor /\ (term.vis <=> ~cursorHidden)
\* the writer's maxLine is the last line in use
MaxLineOK == latest # <<>> => maxLine = Len(latest) - 1
\* trimming law on the model's texts, every width up to Cols + 1 (optional here: TermTrim_MC decides
\* it for these pools and for all token strings, one state per text and width)
TrimLaw == \A text \in Texts : \A w \in 1..(Cols + 1) : TrimLawAt(text, w)

=============================================================================

---------------------------- MODULE TermWriter_Gen ----------------------------
(* C20 B1 generator: every history of the model within the constants, with the   *)
(* screen the model's terminal shows after every call; printed when closed.       *)
EXTENDS TermWriter, Json, TLC
VARIABLE hist
GInit == Init /\ hist = <<>>
GNext ==
  \/ \E line \in Lines, text \in Texts :
       /\ WriteForLine(line, text)
       /\ hist' = Append(hist, [line |-> line, text |-> text, exp |-> Canon(term', Base)])
  \/ Close /\ UNCHANGED hist
Dump == closed => PrintT("VFJ " \o ToJson([cols |-> Cols, trim |-> AutoTrim, steps |-> hist,
                                           crow |-> term.r - Base - 1, vis |-> term.vis,
                                           exp |-> Canon(term, Base)]))
=============================================================================

----------------------------- MODULE PoolOwn_Gen -----------------------------
(* C05, B1: evaluation histories of PoolOwn for replay on the real helpers.     *)
(* A history is a prelude - up to NPre complete evaluations by one worker, each *)
(* a nest of helpers leaving by chosen ways out (empty array, iteration-limit   *)
(* bail-out, formula error, ...) - followed by a probe: every one of the E      *)
(* evaluations enters a chain of helpers and all of them stay inside (that many *)
(* contexts are held at the same moment), then they leave.  TLC simulates the   *)
(* model (any Get order), keeps the history and states what PoolOwn promises    *)
(* for it: Own held at every step and nobody found a foreign value.  The driver *)
(* evaluates the same nests with the real compiled helpers - the way out is     *)
(* selected by the line's data, as in production - from several goroutines held *)
(* together by a barrier inside the innermost body.                             *)
EXTENDS PoolOwn, Json, TLC

CONSTANT NPre
VARIABLES hist, phase, npre
gvars == <<vars, hist, phase, npre>>

Ev(e, op, h, path) == [e |-> e, op |-> op, h |-> h, path |-> path]
Full(e) == Depth(e) = MaxDepth \/ (Depth(e) > 0 /\ ~HasBody(Top(e).h, Top(e).path))

GInit == Init /\ hist = <<>> /\ phase = "pre" /\ npre = 0

PreEnter == /\ phase = "pre" /\ npre < NPre
            /\ \E w \in Ways : Enter(1, w[1], w[2]) /\ hist' = Append(hist, Ev(1, "in", w[1], w[2]))
            /\ UNCHANGED <<phase, npre>>
PreExit  == /\ phase = "pre" /\ Exit(1)
            /\ hist' = Append(hist, Ev(1, "out", Top(1).h, Top(1).path))
            /\ npre' = IF Depth(1) = 1 THEN npre + 1 ELSE npre
            /\ UNCHANGED phase
ToProbe  == /\ phase = "pre" /\ Depth(1) = 0
            /\ phase' = "probe" /\ hist' = Append(hist, Ev(0, "probe", "", "")) /\ UNCHANGED <<vars, npre>>
\* the evaluations fill up one after the other; inside the probe every helper is on its ordinary way
Filling  == IF \A e \in 1..E : Full(e) THEN 0 ELSE CHOOSE e \in 1..E : ~Full(e) /\ \A d \in 1..(e - 1) : Full(d)
ProbeEnter == /\ phase = "probe" /\ Filling # 0
              /\ \E w \in {x \in Ways : x[2] = "end"} :
                    Enter(Filling, w[1], w[2]) /\ hist' = Append(hist, Ev(Filling, "in", w[1], w[2]))
              /\ UNCHANGED <<phase, npre>>
Held     == /\ phase = "probe" /\ Filling = 0
            /\ phase' = "drain" /\ UNCHANGED <<vars, hist, npre>>
Draining == IF \A e \in 1..E : Depth(e) = 0 THEN 0 ELSE CHOOSE e \in 1..E : Depth(e) > 0 /\ \A d \in (e + 1)..E : Depth(d) = 0
Drain    == /\ phase = "drain" /\ Draining # 0
            /\ Exit(Draining) /\ hist' = Append(hist, Ev(Draining, "out", Top(Draining).h, Top(Draining).path))
            /\ UNCHANGED <<phase, npre>>
Finish   == /\ phase = "drain" /\ Draining = 0
            /\ phase' = "done" /\ UNCHANGED <<vars, hist, npre>>

GNext == PreEnter \/ PreExit \/ ToProbe \/ ProbeEnter \/ Held \/ Drain \/ Finish
GSpec == GInit /\ [][GNext]_gvars

\* the promise holds all along (the generator never leaves what B3 has shown)
Promise == Own /\ NoForeign
Dump == phase = "done" =>
  PrintT("VFJ " \o ToJson([hist |-> hist, e |-> E, depth |-> MaxDepth, own |-> (bad = "")]))
=============================================================================

------------------------------- MODULE Term_MC -------------------------------
(* C20.  The emulator of Term.tla run as a state machine of its own: any byte of *)
(* a small alphabet may arrive.  Sanity properties of the reference terminal,    *)
(* checked exhaustively by TLC (so the oracle itself is not vacuous or broken).   *)
EXTENDS Term
CONSTANTS TCols, TAlphabet, TMaxBytes
VARIABLES term, fed

TermInit == term = NewTerm(TCols, TRUE, <<>>) /\ fed = <<>>
TermNext == Len(fed) < TMaxBytes /\ \E b \in TAlphabet : term' = Step(term, b) /\ fed' = Append(fed, b)
TermSpec == TermInit /\ [][TermNext]_<<term, fed>>

\* the cursor stays on the screen and no row is longer than the width
TermSane ==
  /\ term.r \in 1..Len(term.rows) /\ term.c \in 0..term.cols
  /\ \A i \in 1..Len(term.rows) : Len(term.rows[i]) <= term.cols
\* without LF a second row can only come from a wrap, and a wrap is always flagged
WrapFlagged == (Len(term.rows) > 1 /\ ~(10 \in TAlphabet)) <=> (term.wrapped /\ ~(10 \in TAlphabet))
\* the state machine and the fold agree (Feed is what the trace specs use)
FeedAgrees == term = Feed(NewTerm(TCols, TRUE, <<>>), fed)
\* colour sequences are zero width: in the ground state ESC[31m and ESC[1;32m change nothing
ColourZeroWidth == Idle(term) => /\ Feed(term, <<27, 91, 51, 49, 109>>) = term
                                 /\ Feed(term, <<27, 91, 49, 59, 51, 50, 109>>) = term
                                 \* ... of any length: 24-bit foreground + background + attributes (41 bytes)
                                 /\ Feed(term, <<27, 91, 48, 59, 49, 59, 52, 59, 51, 56, 59, 50, 59, 50, 53, 53, 59,
                                                 50, 53, 53, 59, 50, 53, 53, 59, 52, 56, 59, 50, 59, 49, 48, 48, 59,
                                                 49, 48, 48, 59, 49, 48, 48, 109>>) = term
\* erase-to-end leaves nothing at or right of the cursor and keeps what is left of it
EraseOK == Idle(term) =>
  LET t2 == Feed(term, <<27, 91, 48, 75>>) IN
  /\ Len(t2.rows[t2.r]) <= t2.c /\ t2.r = term.r /\ t2.c = term.c
  /\ t2.rows[t2.r] = SubSeq(term.rows[term.r], 1, MinI(term.c, Len(term.rows[term.r])))
  /\ \A i \in 1..Len(term.rows) : i # term.r => t2.rows[i] = term.rows[i]
=============================================================================

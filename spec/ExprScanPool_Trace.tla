------------------------- MODULE ExprScanPool_Trace -------------------------
(* B2 for the behavioural part of C08: the recorded scans of whole PROCESSES       *)
(* (several expressions compiled once, a history of lines, one or several          *)
(* goroutines, or the real extractor with an ignore set) are validated against     *)
(* ExprScanPool without deviations: every expression compiles, then every          *)
(* goroutine evaluates line 1 with unit 1..ne, line 2 with unit 1..ne, ... - each  *)
(* evaluation returns a string (pc stays "run": Survives) - and the scan ends      *)
(* after the last unit of the last line of every goroutine (Done).                 *)
(*    reset{t, n, ne, nc, ng, mode}   compile{e, res}*nc                            *)
(*    line{k, e, g, res: "string" | "panic" | "fatal" | "hang"}*   end{lines}       *)
(* The events of one goroutine are in its program order; goroutines follow one      *)
(* another in the record.  The trace spec is total: a scan the specification        *)
(* cannot explain (a panic, a process that died - the parent writes res "fatal"     *)
(* for the evaluation it died in -, a missing or repeated evaluation, an early      *)
(* end) is put into `bad` and skipped up to the next reset.                         *)
EXTENDS Integers, Sequences, Json, TLC

Trace == ndJsonDeserialize("trace.ndjson")
MaxG == 8

VARIABLES l, tid, n, ne, nc, ng, pc, ci, pos, bad, scans, evals
tvars == <<l, tid, n, ne, nc, ng, pc, ci, pos, bad, scans, evals>>

Ev == Trace[l]
IsEv(e) == l <= Len(Trace) /\ Ev.event = e /\ l' = l + 1
Zero == [g \in 1..MaxG |-> 0]

TReset ==
  /\ IsEv("reset") /\ pc \in {"done", "idle"}
  /\ Ev.ng \in 1..MaxG /\ Ev.n >= 0 /\ Ev.ne >= 1 /\ Ev.nc >= 1
  /\ tid' = Ev.t /\ n' = Ev.n /\ ne' = Ev.ne /\ nc' = Ev.nc /\ ng' = Ev.ng
  /\ pc' = "compiling" /\ ci' = 0 /\ pos' = Zero /\ scans' = scans + 1
  /\ UNCHANGED evals
\* ExprScan!CompileOK / CompileErr for every expression of the process, in order
TCompile ==
  /\ IsEv("compile") /\ pc \in {"compiling", "rejecting"} /\ Ev.e = ci + 1 /\ ci < nc /\ Ev.res \in {"ok", "errors"}
  /\ ci' = ci + 1
  /\ pc' = (IF Ev.res = "errors" \/ pc = "rejecting"
            THEN (IF ci + 1 = nc THEN "rejected" ELSE "rejecting")
            ELSE (IF ci + 1 = nc THEN "ready" ELSE "compiling"))
  /\ UNCHANGED <<tid, n, ne, nc, ng, pos, scans, evals>>
\* ExprScanPool: goroutine g finishes its next evaluation (StartExpr .. Exit) and the process is still running
TLine ==
  /\ IsEv("line") /\ pc = "ready" /\ Ev.g \in 1..ng
  /\ pos[Ev.g] < n * ne
  /\ Ev.k = (pos[Ev.g] \div ne) + 1 /\ Ev.e = (pos[Ev.g] % ne) + 1
  /\ Ev.res = "string"
  /\ pos' = [pos EXCEPT ![Ev.g] = @ + 1] /\ evals' = evals + 1
  /\ UNCHANGED <<tid, n, ne, nc, ng, pc, ci, scans>>
\* ExprScanPool!Done: every goroutine has evaluated every line with every unit
TEnd ==
  /\ IsEv("end") /\ pc = "ready" /\ Ev.lines = n
  /\ \A g \in 1..ng : pos[g] = n * ne
  /\ pc' = "done"
  /\ UNCHANGED <<tid, n, ne, nc, ng, ci, pos, scans, evals>>
\* a process whose expressions do not all compile ends with a usage error before it reads a line
TEndRejected == IsEv("end") /\ pc = "rejected" /\ pc' = "done" /\ UNCHANGED <<tid, n, ne, nc, ng, ci, pos, scans, evals>>

TStep == TReset \/ TCompile \/ TLine \/ TEnd \/ TEndRejected

RECURSIVE NextReset(_)
NextReset(j) == IF j > Len(Trace) \/ Trace[j].event = "reset" THEN j ELSE NextReset(j + 1)

Skip ==
  /\ l <= Len(Trace)
  /\ ~ENABLED TStep
  /\ bad' = Append(bad, [t |-> (IF Ev.event = "reset" THEN tid ELSE Ev.t), l |-> l, event |-> Ev.event,
                         class |-> (IF Ev.event \in {"compile", "line"} /\ Ev.res \notin {"string", "ok", "errors"} THEN Ev.res ELSE "order")])
  /\ l' = (IF Ev.event = "reset" THEN l ELSE NextReset(l + 1))
  /\ pc' = "idle"
  /\ UNCHANGED <<tid, n, ne, nc, ng, ci, pos, scans, evals>>

TInit == l = 1 /\ tid = 0 /\ n = 0 /\ ne = 1 /\ nc = 1 /\ ng = 1 /\ pc = "idle" /\ ci = 0 /\ pos = Zero /\ bad = <<>> /\ scans = 0 /\ evals = 0
TNext == (TStep /\ UNCHANGED bad) \/ Skip
TSpec == TInit /\ [][TNext]_tvars

Final == (l = Len(Trace) + 1) =>
  JsonSerialize("bad.json", [bad |-> bad, consumed |-> l - 1, scans |-> scans, evals |-> evals,
                             done |-> pc \in {"done", "idle"}])
=============================================================================

---------------------------- MODULE MathExpr_MC ----------------------------
(* B3 for C19: what TLC decides on the model.                                   *)
(*  Mode "trees"  every tree with at most MaxN operators (unary, function and   *)
(*                binary, over TreeOps) printed in every variant is well-formed,*)
(*                parses back to itself with the reference grammar (the printer *)
(*                is injective up to the declared equivalences: redundant       *)
(*                parentheses, implied `*`, spellings), and the                 *)
(*                implementation-shaped tokenizer + compileTokens yields the    *)
(*                same tree from the text with and without blanks               *)
(*  Mode "tokens" every token string up to MaxLen over Alphabet: the flat-scan  *)
(*                classification agrees with the grammar (wf <=> ParseRef       *)
(*                succeeds); on "wf" the implementation-shaped parser returns   *)
(*                ParseRef's tree, on "mal" it rejects, and it never panics     *)
(*  Mode "value"  laws of Value: the value of `a o1 b o2 c` is the value of the *)
(*                grouping the precedence table dictates; exact arithmetic      *)
(*                identities; constant = bound variable on the model; a tree    *)
(*                without variables has one value                               *)
EXTENDS MathExpr

CONSTANTS Mode, MaxN, MaxLen, TreeOps, Alphabet

VARIABLES st, gen
vars == <<st, gen>>

\* ------------------------------------------------------------------ trees
Leaves2 == {Num(<<2, 1>>), Var(1)}
UnSet == {"-", "!", "abs"}
T0 == Leaves2
Grow1(S, R) == {Un(u, a) : u \in UnSet, a \in S} \cup {Bin(o, l, r) : o \in TreeOps, l \in S, r \in R}
                \cup {Bin(o, l, r) : o \in TreeOps, l \in R, r \in S}
T1 == T0 \cup Grow1(T0, T0)
T2 == T1 \cup Grow1(T1, T0) \cup {Bin(o, l, r) : o \in TreeOps, l \in T1, r \in T1}
TSmall(k) == IF k <= 0 THEN T0 ELSE IF k = 1 THEN T1 ELSE T2
Seeds == TSmall(MaxN - 1)
Grow(t) ==
  LET room == MaxN - 1 - NOps(t)
      R == TSmall(room) IN
  IF room < 0 THEN {}
  ELSE {Un(u, t) : u \in UnSet}
       \cup {x \in {Bin(o, t, r) : o \in TreeOps, r \in R} : NOps(x) <= MaxN}
       \cup {x \in {Bin(o, r, t) : o \in TreeOps, r \in R} : NOps(x) <= MaxN}

TreeVariants == {[par |-> p, imp |-> i, num |-> IF i THEN "x" ELSE "d", var |-> IF p = "min" THEN "bare" ELSE "idx"]
                   : p \in {"min", "full"}, i \in BOOLEAN}
                \cup {[par |-> "min", imp |-> FALSE, num |-> "b", var |-> "boxed"],
                      [par |-> "full", imp |-> TRUE, num |-> "f", var |-> "boxed"]}
TreeLaw(t) ==
  \A v \in {w \in TreeVariants : NOps(t) <= 2 \/ w.var # "boxed"} :
    LET toks == PrintF(t, v)
        ia == IParse(Render(toks, FALSE))
        ib == IParse(Render(toks, TRUE)) IN
    /\ Class(toks) = "wf"
    /\ ParseRef(toks) = [ok |-> TRUE, t |-> t]
    /\ ia.ok /\ ia.t = t
    /\ ib.ok /\ ib.t = t

\* ----------------------------------------------------------------- tokens
TokLaw(toks) ==
  LET c == Class(toks)
      p == ParseRef(toks)
      ia == IParse(Render(toks, TRUE))
      ib == IParse(Render(toks, FALSE)) IN
  /\ (c = "wf") = p.ok
  /\ ia.err # "panic" /\ ib.err # "panic"
  /\ c = "wf" => ia.ok /\ ia.t = p.t /\ ib.ok /\ ib.t = p.t
  /\ c = "mal" => ~ia.ok

\* ------------------------------------------------------------------ value
Binds == {<<<<0, 1>>, <<3, 1>>>>, <<<<0 - 3, 1>>, <<1, 2>>>>, <<<<7, 2>>, <<0 - 1, 4>>>>, <<<<4, 1>>, <<0, 1>>>>}
VLeaves == {Num(<<2, 1>>), Num(<<3, 1>>), Num(<<5, 1>>), Var(1), Var(2)}
Tok(l) == IF l.k = "num" THEN NumSpell(l.q, "d") ELSE VarSpell(l.i, "bare")
PrecLaw ==
  \A o1 \in BinOps, o2 \in BinOps, a \in VLeaves, b \in {Num(<<3, 1>>), Var(2)}, c \in {Num(<<5, 1>>), Var(1)} :
    LET flat == <<Tok(a), o1, Tok(b), o2, Tok(c)>>
        want == IF Prec(o1) >= Prec(o2) THEN Bin(o2, Bin(o1, a, b), c) ELSE Bin(o1, a, Bin(o2, b, c)) IN
    /\ ParseRef(flat) = [ok |-> TRUE, t |-> want]
    /\ \A bd \in Binds : SameVal(Value(ParseRef(flat).t, bd), Value(want, bd))
R == -6..6
ArithLaw ==
  /\ \A a \in R, b \in R :
       /\ RAdd(I(a), I(b)) = I(a + b) /\ RSub(I(a), I(b)) = I(a - b) /\ RMul(I(a), I(b)) = I(a * b)
       /\ b # 0 => SameVal(RMul(RDiv(I(a), I(b)), I(b)), I(a))
       /\ b # 0 => SameVal(RDiv(I(a * b), I(b)), I(a))
       /\ RCmp(I(a), I(b)) = SgnI(a - b)
       /\ BinVal("<", I(a), I(b)).n + BinVal("==", I(a), I(b)).n + BinVal(">", I(a), I(b)).n = 1
       /\ BinVal("<=", I(a), I(b)).n = 1 - BinVal(">", I(a), I(b)).n
       /\ BinVal("=", I(a), I(b)) = BinVal("==", I(a), I(b))
       /\ BinVal("&&", I(a), I(b)).n = (IF a # 0 /\ b # 0 THEN 1 ELSE 0)
       /\ BinVal("||", I(a), I(b)).n = (IF a # 0 \/ b # 0 THEN 1 ELSE 0)
       /\ (a >= 0 /\ b >= 0) => BinVal("&", I(a), I(b)).n + BinVal("|", I(a), I(b)).n = a + b
       /\ (a >= 0 /\ b > 0) => BinVal("%", I(a), I(b)).n = a - b * (a \div b)
       /\ (a >= 0 /\ b >= 0) => BinVal(">>", BinVal("<<", I(a), I(b)), I(b)) = I(a)
       /\ (b >= 0) => BinVal("^", I(a), I(b)).def /\ (b > 0 => BinVal("^", I(a), I(b)) = RMul(BinVal("^", I(a), I(b - 1)), I(a)))
       /\ (a # 0 /\ b > 0 /\ BinVal("^", I(a), I(0 - b)).def) =>
            SameVal(RMul(BinVal("^", I(a), I(0 - b)), BinVal("^", I(a), I(b))), I(1))
       /\ (a # 0 /\ b \in 1..3) => BinVal("^", I(a), I(0 - b)).def
       /\ ~BinVal("/", I(a), I(0)).def /\ ~BinVal("%", I(a), I(0)).def /\ ~BinVal("<<", I(a), I(0 - 1)).def
  /\ \A a \in -20..20 :
       LET h == Mk(a, 4, EXACT) IN          \* quarters
       /\ UnVal("floor", h).n = a \div 4 /\ UnVal("ceil", h).n = 0 - ((0 - a) \div 4)
       /\ UnVal("floor", h).n <= UnVal("ceil", h).n /\ UnVal("ceil", h).n - UnVal("floor", h).n = (IF a % 4 = 0 THEN 0 ELSE 1)
       /\ a % 4 # 2 => (LET r == UnVal("round", h).n IN 4 * r - a \in {0 - 1, 0, 1})
       /\ UnVal("abs", h) = Mk(AbsI(a), 4, EXACT)
       /\ UnVal("-", UnVal("-", h)) = h
  \* an inexact intermediate value (thirds) is in the domain with an error bound, its equality tests are not
  /\ LET third == RDiv(I(1), I(3)) IN
       /\ third.def /\ third.e # EXACT /\ SameVal(RMul(third, I(3)), I(1))
       /\ ~BinVal("==", RMul(third, I(3)), I(1)).def
       /\ BinVal("<", third, I(1)) = I(1)
SubstLaw ==
  \A o \in BinOps, a \in VLeaves, b \in VLeaves, u \in {"-", "!", "abs", "floor"}, bd \in Binds :
    /\ SameVal(Value(Subst(Bin(o, a, b), bd), bd), Value(Bin(o, a, b), bd))
    /\ SameVal(Value(Subst(Un(u, Bin(o, a, b)), bd), bd), Value(Un(u, Bin(o, a, b)), bd))
    /\ VarFree(Subst(Bin(o, a, b), bd))
    /\ VarFree(Bin(o, a, b)) => \A bd2 \in Binds : Value(Bin(o, a, b), bd) = Value(Bin(o, a, b), bd2)
ValueLaw == SpellTableOK /\ VarTableOK /\ PrecLaw /\ ArithLaw /\ SubstLaw

\* ------------------------------------------------------------- state space
Init ==
  /\ gen = 0
  /\ CASE Mode = "trees" -> st \in Seeds
       [] Mode = "tokens" -> st = <<>>
       [] Mode = "value" -> st = <<>>
Next ==
  CASE Mode = "trees" -> gen = 0 /\ gen' = 1 /\ st' \in Grow(st)
    [] Mode = "tokens" -> Len(st) < MaxLen /\ gen' = gen /\ \E a \in Alphabet : st' = Append(st, a)
    [] Mode = "value" -> FALSE /\ UNCHANGED vars
Law ==
  CASE Mode = "trees" -> TreeLaw(st)
    [] Mode = "tokens" -> TokLaw(st)
    [] Mode = "value" -> ValueLaw
=============================================================================

----------------------------- MODULE TimeTab_MC -----------------------------
(* B3 for the table zones of C18.  TLC decides the laws below for every transition *)
(* of GENERATED tables (standard offsets -5h, 0, +5:45, +10:30; DST of 30 and 60   *)
(* minutes; changes at local 00:00 and 02:00, in mid-month and on the first of a   *)
(* month, northern and southern; a date-line jump of 24 h; a change of the         *)
(* standard offset; a change of the name only; a fixed zone) and of the tables of  *)
(* the host's IANA zones (zones.json), at probes t-1 day .. t+1 day around each    *)
(* transition and at the local day / month / quarter / year starts next to it:     *)
(*   OffsetLaw  the offset lookup is total and piecewise constant: it is the       *)
(*              offset of the one table entry whose period holds t (binary search  *)
(*              = the definition by maximum, on the generated tables)              *)
(*   MonoLaw    inside one offset period the reading advances with the instant     *)
(*   JumpLaw    across a transition the reading jumps by the change of offset; a   *)
(*              forward jump leaves wall clocks nobody reads (Resolve: none), a    *)
(*              backward jump wall clocks read twice (two)                         *)
(*   BucketLaw  the bucket start of t never lies after the reading of t, keeps the *)
(*              fields of the reading down to the bucket's unit, and its text is   *)
(*              the prefix of timeformat "2006-01-02 15:04:05" of the same instant *)
(*              (day bucket = the date part; month bucket = year-month ..)         *)
(*   RtLaw      Parse(Format(t)) resolves to t (or is ambiguous in an overlap);    *)
(*              with a numeric offset always to t                                  *)
(*   AttrLaw    weekday / ISO week / quarter are those of the local civil date     *)
(*   RuleAgree  the host tables of New York (from 2007) and Berlin (from 1996) are *)
(*              the rule zones of TimeCal                                          *)
(* Design = "spec" is the specification.  Two refuted controls:                    *)
(*   "rebuild"  the bucket start is re-built from the truncated fields through a   *)
(*              normalising constructor (wall clock -> instant -> reading, the way *)
(*              time.Date resolves a wall clock): where a zone skips the first     *)
(*              second of a day or month the bucket moves to the previous one -    *)
(*              BucketLaw is violated                                              *)
(*   "flat"     a zone whose offset is the same in January and July of the current *)
(*              year is replaced by that fixed offset: OffsetLaw is violated in    *)
(*              every period with another offset                                   *)
EXTENDS TimeTab, TLC

CONSTANTS Design, Thorough, Seed

VARIABLE c

\* ---------------------------------------------------------------- generated tables
bS == <<83, 84, 68>>   bD == <<68, 83, 84>>   bX == <<88, 83, 84>>
E(t, off, abbr) == [d |-> t.d, s |-> t.s, off |-> off, abbr |-> abbr]
First(off, abbr) == E(Inst(0 - 31, 0), off, abbr)
\* DST of dlt seconds on std: on at local (mOn, dOn, ls) standard time, off at local (mOff, dOff, ls) DST, years 1980..1982 (1980..1981 unless Thorough)
RuleTab(std, dlt, ls, mOn, dOn, mOff, dOff) ==
  <<First(std, bS)>> \o
  Flatten([k \in 1..(IF Thorough THEN 3 ELSE 2) |->
     LET y == 1979 + k  yo == IF mOff < mOn THEN y + 1 ELSE y IN
     <<E(Norm(DaysFromCivil(y, mOn, dOn), ls - std), std + dlt, bD),
       E(Norm(DaysFromCivil(yo, mOff, dOff), ls - (std + dlt)), std, bS)>>])
Shapes == {<<3, 14, 11, 1>>, <<10, 1, 3, 1>>, <<4, 1, 10, 1>>}
SpecialTabs == <<
  <<First(0 - 36000, <<45, 49, 48>>), E(Inst(DaysFromCivil(2011, 12, 30), 36000), 50400, <<43, 49, 52>>)>>,           \* a day is skipped
  <<First(28800, bS), E(Inst(DaysFromCivil(1986, 5, 3), 57600), 32400, bD), E(Inst(DaysFromCivil(1986, 9, 13), 54000), 28800, bS),
    E(Inst(DaysFromCivil(1995, 1, 1), 0), 30600, bX)>>,                                                               \* the standard offset moves
  <<First(7200, bS), E(Inst(DaysFromCivil(2016, 9, 6), 75600), 10800, bD), E(Inst(DaysFromCivil(2016, 10, 29), 75600), 10800, bX)>>,   \* DST made permanent: the name changes
  <<First(20700, <<43, 48, 53, 52, 53>>)>> >>
GenTabs ==
  SetToSeq({RuleTab(std, dlt, ls, sh[1], sh[2], sh[3], sh[4]) :
              std \in {0 - 18000, 0, 20700, 37800}, dlt \in {1800, 3600}, ls \in {0, 7200}, sh \in Shapes})
  \o SpecialTabs
GenZones == [i \in 1..Len(GenTabs) |-> TableZone(GenTabs[i])]

ZoneOf(src, zi) == IF src = "gen" THEN GenZones[zi] ELSE HostZones[zi].zd

\* ---------------------------------------------------------------- the designs
NowDay == DaysFromCivil(2026, 1, 1)
IsFlat(zd) == Offset(zd, Inst(NowDay, 43200)) = Offset(zd, Inst(NowDay + 181, 43200))
D_Entry(zd, t) ==
  IF Design = "flat" /\ IsFlat(zd) THEN zd.tab[TabIdx(zd.tab, Inst(NowDay, 43200))] ELSE zd.tab[TabIdx(zd.tab, t)]
D_Offset(zd, t) == D_Entry(zd, t).off
D_Local(zd, t) == LET e == D_Entry(zd, t) IN LocalAt(t, e.off, e.abbr)

\* a normalising constructor: the instant a wall clock denotes, resolved like Go's time.Date (look the offset up at the
\* wall clock taken as UTC; if wall - offset is not inside that period, look again there)
Rebuild(zd, f) ==
  LET w  == WallOfFields(f)
      i1 == TabIdx(zd.tab, w)
      o1 == zd.tab[i1].off
      u  == Plus(w, 0 - o1)
      inside == (i1 = 1 \/ AtOrAfter(u, zd.tab[i1])) /\ (i1 = Len(zd.tab) \/ Before(u, zd.tab[i1 + 1]))
  IN Plus(w, 0 - (IF inside THEN o1 ELSE Offset(zd, u)))
D_Bucket(zd, t, kind) ==
  IF Design = "rebuild" THEN Local(zd, Rebuild(zd, BucketStart(kind, Local(zd, t))))
  ELSE BucketStart(kind, D_Local(zd, t))

\* ---------------------------------------------------------------- the laws
Kinds == {"nanos", "seconds", "minutes", "hours", "days", "months", "years"}
PrefixLen(kind) == CASE kind \in {"nanos", "seconds"} -> 19 [] kind = "minutes" -> 16 [] kind = "hours" -> 13
                     [] kind = "days" -> 10 [] kind = "months" -> 7 [] kind = "years" -> 4
Full == Layout("2006-01-02 15:04:05")
UnitFields(l, n) == SubSeq(<<l.y, l.m, l.d, l.hh, l.mi, l.ss>>, 1, n)

OffsetLaw(src, zd, t) ==
  LET tab == zd.tab  i == TabIdx(tab, t) IN
  /\ i \in 1..Len(tab)
  /\ (i = 1 \/ AtOrAfter(t, tab[i])) /\ (i = Len(tab) \/ Before(t, tab[i + 1]))
  /\ D_Offset(zd, t) = tab[i].off /\ D_Offset(zd, t) \in zd.offs
  /\ (src = "gen" => i = Max({1} \cup {j \in 1..Len(tab) : AtOrAfter(t, tab[j])}))
  /\ D_Local(zd, t) = Local(zd, t)

MonoLaw(zd, t) ==
  \A dl \in {1, 60, 3600, 86400} :
    LET u == Plus(t, dl) IN
    TabIdx(zd.tab, u) = TabIdx(zd.tab, t) =>
      /\ Wall(Local(zd, u)) = Plus(Wall(Local(zd, t)), dl)
      /\ Local(zd, u).off = Local(zd, t).off /\ Local(zd, u).abbr = Local(zd, t).abbr

BucketLaw(zd, t) ==
  LET l == D_Local(zd, t)  full == Format(Full, l) IN
  \A kind \in Kinds :
    LET b == D_Bucket(zd, t, kind) IN
    /\ ~Before(Wall(l), WallOfFields(b))                                   \* never starts after the instant it holds
    /\ UnitFields(b, BucketDepth(kind)) = UnitFields(l, BucketDepth(kind))  \* and holds it
    /\ Format(BucketLayout(kind), b) = SubSeq(full, 1, PrefixLen(kind))
    /\ (Design = "spec" => BucketText(kind, Local(zd, t)) = Format(BucketLayout(kind), b))

RtLaw(zd, t) ==
  LET l == Local(zd, t)
      q == Resolve(ParseM(Full, Format(Full, l)), zd)
      lo == Layout("RFC3339")
  IN /\ q.k \in {"one", "two"}
     /\ (q.k = "one" => q.t = t)
     /\ Resolve(ParseM(lo, Format(lo, l)), zd) = [k |-> "one", t |-> t]
     /\ InstOfDigits(UnixDigits(t)) = [ok |-> TRUE, t |-> t]

AttrLaw(zd, t) ==
  LET l == Local(zd, t) IN
  /\ l.ld = DaysFromCivil(l.y, l.m, l.d) /\ l.wd = Weekday(l.ld)
  /\ AttrText("weekday", l) = Itoa(Weekday(l.ld))
  /\ AttrText("quarter", l) = Itoa((l.m - 1) \div 3 + 1)
  /\ AttrText("yearweek", l) = Itoa(IsoWeek(l.ld).y) \o <<45>> \o AttrText("week", l)

\* at the transition into entry i (i > 1): the reading jumps by the change of offset
JumpLaw(zd, i) ==
  LET tab == zd.tab  t == Inst(tab[i].d, tab[i].s)  p == Plus(t, 0 - 1)
      dl  == tab[i].off - tab[i - 1].off
      lt  == Local(zd, t)  lp == Local(zd, p)
      far == (i = 2 \/ Before(Plus(Inst(tab[i - 1].d, tab[i - 1].s), 90000), t))
             /\ (i = Len(tab) \/ Before(Plus(t, 90000), tab[i + 1]))           \* no other transition within 25 h
  IN /\ lp.off = tab[i - 1].off /\ lt.off = tab[i].off
     /\ Wall(lt) = Plus(Wall(lp), 1 + dl)
     /\ (far /\ dl > 0 =>      \* the skipped wall clocks are nobody's reading
           LET g == Plus(Wall(lp), 1)  c0 == Civil(g.d)
               r == [PInit EXCEPT !.y = c0.y, !.m = c0.m, !.d = c0.d, !.hh = g.s \div 3600, !.mi = (g.s % 3600) \div 60, !.ss = g.s % 60]
           IN Resolve(r, zd).k = "none")
     /\ (far /\ dl < 0 =>      \* the repeated wall clocks have two
           LET r == [PInit EXCEPT !.y = lt.y, !.m = lt.m, !.d = lt.d, !.hh = lt.hh, !.mi = lt.mi, !.ss = lt.ss]
           IN Resolve(r, zd).k = "two")

RuleZoneNames == {"America/New_York", "Europe/Berlin"}
RuleAgree(name, zd, t) ==
  name \in RuleZoneNames /\ t.d > Zone(name).from /\ InRange(t) => Local(Zone(name), t) = Local(zd, t)

ProbeLaw(src, zi, t) ==
  LET zd == ZoneOf(src, zi) IN
  /\ OffsetLaw(src, zd, t)
  /\ BucketLaw(zd, t)
  /\ (Design = "spec" => MonoLaw(zd, t) /\ RtLaw(zd, t) /\ AttrLaw(zd, t)
                         /\ (src = "host" => RuleAgree(HostZones[zi].name, zd, t)))

\* ---------------------------------------------------------------- the cases
H(src, zi, i) == [k |-> "hdr", src |-> src, zi |-> zi, i |-> i]
Headers == {H("gen", zi, i) : zi \in 1..Len(GenZones), i \in 1..7} \cup {H("host", zi, i) : zi \in 1..Len(HostZones), i \in 1..300}
NTab(h) == Len(ZoneOf(h.src, h.zi).tab)

\* local day / month / quarter / year starts after the reading l, as instants in offset off
Starts(l, off) ==
  LET ny == IF l.m = 12 THEN l.y + 1 ELSE l.y   nm == IF l.m = 12 THEN 1 ELSE l.m + 1
      q  == 3 * ((l.m - 1) \div 3) + 1
      qy == IF q = 10 THEN l.y + 1 ELSE l.y   qm == IF q = 10 THEN 1 ELSE q + 3
  IN {Norm(d, 0 - off) : d \in {l.ld, l.ld + 1, DaysFromCivil(l.y, l.m, 1), DaysFromCivil(ny, nm, 1),
                                DaysFromCivil(qy, qm, 1), DaysFromCivil(l.y + 1, 1, 1)}}

Dense(h) == h.src = "gen" \/ Thorough \/ (h.i + h.zi + Seed) % 16 = 0
Probes(h) ==
  LET zd == ZoneOf(h.src, h.zi)  tab == zd.tab IN
  IF h.i = 1 THEN {Inst(0, 0), Inst(0, 86399), Inst(MaxDay, 86399), Inst(11016, 86399), Inst(11017, 0)}
                  \cup {Norm(DaysFromCivil(y, 1, 1), dl - tab[1].off) : y \in {1971, 2000, 2100}, dl \in {0 - 1, 0}}
  ELSE LET t == Inst(tab[h.i].d, tab[h.i].s)
           base == {Plus(t, dl) : dl \in IF Dense(h) THEN {0 - 86400, 0 - 3600, 0 - 1, 0, 1, 3599, 3600, 86400} ELSE {0 - 1, 0}}
           st == IF Dense(h) THEN UNION {{s, Plus(s, 0 - 1)} : s \in Starts(Local(zd, t), tab[h.i].off)} ELSE {}
       IN {u \in base \cup st : InRange(u)}

Init == c \in {h \in Headers : h.i <= NTab(h)}
Next == c.k = "hdr" /\ \/ \E t \in Probes(c) : c' = [k |-> "probe", src |-> c.src, zi |-> c.zi, t |-> t]
                       \/ c.i > 1 /\ c' = [k |-> "jump", src |-> c.src, zi |-> c.zi, i |-> c.i]

LawOK ==
  CASE c.k = "hdr" -> TabSorted(ZoneOf(c.src, c.zi).tab)
    [] c.k = "probe" -> ProbeLaw(c.src, c.zi, c.t)
    [] c.k = "jump" -> Design = "spec" => JumpLaw(ZoneOf(c.src, c.zi), c.i)
=============================================================================

---------------------------- MODULE Render_Trace ----------------------------
(* B2 for C14: every record the driver wrote from the REAL code is judged by the   *)
(* contracts of Render.tla.  Records are self-contained:                           *)
(*   scale    one (min,max) range, values sorted, the scaler's results             *)
(*   bucket / length / keys / bar / stackbar / heat / spark   one primitive call    *)
(*   render   one screen: configuration, the aggregated state the renderer was      *)
(*            handed (keys and numbers in display order), the states the same       *)
(*            renderer instance drew before (layout state), the screen before the   *)
(*            render, the footers written after it, the lines                       *)
(* The trace spec is total: every record is consumed; Why(r) names the first       *)
(* contract a record breaks ("ok" otherwise); the rejected ones are collected in   *)
(* `bad` and written by Final.                                                     *)
EXTENDS Render, Json

Trace == ndJsonDeserialize("trace.ndjson")

VARIABLES l, bad, nontrivial
tvars == <<l, bad, nontrivial>>

\* ------------------------------------------------------------------ scaler records
ScaleWhy(r) ==
  LET n == Len(r.vals) IN
  IF \E i \in 1..n : ~r.in01[i] \/ r.s9[i] < 0 \/ r.s9[i] > 1000000000 THEN "scale:range"       \* [0,1]
  ELSE IF \E i \in 1..n : ~r.ge[i] THEN "scale:monotone"                                        \* monotone in the value
  ELSE IF \E i \in 2..n : r.s9[i] < r.s9[i - 1] THEN "scale:monotone"
  ELSE IF r.sc = "linear" /\ \E i \in 1..n : ~LinScaleObs9(r.s9[i], r.vals[i], r.mn, r.mx) THEN "scale:linear"
  ELSE IF \E i \in 1..n : r.vals[i] < r.mn /\ r.s9[i] # 0 THEN "scale:clamp"                   \* below the range: 0
  ELSE IF \E i \in 1..n : r.mx >= r.mn /\ r.vals[i] > r.mx /\ r.s9[i] # 1000000000 THEN "scale:clamp"
  ELSE "ok"

BucketWhy(r) ==
  IF r.got < 0 \/ r.got > r.n - 1 THEN "bucket:range"
  ELSE IF r.sc = "linear" /\ ~BucketObs(r.got, r.n, LinScale(r.v, r.mn, r.mx)) THEN "bucket:linear"
  ELSE "ok"
LengthWhy(r) ==
  IF r.got < 0 \/ r.got > r.n THEN "length:range"
  ELSE IF r.sc = "linear" /\ ~LengthObs(r.got, r.n, LinScale(r.v, r.mn, r.mx)) THEN "length:linear"
  ELSE "ok"
KeysWhy(r) ==
  IF Len(r.got) < 1 \/ Len(r.got) > r.b \/ ~StrictlyIncreasing(r.got) THEN "keys:shape"
  ELSE IF r.sc = "linear" /\ r.got # LinScaleKeys(r.b, r.mn, r.mx) THEN "keys:linear"
  ELSE "ok"
BarWhy(r) ==
  IF ~BarShapeOK(r.got, r.maxlen, r.uni) THEN "bar:width"
  ELSE IF ~BarObs(r.got, <<r.p, r.q>>, r.maxlen, r.uni) THEN "bar:length"
  ELSE "ok"
StackWhy(r) ==
  IF r.got # StackRaw(r.vals, r.maxval, r.maxlen, r.color, r.uni) THEN "stackbar:cells"
  ELSE IF VisLen(r.got, r.color) > r.maxlen THEN "stackbar:width"
  ELSE "ok"
HeatWhy0(r) ==
  IF \E n \in 0..(HeatBuckets(r.color) - 1) : r.got = HeatRaw(n, r.color, r.uni) /\ BucketObs(n, HeatBuckets(r.color), <<r.p, r.q>>)
  THEN "ok" ELSE "heat:palette"
SparkWhy0(r) ==
  IF Len(r.got) = 1 /\ SparkIdx(r.got[1], r.uni) >= 0 /\ BucketObs(SparkIdx(r.got[1], r.uni), SparkLen(r.uni), <<r.p, r.q>>)
  THEN "ok" ELSE "spark:palette"

\* ------------------------------------------------------------------ render records
\* first failing check of a list of <<ok, class>> thunks is awkward in TLA+; the checks below are
\* nested IFs so that a later check may rely on the earlier ones.

K(r, key) == Vis(key, r.color)
\* the displayed number: the chosen formatter applied to the value AND the bounds the renderer has at this moment
FC(r, v, mn, mx) == FmtC(r.fmt, r.tpl, v, mn, mx)
Lin(r) == r.sc = "linear"
\* pairs <<value, measure>> must be weakly monotone: a larger value never draws less
Monotone(pairs) == \A i \in 1..Len(pairs), j \in 1..Len(pairs) : pairs[i][1] <= pairs[j][1] => pairs[i][2] <= pairs[j][2]

\* ---- histogram -------------------------------------------------------------------------------------
HistoShown(obs, rows) == SubSeq(obs.items, 1, Shown(Len(obs.items), rows))
HistoMax(obs, rows) == SeqMax([i \in 1..Shown(Len(obs.items), rows) |-> obs.items[i][2]], 0)
\* the running maximum of the values this renderer instance was given
HistoRMax(r) == SeqMax([i \in 1..Len(r.prev) |-> HistoMax(r.prev[i], r.rows)], HistoMax(r.obs, r.rows))
\* percentage text (one decimal in brackets) -> tenths of a percent, or -1000000 if it is not of that shape
PctTenths(t) ==
  LET s  == SubSeq(t, SkipSp(t, 1), Len(t))
      ng == s # <<>> /\ s[1] = 45
      b  == IF ng THEN Tail(s) ELSE s
      d  == IndexByte(b, 46)
  IN IF d < 2 \/ Len(b) # d + 2 \/ b[d + 2] # 37 \/ ~IsDigit(b[d + 1]) \/ ~AllDigits(SubSeq(b, 1, d - 1)) THEN -1000000
     ELSE IF d > 9 THEN -2000000                      \* beyond 32 bits: not judged
     ELSE (IF ng THEN -1 ELSE 1) * (DigitsVal(SubSeq(b, 1, d - 1), 0) * 10 + (b[d + 1] - 48))
PctOK(t, val, total) ==     \* |t/10 - 100*val/total| <= 1/20  (nearest tenth, either way at a tie)
  t = -2000000 \/ BLe(BMul(BI(2), BAbs(BSub(BP(t, total), BP(val, 1000)))), BI(total))
\* [why, bar]
HistoLine(r, ln, key, val, mx, total) ==
  LET v  == Vis(ln, r.color)
      k  == K(r, key)
      num == FC(r, val, 0, mx)
      i1 == SkipSp(v, Len(k) + 1)
      i2 == i1 + Len(num)
      j  == SkipSp(v, i2)
      wantPct == r.pct /\ total > 0
      wantBar == r.bars /\ mx > 0
  IN IF ~HasPrefix(v, k) \/ i1 < Len(k) + 2 THEN [why |-> "histo:key", bar |-> <<>>]
     ELSE IF i2 - 1 > Len(v) \/ SubSeq(v, i1, i2 - 1) # num \/ (i2 <= Len(v) /\ v[i2] # 32) THEN [why |-> "histo:number", bar |-> <<>>]
     ELSE LET e  == IF wantPct /\ j <= Len(v) /\ v[j] = 91 THEN IndexByteFrom(v, 93, j) ELSE 0
              j2 == IF wantPct THEN SkipSp(v, e + 1) ELSE j
              bar == SubSeq(v, j2, Len(v))
          IN IF wantPct /\ e = 0 THEN [why |-> "histo:percent", bar |-> <<>>]
             ELSE IF wantPct /\ (PctTenths(SubSeq(v, j + 1, e - 1)) = -1000000 \/ ~PctOK(PctTenths(SubSeq(v, j + 1, e - 1)), val, total))
                  THEN [why |-> "histo:percent", bar |-> <<>>]
             ELSE IF ~wantBar THEN [why |-> IF bar = <<>> THEN "ok" ELSE "histo:bar", bar |-> <<>>]
             ELSE IF ~BarShapeOK(bar, 50, r.uni) THEN [why |-> "histo:barwidth", bar |-> bar]
             ELSE IF Lin(r) /\ ~BarObs(bar, LinScale(val, 0, mx), 50, r.uni) THEN [why |-> "histo:barlength", bar |-> bar]
             ELSE [why |-> "ok", bar |-> bar]
HistoWhy(r) ==
  LET items == HistoShown(r.obs, r.rows)
      n  == Len(items)
      mx == HistoRMax(r)
  IN IF Len(r.lines) # n THEN "histo:lines"
     ELSE LET P == [i \in 1..n |-> HistoLine(r, r.lines[i], items[i][1], items[i][2], mx, r.obs.total)]
          IN IF \E i \in 1..n : P[i].why # "ok" THEN P[CHOOSE i \in 1..n : P[i].why # "ok" /\ \A j \in 1..(i - 1) : P[j].why = "ok"].why
             ELSE IF ~Monotone([i \in 1..n |-> <<items[i][2], BarMeasure(P[i].bar, r.uni)>>]) THEN "histo:monotone"
             ELSE "ok"

\* ---- bar graph -------------------------------------------------------------------------------------
BarsPrefix(obs) == IF Len(obs.subkeys) > 1 \/ (Len(obs.subkeys) = 1 /\ obs.subkeys[1] # <<>>) THEN 1 ELSE 0
RowMax(obs, stacked) ==
  SeqMax([i \in 1..Len(obs.rows) |-> IF stacked THEN SeqSum(obs.rows[i][2]) ELSE SeqMax(obs.rows[i][2], 0)], 0)
BarsRMax(r, stacked) == SeqMax([i \in 1..Len(r.prev) |-> RowMax(r.prev[i], stacked)], RowMax(r.obs, stacked))
\* the mark of sub-key i (from 0) in the legend: the glyph AND the colour its bar segment is drawn with
LegendMark(r, i) ==
  IF r.color THEN GroupColor(i) \o <<(IF r.uni THEN FULL ELSE PIPE)>> \o ResetSeq ELSE <<AsciiKey(i)>>
LegendWhy(r) ==
  LET want == Flatten([i \in 1..Len(r.obs.subkeys) |->
                (IF i = 1 THEN <<>> ELSE <<32, 32>>) \o
                <<(IF r.color THEN (IF r.uni THEN FULL ELSE PIPE) ELSE AsciiKey(i - 1))>> \o <<32>> \o K(r, r.obs.subkeys[i])])
      raw == Flatten([i \in 1..Len(r.obs.subkeys) |-> (IF i = 1 THEN <<>> ELSE <<32, 32>>) \o LegendMark(r, i - 1) \o <<32>> \o r.obs.subkeys[i]])
      v == Vis(r.lines[1], r.color)
      ln == r.lines[1]
  IN IF SubSeq(v, SkipSp(v, 1), Len(v)) # want THEN "bars:legend"
     ELSE IF SubSeq(ln, SkipSp(ln, 1), Len(ln)) # raw THEN "bars:legend-colour"
     ELSE "ok"
\* grouped: one line per (row, sub-key): [key] bar " " number
GroupedLineC(r, ln, first, key, val, mx, ci) ==
  LET v   == Vis(ln, r.color)
      num == <<32>> \o FC(r, val, 0, mx)
      rest == SubSeq(v, 1, Len(v) - Len(num))
      b0  == BackTok(rest, Len(rest))
      bar == SubSeq(rest, b0 + 1, Len(rest))
      head == SubSeq(rest, 1, b0)
      k   == K(r, key)
  IN IF ~HasSuffix(v, num) THEN [why |-> "bars:number", bar |-> <<>>]
     ELSE IF first /\ ~(HasPrefix(head, k) /\ Len(head) >= Len(k) + 1 /\ AllSpaces(SubSeq(head, Len(k) + 1, Len(head))))
          THEN [why |-> "bars:key", bar |-> <<>>]
     ELSE IF ~first /\ ~AllSpaces(head) THEN [why |-> "bars:key", bar |-> <<>>]
     ELSE IF ~BarShapeOK(bar, 50, r.uni) THEN [why |-> "bars:barwidth", bar |-> bar]
     ELSE IF Lin(r) /\ ~BarObs(bar, LinScale(val, 0, mx), 50, r.uni) THEN [why |-> "bars:barlength", bar |-> bar]
     ELSE IF r.color /\ ci >= 0 /\ ~(LET es == EscSeqs(ln) IN Len(es) >= 2 /\ es[Len(es) - 1] = GroupColor(ci) /\ es[Len(es)] = ResetSeq)
          THEN [why |-> "bars:colour", bar |-> bar]           \* the bar of sub-key i in the colour of its legend entry
     ELSE [why |-> "ok", bar |-> bar]
GroupedWhy(r) ==
  LET k  == Len(r.obs.subkeys)
      R  == Len(r.obs.rows)
      p  == BarsPrefix(r.obs)
      mx == BarsRMax(r, FALSE)
  IN IF Len(r.lines) # (IF R = 0 THEN 0 ELSE p + R * k) THEN "bars:lines"
     ELSE IF R = 0 THEN "ok"
     ELSE IF p = 1 /\ LegendWhy(r) # "ok" THEN LegendWhy(r)
     ELSE LET P == [x \in 1..(R * k) |->
                      LET row == (x - 1) \div k + 1   i == Rem(x - 1, k) + 1
                      IN GroupedLineC(r, r.lines[p + x], i = 1, r.obs.rows[row][1], r.obs.rows[row][2][i], mx, i - 1)]
              vals == [x \in 1..(R * k) |-> r.obs.rows[(x - 1) \div k + 1][2][Rem(x - 1, k) + 1]]
          IN IF \E x \in 1..(R * k) : P[x].why # "ok" THEN P[CHOOSE x \in 1..(R * k) : P[x].why # "ok"].why
             ELSE IF ~Monotone([x \in 1..(R * k) |-> <<vals[x], BarMeasure(P[x].bar, r.uni)>>]) THEN "bars:monotone"
             ELSE "ok"
\* stacked: one line per row: key, the segments, "  ", the row total
StackedLine(r, ln, key, vals, mx) ==
  LET tail == StackRaw(vals, mx, 50, r.color, r.uni) \o <<32, 32>> \o FC(r, SeqSum(vals), 0, mx)
      head == Vis(SubSeq(ln, 1, Len(ln) - Len(tail)), r.color)
      k    == K(r, key)
  IN IF ~HasSuffix(ln, tail) THEN "stack:cells"
     ELSE IF ~(HasPrefix(head, k) /\ Len(head) >= Len(k) + 2 /\ AllSpaces(SubSeq(head, Len(k) + 1, Len(head)))) THEN "stack:key"
     ELSE IF StackTotal(vals, mx, 50) > 50 THEN "stack:width"
     ELSE "ok"
StackedWhy(r) ==
  LET R  == Len(r.obs.rows)
      p  == BarsPrefix(r.obs)
      mx == BarsRMax(r, TRUE)
  IN IF Len(r.lines) # (IF R = 0 THEN 0 ELSE p + R) THEN "stack:lines"
     ELSE IF R = 0 THEN "ok"
     ELSE IF p = 1 /\ LegendWhy(r) # "ok" THEN LegendWhy(r)
     ELSE LET W == [i \in 1..R |-> StackedLine(r, r.lines[p + i], r.obs.rows[i][1], r.obs.rows[i][2], mx)]
          IN IF \E i \in 1..R : W[i] # "ok" THEN W[CHOOSE i \in 1..R : W[i] # "ok"] ELSE "ok"

\* ---- tables (TableWriter): DataTable, Spark, reduce ------------------------------------------------------
TblMinMax(obs) ==
  LET all == Flatten([i \in 1..Len(obs.rows) |-> obs.rows[i][2]])
  IN IF all = <<>> THEN <<0, 0>> ELSE <<SeqMin(all, all[1]), SeqMax(all, all[1])>>
ColTot(obs, j) == SeqSum([i \in 1..Len(obs.rows) |-> obs.rows[i][2][j]])
sTotal == <<84, 111, 116, 97, 108>>
sFirst == <<70, 105, 114, 115, 116>>
sLast  == <<76, 97, 115, 116>>
\* the visible cells DataTable.WriteTable hands to the table writer, row by row
DataCells(r, obs) ==
  LET C == Shown(Len(obs.cols), r.cols)
      R == Shown(Len(obs.rows), r.rows)
      mm == TblMinMax(obs)                  \* the bounds a chosen formatter is given: least and largest cell of the table
      F(rr, v) == FC(rr, v, mm[1], mm[2])
      hdr == <<<<>>>> \o [j \in 1..C |-> K(r, obs.cols[j])] \o <<IF r.rowtot THEN sTotal ELSE <<>>>>
      row(i) == <<K(r, obs.rows[i][1])>> \o [j \in 1..C |-> F(r, obs.rows[i][2][j])]
                \o <<IF r.rowtot THEN F(r, SeqSum(obs.rows[i][2])) ELSE <<>>>>
      tot == <<sTotal>> \o [j \in 1..C |-> F(r, ColTot(obs, j))]
             \o <<IF r.rowtot THEN F(r, SeqSum([j \in 1..Len(obs.cols) |-> ColTot(obs, j)])) ELSE <<>>>>
  IN <<hdr>> \o [i \in 1..R |-> row(i)] \o (IF r.coltot THEN <<tot>> ELSE <<>>)
\* Spark.WriteTable: header (only with columns), one row per shown row; the sparkline cell is given by its
\* length (the glyphs are judged separately); [cells, note]
SparkCols(r, obs) == LET C == Shown(Len(obs.cols), r.cols) IN SubSeq([j \in 1..Len(obs.cols) |-> j], Len(obs.cols) - C + 1, Len(obs.cols))
SparkCells(r, obs, lineOf) ==
  LET dc == SparkCols(r, obs)
      mm == TblMinMax(obs)
      F(rr, v) == FC(rr, v, mm[1], mm[2])
      C  == Len(dc)
      R  == Shown(Len(obs.rows), r.rows)
      first == obs.cols[dc[1]]
      last  == obs.cols[dc[C]]
      T  == Vis(first \o Rep(46, Max2(0, C - Utf8Len(first) - Utf8Len(last))) \o last, r.color)
      hdr == IF C > 0 THEN <<<<>>, sFirst, T, sLast>> ELSE <<>>
      row(i) == IF C = 0 THEN <<K(r, obs.rows[i][1]), <<>>, <<>>, <<>>>>
                ELSE <<K(r, obs.rows[i][1]), F(r, obs.rows[i][2][dc[1]]), lineOf[i], F(r, obs.rows[i][2][dc[C]])>>
  IN <<hdr>> \o [i \in 1..R |-> row(i)]
\* cells of the reduce table: the first maxCols cells of the first maxRows rows
ReduceCells(r, obs) ==
  [i \in 1..Shown(Len(obs.cells), r.rows) |->
     [j \in 1..Shown(Len(obs.cells[i]), r.cols) |-> Vis(obs.cells[i][j], r.color)]]
\* column widths carried by the instance: fold over the states drawn before
RECURSIVE WidthsFold(_, _, _)
WidthsFold(cellsSeq, n, w) ==
  IF cellsSeq = <<>> THEN w ELSE WidthsFold(Tail(cellsSeq), n, TableWidths(cellsSeq[1], n, w))

DataWhy(r) ==
  LET n == r.cols + 2
      w0 == WidthsFold([i \in 1..Len(r.prev) |-> DataCells(r, r.prev[i])], n, <<>>)
      cells == DataCells(r, r.obs)
      w == TableWidths(cells, n, w0)
  IN IF Len(r.lines) # Len(cells) THEN "table:lines"
     ELSE IF \E i \in 1..Len(cells) : Vis(r.lines[i], r.color) # TableLine(cells[i], w) THEN "table:layout"
     ELSE "ok"
ReduceWhy(r) ==
  LET w0 == WidthsFold([i \in 1..Len(r.prev) |-> ReduceCells(r, r.prev[i])], r.cols, <<>>)
      cells == ReduceCells(r, r.obs)
      w == TableWidths(cells, r.cols, w0)
  IN IF Len(r.lines) # Len(cells) THEN "reduce:lines"
     ELSE IF \E i \in 1..Len(cells) : Vis(r.lines[i], r.color) # TableLine(cells[i], w) THEN "reduce:layout"
     ELSE "ok"

SparkPlaceholder(r, obs) == [i \in 1..Shown(Len(obs.rows), r.rows) |-> Rep(95, Len(SparkCols(r, obs)))]
SparkCellsPlain(r, obs) == SparkCells(r, obs, SparkPlaceholder(r, obs))
SparkWhy(r) ==
  LET obs == r.obs
      dc == SparkCols(r, obs)
      C  == Len(dc)
      R  == Shown(Len(obs.rows), r.rows)
      more == Len(obs.rows) - R
      w0 == WidthsFold([i \in 1..Len(r.prev) |-> SparkCellsPlain(r, r.prev[i])], 4, <<>>)
      w  == TableWidths(SparkCellsPlain(r, obs), 4, w0)
      nl == IF C = 0 /\ R = 0 THEN 0 ELSE R + 1
      vis == [i \in 1..Len(r.lines) |-> Vis(r.lines[i], r.color)]
      s3 == ColStart(w, 3)
      sl == [i \in 1..R |-> IF C > 0 /\ Len(vis[i + 1]) >= s3 + C THEN SubSeq(vis[i + 1], s3 + 1, s3 + C) ELSE <<>>]
      cells == SparkCells(r, obs, sl)
      mm == TblMinMax(obs)
  IN IF Len(r.lines) # nl + (IF more > 0 THEN 1 ELSE 0) THEN "spark:lines"
     ELSE IF more > 0 /\ vis[nl + 1] # MoreNote(more) THEN "spark:more"
     ELSE IF nl = 0 THEN "ok"
     ELSE IF C = 0 THEN (IF \A i \in 1..R : HasPrefix(vis[i + 1], K(r, obs.rows[i][1])) THEN "ok" ELSE "spark:layout")
     ELSE IF \E i \in 1..R : Len(sl[i]) # C THEN "spark:cells"
     ELSE IF \E i \in 1..(R + 1) : vis[i] # TableLine(cells[i], w) THEN "spark:layout"
     ELSE IF \E i \in 1..R, j \in 1..C : SparkIdx(sl[i][j], r.uni) < 0 THEN "spark:cells"
     ELSE IF Lin(r) /\ \E i \in 1..R, j \in 1..C :
               ~BucketObs(SparkIdx(sl[i][j], r.uni), SparkLen(r.uni), LinScale(obs.rows[i][2][dc[j]], mm[1], mm[2])) THEN "spark:palette"
     ELSE IF ~Monotone([x \in 1..(R * C) |-> LET i == (x - 1) \div C + 1   j == Rem(x - 1, C) + 1
                                           IN <<obs.rows[i][2][dc[j]], SparkIdx(sl[i][j], r.uni)>>]) THEN "spark:monotone"
     ELSE "ok"

\* ---- heat map ------------------------------------------------------------------------------------------
\* palette index of a colour sequence ESC[38;5;Nm, -1 if it is none
HeatSeqIdx(seq) ==
  IF Len(seq) < 9 \/ SubSeq(seq, 1, 7) # <<27, 91, 51, 56, 59, 53, 59>> \/ ~AllDigits(SubSeq(seq, 8, Len(seq) - 1)) THEN -1
  ELSE LET code == DigitsVal(SubSeq(seq, 8, Len(seq) - 1), 0)
           S == {i \in 1..16 : HeatCodes[i] = code}
       IN IF S = {} THEN -1 ELSE (CHOOSE i \in S : TRUE) - 1
\* the palette indexes of the C cells that end a heat-map row; <<>> if the row does not end with C cells
HeatCellIdx(r, ln, C) ==
  LET v == Vis(ln, r.color) IN
  IF Len(v) < C THEN <<>>
  ELSE IF ~r.color THEN [j \in 1..C |-> HeatAsciiIdx(v[Len(v) - C + j])]
  ELSE LET es == EscSeqs(ln) IN
       IF Len(es) < 2 * C \/ \E j \in 1..C : v[Len(v) - C + j] # HeatBlock(r.uni) THEN <<>>
       ELSE [j \in 1..C |-> HeatSeqIdx(es[Len(es) - 2 * C + 2 * j - 1])]
HeatRowWhy(r, ln, name, idx, C) ==
  LET v == Vis(ln, r.color)
      k == K(r, name)
  IN IF Len(idx) # C \/ \E j \in 1..C : idx[j] < 0 THEN "heat:cells"
     ELSE IF ~(HasPrefix(v, k) /\ Len(v) >= Len(k) + 1 + C /\ AllSpaces(SubSeq(v, Len(k) + 1, Len(v) - C))) THEN "heat:cells"    \* exactly one cell per shown column
     ELSE "ok"
LegendEntries(v) == SplitSeq(SubSeq(v, SkipSp(v, 1), Len(v)), <<32, 32, 32, 32>>)
HeatLegendWhy(r, mm) ==
  LET es == LegendEntries(Vis(r.lines[1], r.color))
      ks == LinScaleKeys(6, mm[1], mm[2])
      glyphOK(e, key) ==
        IF r.color THEN e[1] = HeatBlock(r.uni)
        ELSE HeatAsciiIdx(e[1]) >= 0 /\ (Lin(r) => BucketObs(HeatAsciiIdx(e[1]), HeatAsciiLen, LinScale(key, mm[1], mm[2])))
  IN IF Len(es) < 1 \/ Len(es) > 6 \/ \E i \in 1..Len(es) : Len(es[i]) < 3 \/ es[i][2] # 32 THEN "heat:legend"
     ELSE IF ~Lin(r) THEN (IF \A i \in 1..Len(es) : glyphOK(es[i], 0) THEN "ok" ELSE "heat:legend")
     ELSE IF Len(es) # Len(ks) THEN "heat:legend"
     ELSE IF \E i \in 1..Len(ks) : SubSeq(es[i], 3, Len(es[i])) # FC(r, ks[i], mm[1], mm[2]) \/ ~glyphOK(es[i], ks[i]) THEN "heat:legend"
     ELSE "ok"
HeatHeaderWhy(r) ==
  LET obs == r.obs
      C == Shown(Len(obs.cols), r.cols)
      v == Vis(r.lines[2], r.color)
      body == SubSeq(v, SkipSp(v, 1), Len(v))
      names == [j \in 1..Len(obs.cols) |-> K(r, obs.cols[j])]
      want == HeatHeader(names, r.cols)
      plain == ~r.color \/ \A j \in 1..C : IndexByte(obs.cols[j], ESC) = 0
      hidden == Len(obs.cols) - C
  IN IF hidden > 0 /\ ~HasSuffix(v, <<32>> \o MoreNote(hidden)) THEN "heat:more"
     ELSE IF hidden = 0 /\ HasSuffix(v, <<32, 109, 111, 114, 101, 41>>) /\ ~HasSuffix(names[Len(names)], <<109, 111, 114, 101, 41>>) THEN "heat:more"
     ELSE IF plain /\ (~want.done \/ body # SubSeq(want.txt, SkipSp(want.txt, 1), Len(want.txt))) THEN "heat:header"
     ELSE "ok"
HeatWhy(r) ==
  LET obs == r.obs
      C == Shown(Len(obs.cols), r.cols)
      R == Shown(Len(obs.rows), r.rows)
      more == Len(obs.rows) - R
      mm == TblMinMax(obs)
  IN IF Len(r.lines) # 2 + R + (IF more > 0 THEN 1 ELSE 0) THEN "heat:lines"
     ELSE IF more > 0 /\ Vis(r.lines[3 + R], r.color) # MoreNote(more) THEN "heat:more"
     ELSE IF HeatLegendWhy(r, mm) # "ok" THEN HeatLegendWhy(r, mm)
     ELSE IF HeatHeaderWhy(r) # "ok" THEN HeatHeaderWhy(r)
     ELSE LET idx == [i \in 1..R |-> HeatCellIdx(r, r.lines[2 + i], C)]
              W == [i \in 1..R |-> HeatRowWhy(r, r.lines[2 + i], obs.rows[i][1], idx[i], C)]
          IN IF \E i \in 1..R : W[i] # "ok" THEN "heat:cells"
             ELSE IF \E i \in 1..R, j \in 1..C : idx[i][j] > HeatBuckets(r.color) - 1 THEN "heat:palette"
             ELSE IF Lin(r) /\ \E i \in 1..R, j \in 1..C :
                       ~BucketObs(idx[i][j], HeatBuckets(r.color), LinScale(obs.rows[i][2][j], mm[1], mm[2])) THEN "heat:palette"
             ELSE IF ~Monotone([x \in 1..(R * C) |-> LET i == (x - 1) \div C + 1   j == Rem(x - 1, C) + 1
                                                   IN <<obs.rows[i][2][j], idx[i][j]>>]) THEN "heat:monotone"
             ELSE "ok"

\* ---- the whole screen: body and footers -------------------------------------------------------------------
\* number of lines the renderer's own drawing occupies (the `n` of the checks above)
BodyLen(r) ==
  LET obs == r.obs IN
  CASE r.rdr = "histo"  -> Shown(Len(obs.items), r.rows)
    [] r.rdr = "bars"   -> IF Len(obs.rows) = 0 THEN 0 ELSE BarsPrefix(obs) + Len(obs.rows) * Len(obs.subkeys)
    [] r.rdr = "stack"  -> IF Len(obs.rows) = 0 THEN 0 ELSE BarsPrefix(obs) + Len(obs.rows)
    [] r.rdr = "table"  -> Len(DataCells(r, obs))
    [] r.rdr = "reduce" -> Len(ReduceCells(r, obs))
    [] r.rdr = "spark"  -> LET R == Shown(Len(obs.rows), r.rows) IN
                           (IF Len(SparkCols(r, obs)) = 0 /\ R = 0 THEN 0 ELSE R + 1) + (IF Len(obs.rows) > R THEN 1 ELSE 0)
    [] r.rdr = "heat"   -> LET R == Shown(Len(obs.rows), r.rows) IN 2 + R + (IF Len(obs.rows) > R THEN 1 ELSE 0)
    [] OTHER -> 0
\* footers (summary and status lines of the commands) go below the drawing: the histogram keeps them below its
\* configured number of lines, every other renderer directly below what it drew
FooterBase(r) == IF r.rdr = "histo" THEN r.rows ELSE BodyLen(r)
\* below the drawing the screen is what was there before the render (r.before) with this render's footers written
\* over it, VirtualTerm-wise: lines in between exist and are empty, nothing else changes, nothing fails (a renderer may
\* also blank what an earlier, longer drawing left below its present one)
FooterWhy(r) ==
  LET B == BodyLen(r)
      base == FooterBase(r)
      exp == VWrites(r.before, [i \in 1..Len(r.foot) |-> <<base + r.foot[i][1], r.foot[i][2]>>])
  IN IF Len(r.lines) # Max2(B, Len(exp)) THEN r.rdr \o ":footer-lines"
     ELSE IF \E j \in (B + 1)..Len(r.lines) :
               /\ r.lines[j] # VGet(exp, j - 1)
               \* a line of an earlier, longer drawing that no footer of this render addresses may also have been blanked
               /\ ~(r.lines[j] = <<>> /\ \A i \in 1..Len(r.foot) : base + r.foot[i][1] # j - 1) THEN r.rdr \o ":footer"
     ELSE "ok"

BodyWhy(r) ==
  CASE r.rdr = "histo"  -> HistoWhy(r)
    [] r.rdr = "bars"   -> GroupedWhy(r)
    [] r.rdr = "stack"  -> StackedWhy(r)
    [] r.rdr = "table"  -> DataWhy(r)
    [] r.rdr = "reduce" -> ReduceWhy(r)
    [] r.rdr = "spark"  -> SparkWhy(r)
    [] r.rdr = "heat"   -> HeatWhy(r)
    [] OTHER -> "unknown"
RenderWhy(r) ==
  LET w == BodyWhy([r EXCEPT !.lines = SubSeq(r.lines, 1, Min2(BodyLen(r), Len(r.lines)))])
  IN IF w # "ok" THEN w ELSE FooterWhy(r)

Why(r) ==
  IF r.panic THEN "panic"                                   \* whatever the state and the scale: the call returns
  ELSE CASE r.ev = "scale"    -> ScaleWhy(r)
         [] r.ev = "bucket"   -> BucketWhy(r)
         [] r.ev = "length"   -> LengthWhy(r)
         [] r.ev = "keys"     -> KeysWhy(r)
         [] r.ev = "bar"      -> BarWhy(r)
         [] r.ev = "stackbar" -> StackWhy(r)
         [] r.ev = "heat"     -> HeatWhy0(r)
         [] r.ev = "spark"    -> SparkWhy0(r)
         [] r.ev = "render"   -> RenderWhy(r)
         [] OTHER -> "unknown"

TInit == l = 1 /\ bad = <<>> /\ nontrivial = 0
TNext ==
  /\ l <= Len(Trace)
  /\ l' = l + 1
  /\ LET w == Why(Trace[l]) IN
       bad' = IF w = "ok" THEN bad ELSE Append(bad, [l |-> l, why |-> w])
  /\ nontrivial' = nontrivial + (IF Trace[l].ev = "render" /\ Len(Trace[l].lines) >= 2 THEN 1 ELSE 0)
TSpec == TInit /\ [][TNext]_tvars

Final == (l = Len(Trace) + 1) =>
  JsonSerialize("bad.json", [bad |-> bad, consumed |-> l - 1, done |-> TRUE, nontrivial |-> nontrivial])
=============================================================================

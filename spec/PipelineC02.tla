----------------------------- MODULE PipelineC02 -----------------------------
(* C02 (a) - every emitted match carries the source and the 1-based line number   *)
(* of the line it came from, however the lines were batched.                       *)
(*                                                                                 *)
(* Builds on Pipeline.tla (C01), which already carries bstart (batchStart of every *)
(* reader) and the line number  BatchStart + idx  computed by the worker, with the *)
(* invariant LineNoOK.  Added here:                                                *)
(*   - the three flush paths of the batcher are told apart (full batch / flush     *)
(*     timer / final partial batch) and the advance of batchStart is a parameter   *)
(*     of the path (AdvanceOn), so that the action property AdvanceOK - batchStart *)
(*     moves by len(batch) on EVERY flush - has a negative control: a batcher that *)
(*     forgets the advance on the timer path violates LineNoOK;                    *)
(*   - cseq, the order in which the consumer receives the matches, with the        *)
(*     property's clause "one reader and one worker => input order" (OrderOK);     *)
(*   - with AdvanceOn = all paths the variant is step-for-step the C01 model       *)
(*     (SameAsPipeline), so everything proved there holds here.                    *)
EXTENDS Pipeline_MC

CONSTANT AdvanceOn      \* subset of {"full", "timer", "final"}: flush paths on which batchStart += len(batch)
VARIABLE cseq           \* sequence of matches [src, no, id] in the order the consumer received them

cvars == <<vars, cseq>>

\* which path cut the batch the reader is about to send
FlushPath(f) == IF rpc[f] = "final" THEN "final"
                ELSE IF Len(rbatch[f]) >= Batch THEN "full" ELSE "timer"

\* s.c <- InputBatch{Batch, Source, BatchStart}; batchStart += len(batch)   (per path)
ReaderSendC(f) ==
  /\ rpc[f] \in {"send", "final"}
  /\ Len(bchan) < BufCap \/ bclosed
  /\ IF bclosed
     THEN panic' = "send on closed channel" /\ bchan' = bchan
     ELSE panic' = panic /\
          bchan' = Append(bchan, [src |-> f, start |-> bstart[f], lines |-> rbatch[f]])
  /\ bstart' = [bstart EXCEPT ![f] = IF FlushPath(f) \in AdvanceOn THEN @ + Len(rbatch[f]) ELSE @]
  /\ rbatch' = [rbatch EXCEPT ![f] = <<>>]
  /\ rpc' = [rpc EXCEPT ![f] = IF rpc[f] = "send" THEN "scan" ELSE "exit"]
  /\ UNCHANGED <<pos, sema, wgR, bclosed, wgW, rchan, rclosed>>
  /\ UNCH_O /\ UNCH_W /\ UNCH_C /\ UNCH_CNT

ConsumerC ==
  /\ Consumer
  /\ cseq' = IF rchan # <<>> THEN cseq \o Head(rchan) ELSE cseq

StepC ==
  \/ (Opener \/ (\E f \in 1..NF : ReaderScan(f) \/ ReaderExit(f)) \/ (\E w \in 1..Workers : Worker(w)) \/ Closer)
       /\ UNCHANGED cseq
  \/ (\E f \in 1..NF : ReaderSendC(f)) /\ UNCHANGED cseq
  \/ ConsumerC
NextC == StepC \/ (Done /\ UNCHANGED cseq)
InitC == Init /\ cseq = <<>>
SpecC == InitC /\ [][NextC]_cvars

\* hides the ghosts of Pipeline
ViewC == <<View, cseq>>

\* ------------------------------------------------------------------ properties
\* batchStart advances by the length of the batch on every flush
AdvanceOK ==
  [][\A f \in 1..NF : (rpc[f] \in {"send", "final"} /\ rpc'[f] # rpc[f]) =>
        bstart'[f] = bstart[f] + Len(rbatch[f])]_cvars
\* the batch a reader sends starts right after the lines it has sent before
StartOK ==
  \A f \in 1..NF : rpc[f] \in {"send", "final"} => bstart[f] = pos[f] - Len(rbatch[f]) + 1
\* every match the consumer holds carries its true source and line number (LineNoOK covers the ones in flight)
ReceivedOK == \A i \in 1..Len(cseq) : cseq[i].src = cseq[i].id[1] /\ cseq[i].no = cseq[i].id[2]
\* one reader and one worker: the consumer sees the matches in input order
\* (files in the order they were named, lines in file order)
Before(a, b) == a[1] < b[1] \/ (a[1] = b[1] /\ a[2] < b[2])
OrderOK == (Workers = 1 /\ Readers = 1) =>
             \A i \in 1..(Len(cseq) - 1) : Before(cseq[i].id, cseq[i + 1].id)
\* at the end the consumer holds exactly the matched lines, each with its own number
FinalC == Terminated =>
  /\ Len(cseq) = Cardinality(OfClass("matched"))
  /\ {cseq[i].id : i \in 1..Len(cseq)} = OfClass("matched")
\* with the advance on every path this is the C01 model, step for step
SameAsPipeline == Init /\ [][Next]_vars
=============================================================================

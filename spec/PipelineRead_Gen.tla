--------------------------- MODULE PipelineRead_Gen ---------------------------
(* B1 generator for PipelineRead: every source script within the bounds with the  *)
(* lines the specification says the input has - LinesOf(everything the source     *)
(* delivered, the bytes that came together with the final error included) - and   *)
(* whether a hard error must be reported.  The driver plays the script to the     *)
(* real batcher (stdin path, real and shortened flush timer) as an io.Reader      *)
(* returning exactly these (n, err) results.                                       *)
EXTENDS PipelineRead, Json

Dump == PrintT("VFJ " \o ToJson([script |-> script, lines |-> LinesOf(Delivered(script)),
                                 hard |-> IF HardErr(script) THEN 1 ELSE 0,
                                 \* bytes that arrive in the same Read as the error
                                 tail |-> Len(script[Len(script)].d)]))
GNext == UNCHANGED rvars
=============================================================================

---------------------------- MODULE ExprStartup ----------------------------
(* C10 - the MOMENT at which a funcs-file definition is compiled.                 *)
(*                                                                                *)
(* A run of rare is a start-up script (main.go, app.Before) followed by one       *)
(* compilation of the user's expression and its evaluations:                      *)
(*     apply the global switches (--noformat, --color/--nocolor, --noload, --nounicode)        *)
(*     load the funcs files in the order given (--funcs f1 --funcs f2 /           *)
(*        RARE_FUNC_FILES=f1,f2), ONE compiler for all of them, definition by      *)
(*        definition: compile the body (always optimising), register the name     *)
(*     compile the expression (optimising or not), evaluate it                    *)
(* Two things are in force at the moment a body is compiled and are frozen into   *)
(* the compiled function:                                                         *)
(*   - the FUNCTION TABLE: a call {h ..} inside a body is resolved when the body  *)
(*     is compiled (keyBuilder.go Compile: s.functions[name]) - to the latest     *)
(*     definition of h that compiled BEFORE this one; a later re-definition of h  *)
(*     (further down, or in a second funcs file) changes what the expression and  *)
(*     later definitions see, never an earlier body;                              *)
(*   - the ENVIRONMENT: helpers read process-wide switches when they are          *)
(*     evaluated (humanize.Enabled, color.Enabled, stdlib.DisableLoad, termunicode.UnicodeEnabled); the       *)
(*     optimiser evaluates constant parts of a body while the file is loaded, so  *)
(*     their value is the one of the environment of THAT moment.                  *)
(*                                                                                *)
(* Abstract layer (no compiler, no optimiser, no moments): "a function loaded     *)
(* from a funcs file behaves exactly like its body written inline":               *)
(*     Inline(t, k)  the tree t with every funcs-file call replaced by the body   *)
(*                   of the latest good definition before position k, {i}         *)
(*                   replaced by the i-th argument, missing arguments empty       *)
(*     ValP(t, m, R) the value of a call-free tree on match m in the RUN's        *)
(*                   environment R (the switches as the command line sets them)   *)
(*     Expected      = ValP(Inline(expr, n + 1), m, R), or ERR when the inlined   *)
(*                   text does not compile in R                                   *)
(* Implementation-shaped layer: the start-up machine below; Comp resolves names   *)
(* in the table of the moment, folds what a probe with the all-empty context      *)
(* finds constant (ExecT counts the look-ups) under the environment of the moment,*)
(* optionally remembers compiled texts; ExecT evaluates bound trees with lazy     *)
(* argument frames.  Law (Agrees): out = Expected for every scenario, optimising   *)
(* or not.  Refuted designs (constants):                                          *)
(*   Order = "funcs-first"  the files are loaded before the switches are applied: *)
(*                          constants of a body are folded under the DEFAULT      *)
(*                          environment ("values that depend on the environment   *)
(*                          are folded only under the run's environment")         *)
(*   Cache = "text"         the compiler remembers template text -> compiled and   *)
(*                          registering a function does not invalidate it: a      *)
(*                          body (or whole argument) spelt like an earlier one is *)
(*                          bound to the function table of the EARLIER moment     *)
EXTENDS Bytes, TLC

CONSTANTS Order,      \* "flags-first" (the code) | "funcs-first"
          Cache       \* "none" (the code) | "text"

\* ------------------------------------------------------------------ trees
Lit(v) == [t |-> "lit", f |-> "", v |-> v, a |-> <<>>]
Arg(i) == [t |-> "arg", f |-> "", v |-> <<i>>, a |-> <<>>]
Cat(a) == [t |-> "cat", f |-> "", v |-> <<>>, a |-> a]
Call(f, a) == [t |-> "call", f |-> f, v |-> <<>>, a |-> a]
Bound(j, a) == [t |-> "bound", f |-> "", v |-> <<j>>, a |-> a]      \* compiled: a call of definition number j
Missing == [t |-> "missing", f |-> "", v |-> <<>>, a |-> <<>>]     \* a name nothing defines
Builtins == {"hi", "color", "load", "bar"}

ERR == <<-1>>
ErrNum == <<60, 66, 65, 68, 45, 84, 89, 80, 69, 62>>               \* <BAD-TYPE>
ESC == 27
ColorCode(name) ==                                                   \* \x1b[3Xm
  CASE name = <<114, 101, 100>> -> <<ESC, 91, 51, 49, 109>>          \* red
    [] name = <<98, 108, 117, 101>> -> <<ESC, 91, 51, 52, 109>>      \* blue
    [] OTHER -> <<>>
Reset == <<ESC, 91, 48, 109>>
SecretName == <<99, 49, 48, 115, 101, 99, 46, 116, 120, 116>>       \* c10sec.txt
SecretText == <<115, 101, 99, 114, 101, 116>>                       \* secret

\* ------------------------------------------------------------------ environment
Env == [fmt : BOOLEAN, col : BOOLEAN, load : BOOLEAN, uni : BOOLEAN]
DefaultEnv == [fmt |-> TRUE, col |-> FALSE, load |-> TRUE, uni |-> TRUE]          \* colour is off when the output is a pipe
ApplyFlags(fls, e) ==
  LET fl == {fls[i] : i \in 1..Len(fls)} IN
  [fmt |-> e.fmt /\ "noformat" \notin fl,
   col |-> IF "nocolor" \in fl THEN FALSE ELSE IF "color" \in fl THEN TRUE ELSE e.col,
   load |-> e.load /\ "noload" \notin fl,
   uni |-> e.uni /\ "nounicode" \notin fl]

\* humanize.Hi32: groups of three digits
RECURSIVE Group3(_)
Group3(d) == IF Len(d) <= 3 THEN d ELSE Group3(SubSeq(d, 1, Len(d) - 3)) \o <<44>> \o SubSeq(d, Len(d) - 2, Len(d))
Hi(s, e) ==
  IF ~ParseIntOK(s) THEN ErrNum
  ELSE LET n == ParseIntVal(s) IN
       IF ~e.fmt THEN Itoa(n) ELSE IF n < 0 THEN <<45>> \o Group3(NatDigits(0 - n)) ELSE Group3(NatDigits(n))
\* {bar val max len}: termunicode.BarWrite; domain: val <= 0 or val >= max > 0 (an empty or a full bar; partial blocks are not modelled)
RECURSIVE Repeat(_, _)
Repeat(b, n) == IF n <= 0 THEN <<>> ELSE b \o Repeat(b, n - 1)
Bar(v, mx, ln, e) ==
  IF ~ParseIntOK(v) THEN ErrNum
  ELSE Repeat(IF e.uni THEN <<226, 150, 136>> ELSE <<124>>, IF ParseIntVal(v) >= ParseIntVal(mx) THEN ParseIntVal(ln) ELSE 0)
Color(name, s, e) == IF ~e.col THEN s ELSE ColorCode(name) \o s \o (IF HasSuffix(s, Reset) THEN <<>> ELSE Reset)

\* ------------------------------------------------------------------ abstract layer
\* a scenario: [flags, files (sequence of sequences of [name, body]), expr, m, opt]
DefsOf(files) == Flatten(files)

RECURSIVE Subst(_, _)
Subst(t, A) ==
  CASE t.t = "arg" -> IF t.v[1] < Len(A) THEN A[t.v[1] + 1] ELSE Lit(<<>>)
    [] t.t \in {"cat", "call"} -> [t EXCEPT !.a = [i \in 1..Len(t.a) |-> Subst(t.a[i], A)]]
    [] OTHER -> t

\* does a call-free tree compile in environment R?  (load is refused when loading is disabled, and reads only a constant name)
RECURSIVE CompilesP(_, _)
CompilesP(t, R) ==
  CASE t.t = "missing" -> FALSE
    [] t.t = "call" -> /\ \A i \in 1..Len(t.a) : CompilesP(t.a[i], R)
                       /\ t.f = "load" => (R.load /\ t.a[1].t = "lit" /\ t.a[1].v = SecretName)
                       /\ t.f = "color" => (t.a[1].t = "lit" /\ ColorCode(t.a[1].v) # <<>>)
                       /\ t.f = "bar" => (t.a[2].t = "lit" /\ ParseIntOK(t.a[2].v) /\ t.a[3].t = "lit" /\ ParseIntOK(t.a[3].v))
    [] t.t = "cat" -> \A i \in 1..Len(t.a) : CompilesP(t.a[i], R)
    [] OTHER -> TRUE

\* Latest(D, name, k, R): the last definition of name before position k whose inlined body compiles (0: none)
RECURSIVE InlineD(_, _, _, _), GoodD(_, _, _), LatestD(_, _, _, _)
LatestD(D, name, k, R) ==
  IF k <= 1 THEN 0 ELSE IF D[k - 1].name = name /\ GoodD(D, k - 1, R) THEN k - 1 ELSE LatestD(D, name, k - 1, R)
InlineD(D, t, k, R) ==
  CASE t.t = "call" /\ t.f \in Builtins -> [t EXCEPT !.a = [i \in 1..Len(t.a) |-> InlineD(D, t.a[i], k, R)]]
    [] t.t = "call" -> LET j == LatestD(D, t.f, k, R) IN
                       IF j = 0 THEN Missing
                       ELSE Subst(InlineD(D, D[j].body, j, R), [i \in 1..Len(t.a) |-> InlineD(D, t.a[i], k, R)])
    [] t.t = "cat" -> [t EXCEPT !.a = [i \in 1..Len(t.a) |-> InlineD(D, t.a[i], k, R)]]
    [] OTHER -> t
GoodD(D, j, R) == CompilesP(InlineD(D, D[j].body, j, R), R)

RECURSIVE ValP(_, _, _)
ValP(t, m, R) ==
  CASE t.t = "lit" -> t.v
    [] t.t = "arg" -> IF t.v[1] < Len(m) THEN m[t.v[1] + 1] ELSE <<>>
    [] t.t = "cat" -> Flatten([i \in 1..Len(t.a) |-> ValP(t.a[i], m, R)])
    [] t.t = "call" /\ t.f = "hi" -> Hi(ValP(t.a[1], m, R), R)
    [] t.t = "call" /\ t.f = "color" -> Color(t.a[1].v, ValP(t.a[2], m, R), R)
    [] t.t = "call" /\ t.f = "load" -> SecretText
    [] t.t = "call" /\ t.f = "bar" -> Bar(ValP(t.a[1], m, R), t.a[2].v, t.a[3].v, R)
    [] OTHER -> ERR

RunEnv(sc) == ApplyFlags(sc.flags, DefaultEnv)
InlinedExpr(sc) == LET D == DefsOf(sc.files) IN InlineD(D, sc.expr, Len(D) + 1, RunEnv(sc))
Expected(sc) == LET it == InlinedExpr(sc) IN IF CompilesP(it, RunEnv(sc)) THEN ValP(it, sc.m, RunEnv(sc)) ELSE ERR

\* ------------------------------------------------------------------ implementation-shaped layer
\* frames: TopFrame = the match itself | Frame(args, parent) = lazySubContext (arguments evaluated lazily in the caller's frame)
TopFrame == [top |-> TRUE, args |-> <<>>, parent |-> <<>>]
Frame(args, parent) == [top |-> FALSE, args |-> args, parent |-> parent]
\* ExecT returns [v, n]: value and number of look-ups that reached the match (the counting context of the probe)
RECURSIVE ExecT(_, _, _, _, _), ExecAll(_, _, _, _, _)
ExecAll(cs, fr, m, e, regs) ==
  IF cs = <<>> THEN [v |-> <<>>, n |-> 0]
  ELSE LET h == ExecT(cs[1], fr, m, e, regs)  r == ExecAll(Tail(cs), fr, m, e, regs) IN [v |-> h.v \o r.v, n |-> h.n + r.n]
ExecT(c, fr, m, e, regs) ==
  CASE c.t = "lit" -> [v |-> c.v, n |-> 0]
    [] c.t = "arg" -> IF fr.top THEN [v |-> IF c.v[1] < Len(m) THEN m[c.v[1] + 1] ELSE <<>>, n |-> 1]
                      ELSE IF c.v[1] < Len(fr.args) THEN ExecT(fr.args[c.v[1] + 1], fr.parent, m, e, regs)
                      ELSE [v |-> <<>>, n |-> 0]
    [] c.t = "cat" -> ExecAll(c.a, fr, m, e, regs)
    [] c.t = "call" /\ c.f = "hi" -> LET x == ExecT(c.a[1], fr, m, e, regs) IN [v |-> Hi(x.v, e), n |-> x.n]
    [] c.t = "call" /\ c.f = "color" -> LET x == ExecT(c.a[2], fr, m, e, regs) IN [v |-> Color(c.a[1].v, x.v, e), n |-> x.n]
    [] c.t = "call" /\ c.f = "bar" -> LET x == ExecT(c.a[1], fr, m, e, regs) IN [v |-> Bar(x.v, c.a[2].v, c.a[3].v, e), n |-> x.n]
    [] c.t = "call" /\ c.f = "load" -> [v |-> SecretText, n |-> 0]       \* read when compiled; kept in the stage
    [] c.t = "bound" -> ExecT(regs[c.v[1]], Frame(c.a, fr), m, e, regs)
    [] OTHER -> [v |-> ERR, n |-> 0]

\* Comp(t, tab, e, opt, cache, regs): [ok, c].  tab: name -> definition number (0 = not defined); names are resolved NOW,
\* constants are folded NOW (under e); cache: set of [t, c] remembered by the compiler (Cache = "text")
Hit(t, cache) == {x \in cache : x.t = t}
TabOf(tab, f) == IF f \in DOMAIN tab THEN tab[f] ELSE 0
\* CompText = KeyBuilder.Compile(text): entered with a whole body and with every whole argument of a statement (the cache is
\* consulted here); CompNode = one statement / literal inside that text
RECURSIVE CompText(_, _, _, _, _, _), CompNode(_, _, _, _, _, _)
CompText(t, tab, e, opt, cache, regs) ==
  IF Cache = "text" /\ Hit(t, cache) # {} THEN [ok |-> TRUE, c |-> (CHOOSE x \in Hit(t, cache) : TRUE).c]
  ELSE IF t.t = "cat"
       THEN LET kids == [i \in 1..Len(t.a) |-> CompNode(t.a[i], tab, e, opt, cache, regs)] IN
            [ok |-> \A i \in 1..Len(t.a) : kids[i].ok, c |-> [t EXCEPT !.a = [i \in 1..Len(t.a) |-> kids[i].c]]]
       ELSE CompNode(t, tab, e, opt, cache, regs)
CompNode(t, tab, e, opt, cache, regs) ==
  LET fold(c) == IF ~opt THEN c ELSE LET p == ExecT(c, TopFrame, <<>>, e, regs) IN IF p.n = 0 THEN Lit(p.v) ELSE c
      kids == [i \in 1..Len(t.a) |-> CompText(t.a[i], tab, e, opt, cache, regs)]
      kok == \A i \in 1..Len(t.a) : kids[i].ok
      kc == [i \in 1..Len(t.a) |-> kids[i].c]
  IN CASE t.t \in {"lit", "arg"} -> [ok |-> TRUE, c |-> t]
       [] t.t = "cat" -> LET ks == [i \in 1..Len(t.a) |-> CompNode(t.a[i], tab, e, opt, cache, regs)] IN
                         [ok |-> \A i \in 1..Len(t.a) : ks[i].ok, c |-> [t EXCEPT !.a = [i \in 1..Len(t.a) |-> ks[i].c]]]
       [] t.t = "call" /\ t.f = "load" ->
            LET ok == kok /\ e.load /\ t.a[1].t = "lit" /\ t.a[1].v = SecretName IN [ok |-> ok, c |-> IF ok THEN Lit(SecretText) ELSE t]
       [] t.t = "call" /\ t.f = "color" ->
            LET ok == kok /\ t.a[1].t = "lit" /\ ColorCode(t.a[1].v) # <<>> IN [ok |-> ok, c |-> IF ok THEN fold([t EXCEPT !.a = kc]) ELSE t]
       [] t.t = "call" /\ t.f = "bar" ->
            LET ok == kok /\ kc[2].t = "lit" /\ ParseIntOK(kc[2].v) /\ kc[3].t = "lit" /\ ParseIntOK(kc[3].v) IN
            [ok |-> ok, c |-> IF ok THEN fold([t EXCEPT !.a = kc]) ELSE t]
       [] t.t = "call" /\ t.f \in Builtins -> [ok |-> kok, c |-> IF kok THEN fold([t EXCEPT !.a = kc]) ELSE t]
       [] t.t = "call" -> IF TabOf(tab, t.f) = 0 THEN [ok |-> FALSE, c |-> t]
                          ELSE [ok |-> kok, c |-> IF kok THEN fold(Bound(tab[t.f], kc)) ELSE t]
       [] OTHER -> [ok |-> FALSE, c |-> t]
Comp(t, tab, e, opt, cache, regs) == CompText(t, tab, e, opt, cache, regs)

\* every text Compile() is entered with while t is compiled (the body itself, every argument, recursively)
RECURSIVE Texts(_), ArgTexts(_)
ArgTexts(t) == IF t.t \in {"call", "cat"}
               THEN UNION {IF t.t = "call" THEN Texts(t.a[i]) ELSE ArgTexts(t.a[i]) : i \in 1..Len(t.a)} ELSE {}
Texts(t) == {t} \cup ArgTexts(t)

CONSTANT Scenarios
VARIABLES sc, pc, env, tab, regs, cache, out
vars == <<sc, pc, env, tab, regs, cache, out>>
Names(s) == {DefsOf(s.files)[i].name : i \in 1..Len(DefsOf(s.files))}
NDefs == Len(DefsOf(sc.files))

Init ==
  /\ sc \in Scenarios
  /\ pc = IF Order = "flags-first" THEN <<"flags", 0>> ELSE <<"defs", 1>>
  /\ env = DefaultEnv
  /\ tab = [x \in Names(sc) |-> 0]
  /\ regs = <<>>
  /\ cache = {}
  /\ out = <<>>

AfterFlags == IF Order = "flags-first" THEN <<"defs", 1>> ELSE <<"main", 0>>
AfterDefs == IF Order = "flags-first" THEN <<"main", 0>> ELSE <<"flags", 0>>
Flags ==
  /\ pc[1] = "flags"
  /\ env' = ApplyFlags(sc.flags, env)
  /\ pc' = AfterFlags
  /\ UNCHANGED <<sc, tab, regs, cache, out>>
\* one definition: compile the body with the funcs compiler (always optimising), register it under its name
Define ==
  /\ pc[1] = "defs"
  /\ IF pc[2] > NDefs THEN pc' = AfterDefs /\ UNCHANGED <<tab, regs, cache>>
     ELSE LET d == DefsOf(sc.files)[pc[2]]
              r == Comp(d.body, tab, env, TRUE, cache, regs) IN
          /\ pc' = <<"defs", pc[2] + 1>>
          /\ regs' = Append(regs, r.c)                                  \* (an entry of a failed definition is never referenced)
          /\ tab' = IF r.ok THEN [tab EXCEPT ![d.name] = pc[2]] ELSE tab
          /\ cache' = IF r.ok /\ Cache = "text"
                      THEN cache \cup {[t |-> x, c |-> Comp(x, tab, env, TRUE, cache, regs).c] : x \in Texts(d.body)}
                      ELSE cache
  /\ UNCHANGED <<sc, env, out>>
\* the command: a fresh compiler over builtins + registered functions; compile, evaluate
Main ==
  /\ pc[1] = "main"
  /\ LET r == Comp(sc.expr, tab, env, sc.opt, {}, regs) IN
     out' = IF r.ok THEN ExecT(r.c, TopFrame, sc.m, env, regs).v ELSE ERR
  /\ pc' = <<"done", 0>>
  /\ UNCHANGED <<sc, env, tab, regs, cache>>
Next == Flags \/ Define \/ Main
Spec == Init /\ [][Next]_vars /\ WF_vars(Next)

\* ------------------------------------------------------------------ laws
Agrees == pc[1] = "done" => out = Expected(sc)
\* every registered definition is bound as the abstract layer says: called on {0} it has the value of its inlined body
BindsAtDefinition ==
  pc[1] = "main" =>
    \A j \in 1..NDefs :
      LET D == DefsOf(sc.files) IN
      (GoodD(D, j, RunEnv(sc)) /\ Order = "flags-first") =>
         ExecT(Bound(j, <<Arg(0)>>), TopFrame, sc.m, env, regs).v = ValP(Subst(InlineD(D, D[j].body, j, RunEnv(sc)), <<Arg(0)>>), sc.m, RunEnv(sc))
\* the environment in force when anything is folded is the run's
FoldsUnderRunEnv == (pc[1] = "defs" /\ pc[2] <= NDefs) => env = RunEnv(sc)
Terminates == <>(pc[1] = "done")
=============================================================================

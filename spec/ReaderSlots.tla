------------------------------ MODULE ReaderSlots ------------------------------
(* C06 / C05: the reader slots of batchers.OpenFilesToChan, PROVED with TLAPS for *)
(* any number of input files N and any number of slots R (--readers): at no time  *)
(* are more than R inputs open, every slot that is taken belongs to exactly one   *)
(* live reader goroutine (so a slot is never leaked - the invariant a "forgotten   *)
(* release on the open-error path" breaks), and when the dispatcher is done and    *)
(* the goroutines are gone all slots are free and every input was handled exactly  *)
(* once.  Counters instead of goroutine identities (the goroutines are            *)
(* interchangeable):                                                               *)
(*   todo    inputs the dispatcher has not handed out yet                          *)
(*   held    slots taken (len(sema))                                               *)
(*   started goroutines that hold a slot and have not opened their input yet       *)
(*   reading goroutines with an open input                                         *)
(*   opened  inputs currently open (descriptors)                                   *)
(*   done    inputs finished (read to the end, failed while reading, or not        *)
(*           openable - counted as read error)                                     *)
(* InputsLife.tla (TLC) is the same protocol with identities, contents and         *)
(* faults for small N and R.                                                       *)
EXTENDS Naturals, TLAPS
CONSTANTS N, R
ASSUME NR == N \in Nat /\ R \in Nat /\ R > 0
VARIABLES todo, held, started, reading, opened, done
vars == <<todo, held, started, reading, opened, done>>

Init == todo = N /\ held = 0 /\ started = 0 /\ reading = 0 /\ opened = 0 /\ done = 0

\* sema <- struct{}{}; wg.Add(1); go func(filename)
Dispatch == /\ todo > 0 /\ held < R
            /\ todo' = todo - 1 /\ held' = held + 1 /\ started' = started + 1
            /\ UNCHANGED <<reading, opened, done>>
\* openFileToReader succeeds
OpenOK ==   /\ started > 0
            /\ started' = started - 1 /\ reading' = reading + 1 /\ opened' = opened + 1
            /\ UNCHANGED <<todo, held, done>>
\* openFileToReader fails: the deferred release runs all the same
OpenFail == /\ started > 0
            /\ started' = started - 1 /\ held' = held - 1 /\ done' = done + 1
            /\ UNCHANGED <<todo, reading, opened>>
\* end of input or read error: Close, <-sema, wg.Done()
Finish ==   /\ reading > 0
            /\ reading' = reading - 1 /\ opened' = opened - 1 /\ held' = held - 1 /\ done' = done + 1
            /\ UNCHANGED <<todo, started>>

Next == Dispatch \/ OpenOK \/ OpenFail \/ Finish
Spec == Init /\ [][Next]_vars

TypeOK == todo \in Nat /\ held \in Nat /\ started \in Nat /\ reading \in Nat /\ opened \in Nat /\ done \in Nat
\* the clauses
Bounded == opened <= R                                     \* never more than --readers inputs open
NoLeak == held = started + reading                         \* every taken slot belongs to a live goroutine
Once == todo + started + reading + done = N                \* every input is in exactly one stage
AllFree == (todo = 0 /\ started = 0 /\ reading = 0) => (held = 0 /\ opened = 0 /\ done = N)
Safe == Bounded /\ NoLeak /\ Once /\ AllFree
IndInv == TypeOK /\ NoLeak /\ Once /\ opened = reading /\ held <= R

THEOREM Safety == Spec => []Safe
<1>1. Init => IndInv
  BY NR DEF Init, IndInv, TypeOK, NoLeak, Once
<1>2. IndInv /\ [Next]_vars => IndInv'
  <2> SUFFICES ASSUME IndInv, [Next]_vars PROVE IndInv'
    OBVIOUS
  <2>1. CASE Dispatch BY <2>1, NR DEF IndInv, TypeOK, NoLeak, Once, Dispatch
  <2>2. CASE OpenOK BY <2>2, NR DEF IndInv, TypeOK, NoLeak, Once, OpenOK
  <2>3. CASE OpenFail BY <2>3, NR DEF IndInv, TypeOK, NoLeak, Once, OpenFail
  <2>4. CASE Finish BY <2>4, NR DEF IndInv, TypeOK, NoLeak, Once, Finish
  <2>5. CASE UNCHANGED vars BY <2>5 DEF IndInv, TypeOK, NoLeak, Once, vars
  <2> QED BY <2>1, <2>2, <2>3, <2>4, <2>5 DEF Next
<1>3. IndInv => Safe
  BY NR DEF IndInv, Safe, Bounded, NoLeak, Once, AllFree, TypeOK
<1> QED
  BY <1>1, <1>2, <1>3, PTL DEF Spec
=============================================================================

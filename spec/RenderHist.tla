----------------------------- MODULE RenderHist -----------------------------
(* C14 - what is on the screen after a HISTORY of renders by one long-lived        *)
(* renderer instance whose aggregated data grows, shrinks and changes between the   *)
(* renders.                                                                         *)
(*                                                                                  *)
(* RenderInst.tla follows single calls (WriteForLine, WriteBar, ...) on the         *)
(* histogram and the bar graph.  The table-shaped renderers (heat map, sparkline,   *)
(* table) and the bar graph with its legend are driven by the commands one whole    *)
(* aggregated state at a time: `data op; render; footers` again and again, on the   *)
(* same instance.  This module has                                                  *)
(*                                                                                  *)
(*   the data      a table aggregator as its readers see it: a partial function     *)
(*                 <<column, row>> -> Int; Sample adds to a cell (creating it),     *)
(*                 Trim drops columns (a row whose cells all lay there goes too:    *)
(*                 rows DISAPPEAR, cmd/spark.go does it before every render)        *)
(*   the oracle    what the property demands of the screen after a render of the    *)
(*                 PRESENT data (Want..): legend keys of the present bounds under   *)
(*                 the chosen formatter, header, one cell per displayed column      *)
(*                 with the glyph of its bucket, numbers under the formatter with   *)
(*                 the present bounds, `(n more)` = rows/columns not shown, legend  *)
(*                 entry i in the glyph and colour bar segment i is drawn with;     *)
(*                 footers directly below the drawing.  Blanks are layout: lines    *)
(*                 are compared squeezed (runs of blanks = one, none at the ends)   *)
(*   the machines  Heatmap, Spark and DataTable over a TableWriter, BarGraph with   *)
(*                 SetKeys, written like the code, with everything they keep from   *)
(*                 one render to the next (bounds, legend, key column width,        *)
(*                 column widths, rows in use, row cache, footer offset, running    *)
(*                 maximum, stored rows)                                            *)
(*   the laws      HistOK, after every render of every history: no panic; the       *)
(*                 squeezed lines of the drawing = Want(present data); the footers  *)
(*                 sit directly below; FreshEq: the drawing equals (squeezed) what  *)
(*                 a FRESH instance draws for the present data                      *)
(*   the controls  designs the laws must reject: legend redrawn only when the       *)
(*                 bounds change (fixed --min/--max are handed over before scaler   *)
(*                 and formatter); footer offset never given back; legend index     *)
(*                 reduced by the length of the other palette; rows in use never    *)
(*                 given back (the sparkline before its fix); bounds cached by the  *)
(*                 table                                                            *)
EXTENDS Render

CONSTANTS HSetups,        \* the <<machine, policies>> pairs a run covers: HCodeSetups | HControlSetups
          MaxRenders,     \* renders per history
          HProfile        \* size of the alphabets (1 small .. 3 large)

VARIABLES hm,             \* "heat" | "spark" | "table" | "bars"
          hpol,           \* policies of this instance
          cf,             \* configuration (limits, fixed bounds, formatter template, colour, ...)
          k,              \* renders so far
          data,           \* the aggregated data: [<<c, r>> -> Int] (c, r: indices into the key tables)
          ri,             \* the renderer instance (what it keeps between renders)
          scr,            \* the screen (lines from 0), VWrite-wise
          ft,             \* footers written after the last render: set of <<idx, text>>
          pn,             \* a call failed (index out of range)
          hop             \* the data operation of this step (for the generator)
hvars == <<hm, hpol, cf, k, data, ri, scr, ft, pn, hop>>

\* ------------------------------------------------------------- policies
HMachines == {"heat", "spark", "table", "bars"}
HCodePol == [legend |-> "always", footoff |-> "reset", barkey |-> "own", active |-> "truncate", bounds |-> "fresh"]
HCodeSetups == {<<m, HCodePol>> : m \in HMachines}
HOnlyHeat == {<<"heat", HCodePol>>}   HOnlySpark == {<<"spark", HCodePol>>}   HOnlyTable == {<<"table", HCodePol>>}   HOnlyBars == {<<"bars", HCodePol>>}
HControlList == <<
  <<"heat",  [HCodePol EXCEPT !.legend = "onchange"]>>,    \* the legend is redrawn only when (min, max) change
  <<"spark", [HCodePol EXCEPT !.footoff = "sticky"]>>,     \* the `(n more)` slot is never given back
  <<"bars",  [HCodePol EXCEPT !.barkey = "ascii16"]>>,     \* the legend index is reduced once, by the length of the ascii table
  <<"spark", [HCodePol EXCEPT !.active = "sticky"]>>,      \* rows that left the data stay on the screen (before the fix)
  <<"table", [HCodePol EXCEPT !.bounds = "cached"]>> >>    \* the bounds handed to the formatter are those of the first draw
HControlSetups == {HControlList[i] : i \in 1..Len(HControlList)}

\* ------------------------------------------------------------- squeezing
RECURSIVE SqFrom(_, _, _, _)
SqFrom(s, i, acc, pend) ==
  IF i > Len(s) THEN acc
  ELSE IF s[i] = 32 THEN SqFrom(s, i + 1, acc, acc # <<>>)
  ELSE SqFrom(s, i + 1, acc \o (IF pend THEN <<32>> ELSE <<>>) \o <<s[i]>>, FALSE)
Squeeze(s) == SqFrom(s, 1, <<>>, FALSE)
LeadBlanks(s) == SkipSp(s, 1) - 1

\* ------------------------------------------------------------- the data
CMax == IF HProfile = 1 THEN 2 ELSE 3
RMax == 3
ColKey(c) == <<116, 48 + c>>                                       \* t1 t2 t3  (byte order = index order)
RowKey(r) == IF r = 1 THEN <<97>> ELSE IF r = 2 THEN <<98, 98>> ELSE IF r = 3 THEN <<99>> ELSE [i \in 1..6 |-> 100]   \* a bb c dddddd
SubKey(i) == <<107, 48 + (i \div 10), 48 + (i % 10)>>               \* k01 .. k29
Deltas == IF HProfile = 1 THEN {3, -1} ELSE {1, 4, -2}
NoData == [p \in {} |-> 0]
DCols(d) == {p[1] : p \in DOMAIN d}
DRows(d) == {p[2] : p \in DOMAIN d}
DVal(d, c, r) == IF <<c, r>> \in DOMAIN d THEN d[<<c, r>>] ELSE 0
DSample(d, c, r, x) == [p \in DOMAIN d \cup {<<c, r>>} |-> IF p = <<c, r>> THEN DVal(d, c, r) + x ELSE d[p]]
DTrim(d, D) == [p \in {q \in DOMAIN d : q[1] \notin D} |-> d[p]]
SortSet(S) == SetToSortSeq(S, LAMBDA a, b : a < b)
OCols(d) == SortSet(DCols(d))
ORows(d) == SortSet(DRows(d))
\* TableAggregator.ComputeMinMax: over rows x columns, an absent cell counts 0
DMinMax(d) ==
  LET all == {DVal(d, c, r) : c \in DCols(d), r \in DRows(d)}
  IN IF all = {} THEN <<0, 0>> ELSE <<CHOOSE x \in all : \A y \in all : x <= y, CHOOSE x \in all : \A y \in all : x >= y>>
RowSum(d, r) == LET oc == OCols(d) IN SeqSum([j \in 1..Len(oc) |-> DVal(d, oc[j], r)])
ColSum(d, c) == LET orr == ORows(d) IN SeqSum([j \in 1..Len(orr) |-> DVal(d, c, orr[j])])
AllSum(d) == LET oc == OCols(d) IN SeqSum([j \in 1..Len(oc) |-> ColSum(d, oc[j])])
DApply(d, op) ==
  IF op[1] = "s" THEN DSample(d, op[2], op[3], op[4])
  ELSE IF op[1] = "t" THEN DTrim(d, op[2])
  ELSE IF op[1] = "b" THEN                                          \* a burst: op[4][i] into sub-key i of row op[2], i = 1..op[3]
    [p \in DOMAIN d \cup {<<i, op[2]>> : i \in 1..op[3]} |-> IF p[2] = op[2] /\ p[1] <= op[3] THEN DVal(d, p[1], p[2]) + op[4][p[1]] ELSE d[p]]
  ELSE d

\* ------------------------------------------------------------- formatter
sHi == <<>>                                                         \* the default formatter (humanize)
FmtOf(f, v, mn, mx) == IF f = sHi THEN Hi(v) ELSE FmtTpl(f, v, mn, mx)
hTplA == << PartVal, <<117>> >>                                     \* {0}u        (does not read the bounds)
hTplB == << PartVal, <<47>>, PartMin, <<126>>, PartMax >>           \* {0}/{min}~{max}

\* ------------------------------------------------------------- safe quotients
\* the code scales with binary floating point; an exact integer product p*m/q with q not a power of two may come out one
\* lower.  Histories that need such a product are left to the recorded screens (Render_Trace accepts either).
IsPow2(q) == q \in {1, 2, 4, 8, 16, 32, 64, 128, 256}
SafeQ(u, m) == u[1] = 0 \/ u[1] = u[2] \/ IsPow2(u[2]) \/ (u[1] * m) % u[2] # 0

\* =============================================================== ORACLE
\* ---- heat map
HeatBounds(c, d) == <<IF c.fmin THEN c.bmin ELSE DMinMax(d)[1], IF c.fmax THEN c.bmax ELSE DMinMax(d)[2]>>
HeatGlyph(v, b) == HeatAscii(BucketExact(HeatAsciiLen, LinScale(v, b[1], b[2])))
LegendBody(f, b) ==
  LET ks == LinScaleKeys(6, b[1], b[2])
  IN Flatten([i \in 1..Len(ks) |-> (IF i > 1 THEN <<32, 32, 32, 32>> ELSE <<>>) \o <<HeatGlyph(ks[i], b), 32>> \o FmtOf(f, ks[i], b[1], b[2])])
ShownCols(c, d) == SubSeq(OCols(d), 1, Shown(Len(OCols(d)), c.cols))
ShownRows(c, d) == SubSeq(ORows(d), 1, Shown(Len(ORows(d)), c.rows))
HiddenRows(c, d) == Len(ORows(d)) - Len(ShownRows(c, d))
MoreLines(c, d) == IF HiddenRows(c, d) > 0 THEN <<MoreNote(HiddenRows(c, d))>> ELSE <<>>
WantHeat(c, d) ==
  LET b == HeatBounds(c, d)
      sc == ShownCols(c, d)
  IN <<Squeeze(LegendBody(c.fmt, b)), Squeeze(HeatHeader([j \in 1..Len(OCols(d)) |-> ColKey(OCols(d)[j])], c.cols).txt)>>
     \o [i \in 1..Len(ShownRows(c, d)) |->
           LET r == ShownRows(c, d)[i] IN Squeeze(RowKey(r) \o <<32>> \o [j \in 1..Len(sc) |-> HeatGlyph(DVal(d, sc[j], r), b)])]
     \o MoreLines(c, d)
\* ---- sparkline: the LAST c.cols columns
SparkColsOf(c, d) == LET oc == OCols(d) IN SubSeq(oc, Len(oc) - Shown(Len(oc), c.cols) + 1, Len(oc))
SparkG(v, b) == SparkGlyph(BucketExact(SparkLen(FALSE), LinScale(v, b[1], b[2])), FALSE)
sFirst == <<70, 105, 114, 115, 116>>
sLast == <<76, 97, 115, 116>>
sTotal == <<84, 111, 116, 97, 108>>
SparkTitle(sc) ==
  LET a == ColKey(sc[1])   z == ColKey(sc[Len(sc)]) IN a \o Rep(46, Max2(0, Len(sc) - Len(a) - Len(z))) \o z
WantSpark(c, d) ==
  LET b == DMinMax(d)
      sc == SparkColsOf(c, d)
      F(v) == FmtOf(c.fmt, v, b[1], b[2])
  IN (IF sc = <<>> THEN <<>> ELSE <<Squeeze(sFirst \o <<32>> \o SparkTitle(sc) \o <<32>> \o sLast)>>)
     \o [i \in 1..Len(ShownRows(c, d)) |->
           LET r == ShownRows(c, d)[i]
           IN Squeeze(RowKey(r) \o <<32>> \o F(DVal(d, sc[1], r)) \o <<32>> \o [j \in 1..Len(sc) |-> SparkG(DVal(d, sc[j], r), b)]
                      \o <<32>> \o F(DVal(d, sc[Len(sc)], r)))]
     \o MoreLines(c, d)
\* ---- table
WantTable(c, d) ==
  LET b == IF c.fmt = sHi THEN <<0, 0>> ELSE DMinMax(d)
      sc == ShownCols(c, d)
      F(v) == FmtOf(c.fmt, v, b[1], b[2])
      cat(cells) == Squeeze(Flatten([i \in 1..Len(cells) |-> cells[i] \o <<32>>]))
  IN <<cat([j \in 1..Len(sc) |-> ColKey(sc[j])] \o (IF c.rowtot THEN <<sTotal>> ELSE <<>>))>>
     \o [i \in 1..Len(ShownRows(c, d)) |->
           LET r == ShownRows(c, d)[i]
           IN cat(<<RowKey(r)>> \o [j \in 1..Len(sc) |-> F(DVal(d, sc[j], r))] \o (IF c.rowtot THEN <<F(RowSum(d, r))>> ELSE <<>>))]
     \o (IF c.coltot THEN <<cat(<<sTotal>> \o [j \in 1..Len(sc) |-> F(ColSum(d, sc[j]))] \o (IF c.rowtot THEN <<F(AllSum(d))>> ELSE <<>>))>> ELSE <<>>)
\* ---- bar graph with its legend (columns of the data = sub-keys)
Yellow == <<27, 91, 51, 51, 109>>
ColorWrite(on, code, s) == IF on THEN code \o s \o ResetSeq ELSE s
BlockOf(c) == IF c.uni THEN FULL ELSE PIPE
\* the mark of sub-key i (from 0) in the legend: the glyph and the colour its bar segment is drawn with
KeyMark(c, i) == IF c.color THEN ColorWrite(TRUE, GroupColor(i), <<BlockOf(c)>>) ELSE <<AsciiKey(i)>>
BarsPrefixOf(d) == IF Len(OCols(d)) >= 1 THEN 1 ELSE 0              \* sub-key names are never empty here
RowValsO(d, oc, r) == [j \in 1..Len(oc) |-> DVal(d, oc[j], r)]
RowVals(d, r) == RowValsO(d, OCols(d), r)
RowMeasure(c, d, r) == LET vals == RowVals(d, r) IN IF c.stacked THEN SeqSum(vals) ELSE SeqMax(vals, 0)
WantBars(c, d, gmax) ==
  LET oc == OCols(d)
      orr == ORows(d)
      legend == Squeeze(Flatten([i \in 1..Len(oc) |-> <<32, 32>> \o KeyMark(c, i - 1) \o <<32>> \o SubKey(oc[i])]))
      F(v) == FmtOf(c.fmt, v, 0, gmax)
      kl == SeqMax([i \in 1..Len(orr) |-> Len(RowKey(orr[i]))], 4)    \* the key column (rows only grow): the padding is inside the key's colour
      keyOf(r) == ColorWrite(c.color, Yellow, PadR(RowKey(r), kl))
      rowLines(r) ==
        LET vals == RowValsO(d, oc, r) IN
        IF c.stacked THEN
          <<Squeeze(keyOf(r) \o <<32>> \o StackRaw(vals, gmax, 50, c.color, c.uni) \o <<32>> \o F(SeqSum(vals)))>>
        ELSE [i \in 1..Len(oc) |->
               Squeeze((IF i = 1 THEN keyOf(r) ELSE <<>>) \o <<32>>
                       \o ColorWrite(c.color, GroupColor(i - 1), BarExact(LinScale(vals[i], 0, gmax), 50, c.uni)) \o <<32>> \o F(vals[i]))]
  IN IF orr = <<>> THEN <<>>
     ELSE (IF Len(oc) >= 1 THEN <<legend>> ELSE <<>>) \o Flatten([i \in 1..Len(orr) |-> rowLines(orr[i])])

\* =============================================================== MACHINES
\* (an instance, screen) pair; a record, so that reading a component never leaves a function unevaluated
RS(r, s) == [r |-> r, s |-> s]
\* ---- TableWriter: [w : widths, act : rows in use, rows : the row cache (<<>> = never written)], maxCols = Len(w), maxRows = Len(rows)
TW0(maxCols, maxRows) == [w |-> [i \in 1..maxCols |-> 0], act |-> 0, rows |-> [i \in 1..maxRows |-> <<>>]]
RECURSIVE TWRewrite(_, _, _)
TWRewrite(tw, s, i) == IF i >= tw.act THEN s ELSE TWRewrite(tw, VWrite(s, i, TableLine(tw.rows[i + 1], tw.w)), i + 1)
\* returns RS(tw, screen)
TWWriteRow(tw, s, rowNum, cells) ==
  IF rowNum >= Len(tw.rows) THEN RS(tw, s)
  ELSE LET w1 == [i \in 1..Len(tw.w) |-> IF i <= Len(cells) THEN Max2(tw.w[i], Len(cells[i])) ELSE tw.w[i]]
           tw1 == [tw EXCEPT !.act = Max2(tw.act, rowNum + 1), !.rows[rowNum + 1] = cells, !.w = w1]
       IN IF w1 # tw.w THEN RS(tw1, TWRewrite(tw1, s, 0)) ELSE RS(tw1, VWrite(s, rowNum, TableLine(cells, w1)))
\* TableWriter.Truncate: the rows from `used` on leave the screen, the footers follow the remaining rows
RECURSIVE TWBlank(_, _, _)
TWBlank(s, i, to) == IF i >= to THEN s ELSE TWBlank(VWrite(s, i, <<>>), i + 1, to)
TWTruncate(tw, s, used) ==
  IF used >= tw.act THEN RS(tw, s)
  ELSE RS([tw EXCEPT !.act = used, !.rows = [i \in 1..Len(tw.rows) |-> IF i > used THEN <<>> ELSE tw.rows[i]]], TWBlank(s, used, tw.act))

\* ---- Heatmap.  ri = [mn, mx, kw, cur, has]
HeatLegendLine(kw, f, b) == Rep(32, kw + 1) \o LegendBody(f, b)
\* UpdateMinMax(min, max) with the formatter the instance holds at that moment
HeatUpdate(r, s, f, mn, mx) ==
  IF hpol.legend = "onchange" /\ r.has /\ mn = r.mn /\ mx = r.mx THEN RS(r, s)
  ELSE RS([r EXCEPT !.mn = mn, !.mx = mx, !.has = TRUE], VWrite(s, 0, HeatLegendLine(r.kw, f, <<mn, mx>>)))
\* NewHeatmap, then what cmd/heatmap.go does BEFORE it assigns the scaler and the formatter: fixed bounds are handed over
HeatSetup(c) ==
  LET r0 == [mn |-> 0, mx |-> 1, kw |-> 0, cur |-> 0, has |-> FALSE]
  IN IF c.fmin \/ c.fmax THEN HeatUpdate(r0, <<>>, sHi, IF c.fmin THEN c.bmin ELSE 0, IF c.fmax THEN c.bmax ELSE 0) ELSE RS(r0, <<>>)
RECURSIVE HeatRows(_, _, _, _, _, _)
HeatRows(r, s, c, d, rows, i) ==
  IF i > Len(rows) THEN RS(r, s)
  ELSE LET key == RowKey(rows[i])
           kw == Max2(r.kw, Len(key))
           sc == ShownCols(c, d)
           line == key \o Rep(32, kw - Len(key) + 1) \o [j \in 1..Len(sc) |-> HeatGlyph(DVal(d, sc[j], rows[i]), <<r.mn, r.mx>>)]
       IN HeatRows([r EXCEPT !.kw = kw], VWrite(s, 1 + i, line), c, d, rows, i + 1)
HeatRender(r, s, c, d) ==
  LET mm == DMinMax(d)
      u  == HeatUpdate(r, s, c.fmt, IF c.fmin THEN r.mn ELSE mm[1], IF c.fmax THEN r.mx ELSE mm[2])
      r1 == u.r
      hdr == Rep(32, r1.kw + 1) \o HeatHeader([j \in 1..Len(OCols(d)) |-> ColKey(OCols(d)[j])], c.cols).txt
      rr == HeatRows(r1, VWrite(u.s, 1, hdr), c, d, ShownRows(c, d), 1)
      R  == Len(ShownRows(c, d))
  IN IF HiddenRows(c, d) > 0 THEN RS([rr.r EXCEPT !.cur = 3 + R], VWrite(rr.s, 2 + R, MoreNote(HiddenRows(c, d))))
     ELSE RS([rr.r EXCEPT !.cur = 2 + R], rr.s)

\* ---- Spark over a TableWriter(4, rows+1).  ri = [tw, off]
RECURSIVE SparkRows(_, _, _, _, _, _)
SparkRows(tw, s, c, d, rows, i) ==
  IF i > Len(rows) THEN RS(tw, s)
  ELSE LET b == DMinMax(d)
           sc == SparkColsOf(c, d)
           r == rows[i]
           F(v) == FmtOf(c.fmt, v, b[1], b[2])
           cells == IF sc = <<>> THEN <<RowKey(r), <<>>, <<>>, <<>>>>
                    ELSE <<RowKey(r), F(DVal(d, sc[1], r)), [j \in 1..Len(sc) |-> SparkG(DVal(d, sc[j], r), b)], F(DVal(d, sc[Len(sc)], r))>>
           u == TWWriteRow(tw, s, i, cells)
       IN SparkRows(u.r, u.s, c, d, rows, i + 1)
SparkRender(r, s, c, d) ==
  LET sc == SparkColsOf(c, d)
      h  == IF sc = <<>> THEN RS(r.tw, s) ELSE TWWriteRow(r.tw, s, 0, <<<<>>, sFirst, SparkTitle(sc), sLast>>)
      rr == SparkRows(h.r, h.s, c, d, ShownRows(c, d), 1)
      R  == Len(ShownRows(c, d))
      tr == IF hpol.active = "truncate" THEN TWTruncate(rr.r, rr.s, IF sc = <<>> /\ R = 0 THEN 0 ELSE R + 1) ELSE rr
  IN IF HiddenRows(c, d) > 0 THEN RS([tw |-> tr.r, off |-> 1], VWrite(tr.s, tr.r.act, MoreNote(HiddenRows(c, d))))
     ELSE RS([tw |-> tr.r, off |-> IF hpol.footoff = "reset" THEN 0 ELSE r.off], tr.s)

\* ---- DataTable over a TableWriter(cols+2, rows+2).  ri = [tw, cached, cmn, cmx]
RECURSIVE TableRows(_, _, _, _, _, _, _)
TableRows(tw, s, c, d, b, rows, i) ==
  IF i > Len(rows) THEN RS(tw, s)
  ELSE LET sc == ShownCols(c, d)
           r == rows[i]
           F(v) == FmtOf(c.fmt, v, b[1], b[2])
           cells == <<RowKey(r)>> \o [j \in 1..Len(sc) |-> F(DVal(d, sc[j], r))] \o <<IF c.rowtot THEN F(RowSum(d, r)) ELSE <<>>>>
           u == TWWriteRow(tw, s, i, cells)
       IN TableRows(u.r, u.s, c, d, b, rows, i + 1)
TableRender(r, s, c, d) ==
  LET sc == ShownCols(c, d)
      b0 == IF c.fmt = sHi THEN <<0, 0>> ELSE DMinMax(d)
      b  == IF hpol.bounds = "cached" /\ r.cached THEN <<r.cmn, r.cmx>> ELSE b0
      F(v) == FmtOf(c.fmt, v, b[1], b[2])
      h  == TWWriteRow(r.tw, s, 0, <<<<>>>> \o [j \in 1..Len(sc) |-> ColKey(sc[j])] \o <<IF c.rowtot THEN sTotal ELSE <<>>>>)
      rr == TableRows(h.r, h.s, c, d, b, ShownRows(c, d), 1)
      R  == Len(ShownRows(c, d))
      tot == <<sTotal>> \o [j \in 1..Len(sc) |-> F(ColSum(d, sc[j]))] \o <<IF c.rowtot THEN F(AllSum(d)) ELSE <<>>>>
      tt == IF c.coltot THEN TWWriteRow(rr.r, rr.s, R + 1, tot) ELSE rr
  IN RS([tw |-> tt.r, cached |-> TRUE, cmn |-> b[1], cmx |-> b[2]], tt.s)

\* ---- BarGraph.  ri = [kl, mx, rows, maxRows, prefix, nsub, pan]
BarKeyOf(c, idx) ==                                                \* [pan, txt]
  IF hpol.barkey = "own" THEN [pan |-> FALSE, txt |-> KeyMark(c, idx)]
  ELSE LET j == idx % 16 IN                                         \* control: one reduction, by the length of the ascii table
       IF c.color THEN (IF j >= 12 THEN [pan |-> TRUE, txt |-> <<>>] ELSE [pan |-> FALSE, txt |-> ColorWrite(TRUE, GroupColor(j), <<BlockOf(c)>>)])
       ELSE [pan |-> FALSE, txt |-> <<AsciiKey(j)>>]
BarsSetKeys(r, s, c, names) ==
  IF names = <<>> THEN RS([r EXCEPT !.nsub = 0], s)
  ELSE LET marks == [i \in 1..Len(names) |-> BarKeyOf(c, i - 1)]
           line == Rep(32, r.kl + 2) \o Flatten([i \in 1..Len(names) |-> <<32, 32>> \o marks[i].txt \o <<32>> \o names[i]])
       IN IF \E i \in 1..Len(names) : marks[i].pan THEN RS([r EXCEPT !.pan = TRUE], s)
          ELSE RS([r EXCEPT !.nsub = Len(names), !.prefix = 1], VWrite(s, 0, line))
BarsKeyCol(r, c, key) == ColorWrite(c.color, Yellow, PadR(key, r.kl)) \o <<32, 32>>
RECURSIVE BarsSeg(_, _, _, _, _, _, _, _)
BarsSeg(ss, r, c, key, vals, mv, line0, i) ==
  IF i > Len(vals) THEN ss
  ELSE LET txt == (IF i = 1 THEN BarsKeyCol(r, c, key) ELSE Rep(32, r.kl + 2))
                  \o ColorWrite(c.color, GroupColor(i - 1), BarExact(LinScale(vals[i], 0, mv), 50, c.uni)) \o <<32>> \o FmtOf(c.fmt, vals[i], 0, mv)
           s1 == VWrite(ss, line0 + i - 1, txt)
       IN BarsSeg(s1, r, c, key, vals, mv, line0, i + 1)
BarsWriteOne(r, s, c, idx, key, vals) ==
  IF c.stacked THEN
    LET tot == SeqSum(vals)
        mv == Max2(r.mx, tot)
        line == BarsKeyCol(r, c, key) \o StackRaw(vals, mv, 50, c.color, c.uni) \o <<32, 32>> \o FmtOf(c.fmt, tot, 0, mv)
    IN RS([r EXCEPT !.mx = mv, !.maxRows = Max2(r.maxRows, idx + r.prefix + 1)], VWrite(s, idx + r.prefix, line))
  ELSE
    LET mv == Max2(r.mx, SeqMax(vals, 0))
        line0 == r.prefix + idx * r.nsub
    IN RS([r EXCEPT !.mx = mv, !.maxRows = Max2(r.maxRows, line0 + r.nsub)], BarsSeg(s, r, c, key, vals, mv, line0, 1))
RECURSIVE BarsRedraw(_, _, _, _)
BarsRedraw(r, s, c, i) ==
  IF i > Len(r.rows) THEN RS(r, s)
  ELSE LET u == BarsWriteOne(r, s, c, i - 1, r.rows[i].key, r.rows[i].vals) IN BarsRedraw(u.r, u.s, c, i + 1)
BarsWriteBar(r, s, c, idx, key, vals) ==
  LET m == IF c.stacked THEN SeqSum(vals) ELSE SeqMax(vals, 0)
      rows1 == r.rows \o [j \in 1..(idx + 1 - Len(r.rows)) |-> [key |-> <<>>, vals |-> <<>>]]
      r1 == [r EXCEPT !.kl = Max2(r.kl, Len(key)), !.rows = [rows1 EXCEPT ![idx + 1] = [key |-> key, vals |-> vals]]]
  IN IF m > r.mx THEN BarsRedraw([r1 EXCEPT !.mx = m], s, c, 1) ELSE BarsWriteOne(r1, s, c, idx, key, vals)
RECURSIVE BarsRowsFrom(_, _, _, _, _, _, _)
BarsRowsFrom(r, s, c, d, oc, orr, i) ==
  IF i > Len(orr) THEN RS(r, s)
  ELSE LET u == BarsWriteBar(r, s, c, i - 1, RowKey(orr[i]), RowValsO(d, oc, orr[i])) IN BarsRowsFrom(u.r, u.s, c, d, oc, orr, i + 1)
BarsRender(r, s, c, d) ==
  LET oc == OCols(d)
      u == BarsSetKeys(r, s, c, [j \in 1..Len(oc) |-> SubKey(oc[j])])
  IN IF u.r.pan THEN u ELSE BarsRowsFrom(u.r, u.s, c, d, oc, ORows(d), 1)

\* ---- one instance
Setup(m, c) ==
  CASE m = "heat"  -> HeatSetup(c)
    [] m = "spark" -> RS([tw |-> TW0(4, c.rows + 1), off |-> 0], <<>>)
    [] m = "table" -> RS([tw |-> TW0(c.cols + 2, c.rows + 2), cached |-> FALSE, cmn |-> 0, cmx |-> 0], <<>>)
    [] m = "bars"  -> RS([kl |-> 4, mx |-> 0, rows |-> <<>>, maxRows |-> 0, prefix |-> 0, nsub |-> 0, pan |-> FALSE], <<>>)
Render1(m, r, s, c, d) ==
  CASE m = "heat" -> HeatRender(r, s, c, d) [] m = "spark" -> SparkRender(r, s, c, d)
    [] m = "table" -> TableRender(r, s, c, d) [] m = "bars" -> BarsRender(r, s, c, d)
FootBase(m, r) ==
  CASE m = "heat" -> r.cur [] m = "spark" -> r.tw.act + r.off [] m = "table" -> r.tw.act [] m = "bars" -> r.maxRows
FootText(kk, idx) == <<102, 48 + (kk % 10), 46, 48 + idx>>           \* "f<render>.<idx>"
RECURSIVE WriteFeet(_, _, _, _)
WriteFeet(s, base, kk, idxs) == IF idxs = <<>> THEN s ELSE WriteFeet(VWrite(s, base + idxs[1], FootText(kk, idxs[1])), base, kk, Tail(idxs))

\* ------------------------------------------------------------- configurations and alphabets
HeatCfgs ==
  {[rows |-> rw, cols |-> cl, fmin |-> fb[1], fmax |-> fb[2], bmin |-> fb[3], bmax |-> fb[4], fmt |-> f, feet |-> fe] :
     rw \in (IF HProfile = 1 THEN {1, 2} ELSE {0, 1, 2, 3}), cl \in (IF HProfile = 1 THEN {2} ELSE {1, 2, 3}),
     fb \in {<<FALSE, FALSE, 0, 0>>, <<TRUE, TRUE, 0, 8>>, <<TRUE, FALSE, 1, 0>>} \cup (IF HProfile = 1 THEN {} ELSE {<<FALSE, TRUE, 0, 4>>, <<TRUE, TRUE, -4, 4>>}),
     f \in (IF HProfile = 1 THEN {hTplB} ELSE {sHi, hTplA, hTplB}), fe \in (IF HProfile = 1 THEN {<<0, 1>>} ELSE {<<>>, <<0, 1>>, <<0>>})}
SparkCfgs ==
  {[rows |-> rw, cols |-> cl, fmt |-> f, feet |-> fe] :
     rw \in (IF HProfile = 1 THEN {1, 2} ELSE {0, 1, 2, 3}), cl \in (IF HProfile = 1 THEN {1, 2} ELSE {1, 2, 3}),
     f \in (IF HProfile = 1 THEN {hTplB} ELSE {sHi, hTplB}), fe \in (IF HProfile = 1 THEN {<<0, 1>>} ELSE {<<>>, <<0, 1>>, <<1>>})}
TableCfgs ==
  {[rows |-> rw, cols |-> cl, fmt |-> f, feet |-> <<0, 1>>, rowtot |-> t[1], coltot |-> t[2]] :
     rw \in (IF HProfile = 1 THEN {1, 2} ELSE {0, 1, 2, 3}), cl \in (IF HProfile = 1 THEN {1, 2} ELSE {0, 1, 2, 3}),
     f \in (IF HProfile = 1 THEN {hTplB} ELSE {sHi, hTplB}), t \in (IF HProfile = 1 THEN {<<TRUE, TRUE>>, <<FALSE, FALSE>>} ELSE BOOLEAN \X BOOLEAN)}
BarsCfgs ==
  {[stacked |-> st, color |-> co, uni |-> un, fmt |-> hTplB, feet |-> <<0, 1>>] :
     st \in BOOLEAN, co \in BOOLEAN, un \in (IF HProfile = 1 THEN {FALSE} ELSE BOOLEAN)}
CfgsOf(m) == CASE m = "heat" -> HeatCfgs [] m = "spark" -> SparkCfgs [] m = "table" -> TableCfgs [] m = "bars" -> BarsCfgs

\* the data a history starts from: nothing, or three rows of which the last lives in the last column only
Preset == [p \in {<<1, 1>>, <<2, 1>>, <<1, 2>>, <<2, 3>>} |-> IF p = <<1, 1>> THEN 4 ELSE IF p = <<2, 1>> THEN 0 ELSE IF p = <<1, 2>> THEN 8 ELSE 2]
InitData(m) == IF m = "bars" THEN {NoData} ELSE {NoData, Preset}
\* sub-key bursts of the bar graph: n sub-keys at once (more series than either palette has entries)
NSubs == IF HProfile = 1 THEN {2, 13, 17} ELSE {1, 2, 12, 13, 16, 17, 29}
Pattern(p, n) == [i \in 1..n |-> IF p = 1 THEN 4 ELSE IF p = 2 THEN (IF i % 2 = 1 THEN 8 ELSE 0) ELSE (IF i % 4 = 0 THEN 8 ELSE IF i % 4 = 1 THEN 1 ELSE IF i % 4 = 2 THEN 2 ELSE 4)]
DataOps(m, d) ==
  IF m = "bars" THEN
    {<<"b", r, n, Pattern(p, n)>> : r \in 1..2, n \in NSubs, p \in (IF HProfile = 1 THEN {2} ELSE {1, 2, 3})}
    \cup {<<"s", c, r, x>> : c \in 1..2, r \in 1..2, x \in {8, -4}} \cup {<<"n">>}
  ELSE {<<"s", c, r, x>> : c \in 1..CMax, r \in 1..RMax, x \in Deltas} \cup {<<"n">>}
       \cup (IF m \in {"spark", "heat"} THEN {<<"t", D>> : D \in (SUBSET DCols(d)) \ {{}}} ELSE {})

\* histories whose drawing needs no unsafe quotient (see SafeQ)
SafeData(m, c, d) ==
  CASE m = "heat" ->
         LET b == HeatBounds(c, d) IN
         /\ \A cc \in DCols(d), r \in DRows(d) : SafeQ(LinScale(DVal(d, cc, r), b[1], b[2]), HeatAsciiLen - 1)
         /\ \A i \in 1..Len(LinScaleKeys(6, b[1], b[2])) : SafeQ(LinScale(LinScaleKeys(6, b[1], b[2])[i], b[1], b[2]), HeatAsciiLen - 1)
    [] m = "spark" -> LET b == DMinMax(d) IN \A cc \in DCols(d), r \in DRows(d) : SafeQ(LinScale(DVal(d, cc, r), b[1], b[2]), SparkLen(FALSE) - 1)
    [] m = "table" -> TRUE
    [] m = "bars" -> TRUE                                           \* (checked against the running maximum in HStep)
BarsSafe(c, d, mx) ==
  \A cc \in DCols(d), r \in DRows(d) : c.stacked \/ SafeQ(LinScale(DVal(d, cc, r), 0, mx), IF c.uni THEN 450 ELSE 50)

\* ------------------------------------------------------------- the history machine
HInit ==
  /\ \E su \in HSetups : hm = su[1] /\ hpol = su[2]
  /\ cf \in CfgsOf(hm) /\ data \in InitData(hm)
  /\ k = 0 /\ ft = {} /\ pn = FALSE /\ hop = <<>>
  /\ ri = Setup(hm, cf).r /\ scr = Setup(hm, cf).s
\* one step, evaluated once: [ok, data, ri, scr, ft, pn]
HStepRes(op) ==
  LET d1 == DApply(data, op)
      u  == Render1(hm, ri, scr, cf, d1)
      failed == hm = "bars" /\ u.r.pan
      base == FootBase(hm, u.r)
  IN [ok |-> SafeData(hm, cf, d1) /\ (hm = "bars" /\ ~failed => BarsSafe(cf, d1, u.r.mx)),
      data |-> d1, ri |-> u.r, pn |-> failed,
      scr |-> IF failed THEN u.s ELSE WriteFeet(u.s, base, k + 1, cf.feet),
      ft |-> IF failed THEN {} ELSE {<<cf.feet[i], FootText(k + 1, cf.feet[i])>> : i \in 1..Len(cf.feet)}]
HStep ==
  \E op \in DataOps(hm, data) : \E res \in {HStepRes(op)} :        \* (a singleton: the step is computed once)
    /\ res.ok = TRUE
    /\ data' = res.data /\ hop' = op /\ ri' = res.ri /\ pn' = res.pn /\ scr' = res.scr /\ ft' = res.ft
HNext == /\ k < MaxRenders /\ ~pn /\ k' = k + 1 /\ UNCHANGED <<hm, hpol, cf>> /\ HStep
HSpec == HInit /\ [][HNext]_hvars

\* ------------------------------------------------------------- what the reader is owed after every render
\* (bar graph: rows and sub-keys only grow; the bars of one screen are scaled to the running maximum the instance holds,
\* which BarsMaxOK bounds from below by every row measure of the present data; RenderInst.tla pins it exactly)
Want(m, c, d, r) ==
  CASE m = "heat" -> WantHeat(c, d) [] m = "spark" -> WantSpark(c, d) [] m = "table" -> WantTable(c, d) [] m = "bars" -> WantBars(c, d, r.mx)
Body(s, len) == [i \in 1..len |-> Squeeze(VGet(s, i - 1))]
\* the drawing: exactly the lines the property speaks of, for the PRESENT data (w = Want(...))
DrawingOK(w) == Body(scr, Len(w)) = w
\* the footers directly below the drawing
FeetOK(w) == \A e \in ft : VGet(scr, Len(w) + e[1]) = e[2]
\* the bars are scaled to one maximum that is at least every row measure of the present data (the running maximum)
BarsMaxOK == hm = "bars" => \A r \in DRows(data) : RowMeasure(cf, data, r) <= ri.mx
\* the legend of the heat map starts where the header starts (both are indented to the cells)
LegendAligned == hm = "heat" => LeadBlanks(VGet(scr, 0)) = LeadBlanks(VGet(scr, 1)) \/ Squeeze(VGet(scr, 1)) = <<>>
\* a fresh instance given the present data draws the same (squeezed) lines
FreshOK(w) ==
  hm # "bars" =>
    LET s0 == Setup(hm, cf)
        f  == Render1(hm, s0.r, s0.s, cf, data)
    IN Body(f.s, Len(w)) = w
HistOK == k > 0 => /\ ~pn
                   /\ LET w == Want(hm, cf, data, ri) IN DrawingOK(w) /\ FeetOK(w) /\ FreshOK(w)
                   /\ BarsMaxOK /\ LegendAligned

\* a run over HControlSetups: every control must reach a state the laws reject (register i: control i refuted)
HCtlIndex == CHOOSE i \in 1..Len(HControlList) : HControlList[i] = <<hm, hpol>>
HCtlInit == (\A i \in 1..Len(HControlList) : TLCSet(i, FALSE)) /\ HInit
HCtlMark == HistOK \/ TLCSet(HCtlIndex, TRUE)
HCtlAllRefuted == \A i \in 1..Len(HControlList) : TLCGet(i)
=============================================================================

----------------------------- MODULE PipelineBuf -----------------------------
(* C01 - what the pipeline ASSUMES of its scanner, and why the assumption is needed. *)
(*                                                                                   *)
(* Pipeline.tla treats a line as an opaque id.  In the code a line is a VIEW         *)
(* (readahead.Bytes(): a sub-slice of the scanner's read buffer) that travels        *)
(*     reader's partial batch -> batch channel -> worker (matcher, ignore, key) ->   *)
(*     Match{Line, Extracted} (zero-copy strings over the same bytes) -> readChan -> *)
(*     consumer                                                                      *)
(* while the reader goroutine keeps calling Scan() on the same scanner.  The line    *)
(* "read exactly once and classified exactly once" is therefore the line that was    *)
(* in the input only if no scanner step changes the bytes under a view that is still *)
(* HELD by the pipeline (handed out, consumer not yet done with it).                 *)
(*                                                                                   *)
(* This module composes the byte-level scanner model of C04 (ScannerImm, unchanged:  *)
(* numbered buffers, tokens are views, the environment picks every Read result, so   *)
(* every chunk/buffer geometry within the bounds occurs - in particular a Read that  *)
(* fills the buffer to its last byte with a line terminator) with the reader loop of *)
(* syncReaderToBatcher, the bounded batch channel, a worker and the consumer.        *)
(* Reuse selects the scanner's buffer policy at "Increase buf if needed":            *)
(*   "never"   the code: always a new buffer (ScannerImm!Grow)                       *)
(*   "free"    recycle a completely consumed buffer only when the pipeline holds     *)
(*             nothing: breaks ScannerImm!Lifetime (C04) but NOT the pipeline - the  *)
(*             assumption demanded here is weaker than C04's                          *)
(*   "always"  recycle a completely consumed buffer (no unread tail) regardless:     *)
(*             the negative control, TLC must refute HeldOK / SeenOK / FinalOK       *)
EXTENDS ScannerImm

CONSTANTS PBatch,     \* batch size
          PCap,       \* capacity of the batch channel
          Reuse       \* "never" | "free" | "always"

VARIABLES rp,         \* reader loop pc: "scan" | "send" | "final" | "exit" | "closed"
          rb,         \* reader's partial batch: indices into handed
          bch,        \* batch channel: sequence of batches
          wb, wi,     \* worker: current batch, index of the next line to process (0 = none)
          wout,       \* worker: matches collected for the current batch
          mch,        \* match channel (capacity 1)
          seenW,      \* ghost: <<index, bytes the worker's matcher saw>>
          seenC,      \* ghost: <<index, bytes the consumer saw>>
          released    \* indices the consumer is done with

pvars == <<rp, rb, bch, wb, wi, wout, mch, seenW, seenC, released>>
allvars == <<vars, pvars>>

\* the views the pipeline still holds
Held == (1..Len(handed)) \ released

PInit ==
  /\ Init
  /\ rp = "scan" /\ rb = <<>> /\ bch = <<>> /\ wb = <<>> /\ wi = 0 /\ wout = <<>> /\ mch = <<>>
  /\ seenW = <<>> /\ seenC = <<>> /\ released = {}

\* ---- the scanner, with the buffer policy as a parameter ------------------------------
CanRecycle ==
  /\ pc = "grow" /\ end >= Len(Buf) /\ offset = end          \* buffer full, nothing unread to carry over
  /\ Reuse = "always" \/ (Reuse = "free" /\ Held = {})
Recycle ==
  /\ CanRecycle
  /\ end' = 0 /\ offset' = 0 /\ pc' = "read"
  /\ UNCHANGED <<bufs, cur, eof, lastn, delivered, st, stalls, toks, handed, errs, done>>
ScannerStep ==
  \/ Call \/ Restart \/ Read \/ OnErr \/ Check
  \/ Recycle
  \/ (~CanRecycle /\ Grow)

\* ---- reader loop: for readahead.Scan() { batch = append(batch, readahead.Bytes()); cut when full } ; final flush
ReaderScan ==
  /\ rp = "scan"
  /\ ScannerStep
  /\ IF Len(handed') > Len(handed)                           \* Scan() returned true
     THEN /\ rb' = Append(rb, Len(handed'))
          /\ rp' = IF Len(rb') >= PBatch THEN "send" ELSE "scan"
     ELSE IF done' /\ ~done                                  \* Scan() returned false
     THEN /\ rb' = rb
          /\ rp' = IF rb # <<>> THEN "final" ELSE "exit"
     ELSE UNCHANGED <<rb, rp>>
  /\ UNCHANGED <<bch, wb, wi, wout, mch, seenW, seenC, released>>
ReaderSend ==
  /\ rp \in {"send", "final"} /\ Len(bch) < PCap
  /\ bch' = Append(bch, rb) /\ rb' = <<>>
  /\ rp' = IF rp = "send" THEN "scan" ELSE "exit"
  /\ UNCHANGED <<vars, wb, wi, wout, mch, seenW, seenC, released>>
ReaderClose ==
  /\ rp = "exit" /\ rp' = "closed"
  /\ UNCHANGED <<vars, rb, bch, wb, wi, wout, mch, seenW, seenC, released>>

\* ---- worker: the matcher, the ignore expressions and the key builder read the bytes under the view
WorkerRecv ==
  /\ wi = 0 /\ wout = <<>> /\ bch # <<>>
  /\ wb' = Head(bch) /\ bch' = Tail(bch) /\ wi' = 1
  /\ UNCHANGED <<vars, rp, rb, wout, mch, seenW, seenC, released>>
WorkerLine ==
  /\ wi > 0
  /\ seenW' = Append(seenW, <<wb[wi], View(handed[wb[wi]])>>)
  /\ wout' = Append(wout, wb[wi])                            \* Match{Line: zero-copy string over the view}
  /\ wi' = IF wi < Len(wb) THEN wi + 1 ELSE 0
  /\ UNCHANGED <<vars, rp, rb, bch, wb, mch, seenC, released>>
WorkerSend ==
  /\ wi = 0 /\ wout # <<>> /\ mch = <<>>
  /\ mch' = <<wout>> /\ wout' = <<>>
  /\ UNCHANGED <<vars, rp, rb, bch, wb, wi, seenW, seenC, released>>

\* ---- consumer: reads Match.Line / Match.Extracted of every match, then drops the batch
Consume ==
  /\ mch # <<>>
  /\ LET ms == mch[1] IN
     /\ seenC' = seenC \o [k \in 1..Len(ms) |-> <<ms[k], View(handed[ms[k]])>>]
     /\ released' = released \cup {ms[k] : k \in 1..Len(ms)}
  /\ mch' = <<>>
  /\ UNCHANGED <<vars, rp, rb, bch, wb, wi, wout, seenW>>

Drained == rp = "closed" /\ bch = <<>> /\ wi = 0 /\ wout = <<>> /\ mch = <<>>
PNext == ReaderScan \/ ReaderSend \/ ReaderClose \/ WorkerRecv \/ WorkerLine \/ WorkerSend \/ Consume
         \/ (Drained /\ UNCHANGED allvars)
PSpec == PInit /\ [][PNext]_allvars /\ WF_allvars(PNext)

\* ---- properties ----------------------------------------------------------------------
PTypeOK == /\ rp \in {"scan", "send", "final", "exit", "closed"}
           /\ Len(rb) <= PBatch /\ Len(bch) <= PCap /\ Len(mch) <= 1
           /\ released \subseteq 1..Len(handed)
\* THE ASSUMPTION: the bytes under a held view are the bytes that were handed out
HeldOK == \A i \in Held : View(handed[i]) = handed[i].data
\* ... stated on steps: no step (in particular no scanner step) changes a line the pipeline holds
HeldStable == [][\A i \in Held : i \notin released' => SubSeq(bufs'[handed[i].b], handed[i].lo + 1, handed[i].hi)
                                                       = SubSeq(bufs[handed[i].b], handed[i].lo + 1, handed[i].hi)]_allvars
\* what it buys: every observer of line i sees the i-th line of the input (the sequential reference)
Truth == A!RefSplit(delivered, st # "open")
SeenOK == /\ \A k \in 1..Len(seenW) : seenW[k][2] = Truth[seenW[k][1]]
          /\ \A k \in 1..Len(seenC) : seenC[k][2] = Truth[seenC[k][1]]
\* conservation: every handed line is in exactly one place
Where(i) == (IF \E k \in DOMAIN rb : rb[k] = i THEN 1 ELSE 0)
          + Cardinality({<<j, k>> \in (DOMAIN bch) \X (1..PBatch) : k <= Len(bch[j]) /\ bch[j][k] = i})
          + (IF wi > 0 /\ \E k \in wi..Len(wb) : wb[k] = i THEN 1 ELSE 0)
          + (IF \E k \in DOMAIN wout : wout[k] = i THEN 1 ELSE 0)
          + (IF mch # <<>> /\ \E k \in DOMAIN mch[1] : mch[1][k] = i THEN 1 ELSE 0)
          + (IF i \in released THEN 1 ELSE 0)
OnceOK == \A i \in 1..Len(handed) : Where(i) = 1
\* at the end: one worker, so the consumer saw exactly the lines of the input, each once, in order
PFinalOK == Drained =>
  /\ released = 1..Len(handed)
  /\ [k \in 1..Len(seenC) |-> seenC[k][2]] = A!RefSplit(delivered, TRUE)
  /\ [k \in 1..Len(seenW) |-> seenW[k][2]] = A!RefSplit(delivered, TRUE)
\* with the code's policy the scanner part is ScannerImm, step for step (so C04's results carry over)
ScannerIsImm == [][Next]_vars
PTerminates == <>Drained
=============================================================================

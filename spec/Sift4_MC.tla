------------------------------- MODULE Sift4_MC -------------------------------
(* B3 for Sift4: laws of the distance over all strings up to MaxLen over Alpha    *)
(* and windows 0..MaxOff; B1 generator: the same pairs with the expected values.  *)
EXTENDS Sift4, FiniteSets, TLC, Json
CONSTANTS MaxLen, Alpha, MaxOff
Strs == UNION {[1..n -> Alpha] : n \in 0..MaxLen}
VARIABLE s
Init == s \in Strs
Next == UNCHANGED s
Laws == \A t \in Strs : \A mo \in 0..MaxOff :
          LET d == Distance(s, t, mo) m == Max2(Len(s), Len(t)) IN
          /\ d >= 0 /\ d <= m                                   \* so the ratio lies in [0, 1]
          /\ (s = t => d = 0)                                   \* identical strings are at distance 0 ...
          /\ (d = 0 => s = t)                                   \* ... and only they
          /\ (t = <<>> => d = Len(s))
          /\ d >= (IF Len(s) > Len(t) THEN Len(s) - Len(t) ELSE Len(t) - Len(s))
Dump == \A t \in Strs : \A mo \in 0..MaxOff :
          PrintT("VFJ " \o ToJson([a |-> s, b |-> t, mo |-> mo, d |-> Distance(s, t, mo), r |-> Ratio(s, t, mo)]))
=============================================================================

---------------------------- MODULE TimeMemo_MC ----------------------------
(* Model-checking inputs for TimeMemo (tuples cannot be written in a .cfg).   *)
EXTENDS TimeMemo
WkA == << <<1, 2>>, <<2, 1>> >>               \* two workers, the timestamp changes inside each worker's share
WkB == << <<1, 1, 2>>, <<2>>, <<1>> >>        \* three workers, runs of one timestamp
WkC == << <<1, 2, 3>>, <<3, 1>> >>            \* three classes
WkD == << <<1, 2, 1, 2>> >>                   \* one worker: every memo is exact
=============================================================================

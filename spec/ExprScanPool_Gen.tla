------------------------- MODULE ExprScanPool_Gen -------------------------
(* B1 generator for the behavioural part of C08 (ExprScanPool): TLC prints         *)
(* PROCESS scenarios                                                               *)
(*    [id, g = "proc", via = "proc", mode, opt, exprs, lines, kinds, cls]          *)
(* - the compiled expressions of one process (an ignore expression, the            *)
(* extraction expression, a second KeyBuilder), printed from the helper trees of   *)
(* ExprScanPool, and a HISTORY of lines that every expression is evaluated on in    *)
(* order.  The line kinds drive every exit path of every pooled helper (no         *)
(* element, one, several, a sub-expression answering a marker, odd values, the      *)
(* iteration cap <INF> of @for reached through a huge limit and through an          *)
(* erroring condition); every such line is FOLLOWED by probe lines on which the     *)
(* nested helpers of the other expressions walk their parent chains (named keys,   *)
(* negative indices, funcs-file calls and formulas inside two and three levels of   *)
(* array helpers).  The Go driver runs every scenario as a process of its own:      *)
(* sequentially, from several goroutines, and through the real extractor.           *)
(*                                                                                  *)
(* The expected outcome of every point is the one ExprScanPool proves for the       *)
(* discipline of the code: every expression compiles, every evaluation returns a    *)
(* string, the process survives the history (cls = "ok").                           *)
EXTENDS ExprTotal, Json

CONSTANTS Thorough

VARIABLE c

\* ------------------------------------------------------------------ helper trees (as in ExprScanPool) and their templates
PNode(h, look, kids) == [h |-> h, look |-> look, kids |-> kids]
PLeaf(h, look) == PNode(h, look, <<>>)
PHelpers == <<"map", "reduce", "filter", "for">>

(* what the sub-expression reads beside the element: a named key, a negative      *)
(* index, an absent key, an operation that answers <BAD-TYPE> on odd values, a     *)
(* formula, and funcs-file functions (pooled lazy contexts of their own) that      *)
(* read a key / a negative index / fail / run an array helper themselves.          *)
LookText(l) ==
  CASE l = "key" -> "{k0}" [] l = "neg" -> "{-1}" [] l = "nokey" -> "{nope}" [] l = "err" -> "{sumi {0} {k0}}"
    [] l = "math" -> "{! \"k0 + [0]\"}" [] l = "ffkey" -> "{keyed {0}}" [] l = "ffneg" -> "{neg1 {0}}"
    [] l = "fferr" -> "{divs {0} {k0}}" [] l = "ffmap" -> "{mapd {0}}"
AllLooks == {"key", "neg", "nokey", "err", "math", "ffkey", "ffneg", "fferr", "ffmap"}

\* the array a helper works on: the line's k2 at the top, the element of the enclosing helper inside
ArrText(top) == IF top THEN "{k2}" ELSE "{0}"
RECURSIVE PrintN(_, _)
PrintN(n, top) ==
  LET pieces == (IF n.look = "none" THEN <<>> ELSE <<LookText(n.look)>>) \o [j \in 1..Len(n.kids) |-> PrintN(n.kids[j], FALSE)]
      body == IF Len(pieces) = 0 THEN "{0}"
              ELSE IF Len(pieces) = 1 THEN pieces[1]
              ELSE "{tab" \o Cat([j \in 1..Len(pieces) |-> " " \o pieces[j]]) \o "}"
  IN CASE n.h = "map"    -> "{@map " \o ArrText(top) \o " " \o body \o "}"
       [] n.h = "filter" -> "{@filter " \o ArrText(top) \o " " \o body \o "}"
       [] n.h = "reduce" -> "{@reduce " \o ArrText(top) \o " " \o body \o "}"
       \* runs while the index is below k1.  (The guard {if {k1} ..} - which hands an <ERROR> marker of the comparison on unchanged -
       \* is there for the optimising compiler, which evaluates every
       \* stage once with all keys empty: {lt {1} ""} answers <BAD-TYPE>, which is truthy, so the bare condition costs 10^6 rounds
       \* at Compile - and 10^12 for a loop nested in a loop, the documented resource class.)
       [] n.h = "for"    -> "{@for " \o ArrText(top) \o " {if {k1} {lt {1} {k1}}} " \o body \o "}"

\* an ignore expression must answer falsy or the extractor skips the line: it is compared with a text it never yields
RoleText(role, n) == IF role = "ignore" THEN "{eq ~ " \o PrintN(n, TRUE) \o "}" ELSE PrintN(n, TRUE)
PExpr(role, n) == [role |-> role, tpl |-> <<RoleText(role, n)>>]

RECURSIVE ForTotal(_)
ForTotal(n) == (IF n.h = "for" THEN 1 ELSE 0) + FoldLeft(LAMBDA a, b : a + b, 0, [j \in 1..Len(n.kids) |-> ForTotal(n.kids[j])])
RECURSIVE Depth(_)
Depth(n) == 1 + FoldLeft(LAMBDA a, b : IF a > b THEN a ELSE b, 0, [j \in 1..Len(n.kids) |-> Depth(n.kids[j])])

\* ------------------------------------------------------------------ lines
(* k0: the key the sub-expressions read; k1: the limit of @for; k2: the array.    *)
A3  == D("arr:a-b-c", "a", <<0, 98, 0, 99>>, 1)
A5  == D("arr:1-2-x--3", "1", <<0, 50, 0, 120, 0, 45, 51>>, 1)
ANN == D("arr:NUL-NUL", "", <<0, 0>>, 1)
LineOf(kind) ==
  CASE kind = "zero"   -> <<W("7"), W("0"), Empty>>          \* no element, condition false at once
    [] kind = "one"    -> <<W("7"), W("1"), W("a")>>
    [] kind = "some"   -> <<W("7"), W("2"), A3>>             \* the probe line: several elements, every nested helper runs
    [] kind = "errv"   -> <<W("x"), W("2"), A5>>             \* sub-expressions answer <BAD-TYPE>
    [] kind = "odd"    -> <<Max63, W("3"), ANN>>             \* empty elements, overflowing sums
    [] kind = "inf"    -> <<W("7"), W("1e300"), W("a")>>     \* @for runs into its 1,000,000 iteration cap: <INF>
    [] kind = "errinf" -> <<W("x"), W("x"), W("a")>>         \* the condition answers <BAD-TYPE>, which is truthy: <INF> again
CheapKinds == {"zero", "one", "some", "errv", "odd"}
CapKinds == {"inf", "errinf"}
PLine(kind) == [m |-> <<>>, k |-> [j \in 1..3 |-> LineOf(kind)[j].id]]

\* every kind of the sequence followed by a probe line
RECURSIVE Probed(_)
Probed(ks) == IF ks = <<>> THEN <<>> ELSE <<Head(ks), "some">> \o Probed(Tail(ks))

\* ------------------------------------------------------------------ the expression sets
Sq(set) == SetToSeq(set)
PoisonLooks == IF Thorough THEN AllLooks ELSE {"key", "err"}
Poisons == Sq({PLeaf(h, l) : h \in ToSet(PHelpers), l \in PoisonLooks}
              \cup {PNode("map", "none", <<PLeaf("for", "key")>>), PLeaf("for", "fferr"), PLeaf("map", "math"), PLeaf("filter", "ffneg"),
                    PLeaf("reduce", "ffmap"), PNode("filter", "key", <<PLeaf("for", "neg")>>)})
ProbeLooks == IF Thorough THEN {<<"none", l>> : l \in {"key", "neg", "math", "ffkey", "ffmap"}} \cup {<<"key", "neg">>, <<"ffneg", "key">>}
              ELSE {<<"none", "key">>, <<"key", "neg">>}
Probes2 == {PNode(h1, ll[1], <<PLeaf(h2, ll[2])>>) : h1 \in ToSet(PHelpers), h2 \in ToSet(PHelpers), ll \in ProbeLooks}
\* two helpers side by side in one sub-expression
ProbesW == {PNode(h1, "none", <<PLeaf(h2, "key"), PLeaf(h3, "neg")>>) : h1 \in {"map", "reduce"}, h2 \in {"filter", "for"}, h3 \in {"map", "for"}}
Probes == Sq(Probes2 \cup (IF Thorough THEN ProbesW ELSE {}))
\* three deep: the second KeyBuilder of the process
Deep3 == Sq({PNode(h1, "none", <<PNode(h2, l2, <<PLeaf(h3, l3)>>)>>) :
               h1 \in {"map", "filter"}, h2 \in {"reduce", "map", "for"}, h3 \in {"filter", "map"}, l2 \in {"none", "key"}, l3 \in {"key", "neg", "ffkey"}}
            \cup {PNode("for", "key", <<PNode("map", "none", <<PLeaf("reduce", "math")>>)>>)})
PModes == <<"seq", "par", "extract">>

\* nesting beyond the pool's initial size (5 objects): the sixth and seventh Get take the path that makes a new object
RECURSIVE Chain(_, _)
Chain(d, k) == IF d = 1 THEN PLeaf(PHelpers[(k % 3) + 1], "key")
               ELSE PNode(PHelpers[(k % 3) + 1], IF d % 2 = 0 THEN "none" ELSE "neg", <<Chain(d - 1, k + 1)>>)
Third(i, j) == IF (i + j) % 5 = 0 THEN Chain(6 + (j % 2), i) ELSE Deep3[((3 * i + 5 * j) % Len(Deep3)) + 1]
\* a helper whose arguments are all constants is evaluated by the optimising compiler: its exit path is taken at Compile
ConstFor(limit) == "{@for a {lt {1} " \o limit \o "} {0}}"
\* a capped line costs 10^6 rounds for every @for on the way: at most one @for on a path, at most two in the process
RECURSIVE ForPath(_)
ForPath(n) == (IF n.h = "for" THEN 1 ELSE 0) + FoldLeft(LAMBDA a, b : IF a > b THEN a ELSE b, 0, [j \in 1..Len(n.kids) |-> ForPath(n.kids[j])])
\* ... and the value of a capped loop must not grow: its sub-expression is ONE piece (a {tab ..} of a key and a helper that
\* hands the value back would add to the value in every round - the documented memory warning)
RECURSIVE Steady(_)
Steady(n) == /\ (n.h = "for" => (IF n.look = "none" THEN 0 ELSE 1) + Len(n.kids) <= 1)
             /\ \A j \in 1..Len(n.kids) : Steady(n.kids[j])
CapOK(p, q, r) ==
  /\ ForPath(p) <= 1 /\ ForPath(q) <= 1 /\ ForPath(r) <= 1
  /\ Steady(p) /\ Steady(q) /\ Steady(r)
  /\ ForTotal(p) + ForTotal(q) + ForTotal(r) \in 1..2

Hists(i, j) ==
  LET p == Poisons[i]  q == Probes[j]  r == Third(i, j)
      cheap == IF Thorough THEN {Probed(<<"zero", "one", "errv", "odd">>)}
                             \cup (IF (i + j) % 2 = 0 THEN {<<"odd", "some", "errv", "errv", "some", "zero", "zero", "some", "one">>} ELSE {})
               ELSE {Probed(<<"zero", "one", "errv", "odd">>)}
      cap == IF ~CapOK(p, q, r) THEN {}
             ELSE IF Thorough THEN (IF (i + j) % 7 # 0 THEN {} ELSE {<<"some", "inf", "some", "one">>, <<"errinf", "some", "errv", "inf", "some">>})
             ELSE IF (i + j) % 3 # 0 THEN {}          \* (every capped evaluation costs 0.1 - 0.5 s)
             ELSE IF j % 2 = 0 THEN {<<"some", "inf", "some", "one">>} ELSE {<<"errinf", "some", "errv">>}
  IN cheap \cup cap

HistId(h) == Cat([j \in 1..Len(h) |-> (IF j > 1 THEN "," ELSE "") \o h[j]])
Proc(i, j, h, mode, opt) ==
  LET p == Poisons[i]  q == Probes[j]  r == Third(i, j) IN
  [id |-> "proc:" \o mode \o ":" \o (IF opt THEN "o" ELSE "n") \o ":" \o ToString(i) \o ":" \o ToString(j) \o ":" \o HistId(h),
   g |-> "proc", f |-> p.h \o "/" \o p.look, cls |-> "ok", via |-> "proc", mode |-> mode, opt |-> opt,
   exprs |-> <<PExpr("ignore", p), PExpr("extract", q), PExpr("key2", r)>>
             \o (IF j % 4 # 0 THEN <<>>
                 ELSE IF opt /\ (\E x \in 1..Len(h) : h[x] \in CapKinds) THEN <<[role |-> "key2", tpl |-> <<ConstFor("1e300")>>]>>   \* <INF> at Compile
                 ELSE IF ~(\E x \in 1..Len(h) : h[x] \in CapKinds) THEN <<[role |-> "key2", tpl |-> <<ConstFor(IF i % 2 = 0 THEN "0" ELSE "2")>>]>>
                 ELSE <<>>),
   tpl |-> <<>>, raw |-> <<>>, pat |-> "", sep |-> " ",
   kinds |-> h, lines |-> [x \in 1..Len(h) |-> PLine(h[x])],
   depth |-> <<Depth(p), Depth(q), Depth(r)>>]

\* which modes a point is run in: all of them (thorough) or one chosen by its position; a capped history from several
\* goroutines costs the cap once per goroutine: those run sequentially or through the extractor
ModesOf(i, j, h) ==
  IF \E x \in 1..Len(h) : h[x] \in CapKinds THEN (IF Thorough THEN {"seq", "extract"} ELSE {PModes[1 + 2 * (i % 2)]})
  ELSE IF Thorough THEN {PModes[((i + 2 * j + Len(h)) % 3) + 1]}
  ELSE {PModes[((i + 2 * j) % 3) + 1]}
OptsOf(i, j) == {(i + j) % 2 = 0}

PValues == UNION {{LineOf(k)[j] : j \in 1..3} : k \in CheapKinds \cup CapKinds}
ValueRow(v) == [id |-> v.id, s |-> v.s, b |-> v.b, r |-> v.r]
ValuesScn == [id |-> "values", g |-> "values", names |-> <<>>, ffnames |-> <<>>, funcfile |-> FuncFile, values |-> Sq({ValueRow(v) : v \in PValues})]

\* ------------------------------------------------------------------ the enumeration
Init == c \in {[lv |-> 0, i |-> i, j |-> 0, x |-> <<>>] : i \in 0..Len(Poisons)}
Next == \/ c.lv = 0 /\ c.i = 0 /\ c' = [lv |-> 2, i |-> 0, j |-> 0, x |-> ValuesScn]
        \/ c.lv = 0 /\ c.i > 0 /\ \E j \in 1..Len(Probes) : c' = [lv |-> 1, i |-> c.i, j |-> j, x |-> <<>>]
        \/ c.lv = 1 /\ \E h \in Hists(c.i, c.j) : \E m \in ModesOf(c.i, c.j, h) : \E o \in OptsOf(c.i, c.j) :
              c' = [lv |-> 2, i |-> c.i, j |-> c.j, x |-> Proc(c.i, c.j, h, m, o)]
Dump == c.lv = 2 => PrintT("VFJ " \o ToJson(c.x))
=============================================================================

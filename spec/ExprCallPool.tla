---------------------------- MODULE ExprCallPool ----------------------------
(* C10 - the pooled per-call argument contexts of funcs-file functions, written   *)
(* like the code (pkg/expressions/funcfile/stage.go keyBuilderToFunction,         *)
(* lazySubContext; pkg/slicepool/objpool.go):                                     *)
(*                                                                                *)
(*   every CALL SITE {name a1 .. an} owns a pool of lazySubContext objects        *)
(*   (created when the site is compiled; the sites inside a function's body are   *)
(*   compiled once, when the file is loaded, and are shared by all its callers)   *)
(*                                                                                *)
(*   stage(kbc):  subCtx := ctxPool.Get()        get   (mutex; Locked = FALSE: two steps, no mutex)  *)
(*                defer ctxPool.Return(subCtx)   ret   (after the body)            *)
(*                subCtx.sub = kbc               init                              *)
(*                return body.BuildKey(subCtx)   body: {i} -> args[i](subCtx.sub), evaluated lazily   *)
(*                                                     in the CALLER's context, every time it is read; *)
(*                                                     {key} -> subCtx.sub.GetKey(key), recursively;  *)
(*                                                     a call inside the body gets subCtx as context  *)
(*                                                                                *)
(* W goroutines evaluate the same compiled expression (the same sites, the same   *)
(* pools), each on match contexts of its own, J evaluations each.                 *)
(* Invariants: every read of a group or key reaches the match context of the      *)
(* evaluation that performs it (SeesOwn - "the call equals its body written       *)
(* inline ... also when several workers evaluate concurrently"), no object is     *)
(* held twice or pooled while held (Exclusive), nothing leaks (NoLeak).           *)
(* The end of a call is an ORDER of steps: Get / bind caller / evaluate / [clear] / *)
(* Return; Clear = "after" (Return, then clear) is a use-after-return.            *)
(* Negative controls: Locked = FALSE (Get without the mutex), EarlyReturn = TRUE  *)
(* (the object goes back to the pool before the body ran), InitSub = FALSE (the   *)
(* object keeps the context of an earlier call) - TLC must reject each.           *)
EXTENDS Integers, Sequences, FiniteSets

CONSTANTS W, J, P,        \* goroutines, evaluations per goroutine, initial pool size (5 in the code)
          Sites,          \* set of call-site names
          Body,           \* Body[s]: code of the called function's body
          Args,           \* Args[s]: sequence of codes, one per call argument
          Main,           \* code of the expression
          Locked, EarlyReturn, InitSub,
          Clear           \* what the stage does with the object's reference to the caller's context when it is done:
                          \* "none" (the code: the reference stays until the next Get overwrites it), "before" (dropped,
                          \* THEN handed back - equivalent), "after" (handed back, THEN dropped: two deferred calls run in
                          \* reverse source order - the object is already someone else's when the write lands; refuted)

\* code: sequence of ops  <<"grp", i>> | <<"key">> | <<"call", s>>
VARIABLES pool,     \* pool[s]: free list of site s (Get takes the last)
          created,  \* created[s]: objects 1..created[s] exist
          sub,      \* sub[s][o]: the context the object points to: Nil | <<"m", w, j>> | <<"o", s', o'>>
          mutex,    \* mutex[s]: 0 or the goroutine inside Get/Return of the pool
          ev,       \* ev[w] = [job, stack, pc, site, obj, end]
          err       \* some read reached a context that is not the reader's own match
vars == <<pool, created, sub, mutex, ev, err>>

Evals == 1..W
MaxObj == P + 2 * W + 1          \* a site can be active twice on one stack (see Reent in ExprCallPool_MC)
Nil == <<"nil">>
Rec(code, ctx, kind, s, o) == [code |-> code, ip |-> 1, ctx |-> ctx, kind |-> kind, s |-> s, o |-> o]
Top(w) == ev[w].stack[Len(ev[w].stack)]
Own(w) == <<"m", w, ev[w].job>>

RECURSIVE RootFrom(_, _)
RootFrom(c, fuel) ==
  IF c = Nil THEN Nil ELSE IF c[1] = "m" THEN c ELSE IF fuel = 0 THEN <<"cycle">>
  ELSE RootFrom(sub[c[2]][c[3]], fuel - 1)
Root(c) == RootFrom(c, 12)

Init ==
  /\ pool = [s \in Sites |-> [i \in 1..P |-> i]]
  /\ created = [s \in Sites |-> P]
  /\ sub = [s \in Sites |-> [o \in 1..MaxObj |-> Nil]]
  /\ mutex = [s \in Sites |-> 0]
  /\ ev = [w \in Evals |-> [job |-> 0, stack |-> <<>>, pc |-> "idle", site |-> "", obj |-> 0, end |-> 0]]
  /\ err = FALSE

Set(w, f) == ev' = [ev EXCEPT ![w] = f]
\* the top record is finished with its current op
Advance(st) == [st EXCEPT ![Len(st)].ip = @ + 1]
Pop(st) == LET r == SubSeq(st, 1, Len(st) - 1) IN IF r = <<>> THEN r ELSE Advance(r)

Start(w) ==
  /\ ev[w].pc = "idle" /\ ev[w].job < J
  /\ Set(w, [ev[w] EXCEPT !.job = @ + 1, !.stack = <<Rec(Main, <<"m", w, ev[w].job + 1>>, "main", "", 0)>>, !.pc = "run"])
  /\ UNCHANGED <<pool, created, sub, mutex, err>>

\* one step of the interpreter
Run(w) ==
  /\ ev[w].pc = "run"
  /\ LET t == Top(w) IN
     IF t.ip > Len(t.code)
     THEN \* the code of this record is finished
          IF t.kind = "body"
          THEN /\ Set(w, [ev[w] EXCEPT !.pc = "ret", !.site = t.s, !.obj = t.o])
               /\ UNCHANGED err
          ELSE /\ LET r == Pop(ev[w].stack) IN Set(w, [ev[w] EXCEPT !.stack = r, !.pc = IF r = <<>> THEN "idle" ELSE "run"])
               /\ UNCHANGED err
     ELSE LET op == t.code[t.ip] IN
          CASE op[1] = "grp" ->
                 IF t.ctx[1] = "m"
                 THEN /\ err' = (err \/ t.ctx # Own(w))
                      /\ Set(w, [ev[w] EXCEPT !.stack = Advance(@)])
                 ELSE \* lazySubContext.GetMatch(i): s.args[i](s.sub)  (sub is read NOW)
                      LET s == t.ctx[2]  c2 == sub[s][t.ctx[3]] IN
                      IF op[2] > Len(Args[s]) THEN Set(w, [ev[w] EXCEPT !.stack = Advance(@)]) /\ UNCHANGED err
                      ELSE IF c2 = Nil THEN err' = TRUE /\ Set(w, [ev[w] EXCEPT !.stack = Advance(@)])   \* nil dereference
                      ELSE Set(w, [ev[w] EXCEPT !.stack = Append(@, Rec(Args[s][op[2]], c2, "arg", "", 0))]) /\ UNCHANGED err
            [] op[1] = "key" ->
                 /\ err' = (err \/ Root(t.ctx) # Own(w))
                 /\ Set(w, [ev[w] EXCEPT !.stack = Advance(@)])
            [] op[1] = "call" ->
                 /\ Set(w, [ev[w] EXCEPT !.pc = "get", !.site = op[2]])
                 /\ UNCHANGED err
  /\ UNCHANGED <<pool, created, sub, mutex>>

\* ObjectPool.Get
Get(w) ==
  /\ ev[w].pc = "get"
  /\ LET s == ev[w].site IN
     IF Locked
     THEN /\ mutex[s] = 0
          /\ IF pool[s] = <<>>
             THEN /\ created[s] < MaxObj
                  /\ created' = [created EXCEPT ![s] = @ + 1]
                  /\ Set(w, [ev[w] EXCEPT !.pc = "init", !.obj = created[s] + 1])
                  /\ UNCHANGED pool
             ELSE /\ pool' = [pool EXCEPT ![s] = SubSeq(@, 1, Len(@) - 1)]
                  /\ Set(w, [ev[w] EXCEPT !.pc = "init", !.obj = pool[s][Len(pool[s])]])
                  /\ UNCHANGED created
     ELSE \* no mutex: read now, write in a later step
          IF pool[s] = <<>>
          THEN /\ created[s] < MaxObj
               /\ created' = [created EXCEPT ![s] = @ + 1]
               /\ Set(w, [ev[w] EXCEPT !.pc = "init", !.obj = created[s] + 1])
               /\ UNCHANGED pool
          ELSE /\ Set(w, [ev[w] EXCEPT !.pc = "get2", !.obj = pool[s][Len(pool[s])], !.end = Len(pool[s]) - 1])
               /\ UNCHANGED <<pool, created>>
  /\ UNCHANGED <<sub, mutex, err>>
Get2(w) ==
  /\ ev[w].pc = "get2"
  /\ LET s == ev[w].site IN pool' = [pool EXCEPT ![s] = SubSeq(@, 1, IF ev[w].end <= Len(@) THEN ev[w].end ELSE Len(@))]
  /\ Set(w, [ev[w] EXCEPT !.pc = "init"])
  /\ UNCHANGED <<created, sub, mutex, err>>

\* subCtx.sub = kbc ; body.BuildKey(subCtx)
InitCall(w) ==
  /\ ev[w].pc = "init"
  /\ LET s == ev[w].site  o == ev[w].obj  caller == Top(w).ctx IN
     /\ sub' = IF InitSub THEN [sub EXCEPT ![s][o] = caller] ELSE sub
     /\ pool' = IF EarlyReturn THEN [pool EXCEPT ![s] = Append(@, o)] ELSE pool
     /\ Set(w, [ev[w] EXCEPT !.stack = Append(@, Rec(Body[s], <<"o", s, o>>, "body", s, o)), !.pc = "run"])
  /\ UNCHANGED <<created, mutex, err>>

\* deferred ctxPool.Return(subCtx); with Clear = "before" the step before it drops the caller reference
ClearFirst(w) ==
  /\ ev[w].pc = "ret" /\ Clear = "before"
  /\ sub' = [sub EXCEPT ![ev[w].site][ev[w].obj] = Nil]
  /\ Set(w, [ev[w] EXCEPT !.pc = "ret2"])
  /\ UNCHANGED <<pool, created, mutex, err>>
Ret(w) ==
  /\ ev[w].pc = (IF Clear = "before" THEN "ret2" ELSE "ret")
  /\ LET s == ev[w].site IN
     /\ Locked => mutex[s] = 0
     /\ pool' = IF EarlyReturn THEN pool ELSE [pool EXCEPT ![s] = Append(@, ev[w].obj)]
  /\ IF Clear = "after"
     THEN Set(w, [ev[w] EXCEPT !.pc = "clr"])        \* the stack is popped when the last deferred call has run
     ELSE LET r == Pop(ev[w].stack) IN Set(w, [ev[w] EXCEPT !.stack = r, !.pc = IF r = <<>> THEN "idle" ELSE "run"])
  /\ UNCHANGED <<created, sub, mutex, err>>
\* Clear = "after": the write through a reference the goroutine no longer owns
ClearLate(w) ==
  /\ ev[w].pc = "clr"
  /\ sub' = [sub EXCEPT ![ev[w].site][ev[w].obj] = Nil]
  /\ LET r == Pop(ev[w].stack) IN Set(w, [ev[w] EXCEPT !.stack = r, !.pc = IF r = <<>> THEN "idle" ELSE "run"])
  /\ UNCHANGED <<pool, created, mutex, err>>

Next == \E w \in Evals : Start(w) \/ Run(w) \/ Get(w) \/ Get2(w) \/ InitCall(w) \/ ClearFirst(w) \/ Ret(w) \/ ClearLate(w)
Spec == Init /\ [][Next]_vars

\* ---------------------------------------------------------------- invariants
\* objects in use: the body records on the stacks, and an object taken but not yet initialised
HeldBy(w) == {<<ev[w].stack[d].s, ev[w].stack[d].o>> : d \in {k \in 1..Len(ev[w].stack) : ev[w].stack[k].kind = "body"}}
             \cup (IF ev[w].pc = "init" THEN {<<ev[w].site, ev[w].obj>>} ELSE {})
NBodies(w) == Cardinality({k \in 1..Len(ev[w].stack) : ev[w].stack[k].kind = "body"}) + (IF ev[w].pc = "init" THEN 1 ELSE 0)
SeesOwn == ~err
Exclusive ==
  /\ \A w \in Evals : Cardinality(HeldBy(w)) = NBodies(w)                       \* not twice on one stack
  /\ \A w1, w2 \in Evals : w1 # w2 => HeldBy(w1) \cap HeldBy(w2) = {}
  /\ \A w \in Evals : \A h \in HeldBy(w) : \A i \in 1..Len(pool[h[1]]) : pool[h[1]][i] # h[2]
  /\ \A s \in Sites : \A i, k \in 1..Len(pool[s]) : i # k => pool[s][i] # pool[s][k]
Quiet == \A w \in Evals : ev[w].pc = "idle"
NoLeak == Quiet => \A s \in Sites : Len(pool[s]) = created[s]
Bounded == \A s \in Sites : created[s] <= (IF P > 2 * W THEN P ELSE 2 * W)
TypeOK == \A w \in Evals : ev[w].job \in 0..J /\ Len(ev[w].stack) <= 12
=============================================================================

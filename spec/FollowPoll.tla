----------------------------- MODULE FollowPoll -----------------------------
(* C15 - implementation-shaped model of pkg/followreader/poller.go.             *)
(*                                                                              *)
(* PollingFollowReader.Read, one action per system call: up to ReadAttempts     *)
(* reads of the open file (readBytes += n; a sleep between them is only a       *)
(* delay), then os.Stat(path) and the comparison of its size with readBytes,    *)
(* then - a separate step, the environment may act in between - os.Open and     *)
(* either Seek(readBytes) or "restart from the beginning".                      *)
(*                                                                              *)
(* Ghosts `seen`/`domP` record the exact moment the poller first stats a        *)
(* re-created file, i.e. the side condition "the new file is still shorter      *)
(* than what was already delivered when the poller notices it" in its exact     *)
(* form; Follow.tla's `dom` is the observable (angelic) form, dom => domP.      *)
(*                                                                              *)
(* The reader holds ONE handle: `f` is the file it refers to, `pos` its offset  *)
(* (what the kernel keeps), `readBytes` is the reader's own count.  The re-open *)
(* block replaces the handle; a freshly opened handle stands at offset 0, and   *)
(* the constant `Resume` says where the handle that is read from NEXT ends up   *)
(* when the poller decides "existing file, continue where we left off":         *)
(*   "readBytes"  Seek(readBytes) reaches the new handle (poller.go as written) *)
(*   "none"       it does not (seek issued on the handle being replaced, seek   *)
(*                dropped, error swallowed): the new handle stays at 0          *)
(*   "size"       the new handle is put at the size the stat reported           *)
(* Only "readBytes" keeps HandleOK (the count IS the offset of the handle) and  *)
(* with it exactly-once delivery on a file that merely grew between the last    *)
(* read attempt of a round and the stat - a file that STAYS IN PLACE takes the  *)
(* re-open branch too; the other two are negative controls.                     *)
(*                                                                              *)
(* THE PATH MAY BE A SYMBOLIC LINK (PathKind = "link"; the link stays, the file  *)
(* it leads to receives the appends and is removed / re-created).  Follow.tla's  *)
(* `cur` is what the path resolves to, so "the size of the path" is the size of  *)
(* that file.  StatMode says what the poller's look at the path reports:         *)
(*   "stat"   the file the path leads to (os.Stat, the code)                     *)
(*   "lstat"  the directory entry itself: for a link its own size LinkLen (the   *)
(*            length of the link text), and it exists while the link does -      *)
(*            control: a link shorter than what was delivered looks like a       *)
(*            re-created, shorter file after every quiet round, and the whole    *)
(*            file is delivered again although it only ever received appends     *)
EXTENDS Bytes, TLC

CONSTANTS Reopen, TailMode, InitLen, AppLens, MaxAppends, MaxRemoves, MaxCreates,
          BufSize, ReadAttempts, Resume,
          PathKind, StatMode, LinkLen

ASSUME Resume \in {"readBytes", "none", "size"}
ASSUME PathKind \in {"file", "link"} /\ StatMode \in {"stat", "lstat"} /\ LinkLen \in Nat

VARIABLES mode, files, cur, start, delivered, ended, fresh, dom,   \* Follow.tla
          f, pos, readBytes, att, pc, stSize,                      \* reader
          seen, domP,                                              \* ghosts
          nA, nR, nC, nb

A == INSTANCE Follow

vars == <<mode, files, cur, start, delivered, ended, fresh, dom, f, pos, readBytes, att, pc, stSize,
          seen, domP, nA, nR, nC, nb>>
rdr  == <<f, pos, readBytes, att, pc, stSize, seen, domP>>

Run(from, n) == [i \in 1..n |-> from + i - 1]

Init ==
  /\ A!AInit([poll |-> TRUE, reopen |-> Reopen, tail |-> TailMode], Run(65, InitLen))
  /\ f = 1 /\ pos = start /\ readBytes = start       \* NewPolling; Drain() with tail
  /\ att = 0 /\ pc = "read" /\ stSize = 0
  /\ seen = 1 /\ domP = TRUE
  /\ nA = 0 /\ nR = 0 /\ nC = 0 /\ nb = 97

------------------------------------------------------------------------------
Append1 ==
  /\ nA < MaxAppends
  /\ \E n \in AppLens : A!EnvAppend(Run(nb, n)) /\ nb' = nb + n
  /\ nA' = nA + 1
  /\ UNCHANGED <<rdr, nR, nC>>
Remove1 ==
  /\ nR < MaxRemoves
  /\ A!Drained
  /\ A!EnvRemove
  /\ nR' = nR + 1
  /\ UNCHANGED <<rdr, nA, nC, nb>>
Create1 ==
  /\ nC < MaxCreates
  /\ A!EnvCreate
  /\ nC' = nC + 1
  /\ UNCHANGED <<rdr, nA, nR, nb>>
Env == Append1 \/ Remove1 \/ Create1

------------------------------------------------------------------------------
Avail == IF f = 0 THEN 0 ELSE IF Len(files[f]) > pos THEN Len(files[f]) - pos ELSE 0

\* one iteration of `for i := 0; i < s.ReadAttempts; i++` (or the sleep when s.f == nil)
PRead ==
  /\ pc = "read"
  /\ IF f = 0 THEN
       /\ pc' = "stat" /\ UNCHANGED <<delivered, fresh, pos, readBytes, att>>
     ELSE LET n == MinOf({Avail, BufSize}) IN
       IF n > 0 THEN
         /\ A!DeliverEffect(SubSeq(files[f], pos + 1, pos + n))
         /\ pos' = pos + n /\ readBytes' = readBytes + n
         /\ att' = 0 /\ UNCHANGED pc                          \* returns; the next call starts at i = 0
       ELSE
         /\ att' = (IF att + 1 >= ReadAttempts THEN 0 ELSE att + 1)
         /\ pc'  = (IF att + 1 >= ReadAttempts THEN "stat" ELSE "read")
         /\ UNCHANGED <<delivered, fresh, pos, readBytes>>
  /\ UNCHANGED <<mode, files, cur, start, ended, dom, f, stSize, seen, domP, nA, nR, nC, nb>>

\* what the look at the path reports: does it exist, and its size
SeesLink   == PathKind = "link" /\ StatMode = "lstat"
PathExists == SeesLink \/ cur # 0
PathSize   == IF SeesLink THEN LinkLen ELSE Len(files[cur])

\* os.Stat(s.filename)
PStat ==
  /\ pc = "stat"
  /\ IF Reopen THEN
       /\ IF PathExists /\ PathSize # readBytes
          THEN pc' = "open" /\ stSize' = PathSize
          ELSE pc' = "read" /\ UNCHANGED stSize
       \* ghost: the poller looks at a re-created file for the first time
       /\ IF cur > seen
          THEN /\ seen' = cur
               /\ domP' = (domP /\ Len(files[cur]) < A!DeliveredFrom(cur - 1))
          ELSE UNCHANGED <<seen, domP>>
       /\ UNCHANGED <<ended, f, pos>>
     ELSE
       /\ IF ~PathExists
          THEN ended' = TRUE /\ f' = 0 /\ pos' = 0 /\ pc' = "done"    \* s.Close(); return 0, io.EOF
          ELSE pc' = "read" /\ UNCHANGED <<ended, f, pos>>
       /\ UNCHANGED <<stSize, seen, domP>>
  /\ UNCHANGED <<mode, files, cur, start, delivered, fresh, dom, readBytes, att, nA, nR, nC, nb>>

\* offset of the handle that is read from next, in the "continue where we left off" branch
ResumePos == CASE Resume = "readBytes" -> readBytes
               [] Resume = "none"      -> 0
               [] Resume = "size"      -> stSize

\* s.f, _ = os.Open(s.filename) (a new handle, offset 0); then Seek(readBytes) or restart
POpen ==
  /\ pc = "open"
  /\ f' = cur
  /\ IF stSize >= readBytes
     THEN pos' = (IF cur = 0 THEN 0 ELSE ResumePos) /\ UNCHANGED readBytes
     ELSE pos' = 0 /\ readBytes' = 0
  /\ pc' = "read"
  /\ UNCHANGED <<mode, files, cur, start, delivered, ended, fresh, dom, att, stSize, seen, domP, nA, nR, nC, nb>>

Reader == PRead \/ PStat \/ POpen
Next == Env \/ Reader
Spec == Init /\ [][Next]_vars /\ WF_vars(Reader)

------------------------------------------------------------------------------
TypeOK ==
  /\ f \in 0..Len(files) /\ cur \in 0..Len(files) /\ pos >= 0 /\ readBytes >= 0
  /\ pc \in {"read", "stat", "open", "done"} /\ att \in 0..ReadAttempts
\* the reader's count is the offset of the handle it reads from (what makes "seek to readBytes"
\* and "size # readBytes means something new" sound)
HandleOK == f # 0 => pos = readBytes
\* a file that stays in place (no removal so far): what was delivered is exactly what lies between
\* the starting position and the handle's offset, whatever the timing of the appends was
InPlaceExact == (cur = 1 /\ f = 1) => delivered = SubSeq(files[1], start + 1, pos)
\* the re-open branch was taken on the file that is still the one being read (coverage of the
\* "grew between the last read attempt and the stat" window: must be reachable, see the cfgs)
NeverReopensInPlace == ~(pc = "open" /\ f = cur /\ cur = 1)
\* observable form (what trace validation and the replay use)
PrefixOK   == A!PrefixOK
NoEarlyEnd == A!NoEarlyEnd
Refines    == A!ASafe
Live       == A!Live
\* exact form of the side condition
DomImplies  == dom => domP
PrefixOKP   == domP => IsPrefixOf(delivered, A!Expected)
NoEarlyEndP == (domP /\ ended) => (~Reopen /\ cur # 1)
\* control: without the domain the poller is NOT correct (must be violated)
PrefixAlways == IsPrefixOf(delivered, A!Expected)
LiveP       == <>[](domP => (A!Drained /\ (A!EndDemanded => ended)))
=============================================================================

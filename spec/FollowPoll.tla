----------------------------- MODULE FollowPoll -----------------------------
(* C15 - implementation-shaped model of pkg/followreader/poller.go.             *)
(*                                                                              *)
(* PollingFollowReader.Read, one action per system call: up to ReadAttempts     *)
(* reads of the open file (readBytes += n; a sleep between them is only a       *)
(* delay), then os.Stat(path) and the comparison of its size with readBytes,    *)
(* then - a separate step, the environment may act in between - os.Open and     *)
(* either Seek(readBytes) or "restart from the beginning".                      *)
(*                                                                              *)
(* Ghosts `seen`/`domP` record the exact moment the poller first stats a        *)
(* re-created file, i.e. the side condition "the new file is still shorter      *)
(* than what was already delivered when the poller notices it" in its exact     *)
(* form; Follow.tla's `dom` is the observable (angelic) form, dom => domP.      *)
EXTENDS Bytes, TLC

CONSTANTS Reopen, TailMode, InitLen, AppLens, MaxAppends, MaxRemoves, MaxCreates,
          BufSize, ReadAttempts

VARIABLES mode, files, cur, start, delivered, ended, fresh, dom,   \* Follow.tla
          f, pos, readBytes, att, pc, stSize,                      \* reader
          seen, domP,                                              \* ghosts
          nA, nR, nC, nb

A == INSTANCE Follow

vars == <<mode, files, cur, start, delivered, ended, fresh, dom, f, pos, readBytes, att, pc, stSize,
          seen, domP, nA, nR, nC, nb>>
rdr  == <<f, pos, readBytes, att, pc, stSize, seen, domP>>

Run(from, n) == [i \in 1..n |-> from + i - 1]

Init ==
  /\ A!AInit([poll |-> TRUE, reopen |-> Reopen, tail |-> TailMode], Run(65, InitLen))
  /\ f = 1 /\ pos = start /\ readBytes = start       \* NewPolling; Drain() with tail
  /\ att = 0 /\ pc = "read" /\ stSize = 0
  /\ seen = 1 /\ domP = TRUE
  /\ nA = 0 /\ nR = 0 /\ nC = 0 /\ nb = 97

------------------------------------------------------------------------------
Append1 ==
  /\ nA < MaxAppends
  /\ \E n \in AppLens : A!EnvAppend(Run(nb, n)) /\ nb' = nb + n
  /\ nA' = nA + 1
  /\ UNCHANGED <<rdr, nR, nC>>
Remove1 ==
  /\ nR < MaxRemoves
  /\ A!Drained
  /\ A!EnvRemove
  /\ nR' = nR + 1
  /\ UNCHANGED <<rdr, nA, nC, nb>>
Create1 ==
  /\ nC < MaxCreates
  /\ A!EnvCreate
  /\ nC' = nC + 1
  /\ UNCHANGED <<rdr, nA, nR, nb>>
Env == Append1 \/ Remove1 \/ Create1

------------------------------------------------------------------------------
Avail == IF f = 0 THEN 0 ELSE IF Len(files[f]) > pos THEN Len(files[f]) - pos ELSE 0

\* one iteration of `for i := 0; i < s.ReadAttempts; i++` (or the sleep when s.f == nil)
PRead ==
  /\ pc = "read"
  /\ IF f = 0 THEN
       /\ pc' = "stat" /\ UNCHANGED <<delivered, fresh, pos, readBytes, att>>
     ELSE LET n == MinOf({Avail, BufSize}) IN
       IF n > 0 THEN
         /\ A!DeliverEffect(SubSeq(files[f], pos + 1, pos + n))
         /\ pos' = pos + n /\ readBytes' = readBytes + n
         /\ att' = 0 /\ UNCHANGED pc                          \* returns; the next call starts at i = 0
       ELSE
         /\ att' = (IF att + 1 >= ReadAttempts THEN 0 ELSE att + 1)
         /\ pc'  = (IF att + 1 >= ReadAttempts THEN "stat" ELSE "read")
         /\ UNCHANGED <<delivered, fresh, pos, readBytes>>
  /\ UNCHANGED <<mode, files, cur, start, ended, dom, f, stSize, seen, domP, nA, nR, nC, nb>>

\* os.Stat(s.filename)
PStat ==
  /\ pc = "stat"
  /\ IF Reopen THEN
       /\ IF cur # 0 /\ Len(files[cur]) # readBytes
          THEN pc' = "open" /\ stSize' = Len(files[cur])
          ELSE pc' = "read" /\ UNCHANGED stSize
       \* ghost: the poller looks at a re-created file for the first time
       /\ IF cur > seen
          THEN /\ seen' = cur
               /\ domP' = (domP /\ Len(files[cur]) < A!DeliveredFrom(cur - 1))
          ELSE UNCHANGED <<seen, domP>>
       /\ UNCHANGED <<ended, f, pos>>
     ELSE
       /\ IF cur = 0
          THEN ended' = TRUE /\ f' = 0 /\ pos' = 0 /\ pc' = "done"    \* s.Close(); return 0, io.EOF
          ELSE pc' = "read" /\ UNCHANGED <<ended, f, pos>>
       /\ UNCHANGED <<stSize, seen, domP>>
  /\ UNCHANGED <<mode, files, cur, start, delivered, fresh, dom, readBytes, att, nA, nR, nC, nb>>

\* s.f, _ = os.Open(s.filename); then Seek(readBytes) or restart
POpen ==
  /\ pc = "open"
  /\ f' = cur
  /\ IF stSize >= readBytes
     THEN pos' = (IF cur = 0 THEN 0 ELSE readBytes) /\ UNCHANGED readBytes
     ELSE pos' = 0 /\ readBytes' = 0
  /\ pc' = "read"
  /\ UNCHANGED <<mode, files, cur, start, delivered, ended, fresh, dom, att, stSize, seen, domP, nA, nR, nC, nb>>

Reader == PRead \/ PStat \/ POpen
Next == Env \/ Reader
Spec == Init /\ [][Next]_vars /\ WF_vars(Reader)

------------------------------------------------------------------------------
TypeOK ==
  /\ f \in 0..Len(files) /\ cur \in 0..Len(files) /\ pos >= 0 /\ readBytes >= 0
  /\ pc \in {"read", "stat", "open", "done"} /\ att \in 0..ReadAttempts
\* observable form (what trace validation and the replay use)
PrefixOK   == A!PrefixOK
NoEarlyEnd == A!NoEarlyEnd
Refines    == A!ASafe
Live       == A!Live
\* exact form of the side condition
DomImplies  == dom => domP
PrefixOKP   == domP => IsPrefixOf(delivered, A!Expected)
NoEarlyEndP == (domP /\ ended) => (~Reopen /\ cur # 1)
\* control: without the domain the poller is NOT correct (must be violated)
PrefixAlways == IsPrefixOf(delivered, A!Expected)
LiveP       == <>[](domP => (A!Drained /\ (A!EndDemanded => ended)))
=============================================================================

--------------------------- MODULE ExprSyntax_Gen ---------------------------
(* B1 generator for C09: every case of ExprSyntaxCases (the same states          *)
(* ExprSyntax_MC explores, so LawOK can be checked in the same run) is printed   *)
(* with what the specification expects of the REAL compiler:                     *)
(*   text   the template (code points)                                           *)
(*   kind   rt | err | esc | any                                                 *)
(*   out    rt/esc: the rendering with transparent functions and the recording   *)
(*          context, i.e. the spelling of the abstract tree - NOT of ParseModel  *)
(*   lo hi  err: the classes that must / may be reported (rt, esc: none)         *)
(*   lon    err: how many errors of each class must be reported at least (every  *)
(*          empty statement / unregistered function is an error of its own)      *)
(*   cli    the template can be given to `rare expression` (no test function)    *)
(* The Go driver compiles `text` with a fresh key builder (optimised and not),   *)
(* evaluates it and compares.                                                    *)
EXTENDS ExprSyntax_MC, Json

RECURSIVE NoRegCall(_)
NoRegCall(a) == ~(a.k = "call" /\ a.s \in Funcs) /\ \A j \in 1..Len(a.args) : NoRegCall(a.args[j])

NoErr == [cl \in ErrClasses |-> 0]
Vec(g, x) ==
  LET kd == KindOf(g) IN
  CASE kd = "rt"  -> [g |-> g, kind |-> kd, text |-> PrintTpl(x), out |-> Spell(StripT(x)), lo |-> <<>>, hi |-> <<>>, lon |-> NoErr,
                      cli |-> \A j \in 1..Len(x) : NoRegCall(x[j])]
    [] kd = "err" -> [g |-> g, kind |-> kd, text |-> PrintTpl(x), out |-> <<>>, lo |-> SetToSeq(ErrLower(x)), hi |-> SetToSeq(ErrUpper(x)),
                      lon |-> ErrLowCnts(x), cli |-> \A j \in 1..Len(x) : NoRegCall(x[j])]
    [] kd = "esc" -> [g |-> g, kind |-> kd, text |-> EscapeP(x[1], x[2]), out |-> x[1], lo |-> <<>>, hi |-> <<>>, lon |-> NoErr, cli |-> TRUE]
    [] OTHER      -> [g |-> g, kind |-> kd, text |-> x, out |-> <<>>, lo |-> <<>>, hi |-> <<>>, lon |-> NoErr, cli |-> FALSE]

Dump == c.lv = 2 => PrintT("VFJ " \o ToJson(Vec(c.g, c.x)))
=============================================================================

--------------------------- MODULE PipelineLines ---------------------------
(* Constant-level definitions shared by PipelineObs (abstract) and Pipeline        *)
(* (implementation-shaped): the inputs and the classification rule of C01.         *)
(* A line is described by the three facts that decide its class:                  *)
(*    m   - did the matcher find a match                                          *)
(*    ig  - one truth value per ignore expression (its value is "truthy")         *)
(*    k   - the extracted key (0 = the empty key; any other value = that key)     *)
EXTENDS Integers, Sequences, FiniteSets

CONSTANT Lines        \* Lines[f][i] = [m |-> BOOLEAN, ig |-> Seq(BOOLEAN), k |-> Nat]

NF == Len(Lines)
LineIds == UNION {{<<f, i>> : i \in 1..Len(Lines[f])} : f \in 1..NF}
LineOf(id) == Lines[id[1]][id[2]]

\* The classification rule of the property (extractor.go processLineSync, ignoreset.go):
\*   no match                          -> unmatched
\*   SOME ignore expression is truthy  -> ignored
\*   the key is empty                  -> ignored
\*   otherwise                         -> matched
Classify(m, ig, keyEmpty) ==
  IF ~m THEN "unmatched"
  ELSE IF \E i \in DOMAIN ig : ig[i] THEN "ignored"
  ELSE IF keyEmpty THEN "ignored"
  ELSE "matched"

ClassOf(id) == Classify(LineOf(id).m, LineOf(id).ig, LineOf(id).k = 0)
OfClass(c) == {id \in LineIds : ClassOf(id) = c}

\* Truthiness of an expression value given as a sequence of ASCII bytes
\* (expressions.Truthy: strings.TrimSpace(s) # "").  Domain: bytes < 128.
AsciiOnly(v) == \A i \in DOMAIN v : v[i] < 128
TruthyAscii(v) == \E i \in DOMAIN v : v[i] \notin {9, 10, 11, 12, 13, 32}
=============================================================================

---------------------------- MODULE MiniJsonHist ----------------------------
(* C16 - the property over HISTORIES of evaluations.                            *)
(*                                                                              *)
(* A JSON view is evaluated by a long-lived object (one expression context per   *)
(* worker, reused for every line of every source the worker is handed).  The    *)
(* property speaks about *matches*, so over a whole history of evaluations      *)
(*                                                                              *)
(*    the text of a view is a function of that match's captures only            *)
(*                                                                              *)
(* - not of the source, the line number, the worker, the batch, or of what the  *)
(* context evaluated before.  A history is a sequence of events                 *)
(*    [groups, named, numbered, out, crash]                                     *)
(* under one matcher (`names`): the captures of the match the context had been  *)
(* given, the view that was evaluated, the text that came out (crash = the      *)
(* evaluation panicked instead of returning a text).                            *)
(*                                                                              *)
(*   HistoryOK(names, h)    every event returned, its text meets the requirement *)
(*                          for ITS captures (MiniJson!Meets), and events with  *)
(*                          equal captures and view carry equal texts           *)
(*   HistClasses(names, h)  the same law as a total classifier (one class per   *)
(*                          event) used on recorded histories; MiniJsonCtx      *)
(*                          shows  HistoryOK <=> every class is "ok"            *)
EXTENDS MiniJson

EvExp(names, e) == Expected(names, e.groups, e.named, e.numbered)
SameMatch(a, b) == a.groups = b.groups /\ a.named = b.named /\ a.numbered = b.numbered

FunctionOfCaptures(h) ==
  \A i, j \in 1..Len(h) : (~h[i].crash /\ ~h[j].crash /\ SameMatch(h[i], h[j])) => h[i].out = h[j].out

HistoryOK(names, h) ==
  /\ \A i \in 1..Len(h) : ~h[i].crash /\ Meets(h[i].out, EvExp(names, h[i]))
  /\ FunctionOfCaptures(h)

\* one class per event:
\*   crash             the evaluation did not return
\*   stale-view        the text does not meet the requirement for this match, and it is the (acceptable)
\*                     text of ANOTHER match of the history - the view was not computed from this match
\*   <Why class>       the text does not meet the requirement (invalid:.., unfaithful:.., missing-member ..)
\*   nondeterministic  acceptable, but an earlier event with the same captures and view has another text
\* (built with recursive operators: TLC evaluates them once, a function constructor would be re-evaluated
\* at every application)
RECURSIVE ParsesFrom(_, _)
ParsesFrom(h, i) == IF i > Len(h) THEN <<>> ELSE <<IF h[i].crash THEN Fail ELSE Parse(h[i].out)>> \o ParsesFrom(h, i + 1)
Parses(h) == ParsesFrom(h, 1)                     \* ps[i] = Parse(h[i].out)

RECURSIVE WhysFrom(_, _, _, _)
WhysFrom(names, h, ps, i) ==
  IF i > Len(h) THEN <<>>
  ELSE <<IF h[i].crash THEN "crash" ELSE WhyP(ps[i], h[i].out, EvExp(names, h[i]))>> \o WhysFrom(names, h, ps, i + 1)

RECURSIVE ClassesFrom(_, _, _)
ClassesFrom(h, w, i) ==
  IF i > Len(h) THEN <<>>
  ELSE <<IF w[i] = "crash" THEN "crash"
         ELSE IF w[i] # "ok"
              THEN (IF \E j \in 1..Len(h) : j # i /\ w[j] = "ok" /\ h[j].out = h[i].out /\ ~SameMatch(h[j], h[i])
                    THEN "stale-view" ELSE w[i])
              ELSE (IF \E j \in 1..(i - 1) : w[j] = "ok" /\ SameMatch(h[j], h[i]) /\ h[j].out # h[i].out
                    THEN "nondeterministic" ELSE "ok")>> \o ClassesFrom(h, w, i + 1)

HistClassesP(names, h, ps) == ClassesFrom(h, WhysFrom(names, h, ps, 1), 1)
HistClasses(names, h) == HistClassesP(names, h, Parses(h))

AllOk(cl) == \A i \in 1..Len(cl) : cl[i] = "ok"

-----------------------------------------------------------------------------
(* The text as an aggregation key ("the same match always yields the same text,  *)
(* so the result can be used as an aggregation key"): a table keyed by a view     *)
(* over an input whose distinct matches are classes[c] = [groups, count] has one  *)
(* row per class - its key meets the requirement for that class, its count is the *)
(* multiplicity - whatever sources and line numbers the matches came from.        *)
(* Domain: classes that no single text can stand for at once (some named capture  *)
(* differs and both texts are plain well-formed strings, so they decode exactly). *)
Plain(x) == x # <<>> /\ IsUtf8(x) /\ ~NumericLooking(x) /\ LowerASCII(x) \notin {TrueLit, FalseLit}
Incompatible(names, a, b) ==
  \E k \in 1..Len(names) : LET x == GroupText(a, names[k][2])  y == GroupText(b, names[k][2]) IN x # y /\ Plain(x) /\ Plain(y)
AggDomain(names, classes) ==
  /\ \A c \in 1..Len(classes) : NamesOK(names, classes[c].groups) /\ classes[c].count >= 1
  /\ \A c, d \in 1..Len(classes) : c # d => Incompatible(names, classes[c].groups, classes[d].groups)

RECURSIVE RowParses(_, _)
RowParses(rows, i) == IF i > Len(rows) THEN <<>> ELSE <<Parse(rows[i][1])>> \o RowParses(rows, i + 1)
MeetsP(p, exp) == p.ok /\ MembersMeet(p.mem, exp)

\* rows = <<key, count>> of the table keyed by the NAMED view {.}; ngroups = the reported number of keys
AggClass(names, classes, rows, ngroups) ==
  IF ngroups # Len(classes) \/ Len(rows) # Len(classes) THEN "histogram:groups"
  ELSE LET ps   == RowParses(rows, 1)
           exp(c) == Expected(names, classes[c].groups, TRUE, FALSE)
           bad  == {c \in 1..Len(classes) : ~\E i \in 1..Len(rows) : MeetsP(ps[i], exp(c)) /\ rows[i][2] = classes[c].count}
       IN IF bad = {} THEN "ok"
          ELSE IF \E i \in 1..Len(rows) : MeetsP(ps[i], exp(MinOf(bad))) THEN "histogram:count" ELSE "histogram:key"
=============================================================================

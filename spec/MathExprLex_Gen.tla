--------------------------- MODULE MathExprLex_Gen ---------------------------
(* B1 generator for the lexical layer of C19: the texts of MathExprLex_MC (every *)
(* edited operand in every context, every short string over six alphabets), each *)
(* with what MathExprLex says about it:                                          *)
(*   cls  "mal"   must be rejected at compile time (why = bracket | operand |    *)
(*                structure | blank-in-group)                                    *)
(*        "wf"    must compile and evaluate to exp[b] under binding Bindings[b]  *)
(*                (def = FALSE: nothing but "no crash" is demanded)              *)
(*        "undoc" any verdict, no crash                                          *)
(*   impl what the byte-level transcription of the code does with it (accepts?)  *)
(*        - not a verdict: the driver counts how often the real code agrees      *)
(* The same run checks the per-text laws of MathExprLex_MC.                      *)
EXTENDS MathExprLex_MC, Json

LBindings == <<
  <<<<0, 1>>, <<3, 1>>>>,
  <<<<0 - 3, 1>>, <<1, 2>>>>,
  <<<<7, 2>>, <<0 - 1, 4>>>>,
  <<<<4, 1>>, <<0, 1>>>>,
  <<<<2, 1>>, <<0 - 2, 1>>>> >>
LExp(t) == [b \in 1..Len(LBindings) |-> LET v == Value(t, LBindings[b]) IN [def |-> v.def, n |-> v.n, d |-> v.d]]
LVector(s) ==
  LET o == LexClass(s.T) IN
  [g |-> s.g, a |-> s.a, text |-> s.T, cls |-> o.cls, why |-> o.why,
   exp |-> IF o.cls = "wf" THEN LExp(o.t) ELSE <<>>, impl |-> JParse(s.T, Real).ok]
LDump == st.g # "ctl" => PrintT("VFJ " \o ToJson(LVector(st)))
=============================================================================

------------------------------ MODULE ExprTotal ------------------------------
(* C08 - no template and no input line can crash expression compilation or      *)
(* evaluation.  The oracle of this property is only "returns"; what the model    *)
(* contributes is the SPACE that has to be visited and, for every point of it,   *)
(* the outcome class the real compiler has to show:                              *)
(*                                                                               *)
(*   Sig        the signature table of every helper registered in                *)
(*              pkg/expressions/stdlib (name, arity range, the kind of every     *)
(*              argument position, the positions that must be compile-time       *)
(*              constants).  The table is cross-checked against the real         *)
(*              registry on every run (a helper missing on either side makes     *)
(*              the check inconclusive: the space would be out of date).         *)
(*   Pool(k)    the boundary-value pool of every argument kind (integers of      *)
(*              every magnitude and sign as text, floats, empty/blank/odd-byte/  *)
(*              very long strings, indices, arrays, sub-expressions, time        *)
(*              formats and zones, printf formats, JSON, formulas ...);          *)
(*              Core(k) is the sub-pool used in cross products.                  *)
(*   Admissible the resource exclusion: argument combinations whose RESULT has   *)
(*              10^7 .. 10^18 elements (the documented warning of @range /       *)
(*              @for / repeat, and bar lengths of that size) are not part of     *)
(*              the space; overflow-sized counts are.                            *)
(*   templates  a template is a sequence of tokens (TLA+ strings) that is        *)
(*              concatenated to its text: Call / argument spellings print the    *)
(*              documented syntax, Mutations are the malformation operators      *)
(*              (drop, duplicate, insert one of { } " \ blank, truncate,         *)
(*              trailing backslash) over token positions.                        *)
(*   Cls        the outcome class of a template: "ok"  - compiles without a      *)
(*              compile error, "err" - a compile error is reported, "any" -      *)
(*              either; and in every class: every compilation returns and every  *)
(*              evaluation of whatever was returned gives a string.              *)
(*                                                                               *)
(* Values are only forwarded (TLC integers are 32 bit; the model never computes  *)
(* with 2^63): a value is a record with an id, ASCII text s, extra bytes b, a    *)
(* repeat count r (content = (s ++ b) repeated r times) and q, its spelling as   *)
(* a constant inside a template ("" = match data only).                          *)
EXTENDS Integers, Sequences, FiniteSets, TLC, SequencesExt, FiniteSetsExt, ExprText

\* =================================================================== values
Val(id, s, b, r, q, x) == [id |-> id, s |-> s, b |-> b, r |-> r, q |-> q, x |-> x]
V(s)            == Val(s, s, <<>>, 1, "\"" \o s \o "\"", FALSE)   \* text, written in double quotes
W(s)            == Val(s, s, <<>>, 1, s, FALSE)                    \* a bare word
VQ(id, s, q)    == Val(id, s, <<>>, 1, q, FALSE)                   \* text spelled with the escapes \n \t \r
D(id, s, b, r)  == Val(id, s, b, r, "", FALSE)                     \* match data only (odd bytes, long)
\* a spelling with quotes, braces or backslashes inside: the scanners un-escape on several levels, so it may
\* split into a different number of arguments - it is still a template, but no outcome class is predicted
X(id, s, q)     == Val(id, s, <<>>, 1, q, TRUE)

Empty   == V("")
Blank   == V(" ")
LongA   == D("long:a*70000", "a", <<>>, 70000)
Long9   == D("long:9*400", "9", <<>>, 400)
NulB    == D("bytes:NUL", "", <<0>>, 1)
BadUtf  == D("bytes:ff-fe", "", <<255, 254>>, 1)
MixB    == D("bytes:a-NUL-c3-LF", "a", <<0, 195, 10>>, 1)
LongLine == D("long:ab-NUL*20000", "ab", <<0>>, 20000)

\* ---- texts with multi-byte characters (ExprText: character classes, their encoding, their length in every unit).
\* The repository's tests are ASCII, where bytes = runes = columns; these values are the ones on which the units differ,
\* by more than any allocation slack (TextAdequate in ExprSizes), and the ones that sit on a power-of-two boundary.
TextCore == {Txt("txt:c3*11", Rep("c3", 11), 1),                        \* 33 bytes, 11 runes, 22 columns
             Txt("txt:m4*40", <<"m4">>, 40),                            \* 160 bytes, 40 runes, 80 UTF-16 units
             Txt("txt:a*31-e2", Rep("a", 31) \o <<"e2">>, 1),           \* 32 runes in 33 bytes
             Txt("txt:mix", <<"a", "e2", "c3", "m4", "cmb", "bad", "k2", "tr", "sur">>, 1)}
TextPool == TextCore \cup
            {Txt("txt:e2", <<"e2">>, 1), Txt("txt:c3*3", Rep("c3", 3), 1), Txt("txt:m4", <<"m4">>, 1),
             Txt("txt:a*63-e2", Rep("a", 63) \o <<"e2">>, 1), Txt("txt:e2-a*63", <<"e2">> \o Rep("a", 63), 1),
             Txt("txt:e2*100", <<"e2">>, 100), Txt("txt:a-cmb*40", <<"a">> \o Rep("cmb", 40), 1),
             Txt("txt:k2*33", Rep("k2", 33), 1), Txt("txt:a-a-tr", <<"a", "a", "tr">>, 1),
             Txt("txt:mix*300", <<"a", "e2", "c3", "m4", "cmb", "bad", "k2">>, 300),
             Txt("txt:c3*20000", <<"c3">>, 20000)}
\* arrays whose elements are such texts (NUL separates the elements)
TextArrays == {Txt("txtarr:c3-e2-m4", <<"c3", "c3", "nul", "e2", "nul", "m4", "a">>, 1),
               Txt("txtarr:m4*40", <<"m4", "nul">>, 40),
               Txt("txtarr:c3*3*12", <<"c3", "c3", "c3", "nul">>, 12)}
\* a text is written as a constant through a placeholder that the driver replaces by the bytes (TLA+ strings are ASCII here);
\* the very long ones are match data only
TVal(t) == Val(t.id, "", Enc(t.cs), t.r, IF Meas("byte", t) <= 1000 THEN "\"$$V:" \o t.id \o "$$\"" ELSE "", FALSE)
TextVals(ts) == {TVal(t) : t \in ts}
\* an offset or a length as an argument value
NumVal(n) == W(ToString(n))

\* ---- integers as text (the model forwards them)
Max31 == W("2147483647")
Min31 == W("-2147483648")
P31   == W("2147483648")
Max63 == W("9223372036854775807")
Min63 == W("-9223372036854775808")
P63   == W("9223372036854775808")     \* not an int64
M63   == W("-9223372036854775809")    \* not an int64
Max64 == W("18446744073709551615")    \* the largest uint64
P64   == W("18446744073709551616")

IntCore == {W("0"), W("1"), W("-1"), W("7"), Max31, Max63, Min63, P63}
IntPool == IntCore \cup {W("2"), W("-2"), W("1000"), Min31, P31, M63, Max64, P64,
                         W("+5"), W("007"), W("0x10"), W("1_000"), V(" 1"), W("1.0"), W("1e3"), W("-0")}

\* counts: how many times something is produced.  10^7 .. 10^18 is the documented
\* resource warning and not part of the space; everything else is.
CntCore == {W("0"), W("1"), W("-1"), W("3"), W("1000"), P31, Max63, Min63, P63}
CntPool == CntCore \cup {Min31, W("-2"), W("x"), Empty, Max64, W("1.5")}

\* precisions (number of decimals): any size is harmless by design
PrecCore == {W("0"), W("1"), W("-1"), W("17"), W("400"), Max31, Max63, Min63}
PrecPool == PrecCore \cup {W("1100"), W("1101"), P31, P63, W("x"), Empty, W("2.5")}

FltCore == {W("0"), W("-0"), W("0.5"), W("-1.5"), W("1e308"), W("-1e308"), W("NaN"), W("Inf"), W("-Inf"), Max63}
FltPool == FltCore \cup {W("5e-324"), W("1e309"), W("1e-400"), W("0x1p-2"), W("1_0.5"), W(".5"), W("5."), W("1e"),
                         W("+Inf"), W("infinity"), W("nan"), W("1.7976931348623157e308"), Min63, P63, Max64, W("1,5"),
                         Long9, W("100"), W("3")}

IdxCore == {W("0"), W("1"), W("-1"), W("2"), W("3"), W("4"), W("-3"), W("-4"), Max63, Min63}
IdxPool == IdxCore \cup {Max31, Min31, P63, W("x"), Empty, W("1.5")}

StrCore == {Empty, Blank, W("a"), V("a b c"), W("abc"), NulB, BadUtf, LongA}
StrPool == StrCore \cup TextVals(TextPool) \cup {MixB, V("  "), VQ("str:tab-nl", "\t\n", "\"\\t\\n\""), X("str:quote", "a\"b", "\"a\\\"b\""),
                         X("str:braces", "{0}", "\"\\{0\\}\""), X("str:backslash", "a\\", "\"a\\\\\""), W("%s"),
                         W("1"), W("0"), W("-1"), Max63, W("<BAD-TYPE>"), X("str:2quotes", "\"\"", "\"\"\"\"")}

\* arrays: elements separated by NUL
Arr(id, n)  == D(id, "7", <<0>>, n)
ArrCore == {Empty, W("a"), D("arr:a-b-c", "a", <<0, 98, 0, 99>>, 1), D("arr:NUL", "", <<0>>, 1),
            D("arr:1-2-x--3", "1", <<0, 50, 0, 120, 0, 45, 51>>, 1), D("arr:NUL-NUL", "", <<0, 0>>, 1)}
ArrPool == ArrCore \cup TextVals(TextArrays) \cup {Arr("arr:7*1000", 1000), D("arr:max63-min63-p63", "9223372036854775807", <<0>>, 1),
                         D("arr:ints", "9223372036854775807", <<0, 45, 57, 50, 50, 51, 51, 55, 50, 48, 51, 54, 56, 53, 52, 55, 55, 53, 56, 48, 56,
                                                                   0, 48, 0, 57, 50, 50, 51, 51, 55, 50, 48, 51, 54, 56, 53, 52, 55, 55, 53, 56, 48, 56>>, 1),
                         D("arr:ff-NUL-long", "", <<255, 0>>, 3000), Blank, LongA}

\* ---- sub-expressions of the array helpers ({0} = element / memo, {1} = second value / index)
SubCore == {W("{0}"), W("{1}"), W("{-1}"), W("{2}"), W("{k0}"), W("{sumi {0} {1}}"), W("{divi {0} {1}}"),
            W("{substr {0} {1} 9223372036854775807}"), W("{@map {0} {-1}}"), W("{-9223372036854775808}")}
SubPool == SubCore \cup {W("{99999999999999999999}"), W("{src}"), W("{.}"), W("{@select {0} -1}"), W("{modi {1} {0}}"),
                         W("{@slice {0} -9 3}"), W("{time live}"), W("{! [0] % [1]}"), W("{! [-1] << [0]}"), Empty, W("x"),
                         W("{@reduce {0} {@map {1} {-2}}}"), W("{select {0} {1}}"), W("{nope}"), W("{0}{1}"),
                         W("{@for {0} {lt {1} 3} {sumi {0} 1}}")}      \* (a growing loop body under @reduce is exponential: "for" group only)
PredCore == {W("{0}"), W("{1}"), W("{lt {0} 3}"), W("{not {0}}"), Empty, W("1"), W("{-1}"), W("{eq {0} {1}}")}
PredPool == PredCore \cup {W("{isint {0}}"), W("{@in {0} {@ a 1}}"), W("{gt {0} {k0}}"), W("{divi 1 {0}}"), Blank}

\* ---- enumerations and small languages
ColorPool  == {W("red"), W("Black"), W("BRIGHTWHITE"), W("nocolor"), Empty, W("0"), LongA, W("-1")}
ScalerPool == {W("linear"), W("lin"), W("log10"), W("log"), W("log2"), Empty, W("LOG2"), W("ln"), W("0")}
TfmtCore   == {Empty, W("cache"), W("auto"), W("RFC3339"), W("NGINX"), W("2006-01-02"), W("unix"), W("%Y")}
TfmtPool   == TfmtCore \cup {W("ANSIC"), W("RUBY"), W("RFC822"), W("RFC822Z"), W("RFC1123"), W("RFC1123Z"), W("RFC3339N"),
                             W("MONTH"), W("MONTHNAME"), W("MNTH"), W("DAY"), W("YEAR"), W("HOUR"), W("MINUTE"), W("SECOND"),
                             W("TIMEZONE"), W("NTIMEZONE"), W("NTZ"), W("WEEKDAY"), W("WDAY"), W("AUTO"), W("Cache"),
                             W("Z07:00"), W("_2"), W(".000"), W(",999999999"), W("2006-01-02T15:04:05.999999999Z07:00"),
                             W("Monday,January"), W("15h04m05s.000000"), W("__2"), W("002"), W("-07:00:00"), W("PM"), V(" "),
                             W("1"), W("20060102150405")}
TzCore     == {Empty, W("utc"), W("local"), W("America/New_York"), W("nowhere/none")}
TzPool     == TzCore \cup {W("UTC"), W("Local"), W("Europe/Berlin"), W("Asia/Kolkata"), W("Pacific/Chatham"), W("Etc/GMT+12"),
                           W("../../etc/passwd"), W("/etc/passwd"), W("EST5EDT"), W("0"), V(" "), W("America/New_York/x")}
TattrPool  == {W("weekday"), W("WEEK"), W("yearweek"), W("Quarter"), W("month"), Empty, W("0"), V(" week")}
TbucketPool == {W("n"), W("nanos"), W("s"), W("second"), W("min"), W("minutes"), W("h"), W("hours"), W("d"), W("DAY"),
                W("mo"), W("month"), W("y"), W("years"), W("m"), Empty, W("x"), W("hourss"), W("0")}
TstrCore   == {V("2023-01-02T03:04:05Z"), V("02/Jan/2006:15:04:05 -0700"), W("1700000000"), Empty, Blank,
               V("0000-00-00 00:00:00"), V("9999-12-31 23:59:59"), V("Feb 30 2020"), W("now"), BadUtf}
TstrPool   == TstrCore \cup {W("12/31/99"), V("24:00"), V("1/1/1 1:1:1"), V("2006-01-02 15:04:05.999999999999"),
                             V("Mon Jan  2 15:04:05 MST 2006"), V("Mon, 02 Jan 2006 15:04:05 -0700"), W("live"), W("delta"), W("NOW"),
                             V("2023-13-45"), V("2023-02-29T25:61:61Z"), V("May 8, 2009 5:57:51 PM"), W("2014-04-26"),
                             W("20140601"), W("1384216367189"), V("12 Feb 2006, 19:17"), V("2006-01-02T15:04:05+99:99"),
                             V("2015-02-18 00:12:00 +0000 GMT"), V("1 January 99999999999999"), W("-1"), W("-"), W("T"), W(":"),
                             W("//"), V("Z"), V("+00:00"), NulB, MixB, Long9, LongA, Max63, Min63, W("0"),
                             V(", , ,"), V("2023-01-02 03:04:05 PM +0000 UTC m=+0.1"), V("oct. 7, '70"), V("7 oct 70"),
                             V("2014年04月08日"), V("Tue, 11 Jul 2017 16:28:13 +0200 (CEST)"), V("171113 14:14:20")}
UtimeCore  == {W("0"), W("-1"), W("1700000000"), Max31, W("253402300799"), W("253402300800"), Max63, Min63, P63, W("-62135596800")}
UtimePool  == UtimeCore \cup {W("-62135596801"), W("-9223372036854775807"), W("9223372036854775806"), W("67768036191676799"),
                              W("67768036191676800"), W("-67768040609740800"), W("1.5"), Empty, W("x"), Min31, P31,
                              W("951782400"), W("1711846800"), W("-2208988800")}
DurPool    == {W("1h2m3s"), W("0"), W("-1.5h"), W("1ns"), W("9999999999h"), W("2562047h47m16.854775807s"),
               W("2562047h47m16.854775808s"), W("-2562047h47m16.854775808s"), W("1d"), W("1"), Empty, W("h"), W(".s"),
               W("1e3s"), W("9223372036854775807ns"), W("9223372036854775808ns"), V("1 h"), W("+-1s"), W("0.000000000000000001h"),
               BadUtf, LongA, Long9}
FmtCore    == {W("%s"), W("%d"), W("%5s|%-5s"), W("%%"), W("%"), Empty, W("%[2]s"), W("%*d")}
FmtPool    == FmtCore \cup {W("%!"), W("%[9]s"), W("%[0]s"), W("%[-1]s"), W("%.9999999s"), W("%999999d"), W("%9999999999d"),
                            W("%v|%T|%q|%x|%U|%c|%e|%t|%p"), W("%[1]*[2]d"), W("%[2]*[1]d"), W("%.*s"), W("%s%s%s%s"),
                            W("%[18446744073709551616]s"), W("%-+#0 10.3s"), W("%[1]"), W("%[")}
JsDoc      == D("js:doc", "{\"a\":{\"b\":[1,2,{\"c\":\"x\"}],\"n\":9223372036854775808,\"f\":1e999}}", <<>>, 1)
JsCore     == {W("a"), W("a.b"), JsDoc, W("#"), W("a.#"), Empty, W("@this"), W("a.b.2.c")}
JsPool     == JsCore \cup {W("a.#.c"), W("a.#(c==x)#"), W("a.#(c==x"), W("#(#(#(#("), W("@reverse"), W("@pretty:"), W("@flatten|@join|@values"),
                           W("..a"), W("a|b|c|"), W("*.?"), X("js:esc-dot", "a\\.b", "a\\\\.b"), W("a.-1"), W("a.9223372036854775808"), W("@"), W("!"), W("[a,b]"),
                           W("[a,b"), V("[[[[[[[["), X("js:braces", "{{{{", "\"\\{\\{\\{\\{\""), X("js:quote-bs", "\"\\", "\"\\\"\\\\\""), V("[1,2"), X("js:open", "{\"a\":", "\"\\{\\\"a\\\":\""), W("nul"), W("-"), W("1e"),
                           W("#.#.#"), W("a.@this.@this"), W("@tostring:x"), W("@fromstr"), W("@group"), W("@dig:a"), W("@keys"),
                           D("js:deep", "[", <<>>, 20000), D("js:deepobj", "{\"a\":", <<>>, 5000), NulB, BadUtf, LongA}
PathPool   == {W("a/b/c.txt"), W("/"), W("//"), Empty, W("."), W(".."), W("a/"), W("/a/b/"), W(".hidden"), W("a.b.c"), W("a/b."),
               V("a b/c d.e f"), X("path:backslashes", "\\a\\b", "\\\\a\\\\b"), NulB, BadUtf, LongA, D("path:deep", "a/", <<>>, 30000), W("../../.."), W("a//b//")}
TablePool  == {VQ("table:a1-b2", "a 1\nb 2", "\"a 1\\nb 2\""), Empty, W("a"), V("a b c"), VQ("table:comments", "#x\n\n  \na\n# a 2", "\"#x\\n\\n  \\na\\n# a 2\""),
               VQ("table:crlf", "a 1\r\nb 2\r\n", "\"a 1\\r\\nb 2\\r\\n\""), V("a 1"), V("   ")}
CprefPool  == {W("#"), Empty, W("//"), W("a"), V(" ")}
FilePool   == {W("/dev/null"), W("/nonexistent/file"), Empty, W("/"), W("."), W("/proc/self/nonexistent"), V(" ")}
DelimPool  == {V(","), V(" "), Empty, V(", "), W("ab"), VQ("delim:tab", "\t", "\"\\t\""), W("aa"), W("7")}
MathPool   == {V("1 + 2"), V("[0] + [1]"), V("x * 2"), Empty}          \* the formula space proper is Formulas below

(* @for start cont incr: runs until cont is falsy (at most 10^6 rounds, then     *)
(* <INF>) and appends the current value every round, so an unbounded condition   *)
(* with a growing or long value is the documented memory warning.                *)
ForBounded == {W("{lt {1} 3}"), W("{lt {1} 0}"), Empty, W("{-1}"), W("{eq {1} 0}"), W("{@in {1} {@ 0 1 2}}")}
ForUnbounded == {W("1"), W("{1}"), W("{not {-1}}")}
ForWhileValue == {W("{0}")}                       \* runs while the value is not blank
ForSteady == {W("{sumi {0} 1}"), W("{0}"), W("x"), W("{1}"), W("{divi {0} 0}"), W("{substr {0} 1 99}"), Empty, W("{-1}"), W("{k0}")}
ForGrow   == {W("{0}{0}"), W("{0}a"), W("{@ {0} {0}}"), W("{repeat a {1}}")}
ForSmallStart == {W("0"), W("a"), Empty, W("-9223372036854775808"), Max63, NulB, V("a b")}
ForAnyStart == ForSmallStart \cup {LongA, BadUtf}
\* <<start, cont, incr>> triples inside the space (k0 is a short key in every context of this group)
ForCases ==
       {<<s, c, i>> : s \in ForAnyStart, c \in ForBounded, i \in ForSteady \cup ForGrow}
  \cup {<<s, c, i>> : s \in ForSmallStart, c \in ForUnbounded, i \in ForSteady}
  \cup {<<s, c, i>> : s \in ForAnyStart, c \in ForWhileValue, i \in {Empty, W("{substr {0} 1 99}"), W("{-1}")}}
  \cup {<<s, c, i>> : s \in ForSmallStart, c \in ForWhileValue, i \in {W("{sumi {0} 1}"), W("x")}}

Kinds == {"fpred", "fsub", "str", "int", "cnt", "prec", "flt", "idx", "arr", "sub", "pred", "color", "scaler", "tfmt", "tz", "tattr",
          "tbucket", "tstr", "utime", "dur", "fmt", "js", "path", "table", "cpref", "file", "delim", "math", "rng", "bsize"}

RngCore == {W("0"), W("1"), W("-1"), W("7"), Max31, Min31, Max63, Min63, P63}
RngPool == RngCore \cup {W("1000"), W("-1000"), W("2"), Empty, W("x"), M63}
BsizePool == {W("10"), W("1"), W("0"), W("-1"), W("-10"), Max63, Min63, P63, Empty, W("x"), W("1.5"), Max31}

Pool(k) ==
  CASE k = "str" -> StrPool [] k = "int" -> IntPool [] k = "cnt" -> CntPool [] k = "prec" -> PrecPool
    [] k = "flt" -> FltPool [] k = "idx" -> IdxPool [] k = "arr" -> ArrPool [] k = "sub" -> SubPool
    [] k = "pred" -> PredPool [] k = "color" -> ColorPool [] k = "scaler" -> ScalerPool [] k = "tfmt" -> TfmtPool
    [] k = "tz" -> TzPool [] k = "tattr" -> TattrPool [] k = "tbucket" -> TbucketPool [] k = "tstr" -> TstrPool
    [] k = "utime" -> UtimePool [] k = "dur" -> DurPool [] k = "fmt" -> FmtPool [] k = "js" -> JsPool
    [] k = "path" -> PathPool [] k = "table" -> TablePool [] k = "cpref" -> CprefPool [] k = "file" -> FilePool
    [] k = "delim" -> DelimPool [] k = "math" -> MathPool [] k = "rng" -> RngPool [] k = "bsize" -> BsizePool
    [] k = "fpred" -> ForBounded \cup ForUnbounded \cup ForWhileValue [] k = "fsub" -> ForSteady \cup ForGrow

Core(k) ==
  CASE k = "str" -> StrCore [] k = "int" -> IntCore [] k = "cnt" -> CntCore [] k = "prec" -> PrecCore
    [] k = "flt" -> FltCore [] k = "idx" -> IdxCore [] k = "arr" -> ArrCore [] k = "sub" -> SubCore
    [] k = "pred" -> PredCore [] k = "tfmt" -> TfmtCore [] k = "tz" -> TzCore [] k = "tstr" -> TstrCore
    [] k = "utime" -> UtimeCore [] k = "fmt" -> FmtCore [] k = "js" -> JsCore [] k = "rng" -> RngCore
    [] OTHER -> Pool(k)

\* the benign value of a kind: in a constant position it compiles without error
Ben(k) ==
  CASE k = "str" -> W("abc") [] k = "int" -> W("7") [] k = "cnt" -> W("3") [] k = "prec" -> W("1")
    [] k = "flt" -> W("0.5") [] k = "idx" -> W("1") [] k = "arr" -> W("a") [] k = "sub" -> W("{0}")
    [] k = "pred" -> W("{0}") [] k = "color" -> W("red") [] k = "scaler" -> W("linear") [] k = "tfmt" -> W("RFC3339")
    [] k = "tz" -> W("utc") [] k = "tattr" -> W("weekday") [] k = "tbucket" -> W("hours")
    [] k = "tstr" -> V("2023-01-02T03:04:05Z") [] k = "utime" -> W("1700000000") [] k = "dur" -> W("1h2m3s")
    [] k = "fmt" -> W("%s") [] k = "js" -> W("a") [] k = "path" -> W("a/b/c.txt")
    [] k = "table" -> VQ("table:a1-b2", "a 1\nb 2", "\"a 1\\nb 2\"") [] k = "cpref" -> W("#") [] k = "file" -> W("/dev/null")
    [] k = "delim" -> V(",") [] k = "math" -> V("1 + 2") [] k = "rng" -> W("7") [] k = "bsize" -> W("10")
    [] k = "fpred" -> W("{lt {1} 3}") [] k = "fsub" -> W("{sumi {0} 1}")

\* values thrown at EVERY position whatever its kind - except the counting kinds, whose pools are the resource-safe ones
Universal == {Empty, Blank, W("a"), W("0"), W("-1"), Max63, Min63, P63, W("NaN"), W("1e308"), NulB, BadUtf, MixB, LongA,
              X("str:braces", "{0}", "\"\\{0\\}\""), W("%s")} \cup TextVals(TextCore)
Counting == {"cnt", "rng"}
\* kinds whose values are pieces of template syntax: they are only ever written as constants
Syntactic == {"sub", "pred", "fpred", "fsub"}
PosPool(k) == IF k \in Counting \cup Syntactic THEN Pool(k) ELSE Pool(k) \cup Universal

\* =================================================================== the signature table
VAR == 99      \* no upper bound on the number of arguments
(* min/max: accepted argument counts; kinds: the kind of position p is           *)
(* kinds[Min(p, Len(kinds))]; cpos: positions that must be compile-time          *)
(* constants (a match group there is a compile error).                           *)
S(min, max, kinds, cpos) == [min |-> min, max |-> max, kinds |-> kinds, cpos |-> cpos]

Sig ==
     "coalesce" :> S(0, VAR, <<"str">>, {})
  @@ "bucket" :> S(2, 2, <<"int", "bsize">>, {2})
  @@ "bucketrange" :> S(2, 2, <<"int", "bsize">>, {2})
  @@ "clamp" :> S(3, 3, <<"int", "int", "int">>, {2, 3})
  @@ "expbucket" :> S(1, 1, <<"int">>, {})
  @@ "isint" :> S(1, 1, <<"int">>, {})
  @@ "isnum" :> S(1, 1, <<"flt">>, {})
  @@ "sumi" :> S(2, VAR, <<"int">>, {})
  @@ "subi" :> S(2, VAR, <<"int">>, {})
  @@ "multi" :> S(2, VAR, <<"int">>, {})
  @@ "divi" :> S(2, VAR, <<"int">>, {})
  @@ "modi" :> S(2, VAR, <<"int">>, {})
  @@ "maxi" :> S(2, VAR, <<"int">>, {})
  @@ "mini" :> S(2, VAR, <<"int">>, {})
  @@ "sumf" :> S(2, VAR, <<"flt">>, {})
  @@ "subf" :> S(2, VAR, <<"flt">>, {})
  @@ "multf" :> S(2, VAR, <<"flt">>, {})
  @@ "divf" :> S(2, VAR, <<"flt">>, {})
  @@ "pow" :> S(2, VAR, <<"flt">>, {})
  @@ "ceil" :> S(1, 1, <<"flt">>, {})
  @@ "floor" :> S(1, 1, <<"flt">>, {})
  @@ "log10" :> S(1, 1, <<"flt">>, {})
  @@ "log2" :> S(1, 1, <<"flt">>, {})
  @@ "ln" :> S(1, 1, <<"flt">>, {})
  @@ "sqrt" :> S(1, 1, <<"flt">>, {})
  @@ "round" :> S(1, 2, <<"flt", "prec">>, {2})
  @@ "!" :> S(1, VAR, <<"math">>, 1..9)
  @@ "if" :> S(2, 3, <<"str">>, {})
  @@ "switch" :> S(2, VAR, <<"str">>, {})
  @@ "unless" :> S(2, 2, <<"str">>, {})
  @@ "eq" :> S(2, VAR, <<"str">>, {})
  @@ "neq" :> S(2, VAR, <<"str">>, {})
  @@ "not" :> S(1, 1, <<"str">>, {})
  @@ "lt" :> S(2, 2, <<"flt">>, {})
  @@ "gt" :> S(2, 2, <<"flt">>, {})
  @@ "lte" :> S(2, 2, <<"flt">>, {})
  @@ "gte" :> S(2, 2, <<"flt">>, {})
  @@ "and" :> S(0, VAR, <<"str">>, {})
  @@ "or" :> S(0, VAR, <<"str">>, {})
  @@ "len" :> S(1, 1, <<"str">>, {})
  @@ "like" :> S(2, 2, <<"str">>, {})
  @@ "prefix" :> S(2, 2, <<"str">>, {})
  @@ "suffix" :> S(2, 2, <<"str">>, {})
  @@ "format" :> S(1, VAR, <<"fmt", "str">>, {})
  @@ "substr" :> S(3, 3, <<"str", "idx", "int">>, {})
  @@ "select" :> S(2, 2, <<"str", "idx">>, {})
  @@ "upper" :> S(1, 1, <<"str">>, {})
  @@ "lower" :> S(1, 1, <<"str">>, {})
  @@ "tab" :> S(0, VAR, <<"str">>, {})
  @@ "$" :> S(0, VAR, <<"str">>, {})
  @@ "@" :> S(0, VAR, <<"str">>, {})
  @@ "@len" :> S(1, 1, <<"arr">>, {})
  @@ "@map" :> S(2, 2, <<"arr", "sub">>, {})
  @@ "@split" :> S(1, 2, <<"str", "delim">>, {})
  @@ "@select" :> S(2, 2, <<"arr", "idx">>, {2})
  @@ "@join" :> S(1, 2, <<"arr", "delim">>, {})
  @@ "@reduce" :> S(2, 3, <<"arr", "sub", "str">>, {})
  @@ "@filter" :> S(2, 2, <<"arr", "pred">>, {})
  @@ "@slice" :> S(2, 3, <<"arr", "idx", "int">>, {2, 3})
  @@ "@in" :> S(2, 2, <<"str", "arr">>, {2})
  @@ "@range" :> S(1, 3, <<"rng">>, {})
  @@ "@for" :> S(3, 3, <<"str", "fpred", "fsub">>, {})
  @@ "basename" :> S(1, 1, <<"path">>, {})
  @@ "dirname" :> S(1, 1, <<"path">>, {})
  @@ "extname" :> S(1, 1, <<"path">>, {})
  @@ "load" :> S(1, 1, <<"file">>, {1})
  @@ "lookup" :> S(2, 3, <<"str", "table", "cpref">>, {2})
  @@ "haskey" :> S(2, 3, <<"str", "table", "cpref">>, {2})
  @@ "hi" :> S(1, 1, <<"int">>, {})
  @@ "hf" :> S(1, 1, <<"flt">>, {})
  @@ "bytesize" :> S(1, 2, <<"int", "prec">>, {2})
  @@ "bytesizesi" :> S(1, 2, <<"int", "prec">>, {2})
  @@ "downscale" :> S(1, 2, <<"int", "prec">>, {2})
  @@ "percent" :> S(1, 4, <<"flt", "prec", "flt", "flt">>, {2})
  @@ "json" :> S(1, 2, <<"js">>, {})
  @@ "csv" :> S(0, VAR, <<"str">>, {})
  @@ "time" :> S(1, 3, <<"tstr", "tfmt", "tz">>, {})
  @@ "timeformat" :> S(1, 3, <<"utime", "tfmt", "tz">>, {})
  @@ "timeattr" :> S(2, 3, <<"utime", "tattr", "tz">>, {2})
  @@ "buckettime" :> S(2, 4, <<"tstr", "tbucket", "tfmt", "tz">>, {2})
  @@ "duration" :> S(1, 1, <<"dur">>, {})
  @@ "durationformat" :> S(1, 1, <<"int">>, {})
  @@ "color" :> S(2, 2, <<"color", "str">>, {1})
  @@ "repeat" :> S(2, 2, <<"str", "cnt">>, {1})
  @@ "bar" :> S(3, 4, <<"int", "int", "cnt", "scaler">>, {2, 3, 4})

FuncNames == DOMAIN Sig
KindAt(f, p) == LET ks == Sig[f].kinds IN ks[IF p < Len(ks) THEN p ELSE Len(ks)]
\* a call needs at least one argument ({name} alone is a key look-up)
MinArgs(f) == IF Sig[f].min < 1 THEN 1 ELSE Sig[f].min
MaxProbe == 5
\* argument counts that are tried: one below the minimum to one above the maximum
Arities(f) ==
  LET lo == IF MinArgs(f) > 1 THEN MinArgs(f) - 1 ELSE 1
      hi == IF Sig[f].max = VAR THEN (IF MinArgs(f) + 2 < MaxProbe THEN MinArgs(f) + 2 ELSE MaxProbe) ELSE Sig[f].max + 1
  IN lo..hi
ArityOK(f, n) == n >= MinArgs(f) /\ (Sig[f].max = VAR \/ n <= Sig[f].max)
GoodArities(f) == {n \in Arities(f) : ArityOK(f, n)}
(* ... and, one call per count, far beyond: a helper without an upper limit is   *)
(* called with every count up to 9 and on both sides of the powers of two up to   *)
(* 257 (thorough: 4097) - whatever fixed-size staging an implementation might     *)
(* use is exceeded (ArityAdequate in ExprSizes); a helper with a limit sees a few *)
(* counts far above it (the compile error path).                                  *)
Variadic == {f \in FuncNames : Sig[f].max = VAR}
WideArities(f, thorough) ==
  IF f \in Variadic THEN {n \in (1..9) \cup BigArities(thorough) : n \notin Arities(f) /\ n >= MinArgs(f)}
  ELSE {n \in {9, 17, 65, 257} : n > Sig[f].max + 1}
ProbedArities(f, thorough) == Arities(f) \cup WideArities(f, thorough)

\* =================================================================== resource exclusion
(* Magnitude class of an integer written as text: 0 zero, 1 |v| <= 1000,          *)
(* 2 about 2^31, 3 about 2^63, 9 not an int (the helper answers <BAD-TYPE>).      *)
Mag(v) ==
  CASE v.id \in {"0", "-0"} -> 0
    [] v.id \in {"1", "-1", "2", "-2", "3", "7", "1000", "-1000"} -> 1
    [] v.id \in {"2147483647", "-2147483648", "2147483648"} -> 2
    [] v.id \in {"9223372036854775807", "-9223372036854775808"} -> 3
    [] OTHER -> 9
Neg(v) == v.id \in {"-1", "-2", "-1000", "-2147483648", "-9223372036854775808"}
MaxM(a, b) == IF a > b THEN a ELSE b
(* @range start stop incr has about |stop - start| / |incr| elements.  Two pool  *)
(* values of the same class and sign differ by little; otherwise the distance    *)
(* has the class of the larger one.  Admissible: a short distance, or a step of  *)
(* at least the class of the distance (<= 4 elements), or an argument the helper *)
(* rejects.                                                                       *)
RangeOK(start, stop, incr) ==
  \/ Mag(start) = 9 \/ Mag(stop) = 9 \/ Mag(incr) = 9 \/ Mag(incr) = 0
  \/ LET dist == IF Mag(start) = Mag(stop) /\ Neg(start) = Neg(stop) /\ Mag(start) <= 2 THEN 1
                 ELSE IF start = stop THEN 0 ELSE MaxM(Mag(start), Mag(stop))
     IN dist <= 1 \/ Mag(incr) >= dist
RangeArgsOK(vals) ==
  CASE Len(vals) = 1 -> RangeOK(W("0"), vals[1], W("1"))
    [] Len(vals) = 2 -> RangeOK(vals[1], vals[2], W("1"))
    [] Len(vals) = 3 -> RangeOK(vals[1], vals[2], vals[3])
    [] OTHER -> TRUE
\* is the argument tuple of f inside the space?
Admissible(f, vals) ==
  /\ f = "@range" => RangeArgsOK(vals)
  /\ (f = "@for" /\ Len(vals) = 3) => <<vals[1], vals[2], vals[3]>> \in ForCases

\* =================================================================== templates as token sequences
Cat(ts) == FoldLeft(LAMBDA a, b : a \o b, "", ts)
Digit(i) == CASE i = 0 -> "0" [] i = 1 -> "1" [] i = 2 -> "2" [] i = 3 -> "3" [] i = 4 -> "4"
              [] i = 5 -> "5" [] i = 6 -> "6" [] i = 7 -> "7" [] i = 8 -> "8" [] OTHER -> "9"

(* How an argument is written:                                                   *)
(*   "c"  the value as a constant (its q spelling)                               *)
(*   "d"  match group {j}: the value is in the context                           *)
(*   "k"  named key {kj}                                                          *)
(*   "n"  through a nested call {coalesce {j}}                                    *)
(*   "q"  a quoted sub-template "{j}"                                             *)
Modes == {"c", "d", "k", "n", "q"}
DynModes == {"d", "k", "n", "q"}
ArgTokens(mode, v, j) ==
  CASE mode = "c" -> <<v.q>>
    [] mode = "d" -> <<"{", Digit(j), "}">>
    [] mode = "k" -> <<"{", "k" \o Digit(j), "}">>
    [] mode = "n" -> <<"{", "coalesce", " ", "{", Digit(j), "}", "}">>
    [] mode = "q" -> <<"\"", "{", Digit(j), "}", "\"">>

\* {f a1 a2 ...}: position p is written from modes[p], vals[p]; its context slot is p - 1
CallTokens(f, modes, vals) ==
  <<"{", f>> \o FlattenSeq([p \in 1..Len(modes) |-> <<" ">> \o ArgTokens(modes[p], vals[p], p - 1)]) \o <<"}">>

\* the same call evaluated for every element of the array in group 9:  {@map {9} {f ...}}
\* (position sp of f reads the element {0}; the other arguments must not be match groups)
InMapTokens(f, modes, vals, sp) ==
  <<"{", "@map", " ", "{", "9", "}", " ">>
  \o <<"{", f>> \o FlattenSeq([p \in 1..Len(modes) |->
                       <<" ">> \o (IF p = sp THEN <<"{", "0", "}">> ELSE ArgTokens(modes[p], vals[p], p - 1))]) \o <<"}">>
  \o <<"}">>

\* ---- the context of one line: match groups 0..9 and the keys k0..k9 hold value ids
NoVal == Empty
Ctx(vals) == [m |-> [j \in 1..Len(vals) |-> vals[j].id], k |-> [j \in 1..Len(vals) |-> vals[j].id]]

\* ---- outcome class
Cls(f, modes, vals) ==
  LET n == Len(modes) IN
  IF \E p \in 1..n : modes[p] = "c" /\ vals[p].x THEN "any"
  ELSE IF ~ArityOK(f, n) THEN "err"
  ELSE IF \E p \in 1..n : modes[p] # "c" /\ p \in Sig[f].cpos THEN "err"
  ELSE IF \A p \in 1..n : modes[p] # "c" \/ vals[p] = Ben(KindAt(f, p)) THEN "ok"
  ELSE "any"

\* =================================================================== malformation operators
Inserts == <<"{", "}", "\"", "\\", " ">>
DropTok(ts, i)      == SubSeq(ts, 1, i - 1) \o SubSeq(ts, i + 1, Len(ts))
DupTok(ts, i)       == SubSeq(ts, 1, i) \o SubSeq(ts, i, Len(ts))
InsTok(ts, i, t) == SubSeq(ts, 1, i - 1) \o <<t>> \o SubSeq(ts, i, Len(ts))       \* i in 1..Len+1
TruncTok(ts, i)     == SubSeq(ts, 1, i)
SwapTok(ts, i)      == SubSeq(ts, 1, i - 1) \o <<ts[i + 1], ts[i]>> \o SubSeq(ts, i + 2, Len(ts))
Mutations(ts) ==
       {DropTok(ts, i) : i \in 1..Len(ts)}
  \cup {DupTok(ts, i) : i \in 1..Len(ts)}
  \cup {InsTok(ts, i, Inserts[t]) : i \in 1..(Len(ts) + 1), t \in 1..Len(Inserts)}
  \cup {TruncTok(ts, i) : i \in 1..(Len(ts) - 1)}
  \cup {SwapTok(ts, i) : i \in 1..(Len(ts) - 1)}
  \cup {ts \o <<"\\">>}

\* raw templates: every byte string over this alphabet ( { } \ " blank a 1 ! NUL 0xff 0xc3 0xa9 )
RawAlphabet == {123, 125, 92, 34, 32, 97, 49, 33, 0, 255, 195, 169}     \* (195 169 is a valid two-byte letter)
RECURSIVE RawStrings(_)
RawStrings(n) == IF n = 0 THEN {<<>>} ELSE {Append(s, c) : s \in RawStrings(n - 1), c \in RawAlphabet}

\* =================================================================== formulas  {! ...}
BinOps == {"^", ">>", "<<", "*", "/", "%", "&", "|", "+", "-", "==", "=", "<=", ">=", ">", "<", "&&", "||"}
UnFuncs == {"abs", "sin", "asin", "cos", "acos", "tan", "atan", "sqrt", "floor", "ceil", "round", "exp", "exp2",
            "log", "log10", "log2"}
NumCore == {"0", "1", "-1", "0.5", "64", "-64", "9223372036854775807", "-9223372036854775808", "1e308", "1e-320", "0x7fffffffffffffff"}
FormulaAlphabet == <<"(", ")", "1", "x", "+", "-", "*", "%", "[", "]", " ", "<<", "!", "abs", "[0]", "e", ".", "0x">>
RECURSIVE TokStrings(_)
TokStrings(n) == IF n = 0 THEN {<<>>} ELSE {Append(s, t) : s \in TokStrings(n - 1), t \in 1..Len(FormulaAlphabet)}
FormulaText(ix) == Cat([j \in 1..Len(ix) |-> FormulaAlphabet[ix[j]]])
MathTokens(formula) == <<"{", "!", " ", "\"", formula, "\"", "}">>

\* =================================================================== a funcs file
(* Functions defined in a funcs file (pkg/expressions/funcfile) are compiled     *)
(* templates called with lazily evaluated arguments.                              *)
FuncFile == <<
  "# c08 funcs",
  "double {sumi {0} {0}}",
  "pick3 {3}",
  "neg1 {-1}",
  "quad this: \\",
  "   {multi {0} {0} \\",
  "   {0} {0}}   # comment",
  "divs {divi {0} {1}}",
  "sub3 {substr {0} {1} {2}}",
  "rep {repeat x {0}}",
  "mapd {@map {0} {double {0}}}",
  "twice {double {double {0}}}",
  "keyed {k0}{src}{line}",
  "livet {time live}",
  "broken {unclosed",
  "nofunc {nosuchfunction {0} 1}",
  "noexpr",
  "self {self {0}}",
  "fmt {format {0} {1} {2}}",
  "rng {@range {0} {1} {2}}" >>
FfNames == {"double", "pick3", "neg1", "quad", "divs", "sub3", "rep", "mapd", "twice", "keyed", "livet", "fmt", "rng"}
FfKinds(f) ==
  CASE f = "divs" -> <<"int", "int">> [] f = "sub3" -> <<"str", "idx", "int">> [] f = "rep" -> <<"cnt">>
    [] f = "mapd" -> <<"arr">> [] f = "fmt" -> <<"fmt", "str", "str">> [] f = "rng" -> <<"rng", "rng", "rng">>
    [] f \in {"double", "quad", "twice"} -> <<"int">>
    [] OTHER -> <<"str", "str", "str", "str">>
=============================================================================

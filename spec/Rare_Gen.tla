------------------------------- MODULE Rare_Gen -------------------------------
(* C03, B1 -- TLC enumerates the exhaustive small family of corpus descriptors   *)
(* (every sequence of at most MaxLen lines over a fixed pool of awkward lines:   *)
(* keys "", "a,b", q", leading space, leading '=', a parse error, an unmatched   *)
(* line) x every command descriptor of the family, each WITH the observables     *)
(* Rare.tla expects (CSV records, exit status, final message).  The driver       *)
(* materialises each descriptor as files / gzip / stdin, runs the real binary    *)
(* and compares; the same runs are also validated by Rare_Trace.                 *)
EXTENDS Rare, Json

CONSTANTS MaxLen,
          Stride, Pick    \* only the descriptors of residue class Pick modulo Stride are produced (1, 0: all)

L(k, s, v) == k \o <<SEP>> \o s \o <<SEP>> \o v
GPool == <<
  L(<<97>>, <<120>>, <<49>>),                  \* a|x|1
  L(<<98>>, <<121>>, <<50>>),                  \* b|y|2
  L(<<97, 44, 98>>, <<120>>, <<51>>),          \* a,b|x|3
  L(<<113, 34>>, <<121>>, <<120>>),            \* q"|y|x      increment does not parse
  L(<<>>, <<120>>, <<50>>),                    \* |x|2        empty key
  <<106, 117, 110, 107>>,                      \* junk        does not match
  L(<<32, 97>>, <<>>, <<45, 49>>),             \*  a||-1      leading space, empty sub-key, negative
  L(<<61, 98>>, <<121>>, <<50>>)               \* =b|y|2      leading '='
>>
Cd(cmd, ext, ig, grp, acc) == [cmd |-> cmd, mt |-> "re", ext |-> ext, delim |-> <<>>, ig |-> ig,
                               iv |-> IF ig = 0 THEN <<>> ELSE <<121>>, grp |-> grp, acc |-> acc]
\* strengthened family: matcher, atoms (4 {line} 5 {src} 6 {.} 7 {#} 8 {.#}), --delim
CdX(cmd, mt, ext, delim, ig) == [cmd |-> cmd, mt |-> mt, ext |-> ext, delim |-> delim, ig |-> ig,
                                 iv |-> IF ig = 0 THEN <<>> ELSE <<121>>, grp |-> 0, acc |-> <<>>]
D_semi == <<59>>   D_cc == <<58, 58>>   D_dash == <<32, 45, 32>>   D_arrow == <<226, 134, 146>>
GCmds == <<
  Cd("histogram", <<1>>, 0, 0, <<>>),
  Cd("histogram", <<1, 3>>, 0, 0, <<>>),
  Cd("histogram", <<2, 3>>, 2, 0, <<>>),
  Cd("table", <<1, 2, 3>>, 0, 0, <<>>),
  Cd("table", <<1>>, 0, 0, <<>>),
  Cd("heatmap", <<1, 2>>, 0, 0, <<>>),
  Cd("spark", <<2, 1, 3>>, 0, 0, <<>>),
  Cd("bargraph", <<1, 2, 3>>, 0, 0, <<>>),
  Cd("bargraph", <<1>>, 2, 0, <<>>),
  Cd("analyze", <<3>>, 0, 0, <<>>),
  Cd("reduce", <<1, 2, 3>>, 0, 1, <<"count", "sum", "max">>),
  Cd("reduce", <<1, 2, 3>>, 0, 0, <<"count", "sum">>),
  Cd("reduce", <<1, 2, 3>>, 0, 1, <<"sum", "last">>),
  \* dissect / named groups
  CdX("histogram", "dis", <<1, 3>>, <<>>, 0),
  CdX("table", "ren", <<1, 2, 3>>, <<>>, 2),
  CdX("bargraph", "dis", <<2, 1>>, <<>>, 0),
  \* the JSON views of the match
  CdX("histogram", "ren", <<6>>, <<>>, 0),
  CdX("histogram", "dis", <<7>>, <<>>, 0),
  CdX("histogram", "ren", <<8, 3>>, <<>>, 0),
  CdX("table", "re", <<7, 6>>, <<>>, 0),
  CdX("bargraph", "dis", <<1, 6>>, <<>>, 0),
  \* --delim of one byte, several bytes, one non-ASCII character
  CdX("table", "re", <<1, 2, 3>>, D_semi, 0),
  CdX("table", "dis", <<1, 2, 3>>, D_cc, 0),
  CdX("heatmap", "ren", <<1, 2, 3>>, D_dash, 0),
  CdX("spark", "re", <<2, 1, 3>>, D_arrow, 0),
  CdX("heatmap", "re", <<1, 2>>, D_cc, 2),
  CdX("table", "ren", <<1, 6, 3>>, D_arrow, 0),
  \* {line} / {src}: the expectation is that of the layout `lay`
  CdX("histogram", "re", <<4>>, <<>>, 0),
  CdX("histogram", "dis", <<5, 3>>, <<>>, 0),
  CdX("table", "re", <<5, 4>>, <<>>, 0),
  CdX("table", "ren", <<4, 1, 3>>, D_cc, 0),
  CdX("bargraph", "re", <<1, 4>>, <<>>, 2)
>>
AccName(tag) == CASE tag = "count" -> <<110>> [] tag = "sum" -> <<115>> [] tag = "max" -> <<109, 120>>
                  [] tag = "last" -> <<108, 97, 115, 116>>

VARIABLES seq, ci
GInit == /\ seq \in UNION {[1..n -> 1..Len(GPool)] : n \in 0..MaxLen}
         /\ ci \in 1..Len(GCmds)
         /\ (FoldLeft(+, 0, seq) * 5 + Len(seq) * 3 + ci) % Stride = Pick
GNext == UNCHANGED <<seq, ci>>

\* the layout of a layout-dependent descriptor: a function of the sequence (no further branching): the
\* corpus is cut after `cut` lines into f0.log / f1.log, read in this or in the opposite order
F0 == <<102, 48, 46, 108, 111, 103>>    F1 == <<102, 49, 46, 108, 111, 103>>
LayFor(sq) ==
  LET n   == Len(sq)
      sum == FoldLeft(+, 0, sq)
      cut == (sum + n) % (n + 1)
      a   == [name |-> F0, lo |-> 1, hi |-> cut]
      b   == [name |-> F1, lo |-> cut + 1, hi |-> n]
  IN IF sum % 2 = 0 THEN <<a, b>> ELSE <<[b EXCEPT !.name = F0], [a EXCEPT !.name = F1]>>

Desc ==
  LET c == GCmds[ci] IN
  [pool |-> GPool, seq |-> seq, cmd |-> c.cmd, mt |-> c.mt, ext |-> c.ext, delim |-> c.delim, ig |-> c.ig, iv |-> c.iv,
   grp |-> c.grp, acc |-> c.acc, gname |-> <<107>>, anames |-> [i \in 1..Len(c.acc) |-> AccName(c.acc[i])]]
Dump ==
  LET r == Desc
      dep == LayoutDep(CdOf(r))
      lay == IF dep THEN LayFor(r.seq) ELSE <<>>
      e == IF dep THEN ExpectLay(r, lay) ELSE Expect(r)
      es == ExitState(0, e.perr, e.matched)
  IN PrintT("VFJ " \o ToJson([pool |-> r.pool, seq |-> r.seq, cmd |-> r.cmd, mt |-> r.mt, ext |-> r.ext, delim |-> r.delim,
                              ig |-> r.ig, iv |-> r.iv,
                              grp |-> r.grp, acc |-> r.acc, gname |-> r.gname, anames |-> r.anames,
                              lay |-> [k \in 1..Len(lay) |-> <<lay[k].lo, lay[k].hi>>],
                              expect |-> [csv |-> e.csv, code |-> es.code, msg |-> es.msg]]))
=============================================================================

------------------------------- MODULE Rare_Gen -------------------------------
(* C03, B1 -- TLC enumerates the exhaustive small family of corpus descriptors   *)
(* (every sequence of at most MaxLen lines over a fixed pool of awkward lines:   *)
(* keys "", "a,b", q", leading space, leading '=', a parse error, an unmatched   *)
(* line) x every command descriptor of the family, each WITH the observables     *)
(* Rare.tla expects (CSV records, exit status, final message).  The driver       *)
(* materialises each descriptor as files / gzip / stdin, runs the real binary    *)
(* and compares; the same runs are also validated by Rare_Trace.                 *)
EXTENDS Rare, Json

CONSTANTS MaxLen

L(k, s, v) == k \o <<SEP>> \o s \o <<SEP>> \o v
GPool == <<
  L(<<97>>, <<120>>, <<49>>),                  \* a|x|1
  L(<<98>>, <<121>>, <<50>>),                  \* b|y|2
  L(<<97, 44, 98>>, <<120>>, <<51>>),          \* a,b|x|3
  L(<<113, 34>>, <<121>>, <<120>>),            \* q"|y|x      increment does not parse
  L(<<>>, <<120>>, <<50>>),                    \* |x|2        empty key
  <<106, 117, 110, 107>>,                      \* junk        does not match
  L(<<32, 97>>, <<>>, <<45, 49>>),             \*  a||-1      leading space, empty sub-key, negative
  L(<<61, 98>>, <<121>>, <<50>>)               \* =b|y|2      leading '='
>>
Cd(cmd, ext, ig, grp, acc) == [cmd |-> cmd, ext |-> ext, ig |-> ig, iv |-> IF ig = 0 THEN <<>> ELSE <<121>>,
                               grp |-> grp, acc |-> acc]
GCmds == <<
  Cd("histogram", <<1>>, 0, 0, <<>>),
  Cd("histogram", <<1, 3>>, 0, 0, <<>>),
  Cd("histogram", <<2, 3>>, 2, 0, <<>>),
  Cd("table", <<1, 2, 3>>, 0, 0, <<>>),
  Cd("table", <<1>>, 0, 0, <<>>),
  Cd("heatmap", <<1, 2>>, 0, 0, <<>>),
  Cd("spark", <<2, 1, 3>>, 0, 0, <<>>),
  Cd("bargraph", <<1, 2, 3>>, 0, 0, <<>>),
  Cd("bargraph", <<1>>, 2, 0, <<>>),
  Cd("analyze", <<3>>, 0, 0, <<>>),
  Cd("reduce", <<1, 2, 3>>, 0, 1, <<"count", "sum", "max">>),
  Cd("reduce", <<1, 2, 3>>, 0, 0, <<"count", "sum">>),
  Cd("reduce", <<1, 2, 3>>, 0, 1, <<"sum", "last">>)
>>
AccName(tag) == CASE tag = "count" -> <<110>> [] tag = "sum" -> <<115>> [] tag = "max" -> <<109, 120>>
                  [] tag = "last" -> <<108, 97, 115, 116>>

VARIABLES seq, ci
GInit == /\ seq \in UNION {[1..n -> 1..Len(GPool)] : n \in 0..MaxLen}
         /\ ci \in 1..Len(GCmds)
GNext == UNCHANGED <<seq, ci>>

Desc ==
  LET c == GCmds[ci] IN
  [pool |-> GPool, seq |-> seq, cmd |-> c.cmd, ext |-> c.ext, ig |-> c.ig, iv |-> c.iv, grp |-> c.grp,
   acc |-> c.acc, gname |-> <<107>>, anames |-> [i \in 1..Len(c.acc) |-> AccName(c.acc[i])]]
Dump ==
  LET r == Desc
      e == Expect(r)
      es == ExitState(0, e.perr, e.matched)
  IN PrintT("VFJ " \o ToJson([pool |-> r.pool, seq |-> r.seq, cmd |-> r.cmd, ext |-> r.ext, ig |-> r.ig, iv |-> r.iv,
                              grp |-> r.grp, acc |-> r.acc, gname |-> r.gname, anames |-> r.anames,
                              expect |-> [csv |-> e.csv, code |-> es.code, msg |-> es.msg]]))
=============================================================================

-------------------------- MODULE TimeCalHist_Trace --------------------------
(* B2 for C18, histories: the real expression compiler compiled ONE expression per *)
(* history h and evaluated it on a stream of inputs (hourly and finer / coarser      *)
(* streams of instants across day, week, quarter, year and DST boundaries in every   *)
(* modelled zone, with lines out of order; printed texts; texts of changing shape    *)
(* for format detection).  Records {h, i, m, f, n, x, fmt, z, b, got, cerr, panic}   *)
(* arrive in evaluation order.  The trace spec replays TimeCalHist.Step over each    *)
(* history: `live` is the format the specification says the expression remembers     *)
(* (reset when a new history begins); every answer must match Step's expectation.    *)
(* m = "c": the history was evaluated by several goroutines at once - only           *)
(* expressions that remember nothing are recorded that way and each answer must be   *)
(* the one of a fresh expression.  Total: every record is consumed, the ones the     *)
(* specification cannot explain are collected in `bad`.                              *)
EXTENDS TimeCalHist, Json, TLC

Trace == ndJsonDeserialize("trace.ndjson")

VARIABLES l, bad, nontrivial, live
tvars == <<l, bad, nontrivial, live>>

Known(r) == r.f \in Funcs
EOf(r) == MkE(r.f, r.n, r.fmt, r.z, r.b)
LiveAt(i) == IF i = 1 \/ Trace[i].h # Trace[i - 1].h THEN "" ELSE live
StepAt(i) ==
  LET r == Trace[i] e == EOf(r) IN
  IF r.m = "c" THEN [exp |-> IF Remembers(e) THEN AnyV ELSE Fresh(e, r.x), live |-> ""]
  ELSE Step(e, LiveAt(i), r.x)

TInit == l = 1 /\ bad = <<>> /\ nontrivial = 0 /\ live = ""
TNext ==
  /\ l <= Len(Trace)
  /\ LET r == Trace[l]
         s == IF Known(r) THEN StepAt(l) ELSE [exp |-> AnyV, live |-> ""]
         ok == Known(r) /\ ~r.panic /\ Matches(s.exp, r.got, r.cerr)
     IN /\ bad' = IF ok THEN bad ELSE Append(bad, [t |-> r.h, l |-> l, f |-> r.f])
        /\ nontrivial' = nontrivial + (IF s.exp.k # "any" THEN 1 ELSE 0)
        /\ live' = s.live
  /\ l' = l + 1
TSpec == TInit /\ [][TNext]_tvars

Final == (l = Len(Trace) + 1) =>
  JsonSerialize("bad.json", [bad |-> bad, consumed |-> l - 1, done |-> TRUE, nontrivial |-> nontrivial])
=============================================================================

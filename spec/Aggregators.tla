---------------------------- MODULE Aggregators ----------------------------
(* C07 - abstract specification (the oracle) of rare's aggregators.              *)
(*                                                                                *)
(* A sample is a byte string.  Count-style aggregators split it on their          *)
(* delimiter - NUL, except for the table, whose delimiter is a parameter of its   *)
(* construction: any byte SEQUENCE of length >= 1, split at its leftmost          *)
(* non-overlapping occurrences (AggSplit.tla) - into key parts and an optional    *)
(* increment (Go strconv.ParseInt base 10 grammar):                               *)
(*   histogram counter : key [NUL inc]                                            *)
(*   sub-key counter   : key NUL sub-key [NUL inc]   (missing sub-key = "")       *)
(*   table             : column [d row [d inc]]      (missing row = "")           *)
(* A missing increment counts 1, a non-integer increment is a parse error and     *)
(* changes nothing else.  What an aggregator holds after a history h is given     *)
(* twice: as an order-free *bag fold* (XFold(h): sums over index sets) and as a   *)
(* state machine (XStep); TLC checks that they agree (Aggregators_Gen).           *)
(*   numerical         : decimal number -> count, exact sum and sum of squares    *)
(*                       (BigInt, in units of 10^-3), bag of values; mean / sample *)
(*                       variance are exact rationals, order statistics ranks;    *)
(*                       values up to 10^11 are folded relative to a base (shift  *)
(*                       law: variance invariant, everything else shifts).        *)
(* Accessor calls are stuttering steps (AObserve): no read may change a later one.*)
(*   accumulating group: left fold of accumulator expressions over the rows.      *)
EXTENDS Bytes, Rat, AggSplit, TLC

\* the exact arithmetic used below is sound (evaluated once at start-up)
ASSUME RatLaws

\* ------------------------------------------------------------------ helpers
RECURSIVE SumF(_, _)
\* sum of f[x] over the finite set S
SumF(S, f) == IF S = {} THEN 0 ELSE LET x == CHOOSE x \in S : TRUE IN f[x] + SumF(S \ {x}, f)

\* Go string order: bytewise lexicographic
RECURSIVE BytesLess(_, _)
BytesLess(a, b) ==
  IF b = <<>> THEN FALSE
  ELSE IF a = <<>> THEN TRUE
  ELSE IF a[1] # b[1] THEN a[1] < b[1]
  ELSE BytesLess(Tail(a), Tail(b))

Upd(f, k, v) == [x \in DOMAIN f \cup {k} |-> IF x = k THEN v ELSE f[x]]
Get0(f, k) == IF k \in DOMAIN f THEN f[k] ELSE 0
EmptyFn == [x \in {} |-> 0]

\* ------------------------------------------------------------------ decoding
\* the parts of a sample under the delimiter d (a byte sequence, Len(d) >= 1)
PartsD(el, d) == Fields(el, d)
DNUL == <<NUL>>
Parts(el) == PartsD(el, DNUL)
\* nk key parts (missing ones are empty), then an optional increment
DecodeD(el, nk, d) ==
  LET p == PartsD(el, d)
      keys == [i \in 1..nk |-> IF i <= Len(p) THEN p[i] ELSE <<>>]
  IN IF Len(p) <= nk THEN [ok |-> TRUE, keys |-> keys, inc |-> 1]
     ELSE IF ParseIntOK(p[nk + 1]) THEN [ok |-> TRUE, keys |-> keys, inc |-> ParseIntVal(p[nk + 1])]
     ELSE [ok |-> FALSE, keys |-> keys, inc |-> 0]
Decode(el, nk) == DecodeD(el, nk, DNUL)
\* the specification's domain: increments of at most 9 digits (TLC integers are 32 bit)
InDomainD(el, nk, d) ==
  LET p == PartsD(el, d) IN Len(p) > nk /\ ParseIntOK(p[nk + 1]) => Len(p[nk + 1]) <= 10
InDomain(el, nk) == InDomainD(el, nk, DNUL)

\* ------------------------------------------------------ histogram counter
\* state: [cnt : key -> Int, err : Nat]
CtrInit == [cnt |-> EmptyFn, err |-> 0]
CtrStep(s, el) ==
  LET d == Decode(el, 1) IN
  IF d.ok THEN [s EXCEPT !.cnt = Upd(s.cnt, d.keys[1], Get0(s.cnt, d.keys[1]) + d.inc)]
  ELSE [s EXCEPT !.err = s.err + 1]
CtrTotal(s) == SumF(DOMAIN s.cnt, s.cnt)
\* the straightforward (order-free) fold of a whole history
CtrFold(h) ==
  LET D  == [i \in 1..Len(h) |-> Decode(h[i], 1)]
      OK == {i \in 1..Len(h) : D[i].ok}
      K  == {D[i].keys[1] : i \in OK}
      I  == [i \in 1..Len(h) |-> D[i].inc]
  IN [cnt |-> [k \in K |-> SumF({i \in OK : D[i].keys[1] = k}, I)],
      err |-> Len(h) - Cardinality(OK)]

\* ------------------------------------------- grids: sub-key counter and table
\* state: [cell : <<a, b>> -> Int (the cells ever sampled and not trimmed), err : Nat,
\*         dirty : BOOLEAN (a trim happened: totals kept by the implementation are then unspecified)]
\* sub-key counter: a = key, b = sub-key;  table: a = row, b = column
GridInit == [cell |-> EmptyFn, err |-> 0, dirty |-> FALSE]
GridAdd(s, a, b, inc) == [s EXCEPT !.cell = Upd(s.cell, <<a, b>>, Get0(s.cell, <<a, b>>) + inc)]
SubStep(s, el) ==
  LET d == Decode(el, 2) IN
  IF d.ok THEN GridAdd(s, d.keys[1], d.keys[2], d.inc) ELSE [s EXCEPT !.err = s.err + 1]
\* the table splits on the delimiter dl it was constructed with
TblStepD(s, el, dl) ==
  LET d == DecodeD(el, 2, dl) IN   \* first part is the COLUMN, second the row
  IF d.ok THEN GridAdd(s, d.keys[2], d.keys[1], d.inc) ELSE [s EXCEPT !.err = s.err + 1]

GridAs(s) == {p[1] : p \in DOMAIN s.cell}           \* rows / keys
GridBs(s) == {p[2] : p \in DOMAIN s.cell}           \* columns / sub-keys
GridAt(s, a, b) == Get0(s.cell, <<a, b>>)           \* absent cells count as 0
GridRowSum(s, a) == SumF({p \in DOMAIN s.cell : p[1] = a}, s.cell)
GridColSum(s, b) == SumF({p \in DOMAIN s.cell : p[2] = b}, s.cell)
GridSum(s) == SumF(DOMAIN s.cell, s.cell)
\* min / max over ALL row x column positions, absent = 0; (0, 0) for the empty table
GridMinMax(s) ==
  LET V == {GridAt(s, a, b) : a \in GridAs(s), b \in GridBs(s)}
  IN IF V = {} THEN <<0, 0>> ELSE <<MinOf(V), MaxOf(V)>>

GridFold(h, swap, dl) ==
  LET D  == [i \in 1..Len(h) |-> DecodeD(h[i], 2, dl)]
      OK == {i \in 1..Len(h) : D[i].ok}
      P(i) == IF swap THEN <<D[i].keys[2], D[i].keys[1]>> ELSE <<D[i].keys[1], D[i].keys[2]>>
      I  == [i \in 1..Len(h) |-> D[i].inc]
  IN [cell |-> [p \in {P(i) : i \in OK} |-> SumF({i \in OK : P(i) = p}, I)],
      err |-> Len(h) - Cardinality(OK), dirty |-> FALSE]
SubFold(h) == GridFold(h, FALSE, DNUL)
TblFoldD(h, dl) == GridFold(h, TRUE, dl)
\* the default construction: NewTable("\x00")
TblStep(s, el) == TblStepD(s, el, DNUL)
TblFold(h) == TblFoldD(h, DNUL)

\* trim predicates: records [k, c, r, v]  (c = column bytes, r = row bytes, v = integer)
PredHolds(p, col, row, val) ==
  CASE p.k = "all"    -> TRUE
    [] p.k = "none"   -> FALSE
    [] p.k = "col"    -> col = p.c
    [] p.k = "notcol" -> col # p.c
    [] p.k = "row"    -> row = p.r
    [] p.k = "cell"   -> col = p.c /\ row = p.r
    [] p.k = "le"     -> val <= p.v
    [] p.k = "gt"     -> val > p.v
\* "trimming removes exactly the selected cells plus any row or column left empty":
\* rows and columns are derived from the remaining cells, so nothing else can stay
TblTrim(s, p) ==
  LET keep == {q \in DOMAIN s.cell : ~PredHolds(p, q[2], q[1], s.cell[q])}
  IN [s EXCEPT !.cell = [q \in keep |-> s.cell[q]], !.dirty = TRUE]
TblTrimmed(s, p) == {q \in DOMAIN s.cell : PredHolds(p, q[2], q[1], s.cell[q])}

\* ------------------------------------------------------------- numerical
\* Values are decimal numbers with at most 3 fraction digits, held in units of 10^-3 ("milli").
\* Classes of a sample text:
\*   "num" : [sign] digits [ "." [digits] ] | [sign] "." digits     (<= 11 integer digits)
\*   "err" : empty, or contains a byte that occurs in no Go float literal
\*   "out" : anything else (exponents, hex floats, inf, nan, >3 decimals...) - outside the domain
\*
\* Large values (epoch seconds, byte offsets, ids ~ 10^9..10^10) do not fit TLC's 32-bit
\* integers.  A text is therefore read into an exact BigInt (NumLex), and a history is folded
\* RELATIVE TO A BASE B (BigInt, milli units): the state holds the deltas d = value - B, which
\* must be small (|d| < 10^9).  Count, order statistics, min, max and mean of the full values
\* are those of the deltas shifted by B; the variance is that of the deltas (ShiftLawAt below,
\* checked by TLC with exact arithmetic against the moments of the full values).  B = 0 gives the
\* plain reading.
FloatByte(c) == IsDigit(c) \/ c \in {43, 45, 46, 95}
                \/ LowerC(c) \in {97, 98, 99, 100, 101, 102, 105, 110, 112, 116, 120, 121}
\* BigInt of a digit string: limbs of 4 digits from the right
RECURSIVE MagOfDigits(_)
MagOfDigits(ds) ==
  IF ds = <<>> THEN <<>>
  ELSE LET k == IF Len(ds) >= 4 THEN 4 ELSE Len(ds)
       IN <<DigitsVal(SubSeq(ds, Len(ds) - k + 1, Len(ds)), 0)>> \o MagOfDigits(SubSeq(ds, 1, Len(ds) - k))
BOfDigits(ds) == BMk(1, MagNorm(MagOfDigits(ds)))
\* decimal digits of a magnitude (most significant limb unpadded)
Pad4(n) == <<48 + (n \div 1000), 48 + ((n \div 100) % 10), 48 + ((n \div 10) % 10), 48 + (n % 10)>>
MagDigits(m) ==
  IF m = <<>> THEN <<48>>
  ELSE NatDigits(m[Len(m)]) \o Flatten([i \in 1..(Len(m) - 1) |-> Pad4(m[Len(m) - i])])
\* a BigInt that fits a TLC integer with room to spare: |b| < 10^9
SmallB(b) == Len(b.m) <= 2 \/ (Len(b.m) = 3 /\ b.m[3] <= 9)
\* [sign] digits, in UNITS -> BigInt in milli units (how a base is written in vectors and traces)
BaseOfText(t) ==
  LET neg == t # <<>> /\ t[1] = 45
      ds  == IF neg THEN Tail(t) ELSE t
      b   == BOfDigits(ds \o <<48, 48, 48>>)
  IN IF neg THEN BNeg(b) ELSE b
\* canonical decimal text of a milli value: integer part, then "." and 3 digits unless they are 000
NumText(b) ==
  LET d0 == MagDigits(b.m)
      d  == [i \in 1..(4 - Len(d0)) |-> 48] \o d0           \* at least 4 digits
      ip == SubSeq(d, 1, Len(d) - 3)
      fp == SubSeq(d, Len(d) - 2, Len(d))
  IN (IF b.s < 0 THEN <<45>> ELSE <<>>) \o ip \o (IF fp = <<48, 48, 48>> THEN <<>> ELSE <<46>> \o fp)

\* lexical class and exact value of a sample text
NumLex(el) ==
  LET neg  == el # <<>> /\ el[1] = 45
      body == IF el # <<>> /\ el[1] \in {43, 45} THEN Tail(el) ELSE el
      dot  == IndexByte(body, 46)
      ip   == IF dot = 0 THEN body ELSE SubSeq(body, 1, dot - 1)
      fp   == IF dot = 0 THEN <<>> ELSE DropFirst(body, dot)
      digs(x) == \A i \in 1..Len(x) : IsDigit(x[i])
      v    == BOfDigits(ip \o fp \o [i \in 1..(3 - Len(fp)) |-> 48])      \* milli units: 3 fraction digits
  IN IF el = <<>> \/ \E i \in 1..Len(el) : ~FloatByte(el[i]) THEN [c |-> "err", b |-> BZero]
     ELSE IF digs(ip) /\ digs(fp) /\ Len(ip) + Len(fp) >= 1 /\ Len(ip) <= 11 /\ Len(fp) <= 3
          THEN [c |-> "num", b |-> IF neg THEN BNeg(v) ELSE v]
     ELSE [c |-> "out", b |-> BZero]
\* the sample relative to base B: "num" only if the delta is small
NumParseB(el, B) ==
  LET x == NumLex(el)
      d == BSub(x.b, B)
  IN IF x.c # "num" THEN [c |-> x.c, v |-> 0]
     ELSE IF SmallB(d) THEN [c |-> "num", v |-> BToInt(d)]
     ELSE [c |-> "out", v |-> 0]
NumParse(el) == NumParseB(el, BZero)

\* state: [n, s1 = sum d (BigInt), s2 = sum d^2 (BigInt), bag : d -> multiplicity, err]
NumInit == [n |-> 0, s1 |-> BZero, s2 |-> BZero, bag |-> EmptyFn, err |-> 0]
NumAdd(s, v) == [n |-> s.n + 1, s1 |-> BAdd(s.s1, BI(v)), s2 |-> BAdd(s.s2, BSq(BI(v))),
                 bag |-> Upd(s.bag, v, Get0(s.bag, v) + 1), err |-> s.err]
NumStepB(s, el, B) ==
  LET d == NumParseB(el, B) IN
  IF d.c = "num" THEN NumAdd(s, d.v) ELSE IF d.c = "err" THEN [s EXCEPT !.err = s.err + 1] ELSE s
NumStep(s, el) == NumStepB(s, el, BZero)
NumFoldB(h, B) ==
  LET D == [i \in 1..Len(h) |-> NumParseB(h[i], B)]
      N == {i \in 1..Len(h) : D[i].c = "num"}
      V == [i \in 1..Len(h) |-> D[i].v]
      Q == [i \in 1..Len(h) |-> D[i].v * D[i].v]
  IN [n |-> Cardinality(N), s1 |-> BI(SumF(N, V)), s2 |-> BI(SumF(N, Q)),   \* small deltas only
      bag |-> [v \in {V[i] : i \in N} |-> Cardinality({i \in N : V[i] = v})],
      err |-> Cardinality({i \in 1..Len(h) : D[i].c = "err"})]
NumFold(h) == NumFoldB(h, BZero)

NumMin(s) == MinOf(DOMAIN s.bag)
NumMax(s) == MaxOf(DOMAIN s.bag)
\* mean = s1 / n ; sample variance = (n*s2 - s1^2) / (n*(n-1))    (exact rationals, milli units)
NumMean(s) == RatOf(s.s1, BI(s.n))
NumVarNum(n, s1, s2) == BSub(BMul(BI(n), s2), BSq(s1))
NumVar(s)  == RatOf(NumVarNum(s.n, s.s1, s.s2), BMul(BI(s.n), BI(s.n - 1)))

\* ---- shift law ------------------------------------------------------------------
\* exact first and second moments of the FULL values x_i = B + d_i, from the delta state
FullS1(s, B) == BAdd(s.s1, BMul(BI(s.n), B))
FullS2(s, B) == BAdd(s.s2, BAdd(BMul(BMul(BI(2), B), s.s1), BMul(BI(s.n), BSq(B))))
\* the same moments accumulated directly from the texts, without any base
RECURSIVE BigMoments(_)
BigMoments(h) ==
  IF h = <<>> THEN [n |-> 0, s1 |-> BZero, s2 |-> BZero]
  ELSE LET m == BigMoments(Tail(h))
           x == NumLex(h[1])
       IN IF x.c = "num" THEN [n |-> m.n + 1, s1 |-> BAdd(m.s1, x.b), s2 |-> BAdd(m.s2, BSq(x.b))] ELSE m
\* variance is shift invariant and the mean shifts by B: the delta state says everything about
\* the full sample list.  (n*S2 - S1^2 is the variance numerator; the denominators are equal.)
ShiftLawAt(s, B) ==
  /\ BEq(NumVarNum(s.n, FullS1(s, B), FullS2(s, B)), NumVarNum(s.n, s.s1, s.s2))
  /\ s.n >= 1 => RCmp(RSub(RatOf(FullS1(s, B), BI(s.n)), NumMean(s)), RatOf(B, BI(1))) = 0
\* the history h (texts) has, folded directly, the moments the delta state claims
FullMomentsOK(s, B, h) ==
  LET m == BigMoments(h)
  IN m.n = s.n /\ BEq(m.s1, FullS1(s, B)) /\ BEq(m.s2, FullS2(s, B))
     /\ BEq(NumVarNum(m.n, m.s1, m.s2), NumVarNum(s.n, s.s1, s.s2))

\* ---- tolerances -------------------------------------------------------------------
\* Floating point works with a relative precision of 2^-52, so any summation over n values
\* of magnitude |B| may be off by about n*|B|*2^-52 in absolute terms.  The tolerances below
\* grant that on top of their absolute part: slack = floor(n * (floor(|B| / 10^8) + 1) / 10^7)
\* milli units ( ~ 4 * n*|B|*2^-52 ; 0 when B = 0, and e.g. for |B| = 1.7*10^9 units while n < 588).
NumSlack(n, B) == (n * (MagToNat(SubSeq(B.m, 3, Len(B.m))) + 1)) \div 10000000
\* a reported mean (rounded to milli units, relative to the base) is acceptable within
\* 1 + slack units (10^-3 absolute)
MeanOKs(s, mean3, slack) == BLe(BAbs(BSub(BMul(BI(mean3), BI(s.n)), s.s1)), BI(s.n * (1 + slack)))
MeanOK(s, mean3) == MeanOKs(s, mean3, 0)
\* a reported sample standard deviation sd3 (milli units) is acceptable within
\* t = 1 + slack + sd3 / 10^6 units (10^-3 absolute + 10^-6 relative): (sd3-t)^2 <= var <= (sd3+t)^2
SdOKv(var, sd3, slack) ==          \* var = NumVar(s), computed once by the caller
  LET t  == 1 + slack + sd3 \div 1000000
      lo == IF sd3 - t < 0 THEN 0 ELSE sd3 - t
  IN /\ sd3 >= 0
     /\ RLe(RatOf(BSq(BI(lo)), BI(1)), var)
     /\ RLe(var, RatOf(BSq(BI(sd3 + t)), BI(1)))
SdOKs(s, sd3, slack) == SdOKv(NumVar(s), sd3, slack)
SdOK(s, sd3) == SdOKs(s, sd3, 0)

\* order statistics.  The ordered series is ascending, or descending when `rev`.
\* x stands at 0-based position idx of the ordered series:
Before(s, x, rev) == SumF({v \in DOMAIN s.bag : IF rev THEN v > x ELSE v < x}, s.bag)
StandsAt(s, x, idx, rev) ==
  x \in DOMAIN s.bag /\ Before(s, x, rev) <= idx /\ idx < Before(s, x, rev) + s.bag[x]
ValueAt(s, idx, rev) == CHOOSE x \in DOMAIN s.bag : StandsAt(s, x, idx, rev)
\* nearest-rank definitions fixed for this property (as numerical.go computes them):
\*   median = rank floor(n/2)+1 ;  quantile(p) = rank min(floor(n*p)+1, n) ;  p = p3/1000
MedianIdx(n) == n \div 2
QuantIdx(n, p3) == LET k == (n * p3) \div 1000 IN IF k >= n THEN n - 1 ELSE k
\* the rank is only specified where binary floating point cannot disturb floor(n*p):
\* p a multiple of 1/8 (exact in binary), or n*p not an integer
QuantDomain(n, p3) == p3 \in 0..1000 /\ (p3 % 125 = 0 \/ (n * p3) % 1000 # 0)
\* every most frequent value is an acceptable mode
Modes(s) == {x \in DOMAIN s.bag : \A y \in DOMAIN s.bag : s.bag[y] <= s.bag[x]}

\* ---------------------------------------------------- accumulating group
\* expression trees: [t, s, i, a]
\*   t = "lit" (text s) | "m" (match group i) | "k" (key s; "." = current value)
\*     | "sumi" | "maxi" | "mini" (integer folds over a) | "cat" (concatenation of a)
ELit(s) == [t |-> "lit", s |-> s, i |-> 0, a |-> <<>>]
EM(i)   == [t |-> "m", s |-> <<>>, i |-> i, a |-> <<>>]
EK(s)   == [t |-> "k", s |-> s, i |-> 0, a |-> <<>>]
EF(f, a) == [t |-> f, s |-> <<>>, i |-> 0, a |-> a]
DOT == <<46>>
BadType == <<60, 66, 65, 68, 45, 84, 89, 80, 69, 62>>     \* "<BAD-TYPE>"

RECURSIVE IntFold(_, _, _)
IntFold(f, acc, vals) ==
  IF vals = <<>> THEN acc
  ELSE LET v == vals[1]
           r == CASE f = "sumi" -> acc + v
                  [] f = "maxi" -> IF acc > v THEN acc ELSE v
                  [] f = "mini" -> IF acc < v THEN acc ELSE v
       IN IntFold(f, r, Tail(vals))

RECURSIVE Eval(_, _)
\* ctx: [match, cur, names (column names), row (column values)]
Eval(e, ctx) ==
  CASE e.t = "lit" -> e.s
    [] e.t = "m" -> IF e.i = 0 THEN ctx.match
                    ELSE LET p == Parts(ctx.match) IN IF e.i <= Len(p) THEN p[e.i] ELSE <<>>
    [] e.t = "k" -> IF e.s = DOT THEN ctx.cur
                    ELSE LET J == {j \in 1..Len(ctx.names) : ctx.names[j] = e.s}
                         IN IF J = {} THEN <<>> ELSE ctx.row[CHOOSE j \in J : TRUE]
    [] e.t = "cat" -> Flatten([j \in 1..Len(e.a) |-> Eval(e.a[j], ctx)])
    [] OTHER ->
         LET vs == [j \in 1..Len(e.a) |-> Eval(e.a[j], ctx)]
         IN IF \A j \in 1..Len(vs) : ParseIntOK(vs[j])
            THEN Itoa(IntFold(e.t, ParseIntVal(vs[1]), Tail([j \in 1..Len(vs) |-> ParseIntVal(vs[j])])))
            ELSE BadType

\* template text of an expression (what the harness compiles)
FName(t) == CASE t = "sumi" -> <<115, 117, 109, 105>> [] t = "maxi" -> <<109, 97, 120, 105>>
              [] t = "mini" -> <<109, 105, 110, 105>>
RECURSIVE PrintExpr(_)
PrintExpr(e) ==
  CASE e.t = "lit" -> e.s
    [] e.t = "m" -> <<123>> \o Itoa(e.i) \o <<125>>
    [] e.t = "k" -> <<123>> \o e.s \o <<125>>
    [] e.t = "cat" -> Flatten([j \in 1..Len(e.a) |-> PrintExpr(e.a[j])])
    [] OTHER -> <<123>> \o FName(e.t) \o Flatten([j \in 1..Len(e.a) |-> <<32>> \o PrintExpr(e.a[j])]) \o <<125>>

\* configuration: [groups : seq of [name, e], cols : seq of [name, init, e], sort : <<>> or <<e>>]
\* `sort` is the --sort expression the instance is given (SetSort).  It is evaluated by Groups() only -
\* an accessor: whatever it is, reading the groups is a stuttering step (AObserve).  The ORDER of the
\* listing is property C13's business and is not specified here.
\* state: data : group key -> row (sequence of column values)
AccInit == EmptyFn
AccGroupKey(cfg, el) ==
  LET ctx == [match |-> el, cur |-> <<>>, names |-> <<>>, row |-> <<>>]
  IN JoinSeq([j \in 1..Len(cfg.groups) |-> Eval(cfg.groups[j].e, ctx)], <<NUL>>)
RECURSIVE AccRow(_, _, _, _)
\* columns are evaluated left to right; column j sees the NEW values of columns < j
AccRow(cfg, el, row, j) ==
  IF j > Len(cfg.cols) THEN row
  ELSE LET ctx == [match |-> el, cur |-> row[j], names |-> [i \in 1..Len(cfg.cols) |-> cfg.cols[i].name],
                   row |-> row]
       IN AccRow(cfg, el, [row EXCEPT ![j] = Eval(cfg.cols[j].e, ctx)], j + 1)
AccStep(cfg, s, el) ==
  LET g   == AccGroupKey(cfg, el)
      old == IF g \in DOMAIN s THEN s[g] ELSE [j \in 1..Len(cfg.cols) |-> cfg.cols[j].init]
  IN Upd(s, g, AccRow(cfg, el, old, 1))
RECURSIVE AccFold(_, _)
AccFold(cfg, h) == IF h = <<>> THEN AccInit ELSE AccStep(cfg, AccFold(cfg, SubSeq(h, 1, Len(h) - 1)), h[Len(h)])

\* sample configurations (shared by the model checker, the generator and the trace validator)
\* Profiles 1-3: group expressions built from match groups only.  Profiles 4-6: the evaluation
\* context itself is under test - group expressions that name a data column, the current value
\* `{.}` or an unknown key (all of them are EMPTY while the group is being determined: the group
\* of a sample is a function of the sample alone, AccGroupKey has no state argument), and data
\* expressions that read one column both BEFORE and AFTER its own update in the same sample,
\* name a group column (not a key: empty) or an unknown key.
nTotal == <<116, 111, 116>>   nCnt == <<99, 110, 116>>   nHi == <<104, 105>>   nPrev == <<112, 114, 101, 118>>
nCat == <<99, 97, 116>>   nG == <<103>>   nH == <<104>>   nK == <<107>>
nBef == <<98, 101, 102>>   nAft == <<97, 102, 116>>   nLast == <<108, 97, 115, 116>>   nNoSuch == <<110, 111, 112, 101>>
Col(name, init, e) == [name |-> name, init |-> init, e |-> e]
Grp(name, e) == [name |-> name, e |-> e]
AccCfgOf(profile) ==
  LET cols == << Col(nPrev, <<48>>, EF("sumi", <<EK(nTotal), ELit(<<48>>)>>)),     \* refers to a LATER column: old value
                 Col(nTotal, <<48>>, EF("sumi", <<EK(DOT), EM(2)>>)),
                 Col(nCnt, <<48>>, EF("sumi", <<EK(DOT), ELit(<<49>>)>>)),
                 Col(nHi, <<45, 57>>, EF("maxi", <<EK(DOT), EM(2)>>)),
                 Col(nCat, <<>>, EF("cat", <<EK(DOT), EM(1), ELit(<<44>>)>>)),
                 Col(nG, <<>>, EF("mini", <<EK(nCnt), EK(nHi)>>)) >>          \* refers to EARLIER columns: new values
      \* one column read before and after its update; a plain copy of a match group; group name / unknown key
      cols4 == << Col(nBef, <<48>>, EF("sumi", <<EK(nTotal), ELit(<<48>>)>>)),
                  Col(nTotal, <<48>>, EF("sumi", <<EK(DOT), EM(2)>>)),
                  Col(nAft, <<48>>, EF("sumi", <<EK(nTotal), ELit(<<48>>)>>)),
                  Col(nLast, <<45>>, EF("cat", <<EM(2), EK(nG), EK(nNoSuch)>>)) >>
      cols5 == << Col(nCnt, <<48>>, EF("sumi", <<EK(DOT), ELit(<<49>>)>>)),
                  Col(nLast, <<>>, EF("cat", <<EM(1)>>)),
                  Col(nHi, <<48>>, EF("maxi", <<EK(nCnt), EK(DOT), EK(nCnt)>>)) >>
  IN CASE profile = 1 -> [groups |-> <<Grp(nG, EM(1))>>, cols |-> cols, sort |-> <<>>]
       [] profile = 2 -> [groups |-> <<Grp(nG, EM(1)), Grp(nH, EM(2))>>, cols |-> SubSeq(cols, 2, 4), sort |-> <<>>]
       \* 4: one group "<m1>/<tot>" - the column reference must read as empty: "<m1>/"
       [] profile = 4 -> [groups |-> <<Grp(nG, EF("cat", <<EM(1), ELit(<<47>>), EK(nTotal)>>))>>, cols |-> cols4,
                          sort |-> <<EK(nTotal)>>]
       \* 5: three groups <m1>, {.}, {last}: always "<m1>" NUL "" NUL ""
       [] profile = 5 -> [groups |-> <<Grp(nG, EM(1)), Grp(nH, EK(DOT)), Grp(nK, EK(nLast))>>, cols |-> cols5,
                          sort |-> <<EF("cat", <<EK(nCnt), EM(0), EK(DOT)>>)>>]
       \* 6: no match group at all in the grouping: one group, whatever the columns hold
       [] profile = 6 -> [groups |-> <<Grp(nG, EF("cat", <<EK(nCnt), EK(DOT), EK(nNoSuch)>>))>>, cols |-> cols5,
                          sort |-> <<EK(nHi)>>]
       [] OTHER       -> [groups |-> <<>>, cols |-> cols, sort |-> <<>>]

\* ------------------------------------------------------------ state machine
CONSTANTS Elems,      \* the samples that may arrive
          Preds,      \* the trim predicates that may be applied
          AccCfg      \* accumulating-group configuration
VARIABLES ctr, sub, tbl, num, acc
avars == <<ctr, sub, tbl, num, acc>>

AInit == ctr = CtrInit /\ sub = GridInit /\ tbl = GridInit /\ num = NumInit /\ acc = AccInit
ASampleCtr(el) == ctr' = CtrStep(ctr, el) /\ UNCHANGED <<sub, tbl, num, acc>>
ASampleSub(el) == sub' = SubStep(sub, el) /\ UNCHANGED <<ctr, tbl, num, acc>>
ASampleTblD(el, dl) == tbl' = TblStepD(tbl, el, dl) /\ UNCHANGED <<ctr, sub, num, acc>>
ASampleTbl(el) == ASampleTblD(el, DNUL)
ATrimTbl(p)    == tbl' = TblTrim(tbl, p) /\ UNCHANGED <<ctr, sub, num, acc>>
ASampleNumB(el, B) == num' = NumStepB(num, el, B) /\ UNCHANGED <<ctr, sub, tbl, acc>>
ASampleNum(el) == ASampleNumB(el, BZero)
ASampleAcc(el) == acc' = AccStep(AccCfg, acc, el) /\ UNCHANGED <<ctr, sub, tbl, num>>
\* Reading an aggregator - any public accessor, any number of times, at any point of a history -
\* is a stuttering step: it changes nothing, so what ANY later accessor call returns is a function
\* of the samples and trims alone, never of which accessors were called before or in between
\* (no memoised value may survive a mutator).  The implementation-shaped layer and the bindings
\* make the step explicit and interleave it with Sample / Trim in every order.
AObserve == UNCHANGED avars
\* dl: the delimiter the table was constructed with - fixed for the life of the instance
ANextD(dl) ==
  \/ \E el \in Elems : ASampleCtr(el) \/ ASampleSub(el) \/ ASampleTblD(el, dl) \/ ASampleNum(el) \/ ASampleAcc(el)
  \/ \E p \in Preds : ATrimTbl(p)
  \/ AObserve
ASpecD(dl) == AInit /\ [][ANextD(dl)]_avars
ANext == ANextD(DNUL)
ASpec == ASpecD(DNUL)

\* ---- laws of the abstract machine (state invariants; TLC, B3) ------------------
\* sample order does not matter for count-style aggregators: any two samples commute
CommuteAtD(B, dl) ==
  LET all0 == ctr = CtrInit /\ sub = GridInit /\ tbl = GridInit /\ num = NumInit IN
  \A e1 \in Elems, e2 \in Elems : BytesLess(e1, e2) =>      \* unordered pairs
    /\ (all0 \/ ctr # CtrInit) => CtrStep(CtrStep(ctr, e1), e2) = CtrStep(CtrStep(ctr, e2), e1)
    /\ (all0 \/ sub # GridInit) => SubStep(SubStep(sub, e1), e2) = SubStep(SubStep(sub, e2), e1)
    /\ (all0 \/ tbl # GridInit) => TblStepD(TblStepD(tbl, e1, dl), e2, dl) = TblStepD(TblStepD(tbl, e2, dl), e1, dl)
    /\ (all0 \/ num # NumInit) => NumStepB(NumStepB(num, e1, B), e2, B) = NumStepB(NumStepB(num, e2, B), e1, B)
CommuteAt(B) == CommuteAtD(B, DNUL)
Commute == CommuteAt(BZero)
\* totals are the sums of their cells
TotalsOK ==
  /\ GridSum(tbl) = SumF(GridAs(tbl), [a \in GridAs(tbl) |-> GridRowSum(tbl, a)])
  /\ GridSum(tbl) = SumF(GridBs(tbl), [b \in GridBs(tbl) |-> GridColSum(tbl, b)])
  /\ \A a \in GridAs(tbl) : GridRowSum(tbl, a) = SumF(GridBs(tbl), [b \in GridBs(tbl) |-> GridAt(tbl, a, b)])
\* trim post-condition, for every predicate, in every reachable table state
TrimOK ==
  \A p \in Preds :
    LET t == TblTrim(tbl, p) IN
    /\ DOMAIN t.cell = DOMAIN tbl.cell \ TblTrimmed(tbl, p)
    /\ \A q \in DOMAIN t.cell : t.cell[q] = tbl.cell[q] /\ ~PredHolds(p, q[2], q[1], tbl.cell[q])
    /\ \A a \in GridAs(t) : \E b \in GridBs(t) : <<a, b>> \in DOMAIN t.cell     \* no empty row stays
    /\ \A b \in GridBs(t) : \E a \in GridAs(t) : <<a, b>> \in DOMAIN t.cell     \* no empty column stays
    /\ GridAs(t) \subseteq GridAs(tbl) /\ GridBs(t) \subseteq GridBs(tbl)
=============================================================================

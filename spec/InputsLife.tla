----------------------------- MODULE InputsLife -----------------------------
(* C06 - the life cycle of the inputs of one run, written like the code:        *)
(*   GlobExpand goroutine   : Produce  (expands the next argument into the      *)
(*                            filename channel)                                 *)
(*   OpenFilesToChan loop   : Dispatch (takes a name, acquires the semaphore,   *)
(*                            wg.Add, spawns a reader)                          *)
(*   reader goroutine       : Open / OpenFail, Probe (gzip.NewReader), Rewind   *)
(*                            (Seek(0) after a failed probe), ReadLine, ReadErr *)
(*                            (OnError callback), ReadEnd, Release (deferred    *)
(*                            <-sema, wg.Done)                                  *)
(*   dispatcher             : Close    (wg.Wait(); out.close())                 *)
(* standard input is a single reader outside the semaphore (OpenReaderToChan).  *)
(* TLC explores every interleaving for every scenario of LifeScenarios and      *)
(* checks that the run always terminates, never exceeds or leaks the semaphore, *)
(* reads every mention exactly once, and ends with exactly the deliveries, the  *)
(* error count and the exit status the functional specification Inputs demands. *)
EXTENDS InputsUniv
CONSTANTS ProbeLen,        \* bytes consumed from a file before the gzip probe gives up
          Leak,            \* FALSE = the design; TRUE = the open-error path forgets to release the semaphore
                           \* (a deliberately broken design: TLC must refute SemaOK / Terminates for it)
          LifeT0Only,      \* FALSE = every tree of the universe; TRUE = only the default tree (used with Leak)
          LifePairs        \* two-argument scenarios are included iff both forms are in this set of form indices

VARIABLES sc, argi, q, rd, sema, wg, errs, closed
vars == <<sc, argi, q, rd, sema, wg, errs, closed>>

LifeScenarios ==
  {s \in (IF LifeT0Only THEN FileScenariosOf({T0}) \cup StdinScenarios ELSE Universe) : s.cmd = "filter" /\
     (Len(s.args) <= 1 \/ \A i \in DOMAIN s.args : s.args[i] \in {Forms[j] : j \in LifePairs})}

Active == {"spawned", "probe", "rewind", "reading", "release"}
NewReader(m, st0) == [m |-> m, st |-> st0, off |-> 0, n |-> 0, lim |-> 0, dec |-> FALSE, errd |-> FALSE]
StdinMention == [std |-> TRUE, p |-> <<>>]

Init ==
  /\ sc \in LifeScenarios
  /\ argi = 1 /\ q = <<>> /\ sema = 0 /\ errs = 0 /\ closed = FALSE
  /\ IF UsesStdin(sc.args)
     THEN rd = <<NewReader(StdinMention, "reading")>> /\ wg = 1
     ELSE rd = <<>> /\ wg = 0

\* ---- the expansion goroutine ------------------------------------------------
Produce ==
  /\ ~UsesStdin(sc.args) /\ argi <= Len(sc.args)
  /\ q' = q \o ExpandArg(sc.tree, sc.args[argi], sc.rec)
  /\ argi' = argi + 1
  /\ UNCHANGED <<sc, rd, sema, wg, errs, closed>>

\* ---- the dispatcher loop ----------------------------------------------------
Dispatch ==
  /\ q # <<>> /\ sema < sc.readers
  /\ sema' = sema + 1 /\ wg' = wg + 1
  /\ rd' = Append(rd, NewReader([std |-> FALSE, p |-> Head(q)], "spawned"))
  /\ q' = Tail(q)
  /\ UNCHANGED <<sc, argi, errs, closed>>

\* ---- one reader -------------------------------------------------------------
KindOf(r) == IF r.m.std THEN (IF sc.stdin.k = "dir" THEN "dir" ELSE "file") ELSE KindAt(sc.tree, r.m.p)
RawOf(r)  == IF r.m.std THEN sc.stdin.data ELSE DataAt(sc.tree, r.m.p)

OpenFail(i) ==
  /\ rd[i].st = "spawned" /\ KindOf(rd[i]) = "absent"
  /\ errs' = errs + 1
  /\ IF Leak THEN rd' = [rd EXCEPT ![i].st = "done"] /\ wg' = wg - 1
     ELSE rd' = [rd EXCEPT ![i].st = "release"] /\ wg' = wg
  /\ UNCHANGED <<sc, argi, q, sema, closed>>
Open(i) ==
  /\ rd[i].st = "spawned" /\ KindOf(rd[i]) # "absent"
  /\ rd' = [rd EXCEPT ![i].st = IF sc.gz THEN "probe" ELSE "reading"]
  /\ UNCHANGED <<sc, argi, q, sema, wg, errs, closed>>
\* gzip.NewReader: a gzip header -> decode; anything else -> some bytes were consumed, fall back
Probe(i) ==
  /\ rd[i].st = "probe"
  /\ LET k == KindOf(rd[i]) d == RawOf(rd[i]) IN
     IF k \in GzKinds
     THEN \E lim \in (IF k = "truncgz" THEN 0..Len(d) ELSE IF k = "badgz" THEN {0} ELSE {Len(d)}) :
            rd' = [rd EXCEPT ![i].st = "reading", ![i].dec = TRUE, ![i].lim = lim]
     ELSE rd' = [rd EXCEPT ![i].st = "rewind", ![i].off = IF Len(d) < ProbeLen THEN Len(d) ELSE ProbeLen]
  /\ UNCHANGED <<sc, argi, q, sema, wg, errs, closed>>
Rewind(i) ==
  /\ rd[i].st = "rewind"
  /\ rd' = [rd EXCEPT ![i].st = "reading", ![i].off = 0]
  /\ UNCHANGED <<sc, argi, q, sema, wg, errs, closed>>

\* the bytes reader r obtains before its stream ends (by EOF or by a failure)
Stream(r) ==
  IF r.dec THEN TakeFirst(RawOf(r), r.lim)
  ELSE IF KindOf(r) = "dir" THEN <<>> ELSE DropFirst(RawOf(r), r.off)
Fails(r) == IF r.dec THEN KindOf(r) \in {"truncgz", "crcgz", "badgz"} ELSE KindOf(r) = "dir"

ReadLine(i) ==
  /\ rd[i].st = "reading" /\ rd[i].n < Len(LinesOf(Stream(rd[i])))
  /\ rd' = [rd EXCEPT ![i].n = @ + 1]
  /\ UNCHANGED <<sc, argi, q, sema, wg, errs, closed>>
\* the OnError callback runs when the failing Read returns - possibly before the lines that
\* were already buffered have been handed out
ReadErr(i) ==
  /\ rd[i].st = "reading" /\ Fails(rd[i]) /\ ~rd[i].errd
  /\ errs' = errs + 1
  /\ rd' = [rd EXCEPT ![i].errd = TRUE]
  /\ UNCHANGED <<sc, argi, q, sema, wg, closed>>
ReadEnd(i) ==
  /\ rd[i].st = "reading" /\ rd[i].n = Len(LinesOf(Stream(rd[i])))
  /\ Fails(rd[i]) => rd[i].errd
  /\ rd' = [rd EXCEPT ![i].st = "release"]
  /\ UNCHANGED <<sc, argi, q, sema, wg, errs, closed>>
\* the deferred function: runs on EVERY path out of the reader
Release(i) ==
  /\ rd[i].st = "release"
  /\ sema' = IF rd[i].m.std THEN sema ELSE sema - 1
  /\ wg' = wg - 1
  /\ rd' = [rd EXCEPT ![i].st = "done"]
  /\ UNCHANGED <<sc, argi, q, errs, closed>>

Close ==
  /\ ~closed /\ wg = 0 /\ q = <<>>
  /\ UsesStdin(sc.args) \/ argi > Len(sc.args)
  /\ closed' = TRUE
  /\ UNCHANGED <<sc, argi, q, rd, sema, wg, errs>>

Reader(i) == OpenFail(i) \/ Open(i) \/ Probe(i) \/ Rewind(i) \/ ReadLine(i) \/ ReadErr(i) \/ ReadEnd(i) \/ Release(i)
Next == Produce \/ Dispatch \/ Close \/ \E i \in DOMAIN rd : Reader(i)
Finished == closed /\ UNCHANGED vars
Spec == Init /\ [][Next \/ Finished]_vars /\ WF_vars(Next)

\* ---- properties -------------------------------------------------------------
NActive == Cardinality({i \in DOMAIN rd : rd[i].st \in Active})
SemaOK ==
  /\ sema >= 0 /\ sema <= sc.readers
  /\ ~UsesStdin(sc.args) => sema = NActive
  /\ wg = NActive
ErrsOK == errs = Cardinality({i \in DOMAIN rd : rd[i].errd \/ (rd[i].st \in {"release", "done"} /\ KindOf(rd[i]) = "absent")})
LinesOnce == \A i \in DOMAIN rd : rd[i].n <= Len(LinesOf(Stream(rd[i])))

\* final state: every mention was read exactly once, every input that does not fail was delivered
\* completely from its first byte, a failing one delivered a prefix; the error counter, and with it
\* the exit status, is what Inputs demands
FinalOK ==
  closed =>
    LET ms == Mentions(sc) IN
    /\ sema = 0 /\ wg = 0 /\ q = <<>>
    /\ Len(rd) = Len(ms)
    /\ \A i \in DOMAIN rd :
         LET ro == ReadOutcome(sc, ms[i]) IN
         /\ rd[i].m = ms[i] /\ rd[i].st = "done"
         /\ rd[i].n = Len(LinesOf(Stream(rd[i])))
         /\ IF ro.mode = "exact" THEN Stream(rd[i]) = ro.full ELSE IsPrefixOf(Stream(rd[i]), ro.full)
    /\ LET o == OutcomeOf(sc, ms, [i \in DOMAIN rd |-> Stream(rd[i])]) IN
         /\ errs = o.nerr
         /\ ExitCode(errs, o.parse, o.matched) = o.exit
         /\ (errs > 0) = (o.exit = 2 /\ o.msg = "read")
\* a failing input never keeps another one from starting: whenever a name is waiting and no reader
\* is active, the dispatcher can take it
NoStall == (q # <<>> /\ NActive = 0) => ENABLED Dispatch
Terminates == <>closed
=============================================================================

----------------------------- MODULE InputsLife -----------------------------
(* C06 - the life cycle of the inputs of one run, written like the code:        *)
(*   GlobExpand goroutine   : Produce  (expands the next argument into the      *)
(*                            filename channel)                                 *)
(*   OpenFilesToChan loop   : Dispatch (takes a name, acquires the semaphore,   *)
(*                            wg.Add, spawns a reader)                          *)
(*   reader goroutine       : Open / OpenFail / OpenEmfile (os.Open takes a     *)
(*                            descriptor), Probe (gzip.NewReader; for an input  *)
(*                            that cannot be rewound: peek at the magic number, *)
(*                            header check through a recorder), NextMember (the *)
(*                            decompressor reaches the end of a gzip member and *)
(*                            goes on with the next one), Rewind (Seek(0)       *)
(*                            resp. replay of the record after a failed probe), *)
(*                            ReadLine, ReadErr (OnError callback), ReadEnd     *)
(*                            (file.Close gives the descriptor back), Release   *)
(*                            (deferred <-sema, wg.Done)                        *)
(*   dispatcher             : Close    (wg.Wait(); out.close())                 *)
(* standard input is a single reader outside the semaphore (OpenReaderToChan).  *)
(* TLC explores every interleaving for every scenario of LifeScenarios and      *)
(* checks that the run always terminates, never exceeds or leaks the semaphore, *)
(* never has more than --readers inputs open (hence never runs out of           *)
(* descriptors, however many inputs are mentioned), reads every mention exactly *)
(* once, and ends with exactly the deliveries, the error count and the exit     *)
(* status the functional specification Inputs demands - whether an input is a   *)
(* regular file or a pipe.                                                      *)
EXTENDS InputsUniv
CONSTANTS ProbeLen,        \* bytes consumed from a file before the gzip probe gives up
          Leak,            \* FALSE = the design; TRUE = the open-error path forgets to release the semaphore
                           \* (a deliberately broken design: TLC must refute SemaOK / Terminates for it)
          LifeSel,         \* "all" = every tree of the universe; "t0" = only the default tree; "pipes" = only
                           \* the trees in which `a` is a FIFO (the last two for the broken designs)
          LifePairs,       \* two-argument scenarios are included iff both forms are in this set of form indices
          Part, NParts,    \* LifeSel = "all": this run explores the trees with index = Part (mod NParts)
          MaxFd,           \* descriptors the operating system grants the readers (>= the largest --readers)
          OpenFirst,       \* FALSE = the design: the reader slot is taken BEFORE the reader is started;
                           \* TRUE = every name gets its goroutine at once, which opens the file and only then
                           \* waits for a slot (broken: TLC must refute FdOK / FinalOK)
          Multi,           \* "all" = the design: the decompressor reads member after member to the end of the
                           \* file; "first" = it reports the end of the input at the end of the first member
                           \* (gzip.Reader.Multistream(false): broken, TLC must refute FinalOK)
          PipeProbe        \* how -z probes an input that cannot be rewound:
                           \*   "record"   the design: peek at the magic number; the header check reads through a
                           \*              recorder whose content is served again when the check fails
                           \*   "norecord" peek, header check directly on the stream (broken: what the failed
                           \*              check consumed is lost)
                           \*   "seek"     probe and Seek(0) as for a regular file (broken: the Seek fails)
                           \*   "sizeskip" no probe at all when the reported size is 0 (broken: a pipe reports 0)

VARIABLES sc, argi, q, rd, sema, wg, errs, closed, fd
vars == <<sc, argi, q, rd, sema, wg, errs, closed, fd>>

LifeArgs == {a \in ArgLists : Len(a) <= 1 \/ \A i \in DOMAIN a : a[i] \in {Forms[j] : j \in LifePairs}}
LifeTrees ==
  IF LifeSel = "t0" THEN {T0}
  ELSE IF LifeSel = "pipes" THEN {TreeWith(P_a, v) : v \in PipeVariants(P_a)}
  ELSE IF LifeSel = "members" THEN {TreeWith(P_a, v) : v \in {x \in Variants(P_a) : x[1] = "mgz"}}
  \* (the walk past non-regular entries is decided on the functional layer: Inputs_MC!LWalkImpl)
  ELSE {TreeSeq[i] : i \in {j \in 1..Len(TreeSeq) : j % NParts = Part}} \ SpecialTrees
LifeScenarios ==
  FileScenariosIn(LifeTrees, LifeArgs, {"filter"})
  \cup (IF LifeSel \in {"pipes", "members"} \/ (LifeSel = "all" /\ Part # 0) THEN {} ELSE {s \in StdinScenarios : s.cmd = "filter"})

Active == {"spawned", "wait", "probe", "rewind", "reading", "release"}
NewReader(m, st0, held) == [m |-> m, st |-> st0, off |-> 0, n |-> 0, lim |-> 0, mi |-> 0, dec |-> FALSE, errd |-> FALSE,
                            held |-> held, open |-> FALSE, emf |-> FALSE]
StdinMention == [std |-> TRUE, p |-> <<>>]

Init ==
  /\ sc \in LifeScenarios
  /\ argi = 1 /\ q = <<>> /\ sema = 0 /\ errs = 0 /\ closed = FALSE /\ fd = 0
  /\ IF UsesStdin(sc.args)
     THEN rd = <<NewReader(StdinMention, "reading", FALSE)>> /\ wg = 1
     ELSE rd = <<>> /\ wg = 0

\* ---- the expansion goroutine ------------------------------------------------
Produce ==
  /\ ~UsesStdin(sc.args) /\ argi <= Len(sc.args)
  /\ q' = q \o ExpandArg(sc.tree, sc.args[argi], sc.rec)
  /\ argi' = argi + 1
  /\ UNCHANGED <<sc, rd, sema, wg, errs, closed, fd>>

\* ---- the dispatcher loop ----------------------------------------------------
Dispatch ==
  /\ q # <<>>
  /\ IF OpenFirst THEN sema' = sema ELSE sema < sc.readers /\ sema' = sema + 1
  /\ wg' = wg + 1
  /\ rd' = Append(rd, NewReader([std |-> FALSE, p |-> Head(q)], "spawned", ~OpenFirst))
  /\ q' = Tail(q)
  /\ UNCHANGED <<sc, argi, errs, closed, fd>>

\* ---- one reader -------------------------------------------------------------
MemOfR(r) == IF r.m.std \/ ~Exists(sc.tree, r.m.p) THEN <<>> ELSE NodeAt(sc.tree, r.m.p).mem
KindOf(r) == IF r.m.std THEN (IF sc.stdin.k = "dir" THEN "dir" ELSE "file") ELSE KindAt(sc.tree, r.m.p)
RawOf(r)  == IF r.m.std THEN sc.stdin.data ELSE DataAt(sc.tree, r.m.p)
TrOf(r)   == IF r.m.std \/ ~Exists(sc.tree, r.m.p) THEN "reg" ELSE NodeAt(sc.tree, r.m.p).tr
ImageOf(r) == Image(KindOf(r), RawOf(r))
Consumed(b) == IF Len(b) < ProbeLen THEN Len(b) ELSE ProbeLen

OpenFail(i) ==
  /\ rd[i].st = "spawned" /\ KindOf(rd[i]) = "absent"
  /\ errs' = errs + 1
  /\ IF Leak THEN rd' = [rd EXCEPT ![i].st = "done"] /\ wg' = wg - 1
     ELSE rd' = [rd EXCEPT ![i].st = "release"] /\ wg' = wg
  /\ UNCHANGED <<sc, argi, q, sema, closed, fd>>
\* the operating system has no descriptor left: a READABLE input is reported as an open error
OpenEmfile(i) ==
  /\ rd[i].st = "spawned" /\ KindOf(rd[i]) # "absent" /\ fd >= MaxFd
  /\ errs' = errs + 1
  /\ rd' = [rd EXCEPT ![i].st = "release", ![i].emf = TRUE]
  /\ UNCHANGED <<sc, argi, q, sema, wg, closed, fd>>
Open(i) ==
  /\ rd[i].st = "spawned" /\ KindOf(rd[i]) # "absent" /\ fd < MaxFd
  /\ fd' = fd + 1
  /\ rd' = [rd EXCEPT ![i].open = TRUE,
                      ![i].st = IF OpenFirst THEN "wait" ELSE IF sc.gz THEN "probe" ELSE "reading"]
  /\ UNCHANGED <<sc, argi, q, sema, wg, errs, closed>>
\* only in the OpenFirst design: the slot is taken with the file already open
Acquire(i) ==
  /\ rd[i].st = "wait" /\ sema < sc.readers
  /\ sema' = sema + 1
  /\ rd' = [rd EXCEPT ![i].held = TRUE, ![i].st = IF sc.gz THEN "probe" ELSE "reading"]
  /\ UNCHANGED <<sc, argi, q, wg, errs, closed, fd>>

\* gzip.NewReader: a gzip header -> decode; anything else -> some bytes were consumed, fall back
\* (a file of several members: the first member is decoded, NextMember goes on)
DecodeFrom(i, k, d) ==
  \E lim \in (IF k = "truncgz" THEN 0..Len(d) ELSE IF k = "badgz" THEN {0}
              ELSE IF k = "mgz" THEN {MemOfR(rd[i])[1]} ELSE {Len(d)}) :
    rd' = [rd EXCEPT ![i].st = "reading", ![i].dec = TRUE, ![i].lim = lim, ![i].mi = 1]
Probe(i) ==
  /\ rd[i].st = "probe"
  /\ LET k == KindOf(rd[i]) d == RawOf(rd[i]) img == ImageOf(rd[i]) pipe == TrOf(rd[i]) = "pipe" IN
     IF PipeProbe = "sizeskip" /\ ReportedSize(k, d, TrOf(rd[i])) = 0
     THEN rd' = [rd EXCEPT ![i].st = "reading"]                      \* handed on as it is
     ELSE IF pipe /\ PipeProbe # "seek" /\ ~HasMagic(img)
     THEN rd' = [rd EXCEPT ![i].st = "reading"]                      \* peeked only: nothing consumed
     ELSE IF k \in GzKinds THEN DecodeFrom(i, k, d)
     ELSE rd' = [rd EXCEPT ![i].st = "rewind", ![i].off = Consumed(img)]
  /\ UNCHANGED <<sc, argi, q, sema, wg, errs, closed, fd>>
\* back to the first byte: Seek(0) on a regular file, the recorded bytes again on a pipe
Rewind(i) ==
  /\ rd[i].st = "rewind"
  /\ LET works == TrOf(rd[i]) = "reg" \/ PipeProbe = "record" IN
     rd' = [rd EXCEPT ![i].st = "reading", ![i].off = IF works THEN 0 ELSE @]
  /\ UNCHANGED <<sc, argi, q, sema, wg, errs, closed, fd>>

\* the decompressor found the trailer of a member and another member behind it
MoreMembers(r) == r.dec /\ KindOf(r) = "mgz" /\ r.mi < Len(MemOfR(r)) /\ Multi = "all"
NextMember(i) ==
  /\ rd[i].st = "reading" /\ MoreMembers(rd[i])
  /\ rd' = [rd EXCEPT ![i].mi = @ + 1, ![i].lim = @ + MemOfR(rd[i])[rd[i].mi + 1]]
  /\ UNCHANGED <<sc, argi, q, sema, wg, errs, closed, fd>>

\* the bytes reader r has obtained so far (all it will obtain, by EOF or by a failure, when ~MoreMembers(r))
Stream(r) ==
  IF r.dec THEN TakeFirst(RawOf(r), r.lim)
  ELSE IF KindOf(r) = "dir" THEN <<>> ELSE DropFirst(ImageOf(r), r.off)
Fails(r) == IF r.dec THEN KindOf(r) \in {"truncgz", "crcgz", "badgz"} ELSE KindOf(r) = "dir"

\* the lines that can be handed out: while more bytes may follow, only those whose terminator has arrived
Avail(r) ==
  LET s == Stream(r) l == Len(LinesOf(s)) IN
  IF MoreMembers(r) /\ s # <<>> /\ s[Len(s)] # LF THEN l - 1 ELSE l
ReadLine(i) ==
  /\ rd[i].st = "reading" /\ rd[i].n < Avail(rd[i])
  /\ rd' = [rd EXCEPT ![i].n = @ + 1]
  /\ UNCHANGED <<sc, argi, q, sema, wg, errs, closed, fd>>
\* the OnError callback runs when the failing Read returns - possibly before the lines that
\* were already buffered have been handed out
ReadErr(i) ==
  /\ rd[i].st = "reading" /\ Fails(rd[i]) /\ ~rd[i].errd
  /\ errs' = errs + 1
  /\ rd' = [rd EXCEPT ![i].errd = TRUE]
  /\ UNCHANGED <<sc, argi, q, sema, wg, closed, fd>>
\* end of the stream: the deferred file.Close() gives the descriptor back (the decompressor AND the file)
ReadEnd(i) ==
  /\ rd[i].st = "reading" /\ ~MoreMembers(rd[i]) /\ rd[i].n = Len(LinesOf(Stream(rd[i])))
  /\ Fails(rd[i]) => rd[i].errd
  /\ rd' = [rd EXCEPT ![i].st = "release", ![i].open = FALSE]
  /\ fd' = IF rd[i].open THEN fd - 1 ELSE fd
  /\ UNCHANGED <<sc, argi, q, sema, wg, errs, closed>>
\* the deferred function: runs on EVERY path out of the reader
Release(i) ==
  /\ rd[i].st = "release"
  /\ sema' = IF rd[i].held THEN sema - 1 ELSE sema
  /\ wg' = wg - 1
  /\ rd' = [rd EXCEPT ![i].st = "done", ![i].held = FALSE]
  /\ UNCHANGED <<sc, argi, q, errs, closed, fd>>

Close ==
  /\ ~closed /\ wg = 0 /\ q = <<>>
  /\ UsesStdin(sc.args) \/ argi > Len(sc.args)
  /\ closed' = TRUE
  /\ UNCHANGED <<sc, argi, q, rd, sema, wg, errs, fd>>

Reader(i) == OpenFail(i) \/ OpenEmfile(i) \/ Open(i) \/ Acquire(i) \/ Probe(i) \/ NextMember(i) \/ Rewind(i) \/ ReadLine(i)
             \/ ReadErr(i) \/ ReadEnd(i) \/ Release(i)
Next == Produce \/ Dispatch \/ Close \/ \E i \in DOMAIN rd : Reader(i)
Finished == closed /\ UNCHANGED vars
Spec == Init /\ [][Next \/ Finished]_vars /\ WF_vars(Next)

\* ---- properties -------------------------------------------------------------
NActive == Cardinality({i \in DOMAIN rd : rd[i].st \in Active})
NHeld   == Cardinality({i \in DOMAIN rd : rd[i].held})
NOpen   == Cardinality({i \in DOMAIN rd : rd[i].open})
SemaOK ==
  /\ sema >= 0 /\ sema <= sc.readers
  /\ sema = NHeld
  /\ (~OpenFirst /\ ~UsesStdin(sc.args)) => sema = NActive
  /\ wg = NActive
\* the resource the semaphore protects: an input is open only while its reader holds a slot, so the
\* number of open inputs never exceeds --readers - whatever the number of mentions - and with
\* --readers <= MaxFd the operating system never refuses a descriptor
FdOK ==
  /\ fd = NOpen /\ fd <= MaxFd
  /\ fd <= MaxOpen(sc)
  /\ \A i \in DOMAIN rd : rd[i].open => rd[i].held
  /\ sc.readers <= MaxFd => \A i \in DOMAIN rd : ~rd[i].emf
ErrsOK == errs = Cardinality({i \in DOMAIN rd : rd[i].errd \/ rd[i].emf
                                                \/ (rd[i].st \in {"release", "done"} /\ KindOf(rd[i]) = "absent")})
LinesOnce == \A i \in DOMAIN rd : rd[i].n <= Avail(rd[i])
\* a line handed out early is a line of the complete input (a line may span two members)
MembersOK == \A i \in DOMAIN rd :
  (rd[i].dec /\ KindOf(rd[i]) = "mgz" /\ Multi = "all") =>
     /\ rd[i].lim = SumSeq(SubSeq(MemOfR(rd[i]), 1, rd[i].mi))
     /\ SubSeq(LinesOf(Stream(rd[i])), 1, rd[i].n) = SubSeq(LinesOf(RawOf(rd[i])), 1, rd[i].n)

\* final state: every mention was read exactly once, every input that does not fail was delivered
\* completely from its first byte, a failing one delivered a prefix; the error counter, and with it
\* the exit status, is what Inputs demands; no descriptor is left open
FinalOK ==
  closed =>
    LET ms == Mentions(sc) IN
    /\ sema = 0 /\ wg = 0 /\ q = <<>> /\ fd = 0
    /\ Len(rd) = Len(ms)
    /\ \A i \in DOMAIN rd :
         LET ro == ReadOutcome(sc, ms[i]) IN
         /\ rd[i].m = ms[i] /\ rd[i].st = "done"
         /\ rd[i].n = Len(LinesOf(Stream(rd[i])))
         /\ IF ro.mode = "exact" THEN Stream(rd[i]) = ro.full ELSE IsPrefixOf(Stream(rd[i]), ro.full)
    /\ LET o == OutcomeOf(sc, ms, [i \in DOMAIN rd |-> Stream(rd[i])]) IN
         /\ errs = o.nerr
         /\ ExitCode(errs, o.parse, o.matched) = o.exit
         /\ (errs > 0) = (o.exit = 2 /\ o.msg = "read")
\* a failing input never keeps another one from starting: whenever a name is waiting and no reader
\* is active, the dispatcher can take it
NoStall == (q # <<>> /\ NActive = 0) => ENABLED Dispatch
Terminates == <>closed
=============================================================================

------------------------------- MODULE FuzzyLaws -------------------------------
(* The user-level laws of the fuzzy table over a history of GetMatchId calls:     *)
(*   h[i] = [val, match, new, count]   (count = table size after the call)        *)
(* Sim(a, b) - "a stored key a is similar enough to the asked key b".             *)
EXTENDS Integers, Sequences, FiniteSets

LOCAL NewBefore(h, i) == {h[j].val : j \in {j \in 1..(i - 1) : h[j].new}}
\* nothing was cut or refused so far: every key handed out as new made the table grow by one, so the table still
\* holds all of them
LOCAL Intact(h, i) == \A j \in 1..(i - 1) :
                         h[j].count = (IF j = 1 THEN 0 ELSE h[j - 1].count) + (IF h[j].new THEN 1 ELSE 0)

\* the call sorted and cut the table: it is the Every-th, 2 Every-th, ... unsuccessful search
LOCAL IsCut(h, i, Every) == h[i].new /\ Cardinality({j \in 1..i : h[j].new}) % Every = 0

Why(h, MaxSize, Every, Sim(_, _)) ==
  (IF \A i \in 1..Len(h) : ~h[i].new => (h[i].match \in NewBefore(h, i) /\ Sim(h[i].match, h[i].val))
   THEN {} ELSE {"unsound"}) \cup
  (IF \A i \in 1..Len(h) : h[i].new => h[i].match = h[i].val THEN {} ELSE {"new-not-itself"}) \cup
  (IF \A i \in 1..Len(h) : (h[i].new /\ Intact(h, i)) => \A k \in NewBefore(h, i) : ~Sim(k, h[i].val)
   THEN {} ELSE {"incomplete"}) \cup
  (IF \A i \in 2..Len(h) : h[i].val = h[i - 1].val =>
         \/ (~h[i - 1].new /\ ~h[i].new /\ h[i].match = h[i - 1].match)
         \/ (h[i - 1].new /\ h[i - 1].count > (IF i = 2 THEN 0 ELSE h[i - 2].count) /\ ~h[i].new /\ h[i].match = h[i].val)
         \/ (h[i - 1].new /\ h[i - 1].count <= (IF i = 2 THEN 0 ELSE h[i - 2].count))      \* refused or cut: nothing owed
   THEN {} ELSE {"repeat"}) \cup
  (IF \A i \in 1..Len(h) : IsCut(h, i, Every) => h[i].count <= MaxSize + 1 THEN {} ELSE {"not-cut"}) \cup
  (IF \A i \in 1..Len(h) : h[i].count <= MaxSize + Every /\ (~h[i].new => h[i].count = (IF i = 1 THEN 0 ELSE h[i - 1].count))
   THEN {} ELSE {"unbounded"})
=============================================================================

---------------------------- MODULE MathExprLex ----------------------------
(* C19 - the formula language of `{! ...}` at the level of CHARACTERS.          *)
(*                                                                              *)
(* MathExpr.tla treats a formula as a sequence of opaque tokens ("2", "[x]",    *)
(* "<<"); what an operand may look like inside is not part of it.  This module  *)
(* is the lexical layer underneath: a formula is a sequence of bytes.           *)
(*                                                                              *)
(* Part A  the 95 printable ASCII bytes and their roles: blank, parentheses,    *)
(*         operator characters, `!`, digits, letters, `.`, the two brackets -   *)
(*         and the 15 punctuation bytes that have NO role in a formula          *)
(*         (" # $ ' , : ; ? @ \ _ ` { } ~)                                      *)
(* Part B  the documented operands (docs/usage/math.md): numbers 123 / 123.456  *)
(*         / 0x1BC / 0b1101 with their values, bare names (a letter, then       *)
(*         letters and digits), keys in ONE pair of brackets [n] / [name]       *)
(* Part C  the reference lexer LexScan: bytes -> tokens of MathExpr + the leaves *)
(*         the operands denote + the lexical verdict                             *)
(*           "mal"  must be rejected at compile time:                            *)
(*                  bracket - a `[` inside a key, a `]` without a `[`, a key    *)
(*                            never closed or cut by an operator / parenthesis, *)
(*                            a key glued to another operand (a[1], [x]y, [0][1])*)
(*                  operand - a role-less byte anywhere outside a key           *)
(*           "und"  not covered by the documentation, any verdict: operands     *)
(*                  separated by blanks only (the code glues them together),    *)
(*                  blanks or unusual bytes inside a key, the empty key,        *)
(*                  digit-led words that are no documented number (010, 1e3,    *)
(*                  1_0, 0X1F, 9b ...), words with a `.` that are no number     *)
(*         LexClass = the lexical verdict combined with MathExpr!Class of the   *)
(*         tokens; LexTree = MathExpr!ParseRef of the tokens with the leaves    *)
(*         put back; its Value is the value of the formula                      *)
(* Part D  an implementation-shaped transcription at byte level: tokenizeExpr's *)
(*         character classes, compileToken (isBoxed, the one-pair check,        *)
(*         strconv.ParseInt(s, 0, 64) / ParseFloat / Atoi acceptance,           *)
(*         validVariableName), compileTokens; parameterised by the policy that  *)
(*         decides what a bare name is and what a boxed key is, so that other   *)
(*         designs can be refuted (MathExprLex_MC)                              *)
EXTENDS MathExpr

\* ===================================================================== Part A
SP == 32     \* blank
BANG == 33   \* !
LPB == 40    \* (
RPB == 41    \* )
MINUS == 45
DOT == 46
LBR == 91    \* [
BSL == 92    \* \
RBR == 93    \* ]
USC == 95    \* _
BTK == 96    \* `
OpBytes == {43, 45, 42, 47, 94, 37, 38, 124, 60, 62, 61}      \* + - * / ^ % & | < > =
\* " # $ ' , : ; ? @ \ _ ` { } ~
RoleLess == {34, 35, 36, 39, 44, 58, 59, 63, 64, 92, 95, 96, 123, 125, 126}
IsDigitB(c) == c >= 48 /\ c <= 57
IsUpperB(c) == c >= 65 /\ c <= 90
IsLowerB(c) == c >= 97 /\ c <= 122
IsLetterB(c) == IsUpperB(c) \/ IsLowerB(c)
IsAlnumB(c) == IsDigitB(c) \/ IsLetterB(c)
LowerB(c) == IF IsUpperB(c) THEN c + 32 ELSE c
IsHexB(c) == IsDigitB(c) \/ (LowerB(c) >= 97 /\ LowerB(c) <= 102)
HexValB(c) == IF IsDigitB(c) THEN c - 48 ELSE LowerB(c) - 87
Printable == 32..126
Punct == {c \in Printable : c # SP /\ ~IsAlnumB(c)}
RolePunct == OpBytes \cup {BANG, LPB, RPB, DOT, LBR, RBR}
\* every printable byte has exactly one role
CharClassesOK ==
  /\ Cardinality(Punct) = 32 /\ Cardinality(RoleLess) = 15 /\ Cardinality(RolePunct) = 17
  /\ RoleLess \cap RolePunct = {} /\ RoleLess \cup RolePunct = Punct
  /\ {c \in Printable : IsDigitB(c)} \cap {c \in Printable : IsLetterB(c)} = {}
  /\ Cardinality({c \in Printable : IsAlnumB(c)}) = 62
  /\ {c \in 65..122 : ~IsLetterB(c)} = {LBR, BSL, RBR, 94, USC, BTK}    \* what lies between 'Z' and 'a'

OpStr(c) ==
  CASE c = 43 -> "+" [] c = 45 -> "-" [] c = 42 -> "*" [] c = 47 -> "/" [] c = 94 -> "^" [] c = 37 -> "%"
    [] c = 38 -> "&" [] c = 124 -> "|" [] c = 60 -> "<" [] c = 62 -> ">" [] c = 61 -> "="
    [] c = BANG -> "!" [] c = LPB -> "(" [] c = RPB -> ")"

FuncTab == <<<<"abs", <<97, 98, 115>>>>,
            <<"floor", <<102, 108, 111, 111, 114>>>>,
            <<"ceil", <<99, 101, 105, 108>>>>,
            <<"round", <<114, 111, 117, 110, 100>>>>,
            <<"sqrt", <<115, 113, 114, 116>>>>,
            <<"sin", <<115, 105, 110>>>>,
            <<"asin", <<97, 115, 105, 110>>>>,
            <<"cos", <<99, 111, 115>>>>,
            <<"acos", <<97, 99, 111, 115>>>>,
            <<"tan", <<116, 97, 110>>>>,
            <<"atan", <<97, 116, 97, 110>>>>,
            <<"exp", <<101, 120, 112>>>>,
            <<"exp2", <<101, 120, 112, 50>>>>,
            <<"log", <<108, 111, 103>>>>,
            <<"log10", <<108, 111, 103, 49, 48>>>>,
            <<"log2", <<108, 111, 103, 50>>>> >>
FuncTabOK == {FuncTab[i][1] : i \in 1..Len(FuncTab)} = Funcs /\ Len(FuncTab) = Cardinality(Funcs)
FuncOfWord(w) == IF \E i \in 1..Len(FuncTab) : FuncTab[i][2] = w
                 THEN FuncTab[CHOOSE i \in 1..Len(FuncTab) : FuncTab[i][2] = w][1] ELSE ""
VarBytes == <<120, 121, 122, 119, 112, 113, 114, 115>>        \* x y z w p q r s   (MathExpr!VarBare)
NoVar == Var(0)                     \* a variable the bindings do not know: no value is demanded
NamedLeaf(nm) == IF Len(nm) = 1 /\ InSeq(nm[1], VarBytes) THEN Var(IdxIn(nm[1], VarBytes)) ELSE NoVar

\* ===================================================================== Part B
AllB(w, P(_)) == \A i \in 1..Len(w) : P(w[i])
\* value of a digit string in a base, most significant first (the caller bounds the length: 32-bit integers)
RECURSIVE PosVal(_, _)
PosVal(w, base) == IF w = <<>> THEN 0 ELSE PosVal(SubSeq(w, 1, Len(w) - 1), base) * base + HexValB(w[Len(w)])
RECURSIVE P10(_)
P10(k) == IF k = 0 THEN 1 ELSE 10 * P10(k - 1)
NormQ(n, d) == LET g == GCD(n, d) IN IF n = 0 THEN <<0, 1>> ELSE <<n \div g, d \div g>>
DotsAt(w) == {i \in 1..Len(w) : w[i] = DOT}
IsBin01(c) == c = 48 \/ c = 49
PlainInt(w) == w # <<>> /\ AllB(w, IsDigitB) /\ (Len(w) = 1 \/ w[1] # 48)       \* 0, 7, 120 - not 007
(* The documented number formats.  ok: the word is one; known: its value fits   *)
(* the model's integers (then q = <<n, d>> in lowest terms).                    *)
NoNum == [ok |-> FALSE, known |-> FALSE, q |-> <<0, 1>>]
DocNum(w) ==
  IF w = <<>> THEN NoNum
  ELSE IF PlainInt(w) THEN
       IF Len(w) <= 9 THEN [ok |-> TRUE, known |-> TRUE, q |-> <<PosVal(w, 10), 1>>] ELSE [ok |-> TRUE, known |-> FALSE, q |-> <<0, 1>>]
  ELSE IF Cardinality(DotsAt(w)) = 1 THEN
       LET p == CHOOSE i \in DotsAt(w) : TRUE
           ip == SubSeq(w, 1, p - 1)
           fp == SubSeq(w, p + 1, Len(w)) IN
       IF PlainInt(ip) /\ fp # <<>> /\ AllB(fp, IsDigitB) THEN
            IF Len(w) <= 10 THEN [ok |-> TRUE, known |-> TRUE, q |-> NormQ(PosVal(ip \o fp, 10), P10(Len(fp)))]
            ELSE [ok |-> TRUE, known |-> FALSE, q |-> <<0, 1>>]
       ELSE NoNum
  ELSE IF Len(w) >= 3 /\ w[1] = 48 /\ w[2] = 120 /\ AllB(SubSeq(w, 3, Len(w)), IsHexB) THEN          \* 0x
       IF Len(w) <= 9 THEN [ok |-> TRUE, known |-> TRUE, q |-> <<PosVal(SubSeq(w, 3, Len(w)), 16), 1>>]
       ELSE IF Len(w) <= 17 THEN [ok |-> TRUE, known |-> FALSE, q |-> <<0, 1>>] ELSE NoNum     \* beyond 2^60: not demanded
  ELSE IF Len(w) >= 3 /\ w[1] = 48 /\ w[2] = 98 /\ AllB(SubSeq(w, 3, Len(w)), IsBin01) THEN           \* 0b
       IF Len(w) <= 32 THEN [ok |-> TRUE, known |-> TRUE, q |-> <<PosVal(SubSeq(w, 3, Len(w)), 2), 1>>]
       ELSE IF Len(w) <= 62 THEN [ok |-> TRUE, known |-> FALSE, q |-> <<0, 1>>] ELSE NoNum
  ELSE NoNum

(* What one word (no blanks, no operator, no parenthesis; brackets already      *)
(* checked by the scan) denotes.  tok: the MathExpr token standing for it ("2"  *)
(* for a number, "x" for a variable, the function's own name); leaf: the tree   *)
(* leaf (<<>> for a function name); und: outside the documentation.             *)
WK(tok, leaf, und) == [tok |-> tok, leaf |-> leaf, und |-> und]
IsKeyB(c) == IsAlnumB(c) \/ c = USC
WordKind(w) ==
  IF w[1] = LBR THEN
       IF Len(w) < 2 \/ w[Len(w)] # RBR THEN WK("x", <<NoVar>>, TRUE)             \* (a bracket fault, flagged by the scan)
       ELSE LET key == SubSeq(w, 2, Len(w) - 1) IN
            IF key = <<>> \/ ~AllB(key, IsKeyB) THEN WK("x", <<NoVar>>, TRUE)
            ELSE IF AllB(key, IsDigitB) THEN
                 WK("x", <<IF Len(key) <= 9 /\ PosVal(key, 10) < NVars THEN Var(PosVal(key, 10) + 1) ELSE NoVar>>, FALSE)
            ELSE WK("x", <<NamedLeaf(key)>>, FALSE)
  ELSE IF IsLetterB(w[1]) /\ AllB(w, IsAlnumB) THEN
       IF FuncOfWord(w) # "" THEN WK(FuncOfWord(w), <<>>, FALSE) ELSE WK("x", <<NamedLeaf(w)>>, FALSE)
  ELSE LET n == DocNum(w) IN
       IF n.ok THEN WK("2", <<IF n.known THEN Num(n.q) ELSE NoVar>>, FALSE)
       ELSE WK("x", <<NoVar>>, TRUE)

\* ===================================================================== Part C
(* The scan.  w: the bytes of the operand being read (blanks left out - the     *)
(* code glues across them, the documentation does not say); sep: a blank since  *)
(* its last byte; depth: 1 inside a key; aft: its last byte closed a key.       *)
LInit == [toks |-> <<>>, lv |-> <<>>, w |-> <<>>, sep |-> FALSE, depth |-> 0, aft |-> FALSE, mal |-> "", und |-> FALSE]
Flag(s, m) == IF s.mal = "" THEN [s EXCEPT !.mal = m] ELSE s
Und(s) == [s EXCEPT !.und = TRUE]
Flush(s) ==
  IF s.w = <<>> THEN s
  ELSE LET k == WordKind(s.w) IN
       [s EXCEPT !.toks = Append(@, k.tok), !.lv = @ \o k.leaf, !.und = @ \/ k.und,
                 !.w = <<>>, !.sep = FALSE, !.aft = FALSE, !.depth = 0]
RECURSIVE LScan(_, _, _)
LScan(T, i, s) ==
  IF i > Len(T) THEN Flush(IF s.depth = 1 THEN Flag(s, "bracket") ELSE s)             \* a key never closed
  ELSE LET c == T[i] IN
  IF c = SP THEN LScan(T, i + 1, [s EXCEPT !.sep = @ \/ s.w # <<>>, !.und = @ \/ s.depth = 1])
  ELSE IF c = LBR THEN
       LET s1 == IF s.depth = 1 THEN Flag(s, "bracket")                                \* [ inside a key
                 ELSE IF s.w # <<>> THEN (IF s.sep THEN Und(s) ELSE Flag(s, "bracket"))  \* a [1]: two operands / a[1]: glued
                 ELSE s
       IN LScan(T, i + 1, [s1 EXCEPT !.w = Append(@, c), !.depth = 1, !.sep = FALSE, !.aft = FALSE])
  ELSE IF c = RBR THEN
       LET s1 == IF s.depth = 0 THEN Flag(s, "bracket") ELSE s IN                       \* ] without [
       LScan(T, i + 1, [s1 EXCEPT !.w = Append(@, c), !.depth = 0, !.sep = FALSE, !.aft = (s.depth = 1)])
  ELSE IF c \in OpBytes \/ c = LPB \/ c = RPB \/ (c = BANG /\ s.depth = 0) THEN
       LET s1 == Flush(IF s.depth = 1 THEN Flag(s, "bracket") ELSE s)                   \* a key cut by an operator
           two == IF c \in OpBytes /\ i < Len(T) /\ T[i + 1] \in OpBytes THEN PairOp(OpStr(c), OpStr(T[i + 1])) ELSE ""
       IN IF two # "" THEN LScan(T, i + 2, [s1 EXCEPT !.toks = Append(@, two)])
          ELSE LScan(T, i + 1, [s1 EXCEPT !.toks = Append(@, OpStr(c))])
  ELSE LET s1 ==
         IF s.depth = 1 THEN (IF IsKeyB(c) THEN s ELSE Und(s))                          \* . ! $ ... inside a key
         ELSE LET a == IF s.aft THEN (IF s.sep THEN Und(s) ELSE Flag(s, "bracket"))     \* [x] y / [x]y
                       ELSE IF s.w # <<>> /\ s.sep THEN Und(s) ELSE s                   \* two operands in a row
              IN IF c \in RoleLess THEN
                      \* the digit separator of the host language (1_0) is merely undocumented
                      (IF c = USC /\ a.w # <<>> /\ (IsDigitB(a.w[1]) \/ a.w[1] = DOT) THEN Und(a) ELSE Flag(a, "operand"))
                 ELSE IF IsAlnumB(c) \/ c = DOT THEN a
                 ELSE Und(a)                                                            \* not printable ASCII: outside the domain
       IN LScan(T, i + 1, [s1 EXCEPT !.w = Append(@, c), !.sep = FALSE, !.aft = FALSE])
LexScan(T) == LScan(T, 1, LInit)

RECURSIVE Relabel(_, _)
Relabel(t, lv) ==
  CASE t.k \in {"num", "var"} -> [t |-> Head(lv), rest |-> Tail(lv)]
    [] t.k = "un" -> LET a == Relabel(t.a, lv) IN [t |-> Un(t.op, a.t), rest |-> a.rest]
    [] t.k = "bin" -> LET l == Relabel(t.l, lv)
                          r == Relabel(t.r, l.rest) IN [t |-> Bin(t.op, l.t, r.t), rest |-> r.rest]

(* cls: "mal" (why = bracket | operand | structure | blank-in-group), "undoc",  *)
(* "wf" (then t = the tree).  "blank-in-group": malformed, but only by two      *)
(* operator characters that a blank separates inside parentheses - the known    *)
(* leniency of the code (known.d/c19.json), told apart from everything else.    *)
LexResult(cls, why, t) == [cls |-> cls, why |-> why, t |-> t]
LexClass(T) ==
  LET r == LexScan(T) IN
  IF r.mal # "" THEN LexResult("mal", r.mal, <<>>)
  ELSE LET c == Class(r.toks) IN
       IF c = "mal" THEN LexResult("mal", IF Class(GroupMerge(r.toks)) # "mal" THEN "blank-in-group" ELSE "structure", <<>>)
       ELSE IF r.und \/ c = "undoc" THEN LexResult("undoc", "", <<>>)
       ELSE LexResult("wf", "", Relabel(ParseRef(r.toks).t, r.lv).t)

\* ===================================================================== Part D
NamePolicies == {"regex", "A..z", "ident", "nonnumeric"}
BoxPolicies == {"pair", "ends", "open"}
Real == [name |-> "regex", box |-> "pair"]          \* the code as it is
(* validVariableName: "regex" = (?i)^[a-z][a-z0-9]*$ ; "A..z" = a byte loop with *)
(* the range 'A'..'z' (digits after the first byte); "ident" = identifiers with *)
(* underscores; "nonnumeric" = whatever is not a number is a variable           *)
NameOK(w, pol) ==
  CASE pol = "regex" -> w # <<>> /\ IsLetterB(w[1]) /\ AllB(w, IsAlnumB)
    [] pol = "A..z" -> w # <<>> /\ \A i \in 1..Len(w) : (w[i] >= 65 /\ w[i] <= 122) \/ (IsDigitB(w[i]) /\ i > 1)
    [] pol = "ident" -> w # <<>> /\ (IsLetterB(w[1]) \/ w[1] = USC) /\ AllB(w, IsKeyB)
    [] pol = "nonnumeric" -> w # <<>>
(* isBoxed + the check of fix 00f39bd: "pair" = [ ... ] with no bracket between; *)
(* "ends" = merely begins with [ and ends with ] ; "open" = merely begins with [ *)
BoxOK(w, pol) ==
  CASE pol = "pair" -> Len(w) >= 2 /\ w[1] = LBR /\ w[Len(w)] = RBR
    [] pol = "ends" -> Len(w) >= 2 /\ w[1] = LBR /\ w[Len(w)] = RBR
    [] pol = "open" -> Len(w) >= 2 /\ w[1] = LBR
BoxInnerOK(inner, pol) == pol # "pair" \/ \A i \in 1..Len(inner) : inner[i] \notin {LBR, RBR}

\* strconv.underscoreOK
RECURSIVE UOKLoop(_, _, _, _)
UOKLoop(w, i, saw, hex) ==
  IF i > Len(w) THEN saw # "_"
  ELSE IF IsDigitB(w[i]) \/ (hex /\ IsHexB(w[i])) THEN UOKLoop(w, i + 1, "0", hex)
  ELSE IF w[i] = USC THEN (IF saw # "0" THEN FALSE ELSE UOKLoop(w, i + 1, "_", hex))
  ELSE IF saw = "_" THEN FALSE
  ELSE UOKLoop(w, i + 1, "!", hex)
UnderscoreOK(w) ==
  IF Len(w) >= 2 /\ w[1] = 48 /\ LowerB(w[2]) \in {98, 111, 120} THEN UOKLoop(w, 3, "0", LowerB(w[2]) = 120)
  ELSE UOKLoop(w, 1, "^", FALSE)
HasU(w) == \E i \in 1..Len(w) : w[i] = USC
NoU(w) == SelectSeq(w, LAMBDA c : c # USC)
\* strconv.ParseInt(w, 0, 64) without a sign: [ok, known, v]   (64-bit overflow is outside the lengths explored)
GoInt(w) ==
  IF w = <<>> \/ (HasU(w) /\ ~UnderscoreOK(w)) THEN [ok |-> FALSE, known |-> FALSE, v |-> 0]
  ELSE LET pre == w[1] = 48 /\ Len(w) >= 3 /\ LowerB(w[2]) \in {98, 111, 120}
           base == IF pre THEN (CASE LowerB(w[2]) = 98 -> 2 [] LowerB(w[2]) = 111 -> 8 [] OTHER -> 16)
                   ELSE IF w[1] = 48 THEN 8 ELSE 10
           ds == NoU(IF pre THEN SubSeq(w, 3, Len(w)) ELSE IF w[1] = 48 THEN SubSeq(w, 2, Len(w)) ELSE w)
           lim == CASE base = 2 -> 30 [] base = 8 -> 10 [] base = 10 -> 9 [] OTHER -> 7
       IN IF \A i \in 1..Len(ds) : IsHexB(ds[i]) /\ HexValB(ds[i]) < base
          THEN [ok |-> TRUE, known |-> Len(ds) <= lim, v |-> IF Len(ds) <= lim THEN PosVal(ds, base) ELSE 0]
          ELSE [ok |-> FALSE, known |-> FALSE, v |-> 0]
\* strconv.ParseFloat(w, 64) without a sign: does it accept?  (range errors - 1e999 - outside the lengths explored)
RECURSIVE MantEnd(_, _, _, _, _)
MantEnd(w, i, hex, sawdot, sawdig) ==                  \* the mantissa loop of readFloat: [j, dig]
  IF i > Len(w) THEN [j |-> i, dig |-> sawdig]
  ELSE IF w[i] = USC THEN MantEnd(w, i + 1, hex, sawdot, sawdig)
  ELSE IF w[i] = DOT THEN (IF sawdot THEN [j |-> i, dig |-> sawdig] ELSE MantEnd(w, i + 1, hex, TRUE, sawdig))
  ELSE IF IsDigitB(w[i]) \/ (hex /\ IsHexB(w[i])) THEN MantEnd(w, i + 1, hex, sawdot, TRUE)
  ELSE [j |-> i, dig |-> sawdig]
RECURSIVE ExpEnd(_, _)
ExpEnd(w, i) == IF i <= Len(w) /\ (IsDigitB(w[i]) \/ w[i] = USC) THEN ExpEnd(w, i + 1) ELSE i
LowerW(w) == [i \in 1..Len(w) |-> LowerB(w[i])]
GoFloatOK(w) ==
  \/ LowerW(w) \in {<<105, 110, 102>>, <<105, 110, 102, 105, 110, 105, 116, 121>>, <<110, 97, 110>>}     \* inf infinity nan
  \/ /\ w # <<>>
     /\ LET hex == Len(w) > 2 /\ w[1] = 48 /\ LowerB(w[2]) = 120
            m == MantEnd(w, IF hex THEN 3 ELSE 1, hex, FALSE, FALSE)
            ech == IF hex THEN 112 ELSE 101
            j == IF m.j <= Len(w) /\ LowerB(w[m.j]) = ech
                 THEN (IF m.j + 1 <= Len(w) /\ IsDigitB(w[m.j + 1]) THEN ExpEnd(w, m.j + 1) ELSE 0)
                 ELSE IF hex THEN 0 ELSE m.j
        IN m.dig /\ j = Len(w) + 1 /\ (HasU(w) => UnderscoreOK(w))

\* tokenizer.go at byte level (MathExpr!ITokLoop is the same loop over token units)
JTok(val, t) == [val |-> val, t |-> t]               \* t: lit / group (val = bytes), op / mod (val = the operator's name)
UniOf(sb) == IF sb = <<MINUS>> THEN "-" ELSE IF sb = <<BANG>> THEN "!" ELSE FuncOfWord(sb)
PrefixOpB(s, i) ==
  LET two == IF i < Len(s) /\ s[i] \in OpBytes /\ s[i + 1] \in OpBytes THEN PairOp(OpStr(s[i]), OpStr(s[i + 1])) ELSE "" IN
  IF two # "" THEN two ELSE IF s[i] \in OpBytes THEN OpStr(s[i]) ELSE ""
RECURSIVE JTokLoop(_, _, _, _, _)
JTokLoop(s, i, ret, sb, parens) ==
  IF i > Len(s) THEN
       IF parens > 0 THEN [err |-> "unclosed", toks |-> <<>>]
       ELSE [err |-> "", toks |-> IF sb # <<>> THEN Append(ret, JTok(sb, "lit")) ELSE ret]
  ELSE LET r == s[i] IN
       IF r = LPB /\ parens > 0 THEN JTokLoop(s, i + 1, ret, Append(sb, r), parens + 1)
       ELSE IF r = LPB /\ sb # <<>> THEN
            JTokLoop(s, i + 1, Append(ret, IF UniOf(sb) # "" THEN JTok(UniOf(sb), "mod") ELSE JTok(sb, "lit")), <<>>, parens + 1)
       ELSE IF r = LPB THEN JTokLoop(s, i + 1, ret, sb, parens + 1)
       ELSE IF r = RPB THEN
            IF parens - 1 = 0 THEN JTokLoop(s, i + 1, Append(ret, JTok(sb, "group")), <<>>, 0)
            ELSE IF parens - 1 < 0 THEN [err |-> "overclosed", toks |-> <<>>]
            ELSE JTokLoop(s, i + 1, ret, Append(sb, r), parens - 1)
       ELSE IF r = SP THEN JTokLoop(s, i + 1, ret, sb, parens)
       ELSE IF parens = 0 /\ sb = <<>> /\ (ret = <<>> \/ ret[Len(ret)].t = "op") /\ r \in {MINUS, BANG} THEN
            JTokLoop(s, i + 1, Append(ret, JTok(OpStr(r), "mod")), sb, parens)
       ELSE IF parens = 0 /\ PrefixOpB(s, i) # "" THEN
            LET op == PrefixOpB(s, i)
                ret1 == IF sb # <<>> THEN Append(ret, JTok(sb, "lit")) ELSE ret
            IN JTokLoop(s, i + Len(OpUnits(op)), Append(ret1, JTok(op, "op")), <<>>, parens)
       ELSE JTokLoop(s, i + 1, ret, Append(sb, r), parens)
JTokenize(s) == JTokLoop(s, 1, <<>>, <<>>, 0)

\* parser.go at byte level; leaves as the reference names them, NoVar where the model has no value
RECURSIVE JCompile(_, _), JCompileTokens(_, _, _), JLoop(_, _, _, _), JGetNextExpr(_, _)
JCompileLit(w, pol) ==
  IF BoxOK(w, pol.box) THEN
       LET inner == SubSeq(w, 2, Len(w) - 1) IN
       IF ~BoxInnerOK(inner, pol.box) THEN IErr("expected numeric")
       ELSE IF inner # <<>> /\ AllB(inner, IsDigitB) THEN                               \* strconv.Atoi
            IOK(IF Len(inner) <= 9 /\ PosVal(inner, 10) < NVars THEN Var(PosVal(inner, 10) + 1) ELSE NoVar, <<>>)
       ELSE IOK(NamedLeaf(inner), <<>>)
  ELSE LET n == GoInt(w) IN
       IF n.ok THEN IOK(IF n.known THEN Num(<<n.v, 1>>) ELSE NoVar, <<>>)
       ELSE IF GoFloatOK(w) THEN
            LET d == DocNum(w) IN IOK(IF d.ok /\ d.known THEN Num(d.q) ELSE NoVar, <<>>)   \* (the value of 12.5 is the documented one)
       ELSE IF NameOK(w, pol.name) THEN IOK(NamedLeaf(w), <<>>)
       ELSE IErr("expected numeric")
JCompileToken(t, pol) ==
  IF t.t = "lit" THEN JCompileLit(t.val, pol)
  ELSE IF t.t = "group" THEN JCompile(t.val, pol)
  ELSE IErr("expected expression")
JGetNextExpr(toks, pol) ==
  IF toks = <<>> THEN IErr("unexpected end")
  ELSE LET tk == toks[1] IN
       IF tk.t \in {"lit", "group"} THEN
            LET r == JCompileToken(tk, pol) IN IF r.err # "" THEN r ELSE IOK(r.e, Tail(toks))
       ELSE IF tk.t = "mod" THEN
            LET r == JGetNextExpr(Tail(toks), pol) IN IF r.err # "" THEN r ELSE IOK(Un(tk.val, r.e), r.rest)
       ELSE IErr("expected expression")
JCompileTokens(toks, lastOp, pol) ==
  IF toks = <<>> THEN IErr("unexpected end")
  ELSE LET r == JGetNextExpr(toks, pol) IN IF r.err # "" THEN r ELSE JLoop(r.e, r.rest, lastOp, pol)
JLoop(ret, toks, lastOp, pol) ==
  IF toks = <<>> THEN IOK(ret, <<>>)
  ELSE LET pk == toks[1] IN
       IF ~(pk.t \in {"op", "group"}) THEN IErr("expected op")
       ELSE LET peekOp == IF pk.t = "op" THEN pk.val ELSE "*"
                ord == OpCodeOrder(lastOp, peekOp)
            IN IF ord = 2 THEN IErr("panic")
               ELSE IF ord <= 0 THEN IOK(ret, toks)
               ELSE LET r == JCompileTokens(IF pk.t = "op" THEN Tail(toks) ELSE toks, peekOp, pol) IN
                    IF r.err # "" THEN r ELSE JLoop(Bin(peekOp, ret, r.e), r.rest, lastOp, pol)
JCompile(s, pol) ==
  LET tk == JTokenize(s) IN
  IF tk.err # "" THEN IErr(tk.err) ELSE JCompileTokens(tk.toks, "", pol)
JParse(T, pol) == LET r == JCompile(T, pol) IN
                  IF r.err # "" THEN [ok |-> FALSE, t |-> <<>>, err |-> r.err]
                  ELSE [ok |-> TRUE, t |-> r.e, err |-> ""]

(* The law that ties the two layers together, for one text:                     *)
(*   the transcription never panics; it rejects what the lexical grammar calls  *)
(*   malformed (the known blank-in-group leniency apart); it accepts what the   *)
(*   grammar calls well-formed and builds the grammar's tree.                   *)
LexLawFor(T, pol) ==
  LET o == LexClass(T)
      j == JParse(T, pol) IN
  /\ j.err # "panic"
  /\ (o.cls = "mal" /\ o.why # "blank-in-group") => ~j.ok
  /\ o.cls = "wf" => j.ok /\ j.t = o.t
=============================================================================

--------------------------- MODULE ExprArrayWidth ---------------------------
(* C17 - the loops of @range and @slice on a machine whose integers have `Bits`   *)
(* bits (two's complement, silent wrap-around - Go's int).  ExprArray.tla says    *)
(* WHICH list the helpers denote, on mathematical integers; this module asks      *)
(* whether a loop written with machine integers produces that list for EVERY      *)
(* value of the type, in particular where a difference, a sum or the running      *)
(* value itself leaves the type.  Small widths (3..6 bits) make that exhaustive:  *)
(* every start / stop / increment, every list length / position / length.         *)
(*                                                                                *)
(* The loops are written like funcsRange.go, one iteration per step, with the     *)
(* designs that were or could be in the code as a parameter:                      *)
(*   RangeDesign  "guard"   for i := start; before(i, stop); { emit i;            *)
(*                           next := i + incr; if next wrapped { break }; i = next }*)
(*                "noguard" for i := start; before(i, stop); i += incr { emit i } *)
(*                          (the code before fix 273715b: never returns when      *)
(*                           start + k*incr wraps before reaching stop)           *)
(*                "count"   count := ceil((stop - start) / incr) computed first   *)
(*                          with machine arithmetic, then `count` elements        *)
(*                          (tidy, and wrong as soon as stop - start wraps)        *)
(*   SliceDesign  "diff"    for i := 0; (len < 0 || i-realStart < len) && more    *)
(*                "sum"     for i := 0; (len < 0 || i < realStart+len) && more    *)
(*                          (the code before fix 91f58fd: realStart + len wraps)  *)
(* Invariants: what has been emitted is always a prefix of the specified list     *)
(* (RangePrefix / SlicePrefix), a finished loop has emitted exactly the specified *)
(* list (RangeFinal / SliceFinal), and the loop takes no more iterations than the *)
(* list has elements plus one (Steps) - so it terminates.  TLC checks them for    *)
(* the designs of the code and REFUTES them for the other designs.                *)
(* The 64-bit behaviour follows by embedding: multiplying every value of the      *)
(* Bits-bit machine by 2^(64-Bits) commutes with + - < and wrap-around, so the    *)
(* 64-bit loop on scaled arguments emits the scaled elements (ExprArray_MC, law   *)
(* "embed", states the same of the specification; B1 replays every scaled         *)
(* argument triple on the real code).                                             *)
EXTENDS ExprArray

CONSTANTS Bits,          \* width of the machine integer
          RangeDesign,   \* "guard" | "noguard" | "count"
          SliceDesign,   \* "diff" | "sum"
          MaxN           \* lists of 1..MaxN elements for @slice

VARIABLES op,    \* "range" | "slice"
          a,     \* the arguments
          r,     \* the registers of the loop
          out,   \* what has been emitted (range: values; slice: 0-based positions of the list)
          pc,    \* "loop" | "done"
          steps  \* iterations taken
vars == <<op, a, r, out, pc, steps>>

RECURSIVE Pow2(_)
Pow2(k) == IF k <= 0 THEN 1 ELSE 2 * Pow2(k - 1)
Half == Pow2(Bits - 1)
MinI == 0 - Half
MaxI == Half - 1
MInts == MinI..MaxI
\* what the register holds after an exact result x
Wrap(x) == ((x + Half) % (2 * Half)) - Half
\* Go's / and % (the quotient MinI / -1 wraps like every other result)
GoDiv(x, y) == Wrap(TDiv(x, y))
GoMod(x, y) == TMod(x, y)

\* ---------------------------------------------------------------- @range
RangeArgsOK(start, stop, incr) ==          \* what kfArrayRange lets through its validation
  incr # 0 /\ ~(incr > 0 /\ start > stop) /\ ~(incr < 0 /\ start < stop)
Before(i, stop, incr) == (incr > 0 /\ i < stop) \/ (incr < 0 /\ i > stop)
RangeSpec == RangeInts(a.start, a.stop, a.incr)            \* ExprArray: the documented sequence

RangeInit ==
  \E start \in MInts, stop \in MInts, incr \in MInts :
    /\ RangeArgsOK(start, stop, incr)
    /\ op = "range" /\ a = [start |-> start, stop |-> stop, incr |-> incr]
    /\ LET d == Wrap(stop - start)
           q == GoDiv(d, incr)
       IN r = [i |-> start, n |-> 0, count |-> IF GoMod(d, incr) # 0 THEN Wrap(q + 1) ELSE q]
    /\ out = <<>> /\ pc = "loop" /\ steps = 0

RangeStep ==
  /\ op = "range" /\ pc = "loop" /\ steps' = steps + 1 /\ UNCHANGED <<op, a>>
  /\ IF RangeDesign = "count" THEN
       IF r.n < r.count
       THEN out' = Append(out, r.i) /\ r' = [r EXCEPT !.n = Wrap(r.n + 1), !.i = Wrap(r.i + a.incr)] /\ pc' = pc
       ELSE pc' = "done" /\ UNCHANGED <<out, r>>
     ELSE
       IF Before(r.i, a.stop, a.incr)
       THEN LET next == Wrap(r.i + a.incr)
                wrapped == (a.incr > 0 /\ next < r.i) \/ (a.incr < 0 /\ next > r.i)
            IN /\ out' = Append(out, r.i)
               /\ IF RangeDesign = "guard" /\ wrapped
                  THEN pc' = "done" /\ r' = r         \* overflow: the next element is past stop
                  ELSE pc' = pc /\ r' = [r EXCEPT !.i = next]
       ELSE pc' = "done" /\ UNCHANGED <<out, r>>

\* ---------------------------------------------------------------- @slice
\* the list has a.n >= 1 elements, element k is its 0-based position; a.len = -1: no length given
SliceSpecAlts ==
  LET l == [k \in 1..a.n |-> k - 1] IN SliceAlts(l, a.start, a.len >= 0, a.len)

SliceInit ==
  \E n \in 1..MaxN, start \in MInts, len \in (0 - 1)..MaxI :
    /\ op = "slice" /\ a = [n |-> n, start |-> start, len |-> len]
    /\ LET rs0 == IF start < 0 THEN Wrap(start + n) ELSE start
       IN r = [i |-> 0, rs |-> IF rs0 < 0 THEN 0 ELSE rs0]
    /\ out = <<>> /\ pc = "loop" /\ steps = 0

SliceStep ==
  /\ op = "slice" /\ pc = "loop" /\ steps' = steps + 1 /\ UNCHANGED <<op, a>>
  /\ LET within == \/ a.len < 0
                   \/ SliceDesign = "diff" /\ Wrap(r.i - r.rs) < a.len
                   \/ SliceDesign = "sum" /\ r.i < Wrap(r.rs + a.len)
     IN IF within /\ r.i < a.n          \* r.i < a.n: the splitter still has an element
        THEN /\ out' = IF r.i >= r.rs THEN Append(out, r.i) ELSE out
             /\ r' = [r EXCEPT !.i = Wrap(r.i + 1)] /\ pc' = pc
        ELSE pc' = "done" /\ UNCHANGED <<out, r>>

\* ---------------------------------------------------------------- the machine
Init == RangeInit \/ SliceInit
Done == pc = "done" /\ UNCHANGED vars
Next == RangeStep \/ SliceStep \/ Done
Spec == Init /\ [][Next]_vars /\ WF_vars(RangeStep \/ SliceStep)

IsPrefix0(p, s) == Len(p) <= Len(s) /\ \A k \in 1..Len(p) : p[k] = s[k]

TypeOK == /\ op \in {"range", "slice"} /\ pc \in {"loop", "done"}
          /\ \A k \in 1..Len(out) : out[k] \in MInts
          /\ r.i \in MInts
RangePrefix == op = "range" => IsPrefix0(out, RangeSpec)
RangeFinal  == op = "range" /\ pc = "done" => out = RangeSpec
SlicePrefix == op = "slice" => \E k \in 1..Len(SliceSpecAlts) : IsPrefix0(out, SliceSpecAlts[k])
SliceFinal  == op = "slice" /\ pc = "done" => \E k \in 1..Len(SliceSpecAlts) : out = SliceSpecAlts[k]
Steps == steps <= (IF op = "range" THEN Len(RangeSpec) ELSE a.n) + 1
Terminates == <>(pc = "done")
\* the closed form of ExprArray and the element-by-element reading of the documentation agree
RECURSIVE Iter(_, _, _)
Iter(cur, stop, incr) == IF Before(cur, stop, incr) THEN <<cur>> \o Iter(cur + incr, stop, incr) ELSE <<>>
ClosedForm == op = "range" /\ steps = 0 => RangeSpec = Iter(a.start, a.stop, a.incr)
=============================================================================

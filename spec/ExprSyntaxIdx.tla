--------------------------- MODULE ExprSyntaxIdx ---------------------------
(* C09 - "a lone word or integer is a key/group lookup": the decision between    *)
(* the two, for digit strings of ANY length.                                     *)
(*                                                                               *)
(* A lone integer N denotes match group N.  An implementation hands the index to *)
(* the context as a machine integer of some WIDTH W (Go: int, W = 64 on the      *)
(* platforms rare is built for), so only -2^(W-1) .. 2^(W-1)-1 can be group      *)
(* references; an integer outside that range cannot name a group and is a word   *)
(* like any other: a key lookup by its text.  What must never happen is that the *)
(* written integer N turns into a reference to a DIFFERENT group (IdxFaithful).  *)
(*                                                                               *)
(* TLC integers have 32 bits, so everything here is arithmetic on decimal digit  *)
(* strings (sequences of the code points 48..57, most significant first):        *)
(*   abstract layer   IxFits / IxDenote: compare the canonical magnitude with     *)
(*                    2^(W-1) (computed by repeated doubling)                    *)
(*   implementation   IxAtoi: strconv.Atoi as written - sign, then an            *)
(*                    accumulator n = n*10 + d with a range check at EVERY step, *)
(*                    then the signed cut-off                                    *)
(*   refuted designs  "wrap": the accumulator without any range check, i.e.      *)
(*                    arithmetic modulo 2^W (two's complement);  "sat": the      *)
(*                    range error ignored, Atoi's saturated value used           *)
(* ExprSyntaxIdx_MC checks the digit arithmetic against TLC's own integers, the  *)
(* agreement of the layers for EVERY digit string of small widths, the boundary  *)
(* families 2^(W-1) +- k, 2^W +- k, m * 2^W + k for W = 32 and 64, and that the  *)
(* refuted designs violate IdxFaithful.                                          *)
EXTENDS Bytes

\* ------------------------------------------------------------------ naturals as decimal digit strings
RECURSIVE IxStrip(_)
IxStrip(d) == IF Len(d) > 1 /\ d[1] = 48 THEN IxStrip(Tail(d)) ELSE d       \* canonical: no leading zeros, "0" stays
\* -1 / 0 / 1 for canonical a < b / a = b / a > b
IxCmp(a, b) ==
  IF Len(a) # Len(b) THEN (IF Len(a) < Len(b) THEN -1 ELSE 1)
  ELSE LET D == {i \in 1..Len(a) : a[i] # b[i]} IN
       IF D = {} THEN 0 ELSE IF a[MinOf(D)] < b[MinOf(D)] THEN -1 ELSE 1
IxDig(a, i) == IF i < Len(a) THEN a[Len(a) - i] - 48 ELSE 0                  \* digit i from the right (0-based)
RECURSIVE IxAddR(_, _, _, _, _)
IxAddR(a, b, i, c, acc) ==
  IF i >= Len(a) /\ i >= Len(b) THEN (IF c = 0 THEN acc ELSE <<48 + c>> \o acc)
  ELSE LET t == IxDig(a, i) + IxDig(b, i) + c IN IxAddR(a, b, i + 1, t \div 10, <<48 + (t % 10)>> \o acc)
IxAdd(a, b) == IxStrip(IxAddR(a, b, 0, 0, <<>>))
RECURSIVE IxSubR(_, _, _, _, _)
IxSubR(a, b, i, br, acc) ==
  IF i >= Len(a) THEN acc
  ELSE LET t == IxDig(a, i) - IxDig(b, i) - br IN
       IxSubR(a, b, i + 1, IF t < 0 THEN 1 ELSE 0, <<48 + (IF t < 0 THEN t + 10 ELSE t)>> \o acc)
IxSub(a, b) == IxStrip(IxSubR(a, b, 0, 0, <<>>))                              \* a - b for a >= b
RECURSIVE IxPow2It(_, _)
\* (the test on acc makes TLC evaluate it before it descends: no chain of suspended additions)
IxPow2It(k, acc) == IF k = 0 \/ Len(acc) = 0 THEN acc ELSE IxPow2It(k - 1, IxAdd(acc, acc))
IxPow2(k) == IxPow2It(k, <<49>>)
RECURSIVE IxMul(_, _)
IxMul(a, m) == IF m = 0 THEN <<48>> ELSE IxAdd(a, IxMul(a, m - 1))            \* a * m for a small natural m
\* the powers the checks use, written out (TLC would recompute a definition at every use); ExprSyntaxIdx_MC checks
\* each of them against IxPow2, i.e. against repeated doubling
IxP31 == <<50, 49, 52, 55, 52, 56, 51, 54, 52, 56>>                                              \* 2147483648
IxP32 == <<52, 50, 57, 52, 57, 54, 55, 50, 57, 54>>                                              \* 4294967296
IxP63 == <<57, 50, 50, 51, 51, 55, 50, 48, 51, 54, 56, 53, 52, 55, 55, 53, 56, 48, 56>>     \* 9223372036854775808
IxP64 == <<49, 56, 52, 52, 54, 55, 52, 52, 48, 55, 51, 55, 48, 57, 53, 53, 49, 54, 49, 54>> \* 18446744073709551616
IxHalf(W) == IF W = 64 THEN IxP63 ELSE IF W = 32 THEN IxP31 ELSE IxPow2(W - 1)
IxFull(W) == IF W = 64 THEN IxP64 ELSE IF W = 32 THEN IxP32 ELSE IxPow2(W)

\* ------------------------------------------------------------------ written integers
\* the documented integers: digits with an optional minus (a plus sign is strconv's, not the documentation's)
IxIntWord(s) == AllDigits(s) \/ (Len(s) >= 2 /\ s[1] = 45 /\ AllDigits(Tail(s)))
IxNeg(s) == s[1] = 45
IxMag(s) == IxStrip(IF s[1] \in {43, 45} THEN Tail(s) ELSE s)
IxSigned(neg, m) == IF neg /\ m # <<48>> THEN <<45>> \o m ELSE m             \* what strconv.Itoa prints
IxCanon(s) == IxSigned(IxNeg(s), IxMag(s))

\* a decision: the statement is a group reference with the index idx (canonical signed decimal) or a key lookup
IxGrp(idx) == [grp |-> TRUE, s |-> idx]
IxKey(s)   == [grp |-> FALSE, s |-> s]

\* ------------------------------------------------------------------ abstract layer
\* the index range of width W: -2^(W-1) .. 2^(W-1) - 1
IxFits(s, W) == IF IxNeg(s) THEN IxCmp(IxMag(s), IxHalf(W)) <= 0 ELSE IxCmp(IxMag(s), IxHalf(W)) < 0
IxDenote(s, W) == IF ParseIntOK(s) /\ IxFits(s, W) THEN IxGrp(IxCanon(s)) ELSE IxKey(s)

\* ------------------------------------------------------------------ implementation: strconv.Atoi / ParseInt / ParseUint
RECURSIVE IxAccum(_, _, _, _)
\* n = n*10 + d (in decimal: append the digit), out of range as soon as n reaches 2^W
IxAccum(d, i, n, full) ==
  IF i > Len(d) THEN [ok |-> TRUE, n |-> n]
  ELSE LET n1 == IxStrip(Append(n, d[i])) IN
       IF IxCmp(n1, full) >= 0 THEN [ok |-> FALSE, n |-> n1] ELSE IxAccum(d, i + 1, n1, full)
IxAtoi(s, W) ==
  IF ~ParseIntOK(s) THEN IxKey(s)                                             \* syntax error
  ELSE LET neg == s[1] = 45
           d   == IF s[1] \in {43, 45} THEN Tail(s) ELSE s
           u   == IxAccum(d, 1, <<48>>, IxFull(W)) IN
       IF ~u.ok THEN IxKey(s)                                                  \* range error of ParseUint
       ELSE IF ~neg /\ IxCmp(u.n, IxHalf(W)) >= 0 THEN IxKey(s)               \* range error: above the signed cut-off
       ELSE IF neg /\ IxCmp(u.n, IxHalf(W)) > 0 THEN IxKey(s)
       ELSE IxGrp(IxSigned(neg, u.n))

\* ------------------------------------------------------------------ refuted designs
RECURSIVE IxMod(_, _)
IxMod(x, full) == IF IxCmp(x, full) >= 0 THEN IxMod(IxSub(x, full), full) ELSE x
RECURSIVE IxWrapAccum(_, _, _, _)
IxWrapAccum(d, i, n, full) ==
  IF i > Len(d) THEN n ELSE IxWrapAccum(d, i + 1, IxMod(IxStrip(Append(n, d[i])), full), full)
\* a W-bit pattern u (0 .. 2^W - 1) read as a two's complement number, then negated if the text had a minus sign
IxTwos(u, neg, W) ==
  LET isneg == IxCmp(u, IxHalf(W)) >= 0
      mag   == IF isneg THEN IxSub(IxFull(W), u) ELSE u IN
  IF mag = IxHalf(W) THEN <<45>> \o mag                                        \* -2^(W-1) is its own negation
  ELSE IxSigned(isneg # neg, mag)
\* "wrap": a hand-written digit loop, index = index*10 + digit, no range check (machine arithmetic modulo 2^W)
IxWrap(s, W) ==
  IF ~ParseIntOK(s) THEN IxKey(s)
  ELSE LET d == IF s[1] \in {43, 45} THEN Tail(s) ELSE s IN
       IxGrp(IxTwos(IxWrapAccum(d, 1, <<48>>, IxFull(W)), s[1] = 45, W))
\* "sat": Atoi's range error ignored - its saturated value is used as the index
IxSat(s, W) ==
  IF ~ParseIntOK(s) THEN IxKey(s)
  ELSE IF IxFits(s, W) THEN IxGrp(IxCanon(s))
  ELSE IF IxNeg(s) THEN IxGrp(<<45>> \o IxHalf(W)) ELSE IxGrp(IxSub(IxHalf(W), <<49>>))

IxDecide(s, W, mode) ==
  CASE mode = "atoi" -> IxAtoi(s, W)
    [] mode = "wrap" -> IxWrap(s, W)
    [] mode = "sat"  -> IxSat(s, W)
    [] OTHER         -> IxDenote(s, W)

\* ------------------------------------------------------------------ the law of the property
(* Whatever the width: the statement {s} is either the key lookup of exactly the *)
(* text s, or the group lookup of exactly the number s spells - never of another *)
(* number; and an integer that fits the index range is a group lookup.           *)
IdxFaithful(s, r) == IF r.grp THEN ParseIntOK(s) /\ r.s = IxCanon(s) ELSE r.s = s
IdxComplete(s, W, r) == (ParseIntOK(s) /\ IxFits(s, W)) => r.grp
=============================================================================

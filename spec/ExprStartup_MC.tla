--------------------------- MODULE ExprStartup_MC ---------------------------
(* Scenarios for ExprStartup (what a .cfg file cannot spell): funcs files whose   *)
(* bodies hold constant parts that depend on a global switch, dynamic parts, a    *)
(* later definition calling an earlier one; re-definitions of a helper inside one *)
(* file and across two files with identically spelt bodies / arguments before and *)
(* after; a failing re-definition; one call site for many evaluators.             *)
EXTENDS ExprStartup

B(n, b) == [name |-> n, body |-> b]
X == Lit(<<120>>)
N1 == <<49, 50, 51, 52, 53, 54, 55>>
N2 == <<55, 54, 53, 52, 51, 50, 49>>
Red == <<114, 101, 100>>
Blue == <<98, 108, 117, 101>>
Const == <<99, 111, 110, 115, 116>>
Br(o, t, c) == Cat(<<Lit(<<o>>), t, Lit(<<c>>)>>)
TagSq == B("tag", Br(91, Arg(0), 93))
TagAn == B("tag", Br(60, Arg(0), 62))
CallTag == Call("tag", <<Arg(0)>>)

FEnv == << <<
  B("big", Cat(<<Call("hi", <<Lit(N1)>>), Lit(<<58>>), Arg(0)>>)),
  B("paint", Cat(<<Call("color", <<Lit(Red), Lit(Const)>>), Arg(0)>>)),
  B("file", Cat(<<Lit(<<91>>), Call("load", <<Lit(SecretName)>>), Lit(<<93>>), Arg(0)>>)),
  B("dyn", Call("hi", <<Arg(0)>>)),
  B("both", Cat(<<Call("color", <<Lit(Blue), Call("hi", <<Lit(N2)>>)>>), Lit(<<45>>), Call("hi", <<Arg(0)>>)>>)),
  B("wbig", Call("big", <<Call("hi", <<Lit(N2)>>)>>)),
  B("pdyn", Call("color", <<Lit(Red), Arg(0)>>)),
  B("meter", Cat(<<Call("bar", <<Lit(N1), Lit(N1), Lit(<<52>>)>>), Arg(0)>>)),
  B("mdyn", Call("bar", <<Arg(0), Lit(N1), Lit(<<51>>)>>)) >> >>
FTwo == << <<TagSq, B("a", CallTag)>>,
           <<TagAn, B("b", CallTag), B("c", Call("color", <<Lit(Red), CallTag>>))>> >>
FOne == << <<TagSq, B("a", CallTag), B("e0", Call("a", <<Arg(0)>>)), TagAn, B("b", CallTag),
             B("d", Cat(<<Call("a", <<Arg(0)>>), Lit(<<43>>), Call("b", <<Arg(0)>>)>>)),
             B("a", Br(40, CallTag, 41)), B("e", Call("a", <<Arg(0)>>))>> >>
FBad == << <<TagSq, B("tag", Call("nosuch", <<Arg(0)>>)), B("b", CallTag)>>,
           <<B("q", Call("hi", <<Call("b", <<Lit(N1)>>)>>)), B("tag", Arg(0)), B("q2", Call("hi", <<Call("tag", <<Lit(N1)>>)>>))>> >>
FSite == << <<B("wrap", Cat(<<Lit(<<60>>), Arg(0), Lit(<<124>>), Arg(1), Lit(<<124>>), Arg(0), Lit(<<62>>)>>)),
              B("twice", Cat(<<Call("wrap", <<Arg(0), Arg(1)>>), Call("hi", <<Arg(0)>>), Call("wrap", <<Arg(1), Arg(0)>>)>>))>> >>

NamesOf(files) == {Flatten(files)[i].name : i \in 1..Len(Flatten(files))}
SetToSeqS(S) == SetToSeq(S)
ExprsOf(files) ==
  UNION {{Call(n, <<X>>), Call(n, <<Arg(0)>>), Call(n, <<Lit(<<>>)>>)} : n \in NamesOf(files)}
  \cup {Cat(<<Call("a", <<Arg(0)>>), Lit(<<32>>), Call("b", <<Arg(0)>>), Lit(<<32>>), CallTag>>) : z \in {1} \cap (IF "a" \in NamesOf(files) /\ "b" \in NamesOf(files) THEN {1} ELSE {})}
  \cup {Call("nosuch", <<X>>)}
FlagSets == {<<>>, <<"noformat">>, <<"color">>, <<"nocolor">>, <<"noload">>, <<"color", "noformat">>, <<"nounicode">>}
FewFlags == {<<>>, <<"color">>}
Scn(files, flagsets) == {[flags |-> fl, files |-> files, expr |-> ex, m |-> <<N1>>, opt |-> o] : fl \in flagsets, ex \in ExprsOf(files), o \in BOOLEAN}
SiteLines == {<<NatDigits(7 * k + 1), NatDigits(1000 * k + 5)>> : k \in 0..15}
SiteExpr == Call("twice", <<Arg(0), Arg(1)>>)
SiteScn == {[flags |-> <<>>, files |-> FSite, expr |-> SiteExpr, m |-> l, opt |-> o] : l \in SiteLines, o \in BOOLEAN}
MCScenarios == Scn(FEnv, FlagSets) \cup Scn(FTwo, FewFlags) \cup Scn(FOne, FewFlags) \cup Scn(FBad, FewFlags) \cup SiteScn
\* ---- generated histories of definitions: every sequence of <= n definitions from a pool that holds two spellings of the helper,
\* identically spelt callers, a wrapped re-definition of a caller, a caller of the caller, a flag-dependent constant and a failing
\* re-definition - as one file and split into two files after every position
Pool == <<TagSq, TagAn, B("a", CallTag), B("b", CallTag), B("a", Br(40, CallTag, 41)), B("c", Call("a", <<Arg(0)>>)),
          B("tag", Cat(<<Call("hi", <<Lit(N2)>>), Arg(0)>>)), B("tag", Call("nosuch", <<Arg(0)>>))>>
RECURSIVE SeqsUpTo(_, _)
SeqsUpTo(n, np) == IF n = 0 THEN {<<>>} ELSE LET S == SeqsUpTo(n - 1, np) IN S \cup {Append(q, Pool[i]) : q \in {x \in S : Len(x) = n - 1}, i \in 1..np}
Splits(q) == {<<q>>} \cup {<<SubSeq(q, 1, k), SubSeq(q, k + 1, Len(q))>> : k \in 1..(Len(q) - 1)}
Useful(q) == Len(q) >= 2 /\ \E i, j \in 1..Len(q) : i < j /\ q[i].name = "tag" /\ q[j].name # "tag"
GenFiles(n, np) == UNION {Splits(q) : q \in {x \in SeqsUpTo(n, np) : Useful(x)}}
GenExprs(files) == UNION {{Call(nm, <<Arg(0)>>)} : nm \in NamesOf(files)}
GenScn(n, np, flagsets) == UNION {{[flags |-> fl, files |-> f, expr |-> ex, m |-> <<N1>>, opt |-> o] : fl \in flagsets, ex \in GenExprs(f), o \in BOOLEAN} : f \in GenFiles(n, np)}
MCScenariosQ == MCScenarios \cup GenScn(2, 8, {<<>>})
MCScenariosT == MCScenarios \cup GenScn(3, 8, {<<>>, <<"noformat">>}) \cup GenScn(4, 5, {<<>>})
\* the scenarios on which each refuted design must fail
NegEnv == Scn(FEnv, {<<"noformat">>})
NegEnvUni == Scn(FEnv, {<<"nounicode">>})
NegCache == Scn(FTwo, {<<>>})
NegCacheGen == GenScn(4, 4, {<<>>})
=============================================================================

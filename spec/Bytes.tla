------------------------------- MODULE Bytes -------------------------------
(* Shared definitions: strings cross the Go <-> TLA+ boundary as sequences of    *)
(* integers (bytes 0..255, or code points for templates).                         *)
EXTENDS Integers, Sequences, SequencesExt, FiniteSets, FiniteSetsExt

NUL == 0
LF  == 10
CR  == 13
SP  == 32
TAB == 9

MinOf(S) == CHOOSE x \in S : \A y \in S : x <= y
MaxOf(S) == CHOOSE x \in S : \A y \in S : x >= y

\* first index i >= from with s[i] = b, or 0
IndexByteFrom(s, b, from) ==
  LET S == {i \in from..Len(s) : s[i] = b} IN IF S = {} THEN 0 ELSE MinOf(S)
IndexByte(s, b) == IndexByteFrom(s, b, 1)

\* does sub occur in s at position i (1-based)?
OccursAt(s, sub, i) ==
  /\ i >= 1 /\ i + Len(sub) - 1 <= Len(s)
  /\ \A k \in 1..Len(sub) : s[i + k - 1] = sub[k]

\* first index i >= from where sub occurs in s, or 0 (sub = <<>> occurs at from if from <= Len(s)+1)
IndexFrom(s, sub, from) ==
  LET S == {i \in from..(Len(s) - Len(sub) + 1) : OccursAt(s, sub, i)}
  IN IF S = {} THEN 0 ELSE MinOf(S)
IndexOf(s, sub) == IndexFrom(s, sub, 1)

HasPrefix(s, p) == Len(p) <= Len(s) /\ SubSeq(s, 1, Len(p)) = p
HasSuffix(s, p) == Len(p) <= Len(s) /\ SubSeq(s, Len(s) - Len(p) + 1, Len(s)) = p
ContainsSub(s, sub) == IndexOf(s, sub) # 0

DropFirst(s, n) == SubSeq(s, n + 1, Len(s))
TakeFirst(s, n) == SubSeq(s, 1, n)

RECURSIVE SplitOn(_, _)
\* segments between occurrences of the byte b; always at least one (possibly empty) segment
SplitOn(s, b) ==
  LET i == IndexByte(s, b) IN
  IF i = 0 THEN <<s>> ELSE <<SubSeq(s, 1, i - 1)>> \o SplitOn(DropFirst(s, i), b)

RECURSIVE SplitSeq(_, _)
\* segments between non-overlapping left-to-right occurrences of the non-empty delimiter d
SplitSeq(s, d) ==
  LET i == IndexOf(s, d) IN
  IF i = 0 THEN <<s>> ELSE <<SubSeq(s, 1, i - 1)>> \o SplitSeq(DropFirst(s, i + Len(d) - 1), d)

RECURSIVE JoinSeq(_, _)
JoinSeq(parts, d) ==
  IF parts = <<>> THEN <<>>
  ELSE IF Len(parts) = 1 THEN parts[1]
  ELSE parts[1] \o d \o JoinSeq(Tail(parts), d)

RECURSIVE Flatten(_)
Flatten(parts) == IF parts = <<>> THEN <<>> ELSE parts[1] \o Flatten(Tail(parts))

IsSpaceB(c) == c \in {9, 10, 11, 12, 13, 32, 133, 160}   \* unicode.IsSpace on Latin-1
IsAsciiSpace(c) == c \in {9, 10, 11, 12, 13, 32}

RECURSIVE TrimLeft(_)
TrimLeft(s) == IF s # <<>> /\ IsAsciiSpace(s[1]) THEN TrimLeft(Tail(s)) ELSE s
RECURSIVE TrimRight(_)
TrimRight(s) == IF s # <<>> /\ IsAsciiSpace(s[Len(s)]) THEN TrimRight(SubSeq(s, 1, Len(s) - 1)) ELSE s
TrimSpace(s) == TrimLeft(TrimRight(s))
Truthy(s) == TrimSpace(s) # <<>>

IsDigit(c) == c >= 48 /\ c <= 57
IsUpper(c) == c >= 65 /\ c <= 90
IsLower(c) == c >= 97 /\ c <= 122
LowerC(c) == IF IsUpper(c) THEN c + 32 ELSE c
UpperC(c) == IF IsLower(c) THEN c - 32 ELSE c
LowerASCII(s) == [i \in 1..Len(s) |-> LowerC(s[i])]
UpperASCII(s) == [i \in 1..Len(s) |-> UpperC(s[i])]

\* Go strconv.ParseInt(s, 10, 64) grammar (magnitude limits are the caller's business)
AllDigits(s) == s # <<>> /\ \A i \in 1..Len(s) : IsDigit(s[i])
ParseIntOK(s) ==
  \/ AllDigits(s)
  \/ Len(s) >= 2 /\ s[1] \in {43, 45} /\ AllDigits(Tail(s))
RECURSIVE DigitsVal(_, _)
DigitsVal(s, acc) == IF s = <<>> THEN acc ELSE DigitsVal(Tail(s), acc * 10 + (s[1] - 48))
ParseIntVal(s) ==
  IF s[1] = 45 THEN 0 - DigitsVal(Tail(s), 0)
  ELSE IF s[1] = 43 THEN DigitsVal(Tail(s), 0) ELSE DigitsVal(s, 0)

RECURSIVE NatDigits(_)
NatDigits(n) == IF n < 10 THEN <<48 + n>> ELSE NatDigits(n \div 10) \o <<48 + (n % 10)>>
Itoa(n) == IF n < 0 THEN <<45>> \o NatDigits(0 - n) ELSE NatDigits(n)
Pad2(n) == IF n < 10 THEN <<48, 48 + n>> ELSE NatDigits(n)

IsPrefixOf(p, s) == Len(p) <= Len(s) /\ \A i \in 1..Len(p) : p[i] = s[i]
=============================================================================

-------------------------- MODULE FollowBatch_Trace --------------------------
(* B2 for the end of the follow pipeline: recorded executions of the real        *)
(* batchers (TailFilesToChan, the time-flushed reader loop on a real follow      *)
(* reader, `rare filter -f`) with a consumer that HOLDS the batches it receives  *)
(* and reads them later.  Records (lines are byte sequences without the LF):     *)
(*   reset{t, sink, batch, plain}   a new trace                                   *)
(*   burst{lines}                   whole lines appended in one write (logged      *)
(*                                  before the write)                              *)
(*   remove{}                       the drained file is removed (plain follow)     *)
(*   view{lines}                    what the holder of ALL batches received so     *)
(*                                  far reads out of them NOW, in batch order       *)
(*   closed{}                       the batch channel was closed (end of stream)   *)
(* FollowBatch's StreamExact / HeldExact on the observation: every view is the     *)
(* sequence of the lines appended so far, from the first, without gap, repetition  *)
(* or exchange; a later view extends an earlier one (what was read once is read    *)
(* again: the batch kept its lines); the stream is closed only after the removal   *)
(* and then the view is complete (FinalExact).  When a partial batch surfaces is   *)
(* timing (MustFlush is demanded by the B1 replay, where the pause is controlled). *)
EXTENDS Integers, Sequences, TLC, Json

Trace == ndJsonDeserialize("trace.ndjson")

VARIABLES l, tid, bad, lines, removed, seen, closed
tvars == <<l, tid, bad, lines, removed, seen, closed>>

Ev == Trace[l]
IsEv(e) == l <= Len(Trace) /\ Ev.event = e /\ l' = l + 1

TReset  == IsEv("reset") /\ tid' = Ev.t /\ lines' = <<>> /\ removed' = FALSE /\ seen' = <<>> /\ closed' = FALSE
TBurst  == IsEv("burst") /\ ~removed /\ lines' = lines \o Ev.lines /\ UNCHANGED <<tid, removed, seen, closed>>
TRemove == IsEv("remove") /\ ~removed /\ removed' = TRUE /\ UNCHANGED <<tid, lines, seen, closed>>
TView   ==
  /\ IsEv("view")
  /\ Len(Ev.lines) <= Len(lines) /\ Ev.lines = SubSeq(lines, 1, Len(Ev.lines))     \* exactly the lines appended, in order
  /\ Len(Ev.lines) >= Len(seen)                                                      \* nothing that was delivered is gone
  /\ closed => Len(Ev.lines) = Len(lines)                                            \* the end of the stream flushed the rest
  /\ seen' = Ev.lines
  /\ UNCHANGED <<tid, lines, removed, closed>>
TClosed == IsEv("closed") /\ removed /\ closed' = TRUE /\ UNCHANGED <<tid, lines, removed, seen>>

TStep == TReset \/ TBurst \/ TRemove \/ TView \/ TClosed

RECURSIVE NextReset(_)
NextReset(i) == IF i > Len(Trace) \/ Trace[i].event = "reset" THEN i ELSE NextReset(i + 1)

Skip ==
  /\ l <= Len(Trace)
  /\ ~ENABLED TStep
  /\ bad' = Append(bad, [t |-> tid, l |-> l])
  /\ l' = NextReset(l + 1)
  /\ UNCHANGED <<tid, lines, removed, seen, closed>>

TInit == l = 1 /\ tid = 0 /\ bad = <<>> /\ lines = <<>> /\ removed = FALSE /\ seen = <<>> /\ closed = FALSE
TNext == (TStep /\ UNCHANGED bad) \/ Skip
TSpec == TInit /\ [][TNext]_tvars

Final == (l = Len(Trace) + 1) => JsonSerialize("bad.json", [bad |-> bad, consumed |-> l - 1, done |-> TRUE])
=============================================================================

----------------------------- MODULE AggLoop_Gen -----------------------------
(* C05, B1: schedules of the AggLoop model for replay on the real code.         *)
(* A history variable records the environment's and the loop's visible steps of *)
(* one behaviour (simulation mode); when main has returned the behaviour is     *)
(* printed with the model's expected final aggregate.  The driver steers the    *)
(* real code along the schedule (input release and critical-section lengths are *)
(* harness-controlled, the 100 ms ticker is waited for).                        *)
(*   rel(f)      the environment makes the next batch of file f readable        *)
(*   recv(f, i)  main received the match batch that stems from batch i of f     *)
(*   senter sexit tick renter rexit ret                                         *)
EXTENDS AggLoop, Json, TLC

\* inputs with a uniform batch size (so that the real batcher cuts the same batches)
GenA == << << <<1, 2>>, <<2, 0>>, <<0>> >>, << <<1, 1>>, <<2>> >> >>
GenB == << << <<1>>, <<2>>, <<0>> >>, << <<1>> >>, << <<2>>, <<1>> >> >>
GenC == << << <<1, 1>>, <<0, 2>>, <<1, 0>>, <<0, 0>> >> >>
GenD == << << <<1>>, <<0>> >>, << <<2>>, <<2>>, <<0>> >> >>
\* names that cannot be opened (<<>>), at least as many as reader slots, before / between / after readable files
GenM == << <<>>, <<>>, << <<1>>, <<2>> >> >>
GenN == << <<>>, << <<1, 2>>, <<2, 0>> >>, <<>>, <<>>, << <<2, 1>> >> >>
GenO == << << <<1>> >>, <<>>, <<>>, <<>> >>

VARIABLES hist, wb, rq
gvars == <<vars, hist, wb, rq>>

E(k, f, i) == [k |-> k, f |-> f, i |-> i]

GInit == Init /\ hist = <<>> /\ wb = [w \in 1..W |-> <<0, 0>>] /\ rq = <<>>

GNext ==
  /\ Running /\ Next
  /\ wb' = [w \in 1..W |-> IF wk[w].pc = "recv" /\ wk'[w].pc = "send" THEN Head(batchCh) ELSE wb[w]]
  /\ rq' = IF \E w \in 1..W : wk[w].pc = "send" /\ wk'[w].pc # "send" /\ ~panic'
             THEN Append(rq, wb[CHOOSE w \in 1..W : wk[w].pc = "send" /\ wk'[w].pc # "send"])
           ELSE IF mpc = "select" /\ mpc' = "lock" THEN Tail(rq)
           ELSE rq
  /\ hist' =
       IF rel' # rel THEN Append(hist, E("rel", CHOOSE f \in 1..NF : rel'[f] # rel[f], 0))
       ELSE IF mpc = "select" /\ mpc' = "lock" THEN Append(hist, E("recv", Head(rq)[1], Head(rq)[2]))
       ELSE IF mpc = "sample" /\ mpc' = "sampling" THEN Append(hist, E("senter", 0, 0))
       ELSE IF mpc = "sampling" /\ mpc' = "sample" THEN Append(hist, E("sexit", 0, 0))
       ELSE IF tpc = "select" /\ tpc' = "lock" THEN Append(hist, E("tick", 0, 0))
       ELSE IF tpc = "lock" /\ tpc' = "render" THEN Append(hist, E("renter", 0, 0))
       ELSE IF tpc = "render" /\ tpc' = "select" THEN Append(hist, E("rexit", 0, 0))
       ELSE IF mpc = "final" /\ mpc' = "finalR" THEN Append(hist, E("renter", 0, 0))
       ELSE IF mpc = "finalR" /\ mpc' = "retp" THEN Append(hist, E("rexit", 0, 0))
       ELSE IF mpc # "ret" /\ mpc' = "ret" THEN Append(hist, E("ret", 0, 0))
       ELSE hist

GSpec == GInit /\ [][GNext]_gvars

Dump == mpc = "ret" =>
  PrintT("VFJ " \o ToJson([files |-> Files, w |-> W, r |-> R, bcap |-> BCap, script |-> hist,
                           final |-> SetToSeq({<<k, snap[k]>> : k \in Keys}), matched |-> snapM]))
=============================================================================

---------------------------- MODULE Captures_Gen ----------------------------
(* C02 / B1 generator: one JSON vector per (line, index vector, name table,        *)
(* template, source, line number) with the value the specification gives the       *)
(* template (Captures!EvalRef - the property-level reading).  The Go driver feeds   *)
(* the vector to the REAL extractor (scripted matcher returning the index vector   *)
(* and the name table; real SliceSpaceExpressionContext and KeyBuilder) and        *)
(* compares Match.Extracted / Line / Indices / LineNumber / Source.                *)
EXTENDS Captures, TLC, Json

CONSTANTS Alphabet, MaxLen, MaxGroups
VARIABLE line
Init == line = <<>>
Next == Len(line) < MaxLen /\ \E a \in Alphabet : line' = Append(line, a)

Absent == << 0 - 1, 0 - 1 >>
Pairs(n) == {Absent} \cup {p \in (0..n) \X (0..n) : p[1] <= p[2]}
Vectors(n) == UNION {{Flatten(<<p0>> \o f) : p0 \in Pairs(n) \ {Absent}, f \in [1..k -> Pairs(n)]} : k \in 0..MaxGroups}

NA == <<97>>  NB == <<98, 50>>  NQ == <<113>>  BAR == <<124>>  COL == <<58>>
\* (name table, template): every template ends in a literal, so no key is empty
Setups == <<
  [names |-> <<>>,
   tpl |-> <<Var(0), Lit(BAR), Var(1), Lit(BAR), Var(2), Lit(BAR), Var(3), Lit(BAR), Var(0 - 1), Lit(BAR), Key(KAt), Lit(BAR)>>],
  [names |-> <<<<NA, 1>>, <<NB, 2>>>>,
   tpl |-> <<Key(NA), Lit(BAR), Key(NB), Lit(BAR), Key(NQ), Lit(BAR), Var(2), Lit(BAR), Key(KAt), Lit(BAR)>>],
  [names |-> <<<<NB, 1>>>>,
   tpl |-> <<Key(KSrc), Lit(COL), Key(KLine), Lit(COL), Var(1), Lit(COL), Key(NB), Lit(COL), Key(NA), Lit(BAR)>>],
  [names |-> <<<<NA, 2>>, <<NB, 5>>>>,
   tpl |-> <<Lit(<<120>>), Key(NA), Key(NB), Var(1), Var(7), Lit(BAR), Var(0), Lit(BAR)>>]
>>
Srcs == <<<<102, 49>>, <<60, 115, 116, 100, 105, 110, 62>>>>      \* "f1", "<stdin>"
Nos == <<1, 10, 1024>>

Dump ==
  \A idx \in Vectors(Len(line)) : \A k \in 1..Len(Setups) :
    LET n  == ((Len(idx) + k) % 3) + 1
        sr == Srcs[((Len(line) + k) % 2) + 1]
        c  == Ctx(sr, Nos[n], line, idx, Setups[k].names)
    IN PrintT("VFJ " \o ToJson([line |-> line, idx |-> idx, setup |-> k, names |-> Setups[k].names,
                                tpl |-> Setups[k].tpl, src |-> sr, no |-> Nos[n],
                                want |-> EvalRef(c, Setups[k].tpl)]))
=============================================================================

-------------------------- MODULE MathExprFold_MC --------------------------
(* B3 for the second clause of C19 (see MathExprFold).                          *)
(*  FMode "arith"  laws of the float64 edge arithmetic (commutative, NOT        *)
(*                 associative, NOT distributive; which identities hold);       *)
(*                 every negative control is told apart by some tree            *)
(*  FMode "magma"  uninterpreted arithmetic: for EVERY binary operation f on a  *)
(*                 carrier of MagmaN elements, folding sub-trees without        *)
(*                 variables is invisible, and folding + re-association of      *)
(*                 trailing constants is invisible exactly when f is            *)
(*                 associative                                                   *)
(*  FMode "trees"  for every tree of the families below (Family = "one" |       *)
(*                 "two" | "three" | "func") and every binding: FoldSound,      *)
(*                 LiftSound (all subsets of constants <-> variables, same      *)
(*                 value, same key), SubstSound (variables -> constants),       *)
(*                 HarmlessSound (invisible rewrites stay invisible), the       *)
(*                 printed shape parses back to the tree                        *)
EXTENDS MathExprFold

CONSTANTS FMode, Family, MagmaN, Wide

VARIABLES hdr, tree
fvars == <<hdr, tree>>

\* ------------------------------------------------------------------ values
\* the literals a formula may contain: non-negative and finite (the driver writes their decimal expansion)
XTab == << XZero(1), XI(1), XI(2), XI(3), XQ(<<1, 2>>), XH(1), XH(3), XH(7), XT(1), XT(3),
           XI(5), XQ(<<3, 4>>), XI(7), XQ(<<1, 4>>), XH(2), XT(2) >>
C0 == Cst(1)
C1 == Cst(2)
C2 == Cst(3)
C3 == Cst(4)
CHalf == Cst(5)
CH == Cst(6)
C3H == Cst(7)
C7H == Cst(8)
CT == Cst(9)
C3T == Cst(10)
X == Var(1)
Y == Var(2)
\* bindings of x, y: pairs that share x and differ in y (1, 2), share y and differ in x (1, 3), (4, 8) ...
XBinds == <<
  <<XH(0 - 7), XI(3)>>,
  <<XH(0 - 7), XZero(0 - 1)>>,
  <<XT(1), XI(3)>>,
  <<XH(1), XQ(<<0 - 1, 2>>)>>,
  <<XZero(0 - 1), XInf(1)>>,
  <<XNaN, XI(2)>>,
  <<XZero(1), XT(0 - 3)>>,
  <<XI(3), XQ(<<1, 2>>)>>,
  <<XInf(0 - 1), XH(7)>>,
  <<XQ(<<0 - 3, 4>>), XI(0 - 1)>> >>
NB == Len(XBinds)
TabOK == /\ \A i \in DOMAIN XTab : XTab[i].c \in {"fin", "zero"} /\ XTab[i].s = 1
         /\ \A i \in DOMAIN XTab, k \in DOMAIN XTab : XTab[i] = XTab[k] => i = k
         /\ Len(XTab) <= MaxLit
         /\ \A b \in 1..NB, v \in 1..2 : Spellable(XBinds[b][v]) => HasIdx(XTab, XAbs(XBinds[b][v]))

\* ------------------------------------------------------------------- arith
Witnesses == UNION {{Bin("+", Bin("+", v, C7H), C7H), Bin("*", Bin("*", v, CH), CH), Bin("+", Bin("+", C7H, v), C7H),
                     Bin("+", C7H, Bin("+", C7H, v)), Bin("*", CT, Bin("*", CT, v)), Bin("-", Bin("-", v, C7H), C7H),
                     Bin("/", Bin("/", v, CT), CT), Bin("*", Bin("+", v, C7H), C2), Bin("*", v, C0), Bin("+", v, C0),
                     Bin("-", C0, v), Bin("-", v, v), Bin("/", v, v)} : v \in {X, Y}}
Pool == {XTab[i] : i \in DOMAIN XTab} \cup {XNeg(XTab[i]) : i \in DOMAIN XTab} \cup {XInf(1), XInf(0 - 1), XNaN}
ArithLawX ==
  /\ TabOK
  /\ \A a \in Pool, b \in Pool :
       /\ XAdd(a, b) = XAdd(b, a) /\ XMul(a, b) = XMul(b, a)                \* commutative
       /\ XSub(a, b) = XAdd(a, XNeg(b))
       /\ XNeg(XNeg(a)) = a
       /\ XMul(a, XI(1)) = a /\ XDiv(a, XI(1)) = a /\ XPow(a, XI(1)) = a /\ XSub(a, XZero(1)) = a
       /\ XPow(a, XZero(1)) = XI(1)
       /\ XCmpOp("<", a, b).n + XCmpOp("==", a, b).n + XCmpOp(">", a, b).n = (IF a.c = "nan" \/ b.c = "nan" THEN 0 ELSE 1)
       /\ XCmpOp("<=", a, b) = XB(XTruthy(XCmpOp("<", a, b)) \/ XTruthy(XCmpOp("==", a, b)))
       /\ (XIsNum(a) /\ XIsNum(b)) => (XCmp(a, b) = 0 - XCmp(b, a))
  \* what float64 does NOT have (each with its witness)
  /\ XAdd(XAdd(XH(0 - 7), XH(7)), XH(7)) = XH(7) /\ XAdd(XH(0 - 7), XAdd(XH(7), XH(7))) = XInf(1)          \* overflow
  /\ XMul(XMul(XT(1), XH(1)), XH(1)) = XH(1) /\ XMul(XT(1), XMul(XH(1), XH(1))) = XInf(1)
  /\ XMul(XMul(XH(1), XT(1)), XT(1)) = XT(1) /\ XMul(XH(1), XMul(XT(1), XT(1))) = XZero(1)                 \* underflow
  /\ XSub(XAdd(XH(1), XI(1)), XH(1)) = XZero(1) /\ XAdd(XI(1), XSub(XH(1), XH(1))) = XI(1)                 \* absorption
  /\ XMul(XAdd(XH(7), XH(0 - 7)), XI(2)) = XZero(1) /\ XAdd(XMul(XH(7), XI(2)), XMul(XH(0 - 7), XI(2))) = XNaN   \* distribution
  /\ XAdd(XZero(0 - 1), XZero(1)) = XZero(1)                           \* x+0 is not x for x = -0
  /\ XSub(XZero(1), XZero(1)) = XZero(1) /\ XNeg(XZero(1)) = XZero(0 - 1)   \* 0-x is not -x for x = 0
  /\ XMul(XI(0 - 3), XZero(1)) = XZero(0 - 1) /\ XMul(XInf(1), XZero(1)) = XNaN    \* x*0 is not 0
  /\ XSub(XInf(1), XInf(1)) = XNaN /\ XDiv(XZero(1), XZero(1)) = XNaN /\ XDiv(XI(1), XZero(0 - 1)) = XInf(0 - 1)
  /\ XUn("ceil", XQ(<<0 - 1, 2>>)) = XZero(0 - 1) /\ XUn("floor", XT(0 - 1)) = XI(0 - 1) /\ XUn("round", XT(0 - 1)) = XZero(0 - 1)
  /\ XTruthy(XNaN) /\ XUn("!", XNaN) = XZero(1)
  /\ \A c \in Controls : \E t \in Witnesses, b \in 1..NB : Tells(c, t, XTab, XBinds[b])     \* every negative control is visible
  /\ \E a \in Pool, b \in Pool, c \in Pool : XAdd(XAdd(a, b), c) # XAdd(a, XAdd(b, c)) /\ XAdd(XAdd(a, b), c).c # "out"
  /\ \E a \in Pool, b \in Pool, c \in Pool : XMul(XMul(a, b), c) # XMul(a, XMul(b, c)) /\ XMul(XMul(a, b), c).c # "out"

\* ------------------------------------------------------------------- magma
MC == 0..(MagmaN - 1)
MLeaves == {Cst(i) : i \in MC} \cup {Var(1)}
M1 == {Bin("f", a, b) : a \in MLeaves, b \in MLeaves}
M2 == {Bin("f", a, b) : a \in M1, b \in MLeaves} \cup {Bin("f", a, b) : a \in MLeaves, b \in M1}
M3 == {Bin("f", a, b) : a \in M2, b \in {Cst(0), Cst(MagmaN - 1), Var(1)}} \cup {Bin("f", a, b) : a \in M1, b \in M1}
MTrees == M1 \cup M2 \cup M3
MagmaLaw(f) ==
  LET foldOK == \A t \in MTrees, x \in MC : EvalM(SimplifyM(t, f), f, <<x>>) = EvalM(t, f, <<x>>)
      reOK == \A t \in MTrees, x \in MC : EvalM(EverywhereM(SimplifyM(t, f), f), f, <<x>>) = EvalM(t, f, <<x>>)
  IN foldOK /\ (reOK <=> AssocM(f, MC))

\* ------------------------------------------------------------------- trees
A4 == {"+", "-", "*", "/"}
U1 == {"-", "!", "abs", "floor", "ceil", "round"}
L1 == {X, Y, C0, C1, C2, CH, CT, CHalf}
L2 == IF Wide THEN {X, Y, C7H, CH, CT, C2, C0, C1, CHalf} ELSE {X, Y, C7H, CT, C2, C0}
LAdd == IF Wide THEN {X, Y, C7H, CH} ELSE {X, C7H, CH}
LMul == IF Wide THEN {X, Y, CH, CT} ELSE {X, CH, CT}
FF == {"abs", "floor", "-", "sqrt", "sin", "log"}
LF == {C7H, CT, CHalf}
Headers ==
  CASE Family = "one" -> BinOps \cup {"unary"}
    [] Family = "two" -> {<<a, b>> : a \in A4, b \in A4}
    [] Family = "three" -> {<<a, b>> : a \in {"+", "-"}, b \in {"+", "-"}} \cup {<<a, b>> : a \in {"*", "/"}, b \in {"*", "/"}}
    [] Family = "func" -> {<<f, o>> : f \in FF, o \in A4}
Shapes3(o1, o2, o3, l) ==
  {Bin(o3, Bin(o2, Bin(o1, l[1], l[2]), l[3]), l[4]),
   Bin(o3, Bin(o1, l[1], Bin(o2, l[2], l[3])), l[4]),
   Bin(o2, Bin(o1, l[1], l[2]), Bin(o3, l[3], l[4])),
   Bin(o1, l[1], Bin(o3, Bin(o2, l[2], l[3]), l[4])),
   Bin(o1, l[1], Bin(o2, l[2], Bin(o3, l[3], l[4])))}
TreesOf(h) ==
  CASE Family = "one" ->
         IF h = "unary" THEN
              {Un(u, a) : u \in U1 \cup {"sqrt", "exp"}, a \in L1} \cup {Un("-", Un(u, a)) : u \in {"-", "abs", "!"}, a \in L1}
              \cup {Un("abs", Un("-", a)) : a \in L1}
         ELSE {Bin(h, a, b) : a \in L1, b \in L1}
              \cup (IF h \in A4 THEN {Un(u, Bin(h, a, b)) : u \in U1, a \in {X, CT, C0}, b \in {Y, X, CHalf, C0}}
                                     \cup {Bin(h, Un(u, a), b) : u \in {"-", "abs"}, a \in {X, C0, CH}, b \in {X, Y, C0, CH}}
                                     \cup {Bin(h, a, Un(u, b)) : u \in {"-", "abs"}, a \in {X, C0, CH}, b \in {X, Y, C0, CH}}
                    ELSE {})
    [] Family = "two" ->
         {t \in {Bin(h[2], Bin(h[1], a, b), c) : a \in L2, b \in L2, c \in L2}
                \cup {Bin(h[1], a, Bin(h[2], b, c)) : a \in L2, b \in L2, c \in L2} : HasVar(t)}
    [] Family = "three" ->
         LET LS == IF h[1] \in {"+", "-"} THEN LAdd ELSE LMul
             O3 == IF h[2] \in {"+", "-"} THEN {"+", "-"} ELSE {"*", "/"}
         IN {t \in UNION {Shapes3(h[1], h[2], o3, <<a, b, c, d>>) : o3 \in O3, a \in LS, b \in LS, c \in LS, d \in LS}
               : HasVar(t) /\ NC(t) >= 2}
    [] Family = "func" ->
         UNION {{Bin(h[2], Un(h[1], Bin(o2, c1, c2)), X),
                 Bin(h[2], X, Un(h[1], Bin(o2, c1, c2))),
                 Un(h[1], Bin(h[2], Bin(o2, X, c1), c2)),
                 Bin(h[2], Un(h[1], Bin(o2, Y, c1)), c2)}
                : o2 \in A4, c1 \in LF, c2 \in (IF Wide THEN LF ELSE {C7H, CT})}

\* (written so that TLC evaluates the tree once per binding and skips rewrites that do not apply)
TreeLawX(t) ==
  LET s == Simplify(t, XTab)
      h == Everywhere("good", s, XTab) IN
  /\ \A b \in 1..NB :
       LET v == EvalX(t, XTab, XBinds[b])
           eb == ExtBind(t, XTab, XBinds[b]) IN
       /\ EvalX(s, XTab, XBinds[b]) = v                                                    \* FoldSound
       /\ \A S \in LiftSets(t) : EvalX(Simplify(Lift(t, S, 0), XTab), XTab, eb) = v        \* LiftSound
       /\ CanSubst(t, XTab, XBinds[b]) =>                                                  \* SubstSound
            LET st == SubstX(t, XTab, XBinds[b]) IN VarFreeX(st) /\ EvalX(Simplify(st, XTab), XTab, <<>>) = v
       /\ h # s => LET a == EvalX(h, XTab, XBinds[b]) IN a = v \/ a.c = "out" \/ v.c = "out"   \* HarmlessSound
  /\ LiftKeySound(t, XTab)
  /\ ParseRef(PrintF(ShapeOf(t), V0)) = [ok |-> TRUE, t |-> ShapeOf(t)]
  /\ ParseRef(PrintF(ShapeOf(SubstP(t)), V0)) = [ok |-> TRUE, t |-> ShapeOf(SubstP(t))]
  /\ LET lt == ShapeOf(Lift(t, 1..NC(t), 0)) IN ParseRef(PrintF(lt, V0)) = [ok |-> TRUE, t |-> lt]
Sens(t) ==
  LET s == Simplify(t, XTab) IN
  {c \in Controls : LET u == Everywhere(c, s, XTab) IN
                    u # s /\ \E b \in 1..NB : LET x == EvalX(u, XTab, XBinds[b])
                                                   y == EvalX(t, XTab, XBinds[b]) IN x # y /\ x.c # "out" /\ y.c # "out"}

\* ------------------------------------------------------------- state space
None == [k |-> "none"]
FInit ==
  /\ tree = None
  /\ CASE FMode = "trees" -> hdr \in Headers
       [] FMode = "magma" -> hdr \in [MC -> MC]                 \* the row f(0, .); FNext completes the table (in parallel)
       [] OTHER -> hdr = "arith"
FNext ==
  \/ /\ FMode = "trees" /\ tree = None
     /\ hdr' = hdr
     /\ tree' \in TreesOf(hdr)
  \/ /\ FMode = "magma" /\ DOMAIN hdr = MC /\ tree' = tree
     /\ hdr' \in {f \in [MC \X MC -> MC] : \A b \in MC : f[0, b] = hdr[b]}
FLaw ==
  CASE FMode = "arith" -> ArithLawX
    [] FMode = "magma" -> DOMAIN hdr # MC => MagmaLaw(hdr)
    [] FMode = "trees" -> tree # None => TreeLawX(tree)
=============================================================================

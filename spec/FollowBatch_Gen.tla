--------------------------- MODULE FollowBatch_Gen ---------------------------
(* B1 generator for the end of the follow pipeline (FollowBatch.tla): every      *)
(* schedule of bursts of whole lines a harness can realise on a real file,       *)
(*   [op: burst, n, long]   append n whole lines in ONE write; long = the writer  *)
(*                          was quiet for longer than the flush interval before   *)
(*                          it (otherwise it follows at once)                      *)
(*   [op: remove]           plain follow: the drained file is removed              *)
(* with what the specification demands of a consumer that HOLDS every batch it     *)
(* received and reads them afterwards:                                            *)
(*   atleast   after the burst was scanned: at least this many lines have         *)
(*             surfaced (MustFlush: the first line of a burst after a long pause;  *)
(*             the rest of a burst may wait in the open batch)                     *)
(*   total     lines appended; the lines read out of the held batches are always   *)
(*             1..k in order for some atleast <= k <= total, and k = total once    *)
(*             the stream ended (`ended`)                                          *)
(* The reader runs with the planned timing only (no Lag): real executions may      *)
(* flush more often, which the expectation allows (timing steers coverage,         *)
(* never the verdict).  `timer` = time-flushed partial batches that were followed  *)
(* by more lines in the model's run (the situation in which a recycled backing     *)
(* array would be overwritten) - a coverage measure for the sampling.              *)
EXTENDS FollowBatch, Json

VARIABLES hist

gvars == <<bvars, hist>>

GInit == BInit /\ hist = <<>>

GBurst ==
  /\ Idle /\ Burst
  /\ hist' = Append(hist, [op |-> "burst", n |-> appended' - appended, long |-> elapsed, atleast |-> 0])
GPause ==
  /\ Pause /\ UNCHANGED hist
GRemove ==
  /\ Remove
  /\ hist' = Append(hist, [op |-> "remove"])
\* the reader catches up; when it is idle again the demand for the last burst is known
GReader ==
  /\ Reader
  /\ hist' = IF bpc' = "scan" /\ scanned' = appended /\ hist # <<>> /\ hist[Len(hist)].op = "burst"
             THEN [hist EXCEPT ![Len(hist)].atleast = must']
             ELSE hist

GNext == GBurst \/ GPause \/ GRemove \/ GReader
GSpec == GInit /\ [][GNext]_gvars

NTimerMore == Cardinality({i \in 1..Len(sent) : sent[i].kind = "timer" /\ i < Len(sent)})

GLaws == HeldExact /\ StreamExact /\ MustFlush /\ FinalExact
Caught == hist # <<>> /\ (bpc = "closed" \/ (Idle /\ ~removed))
Dump == Caught =>
  PrintT("VFJ " \o ToJson([batch |-> PBatch, plain |-> Plain, steps |-> hist, total |-> appended,
                           ended |-> (bpc = "closed"), timer |-> NTimerMore, batches |-> Len(sent)]))
=============================================================================

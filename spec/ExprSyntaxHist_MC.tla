------------------------- MODULE ExprSyntaxHist_MC -------------------------
(* B3 for the history layer of C09: every history of <= MaxOps operations        *)
(* (Func registrations and Compile calls) of every pool on ONE key builder.      *)
(* With Mode = "plain" (the code as it is) and "memo" (a behaviour-preserving    *)
(* memoisation) HistIndep, EvalStable and StepLawOK hold; each of the other      *)
(* modes is a negative control and has to violate HistIndep or EvalStable.       *)
EXTENDS ExprSyntaxHist
=============================================================================

-------------------------------- MODULE Rat --------------------------------
(* Exact arithmetic beyond TLC's 32-bit integers.                              *)
(*                                                                              *)
(* BigInt : [s |-> -1 | 0 | 1, m |-> magnitude]; a magnitude is a little-endian *)
(*          sequence of limbs 0..BASE-1 without a most-significant zero limb    *)
(*          (<<>> is 0).  BASE = 10^4, so limb products stay below 2^31.        *)
(* Rat    : <<num, den>> with BigInt num and BigInt den > 0 (not normalised);   *)
(*          compared by cross multiplication.                                   *)
(* Every operator is total on well-formed arguments; intermediate TLC integers  *)
(* never exceed 10^8 + 2*10^4.                                                  *)
EXTENDS Integers, Sequences

BASE == 10000

\* ---------------------------------------------------------------- magnitudes
RECURSIVE MagNorm(_)
MagNorm(m) == IF m # <<>> /\ m[Len(m)] = 0 THEN MagNorm(SubSeq(m, 1, Len(m) - 1)) ELSE m

RECURSIVE MagOfNat(_)
MagOfNat(n) == IF n = 0 THEN <<>> ELSE <<n % BASE>> \o MagOfNat(n \div BASE)

MagLimb(m, i) == IF i <= Len(m) THEN m[i] ELSE 0

RECURSIVE MagAddC(_, _, _, _)
MagAddC(a, b, i, c) ==
  IF i > Len(a) /\ i > Len(b) THEN (IF c = 0 THEN <<>> ELSE <<c>>)
  ELSE LET s == MagLimb(a, i) + MagLimb(b, i) + c
       IN <<s % BASE>> \o MagAddC(a, b, i + 1, s \div BASE)
MagAdd(a, b) == MagAddC(a, b, 1, 0)

\* -1 / 0 / 1 ; compares from the most significant limb
RECURSIVE MagCmpAt(_, _, _)
MagCmpAt(a, b, i) ==
  IF i = 0 THEN 0
  ELSE IF a[i] < b[i] THEN -1 ELSE IF a[i] > b[i] THEN 1 ELSE MagCmpAt(a, b, i - 1)
MagCmp(a, b) ==
  IF Len(a) < Len(b) THEN -1 ELSE IF Len(a) > Len(b) THEN 1 ELSE MagCmpAt(a, b, Len(a))

\* a - b for a >= b
RECURSIVE MagSubC(_, _, _, _)
MagSubC(a, b, i, br) ==
  IF i > Len(a) THEN <<>>
  ELSE LET d == a[i] - MagLimb(b, i) - br
       IN IF d < 0 THEN <<d + BASE>> \o MagSubC(a, b, i + 1, 1)
          ELSE <<d>> \o MagSubC(a, b, i + 1, 0)
MagSub(a, b) == MagNorm(MagSubC(a, b, 1, 0))

\* a * d for one limb d
RECURSIVE MagMulLimbC(_, _, _, _)
MagMulLimbC(a, d, i, c) ==
  IF i > Len(a) THEN (IF c = 0 THEN <<>> ELSE <<c>>)
  ELSE LET s == a[i] * d + c IN <<s % BASE>> \o MagMulLimbC(a, d, i + 1, s \div BASE)
MagMulLimb(a, d) == IF d = 0 THEN <<>> ELSE MagMulLimbC(a, d, 1, 0)

MagShift(a, k) == IF a = <<>> THEN <<>> ELSE [i \in 1..k |-> 0] \o a

RECURSIVE MagMulAt(_, _, _)
MagMulAt(a, b, j) ==
  IF j > Len(b) THEN <<>>
  ELSE MagAdd(MagShift(MagMulLimb(a, b[j]), j - 1), MagMulAt(a, b, j + 1))
MagMul(a, b) == IF a = <<>> \/ b = <<>> THEN <<>> ELSE MagMulAt(a, b, 1)

\* ------------------------------------------------------------------- BigInt
BZero == [s |-> 0, m |-> <<>>]
BMk(sign, mag) == IF mag = <<>> THEN BZero ELSE [s |-> sign, m |-> mag]
BI(n) == IF n = 0 THEN BZero ELSE IF n > 0 THEN [s |-> 1, m |-> MagOfNat(n)]
         ELSE [s |-> -1, m |-> MagOfNat(0 - n)]
BNeg(a) == [s |-> 0 - a.s, m |-> a.m]
BAbs(a) == [s |-> IF a.s = 0 THEN 0 ELSE 1, m |-> a.m]
BAdd(a, b) ==
  IF a.s = 0 THEN b ELSE IF b.s = 0 THEN a
  ELSE IF a.s = b.s THEN [s |-> a.s, m |-> MagAdd(a.m, b.m)]
  ELSE LET c == MagCmp(a.m, b.m) IN
       IF c = 0 THEN BZero
       ELSE IF c > 0 THEN BMk(a.s, MagSub(a.m, b.m)) ELSE BMk(b.s, MagSub(b.m, a.m))
BSub(a, b) == BAdd(a, BNeg(b))
BMul(a, b) == IF a.s = 0 \/ b.s = 0 THEN BZero ELSE [s |-> a.s * b.s, m |-> MagMul(a.m, b.m)]
BCmp(a, b) ==
  IF a.s # b.s THEN (IF a.s < b.s THEN -1 ELSE 1)
  ELSE IF a.s = 0 THEN 0 ELSE a.s * MagCmp(a.m, b.m)
BLe(a, b) == BCmp(a, b) <= 0
BLt(a, b) == BCmp(a, b) < 0
BEq(a, b) == BCmp(a, b) = 0
BSq(a) == BMul(a, a)

\* value of a BigInt known to fit a TLC integer
RECURSIVE MagToNat(_)
MagToNat(m) == IF m = <<>> THEN 0 ELSE m[1] + BASE * MagToNat(Tail(m))
BToInt(a) == a.s * MagToNat(a.m)

BWellFormed(a) ==
  /\ a.s \in {-1, 0, 1} /\ (a.s = 0) = (a.m = <<>>)
  /\ \A i \in 1..Len(a.m) : a.m[i] \in 0..(BASE - 1)
  /\ (a.m # <<>> => a.m[Len(a.m)] # 0)

\* ----------------------------------------------------------------- rationals
RatOf(n, d) == <<n, d>>                       \* BigInt n, BigInt d > 0
RCmp(x, y) == BCmp(BMul(x[1], y[2]), BMul(y[1], x[2]))
RLe(x, y) == RCmp(x, y) <= 0
RAdd(x, y) == <<BAdd(BMul(x[1], y[2]), BMul(y[1], x[2])), BMul(x[2], y[2])>>
RSub(x, y) == <<BSub(BMul(x[1], y[2]), BMul(y[1], x[2])), BMul(x[2], y[2])>>
RMul(x, y) == <<BMul(x[1], y[1]), BMul(x[2], y[2])>>

\* ------------------------------------------------- laws (checked by TLC, B3)
\* over a pool of integers whose sums and products fit 32 bits
RatLawPool == {0, 1, -1, 2, -7, 9999, 10000, -10000, 10001, 46340, -46340, 12345, -40001}
RatLaws ==
  \A a \in RatLawPool, b \in RatLawPool :
    /\ BWellFormed(BI(a))
    /\ BToInt(BI(a)) = a
    /\ BWellFormed(BAdd(BI(a), BI(b))) /\ BToInt(BAdd(BI(a), BI(b))) = a + b
    /\ BWellFormed(BSub(BI(a), BI(b))) /\ BToInt(BSub(BI(a), BI(b))) = a - b
    /\ BWellFormed(BMul(BI(a), BI(b))) /\ BToInt(BMul(BI(a), BI(b))) = a * b
    /\ BCmp(BI(a), BI(b)) = (IF a < b THEN -1 ELSE IF a > b THEN 1 ELSE 0)
    \* beyond 32 bits: (a*b)*b - (a*b)*(b-1) = a*b, and squares are monotone
    /\ BToInt(BSub(BMul(BMul(BI(a), BI(b)), BI(b)), BMul(BMul(BI(a), BI(b)), BI(b - 1)))) = a * b
    /\ BEq(BMul(BSq(BI(a)), BSq(BI(b))), BSq(BMul(BI(a), BI(b))))
    /\ RCmp(RatOf(BI(a), BI(7)), RatOf(BI(b), BI(7))) = BCmp(BI(a), BI(b))
=============================================================================

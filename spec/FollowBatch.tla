----------------------------- MODULE FollowBatch -----------------------------
(* C15 - the END of the follow pipeline: what the consumer of                    *)
(* batchers.TailFilesToChan (and with it `rare filter -f`) holds in its hands.   *)
(*                                                                              *)
(* Follow.tla states the property on the byte stream that FollowReader.Read     *)
(* returns.  The user never sees that stream: tailBatcher.go hands the reader    *)
(* to Batcher.syncReaderToBatcherWithTimeFlush, which scans it into lines,       *)
(* collects the lines in `batch` ([]BString) and sends the batch                 *)
(*    - when it is full (len(batch) >= batchSize), or                            *)
(*    - when a line arrives and time.Since(lastBatchFlush) >= autoFlush          *)
(*      (so that followed lines surface although the batch is not full), or     *)
(*    - after the stream ended (plain follow, file removed), the rest.           *)
(* A batch that was sent is queued in the channel or held by a worker while the  *)
(* reader goroutine goes on appending to "its" batch.  What was delivered is     *)
(* what the holder of the batches READS, so "exactly the bytes appended, in      *)
(* order, without loss or duplication" is a statement about the backing arrays   *)
(* of the batches (the idea of C04's ScannerBatch.tla, on the follow path):      *)
(*                                                                              *)
(*   lines     the whole lines appended to the followed file are numbered        *)
(*             1, 2, ...; the follower delivers their bytes in order (Follow)    *)
(*   arrs      every backing array of a batch ever made; a slot holds the        *)
(*             number of the line whose slice header was written there           *)
(*   sent      the batches handed to the channel: views (array, length)          *)
(*   held      the batches somebody still holds (queued, being worked on, kept)  *)
(*                                                                              *)
(* ReuseOn selects after which kind of flush the backing array is recycled       *)
(* (batch = batch[:0]) instead of replaced by make(): "never" (the code),        *)
(* "final" (harmless), "timer" and "full" (controls: a held batch is overwritten *)
(* by the lines that follow - the first lines of a burst after a pause are lost  *)
(* and later ones show up twice).                                                *)
(*                                                                              *)
(* Time: `elapsed` = time.Since(lastBatchFlush) >= autoFlush.  It becomes true   *)
(* while the reader is blocked in Read with everything scanned (Pause: the       *)
(* writer is quiet for longer than the interval) or at any moment the reader     *)
(* goroutine is delayed (Lag: load).  A burst that starts after a Pause is       *)
(* marked: its first line MUST be flushed when it is scanned (MustFlush), the    *)
(* rest of the burst may stay in the open batch until the next line arrives      *)
(* (NothingPending is NOT a law - that is how the batcher is built, and why a    *)
(* replay can only demand `must` lines before the end of the stream).            *)
EXTENDS Integers, Sequences, FiniteSets, TLC

CONSTANTS PBatch,       \* batchSize (>= 1)
          BurstLens,    \* numbers of lines one append may hold
          MaxLines,     \* bound on the lines appended
          Plain,        \* plain follow: the stream ends when the drained file is removed
          ReuseOn       \* "never" | "timer" | "full" | "final"

ASSUME PBatch >= 1 /\ ReuseOn \in {"never", "timer", "full", "final"}

VARIABLES appended,     \* lines written to the followed file so far
          scanned,      \* lines the scanner has returned (readahead.Scan() = true) so far
          removed,      \* the file was removed after it was drained (Plain)
          arrs, ba, bl, \* backing arrays; the reader's batch: array id, length
          bstart,       \* batchStart: 1 + lines in the batches sent so far
          elapsed,      \* time.Since(lastBatchFlush) >= autoFlush
          bpc,          \* "scan" | "append" | "decide" | "final" | "closed"
          sent,         \* <<[a, n, start, kind]>>
          held,         \* subset of DOMAIN sent
          must          \* first line of the latest burst that began after a Pause (0: none)

bvars == <<appended, scanned, removed, arrs, ba, bl, bstart, elapsed, bpc, sent, held, must>>

EmptyArr == [k \in 1..PBatch |-> 0]

BInit ==
  /\ appended = 0 /\ scanned = 0 /\ removed = FALSE
  /\ arrs = <<EmptyArr>> /\ ba = 1 /\ bl = 0 /\ bstart = 1
  /\ elapsed = FALSE /\ bpc = "scan" /\ sent = <<>> /\ held = {} /\ must = 0

Idle == bpc = "scan" /\ scanned = appended       \* the reader is blocked in Read, everything scanned

------------------------------------------------------------------------------
\* the environment
Burst ==
  /\ ~removed
  /\ \E n \in BurstLens :
       /\ appended + n <= MaxLines
       /\ appended' = appended + n
  /\ must' = IF Idle /\ elapsed THEN appended + 1 ELSE must
  /\ UNCHANGED <<scanned, removed, arrs, ba, bl, bstart, elapsed, bpc, sent, held>>
\* the writer is quiet for longer than the flush interval while the reader waits for data
Pause ==
  /\ Idle /\ ~elapsed /\ ~removed
  /\ elapsed' = TRUE
  /\ UNCHANGED <<appended, scanned, removed, arrs, ba, bl, bstart, bpc, sent, held, must>>
\* the reader goroutine is delayed between two of its steps (load)
Lag ==
  /\ ~elapsed /\ bpc \in {"append", "decide"}
  /\ elapsed' = TRUE
  /\ UNCHANGED <<appended, scanned, removed, arrs, ba, bl, bstart, bpc, sent, held, must>>
\* remove-after-drain (the follower then returns io.EOF: Follow.tla)
Remove ==
  /\ Plain /\ Idle /\ ~removed
  /\ removed' = TRUE
  /\ UNCHANGED <<appended, scanned, arrs, ba, bl, bstart, elapsed, bpc, sent, held, must>>
\* the consumer is done with a batch (any held batch, at any time - or never)
Release ==
  /\ \E i \in held : held' = held \ {i}
  /\ UNCHANGED <<appended, scanned, removed, arrs, ba, bl, bstart, elapsed, bpc, sent, must>>

------------------------------------------------------------------------------
\* the reader loop
BScan ==
  /\ bpc = "scan"
  /\ \/ /\ scanned < appended                                    \* Scan() = true: the next whole line
        /\ scanned' = scanned + 1 /\ bpc' = "append"
     \/ /\ scanned = appended /\ removed                         \* Scan() = false: io.EOF
        /\ bpc' = "final" /\ UNCHANGED scanned
  /\ UNCHANGED <<appended, removed, arrs, ba, bl, bstart, elapsed, sent, held, must>>

\* batch = append(batch, readahead.Bytes()): writes slot bl+1 of the current backing array
BAppend ==
  /\ bpc = "append"
  /\ arrs' = [arrs EXCEPT ![ba][bl + 1] = scanned]
  /\ bl' = bl + 1
  /\ bpc' = "decide"
  /\ UNCHANGED <<appended, scanned, removed, ba, bstart, elapsed, sent, held, must>>

Flush(kind) ==
  /\ sent' = Append(sent, [a |-> ba, n |-> bl, start |-> bstart, kind |-> kind])
  /\ held' = held \cup {Len(sent) + 1}
  /\ bstart' = bstart + bl
  /\ bl' = 0
  /\ elapsed' = FALSE                                            \* lastBatchFlush = time.Now()
  /\ IF ReuseOn = kind
     THEN UNCHANGED <<arrs, ba>>                                 \* batch = batch[:0]
     ELSE /\ arrs' = Append(arrs, EmptyArr)                      \* batch = make([]BString, 0, batchSize)
          /\ ba' = Len(arrs) + 1
  /\ UNCHANGED <<appended, scanned, removed, must>>

FlushFull  == bpc = "decide" /\ bl >= PBatch /\ Flush("full") /\ bpc' = "scan"
FlushTimer == bpc = "decide" /\ bl < PBatch /\ elapsed /\ Flush("timer") /\ bpc' = "scan"
NoFlush ==
  /\ bpc = "decide" /\ bl < PBatch /\ ~elapsed
  /\ bpc' = "scan"
  /\ UNCHANGED <<appended, scanned, removed, arrs, ba, bl, bstart, elapsed, sent, held, must>>
FlushFinal ==
  /\ bpc = "final"
  /\ IF bl > 0 THEN Flush("final")
     ELSE UNCHANGED <<appended, scanned, removed, arrs, ba, bl, bstart, elapsed, sent, held, must>>
  /\ bpc' = "closed"

Reader == BScan \/ BAppend \/ FlushFull \/ FlushTimer \/ NoFlush \/ FlushFinal
BNext == Burst \/ Pause \/ Lag \/ Remove \/ Release \/ Reader
BSpec == BInit /\ [][BNext]_bvars /\ WF_bvars(Reader)

------------------------------------------------------------------------------
BTypeOK ==
  /\ bpc \in {"scan", "append", "decide", "final", "closed"}
  /\ ba \in 1..Len(arrs) /\ bl \in 0..PBatch /\ scanned \in 0..appended
  /\ held \subseteq 1..Len(sent)

\* what a holder of batch i reads NOW
View(i) == [k \in 1..sent[i].n |-> arrs[sent[i].a][k]]
Want(i) == [k \in 1..sent[i].n |-> sent[i].start + k - 1]
RECURSIVE Cat(_)
Cat(i) == IF i = 0 THEN <<>> ELSE Cat(i - 1) \o View(i)

\* a batch keeps the lines it was sent with for as long as somebody holds it
HeldExact == \A i \in held : View(i) = Want(i)
\* ... on steps: no step of the reader writes a slot of a held batch
HeldStable == [][\A i \in held : i \in held' => \A k \in 1..sent[i].n : arrs'[sent[i].a][k] = arrs[sent[i].a][k]]_bvars
\* a consumer that keeps every batch reads exactly the lines appended, in order, once
StreamExact == (held = 1..Len(sent)) => Cat(Len(sent)) = [k \in 1..(bstart - 1) |-> k]
\* batches partition the scanned lines, in order
PartitionOK ==
  /\ \A i \in 1..Len(sent) : /\ sent[i].n \in 1..PBatch
                             /\ sent[i].start = IF i = 1 THEN 1 ELSE sent[i - 1].start + sent[i - 1].n
  /\ bstart = IF sent = <<>> THEN 1 ELSE sent[Len(sent)].start + sent[Len(sent)].n
  /\ bstart + bl - 1 = scanned - (IF bpc = "append" THEN 1 ELSE 0)
\* the open batch is a view too: the lines scanned and not sent yet
OpenExact == \A k \in 1..bl : arrs[ba][k] = bstart + k - 1
\* a line that arrives after a pause longer than the interval surfaces at once
MustFlush == (bpc = "scan" /\ scanned >= must) => bstart - 1 >= must
\* the end of the stream flushes the rest
FinalExact == bpc = "closed" => (bstart - 1 = appended /\ bl = 0)
BTerminates == (removed ~> bpc = "closed")
\* NOT laws (reachability controls, must be violated): lines can stay in the open batch of a quiet stream;
\* a time-flushed partial batch is followed by more lines into the next batch (the situation of the controls)
NothingPending == ~(Idle /\ bl > 0 /\ ~removed /\ appended = MaxLines)
NoTimerThenMore == ~(\E i \in 1..Len(sent) : sent[i].kind = "timer" /\ bl > 0)
=============================================================================

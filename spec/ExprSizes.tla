------------------------------ MODULE ExprSizes ------------------------------
(* C08, sizes: ONE evaluation of a helper whose work depends on how LONG its    *)
(* input is and on how MANY arguments it was given - the two quantities the      *)
(* repository's tests keep small and ASCII.                                      *)
(*                                                                               *)
(*   window job   {substr s left length} and its relatives: the window is        *)
(*                normalised against the length of s measured in ClampUnit       *)
(*                (Norm, the clamping of kfSubstr transcribed) and then cut out  *)
(*                of s indexed in CutUnit.  The code measures and cuts in        *)
(*                bytes.  A cut whose end lies beyond the value is a fault.      *)
(*   gather job   a call with n arguments evaluates them into a staging buffer   *)
(*                (format: the Sprintf arguments) of capacity n (Buf = 0, the    *)
(*                code: make([]T, n)), or of a fixed capacity Buf with or        *)
(*                without a fallback for longer calls.  Storing beyond the       *)
(*                capacity is a fault.                                           *)
(*                                                                               *)
(* Survives (no fault) is the property's "never panics" for these helpers.  TLC  *)
(* proves it for the code's choices (ClampUnit = CutUnit, Buf = 0 - and for a    *)
(* fixed buffer WITH fallback, an admissible refactoring) over all texts of up   *)
(* to L characters over the character classes, all offsets around zero, around   *)
(* the text's length in every unit and huge, and all probed argument counts;     *)
(* and must refute the deviations (negative controls run by the check):          *)
(*   ClampUnit = "byte", CutUnit = "rune"   clamp in bytes, cut a []rune copy    *)
(*      (also with Shortcut: the counterexample is then a window that is not     *)
(*      the whole value - "the last k", "all but the first")                     *)
(*   Buf = 4, Fallback = FALSE               a 4-element array, no fallback      *)
(* The counterexamples are what the bindings have to contain: a text with a      *)
(* multi-byte character and a window that reaches its end; a call with more      *)
(* arguments than the buffer holds.  The adequacy laws of ExprSizesLaws state     *)
(* that the pools of ExprTotal - which the generator replays on the real code,   *)
(* where a fault is only observable as a crash, i.e. beyond the allocation's     *)
(* capacity - contain such points for EVERY pair of units and EVERY plausible    *)
(* capacity.                                                                     *)
EXTENDS ExprTotal

CONSTANTS L,            \* texts of up to L characters
          ClampUnit,    \* unit in which the window is normalised
          CutUnit,      \* unit in which the value is cut
          Shortcut,     \* the whole value is answered without a cut (an admissible shortcut)
          Buf,          \* 0: a buffer as long as the call; K > 0: a fixed buffer of K elements
          Fallback,     \* with a fixed buffer: longer calls allocate
          Thorough

VARIABLES pc,       \* "start" | "clamped" | "filling" | "done" | "aborted"
          job,      \* the evaluation
          win,      \* the normalised window
          cap, i    \* the staging buffer and the arguments stored so far
vars == <<pc, job, win, cap, i>>

SmallOffs == (-(4 * L + 2))..(4 * L + 2) \cup {HUGE, -HUGE}
Texts == CharSeqs(L)
WinJob(cs, l, k) == [kind |-> "win", cs |-> cs, left |-> l, length |-> k]
GatherJobs == UNION {{[kind |-> "gather", f |-> f, n |-> n] : n \in ProbedArities(f, Thorough)} : f \in Variadic}

Init ==
  /\ pc = "start" /\ win = <<0, 0>> /\ cap = 0 /\ i = 0
  /\ \/ \E cs \in Texts : \E l \in SmallOffs : \E k \in SmallOffs : job = WinJob(cs, l, k)
     \/ job \in GatherJobs

\* ---- window
Clamp ==
  /\ pc = "start" /\ job.kind = "win"
  /\ IF MeasSeq(ClampUnit, job.cs) = 0 THEN pc' = "done" /\ win' = win      \* an empty value is answered at once
     ELSE /\ win' = Norm(MeasSeq(ClampUnit, job.cs), job.left, job.length)
          /\ pc' = IF Shortcut /\ Shape(win', MeasSeq(ClampUnit, job.cs)) = "whole" THEN "done" ELSE "clamped"
  /\ UNCHANGED <<job, cap, i>>
Cut ==
  /\ pc = "clamped"
  /\ pc' = IF InRange(win, MeasSeq(CutUnit, job.cs)) THEN "done" ELSE "aborted"
  /\ UNCHANGED <<job, win, cap, i>>

\* ---- gather
Alloc ==
  /\ pc = "start" /\ job.kind = "gather"
  /\ cap' = IF Buf = 0 \/ (Fallback /\ job.n > Buf) THEN job.n ELSE Buf
  /\ pc' = "filling" /\ UNCHANGED <<job, win, i>>
\* (the stores are one step: the argument counts go up to a few thousand)
Fill ==
  /\ pc = "filling"
  /\ IF job.n <= cap THEN i' = job.n /\ pc' = "done" ELSE i' = cap /\ pc' = "aborted"
  /\ UNCHANGED <<job, win, cap>>

Next == Clamp \/ Cut \/ Alloc \/ Fill
Spec == Init /\ [][Next]_vars /\ WF_vars(Next)

TypeOK ==
  /\ pc \in {"start", "clamped", "filling", "done", "aborted"} /\ cap >= 0 /\ i >= 0
  /\ IF job.kind = "win" THEN job.cs \in Texts /\ job.left \in SmallOffs /\ job.length \in SmallOffs ELSE job \in GatherJobs
Survives == pc # "aborted"
\* the normalised window lies inside the value in the unit it was normalised in, whatever the arguments are
NormOK == pc = "clamped" => InRange(win, MeasSeq(ClampUnit, job.cs))
\* every evaluation returns: a state that is not final has a step
Returns == pc \in {"start", "clamped", "filling"} => ENABLED Next

=============================================================================

----------------------------- MODULE MiniJsonEnc -----------------------------
(* C16 - implementation-shaped layer: the encoder as the code writes it         *)
(* (pkg/minijson JsonObjectBuilder: Open / writeKey / WriteLiteral /            *)
(* WriteString / WriteInferred / WriteInt / Close; escape with its lookup table *)
(* and the rune loop of `range s`; isNumeric; and                               *)
(* SliceSpaceExpressionContext.json: named groups in group-index order, then    *)
(* the non-empty numbered groups).  MiniJson_MC shows that it refines the       *)
(* abstract requirement MiniJson!Meets.  The conformance verdict never uses     *)
(* this module's text as the expectation - only as a reference point that is    *)
(* reported when the real text differs although it meets the requirement.       *)
EXTENDS MiniJson, TLC

\* ---- escape ---------------------------------------------------------------
HexDigit(n) == IF n < 10 THEN 48 + n ELSE 87 + n
\* escapeLookup plus \u00XX for the remaining control characters; <<>> = written as it is
EscapeOf(c) ==
  CASE c = 8 -> <<BSL, 98>> [] c = 12 -> <<BSL, 102>> [] c = 10 -> <<BSL, 110>> [] c = 13 -> <<BSL, 114>>
    [] c = 9 -> <<BSL, 116>> [] c = QUOTE -> <<BSL, QUOTE>> [] c = BSL -> <<BSL, BSL>>
    [] c < 32 -> <<BSL, 117, 48, 48, HexDigit(c \div 16), HexDigit(c % 16)>>
    [] OTHER -> <<>>
Mapped(c) == EscapeOf(c) # <<>>

\* `for i, r := range s`: an ill-formed byte is the rune U+FFFD of width 1
RuneAt(s, i) == LET n == Utf8Len(s, i) IN
                IF n = 0 THEN [w |-> 1, bytes |-> Repl] ELSE [w |-> n, bytes |-> SubSeq(s, i, i + n - 1)]

RECURSIVE EscFrom(_, _)
\* after the first mapped rune: sb.WriteString(escapeLookup[r]) / sb.WriteRune(r)
EscFrom(s, i) ==
  IF i > Len(s) THEN <<>>
  ELSE IF Mapped(s[i]) THEN EscapeOf(s[i]) \o EscFrom(s, i + 1)
  ELSE LET r == RuneAt(s, i) IN r.bytes \o EscFrom(s, i + r.w)

\* nothing mapped: the string itself (ill-formed bytes included); otherwise the untouched prefix
\* s[:i] followed by the rune-wise rewrite of the rest
Escape(s) ==
  LET M == {i \in 1..Len(s) : Mapped(s[i])} IN
  IF M = {} THEN s ELSE LET f == MinOf(M) IN SubSeq(s, 1, f - 1) \o EscFrom(s, f)

\* ---- isNumeric: digits [ . digits ], no superfluous leading zero -------------
IsNumericImpl(s) ==
  LET n1 == DigitRun(s, 1) IN
  /\ n1 >= 1
  /\ (n1 > 1 => s[1] # ZERO)
  /\ \/ n1 = Len(s)
     \/ /\ s[n1 + 1] = DOT
        /\ n1 + 1 < Len(s)
        /\ DigitRun(s, n1 + 2) = Len(s) - n1 - 1

\* ---- the builder: [sb, n] ----------------------------------------------------
Builder0 == [sb |-> <<>>, n |-> 0]
Open(b)  == [b EXCEPT !.sb = @ \o <<LBRACE>>]
Close(b) == [b EXCEPT !.sb = @ \o <<RBRACE>>]
WriteKey(b, key) ==
  [sb |-> b.sb \o (IF b.n > 0 THEN <<COMMA, 32>> ELSE <<>>) \o <<QUOTE>> \o key \o <<QUOTE, COLON, 32>>, n |-> b.n + 1]
WriteLiteral(b, key, lit) == [WriteKey(b, key) EXCEPT !.sb = @ \o lit]
WriteString(b, key, val)  == [WriteKey(b, key) EXCEPT !.sb = @ \o <<QUOTE>> \o Escape(val) \o <<QUOTE>>]
WriteInt(b, key, n)       == WriteLiteral(b, key, Itoa(n))
WriteInferred(b, key, val) ==
  IF IsNumericImpl(val) THEN WriteLiteral(b, key, val)
  ELSE IF LowerASCII(val) = TrueLit THEN WriteLiteral(b, key, TrueLit)
  ELSE IF LowerASCII(val) = FalseLit THEN WriteLiteral(b, key, FalseLit)
  ELSE WriteString(b, key, val)

\* ---- SliceSpaceExpressionContext.json(named, numbered) -----------------------
\* the named groups ordered by group index (in the domain every named group has its own index)
NameLess(a, b) == a[2] < b[2]
OrderedNames(names) == SortSeq(names, NameLess)

RECURSIVE WriteNamed(_, _, _, _)
WriteNamed(b, on, groups, k) ==
  IF k > Len(on) THEN b ELSE WriteNamed(WriteInferred(b, on[k][1], GroupText(groups, on[k][2])), on, groups, k + 1)
RECURSIVE WriteNumbered(_, _, _)
WriteNumbered(b, groups, i) ==
  IF i > Len(groups) THEN b
  ELSE WriteNumbered(IF groups[i] # <<>> THEN WriteInferred(b, Itoa(i - 1), groups[i]) ELSE b, groups, i + 1)

Encode(names, groups, named, numbered) ==
  LET b1 == Open(Builder0)
      b2 == IF named THEN WriteNamed(b1, OrderedNames(names), groups, 1) ELSE b1
      b3 == IF numbered THEN WriteNumbered(b2, groups, 1) ELSE b2
  IN Close(b3).sb

\* ---- direct use of the builder: ops = <<kind, key, val>>, kind in "inferred" | "string" --------
RECURSIVE ApplyOps(_, _, _)
ApplyOps(b, ops, k) ==
  IF k > Len(ops) THEN b
  ELSE ApplyOps(IF ops[k].op = "inferred" THEN WriteInferred(b, ops[k].key, ops[k].val)
                ELSE WriteString(b, ops[k].key, ops[k].val), ops, k + 1)
EncodeOps(ops) == Close(ApplyOps(Open(Builder0), ops, 1)).sb
=============================================================================

------------------------------ MODULE Captures ------------------------------
(* C02 - what an expression sees of one match.                                    *)
(*                                                                                 *)
(* A match is  (source name, 1-based line number, line text, index vector, name    *)
(* table).  The index vector is the matcher's result in Go's convention: 0-based   *)
(* half-open pairs <<s0, e0, s1, e1, ...>>, pair 0 = the whole match, a group that *)
(* did not participate is the pair -1, -1.  The name table maps group names to     *)
(* group numbers (sequence of <<name, number>>).                                   *)
(*                                                                                 *)
(* Two layers:                                                                     *)
(*   CaptureRef / ArrayRef / KeyRef   the property ("groups that did not           *)
(*        participate or do not exist read as empty"), stated on groups;           *)
(*   GetMatch / Array / GetKey        written like                                 *)
(*        pkg/extractor/sliceSpaceExpressionContext.go (slice arithmetic on the    *)
(*        flat vector); Captures_MC checks that they agree on the domain.          *)
(* Template evaluation (Eval) covers the variable-only templates used to observe   *)
(* the captures:  literal text, {N}, {name}, {@}, {src}, {line}.                   *)
(* All text is a sequence of byte values.                                          *)
EXTENDS Bytes

\* ---------------------------------------------------------------- domain
\* pair p (0-based group number) of a vector
PairS(idx, g) == idx[2 * g + 1]
PairE(idx, g) == idx[2 * g + 2]
NGroups(idx) == Len(idx) \div 2                  \* including group 0
Participates(idx, g) == g >= 0 /\ g < NGroups(idx) /\ PairS(idx, g) >= 0 /\ PairE(idx, g) >= 0

\* a vector a matcher may return for this line: even length, at least group 0, every pair absent
\* (-1,-1) or inside the line
WellFormedIdx(line, idx) ==
  /\ Len(idx) >= 2 /\ Len(idx) % 2 = 0
  /\ \A g \in 0..(NGroups(idx) - 1) :
        \/ PairS(idx, g) = -1 /\ PairE(idx, g) = -1
        \/ 0 <= PairS(idx, g) /\ PairS(idx, g) <= PairE(idx, g) /\ PairE(idx, g) <= Len(line)

\* ---------------------------------------------------------------- the property, on groups
CaptureRef(line, idx, g) ==
  IF Participates(idx, g) THEN SubSeq(line, PairS(idx, g) + 1, PairE(idx, g)) ELSE <<>>

\* {@}: groups 1..n joined by NUL (group 0 is not part of the array)
ArrayRef(line, idx) == JoinSeq([g \in 1..(NGroups(idx) - 1) |-> CaptureRef(line, idx, g)], <<NUL>>)

\* ---------------------------------------------------------------- written like the code
\* func (s *SliceSpaceExpressionContext) GetMatch(idx int) string
GetMatch(line, idx, i) ==
  LET sliceIndex == i * 2 IN
  IF sliceIndex < 0 \/ sliceIndex + 1 >= Len(idx) THEN <<>>
  ELSE LET start == idx[sliceIndex + 1]            \* s.indices[sliceIndex]   (TLA+ sequences are 1-based)
           stop  == idx[sliceIndex + 2]            \* s.indices[sliceIndex+1]
       IN IF start < 0 \/ stop < 0 THEN <<>> ELSE SubSeq(line, start + 1, stop)

\* func (s *SliceSpaceExpressionContext) array() string  -- the loop  for i := 1; i < len/2; i++
RECURSIVE ArrayLoop(_, _, _)
ArrayLoop(line, idx, i) ==
  IF i >= Len(idx) \div 2 THEN <<>>
  ELSE (IF i > 1 THEN <<NUL>> ELSE <<>>) \o GetMatch(line, idx, i) \o ArrayLoop(line, idx, i + 1)
Array(line, idx) == ArrayLoop(line, idx, 1)

\* ---------------------------------------------------------------- names
KSrc  == <<115, 114, 99>>          \* "src"
KLine == <<108, 105, 110, 101>>    \* "line"
KAt   == <<64>>                    \* "@"
ErrName == <<60, 78, 65, 77, 69, 62>>   \* "<NAME>"  (stdlib.ErrorArgName)
\* keys with a special meaning (the JSON specials . # .# #. belong to C16)
Specials == {KSrc, KLine, KAt, <<46>>, <<35>>, <<46, 35>>, <<35, 46>>}

\* a name table the property talks about: distinct, non-special names
NamesOK(names) ==
  /\ \A k \in 1..Len(names) : names[k][1] \notin Specials /\ names[k][1] # <<>>
  /\ \A j, k \in 1..Len(names) : names[j][1] = names[k][1] => j = k
HasName(names, key) == \E k \in 1..Len(names) : names[k][1] = key
NameIndex(names, key) == names[CHOOSE k \in 1..Len(names) : names[k][1] = key][2]

\* a match as seen by an expression
Ctx(src, no, line, idx, names) == [src |-> src, no |-> no, line |-> line, idx |-> idx, names |-> names]

\* the property: a named group reads like its number; an unknown name is the error marker
KeyRef(c, key) ==
  IF key = KSrc THEN c.src
  ELSE IF key = KLine THEN Itoa(c.no)
  ELSE IF key = KAt THEN ArrayRef(c.line, c.idx)
  ELSE IF HasName(c.names, key) THEN CaptureRef(c.line, c.idx, NameIndex(c.names, key))
  ELSE ErrName

\* func (s *SliceSpaceExpressionContext) GetKey(key string) string   (JSON specials excluded)
GetKey(c, key) ==
  CASE key = KSrc  -> c.src
    [] key = KLine -> Itoa(c.no)
    [] key = KAt   -> Array(c.line, c.idx)
    [] OTHER -> IF HasName(c.names, key) THEN GetMatch(c.line, c.idx, NameIndex(c.names, key)) ELSE ErrName

\* ---------------------------------------------------------------- variable-only templates
\* part = [k |-> "lit" | "idx" | "key", v |-> bytes (literal text / key name), i |-> group number]
Lit(v)  == [k |-> "lit", v |-> v, i |-> 0]
Var(i)  == [k |-> "idx", v |-> <<>>, i |-> i]
Key(v)  == [k |-> "key", v |-> v, i |-> 0]
EvalPart(c, p) ==
  CASE p.k = "lit" -> p.v
    [] p.k = "idx" -> GetMatch(c.line, c.idx, p.i)          \* stageSimpleVariable: Atoi succeeded
    [] p.k = "key" -> GetKey(c, p.v)
Eval(c, tpl) == Flatten([j \in 1..Len(tpl) |-> EvalPart(c, tpl[j])])

\* the same on the property level
EvalPartRef(c, p) ==
  CASE p.k = "lit" -> p.v
    [] p.k = "idx" -> CaptureRef(c.line, c.idx, p.i)
    [] p.k = "key" -> KeyRef(c, p.v)
EvalRef(c, tpl) == Flatten([j \in 1..Len(tpl) |-> EvalPartRef(c, tpl[j])])

\* the default matcher (matchers.AlwaysMatch): the whole line is group 0
AlwaysIdx(line) == <<0, Len(line)>>
=============================================================================

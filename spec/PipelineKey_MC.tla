---------------------------- MODULE PipelineKey_MC ----------------------------
(* Constants for the exhaustive checks (B3) of PipelineKey.tla.                   *)
(* Scn selects the inputs and the expressions.  Line kinds:                       *)
(*   A, B  matched, group value 1 / 2      Z  matched, empty group                *)
(*   U     the matcher does not match                                             *)
EXTENDS PipelineKey

CONSTANT Scn

K(kind) == CASE kind = "A" -> [m |-> TRUE, g |-> 1]
             [] kind = "B" -> [m |-> TRUE, g |-> 2]
             [] kind = "Z" -> [m |-> TRUE, g |-> 0]
             [] kind = "U" -> [m |-> FALSE, g |-> 0]
Mk(kinds) == [f \in DOMAIN kinds |-> [i \in DOMAIN kinds[f] |-> K(kinds[f][i])]]
E(op, n) == [op |-> op, n |-> n]

Scns == <<
  \* 1: one input (stdin shape), the ignore expression and the key read {line}
  [files |-> Mk(<< <<"A", "B", "A", "U", "B", "A">> >>),
   ign |-> << E("never", 0), E("gtline", 4) >>, key |-> E("line", 0)],
  \* 2: two inputs, ignore by source and by line number, key {src}:{line}:{1}
  [files |-> Mk(<< <<"A", "B", "A">>, <<"B", "Z", "A">> >>),
   ign |-> << E("eqsrc", 2), E("eqline", 1) >>, key |-> E("full", 0)],
  \* 3: two inputs, {not {eq {src} ..}} keeps one source only; key by match group (empty for Z)
  [files |-> Mk(<< <<"A", "U", "B">>, <<"Z", "A", "B">> >>),
   ign |-> << E("nesrc", 2) >>, key |-> E("grp", 0)],
  \* 4: ignore expressions over the match only; the key decides by source (empty key = ignored)
  [files |-> Mk(<< <<"A", "B">>, <<"A", "B", "A">> >>),
   ign |-> << E("eqgrp", 2) >>, key |-> E("ifsrc", 2)],
  \* 5: three inputs, one empty; lt and gt windows on the line number
  [files |-> Mk(<< <<"A", "A", "A", "A">>, << >>, <<"B", "B">> >>),
   ign |-> << E("ltline", 2), E("gtline", 3) >>, key |-> E("full", 0)],
  \* 6: nothing reads a fact of the line (the shape every existing test has)
  [files |-> Mk(<< <<"A", "B", "Z">>, <<"U", "B", "A">> >>),
   ign |-> << E("eqgrp", 1) >>, key |-> E("grp", 0)],
  \* 7: one input of 5 lines, ignore {gt {line} 2}, key by group
  [files |-> Mk(<< <<"A", "B", "A", "B", "A">> >>),
   ign |-> << E("gtline", 2) >>, key |-> E("ifgtline", 1)]
>>
MCFiles == Scns[Scn].files
MCIgn == Scns[Scn].ign
MCKey == Scns[Scn].key

\* the scenario has lines whose class / key depends on a fact of the line (no vacuous pass)
LineSensitive ==
  \/ \E e \in DOMAIN MCIgn : IgnReadsLine(MCIgn[e])
  \/ KeyReadsLine(MCKey)
=============================================================================

------------------------------- MODULE Render -------------------------------
(* C14 - what rare's renderers owe the reader of the screen.                      *)
(*                                                                                *)
(* Text is a sequence of code points.  Quantities are integers; a magnitude in     *)
(* [0,1] is an exact rational <<p, q>> (0 <= p <= q, q >= 1).  The linear scale    *)
(* is specified exactly, the logarithmic scales only by their laws (no logarithm   *)
(* in TLA+).  Where the code multiplies a float64 by a length and truncates, the   *)
(* specification is the exact floor; an observed n is accepted when                *)
(*   n*q <= p*k <= (n+1)*q                                                         *)
(* (the right-hand equality is the one case binary rounding can produce: an exact  *)
(* integer product computed as integer - epsilon).                                *)
(*                                                                                *)
(*   1. scaler      LinScale, Bucket, LengthVal, ScaleKeys                         *)
(*   2. bars        BarRunes (unicode: 9 sub-cells per cell; ascii), stacked bars  *)
(*   3. palettes    heat-map and sparkline glyph by bucket                         *)
(*   4. text        visible length (colour sequences are invisible when colour is  *)
(*                  enabled), number formatters                                    *)
(*   5. layout      table layout from visible lengths, `(n more)` accounting       *)
(*   6. layout state machines written like the code (heat-map header compaction,   *)
(*      histogram line store) - used for the laws in Render_MC                     *)
EXTENDS Bytes, Rat, TLC

\* ------------------------------------------------------------------ helpers
Rep(c, n) == [i \in 1..n |-> c]
Max2(a, b) == IF a > b THEN a ELSE b
Min2(a, b) == IF a < b THEN a ELSE b
Rem(a, b) == a % b
RECURSIVE SeqSum(_)
SeqSum(s) == IF s = <<>> THEN 0 ELSE s[1] + SeqSum(Tail(s))
RECURSIVE SeqMax(_, _)
SeqMax(s, m) == IF s = <<>> THEN m ELSE SeqMax(Tail(s), Max2(m, s[1]))
RECURSIVE SeqMin(_, _)
SeqMin(s, m) == IF s = <<>> THEN m ELSE SeqMin(Tail(s), Min2(m, s[1]))
BP(a, b) == BMul(BI(a), BI(b))                      \* exact product beyond 32 bits

\* observed n is floor(a*k/d) up to binary rounding (a, k >= 0, d > 0)
FloorObs(n, a, k, d) == BLe(BP(n, d), BP(a, k)) /\ BLe(BP(a, k), BP(n + 1, d))
\* exactly floor(a*k/d)
FloorIs(n, a, k, d) == BLe(BP(n, d), BP(a, k)) /\ BLt(BP(a, k), BP(n + 1, d))

\* floor(c*L/M) for 0 <= c <= M <= 10^9, 0 <= L <= 500, without leaving 32 bits
RECURSIVE MulDivLoop(_, _, _, _, _)
MulDivLoop(c, L, M, q, r) ==
  IF L = 0 THEN q
  ELSE IF r + c >= M THEN MulDivLoop(c, L - 1, M, q + 1, r + c - M) ELSE MulDivLoop(c, L - 1, M, q, r + c)
MulDiv(c, L, M) == IF c < 4000000 THEN (c * L) \div M ELSE MulDivLoop(c, L, M, 0, 0)

\* ------------------------------------------------------------------ 1. scaler
\* termscaler.Scale for the linear scaler: floor/ceil of integers are the identity;
\* a degenerate range (max <= min) is widened to [min, min+1]
LinDen(mn, mx) == (IF mx <= mn THEN mn + 1 ELSE mx) - mn
LinScale(v, mn, mx) ==
  IF mx < mn \/ v < mn THEN <<0, 1>>
  ELSE IF v > mx THEN <<1, 1>>
  ELSE <<v - mn, LinDen(mn, mx)>>
UnitOK(u) == u[2] >= 1 /\ 0 <= u[1] /\ u[1] <= u[2]
UnitLe(u, w) == BLe(BP(u[1], w[2]), BP(w[1], u[2]))

\* a float observed as s9 = floor(s * 10^9) agrees with the exact linear value within 10^-9
LinScaleObs9(s9, v, mn, mx) ==
  LET u == LinScale(v, mn, mx)
  IN BLe(BAbs(BSub(BP(s9, u[2]), BP(u[1], 1000000000))), BI(u[2]))

\* termscaler.Bucket: "[0, buckets-1]"; termscaler.LengthVal: "[0, maxLen]"
BucketObs(n, b, u) == n >= 0 /\ n <= b - 1 /\ FloorObs(n, u[1], b - 1, u[2])
LengthObs(n, L, u) == n >= 0 /\ n <= L /\ FloorObs(n, u[1], L, u[2])
BucketExact(b, u) == (u[1] * (b - 1)) \div u[2]       \* small values only (vectors, laws)
LengthExact(L, u) == (u[1] * L) \div u[2]

\* termscaler.ScaleKeys (linear): trunc(min + (max' - min) * i / (b-1)), i = 0..b-1, consecutive
\* duplicates dropped.  d = q*(b-1) + r splits the product so nothing leaves 32 bits.
LinKeyAt(i, b, mn, mx) ==
  LET d == LinDen(mn, mx)
      q == d \div (b - 1)
      r == d % (b - 1)
      A == mn + q * i + (r * i) \div (b - 1)            \* floor of the exact value
      exactInt == (r * i) % (b - 1) = 0
  IN IF A >= 0 \/ exactInt THEN A ELSE A + 1            \* int64(float) truncates toward zero
RECURSIVE DedupAdj(_)
DedupAdj(s) == IF Len(s) <= 1 THEN s
               ELSE IF s[1] = s[2] THEN DedupAdj(Tail(s)) ELSE <<s[1]>> \o DedupAdj(Tail(s))
LinScaleKeys(b, mn, mx) == DedupAdj([j \in 1..b |-> LinKeyAt(j - 1, b, mn, mx)])
StrictlyIncreasing(s) == \A i \in 1..(Len(s) - 1) : s[i] < s[i + 1]

\* -------------------------------------------------------------------- 2. bars
FULL == 9608                       \* U+2588
PIPE == 124
\* termunicode.BarWrite (unicode): n = LengthVal(maxLen * 9, val) sub-cells; n div 9 full blocks and one
\* partial block U+258F..U+2588 for the remainder 1..8
BarRunesUni(n) == Rep(FULL, n \div 9) \o (IF n % 9 > 0 THEN <<9616 - (n % 9)>> ELSE <<>>)
BarRunesAscii(n) == Rep(PIPE, n)
IsBarRune(c, uni) == IF uni THEN c >= 9608 /\ c <= 9615 ELSE c = PIPE
\* sub-cell counts whose drawing is `obs`
UniCands(obs) == {n \in Max2(0, 9 * (Len(obs) - 1))..(9 * Len(obs)) : BarRunesUni(n) = obs}
\* shape and bound: at most maxLen cells, full blocks then at most one partial block
BarShapeOK(obs, maxLen, uni) ==
  IF uni THEN UniCands(obs) # {} /\ Len(obs) <= maxLen
  ELSE obs = Rep(PIPE, Len(obs)) /\ Len(obs) <= maxLen
\* what a reader measures (for "grows with the value")
BarMeasure(obs, uni) ==
  IF ~uni \/ obs = <<>> THEN (IF uni THEN 0 ELSE Len(obs))
  ELSE IF obs[Len(obs)] = FULL THEN 9 * Len(obs) ELSE 9 * (Len(obs) - 1) + (9616 - obs[Len(obs)])
\* proportional: the drawing of floor(u * cells)
BarObs(obs, u, maxLen, uni) ==
  IF uni THEN \E n \in UniCands(obs) : LengthObs(n, 9 * maxLen, u)
  ELSE obs = Rep(PIPE, Len(obs)) /\ LengthObs(Len(obs), maxLen, u)
BarExact(u, maxLen, uni) ==
  IF uni THEN BarRunesUni(LengthExact(9 * maxLen, u)) ELSE BarRunesAscii(LengthExact(maxLen, u))

\* termunicode.BarWriteStacked: segment i asks for trunc(min(v, maxVal) * maxLen / maxVal) cells (integer
\* arithmetic), nothing for a non-positive value or maximum
StackCells(v, maxVal, maxLen) ==
  IF maxVal <= 0 \/ v <= 0 THEN 0 ELSE MulDiv(Min2(v, maxVal), maxLen, maxVal)
AsciiKey(i) == IF (i % 16) < 10 THEN 48 + (i % 16) ELSE 55 + (i % 16)      \* '0'..'9','A'..'F' ; i from 0
GroupColor(i) == <<27, 91, 51, 49 + (i % 6)>> \o (IF (i % 12) >= 6 THEN <<59, 49>> ELSE <<>>) \o <<109>>
ResetSeq == <<27, 91, 48, 109>>
\* the segments share the width: a segment is cut where the bar is full (segments of mixed sign can add up
\* to more than the row total the bar is scaled to)
RECURSIVE StackSegs(_, _, _, _, _)
StackSegs(vals, i, maxVal, maxLen, room) ==
  IF i > Len(vals) THEN <<>>
  ELSE LET n == Min2(StackCells(vals[i], maxVal, maxLen), room)
       IN <<n>> \o StackSegs(vals, i + 1, maxVal, maxLen, room - n)
StackCounts(vals, maxVal, maxLen) == StackSegs(vals, 1, maxVal, maxLen, Max2(maxLen, 0))
StackRaw(vals, maxVal, maxLen, color, uni) ==
  LET n == StackCounts(vals, maxVal, maxLen) IN
  Flatten([i \in 1..Len(vals) |->
    IF color THEN GroupColor(i - 1) \o Rep(IF uni THEN FULL ELSE PIPE, n[i]) \o ResetSeq
    ELSE Rep(AsciiKey(i - 1), n[i])])
StackTotal(vals, maxVal, maxLen) == SeqSum(StackCounts(vals, maxVal, maxLen))

\* ---------------------------------------------------------------- 3. palettes
HeatAsciiLen == 10
HeatColorLen == 16
HeatAscii(idx) == IF idx = 0 THEN 45 ELSE 48 + idx                      \* '-', '1'..'9'
HeatCodes == <<16, 17, 18, 19, 20, 21, 57, 93, 129, 165, 201, 200, 199, 198, 197, 196>>
HeatColorSeq(idx) == <<27, 91, 51, 56, 59, 53, 59>> \o NatDigits(HeatCodes[idx + 1]) \o <<109>>
HeatBlock(uni) == IF uni THEN FULL ELSE 35
HeatRaw(idx, color, uni) == IF color THEN HeatColorSeq(idx) \o <<HeatBlock(uni)>> \o ResetSeq ELSE <<HeatAscii(idx)>>
HeatBuckets(color) == IF color THEN HeatColorLen ELSE HeatAsciiLen
SparkAscii == <<95, 46, 45, 94>>
SparkLen(uni) == IF uni THEN 9 ELSE 4
SparkGlyph(idx, uni) == IF uni THEN (IF idx = 0 THEN 95 ELSE 9600 + idx) ELSE SparkAscii[idx + 1]
SparkIdx(c, uni) ==                                                    \* -1: not a glyph
  IF uni THEN (IF c = 95 THEN 0 ELSE IF c >= 9601 /\ c <= 9608 THEN c - 9600 ELSE -1)
  ELSE IF c = 95 THEN 0 ELSE IF c = 46 THEN 1 ELSE IF c = 45 THEN 2 ELSE IF c = 94 THEN 3 ELSE -1
HeatAsciiIdx(c) == IF c = 45 THEN 0 ELSE IF c >= 49 /\ c <= 57 THEN c - 48 ELSE -1

\* -------------------------------------------------------------------- 4. text
ESC == 27
\* color.StrLen: with colour enabled every rune from ESC up to and including the next 'm' is invisible;
\* with colour disabled every rune counts
RECURSIVE VisFrom(_, _, _)
VisFrom(s, i, inCode) ==
  IF i > Len(s) THEN <<>>
  ELSE IF s[i] = ESC THEN VisFrom(s, i + 1, TRUE)
  ELSE IF inCode THEN VisFrom(s, i + 1, s[i] # 109)
  ELSE <<s[i]>> \o VisFrom(s, i + 1, FALSE)
Vis(s, color) == IF color THEN VisFrom(s, 1, FALSE) ELSE s
VisLen(s, color) == Len(Vis(s, color))
\* the escape sequences of a text, in order (ESC .. 'm')
RECURSIVE EscSeqsFrom(_, _)
EscSeqsFrom(s, i) ==
  LET e == IndexByteFrom(s, ESC, i) IN
  IF e = 0 THEN <<>>
  ELSE LET m == IndexByteFrom(s, 109, e)
       IN IF m = 0 THEN <<SubSeq(s, e, Len(s))>> ELSE <<SubSeq(s, e, m)>> \o EscSeqsFrom(s, m + 1)
EscSeqs(s) == EscSeqsFrom(s, 1)
\* color.Wrap
Wrap(code, s) == code \o s \o (IF HasSuffix(s, ResetSeq) THEN <<>> ELSE ResetSeq)
\* texts whose escape sequences are complete colour sequences ESC [ digits/; m (the domain for keys)
RECURSIVE CleanFrom(_, _)
CleanFrom(s, i) ==
  LET e == IndexByteFrom(s, ESC, i) IN
  IF e = 0 THEN TRUE
  ELSE LET m == IndexByteFrom(s, 109, e)
       IN m # 0 /\ m >= e + 2 /\ s[e + 1] = 91
          /\ (\A j \in (e + 2)..(m - 1) : IsDigit(s[j]) \/ s[j] = 59) /\ CleanFrom(s, m + 1)
CleanText(s) == CleanFrom(s, 1)

\* UTF-8 length of a text
Utf8Len(s) == SeqSum([i \in 1..Len(s) |-> IF s[i] < 128 THEN 1 ELSE IF s[i] < 2048 THEN 2 ELSE IF s[i] < 65536 THEN 3 ELSE 4])

\* humanize.Hi: decimal digits, a comma before every third digit from the right, small numbers as they are
RECURSIVE Group3(_)
Group3(d) == IF Len(d) <= 3 THEN d ELSE Group3(SubSeq(d, 1, Len(d) - 3)) \o <<44>> \o SubSeq(d, Len(d) - 2, Len(d))
Hi(v) == IF v < 0 THEN <<45>> \o Group3(NatDigits(0 - v)) ELSE Group3(NatDigits(v))
\* the chosen formatter: "hi" = termformat.Default, "raw" = termformat.Passthru
Fmt(f, v) == IF f = "raw" THEN Itoa(v) ELSE Hi(v)

\* termformat.FromExpression: a formatter is a function of (value, min, max) - the value and the bounds of what the
\* renderer is drawing at that moment.  A template is a sequence of parts: <<-1>> the value ({0}, {val}), <<-2>> the
\* lower bound ({1}, {min}), <<-3>> the upper bound ({2}, {max}), any other part literal text.  The text is a function
\* of the three arguments of THIS call: nothing an earlier call produced may show through.
PartVal == <<-1>>   PartMin == <<-2>>   PartMax == <<-3>>
FmtPart(p, v, mn, mx) == IF p = PartVal THEN Itoa(v) ELSE IF p = PartMin THEN Itoa(mn) ELSE IF p = PartMax THEN Itoa(mx) ELSE p
FmtTpl(tpl, v, mn, mx) == Flatten([i \in 1..Len(tpl) |-> FmtPart(tpl[i], v, mn, mx)])
\* f: "hi" | "raw" | "tpl"
FmtC(f, tpl, v, mn, mx) == IF f = "tpl" THEN FmtTpl(tpl, v, mn, mx) ELSE Fmt(f, v)
TplReadsBounds(tpl) == \E i \in 1..Len(tpl) : tpl[i] \in {PartMin, PartMax}
PadR(s, n) == s \o Rep(32, n - Len(s))                        \* fmt %-*s: padded by runes, never cut

\* scanning
RECURSIVE SkipSp(_, _)
SkipSp(s, i) == IF i <= Len(s) /\ s[i] = 32 THEN SkipSp(s, i + 1) ELSE i          \* first index >= i that is not a space
RECURSIVE TokEnd(_, _)
TokEnd(s, i) == IF i <= Len(s) /\ s[i] # 32 THEN TokEnd(s, i + 1) ELSE i          \* first index >= i that is a space / end
RECURSIVE BackSp(_, _)
BackSp(s, i) == IF i >= 1 /\ s[i] = 32 THEN BackSp(s, i - 1) ELSE i               \* last index <= i that is not a space
RECURSIVE BackTok(_, _)
BackTok(s, i) == IF i >= 1 /\ s[i] # 32 THEN BackTok(s, i - 1) ELSE i             \* last index <= i that is a space / 0
AllSpaces(s) == \A i \in 1..Len(s) : s[i] = 32

\* ------------------------------------------------------------------ 5. layout
\* `(n more)`: what is not shown
Shown(total, limit) == Min2(total, Max2(limit, 0))
NotShown(total, limit) == total - Shown(total, limit)
MoreNote(n) == <<40>> \o NatDigits(n) \o <<32, 109, 111, 114, 101, 41>>        \* "(n more)"

\* table layout (termrenderers.TableWriter): column i is as wide as its widest visible cell so far;
\* a cell is followed by the padding to that width and one space, so every column starts at the same
\* offset in every row.  cells: visible texts.
TableWidths(rowsOfCells, ncols, w0) ==
  [i \in 1..ncols |->
     SeqMax([r \in 1..Len(rowsOfCells) |-> IF i <= Len(rowsOfCells[r]) THEN Len(rowsOfCells[r][i]) ELSE 0],
            IF i <= Len(w0) THEN w0[i] ELSE 0)]
TableLine(cells, w) ==
  Flatten([i \in 1..Min2(Len(cells), Len(w)) |-> cells[i] \o Rep(32, w[i] - Len(cells[i]) + 1)])
ColStart(w, i) == SeqSum([j \in 1..(i - 1) |-> w[j] + 1])

\* the buffered terminal (multiterm.VirtualTerm) as its reader sees it: a sequence of lines addressed from 0; writing
\* line i makes lines 0..i exist (the ones never written are empty) and changes no other line; nothing is ever removed
VWrite(lines, i, t) ==
  [j \in 1..Max2(Len(lines), i + 1) |-> IF j = i + 1 THEN t ELSE IF j <= Len(lines) THEN lines[j] ELSE <<>>]
VGet(lines, i) == IF i >= 0 /\ i + 1 <= Len(lines) THEN lines[i + 1] ELSE <<>>
RECURSIVE VWrites(_, _)                                         \* ws: sequence of <<line, text>>, applied in order
VWrites(lines, ws) == IF ws = <<>> THEN lines ELSE VWrites(VWrite(lines, ws[1][1], ws[1][2]), Tail(ws))

\* ------------------------------------------------- 6. layout state machines
\* Heatmap.WriteHeader, written like the code: the cursor i walks the displayed columns; names are
\* written where they fit, runs of two dots in between, the last displayable name right-aligned.
\* Returns [txt, steps]; `fuel` bounds the number of loop iterations (TLC shows it is never exhausted).
RECURSIVE HdrLoop(_, _, _, _, _)
HdrLoop(names, colCount, i, acc, fuel) ==
  IF fuel = 0 THEN [txt |-> acc, done |-> FALSE]
  ELSE IF i >= colCount THEN [txt |-> acc, done |-> TRUE]
  ELSE
    LET cnt  == IF i # 0 THEN Min2(colCount - i, 2) ELSE 0
        acc1 == acc \o Rep(46, cnt)
        i1   == i + cnt
    IN IF i # 0 /\ i1 >= colCount THEN [txt |-> acc1, done |-> TRUE]
       ELSE LET name == names[i1 + 1]
                nl   == Len(name)
            IN IF nl = 0 /\ i1 = 0 THEN HdrLoop(names, colCount, 1, acc1 \o <<46>>, fuel - 1)
               ELSE IF i1 # 0 /\ i1 + nl + 2 >= colCount THEN
                 LET last == names[colCount]
                     ind  == colCount - i1 - Len(last)
                 IN [txt |-> acc1 \o Rep(46, Max2(ind, 0)) \o last, done |-> TRUE]
               ELSE HdrLoop(names, colCount, i1 + nl, acc1 \o name, fuel - 1)
HeatHeader(names, limit) ==
  LET cc == Shown(Len(names), limit)
      h  == HdrLoop(names, cc, 0, <<>>, cc + 2)
  IN [txt |-> h.txt \o (IF cc < Len(names) THEN <<32>> \o MoreNote(Len(names) - cc) ELSE <<>>), done |-> h.done]
=============================================================================

------------------------------ MODULE Pipeline ------------------------------
(* Implementation-shaped model of rare's extraction pipeline                      *)
(*                                                                                 *)
(*   opener goroutine   batchers.OpenFilesToChan: for filename { sema<-; wg.Add;  *)
(*                      go reader }; wg.Wait(); close(c)                           *)
(*                      (OpenReaderToChan is the case of one file, TimeFlush=TRUE) *)
(*   reader f           Batcher.syncReaderToBatcher[WithTimeFlush]: scan a line,  *)
(*                      append, cut the batch when full (or when the flush timer  *)
(*                      has expired), final flush of the partial batch, then the  *)
(*                      deferred  <-sema; wg.Done()                                *)
(*   bchan              Batcher.c, capacity BufCap, closed once by the opener      *)
(*   worker w           Extractor.asyncWorker: recv a batch (exit when closed and *)
(*                      drained), processLineSync for every line (atomic          *)
(*                      readLines++, classification, atomic matched/ignored++),    *)
(*                      send the non-empty slice of matches on readChan           *)
(*   closer             go func(){ wg.Wait(); close(readChan) }                    *)
(*   rchan              Extractor.readChan, capacity ReadCap (5 in the code)       *)
(*   consumer           for batch := range ReadChan(); then reads the counters    *)
(*                                                                                 *)
(* Ghost variables (proc, panic) only observe; they are hidden by View.            *)
(* Reused by C02 (bstart / line numbers) and C05 (composition with AggLoop).       *)
EXTENDS PipelineLines     \* CONSTANT Lines; LineIds, ClassOf, Classify

CONSTANTS
  Batch,       \* batch size  >= 1
  Workers,     \* number of worker goroutines >= 1
  Readers,     \* semaphore size (concurrent readers) >= 1
  BufCap,      \* capacity of the batch channel >= 1
  ReadCap,     \* capacity of readChan (5 in extractor.New)
  TimeFlush    \* BOOLEAN: syncReaderToBatcherWithTimeFlush (the clock may cut a batch after any append)

VARIABLES
  onext, opc, sema, wgR,                 \* opener: next file index, pc, semaphore tokens taken, reader WaitGroup
  rpc, pos, rbatch, bstart,              \* reader f: pc, lines scanned, current batch (line ids), batchStart
  bchan, bclosed,                        \* batch channel
  wpc, wcur, widx, wout, wgW,            \* worker w: pc, current batch, index, collected matches; worker WaitGroup
  rchan, rclosed,                        \* match channel
  cpc, got,                              \* consumer: pc, bag of received line ids
  readLines, matchedLines, ignoredLines, \* the three atomic counters
  proc,                                  \* ghost: how many times each line went through classification
  panic                                  \* ghost: "" or the runtime panic the code would have raised

Obs == INSTANCE PipelineObs WITH
  acls  <- [id \in LineIds |-> IF proc[id] = 0 THEN "unread" ELSE ClassOf(id)],
  aemit <- {id \in LineIds : got[id] > 0},
  \* readLines is bumped at the start of processLineSync, the class counter at its end
  aread <- readLines - Cardinality({w \in 1..Workers : wpc[w] = "cls"}),
  amatched <- matchedLines,
  aignored <- ignoredLines,
  adone <- (cpc = "done")

NoBatch == [src |-> 0, start |-> 0, lines |-> <<>>]

vars == <<onext, opc, sema, wgR, rpc, pos, rbatch, bstart, bchan, bclosed,
          wpc, wcur, widx, wout, wgW, rchan, rclosed, cpc, got,
          readLines, matchedLines, ignoredLines, proc, panic>>
\* everything except the ghosts
View == <<onext, opc, sema, wgR, rpc, pos, rbatch, bstart, bchan, bclosed,
          wpc, wcur, widx, wout, wgW, rchan, rclosed, cpc, got,
          readLines, matchedLines, ignoredLines>>

Init ==
  /\ onext = 1 /\ opc = "loop" /\ sema = 0 /\ wgR = 0
  /\ rpc = [f \in 1..NF |-> "idle"]
  /\ pos = [f \in 1..NF |-> 0]
  /\ rbatch = [f \in 1..NF |-> <<>>]
  /\ bstart = [f \in 1..NF |-> 1]
  /\ bchan = <<>> /\ bclosed = FALSE
  /\ wpc = [w \in 1..Workers |-> "recv"]
  /\ wcur = [w \in 1..Workers |-> NoBatch]
  /\ widx = [w \in 1..Workers |-> 0]
  /\ wout = [w \in 1..Workers |-> <<>>]
  /\ wgW = Workers                       \* wg.Add(1) before every `go asyncWorker`
  /\ rchan = <<>> /\ rclosed = FALSE
  /\ cpc = "recv"
  /\ got = [id \in LineIds |-> 0]
  /\ readLines = 0 /\ matchedLines = 0 /\ ignoredLines = 0
  /\ proc = [id \in LineIds |-> 0]
  /\ panic = ""

UNCH_O == UNCHANGED <<onext, opc>>
UNCH_R == UNCHANGED <<rpc, pos, rbatch, bstart>>
UNCH_W == UNCHANGED <<wpc, wcur, widx, wout>>
UNCH_C == UNCHANGED <<cpc, got>>
UNCH_CNT == UNCHANGED <<readLines, matchedLines, ignoredLines, proc>>

\* ------------------------------------------------------------------ opener
\* sema <- struct{}{} ; wg.Add(1) ; go func(filename)   -- Add happens BEFORE the spawn
OpenerStart ==
  /\ opc = "loop" /\ onext <= NF /\ sema < Readers
  /\ sema' = sema + 1 /\ wgR' = wgR + 1
  /\ rpc' = [rpc EXCEPT ![onext] = "scan"]
  /\ onext' = onext + 1
  /\ UNCHANGED <<opc, pos, rbatch, bstart, bchan, bclosed, wgW, rchan, rclosed, panic>>
  /\ UNCH_W /\ UNCH_C /\ UNCH_CNT
\* range over filenames ended
OpenerLoopEnd ==
  /\ opc = "loop" /\ onext > NF
  /\ opc' = "wait"
  /\ UNCHANGED <<onext, sema, wgR, bchan, bclosed, wgW, rchan, rclosed, panic>>
  /\ UNCH_R /\ UNCH_W /\ UNCH_C /\ UNCH_CNT
\* wg.Wait(); out.close()
OpenerClose ==
  /\ opc = "wait" /\ wgR = 0
  /\ opc' = "done"
  /\ bclosed' = TRUE
  /\ panic' = IF bclosed THEN "close of closed channel" ELSE panic
  /\ UNCHANGED <<onext, sema, wgR, bchan, wgW, rchan, rclosed>>
  /\ UNCH_R /\ UNCH_W /\ UNCH_C /\ UNCH_CNT
Opener == OpenerStart \/ OpenerLoopEnd \/ OpenerClose

\* ------------------------------------------------------------------ reader f
\* for readahead.Scan() { batch = append(batch, line); if len(batch) >= batchSize || timer { -> send } }
ReaderScan(f) ==
  /\ rpc[f] = "scan"
  /\ IF pos[f] < Len(Lines[f])
     THEN /\ pos' = [pos EXCEPT ![f] = @ + 1]
          /\ rbatch' = [rbatch EXCEPT ![f] = Append(@, <<f, pos[f] + 1>>)]
          /\ \/ /\ Len(rbatch'[f]) >= Batch
                /\ rpc' = [rpc EXCEPT ![f] = "send"]
             \/ /\ Len(rbatch'[f]) < Batch
                /\ rpc' = rpc
             \/ /\ Len(rbatch'[f]) < Batch /\ TimeFlush       \* time.Since(lastBatchFlush) >= autoFlush
                /\ rpc' = [rpc EXCEPT ![f] = "send"]
     ELSE \* Scan() returned false: final flush of a partial batch
          /\ UNCHANGED <<pos, rbatch>>
          /\ rpc' = [rpc EXCEPT ![f] = IF rbatch[f] # <<>> THEN "final" ELSE "exit"]
  /\ UNCHANGED <<bstart, sema, wgR, bchan, bclosed, wgW, rchan, rclosed, panic>>
  /\ UNCH_O /\ UNCH_W /\ UNCH_C /\ UNCH_CNT
\* s.c <- InputBatch{...}   (blocks while the channel is full)
ReaderSend(f) ==
  /\ rpc[f] \in {"send", "final"}
  /\ Len(bchan) < BufCap \/ bclosed
  /\ IF bclosed
     THEN panic' = "send on closed channel" /\ bchan' = bchan
     ELSE panic' = panic /\
          bchan' = Append(bchan, [src |-> f, start |-> bstart[f], lines |-> rbatch[f]])
  /\ bstart' = [bstart EXCEPT ![f] = @ + Len(rbatch[f])]
  /\ rbatch' = [rbatch EXCEPT ![f] = <<>>]
  /\ rpc' = [rpc EXCEPT ![f] = IF rpc[f] = "send" THEN "scan" ELSE "exit"]
  /\ UNCHANGED <<pos, sema, wgR, bclosed, wgW, rchan, rclosed>>
  /\ UNCH_O /\ UNCH_W /\ UNCH_C /\ UNCH_CNT
\* deferred: <-sema ; wg.Done()
ReaderExit(f) ==
  /\ rpc[f] = "exit"
  /\ rpc' = [rpc EXCEPT ![f] = "done"]
  /\ sema' = sema - 1 /\ wgR' = wgR - 1
  /\ panic' = IF wgR = 0 THEN "negative WaitGroup counter" ELSE panic
  /\ UNCHANGED <<pos, rbatch, bstart, bchan, bclosed, wgW, rchan, rclosed>>
  /\ UNCH_O /\ UNCH_W /\ UNCH_C /\ UNCH_CNT
Reader(f) == ReaderScan(f) \/ ReaderSend(f) \/ ReaderExit(f)

\* ------------------------------------------------------------------ worker w
\* batch, more := <-inputBatch ; if !more { break }      (defer wg.Done())
WorkerRecv(w) ==
  /\ wpc[w] = "recv"
  /\ \/ /\ bchan # <<>>
        /\ wcur' = [wcur EXCEPT ![w] = Head(bchan)]
        /\ bchan' = Tail(bchan)
        /\ widx' = [widx EXCEPT ![w] = 1]
        /\ wout' = [wout EXCEPT ![w] = <<>>]
        /\ wpc' = [wpc EXCEPT ![w] = "line"]
        /\ wgW' = wgW
     \/ /\ bchan = <<>> /\ bclosed
        /\ wpc' = [wpc EXCEPT ![w] = "done"]
        /\ wgW' = wgW - 1
        /\ UNCHANGED <<wcur, widx, wout, bchan>>
  /\ UNCHANGED <<sema, wgR, bclosed, rchan, rclosed, panic>>
  /\ UNCH_O /\ UNCH_R /\ UNCH_C /\ UNCH_CNT
\* processLineSync, first half: atomic.AddUint64(&s.readLines, 1); then the matcher runs
WorkerLine(w) ==
  /\ wpc[w] = "line"
  /\ readLines' = readLines + 1
  /\ wpc' = [wpc EXCEPT ![w] = "cls"]
  /\ UNCHANGED <<wcur, widx, wout, wgW, matchedLines, ignoredLines, proc,
                 sema, wgR, bchan, bclosed, rchan, rclosed, panic>>
  /\ UNCH_O /\ UNCH_R /\ UNCH_C
\* processLineSync, second half: classification, class counter, match appended; loop control of asyncWorker
WorkerClassify(w) ==
  /\ wpc[w] = "cls"
  /\ LET b   == wcur[w]
         id  == b.lines[widx[w]]
         c   == ClassOf(id)
         out == IF c = "matched"
                THEN Append(wout[w], [src |-> b.src, no |-> b.start + widx[w] - 1, id |-> id])
                ELSE wout[w]
     IN /\ matchedLines' = matchedLines + (IF c = "matched" THEN 1 ELSE 0)
        /\ ignoredLines' = ignoredLines + (IF c = "ignored" THEN 1 ELSE 0)
        /\ proc' = [proc EXCEPT ![id] = @ + 1]
        /\ wout' = [wout EXCEPT ![w] = out]
        /\ IF widx[w] < Len(b.lines)
           THEN widx' = [widx EXCEPT ![w] = @ + 1] /\ wpc' = [wpc EXCEPT ![w] = "line"]
           ELSE widx' = widx /\ wpc' = [wpc EXCEPT ![w] = IF out # <<>> THEN "send" ELSE "recv"]
  /\ UNCHANGED <<readLines, wcur, wgW, sema, wgR, bchan, bclosed, rchan, rclosed, panic>>
  /\ UNCH_O /\ UNCH_R /\ UNCH_C
\* if len(matchBatch) > 0 { s.readChan <- matchBatch }
WorkerSend(w) ==
  /\ wpc[w] = "send"
  /\ Len(rchan) < ReadCap \/ rclosed
  /\ IF rclosed
     THEN panic' = "send on closed channel" /\ rchan' = rchan
     ELSE panic' = panic /\ rchan' = Append(rchan, wout[w])
  /\ wpc' = [wpc EXCEPT ![w] = "recv"]
  /\ UNCHANGED <<wcur, widx, wout, wgW, sema, wgR, bchan, bclosed, rclosed>>
  /\ UNCH_O /\ UNCH_R /\ UNCH_C /\ UNCH_CNT
Worker(w) == WorkerRecv(w) \/ WorkerLine(w) \/ WorkerClassify(w) \/ WorkerSend(w)

\* go func() { wg.Wait(); close(extractor.readChan) }()
Closer ==
  /\ wgW = 0 /\ ~rclosed
  /\ rclosed' = TRUE
  /\ UNCHANGED <<sema, wgR, bchan, bclosed, wgW, rchan, panic>>
  /\ UNCH_O /\ UNCH_R /\ UNCH_W /\ UNCH_C /\ UNCH_CNT

\* ------------------------------------------------------------------ consumer
RECURSIVE AddAll(_, _)
AddAll(bag, ms) == IF ms = <<>> THEN bag
                   ELSE AddAll([bag EXCEPT ![ms[1].id] = @ + 1], Tail(ms))
Consumer ==
  /\ cpc = "recv"
  /\ \/ /\ rchan # <<>>
        /\ got' = AddAll(got, Head(rchan))
        /\ rchan' = Tail(rchan)
        /\ cpc' = cpc
     \/ /\ rchan = <<>> /\ rclosed
        /\ cpc' = "done"
        /\ UNCHANGED <<got, rchan>>
  /\ UNCHANGED <<sema, wgR, bchan, bclosed, wgW, rclosed, panic>>
  /\ UNCH_O /\ UNCH_R /\ UNCH_W /\ UNCH_CNT

Terminated == cpc = "done"
Done == Terminated /\ UNCHANGED vars      \* so that the deadlock check stays meaningful

Step == Opener \/ (\E f \in 1..NF : Reader(f)) \/ (\E w \in 1..Workers : Worker(w))
        \/ Closer \/ Consumer
Next == Step \/ Done

Fairness == /\ WF_vars(Opener)
            /\ \A f \in 1..NF : WF_vars(Reader(f))
            /\ \A w \in 1..Workers : WF_vars(Worker(w))
            /\ WF_vars(Closer)
            /\ WF_vars(Consumer)
Spec == Init /\ [][Next]_vars /\ Fairness

\* ------------------------------------------------------------------ invariants
Card(c) == Cardinality(OfClass(c))
Matches(ms) == {ms[i] : i \in DOMAIN ms}
AllInFlightMatches ==
  UNION ({Matches(wout[w]) : w \in 1..Workers} \cup {Matches(rchan[i]) : i \in DOMAIN rchan})

TypeOK ==
  /\ onext \in 1..NF + 1 /\ opc \in {"loop", "wait", "done"}
  /\ sema \in 0..Readers /\ wgR \in 0..NF
  /\ \A f \in 1..NF : /\ rpc[f] \in {"idle", "scan", "send", "final", "exit", "done"}
                      /\ pos[f] \in 0..Len(Lines[f])
                      /\ Len(rbatch[f]) <= Batch
  /\ Len(bchan) <= BufCap /\ Len(rchan) <= ReadCap
  /\ \A w \in 1..Workers : wpc[w] \in {"recv", "line", "cls", "send", "done"}
  /\ wgW \in 0..Workers
  /\ cpc \in {"recv", "done"}
NoPanic == panic = ""
\* the semaphore bounds the number of live readers; the WaitGroup counts them
SemaOK == /\ sema = Cardinality({f \in 1..NF : rpc[f] \in {"scan", "send", "final", "exit"}})
          /\ wgR = sema
\* every line goes through classification at most once, and is delivered at most once
AtMostOnce == \A id \in LineIds : proc[id] <= 1 /\ got[id] <= 1
\* the three atomic counters equal the ghost counts in EVERY state
CountersOK ==
  /\ readLines = Cardinality({id \in LineIds : proc[id] > 0}) + Cardinality({w \in 1..Workers : wpc[w] = "cls"})
  /\ matchedLines = Cardinality({id \in LineIds : proc[id] > 0 /\ ClassOf(id) = "matched"})
  /\ ignoredLines = Cardinality({id \in LineIds : proc[id] > 0 /\ ClassOf(id) = "ignored"})
\* nothing is emitted before it has been classified as matched
EmitOK == \A id \in LineIds : got[id] > 0 => proc[id] > 0 /\ ClassOf(id) = "matched"
\* a line is in exactly one place (conservation): not yet scanned / reader batch / channel / worker / processed
\* C02: every in-flight match carries its true source and line number
LineNoOK == \A m \in AllInFlightMatches : m.src = m.id[1] /\ m.no = m.id[2]
\* when the consumer has seen the channel closed, everything has been processed exactly once and the
\* totals equal the true counts
FinalOK ==
  Terminated =>
    /\ \A id \in LineIds : proc[id] = 1
    /\ readLines = Cardinality(LineIds)
    /\ matchedLines = Card("matched") /\ ignoredLines = Card("ignored")
    /\ readLines = matchedLines + ignoredLines + Card("unmatched")
    /\ \A id \in LineIds : got[id] = (IF ClassOf(id) = "matched" THEN 1 ELSE 0)
    /\ opc = "done" /\ \A f \in 1..NF : rpc[f] = "done"
    /\ \A w \in 1..Workers : wpc[w] = "done"
    /\ bchan = <<>> /\ rchan = <<>>

\* ------------------------------------------------------------------ properties
Refines == Obs!ASpec
\* the safety part of the refinement alone (an action property: no liveness graph needed)
RefinesSafety == Obs!AInit /\ [][Obs!ANext]_Obs!avars
Terminates == <>Terminated
=============================================================================

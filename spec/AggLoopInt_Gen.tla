----------------------------- MODULE AggLoopInt_Gen -----------------------------
(* B1 generator for the interrupt path: every input of up to MaxB batches of up  *)
(* to 2 lines over {0 (no match), 1, 2}, every position p of the signal among    *)
(* the releases (p batches were written when Ctrl-C arrives; p = n + 1: the      *)
(* input was closed and no signal is sent) and W \in {1, 2}, with what           *)
(* AggLoopInt.tla owes at that point: the bound RelBound puts on the final       *)
(* picture (counts of the released batches) and the totals a run without signal  *)
(* must show (NoSigSame).                                                        *)
EXTENDS Integers, Sequences, FiniteSets, SequencesExt, TLC, Json
CONSTANTS MaxB
VARIABLE bs
Init == bs = <<>>
Batches == {<<a>> : a \in 0..2} \cup {<<a, b>> : a \in 0..2, b \in 1..2}
Next == Len(bs) < MaxB /\ \E b \in Batches : bs' = Append(bs, b)
CountIn(s, k) == Cardinality({i \in 1..Len(s) : s[i] = k})
RECURSIVE Upto(_, _, _)
Upto(b, p, k) == IF p = 0 THEN 0 ELSE CountIn(b[p], k) + Upto(b, p - 1, k)
Dump == bs # <<>> =>
        \A p \in 0..(Len(bs) + 1) : \A w \in 1..2 :
          LET q == IF p > Len(bs) THEN Len(bs) ELSE p IN
          PrintT("VFJ " \o ToJson([batches |-> bs, p |-> p, w |-> w, signal |-> p <= Len(bs),
                                   upper |-> [k \in 1..2 |-> Upto(bs, q, k)],
                                   total |-> [k \in 1..2 |-> Upto(bs, Len(bs), k)]]))
=============================================================================

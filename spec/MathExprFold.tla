---------------------------- MODULE MathExprFold ----------------------------
(* C19, second clause: "replacing any numeric constant by a variable bound to   *)
(* the same value (or the reverse) never changes the result, so compile-time    *)
(* simplification is invisible" - and its companion: the value of a formula is  *)
(* a function of the formula and the CURRENT binding only.                      *)
(*                                                                              *)
(* Part 1  an exact model of float64 on the sub-domain where re-association,    *)
(*         distribution and the "obvious" identities are OBSERVABLE: three      *)
(*         binary scales (tiny T = 2^-1021, unit, huge H = 2^1021) with exact   *)
(*         dyadic multipliers, signed zeros, +-Inf and NaN.  Overflow           *)
(*         (q*H with q >= 8), underflow (T*T = 0), absorption (H + 1 = H) and   *)
(*         the sign of zero are what IEEE-754 round-to-nearest dictates, so the *)
(*         arithmetic is NOT associative: (-7H + 7H) + 7H = 7H but              *)
(*         -7H + (7H + 7H) = +Inf;  (T*H)*H = H but T*(H*H) = +Inf;             *)
(*         (H + 1) - H = 0 but 1 + (H - H) = 1.                                 *)
(* Part 2  evaluation = the parse tree, operands left to right (EvalX); the     *)
(*         only simplification the property allows: Simplify folds sub-trees    *)
(*         WITHOUT variables (simplify.go: a probe evaluation that never reads  *)
(*         the context).  Constant leaves <-> variables: Lift / ExtBind /       *)
(*         SubstX; the key of an evaluation (the sequence of values that reach  *)
(*         the leaves), EffKey - two evaluations with equal keys must print the *)
(*         same text whatever object, goroutine, variant or history they come   *)
(*         from.                                                                *)
(* Part 3  negative controls: simplifiers that look harmless and are not        *)
(*         (re-association of trailing/leading constants, commuting a constant  *)
(*         across a variable, distribution, x*0 => 0, x+0 => x, 0-x => -x,      *)
(*         x-x => 0, x/x => 1) and rewrites that ARE invisible (x*1, x/1, x-0,  *)
(*         x^1, --x, a+b => b+a): the check must not flag the second group.     *)
(* Part 4  finite magmas: with an uninterpreted binary operation f on a 2- or   *)
(*         3-element carrier, folding is sound for EVERY f, and folding with    *)
(*         re-association is sound exactly for the associative f.               *)
EXTENDS MathExpr

\* ===================================================================== Part 1
(* A value [c, s, n, d, j]:  c = "fin": s * (n/d) * 2^(1021*j), n > 0, d a      *)
(* power of two <= 1024, j in -1..1 (for j = 1: n/d < 8);  "zero": s*0;         *)
(* "inf": s*Inf; "nan"; "out": outside the model (nothing is expected).         *)
XV(c, s, n, d, j) == [c |-> c, s |-> s, n |-> n, d |-> d, j |-> j]
XNaN == XV("nan", 1, 0, 1, 0)
XOut == XV("out", 1, 0, 1, 0)
XInf(s) == XV("inf", s, 0, 1, 0)
XZero(s) == XV("zero", s, 0, 1, 0)
XLIM == 1000000
\* s * (n/d) * 2^(1021 j), n >= 0, d > 0, rounded as float64 does (exactly, or to Inf / 0)
XMk(s, n, d, j) ==
  IF n = 0 THEN XZero(s)
  ELSE LET g == GCD(n, d)
           n1 == n \div g
           d1 == d \div g
       IN IF j >= 2 THEN XInf(s)                        \* >= 2^-20 * 2^2042
          ELSE IF j <= 0 - 2 THEN XZero(s)               \* <= 2^40 * 2^-2042 < 2^-1075
          ELSE IF ~IsPow2(d1) \/ n1 > XLIM THEN XOut    \* inexact quotient / beyond the table
          ELSE IF j = 1 /\ n1 >= 8 * d1 THEN XInf(s)     \* q * 2^1021 >= 2^1024
          ELSE XV("fin", s, n1, d1, j)
XI(k) == XMk(SgnI(k) + (IF k = 0 THEN 1 ELSE 0), AbsI(k), 1, 0)        \* the integer k
XQ(q) == XMk(IF q[1] < 0 THEN 0 - 1 ELSE 1, AbsI(q[1]), q[2], 0)       \* the rational <<n, d>>
XH(k) == XMk(SgnI(k), AbsI(k), 1, 1)                                  \* k * 2^1021
XT(k) == XMk(SgnI(k), AbsI(k), 1, 0 - 1)                              \* k * 2^-1021
XNeg(x) == IF x.c \in {"nan", "out"} THEN x ELSE [x EXCEPT !.s = 0 - x.s]
XAbs(x) == IF x.c \in {"nan", "out"} THEN x ELSE [x EXCEPT !.s = 1]
XIsNum(x) == x.c \in {"fin", "zero", "inf"}

XAdd(x, y) ==
  IF x.c = "out" \/ y.c = "out" THEN XOut
  ELSE IF x.c = "nan" \/ y.c = "nan" THEN XNaN
  ELSE IF x.c = "inf" THEN (IF y.c = "inf" /\ y.s # x.s THEN XNaN ELSE x)
  ELSE IF y.c = "inf" THEN y
  ELSE IF x.c = "zero" THEN (IF y.c = "zero" THEN XZero(IF x.s < 0 /\ y.s < 0 THEN 0 - 1 ELSE 1) ELSE y)
  ELSE IF y.c = "zero" THEN x
  ELSE IF x.j > y.j THEN x                               \* absorption: |y| < half an ulp of x
  ELSE IF y.j > x.j THEN y
  ELSE LET num == x.s * x.n * y.d + y.s * y.n * x.d IN  \* exact: <= 2 * 10^6 * 1024
       IF num = 0 THEN XZero(1) ELSE XMk(SgnI(num), AbsI(num), x.d * y.d, x.j)
XSub(x, y) == XAdd(x, XNeg(y))
XMul(x, y) ==
  IF x.c = "out" \/ y.c = "out" THEN XOut
  ELSE IF x.c = "nan" \/ y.c = "nan" THEN XNaN
  ELSE IF (x.c = "inf" /\ y.c = "zero") \/ (x.c = "zero" /\ y.c = "inf") THEN XNaN
  ELSE IF x.c = "inf" \/ y.c = "inf" THEN XInf(x.s * y.s)
  ELSE IF x.c = "zero" \/ y.c = "zero" THEN XZero(x.s * y.s)
  ELSE IF ~MulFits(x.n, y.n) THEN XOut
  ELSE XMk(x.s * y.s, x.n * y.n, x.d * y.d, x.j + y.j)
XDiv(x, y) ==
  IF x.c = "out" \/ y.c = "out" THEN XOut
  ELSE IF x.c = "nan" \/ y.c = "nan" THEN XNaN
  ELSE IF (x.c = "inf" /\ y.c = "inf") \/ (x.c = "zero" /\ y.c = "zero") THEN XNaN
  ELSE IF x.c = "inf" \/ y.c = "zero" THEN XInf(x.s * y.s)        \* x/0 = +-Inf, no crash
  ELSE IF x.c = "zero" \/ y.c = "inf" THEN XZero(x.s * y.s)
  ELSE XMk(x.s * y.s, x.n * y.d, x.d * y.n, x.j - y.j)
\* order of two numbers (not NaN): -1, 0, 1; the zeros are equal
XCmp(x, y) ==
  LET cx == IF x.c = "inf" THEN 5 * x.s ELSE IF x.c = "zero" THEN 0 ELSE x.s * (x.j + 2)
      cy == IF y.c = "inf" THEN 5 * y.s ELSE IF y.c = "zero" THEN 0 ELSE y.s * (y.j + 2)
  IN IF cx # cy THEN SgnI(cx - cy)
     ELSE IF x.c # "fin" THEN 0
     ELSE SgnI(x.s * (x.n * y.d - y.n * x.d))
XTruthy(x) == x.c # "zero"                               \* val != 0.0: NaN is "true"
XB(b) == IF b THEN XI(1) ELSE XZero(1)
XCmpOp(op, x, y) ==
  IF x.c = "out" \/ y.c = "out" THEN XOut
  ELSE IF x.c = "nan" \/ y.c = "nan" THEN XZero(1)       \* every comparison with NaN is false
  ELSE LET c == XCmp(x, y) IN
       XB(CASE op \in {"==", "="} -> c = 0 [] op = "<" -> c < 0 [] op = "<=" -> c <= 0
            [] op = ">" -> c > 0 [] op = ">=" -> c >= 0)
\* math.Pow: x^0 = 1 and x^1 = x for every x (NaN included); small integer powers of unit-scale numbers
XPow(x, y) ==
  IF x.c = "out" \/ y.c = "out" THEN XOut
  ELSE IF y.c = "zero" THEN XI(1)
  ELSE IF y = XI(1) THEN x
  ELSE IF y.c = "fin" /\ y.j = 0 /\ y.d = 1 /\ y.s = 1 /\ y.n <= 8 THEN
       IF x.c = "zero" THEN XZero(IF y.n % 2 = 1 THEN x.s ELSE 1)
       ELSE IF x.c = "fin" /\ x.j = 0 THEN
            LET pn == IPow(x.n, y.n)
                pd == IPow(x.d, y.n) IN
            IF pn < 0 \/ pd < 0 THEN XOut ELSE XMk(IF y.n % 2 = 1 THEN x.s ELSE 1, pn, pd, 0)
       ELSE XOut
  ELSE XOut
\* % << >> & | truncate to int64: modelled on non-negative unit-scale integers and zeros (as MathExpr!RInt)
XIntOf(x) == IF x.c = "zero" THEN 0 ELSE IF x.c = "fin" /\ x.j = 0 /\ x.d = 1 /\ x.s = 1 THEN x.n ELSE 0 - 1
XIntOp(op, x, y) ==
  LET a == XIntOf(x)
      b == XIntOf(y) IN
  IF a < 0 \/ b < 0 THEN XOut
  ELSE CASE op = "%" -> IF b > 0 THEN XI(a % b) ELSE XOut               \* divisor 0: only "no crash"
         [] op = "<<" -> IF b <= 20 /\ a <= XLIM \div P2(b) THEN XI(a * P2(b)) ELSE XOut
         [] op = ">>" -> IF b > 62 THEN XOut ELSE IF b > 20 THEN XI(0) ELSE XI(a \div P2(b))
         [] op = "&" -> XI(BitAnd(a, b))
         [] op = "|" -> XI(BitOr(a, b))
XBin(op, x, y) ==
  CASE op = "+" -> XAdd(x, y) [] op = "-" -> XSub(x, y) [] op = "*" -> XMul(x, y) [] op = "/" -> XDiv(x, y)
    [] op = "^" -> XPow(x, y)
    [] op \in {"%", "<<", ">>", "&", "|"} -> XIntOp(op, x, y)
    [] op \in CmpOps -> XCmpOp(op, x, y)
    [] op = "&&" -> IF x.c = "out" \/ y.c = "out" THEN XOut ELSE XB(XTruthy(x) /\ XTruthy(y))
    [] op = "||" -> IF x.c = "out" \/ y.c = "out" THEN XOut ELSE XB(XTruthy(x) \/ XTruthy(y))
\* floor / ceil / round keep the sign of a zero result (ceil(-0.5) = -0); ties of round are not documented
XRnd(op, x) ==
  IF x.c # "fin" THEN x
  ELSE IF x.j = 1 THEN x                                 \* a multiple of 2^1011: an integer
  ELSE LET lo == IF x.j = 0 THEN x.n \div x.d ELSE 0       \* |x| = lo + frac
           frac == x.j < 0 \/ x.n % x.d # 0
           up == IF op = "floor" THEN x.s < 0 /\ frac
                 ELSE IF op = "ceil" THEN x.s > 0 /\ frac
                 ELSE x.j = 0 /\ 2 * (x.n % x.d) > x.d
           m == lo + (IF up THEN 1 ELSE 0)
       IN IF op = "round" /\ x.j = 0 /\ 2 * (x.n % x.d) = x.d THEN XOut
          ELSE XMk(x.s, m, 1, 0)
XUn(op, x) ==
  IF x.c = "out" THEN XOut
  ELSE CASE op = "-" -> XNeg(x)
         [] op = "abs" -> XAbs(x)
         [] op = "!" -> XB(~XTruthy(x))
         [] op \in {"floor", "ceil", "round"} -> XRnd(op, x)
         [] OTHER -> XOut                                \* sqrt, trigonometry, logarithms: no value model

\* ===================================================================== Part 2
(* Leaves: Var(i); Cst(i) = the numeric literal number i of the value table     *)
(* (what the formula text contains is decided by the driver: the decimal        *)
(* expansion of the table value); Cv(v) = a folded constant.                    *)
Cst(i) == [k |-> "xc", i |-> i]
Cv(v) == [k |-> "cv", v |-> v]
\* tab: the value table (a sequence of non-negative finite values); bind: the values of the variables
RECURSIVE EvalX(_, _, _)
EvalX(t, tab, bind) ==
  CASE t.k = "xc" -> tab[t.i]
    [] t.k = "cv" -> t.v
    [] t.k = "num" -> XQ(t.q)
    [] t.k = "var" -> IF t.i \in DOMAIN bind THEN bind[t.i] ELSE XOut
    [] t.k = "un" -> XUn(t.op, EvalX(t.a, tab, bind))
    [] t.k = "bin" -> XBin(t.op, EvalX(t.l, tab, bind), EvalX(t.r, tab, bind))
RECURSIVE VarFreeX(_)
VarFreeX(t) == CASE t.k = "var" -> FALSE [] t.k = "un" -> VarFreeX(t.a)
                 [] t.k = "bin" -> VarFreeX(t.l) /\ VarFreeX(t.r) [] OTHER -> TRUE
\* the simplification the property allows: a sub-tree without variables becomes its value
RECURSIVE Simplify(_, _)
Simplify(t, tab) ==
  IF VarFreeX(t) THEN Cv(EvalX(t, tab, <<>>))
  ELSE CASE t.k = "un" -> Un(t.op, Simplify(t.a, tab))
         [] t.k = "bin" -> Bin(t.op, Simplify(t.l, tab), Simplify(t.r, tab))
         [] OTHER -> t

\* constant leaves in reading order; Lift turns those whose ordinal is in S into the fresh variables NV0+ordinal
NV0 == 2
RECURSIVE NC(_), ConstIdx(_), Lift(_, _, _)
NC(t) == CASE t.k = "xc" -> 1 [] t.k = "un" -> NC(t.a) [] t.k = "bin" -> NC(t.l) + NC(t.r) [] OTHER -> 0
ConstIdx(t) == CASE t.k = "xc" -> <<t.i>> [] t.k = "un" -> ConstIdx(t.a)
                 [] t.k = "bin" -> ConstIdx(t.l) \o ConstIdx(t.r) [] OTHER -> <<>>
Lift(t, S, off) ==
  CASE t.k = "xc" -> IF off + 1 \in S THEN Var(NV0 + off + 1) ELSE t
    [] t.k = "un" -> Un(t.op, Lift(t.a, S, off))
    [] t.k = "bin" -> Bin(t.op, Lift(t.l, S, off), Lift(t.r, S, off + NC(t.l)))
    [] OTHER -> t
\* the binding of a lifted variant: x, y as before, then one variable per constant leaf, bound to its value
ExtBind(t, tab, bind) == LET ci == ConstIdx(t) IN
  [v \in 1..(NV0 + Len(ci)) |-> IF v <= NV0 THEN (IF v \in DOMAIN bind THEN bind[v] ELSE XOut) ELSE tab[ci[v - NV0]]]
\* variables -> the constants they are bound to (a literal has no sign: -c is written (-c)); the constant is the
\* table entry holding |value|
Spellable(v) == v.c \in {"fin", "zero"}
HasIdx(tab, v) == \E i \in DOMAIN tab : tab[i] = v
IdxOfV(tab, v) == CHOOSE i \in DOMAIN tab : tab[i] = v
RECURSIVE SubstX(_, _, _), CanSubst(_, _, _), HasVar(_)
HasVar(t) == ~VarFreeX(t)
CanSubst(t, tab, bind) ==
  CASE t.k = "var" -> t.i \in DOMAIN bind /\ Spellable(bind[t.i]) /\ HasIdx(tab, XAbs(bind[t.i]))
    [] t.k = "un" -> CanSubst(t.a, tab, bind) [] t.k = "bin" -> CanSubst(t.l, tab, bind) /\ CanSubst(t.r, tab, bind)
    [] OTHER -> TRUE
SubstX(t, tab, bind) ==
  CASE t.k = "var" -> IF bind[t.i].s < 0 THEN Un("-", Cst(IdxOfV(tab, XAbs(bind[t.i])))) ELSE Cst(IdxOfV(tab, bind[t.i]))
    [] t.k = "un" -> Un(t.op, SubstX(t.a, tab, bind))
    [] t.k = "bin" -> Bin(t.op, SubstX(t.l, tab, bind), SubstX(t.r, tab, bind))
    [] OTHER -> t
\* the same for printing: variable v becomes the placeholder group ( $v ), which the driver fills with the
\* decimal expansion of the bound value (with a leading - when negative)
RECURSIVE SubstP(_)
SubstP(t) == CASE t.k = "var" -> Var(6 + t.i)
               [] t.k = "un" -> Un(t.op, SubstP(t.a))
               [] t.k = "bin" -> Bin(t.op, SubstP(t.l), SubstP(t.r))
               [] OTHER -> t

(* The key of an evaluation: what reaches the leaves, in reading order - an     *)
(* identifier per leaf: cid[i] names the value of table entry i, bid[v] the     *)
(* value bound to variable v.  The property: equal keys => equal result text,   *)
(* whatever object, goroutine, variant or history the evaluation comes from.    *)
RECURSIVE EffKey(_, _, _)
EffKey(t, cid, bid) ==
  CASE t.k = "xc" -> <<cid[t.i]>>
    [] t.k = "var" -> <<bid[t.i]>>
    [] t.k = "un" -> EffKey(t.a, cid, bid)
    [] t.k = "bin" -> EffKey(t.l, cid, bid) \o EffKey(t.r, cid, bid)
    [] OTHER -> <<>>

\* the shape handed to MathExpr's printer: literal number i stands for "table entry i"
RECURSIVE ShapeOf(_)
ShapeOf(t) == CASE t.k = "xc" -> Num(<<t.i, 1>>)
                [] t.k = "un" -> Un(t.op, ShapeOf(t.a))
                [] t.k = "bin" -> Bin(t.op, ShapeOf(t.l), ShapeOf(t.r))
                [] OTHER -> t
RECURSIVE Mark(_)
Mark(toks) ==
  IF toks = <<>> THEN <<>>
  ELSE (IF toks[1] = "r" THEN <<"(", "$1", ")">> ELSE IF toks[1] = "s" THEN <<"(", "$2", ")">>
        ELSE IF InSeq(toks[1], LitD) THEN <<"#" \o toks[1]>> ELSE <<toks[1]>>) \o Mark(Tail(toks))
PrintX(t, par) == Mark(PrintF(ShapeOf(t), [par |-> par, imp |-> FALSE, num |-> "d", var |-> "bare"]))

\* ===================================================================== Part 3
IsC(t) == t.k \in {"xc", "cv"}
FoldC(op, a, b, tab) == Cv(XBin(op, EvalX(a, tab, <<>>), EvalX(b, tab, <<>>)))
Assoc2 == {"+", "*"}
\* (e op c1) op c2 => e op (c1 op c2)          [the seeded change C19-1]
ReTrail(t, tab) ==
  IF t.k = "bin" /\ t.op \in Assoc2 /\ t.l.k = "bin" /\ t.l.op = t.op /\ IsC(t.l.r) /\ IsC(t.r) /\ ~VarFreeX(t.l.l)
  THEN Bin(t.op, t.l.l, FoldC(t.op, t.l.r, t.r, tab)) ELSE t
\* (c1 op e) op c2 => e op (c1 op c2)          [commute a constant across the variable part]
ReAcross(t, tab) ==
  IF t.k = "bin" /\ t.op \in Assoc2 /\ t.l.k = "bin" /\ t.l.op = t.op /\ IsC(t.l.l) /\ IsC(t.r) /\ ~VarFreeX(t.l.r)
  THEN Bin(t.op, t.l.r, FoldC(t.op, t.l.l, t.r, tab)) ELSE t
\* c1 op (c2 op e) => (c1 op c2) op e
ReLead(t, tab) ==
  IF t.k = "bin" /\ t.op \in Assoc2 /\ t.r.k = "bin" /\ t.r.op = t.op /\ IsC(t.l) /\ IsC(t.r.l) /\ ~VarFreeX(t.r.r)
  THEN Bin(t.op, FoldC(t.op, t.l, t.r.l, tab), t.r.r) ELSE t
\* (e - c1) - c2 => e - (c1 + c2) ;  (e / c1) / c2 => e / (c1 * c2) ;  (e + c1) - c2 => e + (c1 - c2)
ReMixed(t, tab) ==
  IF t.k = "bin" /\ t.l.k = "bin" /\ IsC(t.l.r) /\ IsC(t.r) /\ ~VarFreeX(t.l.l) THEN
       IF t.op = "-" /\ t.l.op = "-" THEN Bin("-", t.l.l, FoldC("+", t.l.r, t.r, tab))
       ELSE IF t.op = "/" /\ t.l.op = "/" THEN Bin("/", t.l.l, FoldC("*", t.l.r, t.r, tab))
       ELSE IF t.op = "-" /\ t.l.op = "+" THEN Bin("+", t.l.l, FoldC("-", t.l.r, t.r, tab))
       ELSE IF t.op = "/" /\ t.l.op = "*" THEN Bin("*", t.l.l, FoldC("/", t.l.r, t.r, tab))
       ELSE t
  ELSE t
\* (a + b) * c => a*c + b*c
Distribute(t) ==
  IF t.k = "bin" /\ t.op = "*" /\ t.l.k = "bin" /\ t.l.op \in {"+", "-"}
  THEN Bin(t.l.op, Bin("*", t.l.l, t.r), Bin("*", t.l.r, t.r)) ELSE t
IsZeroC(t, tab) == IsC(t) /\ EvalX(t, tab, <<>>) = XZero(1)
IsOneC(t, tab) == IsC(t) /\ EvalX(t, tab, <<>>) = XI(1)
\* the identities of real numbers that float64 does NOT have
BadIdent(t, tab) ==
  IF t.k # "bin" THEN t
  ELSE IF t.op = "*" /\ (IsZeroC(t.r, tab) \/ IsZeroC(t.l, tab)) THEN Cv(XZero(1))      \* x*0 => 0
  ELSE IF t.op = "+" /\ IsZeroC(t.r, tab) THEN t.l                                      \* x+0 => x
  ELSE IF t.op = "+" /\ IsZeroC(t.l, tab) THEN t.r                                      \* 0+x => x
  ELSE IF t.op = "-" /\ IsZeroC(t.l, tab) THEN Un("-", t.r)                             \* 0-x => -x
  ELSE IF t.op = "-" /\ t.l = t.r THEN Cv(XZero(1))                                     \* x-x => 0
  ELSE IF t.op = "/" /\ t.l = t.r THEN Cv(XI(1))                                        \* x/x => 1
  ELSE t
\* rewrites that no evaluation can see: the check must accept an implementation that performs them
GoodIdent(t, tab) ==
  IF t.k = "bin" THEN
       IF t.op \in {"*", "/", "^"} /\ IsOneC(t.r, tab) THEN t.l                        \* x*1, x/1, x^1 => x
       ELSE IF t.op = "*" /\ IsOneC(t.l, tab) THEN t.r                                 \* 1*x => x
       ELSE IF t.op = "-" /\ IsZeroC(t.r, tab) THEN t.l                                \* x-0 => x
       ELSE IF t.op \in {"+", "*"} THEN Bin(t.op, t.r, t.l)                            \* a+b => b+a
       ELSE t
  ELSE IF t.k = "un" /\ t.op = "-" /\ t.a.k = "un" /\ t.a.op = "-" THEN t.a.a          \* --x => x
  ELSE IF t.k = "un" /\ t.op = "abs" /\ t.a.k = "un" /\ t.a.op \in {"-", "abs"} THEN Un("abs", t.a.a)
  ELSE t
\* a rewrite applied at every node, bottom-up
Controls == {"trail", "across", "lead", "mixed", "distribute", "ident"}
Rewrite(name, t, tab) ==
  CASE name = "trail" -> ReTrail(t, tab) [] name = "across" -> ReAcross(t, tab) [] name = "lead" -> ReLead(t, tab)
    [] name = "mixed" -> ReMixed(t, tab) [] name = "distribute" -> Distribute(t) [] name = "ident" -> BadIdent(t, tab)
    [] name = "good" -> GoodIdent(t, tab)
RECURSIVE Everywhere(_, _, _)
Everywhere(name, t, tab) ==
  CASE t.k = "un" -> Rewrite(name, Un(t.op, Everywhere(name, t.a, tab)), tab)
    [] t.k = "bin" -> Rewrite(name, Bin(t.op, Everywhere(name, t.l, tab), Everywhere(name, t.r, tab)), tab)
    [] OTHER -> t
Unsound(name, t, tab) == Everywhere(name, Simplify(t, tab), tab)
Harmless(t, tab) == Everywhere("good", Simplify(t, tab), tab)

\* ----- the laws on one tree (checked for every enumerated tree by MathExprFold_MC / _Gen)
FoldSound(t, tab, bind) == EvalX(Simplify(t, tab), tab, bind) = EvalX(t, tab, bind)
LiftSets(t) == IF NC(t) <= 3 THEN SUBSET (1..NC(t)) ELSE {{}, 1..NC(t)} \cup {{i} : i \in 1..NC(t)}
LiftSound(t, tab, bind) ==
  \A S \in LiftSets(t) : EvalX(Simplify(Lift(t, S, 0), tab), tab, ExtBind(t, tab, bind)) = EvalX(t, tab, bind)
\* lifting does not change what reaches the leaves (the key of MathExprFold_Trace)
LiftKeySound(t, tab) ==
  \A S \in LiftSets(t) :
    LET ci == ConstIdx(t)
        vs == 1..(NV0 + Len(ci))
        cid == [i \in DOMAIN tab |-> <<"c", i>>] IN
    EffKey(Lift(t, S, 0), cid, [v \in vs |-> IF v <= NV0 THEN <<"b", v>> ELSE <<"c", ci[v - NV0]>>])
      = EffKey(t, cid, [v \in vs |-> <<"b", v>>])
SubstSound(t, tab, bind) ==
  CanSubst(t, tab, bind) =>
    /\ VarFreeX(SubstX(t, tab, bind))
    /\ EvalX(Simplify(SubstX(t, tab, bind), tab), tab, <<>>) = EvalX(t, tab, bind)
HarmlessSound(t, tab, bind) ==
  LET a == EvalX(Harmless(t, tab), tab, bind)
      b == EvalX(t, tab, bind) IN a = b \/ b.c = "out" \/ a.c = "out"
Tells(name, t, tab, bind) ==
  LET a == EvalX(Unsound(name, t, tab), tab, bind)
      b == EvalX(t, tab, bind) IN a # b /\ a.c # "out" /\ b.c # "out"

\* ===================================================================== Part 4
(* Uninterpreted arithmetic: trees over ONE binary operation f on the carrier   *)
(* 0..n-1 (leaves: constants of the carrier and variables).                     *)
RECURSIVE EvalM(_, _, _)
EvalM(t, f, bind) ==
  CASE t.k = "xc" -> t.i
    [] t.k = "cv" -> t.v
    [] t.k = "var" -> bind[t.i]
    [] t.k = "bin" -> f[EvalM(t.l, f, bind), EvalM(t.r, f, bind)]
RECURSIVE SimplifyM(_, _)
SimplifyM(t, f) ==
  IF VarFreeX(t) THEN Cv(EvalM(t, f, <<>>))
  ELSE IF t.k = "bin" THEN Bin(t.op, SimplifyM(t.l, f), SimplifyM(t.r, f)) ELSE t
ReTrailM(t, f) ==
  IF t.k = "bin" /\ t.l.k = "bin" /\ IsC(t.l.r) /\ IsC(t.r) /\ ~VarFreeX(t.l.l)
  THEN Bin(t.op, t.l.l, Cv(f[EvalM(t.l.r, f, <<>>), EvalM(t.r, f, <<>>)])) ELSE t
RECURSIVE EverywhereM(_, _)
EverywhereM(t, f) ==
  IF t.k = "bin" THEN ReTrailM(Bin(t.op, EverywhereM(t.l, f), EverywhereM(t.r, f)), f) ELSE t
AssocM(f, C) == \A a \in C, b \in C, c \in C : f[f[a, b], c] = f[a, f[b, c]]
=============================================================================

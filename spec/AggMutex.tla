------------------------------- MODULE AggMutex -------------------------------
(* C05, clause "a render never runs while a match is being sampled" (and "the    *)
(* final render happens after the periodic renderer is gone"), PROVED with TLAPS  *)
(* for executions of any length: any number of match batches of any size, any     *)
(* number of ticks.  The module is AggLoop.tla reduced to what the clause depends *)
(* on - the main loop, the ticker goroutine, outputMutex and the unbuffered       *)
(* outputDone rendezvous of cmd/helpers/updatingAggregator.go; producers are      *)
(* abstracted to "a batch of n > 0 matches may arrive, or the channel is closed"  *)
(* (AggLoop.tla, checked by TLC, shows the concrete producers refine this).       *)
(* The action names are those of AggLoop.tla.                                     *)
EXTENDS Naturals, TLAPS
VARIABLES mpc, tpc, mutex, pending
vars == <<mpc, tpc, mutex, pending>>

Init == mpc = "select" /\ tpc = "select" /\ mutex = "free" /\ pending = 0

MRecv ==    /\ mpc = "select" /\ mpc' = "lock" /\ pending' \in Nat \ {0} /\ UNCHANGED <<tpc, mutex>>
MClosed ==  /\ mpc = "select" /\ mpc' = "sendDone" /\ UNCHANGED <<tpc, mutex, pending>>
MLock ==    /\ mpc = "lock" /\ mutex = "free" /\ mutex' = "main" /\ mpc' = "sample" /\ UNCHANGED <<tpc, pending>>
MSEnter ==  /\ mpc = "sample" /\ pending > 0 /\ mpc' = "sampling" /\ UNCHANGED <<tpc, mutex, pending>>
MSExit ==   /\ mpc = "sampling" /\ pending' = pending - 1 /\ mpc' = "sample" /\ UNCHANGED <<tpc, mutex>>
MUnlock ==  /\ mpc = "sample" /\ pending = 0 /\ mutex' = "free" /\ mpc' = "select" /\ UNCHANGED <<tpc, pending>>
DoneRendezvous == /\ mpc = "sendDone" /\ tpc = "select" /\ mpc' = "final" /\ tpc' = "exit" /\ UNCHANGED <<mutex, pending>>
MFinalEnter == /\ mpc = "final" /\ mpc' = "finalR" /\ UNCHANGED <<tpc, mutex, pending>>
MFinalExit ==  /\ mpc = "finalR" /\ mpc' = "retp" /\ UNCHANGED <<tpc, mutex, pending>>
MRet ==        /\ mpc = "retp" /\ mpc' = "ret" /\ UNCHANGED <<tpc, mutex, pending>>
TTick ==    /\ tpc = "select" /\ tpc' = "lock" /\ UNCHANGED <<mpc, mutex, pending>>
TRender ==  /\ tpc = "lock" /\ mutex = "free" /\ mutex' = "tick" /\ tpc' = "render" /\ UNCHANGED <<mpc, pending>>
TUnlock ==  /\ tpc = "render" /\ mutex' = "free" /\ tpc' = "select" /\ UNCHANGED <<mpc, pending>>

Next == \/ MRecv \/ MClosed \/ MLock \/ MSEnter \/ MSExit \/ MUnlock \/ DoneRendezvous
        \/ MFinalEnter \/ MFinalExit \/ MRet \/ TTick \/ TRender \/ TUnlock
Spec == Init /\ [][Next]_vars

TypeOK == /\ mpc \in {"select", "lock", "sample", "sampling", "sendDone", "final", "finalR", "retp", "ret"}
          /\ tpc \in {"select", "lock", "render", "exit"}
          /\ mutex \in {"free", "main", "tick"}
          /\ pending \in Nat
\* the clause
Excl == /\ ~(mpc \in {"sample", "sampling"} /\ tpc = "render")      \* no render while a match is being sampled
        /\ ~(mpc = "finalR" /\ tpc = "render")                      \* the two renderers never overlap
        /\ (mpc \in {"finalR", "retp", "ret"} => tpc = "exit")      \* the final render comes after the ticker is gone
IndInv == /\ TypeOK
          /\ (mutex = "main") <=> (mpc \in {"sample", "sampling"})
          /\ (mutex = "tick") <=> (tpc = "render")
          /\ (tpc = "exit") <=> (mpc \in {"final", "finalR", "retp", "ret"})
          /\ (mpc = "sampling" => pending > 0)

THEOREM Safety == Spec => []Excl
<1>1. Init => IndInv
  BY DEF Init, IndInv, TypeOK
<1>2. IndInv /\ [Next]_vars => IndInv'
  <2> SUFFICES ASSUME IndInv, [Next]_vars PROVE IndInv'
    OBVIOUS
  <2>1. CASE MRecv BY <2>1 DEF IndInv, TypeOK, MRecv
  <2>2. CASE MClosed BY <2>2 DEF IndInv, TypeOK, MClosed
  <2>3. CASE MLock BY <2>3 DEF IndInv, TypeOK, MLock
  <2>4. CASE MSEnter BY <2>4 DEF IndInv, TypeOK, MSEnter
  <2>5. CASE MSExit BY <2>5 DEF IndInv, TypeOK, MSExit
  <2>6. CASE MUnlock BY <2>6 DEF IndInv, TypeOK, MUnlock
  <2>7. CASE DoneRendezvous BY <2>7 DEF IndInv, TypeOK, DoneRendezvous
  <2>8. CASE MFinalEnter BY <2>8 DEF IndInv, TypeOK, MFinalEnter
  <2>9. CASE MFinalExit BY <2>9 DEF IndInv, TypeOK, MFinalExit
  <2>10. CASE MRet BY <2>10 DEF IndInv, TypeOK, MRet
  <2>11. CASE TTick BY <2>11 DEF IndInv, TypeOK, TTick
  <2>12. CASE TRender BY <2>12 DEF IndInv, TypeOK, TRender
  <2>13. CASE TUnlock BY <2>13 DEF IndInv, TypeOK, TUnlock
  <2>14. CASE UNCHANGED vars BY <2>14 DEF IndInv, TypeOK, vars
  <2> QED BY <2>1, <2>2, <2>3, <2>4, <2>5, <2>6, <2>7, <2>8, <2>9, <2>10, <2>11, <2>12, <2>13, <2>14 DEF Next
<1>3. IndInv => Excl
  BY DEF IndInv, Excl, TypeOK
<1> QED
  BY <1>1, <1>2, <1>3, PTL DEF Spec
=============================================================================

----------------------- MODULE ExprSyntaxHist_Trace -----------------------
(* B2 for the history layer of C09: recorded HISTORIES of real key builders.     *)
(* One history = one long-lived pair of key builders (optimising / not):         *)
(*   {op "new"}                         a fresh pair, base functions registered  *)
(*   {op "func", name, ver}             KeyBuilder.Func on both                  *)
(*   {op "compile", tpl, text, out, errs, errn, out2, errs2, errn2, panic}       *)
(*                                      Compile + evaluation on both             *)
(*   {op "end", re, re2, re3, panic}    every template compiled in this history  *)
(*                                      evaluated once more (re3: by a third     *)
(*                                      builder that went through the same       *)
(*                                      history and evaluates only now)          *)
(* The driver draws the templates of a history from a common pool of arguments   *)
(* (well-formed and malformed), so the same argument text is compiled many times *)
(* by the same builder, with registrations in between.                           *)
(* The trace specification tracks the function table like ExprSyntaxHist.tla and *)
(* judges every Compile by the history-free laws under the table of the moment:  *)
(* the outcome may depend on nothing else.  It is total; what it cannot explain  *)
(* is collected in `bad`.                                                        *)
EXTENDS ExprSyntax, Json

Trace == ndJsonDeserialize("trace.ndjson")

VARIABLES l, ft, exp, bad, nontrivial
tvars == <<l, ft, exp, bad, nontrivial>>

ErrsOKF(tpl, F, es) == ErrLowerF(tpl, F) \subseteq es /\ es \subseteq ErrUpperF(tpl, F)
CountsOKF(tpl, F, en) == \A cl \in ErrClasses : en[cl] >= ErrLowCntF(tpl, F, cl)

ClassC(r, tab) ==
  LET F == DOMAIN tab IN
  IF r.panic THEN "panic"
  ELSE IF ~WFTpl(r.tpl) THEN "harness-wf"
  ELSE IF PrintTpl(r.tpl) # r.text THEN "harness-print"
  ELSE IF MutatedF(r.tpl, F) THEN
    IF ~ErrClassOKF(r.tpl, tab) THEN "model"
    ELSE IF ~ErrsOKF(r.tpl, F, ToSet(r.errs)) \/ ~ErrsOKF(r.tpl, F, ToSet(r.errs2)) THEN "errs"
    ELSE IF ~CountsOKF(r.tpl, F, r.errn) \/ ~CountsOKF(r.tpl, F, r.errn2) THEN "errcount"
    ELSE "ok"
  ELSE
    IF ~RoundTripOKF(r.tpl, tab) THEN "model"
    ELSE IF r.errs # <<>> \/ r.errs2 # <<>> THEN "errs"
    ELSE IF r.out # Spell(StripTF(r.tpl, tab)) \/ r.out2 # Spell(StripTF(r.tpl, tab)) THEN "out"
    ELSE "ok"

\* what a compiled template has to evaluate to for the rest of the history (well-formed templates only)
ExpOf(r, tab) ==
  IF ~r.panic /\ WFTpl(r.tpl) /\ ~MutatedF(r.tpl, DOMAIN tab)
  THEN [chk |-> TRUE, out |-> Spell(StripTF(r.tpl, tab))] ELSE [chk |-> FALSE, out |-> <<>>]

ClassE(r, e) ==
  IF r.panic THEN "panic"
  ELSE IF Len(r.re) # Len(e) \/ Len(r.re2) # Len(e) \/ Len(r.re3) # Len(e) THEN "harness-end"
  ELSE IF \E i \in 1..Len(e) : e[i].chk /\ (r.re[i] # e[i].out \/ r.re2[i] # e[i].out \/ r.re3[i] # e[i].out) THEN "reeval"
  ELSE "ok"

TInit == l = 1 /\ ft = BaseFt /\ exp = <<>> /\ bad = <<>> /\ nontrivial = 0
TNext ==
  /\ l <= Len(Trace)
  /\ l' = l + 1
  /\ LET r == Trace[l] IN
     CASE r.op = "new" ->
            /\ ft' = BaseFt /\ exp' = <<>> /\ UNCHANGED <<bad, nontrivial>>
       [] r.op = "func" ->
            /\ ft' = (r.name :> r.ver) @@ ft /\ UNCHANGED <<exp, bad, nontrivial>>
       [] r.op = "compile" ->
            /\ \E cl \in {ClassC(r, ft)} :
                 bad' = IF cl = "ok" THEN bad ELSE Append(bad, [t |-> l, l |-> l, class |-> cl])
            /\ exp' = Append(exp, ExpOf(r, ft))
            /\ nontrivial' = nontrivial + 1
            /\ UNCHANGED ft
       [] OTHER ->
            /\ \E cl \in {ClassE(r, exp)} :
                 bad' = IF cl = "ok" THEN bad ELSE Append(bad, [t |-> l, l |-> l, class |-> cl])
            /\ UNCHANGED <<ft, exp, nontrivial>>
TSpec == TInit /\ [][TNext]_tvars

Final == (l = Len(Trace) + 1) =>
  JsonSerialize("bad.json", [bad |-> bad, consumed |-> l - 1, done |-> TRUE, nontrivial |-> nontrivial])
=============================================================================

----------------------------- MODULE FilterN_MC -----------------------------
(* Model-checking wrapper of FilterN: the match vector is given by its bits      *)
(* (a configuration file cannot hold a sequence).                                 *)
EXTENDS FilterN
CONSTANTS Bits, L
MCMatch == [i \in 1..L |-> (Bits \div (2 ^ (i - 1))) % 2 = 1]
=============================================================================

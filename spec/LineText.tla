------------------------------- MODULE LineText -------------------------------
(* C02, clause "the unmodified line text": what the lines of a source ARE.       *)
(* A source is a byte string; its lines are the segments between LF bytes, a      *)
(* terminated line loses exactly ONE CR in front of its LF (the CR LF            *)
(* terminator) - further CRs belong to the text -, a final unterminated          *)
(* non-empty segment is a line and keeps every byte, nothing follows a trailing   *)
(* LF.  Two independent definitions (a recursive reader and a grammar of spans)   *)
(* are checked equal, the source is shown to be reconstructible from the texts    *)
(* and their terminators (so no byte of a text is lost or invented), and the      *)
(* design that strips a RUN of CRs is refuted (Policy = "run").                   *)
EXTENDS Integers, Sequences, FiniteSets, SequencesExt

LF == 10
CR == 13
CONSTANT Policy      \* "one" (the property) | "run" (negative control: every trailing CR is stripped)

DropCR(t) == IF Policy = "one"
               THEN (IF t # <<>> /\ t[Len(t)] = CR THEN SubSeq(t, 1, Len(t) - 1) ELSE t)
               ELSE LET RECURSIVE strip(_)
                        strip(u) == IF u # <<>> /\ u[Len(u)] = CR THEN strip(SubSeq(u, 1, Len(u) - 1)) ELSE u
                    IN strip(t)

\* definition 1: read left to right
RECURSIVE Read(_, _)
Read(s, cur) == IF s = <<>> THEN (IF cur = <<>> THEN <<>> ELSE <<cur>>)
                ELSE IF Head(s) = LF THEN <<DropCR(cur)>> \o Read(Tail(s), <<>>)
                ELSE Read(Tail(s), Append(cur, Head(s)))
Lines(s) == Read(s, <<>>)

\* definition 2: the positions of the LF bytes cut the source into spans
LFs(s) == {i \in 1..Len(s) : s[i] = LF}
Span(s, i) == \* i-th span: after the (i-1)-th LF up to (not including) the i-th LF or the end
  LET ps == SetToSortSeq(LFs(s), <)
      lo == IF i = 1 THEN 1 ELSE ps[i - 1] + 1
      hi == IF i <= Len(ps) THEN ps[i] - 1 ELSE Len(s)
  IN [text |-> SubSeq(s, lo, hi), term |-> i <= Len(ps)]
Lines2(s) ==
  LET n == Cardinality(LFs(s))
      last == Span(s, n + 1)
      body == [i \in 1..n |-> DropCR(Span(s, i).text)]
  IN IF last.text = <<>> THEN body ELSE Append(body, last.text)

\* the terminator each line had in the source: the source is the texts with their terminators, nothing else
Term(s, i) == LET sp == Span(s, i) IN
              IF ~sp.term THEN <<>> ELSE IF sp.text # <<>> /\ sp.text[Len(sp.text)] = CR THEN <<CR, LF>> ELSE <<LF>>
RECURSIVE Glue(_, _, _)
Glue(s, ls, i) == IF i > Len(ls) THEN <<>> ELSE ls[i] \o Term(s, i) \o Glue(s, ls, i + 1)
Rebuilt(s) == Glue(s, Lines(s), 1)
=============================================================================

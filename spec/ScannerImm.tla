----------------------------- MODULE ScannerImm -----------------------------
(* C04 / C02 - implementation-shaped model of readahead.ImmediateReadAhead.Scan *)
(* (pkg/readahead/immediate.go) with an explicit memory: buffers are numbered,  *)
(* a returned token is a view (buffer id, lo, hi) into one of them.             *)
(* One action per branch of the code; the environment (the io.Reader) chooses   *)
(* every Read result.                                                           *)
EXTENDS Bytes, TLC

CONSTANTS Alphabet,   \* bytes the reader may deliver (must contain 10 = LF to be interesting)
          MaxLen,     \* bound on the total stream length
          BufSize,    \* bufSize argument of NewImmediate
          MaxStall    \* bound on consecutive (0, nil) reads

VARIABLES bufs, cur, offset, end, eof, pc, lastn,           \* implementation state
          delivered, st, stalls,                            \* environment
          toks, handed, errs, done                          \* observations (ghost)

vars == <<bufs, cur, offset, end, eof, pc, lastn, delivered, st, stalls, toks, handed, errs, done>>

Zeros(n) == [i \in 1..n |-> 0]
Buf == bufs[cur]
WriteAt(b, pos, data) ==
  [i \in 1..Len(b) |-> IF i > pos /\ i <= pos + Len(data) THEN data[i - pos] ELSE b[i]]
View(h) == SubSeq(bufs[h.b], h.lo + 1, h.hi)

\* dropCR on a view [lo, hi) of the current buffer
DropCRView(lo, hi) == IF hi > lo /\ Buf[hi] = CR THEN hi - 1 ELSE hi

Init ==
  /\ bufs = <<Zeros(BufSize)>> /\ cur = 1 /\ offset = 0 /\ end = 0 /\ eof = FALSE
  /\ pc = "idle" /\ lastn = 0
  /\ delivered = <<>> /\ st = "open" /\ stalls = 0
  /\ toks = <<>> /\ handed = <<>> /\ errs = 0 /\ done = FALSE

\* hand out the view [lo, hi) of the current buffer as the next token and return true
Return(lo, hi) ==
  LET h == [b |-> cur, lo |-> lo, hi |-> hi, data |-> SubSeq(Buf, lo + 1, hi)] IN
  /\ toks' = Append(toks, h.data)
  /\ handed' = Append(handed, h)
  /\ pc' = "idle"

Call ==
  /\ pc = "idle" /\ ~done
  /\ pc' = "restart"
  /\ UNCHANGED <<bufs, cur, offset, end, eof, lastn, delivered, st, stalls, toks, handed, errs, done>>

\* label RESTART
Restart ==
  /\ pc = "restart"
  /\ IF offset < end THEN
       LET eol == IndexByteFrom(Buf, LF, offset + 1) IN     \* 1-based absolute, 0 = none
       IF eol # 0 /\ eol <= end THEN
         /\ Return(offset, DropCRView(offset, eol - 1))
         /\ offset' = eol
         /\ UNCHANGED <<done>>
       ELSE IF eof THEN
         /\ Return(offset, end)
         /\ offset' = end
         /\ UNCHANGED <<done>>
       ELSE
         /\ pc' = "grow" /\ UNCHANGED <<offset, toks, handed, done>>
     ELSE IF eof THEN
       /\ pc' = "idle" /\ done' = TRUE /\ UNCHANGED <<offset, toks, handed>>
     ELSE
       /\ pc' = "grow" /\ UNCHANGED <<offset, toks, handed, done>>
  /\ UNCHANGED <<bufs, cur, end, eof, lastn, delivered, st, stalls, errs>>

\* "Increase buf if needed": a NEW buffer is allocated, the old one is left untouched
Grow ==
  /\ pc = "grow"
  /\ IF end >= Len(Buf) THEN
       LET nb == WriteAt(Zeros(end - offset + BufSize), 0, SubSeq(Buf, offset + 1, end)) IN
       /\ bufs' = Append(bufs, nb)
       /\ cur' = Len(bufs) + 1
       /\ end' = end - offset
       /\ offset' = 0
     ELSE UNCHANGED <<bufs, cur, end, offset>>
  /\ pc' = "read"
  /\ UNCHANGED <<eof, lastn, delivered, st, stalls, toks, handed, errs, done>>

\* n, err := s.r.Read(s.buf[s.end:]) ; s.end += n        (the environment picks the result)
Read ==
  /\ pc = "read"
  /\ \E n \in 0..MinOf({Len(Buf) - end, MaxLen - Len(delivered)}) :
     \E data \in [1..n -> Alphabet] :
     \E e \in {"nil", "eof", "fail"} :
       /\ (n = 0 /\ e = "nil") => stalls < MaxStall
       /\ stalls' = IF n = 0 /\ e = "nil" THEN stalls + 1 ELSE 0
       /\ bufs' = [bufs EXCEPT ![cur] = WriteAt(Buf, end, data)]
       /\ end' = end + n
       /\ lastn' = n
       /\ delivered' = delivered \o data
       /\ IF e = "nil" THEN /\ pc' = "check" /\ UNCHANGED <<eof, st>>
          ELSE /\ eof' = TRUE /\ st' = e
               /\ pc' = IF e = "fail" THEN "onerr" ELSE "restart"
  /\ UNCHANGED <<cur, offset, toks, handed, errs, done>>

\* s.onError(err)
OnErr ==
  /\ pc = "onerr"
  /\ errs' = errs + 1
  /\ pc' = "restart"
  /\ UNCHANGED <<bufs, cur, offset, end, eof, lastn, delivered, st, stalls, toks, handed, done>>

\* "Check only the most recently read bytes for a new line"
Check ==
  /\ pc = "check"
  /\ LET eol == IndexByteFrom(Buf, LF, end - lastn + 1) IN
     IF eol # 0 /\ eol <= end THEN
       /\ Return(offset, DropCRView(offset, eol - 1))
       /\ offset' = eol
     ELSE
       /\ pc' = "grow" /\ UNCHANGED <<offset, toks, handed>>
  /\ UNCHANGED <<bufs, cur, end, eof, lastn, delivered, st, stalls, errs, done>>

Next == Call \/ Restart \/ Grow \/ Read \/ OnErr \/ Check
Spec == Init /\ [][Next]_vars /\ WF_vars(Next)

\* Scan() called again after it has returned false (the caller may do that any number of times):
\* RESTART finds offset = end and eof, and returns false again
Again ==
  /\ pc = "idle" /\ done
  /\ pc' = "restart"
  /\ UNCHANGED <<bufs, cur, offset, end, eof, lastn, delivered, st, stalls, toks, handed, errs, done>>
NextA == Next \/ Again
SpecA == Init /\ [][NextA]_vars /\ WF_vars(Next)

--------------------------------------------------------------------------------
A == INSTANCE Scanner WITH pending <- SubSeq(Buf, offset + 1, end), ntoks <- Len(toks)

Bounds      == 0 <= offset /\ offset <= end /\ end <= Len(Buf)
PrefixOK    == IsPrefixOf(toks, A!RefSplit(delivered, st # "open"))
EndOK       == done => (st # "open" /\ toks = A!RefSplit(delivered, TRUE))
ErrOK       == (pc # "onerr") => errs = (IF st = "fail" THEN 1 ELSE 0)
NoReadAfterEnd == pc \in {"grow", "read", "check"} => (~eof /\ st = "open")
\* a slice handed out keeps its contents for as long as the caller holds it
Lifetime    == \A i \in 1..Len(handed) : View(handed[i]) = handed[i].data
Refines     == A!ASpec
Terminates  == <>done
\* the end is final: once Scan() has returned false nothing is read, returned, reported or written any more
EndIsFinal  == [][done => UNCHANGED <<bufs, delivered, st, toks, handed, errs, done>>]_vars
=============================================================================

--------------------------- MODULE ScannerBuf_Gen ---------------------------
(* B1 generator: every complete behaviour of ScannerBuf, with the reader's     *)
(* script as a history variable, printed as one JSON vector when Scan()        *)
(* returned false.                                                              *)
EXTENDS ScannerBuf, Json
VARIABLE script
GInit == Init /\ script = <<>>
GNext ==
  /\ Next
  /\ script' =
       IF delivered' # delivered \/ st' # st \/ stalls' > stalls
       THEN Append(script, [d |-> SubSeq(delivered', Len(delivered) + 1, Len(delivered')),
                            e |-> IF st' # st THEN st' ELSE "nil"])
       ELSE script
Dump == done => PrintT("VFJ " \o ToJson([buf |-> BufSize, reads |-> script, toks |-> toks, errs |-> errs]))
=============================================================================

---------------------------- MODULE TermBuffered ----------------------------
(* C20.  Transcription of the buffered writer used for --snapshot and piped       *)
(* output, composed with the terminal of Term.tla.                                *)
EXTENDS TermTrim

CONSTANTS ColsSet, TrimSet, OnlcrSet, Lines, Texts, MaxUpdates
Above == << <<36>>, <<36, 36>> >>

(* The buffered writer: virtualterm.go (line store) + bufferedterm.go (Close     *)
(* prints the store top to bottom through WriteLineNoWrap).  It prints to the     *)
(* same kind of terminal; without trimming the output is a pipe (no width).       *)
VARIABLES Cols, AutoTrim,      \* package variables computedCols / AutoTrim
          lines, bclosed, bterm, blatest, bn
bvars == <<Cols, AutoTrim, lines, bclosed, bterm, blatest, bn>>
BCols == IF AutoTrim THEN Cols ELSE 1000000

BInit == /\ Cols \in ColsSet /\ AutoTrim \in TrimSet
         /\ lines = <<>> /\ bclosed = FALSE /\ blatest = <<>> /\ bn = 0
         /\ \E o \in OnlcrSet : bterm = NewTerm(BCols, o, Above)
BWriteForLine(line, text) ==
  /\ ~bclosed /\ bn < MaxUpdates /\ line >= 0 /\ WellFormed(text)
  /\ lines' = SetLatest(lines, line, text)       \* for line >= len(lines) append ""; lines[line] = text
  /\ blatest' = SetLatest(blatest, line, text)
  /\ bn' = bn + 1
  /\ UNCHANGED <<bclosed, bterm, Cols, AutoTrim>>
RECURSIVE WriteToOutput(_)
WriteToOutput(ls) == IF ls = <<>> THEN <<>> ELSE WriteLineNoWrap(ls[1], AutoTrim, Cols) \o <<10>> \o WriteToOutput(Tail(ls))
BClose ==
  /\ ~bclosed /\ bclosed' = TRUE
  /\ bterm' = Feed(bterm, WriteToOutput(lines))
  /\ UNCHANGED <<lines, blatest, bn, Cols, AutoTrim>>
BNext == BClose \/ \E line \in Lines, text \in Texts : BWriteForLine(line, text)
BSpec == BInit /\ [][BNext]_bvars

\* nothing is printed before Close; Close prints the same final lines top to bottom and leaves
\* the cursor below them
BQuiet == ~bclosed => bterm = NewTerm(BCols, bterm.onlcr, Above)
BFinal == bclosed => /\ ScreenOK(bterm, Above, ShownAll(blatest, BCols, AutoTrim))
                     /\ ParkedOK(bterm, Above, ShownAll(blatest, BCols, AutoTrim))
                     /\ ~bterm.junk
                     /\ ~bterm.ctl         \* plain lines: no cursor control in snapshot / piped output
=============================================================================

--------------------------- MODULE ExprScalar_Gen ---------------------------
(* B1 generator for C11: exhaustive small argument ranges per helper and arity. *)
(* Every state below a group header is one call {f, args}; the Dump invariant    *)
(* prints it with the specification's expectation for every assignment of the   *)
(* arguments to constant ("c") / match-group ("d") positions (exp: all constant,*)
(* alt: the patterns whose expectation differs).  The Go driver replays every   *)
(* vector on the real compiler in all 2^n position patterns.                    *)
(* Groups are expanded by different TLC workers (header state -> its cases).    *)
EXTENDS ExprScalar, Json, TLC

CONSTANT Thorough      \* BOOLEAN: larger ranges

VARIABLE vec

\* ---------------------------------------------------------------- literals
E    == <<>>
SPs  == <<32>>                       \* " "
TABs == <<9>>
Sa   == <<97>>
Sb   == <<98>>
Sx   == <<120>>
Sy   == <<121>>
I(S) == {Itoa(n) : n \in S}
DecStr(m, s) == Signed(m < 0, FmtFixed(AbsI(m), s))       \* m / 10^s, e.g. DecStr(-25, 1) = "-2.5"
Strs(alpha, n) == UNION {[1..k -> alpha] : k \in 0..n}    \* all strings over alpha up to length n

IntNoise == {E, Sa, <<49, 46, 53>> (* 1.5 *), <<32, 49>> (* " 1" *), <<43, 51>> (* +3 *),
             <<48, 48, 55>> (* 007 *), <<45, 48>> (* -0 *),
             <<49, 50, 51, 52, 53, 54, 55, 56, 57, 48, 49>> (* 12345678901 *),
             <<57, 57, 57, 57, 57, 57, 57, 57, 57, 57, 57, 57, 57, 57, 57, 57, 57, 57, 57, 57>> (* 20 nines *),
             <<49, 101, 51>> (* 1e3 *), <<49, 50, 97>> (* 12a *)}
NumNoise == IntNoise \cup {<<48, 120, 49, 48>> (* 0x10 *), <<97, 98, 99>> (* abc *), <<105, 110, 102>> (* inf *),
             <<45, 73, 110, 102>> (* -Inf *), <<78, 97, 78>> (* NaN *), <<49, 95, 48>> (* 1_0 *),
             <<49, 50, 122>> (* 12z *), <<53, 46>> (* 5. *), <<46, 53>> (* .5 *), <<43, 46, 53>> (* +.5 *),
             <<45, 46, 53>> (* -.5 *), <<49, 46, 50, 46, 51>> (* 1.2.3 *), <<45, 45, 49>> (* --1 *),
             <<46>> (* . *), <<45>> (* - *), <<49, 44, 50, 51, 52>> (* 1,234 *)}

F7 == {"sumi", "subi", "multi", "divi", "modi", "maxi", "mini"}
F4 == {"sumf", "subf", "multf", "divf"}
FCmp == {"lt", "gt", "lte", "gte"}
FUnit == {"bytesize", "bytesizesi", "downscale"}

Call(f, args) == [f |-> f, args |-> args]
Calls1(F, A) == {Call(f, <<a>>) : f \in F, a \in A}
Calls2(F, A, B) == {Call(f, <<a, b>>) : f \in F, a \in A, b \in B}
Calls3(F, A, B, C) == {Call(f, <<a, b, c>>) : f \in F, a \in A, b \in B, c \in C}

R1 == IF Thorough THEN 15 ELSE 6

\* boundary values of the digit-count sweeps: 10^k - 1, 10^k, 10^k + 1
Pow10s == {P10(k) : k \in 1..8}
Sweep == UNION {{p - 1, p, p + 1, 0 - (p - 1), 0 - p, 0 - (p + 1)} : p \in Pow10s}
         \cup {999999999, 0 - 999999999, 123456789, 0 - 123456789, 100000000, 0 - 100000000}

CsvAlpha == {97, 44, 34, 13, 10, 32}
CsvF2 == Strs(CsvAlpha, 2)
CsvF1 == Strs(CsvAlpha, 1)

LogicPool == {E, SPs, Sa, <<48>>, <<49>>, <<97, 32, 98>>, TABs, <<32, 32>>}
CondPool == {E, SPs, Sx, Sy}

CmpPool == I({0 - 1, 0, 1, 2, 10}) \cup
           {<<49, 46, 53>>, <<45, 48, 46, 53>>, <<50, 46, 48>>, <<48, 48, 55>>, <<46, 53>>, <<53, 46>>,
            Sa, E, <<49, 101, 51>>, <<45, 48>>, <<48, 46, 50, 53>>, <<49, 48, 48, 46, 48, 48, 49>>, <<43, 49>>}

StrPool == {E, Sa, <<65, 98>> (* Ab *), <<97, 66, 49, 32>> (* "aB1 " *), <<104, 101, 108, 108, 111>> (* hello *),
            <<72, 101, 76, 76, 111, 32, 87>> (* "HeLLo W" *), <<104, 195, 169, 108, 108, 111>> (* h\'ello, UTF-8 *),
            <<122, 90, 64, 91, 96, 123>> (* zZ@[`{ *)}

Tbl1 == <<107, 49, 32, 118, 49, 10, 107, 50, 32, 118, 50, 10, 35, 99, 32, 118, 51, 10, 10, 107, 52, 32, 97, 32,
          98, 10, 107, 53, 10, 107, 50, 32, 118, 50>>      \* k1 v1 / k2 v2 / #c v3 / / k4 a b / k5 / k2 v2
Tbl2 == <<107, 49, 32, 118, 49, 10, 107, 49, 32, 118, 57>> \* k1 v1 / k1 v9 (duplicate key)
Tbl3 == <<107, 49, 9, 9, 118, 49, 32, 10, 32, 107, 50, 32, 32, 118, 50, 10, 32, 35, 99, 32, 118, 55>>
        \* "k1\t\tv1 " / " k2  v2" / " #c v7" (an indented line is not a comment)
Keys == {<<107, 49>>, <<107, 50>>, <<107, 51>>, <<107, 52>>, <<107, 53>>, <<35, 99>>, <<118, 49>>, E, Sa}

Paths == {<<97, 47, 98, 47, 99>>, <<97, 47, 98, 47, 99, 46, 106, 112, 103>>, <<47, 97>>,
          <<47, 97, 47, 98, 46, 116, 97, 114, 46, 103, 122>>, <<99>>, <<99, 46, 116, 120, 116>>,
          <<97, 46, 98, 47, 99>>, <<46, 112, 114, 111, 102, 105, 108, 101>>,
          <<120, 47, 46, 112, 114, 111, 102, 105, 108, 101>>, <<120, 47, 110, 97, 109, 101, 46>>,
          <<97, 47, 47, 98>>, <<97, 47, 98, 47>>, <<97, 47, 46, 47, 98>>, <<46, 46, 47, 97>>, E,
          <<100, 105, 114, 46, 100, 47, 102, 46, 97, 46, 98>> (* dir.d/f.a.b *)}

Fmts == {<<37, 115>> (* %s *), <<37, 115, 45, 37, 115>> (* %s-%s *), <<37, 100>> (* %d *),
         <<37, 53, 115, 124>> (* %5s| *), <<37, 45, 53, 115, 124>> (* %-5s| *), <<49, 48, 48, 37, 37>> (* 100%% *),
         <<37, 118, 32, 97, 110, 100, 32, 37, 115>> (* %v and %s *), <<37, 120>> (* %x *), Sa, E}
FmtArgs == {Sa, <<49, 50>>, E, <<97, 98, 99, 100, 101, 102>>}

UnitVals == {0, 1, 5, 999, 1000, 1001, 1023, 1024, 1025, 1500, 1536, 2047, 2048, 2560, 10000, 12345, 999499, 999500,
             999999, 1000000, 1048575, 1048576, 1500000, 1572864, 123456789, 999999999}

Groups == {"int2", "int3", "intnoise", "intbig", "arity", "flt", "powsqrt", "bucket", "bucketbig", "clamp",
           "expbucket", "hi", "hf", "csv1", "csv2", "csv3", "logic", "cond", "eq", "type", "compare",
           "str1", "contains", "substr", "select", "tab", "format", "floorceil", "round", "percent", "unit",
           "lookup", "path", "condws", "bignum"}

\* ---- whitespace-only values in every White_Space code point, alone and mixed with the ASCII blanks, and near misses
U(cps) == U8EncodeAll(cps)
WsOnly == {U(<<w>>) : w \in U8WS} \cup {U(<<a, b>>) : a \in {32, 9, 160, 8195, 12288}, b \in {133, 160, 5760, 8192, 8202, 8232, 8233, 8239, 8287, 12288, 10}}
          \cup {U(<<32, 160, 9>>), U(<<12288, 32, 8201, 133>>), U(<<160, 160, 160>>), U(<<10, 8233, 13, 5760, 32>>)}
WsNearMiss == {U(<<8203>>), U(<<65279>>), U(<<6158>>), U(<<132>>), U(<<173>>), U(<<160, 8203>>),        \* not classified
               U(<<161>>), U(<<233>>), U(<<160, 120>>), U(<<12288, 19990>>), U(<<8232, 97, 8233>>), U(<<32, 160, 48>>),   \* visible
               <<160>>, <<133>>, <<194>>, <<32, 160>>, <<226, 128>>, <<192, 160>>, <<194, 160, 194>>}    \* ill-formed
WsPool == WsOnly \cup WsNearMiss

\* ---- numbers beyond the 32 bit model that binary64 holds exactly (m * 2^k, powers of ten, dyadic fractions), and some it does not
BigN(m, k) == BnFmt(BnShl(BnOfInt(m), k), 0)
BigInts == {BigN(m, k) : m \in {1, 3, 5, 999999999}, k \in {31, 32, 40, 52, 53, 62, 63, 64, 65, 70, 100}}
           \cup {BigN(m, 0) \o BnZeros(z) : m \in {1, 5, 25, 123}, z \in {9, 12, 18, 19, 20, 22}}
           \cup {<<57, 50, 50, 51, 51, 55, 50, 48, 51, 54, 56, 53, 52, 55, 55, 53, 56, 48, 55>> (* 2^63 - 1: not a binary64 value *),
                 <<57, 50, 50, 51, 51, 55, 50, 48, 51, 54, 56, 53, 52, 55, 55, 52, 55, 56, 52>> (* 2^63 - 1024 *),
                 <<49, 56, 52, 52, 54, 55, 52, 52, 48, 55, 51, 55, 48, 57, 53, 53, 49, 54, 49, 53>> (* 2^64 - 1 *),
                 <<49>> \o BnZeros(23), <<57, 48, 48, 55, 49, 57, 57, 50, 53, 52, 55, 52, 48, 57, 57, 51>> (* 2^53 + 1 *)}
BigFracs == {BigN(m, k) \o fr : m \in {1, 3, 999999999}, k \in {31, 40, 48, 50, 51},
                               fr \in {<<DOT, 53>>, <<DOT, 50, 53>>, <<DOT, 55, 53>>, <<DOT, 49, 50, 53>>, <<DOT, 56, 55, 53>>}}
            \cup {<<49, 50, 51, 52, 53, 54, 55, 56, 57, 48, DOT, 53>>, <<49, 50, 51, 52, 53, 54, 55, 56, 57, 48, DOT, 49>>,
                  <<48, DOT, 49, 48, 48, 48, 48, 48, 48, 48, 48, 49>>, <<48, DOT, 48, 48, 48, 57, 55, 54, 53, 54, 50, 53>> (* 2^-10 *)}
BigPool == BigInts \cup BigFracs \cup {<<MINUS>> \o t : t \in BigInts \cup BigFracs}
Ex(m, e) == m \o <<101>> \o Itoa(e)
ExpForms == {Ex(m, e) : m \in {<<49>>, <<45, 49>>, <<53>>, <<49, DOT, 53>>, <<50, 53>>, <<57, DOT, 50, 50, 51, 51, 55, 50, 48, 51, 54, 56, 53, 52, 55, 55, 53, 56, 48, 56>>},
                        e \in {0 - 2, 0 - 1, 0, 1, 2, 9, 15, 18, 19, 20, 22, 23, 30}}
            \cup {<<49, 69, 43, 49, 57>> (* 1E+19 *), <<49, 101, 43, 50, 50>> (* 1e+22 *), <<49, DOT, 101, 51>> (* 1.e3 *),
                  <<DOT, 53, 101, 49>> (* .5e1 *), <<49, 101>>, <<101, 53>>, <<49, 101, 49, 101, 49>>, <<49, 101, 49, 48, 48>> (* 1e100 *)}
NonFinite == {<<105, 110, 102>>, <<43, 73, 110, 102>>, <<45, 105, 110, 102>>, <<45, 73, 110, 102>>, <<73, 78, 70>>,
              <<105, 110, 102, 105, 110, 105, 116, 121>>, <<45, 73, 110, 102, 105, 110, 105, 116, 121>>,
              <<78, 97, 78>>, <<110, 97, 110>>, <<43, 110, 97, 110>>}

Cases(g) ==
  CASE g = "int2" -> Calls2(F7, I((0 - R1)..R1), I((0 - R1)..R1))
    [] g = "int3" -> Calls3(F7, I({0 - 3, 0 - 1, 0, 2, 5}), I({0 - 3, 0 - 1, 0, 2, 5}), I({0 - 3, 0 - 1, 0, 2, 5}))
    [] g = "intnoise" -> Calls2(F7, IntNoise \cup I({0 - 7, 0, 3}), IntNoise \cup I({0 - 7, 0, 3}))
                         \cup Calls3({"divi", "modi", "sumi"}, I({7}), I({0, 2}), {Sa, <<51>>})
    [] g = "intbig" -> Calls2({"sumi", "subi", "multi", "divi", "modi"},
                              I({999999999, 0 - 999999999, 500000000, 2, 0 - 3, 31623, 46341, 0 - 46341, 65536}),
                              I({999999999, 0 - 999999999, 500000000, 2, 0 - 3, 31623, 46341, 0 - 46341, 65536}))
    [] g = "arity" -> {Call(f, [i \in 1..n |-> <<49>>]) : f \in Funcs, n \in 1..5}
    [] g = "flt" -> Calls2(F4, I((0 - 4)..4) \cup {<<50, 46, 48>>, <<49, 46, 53>>, Sa, E},
                               I((0 - 4)..4) \cup {<<50, 46, 48>>, <<49, 46, 53>>, Sa, E})
                    \cup Calls3(F4, I({12, 0 - 6}), I({3, 0 - 2}), I({2, 0}))
    [] g = "powsqrt" -> Calls2({"pow"}, I(0..12) \cup {Sa}, I(0..9) \cup {Sa, <<48, 46, 53>>})
                        \cup Calls1({"sqrt"}, I(0..150) \cup I({10000, 999999, 1000000}) \cup NumNoise)
                        \cup Calls1({"log10", "log2", "ln"}, I({1, 8, 1000}) \cup NumNoise)
    [] g = "bucket" -> Calls2({"bucket", "bucketrange"}, I((0 - 41)..41), I({1, 2, 3, 5, 10, 20}))
                       \cup Calls2({"bucket", "bucketrange"}, I({5, 0 - 5}) \cup IntNoise, I({10, 0, 0 - 1}) \cup IntNoise)
    [] g = "bucketbig" -> Calls2({"bucket", "bucketrange"},
                                 I({999999999, 0 - 999999999, 100, 0 - 100, 150, 0 - 150, 0 - 1000000, 1000000, 0 - 1, 0,
                                    0 - 99, 0 - 101, 99, 101}),
                                 I({50, 100, 1000, 999999999, 7}))
    [] g = "clamp" -> Calls3({"clamp"}, I((0 - 6)..6), I((0 - 3)..3), I((0 - 3)..3))
                      \cup Calls3({"clamp"}, IntNoise \cup I({5}), I({0}) \cup {Sa, E}, I({10}) \cup {Sa})
    [] g = "expbucket" -> Calls1({"expbucket"}, I((0 - 2)..(IF Thorough THEN 12000 ELSE 1200)) \cup I(Sweep) \cup IntNoise)
    [] g = "hi" -> Calls1({"hi"}, I((0 - (IF Thorough THEN 12000 ELSE 1100))..(IF Thorough THEN 12000 ELSE 1100))
                                  \cup I(Sweep) \cup NumNoise)
    [] g = "hf" -> Calls1({"hf"}, {DecStr(m, s) : m \in {0, 5, 0 - 5, 999, 1000, 0 - 1000, 12345, 0 - 1234567, 99999999,
                                                        100000, 999999, 1000000}, s \in 0..4}
                                  \cup {<<49, 50, 51, 52, 53, 54, 55, 46, 56, 57, 49, 50>>, <<48, 46, 48, 48, 48, 48, 49>>} \cup NumNoise)
    [] g = "csv1" -> Calls1({"csv"}, CsvF2 \cup {<<34, 97, 34>>, <<97, 44, 34, 98, 34>>, <<0>>, <<228>>, <<97, 9, 98>>})
    [] g = "csv2" -> Calls2({"csv"}, CsvF2, IF Thorough THEN CsvF2 ELSE CsvF1 \cup {<<34, 34>>, <<97, 34>>, <<44, 44>>})
                     \cup Calls2({"csv"}, CsvF1, CsvF2)
    [] g = "csv3" -> Calls3({"csv"}, CsvF1, CsvF1, CsvF1)
    [] g = "logic" -> Calls1({"not", "and", "or"}, LogicPool)
                      \cup Calls2({"and", "or"}, LogicPool, LogicPool)
                      \cup Calls3({"and", "or"}, {E, SPs, Sa}, {E, SPs, Sa}, {E, SPs, Sa})
    [] g = "cond" -> Calls2({"if", "unless", "switch"}, CondPool \cup {TABs, <<48>>}, CondPool)
                     \cup Calls3({"if", "switch"}, CondPool \cup {<<160>>}, CondPool, CondPool)
                     \cup {Call("switch", <<a, Sx, b, Sy>>) : a \in {E, SPs, Sa}, b \in {E, Sa}}
                     \cup {Call("switch", <<a, Sx, b, Sy, <<122>>>>) : a \in {E, Sa}, b \in {E, SPs, Sa}}
                     \cup Calls1({"coalesce"}, CondPool) \cup Calls2({"coalesce"}, CondPool, CondPool)
                     \cup Calls3({"coalesce"}, {E, SPs, Sx}, {E, Sy}, {E, Sa})
    [] g = "eq" -> Calls2({"eq", "neq"}, {E, Sa, Sb, SPs, <<49>>, <<48, 49>>, <<65>>, <<97, 32>>},
                                         {E, Sa, Sb, SPs, <<49>>, <<48, 49>>, <<65>>, <<97, 32>>})
                   \cup Calls3({"eq", "neq"}, {Sa}, {Sa, Sb}, {<<49>>, E})
    [] g = "type" -> Calls1({"isint", "isnum"}, NumNoise \cup I(Sweep) \cup I((0 - 3)..3)
                              \cup {DecStr(m, s) : m \in {0, 5, 0 - 25, 1234}, s \in 1..3}
                              \cup {<<57, 50, 50, 51, 51, 55, 50, 48, 51, 54, 56, 53, 52, 55, 55, 53, 56, 48, 55>> (* 2^63-1 *)})
    [] g = "compare" -> Calls2(FCmp, CmpPool, CmpPool)
                        \cup Calls2(FCmp, I((0 - R1)..R1), I((0 - R1)..R1))
                        \cup Calls2(FCmp, {DecStr(m, 2) : m \in {0 - 150, 0 - 1, 0, 1, 99, 100, 101}},
                                          {DecStr(m, 1) : m \in {0 - 15, 0, 1, 10, 11}})
    [] g = "str1" -> Calls1({"len", "upper", "lower"}, StrPool \cup Strs({97, 90, 32}, 2))
    [] g = "contains" -> Calls2({"like", "prefix", "suffix"}, Strs({97, 98}, 3) \cup {SPs, <<32, 97>>}, Strs({97, 98}, 2) \cup {SPs})
    [] g = "substr" -> Calls3({"substr"}, {E, <<97, 98, 99, 100, 101>>}, I((0 - 2)..7) \cup {Sa, E}, I((0 - 2)..7) \cup {Sa})
                       \cup Calls3({"substr"}, {<<104, 195, 169, 108>>, Sa}, I({0, 1}), I({1, 2, 999999999}))
    [] g = "select" -> Calls2({"select"}, Strs({97, 98, 32, 9}, IF Thorough THEN 5 ELSE 4), I(0..3))
                       \cup Calls2({"select"}, {<<97, 98, 32, 99, 100, 32, 101, 102>>, <<97, 10, 98>>, <<97, 34, 98, 32, 99, 34>>,
                                                <<97, 13, 98>>, <<97, 0, 98>>}, I({0 - 1, 0, 1, 2, 3}) \cup {Sa, E})
    [] g = "tab" -> Calls1({"tab"}, {E, Sa, TABs}) \cup Calls2({"tab"}, {E, Sa, <<98, 32, 99>>}, {E, Sa, TABs})
                    \cup Calls3({"tab"}, {E, Sa}, {E, Sb}, {E, Sx})
    [] g = "format" -> Calls1({"format"}, Fmts) \cup Calls2({"format"}, Fmts, FmtArgs)
                       \cup Calls3({"format"}, Fmts, {Sa, <<55>>}, {Sb, E})
    [] g = "floorceil" -> Calls1({"floor", "ceil"}, {DecStr(m, 1) : m \in (0 - 35)..35} \cup {DecStr(m, 3) : m \in {123765, 0 - 123765, 999, 1000, 1001, 0 - 999, 0 - 1000, 0 - 1001, 1}}
                                 \cup I({0, 7, 0 - 7, 999999999}) \cup NumNoise)
    [] g = "round" -> Calls1({"round"}, {DecStr(m, 2) : m \in (0 - 160)..160} \cup NumNoise)
                      \cup Calls2({"round"}, {DecStr(m, 3) : m \in {0, 4, 5, 6, 14, 15, 16, 25, 125, 1005, 994, 995, 996, 9995, 0 - 5, 0 - 4, 0 - 15, 0 - 126, 123765, 0 - 123765}}
                                             \cup I({7, 0 - 7}) \cup {Sa},
                                  I({0, 1, 2, 3, 6, 0 - 1, 7}) \cup {Sa, E})
    [] g = "percent" ->
         LET Vals == {<<48, 46, 49, 50, 51, 52>> (* 0.1234 *), <<48, 46, 53>>, <<48>>, <<49>>, <<50, 53>>, <<49, 48, 48>>,
                      <<45, 48, 46, 50, 53>>, <<48, 46, 57, 57, 57>>, <<48, 46, 57, 57, 57, 53>>, <<48, 46, 48, 48, 48, 52>>,
                      <<45, 48, 46, 48, 48, 48, 52>>, <<48, 46, 49, 50, 53>>, <<49, 46, 53>>, Sa, E} IN
         Calls1({"percent"}, Vals) \cup Calls2({"percent"}, Vals, I(0..4) \cup {Sa})
         \cup Calls3({"percent"}, Vals \cup I({50, 75, 150}), I({0, 1}), I({100, 200, 3, 0}) \cup {Sa})
         \cup {Call("percent", <<v, p, lo, hi>>) : v \in I({100, 50, 75, 125, 175}), p \in I({0, 4}), lo \in I({50, 0}) \cup {Sa}, hi \in I({150, 50, 7})}
    [] g = "unit" -> Calls1(FUnit, I(UnitVals) \cup I({0 - 1, 0 - 999, 0 - 1000, 0 - 1500, 0 - 123456789}) \cup IntNoise)
                     \cup Calls2(FUnit, I(UnitVals) \cup I({0 - 1500, 0 - 5}), I({0, 1, 2, 3}))
                     \cup Calls2(FUnit, I({1536}), {Sa, E} \cup I({0 - 1, 5}))
    [] g = "lookup" -> Calls2({"lookup", "haskey"}, Keys, {Tbl1, Tbl2, Tbl3, E})
                       \cup Calls3({"lookup", "haskey"}, Keys, {Tbl1, Tbl3}, {<<35>>, E, <<107, 49>>, <<35, 99>>})
    [] g = "path" -> Calls1({"basename", "dirname", "extname"}, Paths)
    [] g = "condws" -> Calls2({"if", "unless", "switch"}, WsPool, {Sx}) \cup Calls3({"if", "switch"}, WsPool, {Sx}, {Sy, E})
                       \cup {Call("switch", <<a, Sx, b, Sy>>) : a \in {E, U(<<160>>), U(<<12288, 32>>)}, b \in WsPool}
                       \cup {Call("switch", <<a, Sx, b, Sy, <<122>>>>) : a \in {U(<<8232>>), U(<<133>>)}, b \in WsPool}
                       \cup Calls1({"not"}, WsPool) \cup Calls2({"and", "or"}, WsPool, {Sa, E})
                       \cup Calls2({"coalesce"}, WsOnly, {Sa})
                       \cup Calls1({"len", "upper", "lower"}, {U(<<160>>), U(<<32, 12288>>)})
    [] g = "bignum" -> Calls1({"floor", "ceil", "round"}, BigPool \cup NonFinite \cup ExpForms)
                       \cup Calls2({"round"}, ExpForms, I({0, 2}))
                       \cup Calls2({"round"}, BigPool \cup NonFinite, I({0, 1, 2, 3}))
                       \cup Calls1({"floor", "ceil", "round"}, {DecStr(m, s) : m \in {5, 15, 25, 35, 0 - 15, 0 - 25, 125, 375, 0 - 125, 1005, 2675}, s \in 1..3})

Init == vec \in {[hdr |-> TRUE, g |-> g, f |-> "", args |-> <<>>] : g \in Groups}
Next == /\ vec.hdr
        /\ \E c \in Cases(vec.g) : vec' = [hdr |-> FALSE, g |-> vec.g, f |-> c.f, args |-> c.args]

AllPos(n, p) == [i \in 1..n |-> p]
\* exp: the expectation with every argument a constant; alt: the position patterns whose
\* expectation differs (only helpers with compile-time arguments have any)
Dump ==
  vec.hdr \/
  LET n == Len(vec.args)
      base == Expect(vec.f, vec.args, AllPos(n, "c"))
      sens == (ConstOnly(vec.f) \cup SoftConst(vec.f)) # {}
      alt == IF sens THEN {[pos |-> p, e |-> Expect(vec.f, vec.args, p)] :
                           p \in {q \in [1..n -> {"c", "d"}] : Expect(vec.f, vec.args, q) # base}}
             ELSE {}
  IN PrintT("VFJ " \o ToJson([f |-> vec.f, args |-> vec.args, g |-> vec.g, exp |-> base, alt |-> alt]))
=============================================================================

------------------------------ MODULE MiniJson ------------------------------
(* C16 - JSON views of a match ({.}, {#}, {.#}) are valid, faithful and          *)
(* deterministic.  This module is the abstract (oracle) layer:                   *)
(*                                                                              *)
(*   Parse(s)      recogniser + decoder for FLAT JSON objects over byte          *)
(*                 sequences (RFC 8259): members are strings, numbers, true,     *)
(*                 false, null; string escapes \" \\ \/ \b \f \n \r \t \uXXXX    *)
(*                 (surrogate pairs); number grammar without leading zeros;     *)
(*                 raw control characters inside strings are invalid.           *)
(*                 Valid(s) == Parse(s).ok, Decode(s) == Parse(s).mem            *)
(*   Expected(..)  the member list the property demands for a match             *)
(*   Meets(o, e)   `o` is one valid JSON object whose members decode to the      *)
(*                 captured texts `e` (the property's requirement)               *)
(*                                                                              *)
(* Text is a sequence of byte values.  The recogniser works at the byte level   *)
(* (like encoding/json.Valid): bytes >= 0x80 inside strings are accepted as     *)
(* they are; IsUtf8 is available separately.                                    *)
EXTENDS Bytes

QUOTE == 34   BSL == 92     SLASH == 47  LBRACE == 123  RBRACE == 125
COLON == 58   COMMA == 44   MINUS == 45  PLUS == 43     DOT == 46   ZERO == 48
LowE  == 101  UpE == 69

TrueLit  == <<116, 114, 117, 101>>
FalseLit == <<102, 97, 108, 115, 101>>
NullLit  == <<110, 117, 108, 108>>
Repl     == <<239, 191, 189>>          \* U+FFFD in UTF-8

-----------------------------------------------------------------------------
(* Numbers                                                                      *)

RECURSIVE DigitRun(_, _)
\* how many digits follow from position i
DigitRun(s, i) == IF i <= Len(s) /\ IsDigit(s[i]) THEN 1 + DigitRun(s, i + 1) ELSE 0

\* the shape of a decimal numeral: [sign] int [. frac] [e [sign] digits]; `whole` = nothing is left over
NumShape(t) ==
  LET sgn == IF t # <<>> /\ t[1] \in {MINUS, PLUS} THEN t[1] ELSE 0
      i0  == IF sgn # 0 THEN 2 ELSE 1
      n1  == DigitRun(t, i0)
      i1  == i0 + n1
      dot == i1 <= Len(t) /\ t[i1] = DOT
      n2  == IF dot THEN DigitRun(t, i1 + 1) ELSE 0
      i2  == IF dot THEN i1 + 1 + n2 ELSE i1
      ex  == i2 <= Len(t) /\ t[i2] \in {LowE, UpE}
      esg == IF ex /\ i2 + 1 <= Len(t) /\ t[i2 + 1] \in {MINUS, PLUS} THEN t[i2 + 1] ELSE 0
      i3  == IF ~ex THEN i2 ELSE IF esg # 0 THEN i2 + 2 ELSE i2 + 1
      n3  == IF ex THEN DigitRun(t, i3) ELSE 0
  IN [sign |-> sgn, int |-> SubSeq(t, i0, i1 - 1), dot |-> dot, frac |-> SubSeq(t, i1 + 1, i1 + n2),
      exp |-> ex, esign |-> esg, edigits |-> SubSeq(t, i3, i3 + n3 - 1), whole |-> i3 + n3 = Len(t) + 1]

\* RFC 8259 section 6:  number = [ minus ] int [ frac ] [ exp ],  int = zero / ( digit1-9 *DIGIT )
IsJsonNumber(t) ==
  LET p == NumShape(t) IN
  /\ p.whole /\ p.sign # PLUS
  /\ Len(p.int) >= 1 /\ (Len(p.int) > 1 => p.int[1] # ZERO)
  /\ (p.dot => Len(p.frac) >= 1)
  /\ (p.exp => Len(p.edigits) >= 1)

\* "numeric-looking" captured text: a decimal numeral in the widest reasonable sense (a sign,
\* leading zeros, a bare leading/trailing point are tolerated); the exponent is bounded so that its
\* value fits TLC's integers
NumericLooking(t) ==
  LET p == NumShape(t) IN
  /\ p.whole
  /\ Len(p.int) + Len(p.frac) >= 1
  /\ (p.exp => Len(p.edigits) \in 1..6)

RECURSIVE StripLeadZeros(_)
StripLeadZeros(d) == IF d # <<>> /\ d[1] = ZERO THEN StripLeadZeros(Tail(d)) ELSE d
RECURSIVE TrailZeros(_)
TrailZeros(d) == IF d # <<>> /\ d[Len(d)] = ZERO THEN 1 + TrailZeros(SubSeq(d, 1, Len(d) - 1)) ELSE 0

\* the value of a numeric-looking text as  (+/-) digits * 10^e  with digits free of leading and
\* trailing zeros (zero = no digits); two texts have equal value iff their canonical forms are equal
Canon(t) ==
  LET p   == NumShape(t)
      all == StripLeadZeros(p.int \o p.frac)
      tz  == TrailZeros(all)
      d   == SubSeq(all, 1, Len(all) - tz)
      ev  == IF ~p.exp THEN 0 ELSE IF p.esign = MINUS THEN 0 - DigitsVal(p.edigits, 0) ELSE DigitsVal(p.edigits, 0)
  IN IF d = <<>> THEN [neg |-> FALSE, digits |-> <<>>, e |-> 0]
     ELSE [neg |-> p.sign = MINUS, digits |-> d, e |-> ev - Len(p.frac) + tz]

\* a JSON number literal n stands for the captured text c: same text, or same numeric value
NumEq(n, c) == n = c \/ (NumericLooking(n) /\ NumericLooking(c) /\ Canon(n) = Canon(c))

-----------------------------------------------------------------------------
(* UTF-8                                                                        *)

Cont(s, i) == i <= Len(s) /\ s[i] >= 128 /\ s[i] <= 191

\* length of the well-formed UTF-8 sequence starting at i (Unicode table 3-7), 0 if there is none
Utf8Len(s, i) ==
  LET b == s[i] IN
  IF b < 128 THEN 1
  ELSE IF b >= 194 /\ b <= 223 THEN (IF Cont(s, i + 1) THEN 2 ELSE 0)
  ELSE IF b >= 224 /\ b <= 239
       THEN (IF Cont(s, i + 1) /\ Cont(s, i + 2) /\ (b = 224 => s[i + 1] >= 160) /\ (b = 237 => s[i + 1] <= 159)
             THEN 3 ELSE 0)
  ELSE IF b >= 240 /\ b <= 244
       THEN (IF Cont(s, i + 1) /\ Cont(s, i + 2) /\ Cont(s, i + 3) /\ (b = 240 => s[i + 1] >= 144) /\ (b = 244 => s[i + 1] <= 143)
             THEN 4 ELSE 0)
  ELSE 0

RECURSIVE Utf8From(_, _)
Utf8From(s, i) == IF i > Len(s) THEN TRUE ELSE LET n == Utf8Len(s, i) IN IF n = 0 THEN FALSE ELSE Utf8From(s, i + n)
IsUtf8(s) == Utf8From(s, 1)

Utf8Enc(cp) ==
  IF cp < 128 THEN <<cp>>
  ELSE IF cp < 2048 THEN <<192 + (cp \div 64), 128 + (cp % 64)>>
  ELSE IF cp < 65536 THEN <<224 + (cp \div 4096), 128 + ((cp \div 64) % 64), 128 + (cp % 64)>>
  ELSE <<240 + (cp \div 262144), 128 + ((cp \div 4096) % 64), 128 + ((cp \div 64) % 64), 128 + (cp % 64)>>

IsSurrogate(u) == u >= 55296 /\ u <= 57343
IsHighSur(u)   == u >= 55296 /\ u <= 56319
IsLowSur(u)    == u >= 56320 /\ u <= 57343

RECURSIVE ScrubFrom(_, _, _)
\* the text with every maximal run of ill-formed bytes and U+FFFD characters collapsed into one marker
ScrubFrom(s, i, acc) ==
  IF i > Len(s) THEN acc
  ELSE LET n    == Utf8Len(s, i)
           repl == n = 3 /\ SubSeq(s, i, i + 2) = Repl
       IN IF n = 0 \/ repl
          THEN ScrubFrom(s, i + (IF n = 0 THEN 1 ELSE 3),
                         IF acc # <<>> /\ acc[Len(acc)] = 0 - 1 THEN acc ELSE Append(acc, 0 - 1))
          ELSE ScrubFrom(s, i + n, acc \o SubSeq(s, i, i + n - 1))
Scrub(s) == ScrubFrom(s, 1, <<>>)

\* a decoded JSON string `dec` stands for the captured text c: the same bytes; when c is not UTF-8
\* its ill-formed parts may have been replaced by U+FFFD (the well-formed parts must still be equal)
FaithfulStr(dec, c) == dec = c \/ (~IsUtf8(c) /\ Scrub(dec) = Scrub(c))

-----------------------------------------------------------------------------
(* Strings                                                                      *)

HexVal(c) == IF IsDigit(c) THEN c - 48
             ELSE IF c >= 97 /\ c <= 102 THEN c - 87
             ELSE IF c >= 65 /\ c <= 70 THEN c - 55 ELSE 0 - 1

\* value of the four hex digits at s[i..i+3], -1 if they are not all there
Hex4(s, i) ==
  IF i + 3 > Len(s) THEN 0 - 1
  ELSE LET a == HexVal(s[i])  b == HexVal(s[i + 1])  c == HexVal(s[i + 2])  d == HexVal(s[i + 3]) IN
       IF a < 0 \/ b < 0 \/ c < 0 \/ d < 0 THEN 0 - 1 ELSE ((a * 16 + b) * 16 + c) * 16 + d

SimpleEsc(e) ==
  CASE e = QUOTE -> QUOTE [] e = BSL -> BSL [] e = SLASH -> SLASH
    [] e = 98 -> 8 [] e = 102 -> 12 [] e = 110 -> 10 [] e = 114 -> 13 [] e = 116 -> 9
    [] OTHER -> 0 - 1

NoStr == [end |-> 0, val |-> <<>>]

RECURSIVE StrBody(_, _, _)
\* i: next unread position inside a string (after the opening quote); acc: bytes decoded so far;
\* result: the position after the closing quote (0 = not a string) and the decoded bytes
StrBody(s, i, acc) ==
  IF i > Len(s) THEN NoStr
  ELSE LET c == s[i] IN
    IF c = QUOTE THEN [end |-> i + 1, val |-> acc]
    ELSE IF c < 32 THEN NoStr                                   \* control characters must be escaped
    ELSE IF c # BSL THEN StrBody(s, i + 1, Append(acc, c))
    ELSE IF i + 1 > Len(s) THEN NoStr
    ELSE LET e == s[i + 1] IN
      IF e # 117 THEN (IF SimpleEsc(e) < 0 THEN NoStr ELSE StrBody(s, i + 2, Append(acc, SimpleEsc(e))))
      ELSE LET u == Hex4(s, i + 2) IN
        IF u < 0 THEN NoStr
        ELSE IF ~IsSurrogate(u) THEN StrBody(s, i + 6, acc \o Utf8Enc(u))
        ELSE LET lo == IF i + 7 <= Len(s) /\ s[i + 6] = BSL /\ s[i + 7] = 117 THEN Hex4(s, i + 8) ELSE 0 - 1 IN
          IF IsHighSur(u) /\ lo >= 0 /\ IsLowSur(lo)
          THEN StrBody(s, i + 12, acc \o Utf8Enc(65536 + (u - 55296) * 1024 + (lo - 56320)))
          ELSE StrBody(s, i + 6, acc \o Repl)                   \* unpaired surrogate: not a character

-----------------------------------------------------------------------------
(* Flat objects                                                                 *)

IsWs(c) == c \in {32, 9, 10, 13}
RECURSIVE SkipWs(_, _)
SkipWs(s, i) == IF i <= Len(s) /\ IsWs(s[i]) THEN SkipWs(s, i + 1) ELSE i

IsNumChar(c) == IsDigit(c) \/ c \in {MINUS, PLUS, DOT, LowE, UpE}
RECURSIVE NumCharRun(_, _)
NumCharRun(s, i) == IF i <= Len(s) /\ IsNumChar(s[i]) THEN 1 + NumCharRun(s, i + 1) ELSE 0

NoVal == [end |-> 0, kind |-> "x", val |-> <<>>]

\* a scalar value at position i: kind "s" (val = decoded bytes), "n" (val = the literal), "t", "f", "z" (null)
Value(s, i) ==
  IF i > Len(s) THEN NoVal
  ELSE IF s[i] = QUOTE THEN LET r == StrBody(s, i + 1, <<>>) IN [end |-> r.end, kind |-> "s", val |-> r.val]
  ELSE IF OccursAt(s, TrueLit, i)  THEN [end |-> i + 4, kind |-> "t", val |-> TrueLit]
  ELSE IF OccursAt(s, FalseLit, i) THEN [end |-> i + 5, kind |-> "f", val |-> FalseLit]
  ELSE IF OccursAt(s, NullLit, i)  THEN [end |-> i + 4, kind |-> "z", val |-> NullLit]
  ELSE LET n == NumCharRun(s, i)  tok == SubSeq(s, i, i + n - 1) IN
       IF n > 0 /\ IsJsonNumber(tok) THEN [end |-> i + n, kind |-> "n", val |-> tok] ELSE NoVal

Fail == [ok |-> FALSE, mem |-> <<>>]
Finish(s, i, acc) == IF SkipWs(s, i) = Len(s) + 1 THEN [ok |-> TRUE, mem |-> acc] ELSE Fail

RECURSIVE Members(_, _, _)
\* i: the start of a member (white space skipped)
Members(s, i, acc) ==
  IF i > Len(s) \/ s[i] # QUOTE THEN Fail
  ELSE LET k == StrBody(s, i + 1, <<>>) IN
    IF k.end = 0 THEN Fail
    ELSE LET j == SkipWs(s, k.end) IN
      IF j > Len(s) \/ s[j] # COLON THEN Fail
      ELSE LET v == Value(s, SkipWs(s, j + 1)) IN
        IF v.end = 0 THEN Fail
        ELSE LET m == [key |-> k.val, kind |-> v.kind, val |-> v.val]
                 n == SkipWs(s, v.end) IN
          IF n > Len(s) THEN Fail
          ELSE IF s[n] = COMMA THEN Members(s, SkipWs(s, n + 1), Append(acc, m))
          ELSE IF s[n] = RBRACE THEN Finish(s, n + 1, Append(acc, m))
          ELSE Fail

\* [ok, mem]: is s exactly one flat JSON object, and its members in textual order
Parse(s) ==
  LET i0 == SkipWs(s, 1) IN
  IF i0 > Len(s) \/ s[i0] # LBRACE THEN Fail
  ELSE LET i1 == SkipWs(s, i0 + 1) IN
       IF i1 <= Len(s) /\ s[i1] = RBRACE THEN Finish(s, i1 + 1, <<>>) ELSE Members(s, i1, <<>>)

Valid(s)  == Parse(s).ok
Decode(s) == Parse(s).mem

-----------------------------------------------------------------------------
(* The requirement                                                              *)

Member(key, text) == [key |-> key, text |-> text]

\* groups[i] = text of group i-1 (group 0 = the whole match; a group that did not take part is empty);
\* names = <<name, group index>> of the named groups
GroupText(groups, idx) == IF idx >= 0 /\ idx + 1 <= Len(groups) THEN groups[idx + 1] ELSE <<>>

Expected(names, groups, named, numbered) ==
  (IF named THEN [k \in 1..Len(names) |-> Member(names[k][1], GroupText(groups, names[k][2]))] ELSE <<>>)
  \o (IF numbered THEN [i \in 1..Len(groups) |-> Member(Itoa(i - 1), groups[i])] ELSE <<>>)

\* the domain: group names are distinct identifiers (letter or _ first), so they need no escaping and
\* cannot collide with the numbered members
IsIdent(n) ==
  /\ n # <<>> /\ (IsUpper(n[1]) \/ IsLower(n[1]) \/ n[1] = 95)
  /\ \A i \in 1..Len(n) : IsUpper(n[i]) \/ IsLower(n[i]) \/ IsDigit(n[i]) \/ n[i] = 95
NamesOK(names, groups) ==
  /\ \A k \in 1..Len(names) : IsIdent(names[k][1]) /\ names[k][2] >= 0 /\ names[k][2] < Len(groups)
  /\ \A j, k \in 1..Len(names) : j # k => names[j][1] # names[k][1]

\* a decoded member stands for the captured text
ValueFaithful(m, text) ==
  CASE m.kind = "s" -> FaithfulStr(m.val, text)
    [] m.kind = "n" -> NumEq(m.val, text)
    [] m.kind = "t" -> LowerASCII(text) = TrueLit
    [] m.kind = "f" -> LowerASCII(text) = FalseLit
    [] OTHER -> FALSE

DistinctKeys(mem) == \A i, j \in 1..Len(mem) : i # j => mem[i].key # mem[j].key

\* every decoded member is a demanded one with a faithful value; every demanded member with a
\* non-empty text is present (a member for an empty capture may be left out)
MembersMeet(mem, exp) ==
  /\ DistinctKeys(mem)
  /\ \A i \in 1..Len(mem) : \E k \in 1..Len(exp) : exp[k].key = mem[i].key /\ ValueFaithful(mem[i], exp[k].text)
  /\ \A k \in 1..Len(exp) : exp[k].text # <<>> => \E i \in 1..Len(mem) : mem[i].key = exp[k].key

Meets(out, exp) == LET p == Parse(out) IN p.ok /\ MembersMeet(p.mem, exp)

\* why a text fails (used to classify findings)
WhyP(p, out, exp) ==          \* p = Parse(out)
  IF ~p.ok THEN (IF \E i \in 1..Len(out) : out[i] < 32 THEN "invalid:control-char" ELSE "invalid:syntax")
  ELSE IF ~DistinctKeys(p.mem) THEN "duplicate-key"
  ELSE IF \E i \in 1..Len(p.mem) : \A k \in 1..Len(exp) : exp[k].key # p.mem[i].key THEN "extra-member"
  ELSE IF \E k \in 1..Len(exp) : exp[k].text # <<>> /\ \A i \in 1..Len(p.mem) : p.mem[i].key # exp[k].key THEN "missing-member"
  ELSE LET bads == {i \in 1..Len(p.mem) : \A k \in 1..Len(exp) : exp[k].key = p.mem[i].key => ~ValueFaithful(p.mem[i], exp[k].text)} IN
       IF bads = {} THEN "ok"
       ELSE LET m == p.mem[MinOf(bads)] IN
            "unfaithful:" \o (CASE m.kind = "s" -> "string" [] m.kind = "n" -> "number" [] m.kind \in {"t", "f"} -> "boolean" [] OTHER -> "null")
Why(out, exp) == WhyP(Parse(out), out, exp)
=============================================================================

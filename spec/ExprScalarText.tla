--------------------------- MODULE ExprScalarText ---------------------------
(* C11 - text as the expression language sees it: values are byte strings that *)
(* hold UTF-8.  "False is an empty value (or only whitespace)"                  *)
(* (docs/usage/expressions.md): white space is the Unicode property White_Space *)
(* (25 code points), not the six ASCII blanks.                                  *)
(*   U8Decode(s)   the scalar values of s; an ill-formed byte yields -1 and is  *)
(*                 skipped alone (as every conforming decoder reports it)       *)
(*   U8Encode(cp)  the UTF-8 bytes of a scalar value                            *)
(*   U8WS          White_Space                                                  *)
(*   U8Visible(cp) certainly a visible character (letters, digits, punctuation, *)
(*                 symbols of the scripts listed); code points that are neither *)
(*                 White_Space nor in this set (controls, format characters,    *)
(*                 zero width space, U+180E, unassigned, ...) are not classified*)
EXTENDS Bytes

U8WS == {9, 10, 11, 12, 13, 32, 133, 160, 5760} \cup (8192..8202) \cup {8232, 8233, 8239, 8287, 12288}

U8Visible(cp) ==
  \/ cp >= 33 /\ cp <= 126
  \/ cp >= 161 /\ cp <= 172          \* Latin-1 punctuation and symbols (173 = soft hyphen: not classified)
  \/ cp >= 174 /\ cp <= 591          \* Latin-1 letters, Latin Extended-A/B
  \/ cp >= 913 /\ cp <= 929          \* Greek capitals
  \/ cp >= 945 /\ cp <= 969          \* Greek small
  \/ cp >= 1040 /\ cp <= 1103        \* Cyrillic
  \/ cp >= 1488 /\ cp <= 1514        \* Hebrew letters
  \/ cp >= 1632 /\ cp <= 1641        \* Arabic-Indic digits
  \/ cp >= 8364 /\ cp <= 8364        \* euro sign
  \/ cp >= 8592 /\ cp <= 8703        \* arrows
  \/ cp >= 12353 /\ cp <= 12438      \* Hiragana
  \/ cp >= 19968 /\ cp <= 40959      \* CJK unified ideographs
  \/ cp >= 44032 /\ cp <= 55203      \* Hangul syllables
  \/ cp >= 128512 /\ cp <= 128591    \* emoticons

U8Cont(b) == b >= 128 /\ b <= 191
U8Bad == [cp |-> 0 - 1, n |-> 1]
\* the scalar value that starts at s[i] and the number of bytes it takes
U8At(s, i) ==
  LET b == s[i]  rem == Len(s) - i + 1 IN
  IF b < 128 THEN [cp |-> b, n |-> 1]
  ELSE IF b >= 194 /\ b <= 223 THEN
       IF rem >= 2 /\ U8Cont(s[i + 1]) THEN [cp |-> (b - 192) * 64 + (s[i + 1] - 128), n |-> 2] ELSE U8Bad
  ELSE IF b >= 224 /\ b <= 239 THEN
       IF rem >= 3 /\ U8Cont(s[i + 1]) /\ U8Cont(s[i + 2]) THEN
         LET cp == (b - 224) * 4096 + (s[i + 1] - 128) * 64 + (s[i + 2] - 128) IN
         IF cp < 2048 \/ (cp >= 55296 /\ cp <= 57343) THEN U8Bad ELSE [cp |-> cp, n |-> 3]   \* overlong, surrogate
       ELSE U8Bad
  ELSE IF b >= 240 /\ b <= 244 THEN
       IF rem >= 4 /\ U8Cont(s[i + 1]) /\ U8Cont(s[i + 2]) /\ U8Cont(s[i + 3]) THEN
         LET cp == (b - 240) * 262144 + (s[i + 1] - 128) * 4096 + (s[i + 2] - 128) * 64 + (s[i + 3] - 128) IN
         IF cp < 65536 \/ cp > 1114111 THEN U8Bad ELSE [cp |-> cp, n |-> 4]
       ELSE U8Bad
  ELSE U8Bad                                                \* a continuation byte, C0, C1, F5..FF

RECURSIVE U8From(_, _)
U8From(s, i) == IF i > Len(s) THEN <<>> ELSE LET r == U8At(s, i) IN <<r.cp>> \o U8From(s, i + r.n)
U8Decode(s) == U8From(s, 1)
U8WellFormed(s) == LET d == U8Decode(s) IN \A i \in 1..Len(d) : d[i] >= 0

U8Encode(cp) ==
  IF cp < 128 THEN <<cp>>
  ELSE IF cp < 2048 THEN <<192 + (cp \div 64), 128 + (cp % 64)>>
  ELSE IF cp < 65536 THEN <<224 + (cp \div 4096), 128 + ((cp \div 64) % 64), 128 + (cp % 64)>>
  ELSE <<240 + (cp \div 262144), 128 + ((cp \div 4096) % 64), 128 + ((cp \div 64) % 64), 128 + (cp % 64)>>
RECURSIVE U8EncodeAll(_)
U8EncodeAll(cps) == IF cps = <<>> THEN <<>> ELSE U8Encode(cps[1]) \o U8EncodeAll(Tail(cps))

\* a value that is nothing but white space: well-formed UTF-8, every scalar value in White_Space
U8AllBlank(s) == LET d == U8Decode(s) IN \A i \in 1..Len(d) : d[i] \in U8WS
\* a value that certainly shows something: well-formed and some visible character
U8SomeVisible(s) == LET d == U8Decode(s) IN (\A i \in 1..Len(d) : d[i] >= 0) /\ (\E i \in 1..Len(d) : U8Visible(d[i]))
=============================================================================

---------------------------- MODULE MiniJson_Gen ----------------------------
(* B1 generator for C16.  TLC enumerates the input space of the plan and prints,  *)
(* for every input, the member list the property demands (Expected) and the text  *)
(* of the reference encoder (MiniJsonEnc, reported when the real text differs).   *)
(*                                                                              *)
(*  val   one captured text v over the byte alphabet                             *)
(*          {a " \ 0x01 0x1f LF e-acute 0xff 0 7 . - e +}:  all with up to N      *)
(*          symbols, and the (N+1)-symbol texts of the slice selected by Seed;   *)
(*          plus the directed texts of Extra.  The driver evaluates it through   *)
(*          minijson directly (inferred and string) and as the only, named,      *)
(*          group of a regex (and of a dissect) matcher with the view ViewOf(v)  *)
(*  view  1..3 groups with texts from a pool x every choice of named groups x     *)
(*          {.}, {#}, {.#}; the driver builds a regex and a dissect matcher with  *)
(*          these groups, evaluates the match many times and records every        *)
(*          distinct text                                                        *)
(*  hist  multi-source histories for ONE extractor: 2 sources of 1..2 lines and   *)
(*          3 sources of 1 line, the lines drawn from a pool of HPool lines      *)
(*          (rotated by Seed) x 4 choices of named groups / view.  The driver    *)
(*          feeds every source as batches with line numbers restarting at 1      *)
(*          to extractor.New with one worker and with several, with and without *)
(*          an ignore set that evaluates the view first (MiniJsonCtx is the      *)
(*          model of these runs), and records the whole history                  *)
(* The recorded outputs are validated by MiniJson_Trace.                         *)
EXTENDS MiniJsonEnc, Json

CONSTANTS N,       \* exhaustive value length in symbols
          Seed,    \* selects the slice of (N+1)-symbol values
          Slices,  \* number of slices (1 = all of them)
          Pool3,   \* size of the value pool for three groups
          HPool    \* number of lines in the pool of the history vectors

VARIABLE g

SymSeq == <<<<97>>, <<34>>, <<92>>, <<1>>, <<31>>, <<10>>, <<195, 169>>, <<255>>, <<48>>, <<55>>, <<46>>, <<45>>, <<101>>, <<43>>>>
NS == Len(SymSeq)
IdxStrs(n) == UNION {[1..k -> 1..NS] : k \in 0..n}
Text(f) == Flatten([i \in 1..Len(f) |-> SymSeq[f[i]]])
RECURSIVE Sum(_, _)
Sum(f, i) == IF i > Len(f) THEN 0 ELSE f[i] * (2 * i + 1) + Sum(f, i + 1)
Sliced == {f \in [1..(N + 1) -> 1..NS] : (Sum(f, 1) + Seed) % Slices = 0}

\* directed texts: case variants of the literals, numeric shapes, 4-byte UTF-8, an encoded surrogate,
\* U+FFFD itself, DEL, U+2028, every remaining control character
Extra == {<<116, 82, 85, 101>>, <<102, 65, 76, 83, 101>>, <<70, 97, 108, 115, 101>>, <<84, 82, 85, 69>>, <<116, 114, 117, 101>>, <<84, 114, 117, 101>>, <<70, 65, 76, 83, 69>>, <<102, 97, 108, 115, 101>>,
          <<102, 97, 108, 197, 191, 101>>, <<70, 65, 76, 197, 191, 69>>, <<116, 114, 117, 101, 32>>, <<110, 117, 108, 108>>,
          <<48, 48>>, <<48, 49>>, <<48, 46, 53>>, <<48, 48, 46, 53>>, <<49, 46, 53, 48>>, <<45, 49>>, <<45, 48>>, <<43, 49>>,
          <<49, 101, 53>>, <<49, 69, 53>>, <<49, 46>>, <<46, 53>>, <<49, 46, 50, 46, 51>>, <<48, 120, 49, 48>>, <<49, 50, 51, 52, 53, 54, 55, 56, 57, 48, 49, 50, 51, 52, 53, 54, 55, 56, 57, 48, 49, 50, 51>>,
          <<48, 48, 55, 97>>, <<32, 55>>, <<55, 32>>, <<240, 159, 152, 128>>, <<237, 160, 128>>, <<239, 191, 189>>, <<127>>,
          <<226, 128, 168>>, <<195>>, <<169>>, <<97, 255, 10, 255>>, <<255, 10, 255>>, <<47>>, <<60, 62, 38>>, <<123, 125>>}
         \cup {<<b>> : b \in 0..31} \cup {<<97, b, 98>> : b \in 0..31}

Vals == {Text(f) : f \in IdxStrs(N)} \cup {Text(f) : f \in Sliced} \cup Extra

VP == <<<<>>, <<97>>, <<48, 48, 55>>, <<55>>, <<84, 114, 117, 101>>, <<34>>, <<1>>, <<255>>, <<195, 169>>>>
NameOf(i) == <<96 + i>>            \* a, b, c
BAR == 124
GroupsOf(vals) == <<JoinSeq(vals, <<BAR>>)>> \o vals
NamesOf(S) == LET q == SetToSeq(S) IN [k \in 1..Len(q) |-> <<NameOf(q[k]), q[k]>>]
PoolFor(n) == IF n = 3 THEN 1..Pool3 ELSE 1..Len(VP)
ViewCases == UNION {{[vals |-> [i \in 1..n |-> VP[v[i]]], named |-> S, view |-> w] :
                       v \in [1..n -> PoolFor(n)], S \in SUBSET (1..n), w \in {".", "#", ".#"}} : n \in 1..3}

Pairs(exp) == [k \in 1..Len(exp) |-> <<exp[k].key, exp[k].text>>]
K == <<107>>
RECURSIVE ByteSum(_)
ByteSum(v) == IF v = <<>> THEN 0 ELSE v[1] + ByteSum(Tail(v))
ViewOf(v) == <<".", "#", ".#">>[((Len(v) + ByteSum(v)) % 3) + 1]     \* the three views take turns
ValVector(v) ==
  LET names == <<<<NameOf(1), 1>>>>  groups == <<v, v>>  view == ViewOf(v)
      named == view \in {".", ".#"}  numb == view \in {"#", ".#"} IN
  [t |-> "val", v |-> v, view |-> view,
   refi |-> EncodeOps(<<[op |-> "inferred", key |-> K, val |-> v]>>),
   refs |-> EncodeOps(<<[op |-> "string", key |-> K, val |-> v]>>),
   names |-> names, groups |-> groups,
   exp |-> Pairs(Expected(names, groups, named, numb)),
   ref |-> Encode(names, groups, named, numb)]
ViewVector(x) ==
  LET groups == GroupsOf(x.vals)  names == NamesOf(x.named)
      named == x.view \in {".", ".#"}  numb == x.view \in {"#", ".#"} IN
  [t |-> "view", vals |-> x.vals, named |-> SetToSeq(x.named), view |-> x.view, names |-> names, groups |-> groups,
   exp |-> Pairs(Expected(names, groups, named, numb)),
   ref |-> Encode(names, groups, named, numb)]

\* ---- histories: lines of two groups
HLineSeq == <<<<<<97>>, <<55>>>>, <<<<98>>, <<55>>>>, <<<<97>>, <<48, 48, 55>>>>, <<<<34>>, <<255>>>>, <<<<>>, <<97>>>>,
              <<<<84, 114, 117, 101>>, <<49>>>>, <<<<98>>, <<55, 46, 48>>>>>>
HLine(i) == HLineSeq[((i + Seed) % Len(HLineSeq)) + 1]
HSrcs == UNION {[1..k -> 1..HPool] : k \in 1..2}
HScen == {<<a, b>> : a \in HSrcs, b \in HSrcs} \cup {<<a, b, c>> : a \in [1..1 -> 1..HPool], b \in [1..1 -> 1..HPool], c \in [1..1 -> 1..HPool]}
HViews == <<[named |-> {1, 2}, view |-> "."], [named |-> {1}, view |-> ".#"], [named |-> {}, view |-> "#"], [named |-> {2}, view |-> "."]>>
HistVector(x) ==
  LET hv == HViews[x.hv]  names == NamesOf(hv.named)
      named == hv.view \in {".", ".#"}  numb == hv.view \in {"#", ".#"} IN
  [t |-> "hist", named |-> SetToSeq(hv.named), view |-> hv.view, names |-> names,
   srcs |-> [s \in 1..Len(x.srcs) |-> [k \in 1..Len(x.srcs[s]) |->
               LET vals == HLine(x.srcs[s][k])  groups == GroupsOf(vals) IN
               [vals |-> vals, groups |-> groups, exp |-> Pairs(Expected(names, groups, named, numb)),
                ref |-> Encode(names, groups, named, numb)]]]]

\* header states (one per first symbol / per group count), their successors are the vectors
Init == g \in {[hdr |-> TRUE, kind |-> "val", part |-> p, x |-> <<>>] : p \in 0..NS}
             \cup {[hdr |-> TRUE, kind |-> "view", part |-> n, x |-> <<>>] : n \in 1..3}
             \cup {[hdr |-> TRUE, kind |-> "hist", part |-> n, x |-> <<>>] : n \in 1..Len(HViews)}
ValPart(p) == IF p = 0 THEN {v \in Vals : v = <<>> \/ \A q \in 1..NS : ~IsPrefixOf(SymSeq[q], v)}
              ELSE {v \in Vals : v # <<>> /\ IsPrefixOf(SymSeq[p], v) /\ \A q \in 1..(p - 1) : ~IsPrefixOf(SymSeq[q], v)}
Next == g.hdr /\ g' \in (IF g.kind = "val"
                         THEN {[hdr |-> FALSE, kind |-> "val", part |-> g.part, x |-> v] : v \in ValPart(g.part)}
                         ELSE IF g.kind = "view"
                         THEN {[hdr |-> FALSE, kind |-> "view", part |-> g.part, x |-> x] : x \in {y \in ViewCases : Len(y.vals) = g.part}}
                         ELSE {[hdr |-> FALSE, kind |-> "hist", part |-> g.part, x |-> [srcs |-> sc, hv |-> g.part]] : sc \in HScen})

Dump == g.hdr \/ PrintT("VFJ " \o ToJson(IF g.kind = "val" THEN ValVector(g.x) ELSE IF g.kind = "view" THEN ViewVector(g.x) ELSE HistVector(g.x)))
=============================================================================

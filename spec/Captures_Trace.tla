--------------------------- MODULE Captures_Trace ---------------------------
(* C02 / B2 - validates what the REAL pipeline, the real colouriser and the real   *)
(* `rare filter` binary produced against the C02 specifications (Captures,         *)
(* Colorize, PipelineC02's line-number rule, Dissect for dissect reference         *)
(* indices).  TLC computes every expectation itself.                               *)
(*                                                                                 *)
(*  reset{t, mode, kind, pat, ic, names, tpl, srcs, ordered, ...}                  *)
(*        one pipeline run: matcher kind regex|dissect|always, dissect pattern,    *)
(*        ignore-case flag, REFERENCE name table <<name, group>>.. (regexp's own   *)
(*        SubexpNames for a regex; computed here for dissect), the template as     *)
(*        parts (Captures!Eval), the source names, ordered = 1 iff one reader and  *)
(*        one worker                                                               *)
(*  batch{f, start, n}   a batch of n lines of source f left the batcher with      *)
(*        BatchStart = start (every flush path: full, timer, final)                *)
(*  m{f, no, inr, truth, tf, tn, line0, idx0, ex, line, idx, ref}                  *)
(*        one Match, logged by the LATE consumer after the channel was drained:    *)
(*        f = index of Match.Source among srcs (0 = none), no = Match.LineNumber,  *)
(*        truth = the text the input really has at (f, no) (inr = 0 if there is no *)
(*        such line), (tf, tn) = where the observed text really is (diagnosis      *)
(*        only), line0/idx0 = copies of Line/Indices taken when the match was      *)
(*        received, line/idx = Line/Indices re-read at the very end, ex =          *)
(*        Extracted, ref = indices of Go's regexp on a copy of the line (regex     *)
(*        matchers; the trusted base for leftmost-match semantics outside the      *)
(*        subset of CapturesRegex.tla).  For dissect, the default matcher and      *)
(*        regular expressions given as a tree (header field ast, lines <= 64       *)
(*        bytes) the reference indices are computed HERE.                          *)
(*  cli{t, kind, pat, ic, names, tpl, srcs, ordered, mode, l, color, files, out}   *)
(*        one run of the binary: files[f][i] = [text, ref]; out = stdout rows      *)
(*  wrap{t, s, g, got}   color.WrapIndices(s, g) with colour enabled               *)
(*                                                                                 *)
(* A record the specification cannot explain is collected in `bad` with the first  *)
(* clause that fails (why); the rest of that pipeline run is skipped.              *)
EXTENDS Captures, TLC, Json

Col == INSTANCE Colorize
D   == INSTANCE Dissect
R   == INSTANCE CapturesRegex

Trace == ndJsonDeserialize("trace.ndjson")

VARIABLES l, tid, bad, hdr, pos, last
tvars == <<l, tid, bad, hdr, pos, last>>

Ev == Trace[l]
NoHdr == [event |-> "none"]
Starts == {"reset", "cli", "wrap"}

Before(a, b) == a[1] < b[1] \/ (a[1] = b[1] /\ a[2] < b[2])

\* reference indices of the selected matcher on this text (<<>> = no match)
\* for a regular expression of the modelled subset (header field ast) and a line of up to 64 bytes the
\* leftmost match is computed here (CapturesRegex); otherwise it is the logged result of Go's regexp
UseAst(h, text) == h.kind = "regex" /\ h.ast.op # "none" /\ Len(text) <= 64
RefIdx(h, text, e) ==
  CASE h.kind = "regex"   -> IF UseAst(h, text) THEN R!RegexIdx(h.ast, h.ng, text) ELSE e.ref
    [] h.kind = "always"  -> AlwaysIdx(text)
    [] h.kind = "dissect" -> D!Expected(D!Compiled(h.pat), text, h.ic = 1)

\* the name table of the selected matcher: for a regex the names Go's regexp reports for the expression
\* (logged), for dissect the capturing tokens in order, none for the default matcher
RefNames(h) ==
  CASE h.kind = "regex"   -> h.names
    [] h.kind = "always"  -> <<>>
    [] h.kind = "dissect" -> D!NameTable(D!Compiled(h.pat))

\* ---- batch: BatchStart is one more than the number of lines of that source batched before
BatchWhy(e) ==
  IF hdr.event # "reset" THEN "noheader"
  ELSE IF e.f \notin 1..Len(pos) THEN "batch-src"
  ELSE IF e.n < 1 THEN "batch-empty"
  ELSE IF e.start # pos[e.f] + 1 THEN "batchstart"
  ELSE "ok"

\* ---- m: one emitted match, read late
MatchWhy(e) ==
  IF hdr.event # "reset" THEN "noheader" ELSE
  LET h     == hdr
      known == e.f \in 1..Len(h.srcs)
      ref   == RefIdx(h, e.truth, e)
      c     == Ctx(IF known THEN h.srcs[e.f] ELSE <<>>, e.no, e.truth, ref, RefNames(h))
  IN IF ~known THEN "src"                                  \* a source name that is not an input
     ELSE IF e.inr # 1 THEN "lineno"                       \* that source has no line with this number
     ELSE IF e.line0 # e.truth THEN                        \* line contents are unique, so this also
          (IF e.tf = 0 THEN "text"                         \*   catches a wrong number / wrong source
           ELSE IF e.tf # e.f THEN "src" ELSE "lineno")
     ELSE IF UseAst(h, e.truth) /\ ref # e.ref THEN "reference-regex"   \* CapturesRegex and Go's regexp disagree
     ELSE IF ref = <<>> THEN "unmatched"                   \* the matcher has no match on this line
     ELSE IF ~WellFormedIdx(e.truth, ref) THEN "reference"
     ELSE IF e.idx0 # ref THEN "indices"                   \* not the leftmost match's indices
     ELSE IF e.ex # Eval(c, h.tpl) THEN "captures"         \* {N} {name} {@} {src} {line}
     ELSE IF e.line # e.line0 THEN "late-line"             \* Match.Line changed while it was held
     ELSE IF e.idx # e.idx0 THEN "late-indices"            \* Match.Indices changed while held
     ELSE IF h.ordered = 1 /\ ~Before(last, <<e.f, e.no>>) THEN "order"
     ELSE "ok"

\* ---- cli: the rows of `rare filter`
\* expected row (colour removed) of line i of file f, or <<>> paired with FALSE when nothing is printed
CliRow(e, f, i) ==
  LET ln   == e.files[f][i]
      ref  == RefIdx(e, ln.text, ln)
      c    == Ctx(e.srcs[f], i, ln.text, ref, RefNames(e))
      body == IF e.mode = "extract" THEN Eval(c, e.tpl) ELSE ln.text
      key  == IF e.mode = "extract" THEN body ELSE GetMatch(ln.text, ref, 0)     \* default extract is {0}
  IN IF ref = <<>> \/ key = <<>> THEN [p |-> FALSE, row |-> <<>>, text |-> <<>>, g |-> <<>>]
     ELSE [p |-> TRUE,
           row |-> (IF e.l = 1 THEN Col!LinePrefix(e.srcs[f], i, FALSE) ELSE <<>>) \o body,
           text |-> ln.text,
           g |-> IF Len(ref) = 2 THEN ref ELSE DropFirst(ref, 2)]
RECURSIVE CliFile(_, _, _)
CliFile(e, f, i) ==
  IF i > Len(e.files[f]) THEN <<>>
  ELSE LET r == CliRow(e, f, i) IN (IF r.p THEN <<r>> ELSE <<>>) \o CliFile(e, f, i + 1)
CliExpected(e) == Flatten([f \in 1..Len(e.files) |-> CliFile(e, f, 1)])

Count(seq, x) == Cardinality({i \in 1..Len(seq) : seq[i] = x})
CliWhy(e) ==
  LET want  == CliExpected(e)
      plain == [i \in 1..Len(e.out) |-> IF e.color = 1 THEN Col!StripAnsi(e.out[i]) ELSE e.out[i]]
      rows  == [i \in 1..Len(want) |-> want[i].row]
  IN IF \E f \in 1..Len(e.files) : \E i \in 1..Len(e.files[f]) :
          UseAst(e, e.files[f][i].text) /\ RefIdx(e, e.files[f][i].text, e.files[f][i]) # e.files[f][i].ref
     THEN "reference-regex"
     ELSE IF Len(plain) # Len(rows) THEN "cli-rows"
     ELSE IF e.ordered = 1 /\ plain # rows THEN "cli-text"
     ELSE IF \E i \in 1..Len(rows) : Count(plain, rows[i]) # Count(rows, rows[i]) THEN "cli-text"
     \* default output with colour: exactly the groups the colouriser accepts are decorated
     ELSE IF e.ordered = 1 /\ e.color = 1 /\ e.mode = "default" /\ e.l = 0
             /\ \E i \in 1..Len(want) : ~Col!WrapOK(want[i].text, want[i].g, e.out[i]) THEN "cli-colour"
     ELSE "ok"

\* ---- wrap: the colouriser on its own
WrapWhy(e) ==
  IF ~Col!GroupsOK(e.s, e.g) \/ Col!HasEsc(e.s) THEN "ok"            \* outside the domain
  ELSE IF Col!StripAnsi(e.got) # e.s THEN "wrap-strip"
  ELSE IF ~Col!WrapOK(e.s, e.g, e.got) THEN "wrap-spans"
  ELSE "ok"

Why ==
  CASE Ev.event = "batch" -> BatchWhy(Ev)
    [] Ev.event = "m"     -> MatchWhy(Ev)
    [] Ev.event = "cli"   -> CliWhy(Ev)
    [] Ev.event = "wrap"  -> WrapWhy(Ev)
    [] Ev.event = "reset" -> "ok"
    [] Ev.event = "end"   -> IF hdr.event = "reset" THEN "ok" ELSE "noheader"
    [] OTHER -> "event-" \o Ev.event          \* hang, crash ...: the run did not complete

NextStart(i) == LET S == {j \in i..Len(Trace) : Trace[j].event \in Starts}
                IN IF S = {} THEN Len(Trace) + 1 ELSE MinOf(S)

TNext ==
  /\ l <= Len(Trace)
  /\ LET w == Why IN
     IF w = "ok" THEN
       /\ l' = l + 1 /\ bad' = bad
       /\ tid' = IF Ev.event \in Starts THEN Ev.t ELSE tid
       /\ hdr' = IF Ev.event = "reset" THEN Ev ELSE IF Ev.event \in Starts \/ Ev.event = "end" THEN NoHdr ELSE hdr
       /\ pos' = IF Ev.event = "reset" THEN [f \in 1..Len(Ev.srcs) |-> 0]
                 ELSE IF Ev.event = "batch" THEN [pos EXCEPT ![Ev.f] = @ + Ev.n] ELSE pos
       /\ last' = IF Ev.event = "reset" THEN <<0, 0>>
                  ELSE IF Ev.event = "m" THEN <<Ev.f, Ev.no>> ELSE last
     ELSE
       /\ bad' = Append(bad, [t |-> IF Ev.event \in Starts THEN Ev.t ELSE tid, l |-> l, why |-> w])
       /\ l' = IF Ev.event \in {"cli", "wrap"} THEN l + 1 ELSE NextStart(l + 1)
       /\ tid' = IF Ev.event \in Starts THEN Ev.t ELSE tid
       /\ hdr' = NoHdr /\ pos' = <<>> /\ last' = <<0, 0>>

TInit == l = 1 /\ tid = 0 /\ bad = <<>> /\ hdr = NoHdr /\ pos = <<>> /\ last = <<0, 0>>
TSpec == TInit /\ [][TNext]_tvars

Final == (l = Len(Trace) + 1) =>
  JsonSerialize("bad.json", [bad |-> bad, consumed |-> l - 1, done |-> (hdr.event = "none")])
=============================================================================

---------------------------- MODULE ExprOpt_Trace ----------------------------
(* B2 for C10: the laws of the property, evaluated by TLC on records of the real  *)
(* code.  The laws relate two observations, so no per-helper model is needed:     *)
(*                                                                                *)
(*   kind "eq"   {what, f, a, b, pa, pb}                                          *)
(*        opt-noopt      a = value with optimisation, b = without (same template, *)
(*                       same context, same position of the same history)         *)
(*        hist-fresh     a = value inside a history of evaluations of one         *)
(*                       compiled expression, b = value of a fresh compilation    *)
(*                       (the value is a function of template and context only)   *)
(*        call-inline    a = {name a1 .. an}, b = the body with {i} replaced by   *)
(*                       the arguments, written inline                            *)
(*        load-names     a = names registered by the loader, b = names of the     *)
(*                       definitions written that compile (the file may also hold *)
(*                       definitions that do not: they are as if not written)     *)
(*        proc-opt-noopt a = a value obtained in a process that compiled its      *)
(*                       expressions with the optimiser (whose probe evaluation   *)
(*                       runs a data-bounded {@for} to its iteration cap), b =    *)
(*                       the same evaluation in a process that compiled them      *)
(*                       without; sequential and from several goroutines          *)
(*                       (spec/ExprProbe.tla: the probe leaves no trace)          *)
(*        conc-seq       a = value obtained while W goroutines evaluate the same  *)
(*                       compiled expression, b = the sequential value            *)
(*        cli-opt-noopt, cli-lib   the command line: with/without --no-optimize;  *)
(*                       command line = library                                   *)
(*      law: the evaluation returns (no panic on one side only) and a = b.        *)
(*      Both sides failing (a compile error reported by the command, a panic that *)
(*      optimisation does not influence) is outside this property (C08).          *)
(*   kind "vol"  {what, v1, v2, lo1, hi1, lo2, hi2}                               *)
(*        what = "live": the reading lies in the window the driver measured       *)
(*        around the evaluation, for the first evaluation and for the second one  *)
(*        at least a second later (lo2 > hi1: a frozen value cannot satisfy both);*)
(*        "delta": seconds since compilation, same windows; "now": the compile    *)
(*        time, both times.                                                        *)
(* The trace spec is total: every record is consumed; the indices the laws reject *)
(* are collected in `bad` and written by the Final invariant.                     *)
EXTENDS Integers, Sequences, Json, TLC

Trace == ndJsonDeserialize("trace.ndjson")

VARIABLES l, bad, nontrivial
tvars == <<l, bad, nontrivial>>

EqWhats == {"opt-noopt", "hist-fresh", "call-inline", "load-names", "conc-seq", "cli-opt-noopt", "cli-lib", "proc-opt-noopt"}
VolWhats == {"live", "delta", "now"}

InDomain(r) ==
  \/ r.kind = "eq" /\ r.what \in EqWhats /\ ~(r.pa /\ r.pb)
  \/ r.kind = "vol" /\ r.what \in VolWhats

EqOK(r) == ~r.pa /\ ~r.pb /\ r.a = r.b
Within(v, lo, hi) == lo <= v /\ v <= hi
VolOK(r) ==
  /\ ~r.pa /\ ~r.pb
  /\ Within(r.v1, r.lo1, r.hi1) /\ Within(r.v2, r.lo2, r.hi2)
  /\ (r.what \in {"live", "delta"} => r.lo2 > r.hi1 /\ r.v2 > r.v1)       \* it moved
  /\ (r.what = "now" => r.v1 = r.v2)

SpecOK(r) ==
  IF r.kind = "eq" THEN (r.what \in EqWhats /\ (InDomain(r) => EqOK(r)))
  ELSE IF r.kind = "vol" THEN (r.what \in VolWhats /\ VolOK(r))
  ELSE FALSE
Class(r) ==
  IF r.kind = "eq" THEN (IF r.pa # r.pb THEN "panic" ELSE "differs")
  ELSE IF r.kind = "vol" THEN
    (IF r.pa \/ r.pb THEN "panic"
     ELSE IF r.what \in {"live", "delta"} /\ r.v2 <= r.v1 THEN "frozen" ELSE "window")
  ELSE "unknown"

TInit == l = 1 /\ bad = <<>> /\ nontrivial = 0
TNext ==
  /\ l <= Len(Trace)
  /\ l' = l + 1
  /\ bad' = IF SpecOK(Trace[l]) THEN bad
            ELSE Append(bad, [t |-> l, l |-> l, f |-> Trace[l].f, what |-> Trace[l].what, class |-> Class(Trace[l])])
  /\ nontrivial' = nontrivial + (IF InDomain(Trace[l]) THEN 1 ELSE 0)
TSpec == TInit /\ [][TNext]_tvars

Final == (l = Len(Trace) + 1) =>
  JsonSerialize("bad.json", [bad |-> bad, consumed |-> l - 1, done |-> TRUE, nontrivial |-> nontrivial])
=============================================================================

---------------------------- MODULE TimeTab_Trace ----------------------------
(* B2 for the table zones of C18: every recorded evaluation of the real expression *)
(* compiler {f, p, n, x, fmt, z, b, got, cerr, panic} (c18 ztrace: instants next to *)
(* the transitions of the host's IANA zones, next to local midnights and random     *)
(* ones; timeformat, timeattr, the zone-less wall clock the real code printed read  *)
(* back by time and by buckettime for every bucket size, the nested round trips)    *)
(* must satisfy TimeTab.TExpect, the zone being its transition table (zones.json).  *)
(* Total trace spec: every record is consumed, the unexplained ones go to `bad`.    *)
EXTENDS TimeTab, TLC

Trace == ndJsonDeserialize("trace.ndjson")

VARIABLES l, bad, nontrivial
tvars == <<l, bad, nontrivial>>

Known(r) == r.f \in Funcs
SpecOK(r) == Known(r) /\ ~r.panic /\ Matches(TExpect(r), r.got, r.cerr)
Demands(r) == Known(r) /\ TExpect(r).k # "any"
Class(r) == IF ~Known(r) THEN "unknown" ELSE IF r.panic THEN "panic" ELSE "value"

TInit == l = 1 /\ bad = <<>> /\ nontrivial = 0
TNext ==
  /\ l <= Len(Trace)
  /\ l' = l + 1
  /\ bad' = IF SpecOK(Trace[l]) THEN bad ELSE Append(bad, [t |-> l, l |-> l, f |-> Trace[l].f, class |-> Class(Trace[l])])
  /\ nontrivial' = nontrivial + (IF Demands(Trace[l]) THEN 1 ELSE 0)
TSpec == TInit /\ [][TNext]_tvars

Final == (l = Len(Trace) + 1) =>
  JsonSerialize("bad.json", [bad |-> bad, consumed |-> l - 1, done |-> TRUE, nontrivial |-> nontrivial])
=============================================================================

---------------------------- MODULE ExprProbe_MC ----------------------------
(* Model-checking instances of ExprProbe.tla.  The initial state chooses the      *)
(* process: a scenario (i in PIs, j in WIs) and a mode o in Opts.                 *)
(*  Case = "scn": the process of scenario (i, j) of ExprProbeScn.tla - it compiles *)
(*     the shapes of PTrees[i] and WTrees[j] (probing them when o) and then G      *)
(*     goroutines evaluate w (and p when EvalP) on N lines each.  The shapes are   *)
(*     written out below (DeclP, DeclW); ShapesAgree (Case = "agree") checks that   *)
(*     they are what ExprProbeScn!Shape computes from the expression trees.        *)
(*  Case = "abs": hand-written shape sets (j selects): every helper on every probe *)
(*     exit path, side by side and nested.                                         *)
(* The check runs the instances with Opts = {TRUE, FALSE} (all laws must hold in   *)
(* both modes: that is "optimised = unoptimised" for every interleaving), with     *)
(* Fifo = TRUE (a pool that hands out the oldest object is as good), and the       *)
(* negative controls: Double = {"for/inf"}, {"map/zero"}, {"filter/err"} must      *)
(* violate OwnValues / ProbeNeutral when Opts = {TRUE}; Double = {"for/inf"} with  *)
(* Opts = {FALSE} satisfies every law (the deviation is reachable through the      *)
(* probe only - the two modes differ, which is the violation of C10); Leak =       *)
(* {"for/inf"} satisfies OwnValues (a pool that grows changes no value).           *)
EXTENDS ExprProbe

CONSTANTS Case,     \* "abs": the hand-written shape sets | "scn": scenarios of ExprProbeScn | "agree": only ShapesAgree
          PIs, WIs, \* the scenarios (indices into PTrees, WTrees) / the shape sets of this run
          Opts,     \* the modes of this run: subset of BOOLEAN
          EvalP     \* TRUE: the run phase evaluates p and w; FALSE: w only

SC == INSTANCE ExprProbeScn

Leaf(h, look, pexit) == PNode(h, look, <<>>, pexit)
AbsProbed(WI) ==
  CASE WI = 1 -> << Leaf("for", {"elem"}, "inf") >>
    [] WI = 2 -> << Leaf("map", {"elem"}, "zero"), Leaf("filter", {"elem", "key"}, "err"), Leaf("reduce", {"elem"}, "some") >>
    [] WI = 3 -> << PNode("for", {"elem"}, <<Leaf("map", {"elem"}, "zero")>>, "inf"), Leaf("for", {"key"}, "zero") >>
AbsWit(WI) ==
  CASE WI = 1 -> << PNode("map", {"elem"}, <<Leaf("map", {"elem"}, "some")>>, "some") >>
    [] WI = 2 -> << PNode("filter", {"elem", "key"}, <<Leaf("reduce", {"elem", "key"}, "some")>>, "some"), Leaf("map", {"elem"}, "some") >>
    [] WI = 3 -> << PNode("map", {"elem", "key"}, <<PNode("for", {"elem"}, <<Leaf("filter", {"key"}, "some")>>, "some")>>, "some") >>

\* the shapes of the scenarios, written out (ShapesAgree: they ARE what ExprProbeScn!Shape computes from the trees)
EL == {"elem"}
EK == {"elem", "key"}
DeclP(i) ==
  CASE i = 1 -> << Leaf("for", EL, "inf") >>
    [] i = 2 -> << Leaf("for", EK, "inf") >>
    [] i = 3 -> << Leaf("for", EL, "inf") >>
    [] i = 4 -> << Leaf("for", EL, "inf"), Leaf("map", EL, "some") >>
    [] i = 5 -> << PNode("for", EL, <<Leaf("filter", EL, "some")>>, "inf") >>
    [] i = 6 -> << Leaf("for", EL, "inf"), Leaf("for", EL, "inf") >>
    [] i = 7 -> << Leaf("map", EL, "zero") >>
    [] i = 8 -> << Leaf("filter", EK, "zero") >>
    [] i = 9 -> << Leaf("reduce", EL, "zero") >>
    [] i = 10 -> << Leaf("for", EL, "some") >>
    [] i = 11 -> << Leaf("for", EK, "some") >>
DeclW(j) ==
  CASE j = 1 -> << PNode("map", EL, <<Leaf("map", EL, "zero")>>, "zero") >>
    [] j = 2 -> << PNode("map", EK, <<Leaf("filter", EK, "zero")>>, "zero") >>
    [] j = 3 -> << PNode("map", EL, <<PNode("map", EL, <<Leaf("reduce", EL, "zero")>>, "zero")>>, "zero") >>
    [] j = 4 -> << Leaf("map", EK, "zero") >>
ShapesAgree ==
  /\ \A i \in 1..Len(SC!PTrees) : DeclP(i) = SC!Shape(SC!PTrees[i])
  /\ \A j \in 1..Len(SC!WTrees) : DeclW(j) = SC!Shape(SC!WTrees[j])
  /\ Len(SC!PTrees) = 11 /\ Len(SC!WTrees) = 4

\* the process compiles p and w (both are probed when Optimise) and evaluates both
MCProbed(PI, WI) == IF Case = "abs" THEN AbsProbed(WI) ELSE DeclP(PI) \o DeclW(WI)
MCWit(PI, WI) == IF Case = "abs" THEN AbsWit(WI) ELSE IF EvalP THEN DeclP(PI) \o DeclW(WI) ELSE DeclW(WI)
MCInit == \E i \in PIs, j \in WIs, o \in Opts : PInit(MCProbed(i, j), MCWit(i, j), o)
MCSpec == MCInit /\ [][PNext]_pvars /\ WF_pvars(PNext)
Agree == Case = "agree" => ShapesAgree

=============================================================================

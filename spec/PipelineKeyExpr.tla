--------------------------- MODULE PipelineKeyExpr ---------------------------
(* C01 - the facts of a line and the sequential one-line-at-a-time evaluation.    *)
(*                                                                                 *)
(* Pipeline.tla / PipelineLines.tla take the three class-deciding facts of a line *)
(* (matcher verdict, truth of every ignore expression, key) as CONSTANTS of the   *)
(* line.  In the code they are VALUES OF EXPRESSIONS evaluated in a context, and  *)
(* the context holds more than the match: besides the match groups (facts of the  *)
(* match) it answers {src} and {line} (facts of the LINE: which input it came     *)
(* from and its 1-based position there).  This module makes that explicit:        *)
(*                                                                                 *)
(*   context    [src, line, g]   src = input index, line = 1-based line number,   *)
(*              g = value of the match group (0 = the empty text)                 *)
(*   ignore expression  e, a record [op, n]; Truthy(e, c) is its truth in c       *)
(*   key expression     e, a record [op, n]; KeyOf(e, c) is its value in c        *)
(*              (a tuple of integers, <<>> = the empty key)                       *)
(*                                                                                 *)
(* The sequential evaluation reads the inputs one line at a time: line i of input *)
(* f is evaluated in the context (f, i, its own match) - SeqCtx.  The property    *)
(* demands that the pipeline gives every line the class and the key of THAT       *)
(* evaluation, whatever the batch size, the number of workers and the order in    *)
(* which batches reach them.                                                       *)
(* Everything here is constant-level and parameterised by (files, ign, ke), so    *)
(* that the state machine (PipelineKey), its model-checking constants and the     *)
(* vector generator (PipelineKey_Gen) share one definition.                        *)
EXTENDS Integers, Sequences, FiniteSets

\* ---- the expression language (what the bindings materialise as rare expressions)
\*   gtline n   {gt {line} n}          eqline n   {eq {line} n}       ltline n  {lt {line} n}
\*   eqsrc s    {eq {src} NAME(s)}     nesrc s    {not {eq {src} NAME(s)}}
\*   eqgrp v    {eq {1} WORD(v)}       never      a whitespace-only text (never truthy)
Truthy(e, c) ==
  CASE e.op = "gtline" -> c.line > e.n
    [] e.op = "ltline" -> c.line < e.n
    [] e.op = "eqline" -> c.line = e.n
    [] e.op = "eqsrc"  -> c.src = e.n
    [] e.op = "nesrc"  -> c.src # e.n
    [] e.op = "eqgrp"  -> c.g = e.n
    [] e.op = "never"  -> FALSE

\*   grp        {1}                    (empty when the group is empty)
\*   line       {line}                 src   {src}
\*   full       {src}:{line}:{1}       (never empty)
\*   ifsrc s    {if {eq {src} NAME(s)} {1}}      ifgtline n   {if {gt {line} n} {1}}
\* A key is a tagged tuple of integers; <<>> is the empty key.
KeyOf(e, c) ==
  CASE e.op = "grp"      -> IF c.g = 0 THEN <<>> ELSE <<1, c.g>>
    [] e.op = "line"     -> <<2, c.line>>
    [] e.op = "src"      -> <<3, c.src>>
    [] e.op = "full"     -> <<4, c.src, c.line, c.g>>
    [] e.op = "ifsrc"    -> IF c.src = e.n /\ c.g # 0 THEN <<1, c.g>> ELSE <<>>
    [] e.op = "ifgtline" -> IF c.line > e.n /\ c.g # 0 THEN <<1, c.g>> ELSE <<>>

\* which expressions look at facts of the line (not only of the match)
IgnReadsLine(e) == e.op \in {"gtline", "ltline", "eqline", "eqsrc", "nesrc"}
KeyReadsLine(e) == e.op \in {"line", "src", "full", "ifsrc", "ifgtline"}

\* ---- inputs: files[f][i] = [m |-> BOOLEAN (the matcher matches), g |-> Nat (the group)]
IdsOf(files) == UNION {{<<f, i>> : i \in 1..Len(files[f])} : f \in 1..Len(files)}
RecOf(files, id) == files[id[1]][id[2]]

\* the context of the sequential evaluation of line id
SeqCtx(files, id) == [src |-> id[1], line |-> id[2], g |-> RecOf(files, id).g]

\* The classification rule of the property (same as PipelineLines!Classify):
Classify(m, ig, keyEmpty) ==
  IF ~m THEN "unmatched"
  ELSE IF \E i \in DOMAIN ig : ig[i] THEN "ignored"
  ELSE IF keyEmpty THEN "ignored"
  ELSE "matched"

\* the class a context gives to a matched line
ClassIn(ign, ke, c) ==
  Classify(TRUE, [e \in DOMAIN ign |-> Truthy(ign[e], c)], KeyOf(ke, c) = <<>>)

SeqIg(files, ign, id)  == [e \in DOMAIN ign |-> Truthy(ign[e], SeqCtx(files, id))]
SeqKey(files, ke, id)  == KeyOf(ke, SeqCtx(files, id))
SeqClass(files, ign, ke, id) ==
  Classify(RecOf(files, id).m, SeqIg(files, ign, id), SeqKey(files, ke, id) = <<>>)

\* The same facts in the shape PipelineLines / PipelineObs expect (k: 0 = empty key)
SeqLines(files, ign, ke) ==
  [f \in 1..Len(files) |->
     [i \in 1..Len(files[f]) |->
        [m  |-> files[f][i].m,
         ig |-> IF files[f][i].m THEN SeqIg(files, ign, <<f, i>>) ELSE <<>>,
         k  |-> IF files[f][i].m /\ SeqKey(files, ke, <<f, i>>) # <<>> THEN 1 ELSE 0]]]

SeqCount(files, ign, ke, c) == Cardinality({id \in IdsOf(files) : SeqClass(files, ign, ke, id) = c})
\* the key multiset of the sequential evaluation, as the set of (line, key) pairs of the matched lines
SeqEmit(files, ign, ke) ==
  {<<id, SeqKey(files, ke, id)>> : id \in {x \in IdsOf(files) : SeqClass(files, ign, ke, x) = "matched"}}
=============================================================================

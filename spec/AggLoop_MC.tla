----------------------------- MODULE AggLoop_MC -----------------------------
(* Model-checking inputs for AggLoop (tuples cannot be written in a .cfg).     *)
EXTENDS AggLoop
\* file = <<batch>>, batch = <<key | 0>>
InA == << << <<1, 0>>, <<2>> >>, << <<1, 2>> >> >>              \* 2 files: 2 + 1 batches
InB == << << <<1>>, <<0>>, <<1>> >> >>                          \* 1 file, a batch without matches
InC == << << <<1>> >>, << <<2>> >>, << <<1>> >> >>              \* 3 one-batch files (file turnover)
InD == << << <<1, 2>>, <<2, 1>> >>, << <<2>>, <<0, 1>> >> >>    \* 2 files x 2 batches
InE == << << <<0>> >> >>                                        \* nothing matches at all
\* <<>> = a name that cannot be opened (see AggLoop!Missing)
InM == << <<>>, << <<1>>, <<2>> >> >>                           \* R = 1: as many unopenable names as reader slots, then a file
InN == << <<>>, <<>>, << <<1, 2>> >> >>                         \* R = 2: likewise
InO == << << <<1>> >>, <<>>, << <<2>> >>, <<>> >>               \* unopenable names between and after readable files
InP == << <<>>, <<>> >>                                         \* nothing can be opened at all
=============================================================================

----------------------------- MODULE TimeTab_Gen -----------------------------
(* B1 generator for the table zones of C18 (zones.json: the transition tables of   *)
(* the host's IANA zones).  For EVERY transition of every table TLC prints the     *)
(* calls of the instants t-1 and t (t = the transition) and of the next local day   *)
(* start (and the second before it), and for a seed-dependent                       *)
(* tenth of the transitions (all when Thorough) also of t+1, t+-1 h, t+-1 day and   *)
(* of the local day / month / quarter / year starts next to the transition (the     *)
(* start and the second before it):                                                 *)
(*   timeformat (several layouts; every layout in mode "full"), timeattr (all four  *)
(*   attributes), time and buckettime (EVERY bucket size) on the zone-less wall     *)
(*   clock text "2006-01-02 15:04:05" read in the zone, the nested round trips      *)
(* with the zone as an explicit argument, each with the text TimeTab.TExpect        *)
(* demands.  Zones without transitions (fixed offsets, UTC) get the year, quarter   *)
(* and month starts of a few years.  The Go driver evaluates every call through     *)
(* the real expression compiler (c18 replay).                                       *)
EXTENDS TimeTab, TLC

CONSTANTS Thorough, Seed

VARIABLE vec

Mk(f, n, x, fmt, z, b) == [f |-> f, n |-> n, x |-> x, fmt |-> fmt, z |-> z, b |-> b]

RTFormats    == {f \in KnownFormats : LET lay == Layout(f) IN HasDate(lay) /\ HasTime(lay) /\ HasNumOff(lay) /\ Parseable(lay)}
Zoneless     == {f \in KnownFormats : LET lay == Layout(f) IN ParseFormat(f) /\ HasTime(lay) /\ ~HasNumOff(lay)}
RF == SetToSeq(RTFormats)
NF == SetToSeq(NamedFormats)
ZL == SetToSeq(Zoneless)
BucketKinds == <<"nanos", "seconds", "minutes", "hours", "days", "months", "years">>
BucketVariant(kind, i) ==
  LET names == SelectSeq(SetToSeq(BucketNames), LAMBDA b : BucketKind(b) = kind) IN names[(i % 3) + 1]
Pick(seq, i) == seq[(i % Len(seq)) + 1]
FullFmt == "2006-01-02 15:04:05"

Calls(t, z, zi, mode) ==
  LET x   == UnixDigits(t)
      l   == Local(HostZones[zi].zd, t)
      h   == t.d + t.s + zi
      txt(f) == Format(Layout(f), l)
  IN IF mode = "full" THEN
       SetToSeq({Mk("timeformat", 3, x, f, z, "") : f \in KnownFormats})
       \o SetToSeq({Mk("timeattr", 3, x, "", z, a) : a \in AttrNames})
       \o SetToSeq({Mk("rt", 3, x, f, z, "") : f \in RTFormats})
       \o SetToSeq({Mk("time", 3, txt(f), f, z, "") : f \in Zoneless \cup {"RFC3339", "RFC1123Z"}})
       \o [i \in 1..7 |-> Mk("buckettime", 4, txt(FullFmt), FullFmt, z, BucketVariant(BucketKinds[i], h + i))]
       \o [i \in 1..7 |-> LET f == Pick(ZL, h + i) IN Mk("buckettime", 4, txt(f), f, z, BucketVariant(BucketKinds[i], h + i + 1))]
       \o [i \in 1..7 |-> Mk("bucketrt", 4, x, Pick(RF, h + 3 * i), z, BucketVariant(BucketKinds[i], h + i + 2))]
     ELSE IF mode = "mini" THEN
       SetToSeq({Mk("timeattr", 3, x, "", z, a) : a \in AttrNames})
       \o <<Mk("timeformat", 3, x, FullFmt, z, "")>>
       \o [i \in 1..7 |-> Mk("buckettime", 4, txt(FullFmt), FullFmt, z, BucketVariant(BucketKinds[i], h + i))]
     ELSE
       SetToSeq({Mk("timeattr", 3, x, "", z, a) : a \in AttrNames})
       \o <<Mk("timeformat", 3, x, "RFC3339", z, ""), Mk("timeformat", 3, x, Pick(NF, h), z, ""),
            Mk("timeformat", 3, x, FullFmt, z, ""),
            Mk("time", 3, txt(FullFmt), FullFmt, z, ""),
            Mk("rt", 3, x, Pick(RF, h), z, ""),
            Mk("bucketrt", 4, x, Pick(RF, h + 1), z, BucketVariant(BucketKinds[(h % 3) + 5], h))>>
       \o [i \in 1..7 |-> Mk("buckettime", 4, txt(FullFmt), FullFmt, z, BucketVariant(BucketKinds[i], h + i))]

\* local day / month / quarter / year starts after the reading l, as instants in offset off
Starts(l, off) ==
  LET ny == IF l.m = 12 THEN l.y + 1 ELSE l.y   nm == IF l.m = 12 THEN 1 ELSE l.m + 1
      q  == 3 * ((l.m - 1) \div 3) + 1
      qy == IF q = 10 THEN l.y + 1 ELSE l.y   qm == IF q = 10 THEN 1 ELSE q + 3
  IN {Norm(d, 0 - off) : d \in {l.ld, l.ld + 1, DaysFromCivil(l.y, l.m, 1), DaysFromCivil(ny, nm, 1),
                                DaysFromCivil(qy, qm, 1), DaysFromCivil(l.y + 1, 1, 1)}}

H(zi, i) == [hdr |-> TRUE, zi |-> zi, i |-> i]
Groups == {h \in {H(zi, i) : zi \in 1..Len(HostZones), i \in 1..300} : h.i <= Len(HostZones[h.zi].zd.tab)}
Dense(h) == Thorough \/ (h.i + h.zi + Seed) % 10 = 0
V(g, zi, t, mode) == [hdr |-> FALSE, g |-> g, zi |-> zi, t |-> t, mode |-> mode]

Cases(h) ==
  LET zd == HostZones[h.zi].zd  tab == zd.tab IN
  IF h.i = 1 THEN
     {V("tab:start", h.zi, u, "lite") :
        u \in {u \in {Norm(DaysFromCivil(y, m, 1), dl - tab[1].off) :
                        y \in {1970 + ((Seed + h.zi) % 7), 2000, 2024, 2100}, m \in {1, 3, 4, 7, 10, 12}, dl \in {0 - 1, 0}} : InRange(u)}}
  ELSE LET t == Inst(tab[h.i].d, tab[h.i].s)
           near == IF Dense(h) THEN {Plus(t, dl) : dl \in {0 - 86400, 0 - 3600, 1, 3599, 3600, 86400}} ELSE {}
           st   == IF Dense(h) THEN UNION {{s, Plus(s, 0 - 1)} : s \in Starts(Local(zd, t), tab[h.i].off)} ELSE {}
           at   == {Plus(t, 0 - 1), t}
           nd   == LET s == Norm(Local(zd, t).ld + 1, 0 - tab[h.i].off) IN {s, Plus(s, 0 - 1)}     \* the next local day start
       IN {V("tab:at", h.zi, u, IF Dense(h) THEN "full" ELSE "lite") : u \in {u \in at : InRange(u)}}
          \cup {V("tab:near", h.zi, u, "lite") : u \in {u \in (near \cup st) \ at : InRange(u)}}
          \cup {V("tab:nextday", h.zi, u, "mini") : u \in {u \in nd \ (at \cup near \cup st) : InRange(u)}}

Init == vec \in Groups
Next == vec.hdr /\ \E x \in Cases(vec) : vec' = x

Out(c) ==
  LET e == TExpect(c) IN
  [f |-> c.f, n |-> c.n, x |-> c.x, fmt |-> c.fmt, z |-> c.z, b |-> c.b, k |-> e.k, e |-> e.v, ce |-> IF e.ce THEN "y" ELSE "n"]
Dump ==
  vec.hdr \/
  LET cs == Calls(vec.t, HostZones[vec.zi].name, vec.zi, vec.mode) IN
  PrintT("VFJ " \o ToJson([g |-> vec.g, calls |-> [i \in 1..Len(cs) |-> Out(cs[i])]]))
=============================================================================

-------------------------- MODULE ExprScalarHist_MC --------------------------
(* B3 for the history layer of C11: ExprScalarHist over scenarios built from   *)
(* real helpers (the documented semantics of ExprScalar), small pools.         *)
(* The cfg chooses Design and Sched; the check runs the admissible designs     *)
(* (must satisfy Isolated) and the negative controls (must be refuted).        *)
EXTENDS ExprScalarHist, TLC

CONSTANT Pool     \* "quick" | "thorough"

I(n) == Itoa(n)
X == <<>>         \* a position of a tuple that does not count

Sa == <<97>>
Sb == <<98>>
Sx == <<120>>
Sy == <<121>>

\* {percent val "decimals" max}: value and range from the line, decimals a constant
ScPercent == [f |-> "percent", pos |-> <<"d", "c", "d">>,
              insts |-> <<<<X, I(1), X>>, <<X, I(0), X>>>>,
              ctxs |-> <<<<I(25), X, I(100)>>, <<I(25), X, I(50)>>, <<I(10), X, I(50)>>, <<I(25), X, Sa>>>>]
\* {percent "1" "0" {0}}: a constant value, the total from the line
ScPercentC == [f |-> "percent", pos |-> <<"c", "c", "d">>,
               insts |-> <<<<I(1), I(0), X>>, <<I(3), I(1), X>>>>,
               ctxs |-> <<<<X, X, I(2)>>, <<X, X, I(4)>>, <<X, X, Sa>>>>]
\* {format "%s-%s" {1} {2}}
ScFormat == [f |-> "format", pos |-> <<"c", "d", "d">>,
             insts |-> <<<<<<37, 115, 45, 37, 115>>, X, X>>, <<<<37, 115, 58, 37, 115>>, X, X>>>>,
             ctxs |-> <<<<X, Sa, Sb>>, <<X, Sx, Sy>>, <<X, Sa, Sy>>>>]
ScSumi == [f |-> "sumi", pos |-> <<"d", "d">>, insts |-> <<<<X, X>>>>,
           ctxs |-> <<<<I(1), I(2)>>, <<I(1), I(3)>>, <<I(4), I(2)>>, <<Sa, I(2)>>>>]
ScSubi3 == [f |-> "subi", pos |-> <<"d", "c", "d">>, insts |-> <<<<X, I(10), X>>, <<X, I(0 - 1), X>>>>,
            ctxs |-> <<<<I(100), X, I(2)>>, <<I(100), X, I(3)>>, <<I(7), X, I(2)>>>>]
ScClamp == [f |-> "clamp", pos |-> <<"d", "c", "c">>, insts |-> <<<<X, I(0), I(10)>>, <<X, I(0), I(5)>>>>,
            ctxs |-> <<<<I(7), X, X>>, <<I(12), X, X>>, <<I(0 - 1), X, X>>, <<Sa, X, X>>>>]
ScBucket == [f |-> "bucket", pos |-> <<"d", "c">>, insts |-> <<<<X, I(10)>>, <<X, I(50)>>>>,
             ctxs |-> <<<<I(0 - 100), X>>, <<I(57), X>>, <<I(100), X>>>>]
ScIf == [f |-> "if", pos |-> <<"d", "d", "d">>, insts |-> <<<<X, X, X>>>>,
         ctxs |-> <<<<Sa, Sx, Sy>>, <<<<>>, Sx, Sy>>, <<Sa, Sb, Sy>>, <<<<>>, Sx, Sb>>>>]
ScLt == [f |-> "lt", pos |-> <<"d", "d">>, insts |-> <<<<X, X>>>>,
         ctxs |-> <<<<I(1), I(2)>>, <<I(3), I(2)>>, <<I(1), I(1)>>, <<I(1), Sa>>>>]
ScSubstr == [f |-> "substr", pos |-> <<"d", "d", "c">>, insts |-> <<<<X, X, I(2)>>, <<X, X, I(3)>>>>,
             ctxs |-> <<<<<<97, 98, 99, 100, 101>>, I(1), X>>, <<<<97, 98, 99, 100, 101>>, I(2), X>>,
                        <<<<118, 119, 120, 121, 122>>, I(1), X>>>>]
ScTab == [f |-> "tab", pos |-> <<"d", "d", "d">>, insts |-> <<<<X, X, X>>>>,
          ctxs |-> <<<<Sa, Sb, Sx>>, <<Sy, Sy, Sy>>>>]
ScHi == [f |-> "hi", pos |-> <<"d">>, insts |-> <<<<X>>>>, ctxs |-> <<<<I(1234567)>>, <<I(0 - 1000)>>, <<Sa>>, <<I(12)>>>>]

MCScenarios ==
  IF Pool = "quick" THEN {ScPercent, ScPercentC, ScFormat, ScSumi, ScClamp, ScIf, ScHi}
  ELSE {ScPercent, ScPercentC, ScFormat, ScSumi, ScSubi3, ScClamp, ScBucket, ScIf, ScLt, ScSubstr, ScTab, ScHi}

\* the scenarios are not vacuous: within every scenario two (instance, context) pairs have
\* different expectations, and the specification demands something of every pair but error cases
Discriminating ==
  \A s \in MCScenarios :
    \E i1, i2 \in 1..Len(s.insts), c1, c2 \in 1..Len(s.ctxs) :
      LET e1 == Expect(s.f, OwnArgs(s, i1, c1), s.pos)
          e2 == Expect(s.f, OwnArgs(s, i2, c2), s.pos)
      IN e1 # e2 /\ e1.k # "any" /\ e2.k # "any"
ASSUME Discriminating
=============================================================================

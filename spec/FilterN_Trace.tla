---------------------------- MODULE FilterN_Trace ----------------------------
(* B2: every record is one run of the real `rare filter -n N` over one or more    *)
(* files; the record says which lines match (the driver built the input), which  *)
(* lines the binary printed (each line carries its file and number), the summary  *)
(* numbers and the exit status.  A record FilterN.tla cannot explain is listed in *)
(* `bad` with its class; the validation is total (never stops at a record).       *)
(*   rec: [t, n, w, b, files: <<[match: <<0|1>>]>>, out: <<[f, i]>>, suma, sumb, code, custom: BOOLEAN]                  *)
EXTENDS Integers, Sequences, FiniteSets, SequencesExt, TLC, Json

Trace == ndJsonDeserialize("trace.ndjson")
VARIABLES l, bad
tvars == <<l, bad>>

MinI(a, b) == IF a < b THEN a ELSE b
RECURSIVE SumLen(_, _)
SumLen(fs, k) == IF k > Len(fs) THEN 0 ELSE Len(fs[k].match) + SumLen(fs, k + 1)
RECURSIVE CountM(_, _)
CountM(v, k) == IF k > Len(v) THEN 0 ELSE v[k] + CountM(v, k + 1)
RECURSIVE SumM(_, _)
SumM(fs, k) == IF k > Len(fs) THEN 0 ELSE CountM(fs[k].match, 1) + SumM(fs, k + 1)
MatchesOf(v) == SelectSeq([i \in 1..Len(v) |-> i], LAMBDA i : v[i] = 1)

Why(r) ==
  LET M == SumM(r.files, 1)
      R == SumLen(r.files, 1)
      want == IF r.n > 0 THEN MinI(r.n, M) ELSE M
      out == r.out
      ok(o) == o.f \in 1..Len(r.files) /\ o.i \in 1..Len(r.files[o.f].match) /\ r.files[o.f].match[o.i] = 1
  IN
  (IF \A k \in 1..Len(out) : ok(out[k]) THEN {} ELSE {"not-a-match"}) \cup
  (IF \A j, k \in 1..Len(out) : j # k => out[j] # out[k] THEN {} ELSE {"duplicate"}) \cup
  (IF Len(out) = want THEN {} ELSE IF Len(out) > want THEN {"too-many"} ELSE {"too-few"}) \cup
  \* lines of one input batch of one file keep their order
  (IF \A j, k \in 1..Len(out) :
        (j < k /\ out[j].f = out[k].f /\ (out[j].i - 1) \div r.b = (out[k].i - 1) \div r.b) => out[j].i < out[k].i
   THEN {} ELSE {"batch-order"}) \cup
  \* one file, one worker: exactly the first matches, in input order
  (IF Len(r.files) = 1 /\ r.w = 1 /\ (\A k \in 1..Len(out) : ok(out[k]))
      /\ [k \in 1..Len(out) |-> out[k].i] # SubSeq(MatchesOf(r.files[1].match), 1, MinI(Len(out), M))
   THEN {"first-n"} ELSE {}) \cup
  \* summary line: "Matched: <printed> / <N>" with a limit, "Matched: <M> / <R>" without
  (IF r.n > 0 THEN (IF r.suma = Len(out) /\ r.sumb = r.n THEN {} ELSE {"summary"})
   ELSE (IF r.suma = M /\ r.sumb = R THEN {} ELSE {"summary"})) \cup
  (IF r.code = (IF M = 0 THEN 1 ELSE 0) THEN {} ELSE {"exit"})

TInit == l = 1 /\ bad = <<>>
TNext == /\ l <= Len(Trace)
         /\ l' = l + 1
         /\ LET w == Why(Trace[l]) IN
            bad' = IF w = {} THEN bad ELSE Append(bad, [t |-> Trace[l].t, l |-> l, why |-> SetToSeq(w)])
TSpec == TInit /\ [][TNext]_tvars
Final == (l = Len(Trace) + 1) => JsonSerialize("bad.json", [bad |-> bad, consumed |-> l - 1, done |-> TRUE])
=============================================================================

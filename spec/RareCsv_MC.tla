------------------------------ MODULE RareCsv_MC ------------------------------
(* C03, B3 for CsvDec: laws of the RFC 4180 decoder, checked by TLC over every  *)
(* small input.                                                                  *)
(*  Mode "roundtrip": for all record sets (1..2 records, 1..MaxF fields, fields  *)
(*     over {a, comma, quote, LF, CR, space} up to length 2 for single records, 1 for     *)
(*     pairs), all three quoting styles and both line terminators:               *)
(*     Decode(Encode(recs)) = recs.                                              *)
(*  Mode "bytes": for every byte string over {a, comma, quote, LF} up to length  *)
(*     MaxF: the decoder is total; accepted text re-encoded canonically decodes  *)
(*     to the same records; accepted text has an even number of quotes.          *)
EXTENDS CsvDec, FiniteSets, TLC

CONSTANTS Mode, MaxF

Alpha == {97, COMMA, DQUOTE, C_LF, C_CR, 32}
Strs(n) == UNION {[1..k -> Alpha] : k \in 0..n}
RecsOf(n) == UNION {[1..k -> Strs(n)] : k \in 1..MaxF}

VARIABLE x
CInit ==
  IF Mode = "roundtrip"
  THEN x \in {<<r>> : r \in RecsOf(2)} \cup {<<r1, r2>> : r1 \in RecsOf(1), r2 \in RecsOf(1)}
  ELSE x \in UNION {[1..k -> {97, COMMA, DQUOTE, C_LF}] : k \in 0..MaxF}
CNext == UNCHANGED x

RoundTrip ==
  \A style \in {"min", "all", "go"} : \A eol \in {<<C_LF>>, <<C_CR, C_LF>>} :
     Decode(Encode(x, style, eol)) = [ok |-> TRUE, recs |-> x]

Canonical ==
  LET dd == Decode(x) IN dd.ok => Decode(Encode(dd.recs, "all", <<C_LF>>)) = dd
QuoteParity ==
  LET dd == Decode(x) IN dd.ok => Cardinality({i \in 1..Len(x) : x[i] = DQUOTE}) % 2 = 0
=============================================================================

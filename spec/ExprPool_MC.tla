----------------------------- MODULE ExprPool_MC -----------------------------
(* Model-checking configurations of ExprPool.tla (constants that a .cfg file cannot spell). *)
EXTENDS ExprPool

\* single helpers and both nestings ("map" = @map / @filter / @reduce)
ProgsAll == {<<"map">>, <<"for">>, <<"map", "for">>, <<"for", "map">>, <<"map", "map">>}
ProgsFlat == {<<"map">>, <<"for">>}
ProgsMix == {<<"map">>, <<"for", "map">>}
=============================================================================

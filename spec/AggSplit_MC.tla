---------------------------- MODULE AggSplit_MC ----------------------------
(* B3 + B1 generator for the field splitter.                                    *)
(* One Splitter object per initial state - EVERY string up to MaxS bytes with    *)
(* EVERY delimiter of 1..MaxD bytes over a two-letter alphabet (all overlap       *)
(* shapes: "aa" in "aaa", "aab" in "aaab", "aba" in "ababa", a delimiter whose    *)
(* first byte also stands alone) - and then any sequence of Next / NextOk / Done  *)
(* calls, two beyond exhaustion.  SplitterOK: every answer is the abstract        *)
(* layer's; SplitLaw / JoinLaw: the algebra of AggSplit.tla; Dump: one vector per *)
(* (string, delimiter) with the field list for the bindings.                      *)
EXTENDS AggSplit, Json

CONSTANTS Search,     \* splitter variant (AggSplit.tla)
          MaxS, MaxD, \* string / delimiter lengths
          MaxF        \* field lists of the join laws: up to MaxF fields of up to 2 bytes
VARIABLES sp, k, last
svars == <<sp, k, last>>

Alpha == {97, 98}
SeqsUpTo(lo, hi) == UNION {[1..m -> Alpha] : m \in lo..hi}
Strs == SeqsUpTo(0, MaxS)
Delims == SeqsUpTo(1, MaxD)
FieldLists == UNION {[1..n -> SeqsUpTo(0, 2)] : n \in 1..MaxF}

F == Fields(sp.S, sp.Delim)
SInit == sp \in {SpNew(s, d) : s \in Strs, d \in Delims} /\ k = 0 /\ last = [op |-> "new"]
CallNext ==
  LET r == SpNext(Search, sp) IN sp' = r.sp /\ k' = k + 1 /\ last' = [op |-> "next", ret |-> r.ret]
CallNextOk ==
  LET r == SpNextOk(Search, sp) IN sp' = r.sp /\ k' = k + 1 /\ last' = [op |-> "nextok", ret |-> r.ret, ok |-> r.ok]
CallDone == UNCHANGED <<sp, k>> /\ last' = [op |-> "done", done |-> SpDone(sp)]
SNext == (k < Len(F) + 2 /\ (CallNext \/ CallNextOk)) \/ CallDone
SSpec == SInit /\ [][SNext]_svars

SplitterOK ==
  /\ last.op \in {"next", "nextok"} => last.ret = CallRet(F, k)
  /\ last.op = "nextok" => last.ok = CallOk(F, k)
  /\ last.op = "done" => last.done = DoneAfter(F, k)
  /\ SpDone(sp) = DoneAfter(F, k)
  /\ sp.next <= Len(sp.S)                                   \* the cursor never leaves the string
\* the helpers the aggregator layer uses say the same as the call-by-call machine
DrainOK ==
  k = 0 =>
    /\ SpFields(Search, sp.S, sp.Delim) = F
    /\ \A n \in 1..4 : LET c == SpCalls(Search, sp.S, sp.Delim, n) IN
         \A i \in 1..n : c[i].ret = CallRet(F, i) /\ c[i].ok = CallOk(F, i)
SplitLaw == k = 0 => SplitLawAt(sp.S, sp.Delim)
\* laws of field lists: evaluated once per delimiter
JoinLaw == (k = 0 /\ sp.S = <<>>) => \A f \in FieldLists : JoinLawAt(f, sp.Delim)
NaiveJoinLaw == (k = 0 /\ sp.S = <<>>) => \A f \in FieldLists : NaiveJoinLawAt(f, sp.Delim)

\* one vector per (string, delimiter): the fields and what call i = 1 .. Len(F) + 2 must answer
\* (Next / NextOk: ret, NextOk: ok, Done right after it: done)
Dump == (k = 0 /\ last.op = "new") =>
  PrintT("VFJ " \o ToJson([agg |-> "split", s |-> sp.S, d |-> sp.Delim, fields |-> F, done0 |-> DoneAfter(F, 0),
                           calls |-> [i \in 1..(Len(F) + 2) |-> [ret |-> CallRet(F, i), ok |-> CallOk(F, i), done |-> DoneAfter(F, i)]]]))
=============================================================================

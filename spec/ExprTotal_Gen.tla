--------------------------- MODULE ExprTotal_Gen ---------------------------
(* B1 generator for C08.  TLC walks the space defined by ExprTotal and prints,    *)
(* for every point, one SCAN SCENARIO                                             *)
(*    [id, g, f, cls, tpl, raw, via, pat, sep, lines]                             *)
(* - the template (token sequence `tpl`, or the byte string `raw`), the outcome   *)
(* class the compiler has to show and the lines (contexts of value ids) that      *)
(* ONE compiled expression is evaluated on, one after the other, as in            *)
(* ExprScan.  The Go driver compiles it (optimising and not), evaluates every     *)
(* line under a deadline and reports panics, missed deadlines and class           *)
(* disagreements.                                                                  *)
(*                                                                                *)
(* Breadth-first mode enumerates the groups below exhaustively (Part selects a    *)
(* share of the groups so that several TLC processes can run side by side);       *)
(* simulation mode (SimInit/SimNext) draws random points of the full cross        *)
(* product function x arity x (mode, value) per position, with nested calls.      *)
EXTENDS ExprTotal, Json

CONSTANTS Thorough, Part

VARIABLE c
\* lv 0: group header, 1: sub-header, 2: one scenario (printed)

Scn(id, g, f, cls, tpl, lines) ==
  [id |-> id, g |-> g, f |-> f, cls |-> cls, tpl |-> tpl, raw |-> <<>>, via |-> "array", pat |-> "", sep |-> "", lines |-> lines]

\* ------------------------------------------------------------------ building blocks
\* how the positions other than the varied ones are written: a constant where the table demands one, else a match group
RestMode(f, p) == IF p \in Sig[f].cpos \/ KindAt(f, p) \in Syntactic THEN "c" ELSE "d"
BenVals(f, n) == [p \in 1..n |-> Ben(KindAt(f, p))]
RestModes(f, n) == [p \in 1..n |-> RestMode(f, p)]

\* a few contexts for scenarios whose interesting part is in the template text
NastyVals(n, u) == [p \in 1..n |-> u]
FewLines(f, n) ==
  LET cand == <<BenVals(f, n)>> \o [j \in 1..4 |-> NastyVals(n, <<Empty, Max63, NulB, LongA>>[j])]
  IN [j \in 1..Len(cand) |-> Ctx(cand[j])]
\* ... for the counting helpers only admissible tuples; a nasty value in a dynamic counting position is skipped
SafeFewLines(f, n, modes, vals) ==
  LET cand == <<BenVals(f, n)>> \o [j \in 1..4 |-> NastyVals(n, <<Empty, Max63, NulB, LongA>>[j])]
      eff(cv) == [p \in 1..n |-> IF modes[p] = "c" THEN vals[p] ELSE cv[p]]
      ok(cv) == /\ Admissible(f, eff(cv))
                \* (@for appends the current value every round: a key holding the 70 kB value under an unbounded condition is the
                \* documented memory warning - ForCases assumes the keys of its lines are short)
                /\ (f = "@for" => \A p \in 1..n : cv[p] # LongA)
                /\ \A p \in 1..n : (modes[p] # "c" /\ KindAt(f, p) \in Counting) => cv[p] \in Pool(KindAt(f, p))
  IN [j \in 1..Len(SelectSeq(cand, ok)) |-> Ctx(SelectSeq(cand, ok)[j])]

Sq(set) == SetToSeq(set)

\* ------------------------------------------------------------------ groups
\* "oat": one position at a time through its whole pool, every way of writing it
OatSubs(f) == {x \in Arities(f) \X (1..MaxProbe) : x[2] <= x[1]}
OatDyn(f, n, p, m) ==
  LET k == KindAt(f, p)
      modes == [RestModes(f, n) EXCEPT ![p] = m]
      vs(v) == [BenVals(f, n) EXCEPT ![p] = v]
      pool == Sq({v \in PosPool(k) : Admissible(f, vs(v))})
  IN Scn("oat:" \o f \o ":" \o Digit(n) \o ":" \o Digit(p) \o ":" \o m, "oat", f, Cls(f, modes, BenVals(f, n)),
         CallTokens(f, modes, BenVals(f, n)), [j \in 1..Len(pool) |-> Ctx(vs(pool[j]))])
OatConst(f, n, p, v) ==
  LET modes == [RestModes(f, n) EXCEPT ![p] = "c"]
      vals == [BenVals(f, n) EXCEPT ![p] = v]
  IN Scn("oatc:" \o f \o ":" \o Digit(n) \o ":" \o Digit(p) \o ":" \o v.id, "oatc", f, Cls(f, modes, vals),
         CallTokens(f, modes, vals), SafeFewLines(f, n, modes, vals))
\* the call inside {@map {9} ...}: position p reads the array element
OatInMap(f, n, p) ==
  LET k == KindAt(f, p)
      modes == [q \in 1..n |-> "c"]
      pool == Sq({v \in PosPool(k) : Admissible(f, [BenVals(f, n) EXCEPT ![p] = v])})
  IN Scn("oatm:" \o f \o ":" \o Digit(n) \o ":" \o Digit(p), "oatm", f, IF p \in Sig[f].cpos THEN "err" ELSE "ok",
         InMapTokens(f, modes, BenVals(f, n), p),
         [j \in 1..Len(pool) |-> [m |-> [q \in 1..10 |-> IF q = 10 THEN pool[j].id ELSE Empty.id], k |-> <<"a">>]])
OatCases(f, np) ==
  LET n == np[1]  p == np[2]  k == KindAt(f, p) IN
       (IF k \in Syntactic THEN {} ELSE {OatDyn(f, n, p, m) : m \in DynModes})
  \cup {OatConst(f, n, p, v) : v \in {w \in PosPool(k) : w.q # "" /\ Admissible(f, [BenVals(f, n) EXCEPT ![p] = w])}}
  \cup (IF k \in Syntactic \/ ~ArityOK(f, n) THEN {} ELSE {OatInMap(f, n, p)})

\* "full": the cross product of the core pools of (up to) three positions, all dynamic: one scan per window
Prod3(A, B, C) == {<<a, b, cc>> : a \in A, b \in B, cc \in C}
DynPos(f, n) == SelectSeq([p \in 1..n |-> p], LAMBDA p : RestMode(f, p) = "d")
FullWindows(f, n) ==
  LET dp == DynPos(f, n) IN
  IF Len(dp) <= 1 THEN {} ELSE IF Len(dp) <= 3 THEN {dp} ELSE {SubSeq(dp, j, j + 2) : j \in 1..(Len(dp) - 2)}
FullScan(f, n, win) ==
  LET A == Core(KindAt(f, win[1]))
      B == Core(KindAt(f, win[2]))
      C == IF Len(win) >= 3 THEN Core(KindAt(f, win[3])) ELSE {Ben(KindAt(f, win[2]))}
      vs(t) == [p \in 1..n |-> IF p = win[1] THEN t[1] ELSE IF p = win[2] THEN t[2]
                               ELSE IF Len(win) >= 3 /\ p = win[3] THEN t[3] ELSE Ben(KindAt(f, p))]
      tuples == Sq({t \in Prod3(A, B, C) : Admissible(f, vs(t))})
  IN Scn("full:" \o f \o ":" \o Digit(n) \o ":" \o Digit(win[1]), "full", f, Cls(f, RestModes(f, n), BenVals(f, n)),
         CallTokens(f, RestModes(f, n), BenVals(f, n)), [j \in 1..Len(tuples) |-> Ctx(vs(tuples[j]))])
FullCases(f, n) == {FullScan(f, n, w) : w \in FullWindows(f, n)}

\* "cc": two constant positions at a time (the compile-time paths: EvalStageInt, named formats, zones, tables ...)
ConstPairs(f, n) == {<<p, q>> \in (1..n) \X (1..n) : p < q /\ (p \in Sig[f].cpos \/ q \in Sig[f].cpos \/ KindAt(f, q) \in {"tfmt", "tz", "cpref", "delim"})}
CcPool(k) == IF Thorough THEN {v \in Pool(k) : v.q # ""} ELSE {v \in Core(k) : v.q # ""}
CcCase(f, n, pq, v, w) ==
  LET modes == [RestModes(f, n) EXCEPT ![pq[1]] = "c", ![pq[2]] = "c"]
      vals == [BenVals(f, n) EXCEPT ![pq[1]] = v, ![pq[2]] = w]
  IN Scn("cc:" \o f \o ":" \o Digit(n) \o ":" \o Digit(pq[1]) \o Digit(pq[2]) \o ":" \o v.id \o ":" \o w.id, "cc", f,
         Cls(f, modes, vals), CallTokens(f, modes, vals), SafeFewLines(f, n, modes, vals))
CcCases(f, npq) ==
  LET n == npq[1]  pq == npq[2] IN
  {CcCase(f, n, pq, v, w) : v \in CcPool(KindAt(f, pq[1])), w \in CcPool(KindAt(f, pq[2]))}
CcSubs(f) == {x \in {<<n, pq>> : n \in GoodArities(f), pq \in (1..MaxProbe) \X (1..MaxProbe)} : x[2] \in ConstPairs(f, x[1])}

\* "for": the loop helper with its admissible start / condition / increment triples
ForPairs == {<<t[2], t[3]>> : t \in ForCases}
ForQuick(t) == t[2] \notin ForUnbounded \/ (t[2] = W("1") /\ t[3] \in {W("{sumi {0} 1}"), W("x")} /\ t[1] \in {W("0"), Empty})
ForDyn(ci) ==
  LET starts == Sq({t[1] : t \in {u \in ForCases : u[2] = ci[1] /\ u[3] = ci[2] /\ (Thorough \/ ForQuick(u))}}) IN
  Scn("for:d:" \o ci[1].id \o ":" \o ci[2].id, "for", "@for", "ok",
      <<"{", "@for", " ", "{", "0", "}", " ", ci[1].q, " ", ci[2].q, "}">>,
      [j \in 1..Len(starts) |-> [m |-> <<starts[j].id>>, k |-> <<"a">>]])
ForConst(t) ==
  Scn("for:c:" \o t[1].id \o ":" \o t[2].id \o ":" \o t[3].id, "for", "@for", "ok",
      <<"{", "@for", " ", t[1].q, " ", t[2].q, " ", t[3].q, "}">>, <<[m |-> <<"a">>, k |-> <<"a">>]>>)
ForAll == {ForDyn(ci) : ci \in ForPairs} \cup {ForConst(t) : t \in {u \in ForCases : u[1].q # "" /\ (Thorough \/ ForQuick(u))}}

\* "mut": every malformation of the plain call of every helper, and of a few hand-written templates
Seeds == {
  <<"{", "@map", " ", "{", "0", "}", " ", "\"", "{", "sumi", " ", "{", "0", "}", " ", "1", "}", "\"", "}">>,
  <<"a", "\\", "{", "b", " ", "{", "0", "}", " ", "\\", "n", "{", "1", "}">>,
  <<"{", "if", " ", "{", "eq", " ", "{", "0", "}", " ", "\"", "a b", "\"", "}", " ", "\"", "x y", "\"", " ", "{", "1", "}", "}">>,
  <<"{", "!", " ", "\"", "[0]", " ", "+", " ", "2", "\"", "}">>,
  <<"{", "@reduce", " ", "{", "@split", " ", "{", "0", "}", "}", " ", "{", "sumi", " ", "{", "0", "}", " ", "{", "1", "}", "}", " ", "0", "}">>,
  <<"{", "double", " ", "{", "quad", " ", "{", "0", "}", "}", "}">>,
  <<"{", "src", "}", ":", "{", "line", "}", " ", "{", ".", "}", "{", "#", "}", "{", ".#", "}", "{", "@", "}">>,
  \* multi-byte letters next to every piece of syntax (the placeholders are replaced by the driver)
  <<"$$V:txt:m4*40$$", "{", "upper", " ", "$$V:txt:c3*3$$", " ", "\"", "$$V:txt:m4$$", "\"", "}", "\\", "$$V:txt:mix$$", "{", "0", "}", "$$V:txt:e2$$">> }
MutArities(f) == IF Thorough THEN GoodArities(f) ELSE {MinArgs(f)}
\* a malformed loop / range / repeat may well be an unbounded one: those see short values only
MutLines(small) ==
  IF small THEN <<Ctx(<<W("abc"), W("1"), W("2"), W("3")>>), Ctx(<<NulB, W("-1"), Min63, BadUtf>>), Ctx(<<Empty, Empty, Blank, W("0")>>)>>
  ELSE <<Ctx(<<W("abc"), W("1"), W("2"), W("3")>>), Ctx(<<NulB, Max63, Min63, BadUtf>>), Ctx(<<LongA, Empty, Blank, W("-1")>>)>>
MutOf(tag, base, small) ==
  LET ms == Sq(Mutations(base)) IN
  {Scn("mut:" \o tag \o ":" \o ToString(j), "mut", tag, "any", ms[j], MutLines(small)) : j \in 1..Len(ms)}
MutCases(f, n) == MutOf(f \o Digit(n), CallTokens(f, RestModes(f, n), BenVals(f, n)), f \in {"@for", "@range", "repeat", "bar"})
SeedSeq == Sq(Seeds)

\* "raw": every byte string over the alphabet up to a length
RawLen == IF Thorough THEN 5 ELSE 3
RawScn(s) ==
  [id |-> "raw:" \o ToString(s), g |-> "raw", f |-> "", cls |-> "any", tpl |-> <<>>, raw |-> s, via |-> "array", pat |-> "", sep |-> "",
   lines |-> <<Ctx(<<W("abc"), W("1")>>), Ctx(<<NulB, Max63>>)>>]

\* "math": formulas
NumVals == {W(x) : x \in NumCore}
NumLines == LET t == Sq(NumVals \X NumVals) IN [j \in 1..Len(t) |-> Ctx(<<t[j][1], t[j][2]>>)]
MathDynBin(op) == Scn("math:d:" \o op, "math", "!", "ok", MathTokens("[0] " \o op \o " [1]"), NumLines)
MathKeyBin(op) == Scn("math:k:" \o op, "math", "!", "ok", <<"{", "!", " ", "k0", op, "k1", "}">>, NumLines)
MathConstBin(op, a, b) == Scn("math:c:" \o a \o op \o b, "math", "!", "any", MathTokens(a \o " " \o op \o " " \o b), <<Ctx(<<W("1")>>)>>)
MathMixBin(op, a) == Scn("math:m:" \o a \o op, "math", "!", "any", MathTokens(a \o " " \o op \o " [0] " \o op \o " " \o a), NumLines)
MathDynUn(fn) == Scn("math:du:" \o fn, "math", "!", "ok", MathTokens(fn \o "([0])"), NumLines)
MathConstUn(fn, a) == Scn("math:cu:" \o fn \o a, "math", "!", "any", MathTokens(fn \o "(" \o a \o ")"), <<Ctx(<<W("1")>>)>>)
MathTokLen == IF Thorough THEN 4 ELSE 3
MathTok(ix) == Scn("math:t:" \o ToString(ix), "math", "!", "any", MathTokens(FormulaText(ix)), <<Ctx(<<W("7"), W("0")>>), Ctx(<<W("x"), Max63>>)>>)

\* "ff": functions defined in the funcs file
FfArgs(f) == Len(FfKinds(f))
FfVals(f) == [p \in 1..FfArgs(f) |-> Ben(FfKinds(f)[p])]
FfAdm(f, vals) == f = "rng" => RangeArgsOK(vals)
FfDyn(f, p, m) ==
  LET n == FfArgs(f)
      modes == [[q \in 1..n |-> "d"] EXCEPT ![p] = m]
      pool == Sq({v \in PosPool(FfKinds(f)[p]) : FfAdm(f, [FfVals(f) EXCEPT ![p] = v])})
  IN Scn("ff:" \o f \o ":" \o Digit(p) \o ":" \o m, "ff", f, "ok", CallTokens(f, modes, FfVals(f)),
         [j \in 1..Len(pool) |-> Ctx([FfVals(f) EXCEPT ![p] = pool[j]])])
FfConst(f, p, v) ==
  LET n == FfArgs(f)
      modes == [[q \in 1..n |-> "d"] EXCEPT ![p] = "c"]
  IN Scn("ffc:" \o f \o ":" \o Digit(p) \o ":" \o v.id, "ff", f, "ok", CallTokens(f, modes, [FfVals(f) EXCEPT ![p] = v]),
         <<Ctx(FfVals(f))>>)
FfFull(f) ==
  LET n == FfArgs(f)
      A == Core(FfKinds(f)[1])  B == Core(FfKinds(f)[2])  C == IF n >= 3 THEN Core(FfKinds(f)[3]) ELSE {W("a")}
      vs(t) == [p \in 1..n |-> IF p <= 3 THEN t[p] ELSE W("a")]
      tuples == Sq({t \in Prod3(A, B, C) : FfAdm(f, vs(t))})
  IN Scn("fff:" \o f, "ff", f, "ok", CallTokens(f, [q \in 1..n |-> "d"], FfVals(f)), [j \in 1..Len(tuples) |-> Ctx(vs(tuples[j]))])
FfCases(f) ==
       {FfDyn(f, p, m) : p \in 1..FfArgs(f), m \in DynModes}
  \cup UNION {{FfConst(f, p, v) : v \in {w \in PosPool(FfKinds(f)[p]) : w.q # "" /\ FfAdm(f, [FfVals(f) EXCEPT ![p] = w])}} : p \in 1..FfArgs(f)}
  \cup (IF FfArgs(f) >= 2 THEN {FfFull(f)} ELSE {})

\* "hist": stateful stages see every short history of line kinds (ExprScan: the layout cache, the pools)
HistTemplates == <<
  <<"{", "time", " ", "{", "0", "}", "}">>,
  <<"{", "buckettime", " ", "{", "0", "}", " ", "day", "}">>,
  <<"{", "timeformat", " ", "{", "time", " ", "{", "0", "}", " ", "cache", " ", "America/New_York", "}", " ", "RFC1123", " ", "local", "}">>,
  <<"{", "@map", " ", "{", "@split", " ", "{", "0", "}", " ", "-", "}", " ", "{", "time", " ", "{", "0", "}", "}", "}">>,
  <<"{", "double", " ", "{", "!", " ", "[0] + 1", "}", "}", "{", "mapd", " ", "{", "0", "}", "}">>,
  <<"{", "@reduce", " ", "{", "0", "}", " ", "{", "@for", " ", "{", "0", "}", " ", "{", "lt", " ", "{", "1", "}", " ", "2", "}", " ", "{", "1", "}", "}", "}">> >>
HistLines == <<V("2023-01-02T03:04:05Z"), V("02/Jan/2006:15:04:05 -0700"), Empty, W("x"), MixB, W("1700000000"), V("12/31/99")>>
RECURSIVE Hists(_)
Hists(n) == IF n = 0 THEN {<<>>} ELSE Hists(n - 1) \cup {Append(h, j) : h \in {g \in Hists(n - 1) : Len(g) = n - 1}, j \in 1..Len(HistLines)}
HistLen == IF Thorough THEN 4 ELSE 3
HistScn(t, h) == Scn("hist:" \o ToString(t) \o ":" \o ToString(h), "hist", "time", "ok", HistTemplates[t],
                     [j \in 1..Len(h) |-> Ctx(<<HistLines[h[j]]>>)])

\* "scan": the real extractor (regex / dissect matcher, real match context with the special keys) over whole lines
ScanTemplates == <<
  <<"{", "0", "}">>, <<"{", "1", "}", " ", "{", "2", "}", " ", "{", "3", "}", "{", "4", "}">>,
  <<"{", ".", "}">>, <<"{", "#", "}", "{", ".#", "}", "{", "#.", "}">>, <<"{", "@", "}">>,
  <<"{", "src", "}", ":", "{", "line", "}", ":", "{", "a", "}", "{", "b", "}", "{", "nokey", "}", "{", "-1", "}", "{", "99", "}">>,
  <<"{", "@map", " ", "{", "@", "}", " ", "{", "sumi", " ", "{", "0", "}", " ", "1", "}", "}">>,
  <<"{", "json", " ", "{", ".#", "}", " ", "{", "1", "}", "}">>, <<"{", "json", " ", "a", "}">>,
  <<"{", "time", " ", "{", "1", "}", "}">>, <<"{", "substr", " ", "{", "1", "}", " ", "{", "2", "}", " ", "{", "3", "}", "}">>,
  <<"{", "bar", " ", "{", "2", "}", " ", "100", " ", "20", "}">>, <<"{", "divi", " ", "{", "1", "}", " ", "{", "2", "}", " ", "{", "3", "}", "}">>,
  <<"{", "@for", " ", "{", "1", "}", " ", "{", "lt", " ", "{", "1", "}", " ", "3", "}", " ", "{", "b", "}", "}">>,
  <<"{", "!", " ", "[1] % [2] << [3]", "}">>, <<"{", "select", " ", "{", "0", "}", " ", "{", "2", "}", "}">>,
  <<"{", "percent", " ", "{", "1", "}", " ", "1", " ", "{", "2", "}", " ", "{", "3", "}", "}">>,
  <<"{", "timeformat", " ", "{", "1", "}", " ", "RFC3339", " ", "America/New_York", "}">>,
  <<"{", "sub3", " ", "{", "a", "}", " ", "{", "b", "}", " ", "{", "3", "}", "}">>,
  <<"{", "@slice", " ", "{", "@split", " ", "{", "0", "}", "}", " ", "-2", " ", "2", "}">>,
  <<"{", "csv", " ", "{", "1", "}", " ", "{", "2", "}", "}", "{", "tab", " ", "{", "@", "}", "}">>,
  <<"{", "format", " ", "{", "1", "}", " ", "{", "2", "}", " ", "{", "3", "}", "}">> >>
Matchers == << <<"regex", "(\\S*) (\\S*) (\\S*)">>, <<"regex", "(?P<a>\\S*) (?P<b>.*)">>, <<"regex", ".*">>,
               <<"regex", "(?s)^(?P<a>.)?(.*?)(?P<b>\\d*)( ?)(.*)$">>,
               <<"dissect", "%{a} %{b} %{c}">>, <<"dissect", "%{} %{a}:%{b}">>, <<"dissect", "%{a}">> >>
Long3k == D("long:a*3000", "a", <<>>, 3000)
LineCore == <<Empty, W("a"), Max63, Min63, W("0"), W("-1"), NulB, BadUtf, Long3k, W("1.5"), W("2023-01-02T03:04:05Z"), W("a:b"), W("%d%s"), W("1e308")>>
LineTriples == LET t == Sq((1..Len(LineCore)) \X (1..Len(LineCore)) \X (1..Len(LineCore))) IN
               [j \in 1..Len(t) |-> [m |-> <<LineCore[t[j][1]].id, LineCore[t[j][2]].id, LineCore[t[j][3]].id>>, k |-> <<>>]]
\* ... and lines holding a text with multi-byte characters: as the value that is cut (the last three bytes, all but the first), as the offset
TextLineSeq == Sq(TextPool \cup TextArrays)
TextLines == FlattenSeq([j \in 1..Len(TextLineSeq) |->
                 LET id == TextLineSeq[j].id IN <<[m |-> <<id, "-3", "7">>, k |-> <<>>], [m |-> <<id, "1", Max63.id>>, k |-> <<>>], [m |-> <<"1", id, id>>, k |-> <<>>]>>])
LineSingles == <<[m |-> <<LongLine.id>>, k |-> <<>>], [m |-> <<MixB.id, MixB.id>>, k |-> <<>>], [m |-> <<JsDoc.id>>, k |-> <<>>]>> \o TextLines
ScanScn(t, mt) ==
  [id |-> "scan:" \o ToString(t) \o ":" \o ToString(mt), g |-> "scan", f |-> Matchers[mt][1], cls |-> "ok", tpl |-> ScanTemplates[t], raw |-> <<>>,
   via |-> "extract", pat |-> Matchers[mt][2], sep |-> " ", lines |-> <<>>, lineset |-> "triples"]
LineSet == [id |-> "lineset:triples", g |-> "lineset", name |-> "triples", lines |-> LineTriples \o LineSingles]

\* "ary": argument counts far beyond the ones of the groups above (ExprText BigArities): the plain call with n benign
\* arguments, all written as constants (folded at Compile) and all read from the line (positions >= 10 read group 9)
AryLines(f, n) ==
  LET us == <<Empty, Max63, NulB, TVal(Txt("txt:m4*40", <<"m4">>, 40)), W("abc")>>
  IN <<Ctx(BenVals(f, IF n < 10 THEN n ELSE 10))>> \o [j \in 1..Len(us) |-> Ctx(NastyVals(IF n < 10 THEN n ELSE 10, us[j]))]
\* (one token per argument: no recursion over the argument count)
AryTokens(f, modes, vals) == <<"{", f>> \o [p \in 1..Len(modes) |-> " " \o Cat(ArgTokens(modes[p], vals[p], p - 1))] \o <<"}">>
AryCls(f, modes, vals) == IF f = "!" THEN "any" ELSE Cls(f, modes, vals)
AryConst(f, n) ==
  LET modes == [p \in 1..n |-> "c"] IN
  Scn("ary:c:" \o f \o ":" \o ToString(n), "ary", f, AryCls(f, modes, BenVals(f, n)), AryTokens(f, modes, BenVals(f, n)), <<Ctx(<<W("abc")>>)>>)
AryDyn(f, n) ==
  Scn("ary:d:" \o f \o ":" \o ToString(n), "ary", f, AryCls(f, RestModes(f, n), BenVals(f, n)), AryTokens(f, RestModes(f, n), BenVals(f, n)), AryLines(f, n))
\* every other argument a constant, the rest through a nested call
AryMix(f, n) ==
  LET modes == [p \in 1..n |-> IF RestMode(f, p) = "c" \/ p % 2 = 0 THEN "c" ELSE "n"] IN
  Scn("ary:m:" \o f \o ":" \o ToString(n), "ary", f, AryCls(f, modes, BenVals(f, n)), AryTokens(f, modes, BenVals(f, n)), AryLines(f, n))
AryCases(f, n) == {AryConst(f, n), AryDyn(f, n)} \cup (IF f \in Variadic THEN {AryMix(f, n)} ELSE {})

\* "win": the helpers that take an offset / a length / an index, on the texts whose length differs from unit to unit, with the
\* offsets around the text's length in EVERY unit (ExprText Offsets); ASCII controls of the same sizes alongside
OffVal(n) == IF n = HUGE THEN Max63 ELSE IF n = -HUGE THEN Min63 ELSE NumVal(n)
AsciiTexts == {Txt("txt:a*33", <<"a">>, 33), Txt("txt:a*3", <<"a">>, 3)}
WinTexts == TextPool \cup TextArrays \cup AsciiTexts
WinTextSeq == Sq(WinTexts)
WinSubstr(t, how) ==
  LET os == Sq(Offsets(t) \X Offsets(t))
      tpl == CASE how = "d" -> <<"{", "substr", " ", "{", "0", "}", " ", "{", "1", "}", " ", "{", "2", "}", "}">>
               [] how = "k" -> <<"{", "substr", " ", "{", "k0", "}", " ", "{", "k1", "}", " ", "{", "k2", "}", "}">>
               [] how = "ff" -> <<"{", "sub3", " ", "{", "0", "}", " ", "{", "1", "}", " ", "{", "2", "}", "}">>
               [] how = "m" -> <<"{", "@map", " ", "{", "0", "}", " ", "{", "substr", " ", "{", "0", "}", " ", "{", "k1", "}", " ", "{", "k2", "}", "}", "}">>
  IN Scn("win:substr:" \o how \o ":" \o t.id, "win", "substr", "ok", tpl,
         [j \in 1..Len(os) |-> Ctx(<<TVal(t), OffVal(os[j][1]), OffVal(os[j][2])>>)])
WinSelect(t) ==
  LET os == Sq(Offsets(t)) IN
  Scn("win:select:" \o t.id, "win", "select", "ok", <<"{", "select", " ", "{", "0", "}", " ", "{", "1", "}", "}">>,
      [j \in 1..Len(os) |-> Ctx(<<TVal(t), OffVal(os[j])>>)])
\* @slice / @select take constants: one template per window, every text a line
ArrOffs == {0, 1, -1, 2, -3, HUGE, -HUGE} \cup UNION {Around(Elems(t)) : t \in TextArrays}
           \cup (IF Thorough THEN UNION {Around(Meas("byte", t)) \cup Around(Meas("rune", t)) : t \in TextArrays} ELSE {})
WinLinesAll == [j \in 1..Len(WinTextSeq) |-> Ctx(<<TVal(WinTextSeq[j])>>)]
WinSlice(l, k) ==
  Scn("win:slice:" \o ToString(l) \o ":" \o ToString(k), "win", "@slice", "ok",
      <<"{", "@slice", " ", "{", "0", "}", " ", OffVal(l).q, " ", OffVal(k).q, "}">>, WinLinesAll)
WinASelect(l) ==
  Scn("win:aselect:" \o ToString(l), "win", "@select", "ok", <<"{", "@select", " ", "{", "0", "}", " ", OffVal(l).q, "}">>, WinLinesAll)
\* printf widths and precisions count runes
WinFormat ==
  LET ps == Sq(FmtPool \X TextVals(TextPool)) IN
  Scn("win:format", "win", "format", "ok", <<"{", "format", " ", "{", "0", "}", " ", "{", "1", "}", " ", "{", "1", "}", "}">>,
      [j \in 1..Len(ps) |-> Ctx(<<ps[j][1], ps[j][2]>>)])
WinSubs == {<<"substr", j>> : j \in 1..Len(WinTextSeq)} \cup {<<"slice", l>> : l \in ArrOffs} \cup {<<"misc", 0>>}
WinCases(k) ==
  CASE k[1] = "substr" -> {WinSubstr(WinTextSeq[k[2]], how) : how \in {"d", "k", "ff", "m"}} \cup {WinSelect(WinTextSeq[k[2]])}
    [] k[1] = "slice"  -> {WinSlice(k[2], kk) : kk \in ArrOffs} \cup {WinASelect(k[2])}
    [] OTHER -> {WinFormat}
WinOffVals == {OffVal(n) : n \in UNION {Offsets(t) : t \in WinTexts} \cup ArrOffs}

AllValues == UNION {Pool(k) : k \in Kinds} \cup Universal \cup ForAnyStart \cup {W(x) : x \in NumCore}
                   \cup {W("b"), W("x"), W("abc"), W("2"), W("3"), LongLine, JsDoc, Long3k}
                   \cup {LineCore[j] : j \in 1..Len(LineCore)} \cup {HistLines[j] : j \in 1..Len(HistLines)}
                   \cup TextVals(WinTexts) \cup WinOffVals
ValueRow(v) == [id |-> v.id, s |-> v.s, b |-> v.b, r |-> v.r]
\* the length of every text in bytes, runes and elements, as the model has it: the driver compares with the real strings
TextRow(t) == [id |-> t.id, nb |-> Meas("byte", t), nr |-> Meas("rune", t), ne |-> Elems(t)]

\* ------------------------------------------------------------------ the enumeration
GroupsA == {<<"values", "">>} \cup {<<"oat", f>> : f \in FuncNames} \cup {<<"for", "">>} \cup {<<"hist", "">>} \cup {<<"scan", "">>}
GroupsB == {<<"full", f>> : f \in FuncNames} \cup {<<"cc", f>> : f \in FuncNames} \cup {<<"mut", f>> : f \in FuncNames}
           \cup {<<"mutseed", "">>} \cup {<<"raw", "">>} \cup {<<"ff", f>> : f \in FfNames}
GroupsC == {<<"math", "">>}
GroupsD == {<<"ary", f>> : f \in FuncNames} \cup {<<"win", "">>}
\* every part carries the value table; part "V" is the table alone
Groups == {<<"values", "">>} \cup
          (CASE Part = "A" -> GroupsA [] Part = "B" -> GroupsB [] Part = "C" -> GroupsC [] Part = "D" -> GroupsD [] Part = "V" -> {}
             [] OTHER -> GroupsA \cup GroupsB \cup GroupsC \cup GroupsD)

Hdr(lv, g, k) == [lv |-> lv, g |-> g, k |-> k, x |-> <<>>]
Subs(g) ==
  CASE g[1] = "oat"  -> OatSubs(g[2])
    [] g[1] = "full" -> {n \in GoodArities(g[2]) : n >= 2}
    [] g[1] = "cc"   -> CcSubs(g[2])
    [] g[1] = "mut"  -> MutArities(g[2])
    [] g[1] = "mutseed" -> 1..Len(SeedSeq)
    [] g[1] = "raw"  -> UNION {RawStrings(j) : j \in 0..(RawLen - 1)}
    [] g[1] = "math" -> {<<"bin", op>> : op \in BinOps} \cup {<<"un", fn>> : fn \in UnFuncs \cup {"-", "!"}} \cup {<<"tok", ix>> : ix \in UNION {TokStrings(j) : j \in 0..(MathTokLen - 1)}}
    [] g[1] = "hist" -> 1..Len(HistTemplates)
    [] g[1] = "scan" -> 1..Len(ScanTemplates)
    [] g[1] = "ary"  -> WideArities(g[2], Thorough)
    [] g[1] = "win"  -> WinSubs
    [] OTHER -> {0}
Cases(g, k) ==
  CASE g[1] = "values" -> {[id |-> "values", g |-> "values", names |-> Sq(FuncNames), ffnames |-> Sq(FfNames), funcfile |-> FuncFile,
                            values |-> Sq({ValueRow(v) : v \in AllValues}), texts |-> Sq({TextRow(t) : t \in WinTexts})]}
    [] g[1] = "oat"  -> OatCases(g[2], k)
    [] g[1] = "full" -> FullCases(g[2], k)
    [] g[1] = "cc"   -> CcCases(g[2], k)
    [] g[1] = "for"  -> ForAll
    [] g[1] = "mut"  -> MutCases(g[2], k)
    [] g[1] = "mutseed" -> MutOf("seed" \o ToString(k), SeedSeq[k], FALSE)
    [] g[1] = "raw"  -> {RawScn(Append(k, b)) : b \in RawAlphabet}
    [] g[1] = "math" -> (CASE k[1] = "bin" -> {MathDynBin(k[2]), MathKeyBin(k[2])} \cup {MathConstBin(k[2], a, b) : a \in NumCore, b \in NumCore}
                                               \cup {MathMixBin(k[2], a) : a \in NumCore}
                           [] k[1] = "un"  -> {MathDynUn(k[2])} \cup {MathConstUn(k[2], a) : a \in NumCore}
                           [] OTHER -> {MathTok(Append(k[2], t)) : t \in 1..Len(FormulaAlphabet)})
    [] g[1] = "ff"   -> FfCases(g[2])
    [] g[1] = "hist" -> {HistScn(k, h) : h \in Hists(HistLen) \ {<<>>}}
    [] g[1] = "scan" -> {ScanScn(k, mt) : mt \in 1..Len(Matchers)} \cup (IF k = 1 THEN {LineSet} ELSE {})
    [] g[1] = "ary"  -> AryCases(g[2], k)
    [] g[1] = "win"  -> WinCases(k)
    [] OTHER -> {}

Init == c \in {Hdr(0, g, 0) : g \in Groups}
Next == \/ c.lv = 0 /\ \E k \in Subs(c.g) : c' = Hdr(1, c.g, k)
        \/ c.lv = 1 /\ \E x \in Cases(c.g, c.k) : c' = [lv |-> 2, g |-> c.g, k |-> 0, x |-> x]
Dump == c.lv = 2 => PrintT("VFJ " \o ToJson(c.x))

\* ------------------------------------------------------------------ simulation: random points of the full cross product
(* lv 10: pick a helper and an argument count; lv 11: write one more argument    *)
(* (a mode and a value of the position's pool, or a nested call); lv 12: print.  *)
NestPool == {W("{sumi {0} {1}}"), W("{substr {0} {1} {2}}"), W("{@split {0}}"), W("{@map {0} {-1}}"), W("{upper {0}}"),
             W("{time {0}}"), W("{! [0] + [1]}"), W("{json {0} {1}}"), W("{coalesce {9} {k1}}"), W("{@ {0} {1} {2}}"),
             W("{double {1}}"), W("{format {1} {0}}"), W("{@slice {0} -2}"), W("{divi {0} {1}}"), W("{if {0} {1} {2}}")}
SimPool(f, p) == LET k == KindAt(f, p) IN IF k \in Counting \cup Syntactic THEN Pool(k) ELSE PosPool(k) \cup NestPool
SimModes(f, p, v) ==
  IF KindAt(f, p) \in Syntactic \/ v \in NestPool THEN {"c"}
  ELSE IF v.q = "" THEN DynModes ELSE Modes
SimInit == c = [lv |-> 10, f |-> "", n |-> 0, modes |-> <<>>, vals |-> <<>>]
SimNext ==
  \/ c.lv = 10 /\ \E f \in FuncNames : \E n \in GoodArities(f) : c' = [lv |-> 11, f |-> f, n |-> n, modes |-> <<>>, vals |-> <<>>]
  \/ c.lv = 11 /\ Len(c.vals) < c.n /\ \E v \in SimPool(c.f, Len(c.vals) + 1) : \E m \in SimModes(c.f, Len(c.vals) + 1, v) :
        c' = [c EXCEPT !.modes = Append(@, m), !.vals = Append(@, v),
                       !.lv = IF Len(c.vals) + 1 = c.n THEN 12 ELSE 11]
SimLines(f, n, modes, vals) ==
  <<Ctx([p \in 1..n |-> IF vals[p] \in NestPool THEN W("7") ELSE vals[p]])>> \o SafeFewLines(f, n, modes, vals)
\* the scenario of a finished draw is printed by the action that leaves it (TLC's simulator evaluates invariants on
\* every candidate successor, an action only on the state it actually reached)
SimScn ==
  Scn("sim:" \o c.f \o ":" \o Cat([p \in 1..c.n |-> c.modes[p] \o "=" \o c.vals[p].id \o ";"]), "sim", c.f,
      IF \E p \in 1..c.n : c.vals[p] \in NestPool THEN "any" ELSE Cls(c.f, c.modes, c.vals),
      CallTokens(c.f, c.modes, c.vals), SimLines(c.f, c.n, c.modes, c.vals))
SimEmit ==
  /\ c.lv = 12
  /\ IF Admissible(c.f, c.vals) /\ (\A p \in 1..c.n : (c.vals[p] \in NestPool) => KindAt(c.f, p) \notin Counting)
     THEN PrintT("VFJ " \o ToJson(SimScn)) ELSE TRUE
  /\ c' = [c EXCEPT !.lv = 13]
SimStep == SimNext \/ SimEmit
=============================================================================

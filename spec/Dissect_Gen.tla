----------------------------- MODULE Dissect_Gen -----------------------------
(* C12 - B3 + B1 over the pattern space of the plan.                            *)
(*                                                                              *)
(* A small state machine builds patterns token by token:                        *)
(*   prefix in {"", a, aB, e'}; up to MaxTok tokens; trailing literal of each   *)
(*   token in {"", :, ::, B, e'}; a token captures or skips (skipped tokens     *)
(*   are written %{} at odd and %{?x} at even positions; the second token may   *)
(*   reuse the name x -> key conflicts); optionally an unclosed %{ at the end.  *)
(* Invalid patterns (empty literal between tokens, conflicts, unclosed) are     *)
(* reached but not extended.                                                    *)
(*                                                                              *)
(* Laws  (B3): in every state the syntax laws hold and, for a valid pattern,    *)
(*             Dissect!MatchLaws for every line of the line set.                *)
(* Dump  (B1): in every state one vector per ignore-case flag with the          *)
(*             specification's verdict for every line is printed.               *)
EXTENDS Dissect, Json, TLC

CONSTANTS
  MaxTok,     \* tokens per pattern
  MaxSym,     \* exhaustive lines: up to MaxSym symbols ...
  MaxSym3,    \* ... and up to MaxSym3 symbols for patterns with 3 tokens
  Mode,       \* "laws" | "dump"
  Lite        \* TRUE: 3-token patterns only over the prefixes "" and ab, fewer woven lines (quick tier)

A == 97  UA == 65  BB == 98  COL == 58
EA == <<195, 169>>      \* e-acute lower case, UTF-8
UE == <<195, 137>>      \* E-acute upper case, UTF-8

UB == 66
Leads == {<<>>, <<A>>, <<A, UB>>, EA}            \* "", a, aB, e-acute
Delims   == {<<>>, <<COL>>, <<COL, COL>>, <<UB>>, EA}    \* "", :, ::, B, e-acute
Syms     == {<<A>>, <<UA>>, <<BB>>, <<COL>>, <<SP>>, EA, UE}

\* all lines of up to n symbols (the symbols are prefix-free, so no line is produced twice)
LinesUpTo(n) == {Flatten(f) : f \in UNION {[1..m -> Syms] : m \in 0..n}}
LineSeqA == SetToSeq(LinesUpTo(MaxSym))
LineSeqB == SetToSeq(LinesUpTo(MaxSym3))

CapName(i) == <<119 + i>>          \* x, y, z by position
SkipName(i) == IF i % 2 = 1 THEN <<>> ELSE <<120>>     \* %{} / %{?x}

VARIABLES pfx, toks, unc
gvars == <<pfx, toks, unc>>

Pat  == [prefix |-> pfx, tokens |-> toks]
Text == Unparse(Pat) \o (IF unc THEN <<PCT, LBR, 120>> ELSE <<>>)
St   == Structure(Text)
Valid == Errs(St) = {}

GInit == pfx \in Leads /\ toks = <<>> /\ unc = FALSE

AddTok ==
  /\ Len(toks) < MaxTok /\ ~unc /\ Valid
  /\ (Lite /\ Len(toks) = 2) => pfx \in {<<>>, <<A, UB>>}
  /\ \E d \in Delims, kind \in {"cap", "skip", "dup"} :
       LET i == Len(toks) + 1 IN
       /\ kind = "dup" => i = 2
       /\ toks' = Append(toks, Tok(IF kind = "cap" THEN CapName(i) ELSE IF kind = "dup" THEN CapName(1) ELSE SkipName(i),
                                   d, kind = "skip"))
  /\ UNCHANGED <<pfx, unc>>

Unclose == ~unc /\ Len(toks) <= 2 /\ unc' = TRUE /\ UNCHANGED <<pfx, toks>>

GNext == AddTok \/ Unclose
GSpec == GInit /\ [][GNext]_gvars

-----------------------------------------------------------------------------
\* lines built around the pattern's own literals: [b] prefix f1 d1 f2 d2 ... [:]  with fillers
\* from {"", a, B:} and the literals either as written or upper-cased
Fill == {<<>>, <<A>>, <<UB, COL>>}
RECURSIVE Weave(_, _)
Weave(lits, fills) == IF lits = <<>> THEN <<>> ELSE fills[1] \o lits[1] \o Weave(Tail(lits), Tail(fills))
Templated(p) ==
  LET n    == Len(p.tokens)
      lo   == [i \in 1..n |-> p.tokens[i].until]
      up   == [i \in 1..n |-> UpperASCII(p.tokens[i].until)]
      lite == Lite /\ n >= 3
  IN { pre \o c[1] \o Weave(c[2], f) \o post :
         pre \in (IF lite THEN {<<>>} ELSE {<<>>, <<BB>>}), post \in {<<>>, <<COL>>}, f \in [1..n -> Fill],
         c \in (IF lite THEN {<<p.prefix, lo>>, <<UpperASCII(p.prefix), up>>}
                ELSE {p.prefix, UpperASCII(p.prefix)} \X {lo, up}) }

LineSeqFor == IF Len(toks) <= 2 THEN LineSeqA ELSE LineSeqB
LineSetNo  == IF Len(toks) <= 2 THEN 1 ELSE 2
Extra      == SetToSeq(Templated(Pat) \ LinesUpTo(IF Len(toks) <= 2 THEN MaxSym ELSE MaxSym3))

-----------------------------------------------------------------------------
\* B1: the verdict for one line: the exact index vector, or <<-1, must>> when the property only
\* demands "well-formed, and a match if must = 1" (ignore-case on non-ASCII text)
Verdict(p, fp, pasc, l, ic) ==
  IF ~ic THEN Match(p, l)
  ELSE IF pasc /\ IsASCII(l) THEN Match(fp, LowerASCII(l))
  ELSE <<-1, IF Match(p, l) # Nil THEN 1 ELSE 0>>

\* B3
ByteLines == [i \in 1..256 |-> <<i - 1>>]         \* every one-byte line
Laws ==
  Mode = "laws" =>
    LET p == Pat  text == Text  st == Structure(text)  valid == Errs(st) = {} IN
    /\ SyntaxLaws(p)
    /\ ((toks = <<>> /\ ~unc /\ pfx = <<>>) =>        \* once: the scan First is Bytes!IndexFrom
          \A i \in 1..Len(LineSeqA) : \A lit \in Leads \cup Delims : FirstIsIndexFrom(LineSeqA[i], lit))
    /\ InDomain(text)
    /\ (~unc => st.prefix = pfx /\ st.tokens = toks)
    /\ (unc <=> "unclosed" \in Errs(st))
    /\ (valid => Compiled(text) = p /\ Len(NameTable(p)) = Groups(p))
    /\ (valid => \A i \in 1..Len(LineSeqFor) : MatchLaws(p, LineSeqFor[i]))
    /\ (valid => \A l \in Templated(p) : MatchLaws(p, l))
    /\ (valid => \A l \in Templated(p) : \A ic \in BOOLEAN :      \* the B1 verdict is the specification's
           LET v == Verdict(p, FoldPat(p), PatASCII(p), l, ic) IN
           IF Determined(p, l, ic) THEN v = Expected(p, l, ic) /\ Allowed(p, l, ic, v)
           ELSE v = <<-1, IF Match(p, l) # Nil THEN 1 ELSE 0>> /\ ~Allowed(p, l, ic, v))
    /\ ((toks = <<>> /\ ~unc /\ pfx = <<>>) =>        \* once: one-byte patterns x one-byte lines
          \A c \in (0..255) \ {PCT} : \A i \in 1..256 : MatchLaws([prefix |-> <<c>>, tokens |-> <<>>], ByteLines[i]))

Vector(ic) ==
  LET p == Pat  text == Text  st == Structure(text)  errs == Errs(st) IN
  IF errs # {}
  THEN [pat |-> text, ic |-> ic, errs |-> SetToSeq(errs)]
  ELSE LET fp == FoldPat(p)  pasc == PatASCII(p)  ls == LineSeqFor  xl == Extra IN
       [pat |-> text, ic |-> ic, errs |-> <<>>, names |-> NameTable(p), groups |-> Groups(p),
        ls |-> LineSetNo,
        exp |-> [i \in 1..Len(ls) |-> Verdict(p, fp, pasc, ls[i], ic)],
        xl |-> xl,
        xexp |-> [i \in 1..Len(xl) |-> Verdict(p, fp, pasc, xl[i], ic)]]

\* the case-folding table: every one-byte pattern against every one-byte line
FoldVector(c, ic) ==
  LET p == [prefix |-> <<c>>, tokens |-> <<>>]  fp == FoldPat(p)  pasc == PatASCII(p) IN
  [pat |-> <<c>>, ic |-> ic, errs |-> <<>>, names |-> <<>>, groups |-> 0, ls |-> 3,
   exp |-> [i \in 1..256 |-> Verdict(p, fp, pasc, ByteLines[i], ic)], xl |-> <<>>, xexp |-> <<>>]

Dump ==
  Mode = "dump" =>
    /\ (pfx = <<>> /\ toks = <<>> /\ ~unc) =>
          /\ PrintT("VFJ " \o ToJson([lineset |-> 1, lines |-> LineSeqA]))
          /\ PrintT("VFJ " \o ToJson([lineset |-> 2, lines |-> LineSeqB]))
          /\ PrintT("VFJ " \o ToJson([lineset |-> 3, lines |-> ByteLines]))
          /\ \A c \in (0..255) \ {PCT} : \A ic \in BOOLEAN : PrintT("VFJ " \o ToJson(FoldVector(c, ic)))
    /\ PrintT("VFJ " \o ToJson(Vector(FALSE)))
    /\ PrintT("VFJ " \o ToJson(Vector(TRUE)))
=============================================================================

---------------------------- MODULE FuzzyTable_Trace ----------------------------
(* B2: every record is the history of one REAL fuzzy.FuzzyTable:                  *)
(*   [t, vals (the pool of keys, sequences of code points), p, q (threshold p/q), *)
(*    mo (search window), size (MaxSize), h = <<[v, m, new, count]>>]             *)
(* v / m index the pool (m = 0: the table answered with a string that is no key   *)
(* of the pool).  The similarity is computed by TLC from Sift4.tla - the driver   *)
(* is not trusted with it - and the history is judged by FuzzyLaws (the laws TLC  *)
(* proved of FuzzyTable.tla, Every = 10 as in the code).  Thresholds are chosen   *)
(* so that no ratio of two pool keys equals p/q (float32 ties are outside).       *)
EXTENDS Integers, Sequences, FiniteSets, SequencesExt, TLC, Json
Trace == ndJsonDeserialize("trace.ndjson")
VARIABLES l, bad
tvars == <<l, bad>>
S4 == INSTANCE Sift4
INSTANCE FuzzyLaws
WhyRec(r) ==
  IF \E i \in 1..Len(r.h) : r.h[i].m = 0 THEN {"alien"}
  ELSE LET h == [i \in 1..Len(r.h) |-> [val |-> r.vals[r.h[i].v], match |-> r.vals[r.h[i].m], new |-> r.h[i].new,
                                         count |-> r.h[i].count]]
           sim == [a \in 1..Len(r.vals) |-> [b \in 1..Len(r.vals) |-> S4!Above(S4!Ratio(r.vals[a], r.vals[b], r.mo), r.p, r.q)]]
           idx(s) == CHOOSE a \in 1..Len(r.vals) : r.vals[a] = s
       IN Why(h, r.size, 10, LAMBDA a, b : sim[idx(a)][idx(b)])
TInit == l = 1 /\ bad = <<>>
TNext == /\ l <= Len(Trace)
         /\ l' = l + 1
         /\ LET w == WhyRec(Trace[l]) IN
            bad' = IF w = {} THEN bad ELSE Append(bad, [t |-> Trace[l].t, l |-> l, why |-> SetToSeq(w)])
TSpec == TInit /\ [][TNext]_tvars
Final == (l = Len(Trace) + 1) => JsonSerialize("bad.json", [bad |-> bad, consumed |-> l - 1, done |-> TRUE])
=============================================================================

---------------------------- MODULE Scanner_Trace ----------------------------
(* B2: validates recorded executions of the real scanners against the abstract *)
(* Scanner specification.  Many traces are concatenated; each begins with a    *)
(* `reset` line.  A trace the specification cannot explain is recorded in `bad`*)
(* (trace id, line number of the rejected event) and skipped.                   *)
(* Traces of the batching layer on top of the scanner (batcher.go, the variants *)
(* named batcher-x) carry `batch` events: a slice of lines handed to the channel *)
(* with its BatchStart - and `blate` events: a batch the consumer kept, re-read *)
(* after the channel was closed (ScannerBatch.tla: PartitionOK, BatchLinesOK).  *)
EXTENDS Scanner, Json, TLC

Trace == ndJsonDeserialize("trace.ndjson")

VARIABLES l, tid, toks, bad,
          bsz,       \* batch size of the batcher under test (0: a bare scanner)
          batches    \* the batches handed out so far (each a sequence of lines)
tvars == <<pending, st, errs, ntoks, done, l, tid, toks, bad, bsz, batches>>

Ev == Trace[l]
IsEv(e) == l <= Len(Trace) /\ Ev.event = e /\ l' = l + 1

TReset ==
  /\ IsEv("reset")
  /\ pending' = <<>> /\ st' = "open" /\ errs' = 0 /\ ntoks' = 0 /\ done' = FALSE
  /\ tid' = Ev.t /\ toks' = <<>> /\ bsz' = Ev.bsize /\ batches' = <<>>
TRead == IsEv("read") /\ Deliver(Ev.data, Ev.err) /\ UNCHANGED <<tid, toks, bsz, batches>>
\* a run of Ev.n reads that returned (0, nil): any number of them, anywhere before the end, changes nothing
\* (n stuttering Deliver(<<>>, "nil") steps of Scanner.tla; ScannerStall.tla: StallNoop / StallReturns / StallLaw)
TStall == IsEv("stall") /\ st = "open" /\ ~done /\ Ev.n >= 1
          /\ UNCHANGED <<pending, st, errs, ntoks, done, tid, toks, bsz, batches>>
TTok  == IsEv("tok") /\ Emit(Ev.data) /\ toks' = Append(toks, Ev.data) /\ UNCHANGED <<tid, bsz, batches>>
TErr  == IsEv("err") /\ ReportErr /\ UNCHANGED <<tid, toks, bsz, batches>>
TEnd  == IsEv("end") /\ End /\ UNCHANGED <<tid, toks, bsz, batches>>
\* a retained slice, re-read after the scan finished, still holds the line it was handed out for
TLate ==
  /\ IsEv("late") /\ done
  /\ Ev.k \in 1..Len(toks) /\ toks[Ev.k] = Ev.data
  /\ UNCHANGED <<pending, st, errs, ntoks, done, tid, toks, bsz, batches>>

\* ---- the batching layer: a batch is the next 1..bsz lines of the stream, BatchStart the running count
RECURSIVE TakeLines(_, _, _)
\* <<ok, rest>>: are `ls` the next Len(ls) lines of the pending bytes p, and what is left
TakeLines(p, closed, ls) ==
  IF ls = <<>> THEN <<TRUE, p>>
  ELSE LET nl == NextLine(p, closed) IN
       IF nl = <<>> \/ nl[1] # ls[1] THEN <<FALSE, p>> ELSE TakeLines(nl[2], closed, Tail(ls))
TBatch ==
  /\ IsEv("batch") /\ ~done /\ bsz > 0
  /\ Ev.start = ntoks + 1
  /\ Len(Ev.lines) \in 1..bsz
  /\ LET r == TakeLines(pending, st # "open", Ev.lines) IN r[1] /\ pending' = r[2]
  /\ ntoks' = ntoks + Len(Ev.lines)
  /\ batches' = Append(batches, Ev.lines)
  /\ UNCHANGED <<st, errs, done, tid, toks, bsz>>
\* a retained batch, re-read after the channel was closed, still holds the lines it was handed out with
TBLate ==
  /\ IsEv("blate") /\ done
  /\ Ev.i \in 1..Len(batches) /\ batches[Ev.i] = Ev.lines
  /\ UNCHANGED <<pending, st, errs, ntoks, done, tid, toks, bsz, batches>>

TStep == TReset \/ TRead \/ TStall \/ TTok \/ TErr \/ TEnd \/ TLate \/ TBatch \/ TBLate

RECURSIVE NextReset(_)
NextReset(i) == IF i > Len(Trace) \/ Trace[i].event = "reset" THEN i ELSE NextReset(i + 1)

Skip ==
  /\ l <= Len(Trace)
  /\ ~ENABLED TStep
  /\ bad' = Append(bad, [t |-> tid, l |-> l])
  /\ l' = NextReset(l + 1)
  /\ UNCHANGED <<pending, st, errs, ntoks, done, tid, toks, bsz, batches>>

TInit == pending = <<>> /\ st = "open" /\ errs = 0 /\ ntoks = 0 /\ done = TRUE
         /\ l = 1 /\ tid = 0 /\ toks = <<>> /\ bad = <<>> /\ bsz = 0 /\ batches = <<>>
TNext == (TStep /\ UNCHANGED bad) \/ Skip
TSpec == TInit /\ [][TNext]_tvars

\* a trace must be complete (end reached) before the next one starts
Complete == (l <= Len(Trace) /\ Ev.event = "reset" /\ l > 1) => done
Final == (l = Len(Trace) + 1) => JsonSerialize("bad.json", [bad |-> bad, consumed |-> l - 1, done |-> done])
=============================================================================

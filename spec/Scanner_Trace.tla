---------------------------- MODULE Scanner_Trace ----------------------------
(* B2: validates recorded executions of the real scanners against the abstract *)
(* Scanner specification.  Many traces are concatenated; each begins with a    *)
(* `reset` line.  A trace the specification cannot explain is recorded in `bad`*)
(* (trace id, line number of the rejected event) and skipped.                   *)
EXTENDS Scanner, Json, TLC

Trace == ndJsonDeserialize("trace.ndjson")

VARIABLES l, tid, toks, bad
tvars == <<pending, st, errs, ntoks, done, l, tid, toks, bad>>

Ev == Trace[l]
IsEv(e) == l <= Len(Trace) /\ Ev.event = e /\ l' = l + 1

TReset ==
  /\ IsEv("reset")
  /\ pending' = <<>> /\ st' = "open" /\ errs' = 0 /\ ntoks' = 0 /\ done' = FALSE
  /\ tid' = Ev.t /\ toks' = <<>>
TRead == IsEv("read") /\ Deliver(Ev.data, Ev.err) /\ UNCHANGED <<tid, toks>>
TTok  == IsEv("tok") /\ Emit(Ev.data) /\ toks' = Append(toks, Ev.data) /\ UNCHANGED tid
TErr  == IsEv("err") /\ ReportErr /\ UNCHANGED <<tid, toks>>
TEnd  == IsEv("end") /\ End /\ UNCHANGED <<tid, toks>>
\* a retained slice, re-read after the scan finished, still holds the line it was handed out for
TLate ==
  /\ IsEv("late") /\ done
  /\ Ev.k \in 1..Len(toks) /\ toks[Ev.k] = Ev.data
  /\ UNCHANGED <<pending, st, errs, ntoks, done, tid, toks>>

TStep == TReset \/ TRead \/ TTok \/ TErr \/ TEnd \/ TLate

RECURSIVE NextReset(_)
NextReset(i) == IF i > Len(Trace) \/ Trace[i].event = "reset" THEN i ELSE NextReset(i + 1)

Skip ==
  /\ l <= Len(Trace)
  /\ ~ENABLED TStep
  /\ bad' = Append(bad, [t |-> tid, l |-> l])
  /\ l' = NextReset(l + 1)
  /\ UNCHANGED <<pending, st, errs, ntoks, done, tid, toks>>

TInit == pending = <<>> /\ st = "open" /\ errs = 0 /\ ntoks = 0 /\ done = TRUE
         /\ l = 1 /\ tid = 0 /\ toks = <<>> /\ bad = <<>>
TNext == (TStep /\ UNCHANGED bad) \/ Skip
TSpec == TInit /\ [][TNext]_tvars

\* a trace must be complete (end reached) before the next one starts
Complete == (l <= Len(Trace) /\ Ev.event = "reset" /\ l > 1) => done
Final == (l = Len(Trace) + 1) => JsonSerialize("bad.json", [bad |-> bad, consumed |-> l - 1, done |-> done])
=============================================================================

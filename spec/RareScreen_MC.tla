---------------------------- MODULE RareScreen_MC ----------------------------
(* C03, B3 -- what is on the screen when the run ends.                          *)
(* cmd/helpers/updatingAggregator.go RunAggregationLoop, with the observables   *)
(* of a run attached: the LAST complete render is what --snapshot (and piped    *)
(* output) prints, the CSV export and --all read the aggregator through its     *)
(* accessors after the loop.                                                    *)
(*                                                                              *)
(*   Arrive    the input delivers the next 1..B lines (any pacing: between two  *)
(*             arrivals any number of ticks may pass); the extractor's counters *)
(*             (lines read, matched, ignored) advance; a non-empty match batch  *)
(*             is handed to the main loop                                       *)
(*   Sample    the main loop takes the output mutex and samples the batch       *)
(*   TickBegin / TickEnd   the 100 ms ticker takes the mutex, renders (reads    *)
(*             the aggregator through its accessors, reads the counters),       *)
(*             releases it                                                      *)
(*   Stop      input exhausted, nothing in hand: outputDone rendezvous          *)
(*   Final     the final render, then the CSV export                            *)
(*                                                                              *)
(* A render shows View = the accessor's answer + the summary numbers.  Design   *)
(* selects what the code could do about "render only if there was an update"    *)
(* and about accessor caches:                                                   *)
(*   "code"       render on every tick and at the end; accessors recompute      *)
(*   "flag"       hasUpdate set by the main loop BEFORE it takes the mutex,     *)
(*                cleared by the ticker after its render, final render only if  *)
(*                set (seeded change; REFUTED: FinalScreen)                     *)
(*   "flagsafe"   hasUpdate set under the mutex, periodic renders skipped when  *)
(*                it is clear, final render unconditional (admissible)          *)
(*   "cachekeys"  the accessor keeps its answer until a NEW key is sampled      *)
(*                (seeded change; REFUTED: FinalScreen and FinalCsv)            *)
(*   "cachesafe"  the accessor keeps its answer until the next sample           *)
(*                (admissible)                                                  *)
(* Invariants: FinalScreen (the last render shows the reference aggregate and   *)
(* the counts of the whole input), FinalCsv (the export is the CSV of the       *)
(* reference aggregate), ScreenSound (every render shows a prefix aggregate:    *)
(* nothing invented), whatever the pacing of the input and the ticks.           *)
(*                                                                              *)
(* One TLC run explores a SET of scenarios (`sc` is fixed by the initial state):  *)
(* for the scenarios with neg = "" the invariants must hold; a scenario with     *)
(* neg = <name> is a negative control, TLC (run with -continue) must report the  *)
(* invariant Refuted_<name> violated.                                            *)
EXTENDS Rare

CONSTANTS Scenarios
VARIABLE sc     \* [B, co, cmd, design, ticks, neg]
Sc(b, co, c, d, t, neg) == [B |-> b, co |-> co, cmd |-> c, design |-> d, ticks |-> t, neg |-> neg]
ScQuick == {
  Sc(2, 1, 1, "code", 3, ""), Sc(2, 1, 1, "flagsafe", 3, ""), Sc(2, 1, 3, "cachesafe", 3, ""), Sc(2, 2, 2, "code", 3, ""),
  Sc(1, 1, 4, "code", 2, ""),
  Sc(2, 1, 1, "flag", 3, "flag"), Sc(2, 1, 1, "cachekeys", 3, "cachekeys"), Sc(2, 1, 1, "cachekeys", 3, "cachekeyscsv"),
  Sc(1, 2, 2, "flag", 2, "flagquiet") }
ScThorough == ScQuick \cup
  {Sc(b, co, c, d, 4, "") : b \in 1..3, co \in 1..2, c \in 1..4, d \in {"code", "flagsafe", "cachesafe"}} \cup
  {Sc(2, 1, 3, "cachekeys", 3, "cachekeys"), Sc(2, 1, 4, "cachekeys", 3, "cachekeys"), Sc(3, 1, 3, "flag", 4, "flag")}
B == sc.B   CorpusIx == sc.co   CmdIx == sc.cmd   Design == sc.design   MaxTicks == sc.ticks

L(k, s, v) == k \o <<SEP>> \o s \o <<SEP>> \o v
Corpora == <<
  \* 1: a key, a second key, then only known keys, an unmatched line at the very end
  << L(<<97>>, <<120>>, <<49>>), L(<<98>>, <<120>>, <<50>>), L(<<97>>, <<120>>, <<51>>), L(<<97>>, <<120>>, <<49>>), <<106>> >>,
  \* 2: one key all along, an ignored line in between
  << L(<<97>>, <<120>>, <<49>>), L(<<97>>, <<121>>, <<50>>), L(<<97>>, <<120>>, <<49>>) >>
>>
Cmds == <<
  [cmd |-> "histogram", mt |-> "re", ext |-> <<1, 3>>,    delim |-> <<>>, ig |-> 0, iv |-> <<>>, grp |-> 0, acc |-> <<>>],
  [cmd |-> "histogram", mt |-> "re", ext |-> <<1>>,       delim |-> <<>>, ig |-> 2, iv |-> <<121>>, grp |-> 0, acc |-> <<>>],
  [cmd |-> "table",     mt |-> "re", ext |-> <<1, 2, 3>>, delim |-> <<>>, ig |-> 0, iv |-> <<>>, grp |-> 0, acc |-> <<>>],
  [cmd |-> "reduce",    mt |-> "re", ext |-> <<1, 2, 3>>, delim |-> <<>>, ig |-> 0, iv |-> <<>>, grp |-> 1, acc |-> <<"count", "sum">>]
>>
Lines == Corpora[CorpusIx]
cd == Cmds[CmdIx]
N == Len(Lines)
RefFinal == RefAgg(cd, Lines)
\* the aggregates of the prefixes of the sample sequence (any batch boundary is a prefix)
RefPrefixes == {RefAgg(cd, SubSeq(Lines, 1, k)) : k \in 0..N}
NoHand == <<>>                                  \* a real match batch is never empty
NoCache == [has |-> FALSE, v |-> AggInit(cd)]
NoScreen == [has |-> FALSE, data |-> AggInit(cd), nums |-> <<>>]
NoCsv == [has |-> FALSE, v |-> <<>>]

\* the keys of an aggregator state (what a "new key" is)
KeysOf(st) ==
  CASE Kind(cd) \in {"counter", "num"} -> DOMAIN st.cnt
    [] Kind(cd) \in {"table", "subkey"} -> DOMAIN st.cells
    [] Kind(cd) = "acc" -> DOMAIN st

VARIABLES q,        \* lines not yet delivered
          hand,     \* match batch in the hands of the main loop (NoHand: none)
          agg,      \* the aggregator
          cache,    \* the accessor's remembered answer [has, v]
          flag,     \* hasUpdate
          mutex,    \* "free" | "tick"
          nread, nmatched, nignored,       \* the extractor's counters
          screen,   \* the last complete render [has, data, nums]
          csv,      \* the export [has, v]
          phase,    \* "run" | "final" | "done"
          ticks
vars == <<sc, q, hand, agg, cache, flag, mutex, nread, nmatched, nignored, screen, csv, phase, ticks>>

Caching == Design \in {"cachekeys", "cachesafe"}
Flagged == Design \in {"flag", "flagsafe"}

\* what the accessor answers, and what it remembers afterwards
Answer == IF Caching /\ cache.has THEN cache.v ELSE agg
Remember == IF Caching THEN [has |-> TRUE, v |-> Answer] ELSE cache
\* what a render puts on the screen
View(a) == [has |-> TRUE, data |-> a, nums |-> SummaryNums(cd, agg, nmatched, nread, nignored)]
\* the export reads the accessor too
CsvOf(a) == CASE Kind(cd) = "counter" -> CounterCsv(a)
              [] Kind(cd) = "table" -> TableCsv(a)
              [] Kind(cd) = "subkey" -> SubKeyCsv(a)
              [] Kind(cd) = "acc" -> AccCsv(cd, a, <<107>>, [i \in 1..Len(cd.acc) |-> <<110>>])
              [] OTHER -> <<>>

Init ==
  /\ sc \in Scenarios
  /\ q = Lines /\ hand = NoHand /\ agg = AggInit(cd) /\ cache = NoCache
  /\ flag = TRUE /\ mutex = "free"
  /\ nread = 0 /\ nmatched = 0 /\ nignored = 0
  /\ screen = NoScreen /\ csv = NoCsv /\ phase = "run" /\ ticks = 0

Arrive ==
  /\ phase = "run" /\ q # <<>> /\ hand = NoHand
  /\ \E n \in 1..(IF Len(q) < B THEN Len(q) ELSE B) :
       LET ls == SubSeq(q, 1, n)
           ms == Samples(cd, ls)
       IN /\ q' = SubSeq(q, n + 1, Len(q))
          /\ nread' = nread + n
          /\ nmatched' = nmatched + Len(ms)
          /\ nignored' = nignored + CountClass(cd, ls, "ignored")
          /\ hand' = ms
          \* "flag": set when the batch arrives, before the mutex is taken
          /\ flag' = IF Design = "flag" /\ ms # <<>> THEN TRUE ELSE flag
  /\ UNCHANGED <<agg, cache, mutex, screen, csv, phase, ticks>>

Sample ==
  /\ hand # NoHand /\ mutex = "free"
  /\ LET new == FoldLeft(LAMBDA st, el : AggSample(cd, st, el), agg, hand) IN
       /\ agg' = new
       /\ cache' = CASE Design = "cachekeys" -> IF KeysOf(new) # KeysOf(agg) THEN NoCache ELSE cache
                     [] Design = "cachesafe" -> NoCache
                     [] OTHER -> cache
  /\ flag' = IF Design = "flagsafe" THEN TRUE ELSE flag
  /\ hand' = NoHand
  /\ UNCHANGED <<q, mutex, nread, nmatched, nignored, screen, csv, phase, ticks>>

TickBegin ==
  /\ phase = "run" /\ mutex = "free" /\ ticks < MaxTicks
  /\ (Flagged => flag)
  /\ mutex' = "tick" /\ ticks' = ticks + 1
  /\ screen' = View(Answer) /\ cache' = Remember
  /\ UNCHANGED <<q, hand, agg, flag, nread, nmatched, nignored, csv, phase>>
TickEnd ==
  /\ mutex = "tick"
  /\ mutex' = "free"
  /\ flag' = IF Flagged THEN FALSE ELSE flag
  /\ UNCHANGED <<q, hand, agg, cache, nread, nmatched, nignored, screen, csv, phase, ticks>>

Stop ==
  /\ phase = "run" /\ q = <<>> /\ hand = NoHand /\ mutex = "free"
  /\ phase' = "final"
  /\ UNCHANGED <<q, hand, agg, cache, flag, mutex, nread, nmatched, nignored, screen, csv, ticks>>
Final ==
  /\ phase = "final"
  /\ LET render == Design # "flag" \/ flag
         a1 == Answer
     IN /\ screen' = IF render THEN View(a1) ELSE screen
        /\ cache' = IF render THEN Remember ELSE cache
        \* the export asks the accessor again (after the render, if any)
        /\ LET c2 == IF render THEN Remember ELSE cache IN
             csv' = [has |-> TRUE, v |-> CsvOf(IF Caching /\ c2.has THEN c2.v ELSE agg)]
  /\ phase' = "done"
  /\ UNCHANGED <<q, hand, agg, flag, mutex, nread, nmatched, nignored, ticks>>

Step == Arrive \/ Sample \/ TickBegin \/ TickEnd \/ Stop \/ Final
Next == (UNCHANGED sc /\ Step) \/ (phase = "done" /\ UNCHANGED vars)
Spec == Init /\ [][Next]_vars /\ WF_vars(UNCHANGED sc /\ (Arrive \/ Sample \/ TickEnd \/ Stop \/ Final))

-----------------------------------------------------------------------------
ScreenOK ==
  screen = [has |-> TRUE, data |-> RefFinal,
            nums |-> SummaryNums(cd, RefFinal, CountClass(cd, Lines, "sample"), N, CountClass(cd, Lines, "ignored"))]
CsvOK == csv = [has |-> TRUE, v |-> CsvOf(RefFinal)]
FinalScreen == (phase = "done" /\ sc.neg = "") => ScreenOK
FinalCsv == (phase = "done" /\ sc.neg = "") => CsvOK
ScreenSound == (screen.has /\ sc.neg = "") => screen.data \in RefPrefixes
AggSound == agg \in RefPrefixes
\* negative controls: TLC must find the behaviour that ends with a stale screen / export
Refuted_flag == ~(sc.neg = "flag" /\ phase = "done" /\ ~ScreenOK)
\* ... also when the lines after the last render are no samples (only the counters of the footer move)
Refuted_flagquiet == ~(sc.neg = "flagquiet" /\ phase = "done" /\ ~ScreenOK)
Refuted_cachekeys_screen == ~(sc.neg = "cachekeys" /\ phase = "done" /\ ~ScreenOK)
Refuted_cachekeys_csv == ~(sc.neg = "cachekeyscsv" /\ phase = "done" /\ ~CsvOK)
Terminates == <>(phase = "done")
=============================================================================

------------------------------ MODULE ExprScan ------------------------------
(* C08, behavioural part: a scan of N lines with ONE compiled expression.        *)
(*                                                                               *)
(* rare compiles the template once (Compile), then a worker evaluates the        *)
(* compiled expression on line after line (BuildKey).  The compiled stages keep  *)
(* state between lines: the format cache of {time}/{buckettime} (the first line  *)
(* that parses fixes the layout for all later lines) and pooled sub-contexts of  *)
(* the array helpers / funcs-file functions / formulas (taken and returned       *)
(* around every evaluation).  A panic in an evaluation kills the worker          *)
(* goroutine and with it the process: the remaining lines are never read.        *)
(*                                                                               *)
(* Property: Compile returns - with a usable expression or with errors - and,    *)
(* once compiled, every line yields a string; the scan never aborts and ends.    *)
(* The faults (a panic, an evaluation that does not return) are actions of the   *)
(* ENVIRONMENT that the specification forbids: with Faults = {} TLC proves the   *)
(* invariants below, with a fault enabled it must find the violation (negative   *)
(* control run by the check).  ExprScan_Trace accepts exactly the recorded       *)
(* scans that are behaviours of this machine without faults.                     *)
EXTENDS Integers, Sequences, FiniteSets, TLC

CONSTANTS N,        \* lines of the scan
          Faults    \* subset of {"compile-panic", "panic", "hang"}

\* what a line looks like to a stateful time stage: layout A, layout B, not a time, empty
LineKinds == {"A", "B", "junk", "empty"}
\* what an evaluation returns: text, one of the documented <ERROR> markers, or the empty string
Results == {"text", "marker", "empty"}

VARIABLES pc,       \* "start" | "ready" | "rejected" | "done" | "aborted" | "hung"
          lines,    \* the input: a sequence of line kinds
          i,        \* lines evaluated so far
          outs,     \* what every evaluated line returned
          cache,    \* layout cache of the time stage: "none" | "A" | "B"
          pool      \* pooled sub-contexts currently handed out
vars == <<pc, lines, i, outs, cache, pool>>

Init ==
  /\ pc = "start" /\ i = 0 /\ outs = <<>> /\ cache = "none" /\ pool = 0
  /\ lines \in [1..N -> LineKinds]

\* Compile returns: an expression, or compile errors (the command ends with a usage error before reading a line)
CompileOK  == pc = "start" /\ pc' = "ready" /\ UNCHANGED <<lines, i, outs, cache, pool>>
CompileErr == pc = "start" /\ pc' = "rejected" /\ UNCHANGED <<lines, i, outs, cache, pool>>

\* the time stage of smartDateParseWrapper ("cache" mode) on one line
TimeResult(kind, c) ==
  IF kind = "empty" THEN "marker"
  ELSE IF c = "none" THEN (IF kind \in {"A", "B"} THEN "text" ELSE "marker")
  ELSE IF kind = c THEN "text" ELSE "marker"
TimeCache(kind, c) == IF c = "none" /\ kind \in {"A", "B"} THEN kind ELSE c

\* one line: a sub-context is taken from the pool, the stages run, the context is returned, a string comes back
EvalLine ==
  /\ pc = "ready" /\ i < N /\ pool = 0
  /\ i' = i + 1
  /\ \E other \in Results :       \* the other stages of the template return some string as well
       outs' = Append(outs, <<TimeResult(lines[i + 1], cache), other>>)
  /\ cache' = TimeCache(lines[i + 1], cache)
  /\ pool' = 0                    \* Get ... defer Return: nothing stays handed out
  /\ UNCHANGED <<pc, lines>>
Finish == pc = "ready" /\ i = N /\ pc' = "done" /\ UNCHANGED <<lines, i, outs, cache, pool>>

\* ---- faults (environment; forbidden)
CompilePanic == "compile-panic" \in Faults /\ pc = "start" /\ pc' = "aborted" /\ UNCHANGED <<lines, i, outs, cache, pool>>
EvalPanic    == "panic" \in Faults /\ pc = "ready" /\ i < N /\ pc' = "aborted" /\ pool' = 1 /\ UNCHANGED <<lines, i, outs, cache>>
EvalHang     == "hang" \in Faults /\ pc = "ready" /\ i < N /\ pc' = "hung" /\ pool' = 1 /\ UNCHANGED <<lines, i, outs, cache>>

Next == CompileOK \/ CompileErr \/ EvalLine \/ Finish \/ CompilePanic \/ EvalPanic \/ EvalHang
Spec == Init /\ [][Next]_vars /\ WF_vars(Next)

\* ------------------------------------------------------------------ properties
TypeOK ==
  /\ pc \in {"start", "ready", "rejected", "done", "aborted", "hung"}
  /\ i \in 0..N /\ Len(outs) = i /\ cache \in {"none", "A", "B"} /\ pool \in {0, 1}
\* a single odd line cannot abort the scan
Survives == pc # "aborted"
\* every line read so far produced a string, in order; a finished scan saw all N lines
EveryLineAString ==
  /\ \A j \in 1..Len(outs) : outs[j][1] \in Results /\ outs[j][2] \in Results
  /\ pc = "done" => Len(outs) = N
\* a marker is only ever the answer to a line that is not a time in the cached layout
MarkersExplain == \A j \in 1..Len(outs) : outs[j][1] = "text" => lines[j] \in {"A", "B"}
\* no pooled context leaks between lines
PoolBalanced == pc \in {"ready", "done", "rejected", "start"} => pool = 0
\* the layout cache is sticky: once set it never changes
CacheSticky == [][cache # "none" => cache' = cache]_vars
\* Compile returns and the scan ends
Terminates == <>(pc \in {"done", "rejected"})
=============================================================================

------------------------------ MODULE ExprOpt ------------------------------
(* C10 - static optimisation and user-defined (funcs-file) functions never      *)
(* change the value of an expression.                                           *)
(*                                                                              *)
(* Expression trees.  A template is a sequence of nodes (the compiler's stage   *)
(* list); an argument of a call is again a template:                            *)
(*   Lit(v) | Grp(n) = {n} | Key(k) = {k} | Call(f, <<template, ...>>)          *)
(*                                                                              *)
(* Two layers:                                                                  *)
(*  abstract   ValT(template, ctx, clk, defs): the documented value.  Scalar    *)
(*             helpers come from ExprScalar (INSTANCE S); `time now/live/delta` *)
(*             read the clock clk = [now, live, delta] (the texts the three      *)
(*             key-words yield: ClkAt(compile time, evaluation time), or the    *)
(*             symbolic ClkSym whose values are the marker bytes 1, 2, 3 - the  *)
(*             vector generator uses it, the driver checks the real clock);     *)
(*             a funcs-file function is *substitution*: the body with {i}       *)
(*             replaced by the i-th call argument (missing: empty), keys        *)
(*             resolved in the caller's context.  Optimisation does not exist   *)
(*             at this level - that is the property.                            *)
(*  impl-shaped CompT / ExecT: written like pkg/expressions: Compile builds     *)
(*             stages, helpers pre-evaluate constant arguments with a probe     *)
(*             (EvalStaticStage: evaluate against the all-empty monitor context *)
(*             and count look-ups), optimize() folds stages with zero look-ups  *)
(*             and merges adjacent constants, `time live/delta` touch the       *)
(*             context, funcs-file functions evaluate their body against a lazy *)
(*             argument context (funcfile/stage.go lazySubContext).             *)
(* TLC checks (ExprOpt_MC) Exec o Comp(optimise) = Exec o Comp(no optimise) and *)
(* that both refine the abstract value.                                         *)
EXTENDS Bytes, TLC

CONSTANT Fixed     \* TRUE: sub-contexts forward the context touch (negative index) to the outer
                   \* context (the repaired code); FALSE: the touch is swallowed (negative control)

CONSTANT SkipUnesc \* "none": the code.  Negative controls: "opt" - the optimising compiler returns a non-empty
                   \* template without `{` as one literal stage as it stands, escapes unresolved (the plain
                   \* compiler always runs the scanner); "noopt" - the same shortcut in the plain compiler only

S == INSTANCE ExprScalar
X == INSTANCE ExprSyntax      \* C09's syntax model: Unescape, SplitM (argSplitter.go), ErrText, CompileF

\* ---------------------------------------------------------------- abstract values
UNK    == <<0 - 1>>      \* outside the specified domain: nothing is demanded
TRUTHY == <<0 - 2>>      \* the docs only say "truthy"
FALSY  == <<0 - 3>>      \* empty or blank
MARKER == <<0 - 4>>      \* one of the documented error markers
IsBytes(v) == v = <<>> \/ v[1] >= 0
\* clocks: what {time now}, {time live}, {time delta} yield
ClkAt(c, e) == [now |-> Itoa(c), live |-> Itoa(e), delta |-> Itoa(e - c)]
ClkSym == [now |-> <<1>>, live |-> <<2>>, delta |-> <<3>>]     \* symbolic (marker bytes)
IsVol(v) == IsBytes(v) /\ \E i \in 1..Len(v) : v[i] \in {1, 2, 3}

\* ---------------------------------------------------------------- trees
Nd(t, v, n, f, args, body) == [t |-> t, v |-> v, n |-> n, f |-> f, args |-> args, body |-> body]
Lit(v)        == Nd("lit", v, 0, "", <<>>, <<>>)
Grp(n)        == Nd("grp", <<>>, n, "", <<>>, <<>>)
Key(k)        == Nd("key", k, 0, "", <<>>, <<>>)
Call(f, args) == Nd("call", <<>>, 0, f, args, <<>>)
T1(nd) == <<nd>>                                   \* the one-node template

\* ---------------------------------------------------------------- contexts
\* base: the match context (groups g[1..], keys = <<name, value>> pairs);
\* lazy: a funcs-file call's argument context over the caller's context sub[1]
Base(g, keys)   == [kind |-> "base", g |-> g, keys |-> keys, args |-> <<>>, sub |-> <<>>]
Lazy(args, sub) == [kind |-> "lazy", g |-> <<>>, keys |-> <<>>, args |-> args, sub |-> <<sub>>]
EmptyBase == Base(<<>>, <<>>)                      \* what the optimiser probes with
GetMatch(c, i) == IF i >= 0 /\ i < Len(c.g) THEN c.g[i + 1] ELSE <<>>
GetKey(c, name) ==
  LET H == {i \in 1..Len(c.keys) : c.keys[i][1] = name} IN IF H = {} THEN <<>> ELSE c.keys[MinOf(H)][2]

\* funcs-file definitions: a sequence of [name, body]; definition i may call definitions < i
DefIdx(f, defs) == LET H == {i \in 1..Len(defs) : defs[i].name = f} IN IF H = {} THEN 0 ELSE MaxOf(H)

\* distinct names; a body calls only definitions that stand before it ("later definitions may call earlier ones")
RECURSIVE CallsT(_)
CallsN(nd) == IF nd.t # "call" THEN {} ELSE {nd.f} \cup UNION {CallsT(nd.args[i]) : i \in 1..Len(nd.args)}
CallsT(tpl) == UNION {CallsN(tpl[i]) : i \in 1..Len(tpl)}
WellScoped(defs) ==
  /\ \A i, j \in 1..Len(defs) : i # j => defs[i].name # defs[j].name
  /\ \A i \in 1..Len(defs) : \A f \in CallsT(defs[i].body) : DefIdx(f, defs) < i

\* ---------------------------------------------------------------- helper names as text
NameB(f) ==
  CASE f = "sumi" -> <<115, 117, 109, 105>>
    [] f = "subi" -> <<115, 117, 98, 105>>
    [] f = "multi" -> <<109, 117, 108, 116, 105>>
    [] f = "divi" -> <<100, 105, 118, 105>>
    [] f = "modi" -> <<109, 111, 100, 105>>
    [] f = "maxi" -> <<109, 97, 120, 105>>
    [] f = "mini" -> <<109, 105, 110, 105>>
    [] f = "sumf" -> <<115, 117, 109, 102>>
    [] f = "subf" -> <<115, 117, 98, 102>>
    [] f = "multf" -> <<109, 117, 108, 116, 102>>
    [] f = "divf" -> <<100, 105, 118, 102>>
    [] f = "pow" -> <<112, 111, 119>>
    [] f = "sqrt" -> <<115, 113, 114, 116>>
    [] f = "floor" -> <<102, 108, 111, 111, 114>>
    [] f = "ceil" -> <<99, 101, 105, 108>>
    [] f = "round" -> <<114, 111, 117, 110, 100>>
    [] f = "eq" -> <<101, 113>>
    [] f = "neq" -> <<110, 101, 113>>
    [] f = "not" -> <<110, 111, 116>>
    [] f = "and" -> <<97, 110, 100>>
    [] f = "or" -> <<111, 114>>
    [] f = "if" -> <<105, 102>>
    [] f = "unless" -> <<117, 110, 108, 101, 115, 115>>
    [] f = "switch" -> <<115, 119, 105, 116, 99, 104>>
    [] f = "coalesce" -> <<99, 111, 97, 108, 101, 115, 99, 101>>
    [] f = "isint" -> <<105, 115, 105, 110, 116>>
    [] f = "isnum" -> <<105, 115, 110, 117, 109>>
    [] f = "lt" -> <<108, 116>>
    [] f = "gt" -> <<103, 116>>
    [] f = "lte" -> <<108, 116, 101>>
    [] f = "gte" -> <<103, 116, 101>>
    [] f = "len" -> <<108, 101, 110>>
    [] f = "like" -> <<108, 105, 107, 101>>
    [] f = "prefix" -> <<112, 114, 101, 102, 105, 120>>
    [] f = "suffix" -> <<115, 117, 102, 102, 105, 120>>
    [] f = "substr" -> <<115, 117, 98, 115, 116, 114>>
    [] f = "select" -> <<115, 101, 108, 101, 99, 116>>
    [] f = "upper" -> <<117, 112, 112, 101, 114>>
    [] f = "lower" -> <<108, 111, 119, 101, 114>>
    [] f = "format" -> <<102, 111, 114, 109, 97, 116>>
    [] f = "tab" -> <<116, 97, 98>>
    [] f = "bucket" -> <<98, 117, 99, 107, 101, 116>>
    [] f = "bucketrange" -> <<98, 117, 99, 107, 101, 116, 114, 97, 110, 103, 101>>
    [] f = "clamp" -> <<99, 108, 97, 109, 112>>
    [] f = "expbucket" -> <<101, 120, 112, 98, 117, 99, 107, 101, 116>>
    [] f = "csv" -> <<99, 115, 118>>
    [] f = "hi" -> <<104, 105>>
    [] f = "percent" -> <<112, 101, 114, 99, 101, 110, 116>>
    [] f = "basename" -> <<98, 97, 115, 101, 110, 97, 109, 101>>
    [] f = "extname" -> <<101, 120, 116, 110, 97, 109, 101>>
    [] f = "time" -> <<116, 105, 109, 101>>
    [] f = "badlive" -> <<98, 97, 100, 108, 105, 118, 101>>
    [] f = "classifylen" -> <<99,108,97,115,115,105,102,121,108,101,110>>
    [] f = "name-of-func" -> <<110,97,109,101,45,111,102,45,102,117,110,99>>
    [] f = "u1" -> <<117, 49>>
    [] f = "u2" -> <<117, 50>>
    [] f = "u3" -> <<117, 51>>
    [] f = "u4" -> <<117, 52>>
    [] f = "u5" -> <<117, 53>>
    [] f = "u6" -> <<117, 54>>
    [] f = "u7" -> <<117, 55>>
    [] f = "u8" -> <<117, 56>>
    [] f = "u9" -> <<117, 57>>

\* ---------------------------------------------------------------- printing (template text)
(* The concrete text of a tree, escapes included.  A literal may hold any character.  The text  *)
(* of an argument passes, from the outside in, through the escape scanner of the enclosing       *)
(* Compile (`\x` -> unescape(x)), the argument splitter (`\x` -> x, quotes, blanks) and its own   *)
(* Compile; every level is undone by its own escaping function.  To keep the levels apart the     *)
(* printer works on TAGGED text: data characters are positive, structural characters (braces of  *)
(* statements, names, separating blanks, quotes around an argument) negative and never escaped.  *)
(* A style leaves the writer's free choices open:                                                 *)
(*   q    "auto": an argument is quoted when it holds a blank, brace or quote; "always";          *)
(*        "never": blanks/braces/quotes are backslash-escaped for the splitter instead             *)
(*        (an empty argument is always "", an argument holding a quoted argument never quoted)     *)
(*   ctl  how LF TAB CR are written: "deep": as \n \t \r at the literal's own level (so with      *)
(*        1, 4, 16 backslashes at depth 0, 1, 2); "raw": as themselves; "top": as themselves      *)
(*        inside, turned into \n \t \r in the final text (resolved by the outermost Compile)      *)
(*   unk  needless ("unknown") escapes: \" \} \a \. at the literal's own level                    *)
Sty(q, ctl, unk) == [q |-> q, ctl |-> ctl, unk |-> unk]
DefSty == Sty("auto", "deep", FALSE)
Styles == {Sty(q, ctl, unk) : q \in {"auto", "always", "never"}, ctl \in {"deep", "raw", "top"}, unk \in BOOLEAN}

StrT(s) == [i \in 1..Len(s) |-> 0 - s[i]]                 \* structural text
Untag(s) == [i \in 1..Len(s) |-> IF s[i] < 0 THEN 0 - s[i] ELSE s[i]]
IsCtl(c) == c \in {9, 10, 13}
CtlLetter(c) == IF c = 10 THEN 110 ELSE IF c = 9 THEN 116 ELSE 114
IsBlankU(c) == c \in {9, 10, 11, 12, 13, 32}
\* the literal's own level: what Compile must read to put the data character c into a literal stage
E0C(c, sty) == IF c \in {92, 123} THEN <<92, c>>
               ELSE IF IsCtl(c) /\ sty.ctl = "deep" THEN <<92, CtlLetter(c)>>
               ELSE IF sty.unk /\ c \in {34, 125, 97, 46} THEN <<92, c>>
               ELSE <<c>>
\* an enclosing Compile (inside a statement): backslash and braces
C1C(c) == IF c > 0 /\ c \in {92, 123, 125} THEN <<92, c>> ELSE <<c>>
\* the splitter, inside quotes / outside quotes
SQC(c) == IF c > 0 /\ c \in {92, 34} THEN <<92, c>> ELSE <<c>>
SUC(c) == IF c > 0 /\ (c \in {92, 34, 123, 125} \/ IsBlankU(c)) THEN <<92, c>> ELSE <<c>>
TopC(c) == IF c > 0 /\ IsCtl(c) THEN <<92, CtlLetter(c)>> ELSE <<c>>

RECURSIVE MapE0(_, _), MapC1(_), MapSQ(_), MapSU(_), MapTop(_)
MapE0(s, sty) == IF s = <<>> THEN <<>> ELSE E0C(s[1], sty) \o MapE0(Tail(s), sty)
MapC1(s) == IF s = <<>> THEN <<>> ELSE C1C(s[1]) \o MapC1(Tail(s))
MapSQ(s) == IF s = <<>> THEN <<>> ELSE SQC(s[1]) \o MapSQ(Tail(s))
MapSU(s) == IF s = <<>> THEN <<>> ELSE SUC(s[1]) \o MapSU(Tail(s))
MapTop(s) == IF s = <<>> THEN <<>> ELSE TopC(s[1]) \o MapTop(Tail(s))

RECURSIVE PTpl(_, _), PNode(_, _), PArgs(_, _)
PArg(arg, sty) ==
  LET A == PTpl(arg, sty)
      nestedQ == \E i \in 1..Len(A) : A[i] = 0 - 34
      wantQ == sty.q = "always" \/ (sty.q = "auto" /\ \E i \in 1..Len(A) : A[i] > 0 /\ (IsBlankU(A[i]) \/ A[i] \in {34, 123, 125}))
      B == IF A = <<>> \/ (wantQ /\ ~nestedQ) THEN <<0 - 34>> \o MapSQ(A) \o <<0 - 34>> ELSE MapSU(A)
  IN MapC1(B)
PArgs(args, sty) == IF args = <<>> THEN <<>> ELSE <<0 - 32>> \o PArg(args[1], sty) \o PArgs(Tail(args), sty)
PNode(nd, sty) ==
  CASE nd.t = "lit" -> MapE0(nd.v, sty)
    [] nd.t = "grp" -> <<0 - 123>> \o StrT(Itoa(nd.n)) \o <<0 - 125>>
    [] nd.t = "key" -> <<0 - 123>> \o StrT(nd.v) \o <<0 - 125>>
    [] nd.t = "call" -> <<0 - 123>> \o StrT(NameB(nd.f)) \o PArgs(nd.args, sty) \o <<0 - 125>>
PTpl(tpl, sty) == IF tpl = <<>> THEN <<>> ELSE PNode(tpl[1], sty) \o PTpl(Tail(tpl), sty)
TextS(tpl, sty) == LET t == PTpl(tpl, sty) IN Untag(IF sty.ctl = "top" THEN MapTop(t) ELSE t)
TextT(tpl) == TextS(tpl, DefSty)
\* does the tree hold a character that needs an escape somewhere / only in top-level literals ?
NeedsEsc(v) == \E i \in 1..Len(v) : v[i] \in {9, 10, 13, 34, 92, 123, 125}
RECURSIVE EscInArgsT(_, _)
EscInArgsN(nd, inarg) == IF nd.t = "lit" THEN inarg /\ NeedsEsc(nd.v)
                         ELSE nd.t = "call" /\ \E i \in 1..Len(nd.args) : EscInArgsT(nd.args[i], TRUE)
EscInArgsT(tpl, inarg) == \E i \in 1..Len(tpl) : EscInArgsN(tpl[i], inarg)

\* ---------------------------------------------------------------- substitution (funcs-file call semantics)
RECURSIVE SubstT(_, _), SubstN(_, _)
SubstN(nd, args) ==
  CASE nd.t = "grp" -> IF nd.n < Len(args) THEN args[nd.n + 1] ELSE <<Lit(<<>>)>>
    [] nd.t = "call" -> <<[nd EXCEPT !.args = [i \in 1..Len(nd.args) |-> SubstT(nd.args[i], args)]]>>
    [] OTHER -> <<nd>>
SubstT(tpl, args) == IF tpl = <<>> THEN <<>> ELSE SubstN(tpl[1], args) \o SubstT(Tail(tpl), args)

\* ---------------------------------------------------------------- syntactic classes of an argument
RECURSIVE ClosedT(_)
\* closed: built from literals and pure helpers only (no group, key, clock, user function)
ClosedN(nd) == nd.t = "lit" \/ (nd.t = "call" /\ nd.f \in S!Funcs /\ \A i \in 1..Len(nd.args) : ClosedT(nd.args[i]))
ClosedT(tpl) == \A i \in 1..Len(tpl) : ClosedN(tpl[i])
\* "c": a compile-time constant; "d": certainly read from the context (a group or key at the top
\* level of the argument); "u": neither is certain (e.g. {if "" {0} 5}: constant for the probe)
PosOf(tpl) == IF ClosedT(tpl) THEN "c"
              ELSE IF \E i \in 1..Len(tpl) : tpl[i].t \in {"grp", "key"} THEN "d" ELSE "u"

\* ================================================================= abstract value
\* a value containing a (symbolic) clock reading is a number: true
CondOf(v) == IF v = TRUTHY THEN "true" ELSE IF v = FALSY THEN "empty"
             ELSE IF ~IsBytes(v) THEN "unknown" ELSE IF IsVol(v) THEN "true" ELSE S!CondClass(v)
LogicOf(v) == IF v = TRUTHY THEN "true" ELSE IF ~IsBytes(v) THEN "unknown"
              ELSE IF IsVol(v) THEN "true" ELSE S!LogicClass(v)
FromExp(e) == CASE e.k = "out" -> e.v [] e.k = "truthy" -> TRUTHY [] e.k = "falsy" -> FALSY
                [] e.k = "marker" -> MARKER [] OTHER -> UNK
RECURSIVE AbsSwitch(_, _)
AbsSwitch(av, i) ==
  IF i > Len(av) THEN <<>>
  ELSE IF i = Len(av) THEN av[i]
  ELSE LET c == CondOf(av[i]) IN
       IF c = "unknown" THEN UNK ELSE IF c = "true" THEN av[i + 1] ELSE AbsSwitch(av, i + 2)
RECURSIVE AbsCoalesce(_, _)
AbsCoalesce(av, i) ==
  IF i > Len(av) THEN <<>>
  ELSE IF av[i] = TRUTHY THEN TRUTHY
  ELSE IF ~IsBytes(av[i]) THEN UNK
  ELSE IF av[i] # <<>> THEN av[i] ELSE AbsCoalesce(av, i + 1)

Lazy6 == {"if", "unless", "switch", "coalesce", "and", "or", "not"}
AbsLazy(f, av) ==
  LET n == Len(av) IN
  CASE f = "if" -> IF n \notin {2, 3} THEN S!ARGN
                   ELSE LET c == CondOf(av[1]) IN
                        IF c = "unknown" THEN UNK ELSE IF c = "true" THEN av[2]
                        ELSE IF n = 3 THEN av[3] ELSE <<>>
    [] f = "unless" -> IF n # 2 THEN S!ARGN
                       ELSE LET c == CondOf(av[1]) IN
                            IF c = "unknown" THEN UNK ELSE IF c = "true" THEN <<>> ELSE av[2]
    [] f = "switch" -> IF n < 2 THEN S!ARGN ELSE AbsSwitch(av, 1)
    [] f = "coalesce" -> AbsCoalesce(av, 1)
    [] f = "and" -> IF \E i \in 1..n : LogicOf(av[i]) = "empty" THEN FALSY
                    ELSE IF \E i \in 1..n : LogicOf(av[i]) = "unknown" THEN UNK ELSE TRUTHY
    [] f = "or" -> IF \E i \in 1..n : LogicOf(av[i]) = "true" THEN TRUTHY
                   ELSE IF \E i \in 1..n : LogicOf(av[i]) = "unknown" THEN UNK ELSE FALSY
    [] f = "not" -> IF n # 1 THEN S!ARGN
                    ELSE LET c == LogicOf(av[1]) IN
                         IF c = "unknown" THEN UNK ELSE IF c = "empty" THEN S!ONE ELSE <<>>

\* a scalar helper of ExprScalar applied to abstract argument values
AbsScalar(f, av, pos) ==
  LET n == Len(av)
      sens == S!ConstOnly(f) \cup S!SoftConst(f)
  IN
  IF ~S!ArityOK(f, n) THEN S!ARGN
  ELSE IF \E i \in sens : i <= n /\ pos[i] = "u" THEN UNK
  ELSE IF \E i \in S!ConstOnly(f) : i <= n /\ pos[i] = "d" THEN MARKER
  ELSE IF \E i \in 1..n : ~IsBytes(av[i]) \/ IsVol(av[i]) THEN UNK
  ELSE FromExp(S!Expect(f, av, [i \in 1..n |-> IF pos[i] = "c" THEN "c" ELSE "d"]))

KwNow   == <<110, 111, 119>>
KwLive  == <<108, 105, 118, 101>>
KwDelta == <<100, 101, 108, 116, 97>>

RECURSIVE ValT(_, _, _, _), ValN(_, _, _, _), ValCat(_, _)
ValCat(a, b) == IF IsBytes(a) /\ IsBytes(b) THEN a \o b
                ELSE IF a = <<>> THEN b ELSE IF b = <<>> THEN a ELSE UNK
ValN(nd, c, clk, defs) ==
  CASE nd.t = "lit" -> nd.v
    [] nd.t = "grp" -> GetMatch(c, nd.n)
    [] nd.t = "key" -> GetKey(c, nd.v)
    [] nd.t = "call" ->
       LET n == Len(nd.args)  d == DefIdx(nd.f, defs) IN
       \* the arguments belong to the caller (they may call any definition); the body calls earlier
       \* definitions only (WellScoped), so the whole list can be used for the substituted body
       IF d > 0 THEN ValT(SubstT(defs[d].body, nd.args), c, clk, defs)
       ELSE IF nd.f = "time" THEN
         (IF n = 1 /\ ClosedT(nd.args[1]) THEN
            LET w == ValT(nd.args[1], c, clk, defs) IN
            IF ~IsBytes(w) THEN UNK
            ELSE LET kw == LowerASCII(w) IN
                 IF kw = KwNow THEN clk.now
                 ELSE IF kw = KwLive THEN clk.live
                 ELSE IF kw = KwDelta THEN clk.delta ELSE UNK
          ELSE UNK)
       ELSE IF nd.f = "badlive" THEN clk.live
       ELSE IF nd.f \notin S!Funcs \/ n = 0 THEN UNK
       ELSE LET av == [i \in 1..n |-> ValT(nd.args[i], c, clk, defs)] IN
            IF nd.f \in Lazy6 THEN AbsLazy(nd.f, av)
            ELSE AbsScalar(nd.f, av, [i \in 1..n |-> PosOf(nd.args[i])])
ValT(tpl, c, clk, defs) ==
  IF tpl = <<>> THEN <<>> ELSE ValCat(ValN(tpl[1], c, clk, defs), ValT(Tail(tpl), c, clk, defs))

\* does an observed (or impl-level) value satisfy the abstract one ?
AbsOK(val, got) ==
  \/ val = UNK
  \/ val = TRUTHY /\ S!TruthClass(got) = "true"
  \/ val = FALSY /\ S!TruthClass(got) \in {"empty", "blank"}
  \/ val = MARKER /\ got \in S!Markers
  \/ val = got
Demands(val) == val # UNK

\* ================================================================= implementation-shaped layer
\* compiled stages: "lit" "grp" "key" | "fn" helper stage | "live" | "delta" (n = compile clock)
\* | "bad" | "udf" (body = the definition's compiled body, args = compiled arguments)
TypedInt == {"sumi", "subi", "multi", "divi", "modi", "maxi", "mini"}
Strict   == {"eq", "neq", "not", "len", "upper", "lower", "tab", "isint"}
LazyImpl == {"if", "unless", "switch", "coalesce", "and", "or"}
Static   == {"bucket", "clamp"}
Modelled == TypedInt \cup Strict \cup LazyImpl \cup Static

R(v, n) == [v |-> v, n |-> n]
IsIntS(s) == S!IntClass(s) # "no"

RECURSIVE ExecT(_, _, _), ExecN(_, _, _), CtxMatch(_, _, _), CtxKey(_, _)
\* context access: value and number of look-ups that reached the base (match / monitor) context
CtxMatch(ctx, i, k) ==
  IF ctx.kind = "base" THEN R(GetMatch(ctx, i), 1)
  ELSE IF i < 0 THEN (IF Fixed THEN CtxMatch(ctx.sub[1], i, k) ELSE R(<<>>, 0))
  ELSE IF i >= Len(ctx.args) THEN R(<<>>, 0)
  ELSE ExecT(ctx.args[i + 1], ctx.sub[1], k)           \* lazily evaluated in the caller's context
CtxKey(ctx, name) ==
  IF ctx.kind = "base" THEN R(GetKey(ctx, name), 1) ELSE CtxKey(ctx.sub[1], name)
Touch(ctx, k) == CtxMatch(ctx, 0 - 1, k).n                \* context.GetMatch(-1)

RECURSIVE IntRun(_, _, _, _, _, _), SwitchRun(_, _, _, _, _), CoalesceRun(_, _, _, _, _),
          AndRun(_, _, _, _, _), OrRun(_, _, _, _, _), StrictArgs(_, _, _, _, _, _)
\* arithmaticHelperiChecked: left to right, stop at the first unparsable operand / failed operation
IntRun(f, args, i, acc, n, env) ==
  IF i > Len(args) THEN R(Itoa(acc), n)
  ELSE LET a == ExecT(args[i], env[1], env[2]) IN
       IF ~IsIntS(a.v) THEN R(S!BADTYPE, n + a.n)
       ELSE LET r == S!IntOp(f, acc, S!IntVal(a.v)) IN
            IF r.st = "zero" THEN R(S!VALUEM, n + a.n)
            ELSE IntRun(f, args, i + 1, r.v, n + a.n, env)
SwitchRun(args, i, n, ctx, k) ==
  IF i + 1 <= Len(args) THEN
    LET c == ExecT(args[i], ctx, k) IN
    IF Truthy(c.v) THEN LET v == ExecT(args[i + 1], ctx, k) IN R(v.v, n + c.n + v.n)
    ELSE SwitchRun(args, i + 2, n + c.n, ctx, k)
  ELSE IF Len(args) % 2 = 1 THEN LET v == ExecT(args[Len(args)], ctx, k) IN R(v.v, n + v.n)
  ELSE R(<<>>, n)
CoalesceRun(args, i, n, ctx, k) ==
  IF i > Len(args) THEN R(<<>>, n)
  ELSE LET a == ExecT(args[i], ctx, k) IN
       IF a.v # <<>> THEN R(a.v, n + a.n) ELSE CoalesceRun(args, i + 1, n + a.n, ctx, k)
AndRun(args, i, n, ctx, k) ==
  IF i > Len(args) THEN R(S!ONE, n)
  ELSE LET a == ExecT(args[i], ctx, k) IN
       IF a.v = <<>> THEN R(<<>>, n + a.n) ELSE AndRun(args, i + 1, n + a.n, ctx, k)
OrRun(args, i, n, ctx, k) ==
  IF i > Len(args) THEN R(<<>>, n)
  ELSE LET a == ExecT(args[i], ctx, k) IN
       IF a.v # <<>> THEN R(S!ONE, n + a.n) ELSE OrRun(args, i + 1, n + a.n, ctx, k)
StrictArgs(args, i, vals, n, ctx, k) ==
  IF i > Len(args) THEN [vals |-> vals, n |-> n]
  ELSE LET a == ExecT(args[i], ctx, k) IN StrictArgs(args, i + 1, Append(vals, a.v), n + a.n, ctx, k)

StrictVal(f, av) ==
  IF f = "isint" THEN (IF IsIntS(av[1]) THEN S!ONE ELSE <<>>)
  ELSE S!Eval(f, av).v                                 \* eq neq not len upper lower tab: exact in ExprScalar

ExecFn(nd, ctx, k) ==
  LET f == nd.f  args == nd.args IN
  CASE f \in TypedInt ->
         LET a == ExecT(args[1], ctx, k) IN
         IF ~IsIntS(a.v) THEN R(S!BADTYPE, a.n) ELSE IntRun(f, args, 2, S!IntVal(a.v), a.n, <<ctx, k>>)
    [] f = "if" ->
         LET c == ExecT(args[1], ctx, k) IN
         IF Truthy(c.v) THEN LET v == ExecT(args[2], ctx, k) IN R(v.v, c.n + v.n)
         ELSE IF Len(args) >= 3 THEN LET v == ExecT(args[3], ctx, k) IN R(v.v, c.n + v.n)
         ELSE R(<<>>, c.n)
    [] f = "unless" ->
         LET c == ExecT(args[1], ctx, k) IN
         IF ~Truthy(c.v) THEN LET v == ExecT(args[2], ctx, k) IN R(v.v, c.n + v.n) ELSE R(<<>>, c.n)
    [] f = "switch" -> SwitchRun(args, 1, 0, ctx, k)
    [] f = "coalesce" -> CoalesceRun(args, 1, 0, ctx, k)
    [] f = "and" -> AndRun(args, 1, 0, ctx, k)
    [] f = "or" -> OrRun(args, 1, 0, ctx, k)
    [] f = "bucket" ->          \* args[2] was replaced by its constant at compile time
         LET a == ExecT(args[1], ctx, k) IN
         IF ~IsIntS(a.v) THEN R(S!BADTYPE, a.n)
         ELSE R(Itoa(S!Bucket(S!IntVal(a.v), S!IntVal(args[2][1].v))), a.n)
    [] f = "clamp" ->
         LET a == ExecT(args[1], ctx, k) IN
         IF ~IsIntS(a.v) THEN R(S!BADTYPE, a.n)
         ELSE LET v == S!IntVal(a.v) IN
              IF v < S!IntVal(args[2][1].v) THEN R(S!WMIN, a.n)
              ELSE IF v > S!IntVal(args[3][1].v) THEN R(S!WMAX, a.n) ELSE R(a.v, a.n)
    [] OTHER -> LET s == StrictArgs(args, 1, <<>>, 0, ctx, k) IN R(StrictVal(f, s.vals), s.n)

ExecN(nd, ctx, k) ==
  CASE nd.t = "lit" -> R(nd.v, 0)
    [] nd.t = "grp" -> CtxMatch(ctx, nd.n, k)
    [] nd.t = "key" -> CtxKey(ctx, nd.v)
    [] nd.t = "live" -> R(Itoa(k), Touch(ctx, k))           \* touches the context so it is never constant
    [] nd.t = "delta" -> R(Itoa(k - nd.n), Touch(ctx, k))
    [] nd.t = "bad" ->          \* negative control: looks at its data first, touches only afterwards
         LET a == ExecT(nd.args[1], ctx, k) IN
         IF a.v = <<>> THEN R(Itoa(k), a.n) ELSE R(Itoa(k), a.n + Touch(ctx, k))
    [] nd.t = "udf" -> ExecT(nd.body, Lazy(nd.args, ctx), k)
    [] nd.t = "fn" -> ExecFn(nd, ctx, k)
ExecT(tpl, ctx, k) ==
  IF tpl = <<>> THEN R(<<>>, 0)
  ELSE LET a == ExecN(tpl[1], ctx, k)  b == ExecT(Tail(tpl), ctx, k) IN R(a.v \o b.v, a.n + b.n)

\* EvalStaticStage: evaluate against the monitor context, constant iff nothing was looked up
ProbeN(nd, k0) == ExecN(nd, EmptyBase, k0)
ProbeT(tpl, k0) == ExecT(tpl, EmptyBase, k0)

\* CompiledKeyBuilder.optimize: one pass over the stages with a pending constant buffer
RECURSIVE OptLoop(_, _, _, _, _)
OptLoop(st, i, sb, ret, k0) ==
  LET flush == IF sb # <<>> THEN Append(ret, Lit(sb)) ELSE ret IN
  IF i > Len(st) THEN flush
  ELSE LET p == ProbeN(st[i], k0) IN
       IF p.n = 0 THEN OptLoop(st, i + 1, sb \o p.v, ret, k0)
       ELSE OptLoop(st, i + 1, <<>>, Append(flush, st[i]), k0)
OptStages(st, k0) == OptLoop(st, 1, <<>>, <<>>, k0)

Fn(f, args) == Nd("fn", <<>>, 0, f, args, <<>>)
ArityImpl(f, n) ==
  CASE f \in TypedInt \cup {"eq", "neq", "switch"} -> n >= 2
    [] f \in {"not", "len", "upper", "lower", "isint"} -> n = 1
    [] f \in {"unless", "bucket"} -> n = 2
    [] f = "clamp" -> n = 3
    [] f = "if" -> n \in {2, 3}
    [] OTHER -> TRUE

RECURSIVE CompT(_, _, _, _), CompN(_, _, _, _)
\* cdefs: compiled definitions [name, body] (bodies are always compiled with optimisation, main.go)
CompN(nd, opt, k0, cdefs) ==
  IF nd.t # "call" THEN nd
  ELSE
    LET n == Len(nd.args)
        cargs == [i \in 1..n |-> CompT(nd.args[i], opt, k0, cdefs)]
        d == DefIdx(nd.f, cdefs)
        pr == [i \in 1..n |-> ProbeT(cargs[i], k0)]
        constInt(i) == pr[i].n = 0 /\ IsIntS(pr[i].v)
    IN
    IF d > 0 THEN Nd("udf", <<>>, 0, nd.f, cargs, cdefs[d].body)
    ELSE IF nd.f = "badlive" THEN Nd("bad", <<>>, 0, nd.f, cargs, <<>>)
    ELSE IF nd.f = "time" THEN
      LET kw == LowerASCII(pr[1].v) IN          \* kfTimeParse: special key-words of a constant first argument
      IF pr[1].n = 0 /\ kw = KwNow THEN Lit(Itoa(k0))
      ELSE IF pr[1].n = 0 /\ kw = KwLive THEN Nd("live", <<>>, 0, "", <<>>, <<>>)
      ELSE IF pr[1].n = 0 /\ kw = KwDelta THEN Nd("delta", <<>>, k0, "", <<>>, <<>>)
      ELSE Lit(S!PARSEERR)                      \* date parsing is not modelled here (C18)
    ELSE IF ~ArityImpl(nd.f, n) THEN Lit(S!ARGN)
    ELSE IF nd.f \in TypedInt THEN
      \* mapTypedArgs / evalTypedStage: constant operands are parsed once at compile time
      IF \E i \in 1..n : pr[i].n = 0 /\ ~IsIntS(pr[i].v) THEN Lit(S!BADTYPE)
      ELSE Fn(nd.f, [i \in 1..n |-> IF pr[i].n = 0 THEN <<Lit(pr[i].v)>> ELSE cargs[i]])
    ELSE IF nd.f = "bucket" THEN
      IF ~constInt(2) THEN Lit(S!BADTYPE)
      ELSE IF S!IntVal(pr[2].v) <= 0 THEN Lit(S!VALUEM)
      ELSE Fn(nd.f, <<cargs[1], <<Lit(pr[2].v)>>>>)
    ELSE IF nd.f = "clamp" THEN
      IF ~constInt(2) \/ ~constInt(3) THEN Lit(S!BADTYPE)
      ELSE Fn(nd.f, <<cargs[1], <<Lit(pr[2].v)>>, <<Lit(pr[3].v)>>>>)
    ELSE Fn(nd.f, cargs)
CompT(tpl, opt, k0, cdefs) ==
  LET st == [i \in 1..Len(tpl) |-> CompN(tpl[i], opt, k0, cdefs)] IN
  IF opt THEN OptStages(st, k0) ELSE st

\* LoadDefinitions: every definition is compiled (optimising) with the earlier ones registered
RECURSIVE CompDefs(_, _, _)
CompDefs(defs, k0, acc) ==
  IF defs = <<>> THEN acc
  ELSE CompDefs(Tail(defs), k0, Append(acc, [name |-> defs[1].name, body |-> CompT(defs[1].body, TRUE, k0, acc)]))

\* the value the compiled expression yields: compiled at clock k0, evaluated at clock e
Run(tpl, opt, c, k0, e, defs) == ExecT(CompT(tpl, opt, k0, CompDefs(defs, k0, <<>>)), c, e).v

\* ================================================================= text level
(* keyBuilder.go Compile as it reads a TEXT: the escape scanner (`\x` -> unescape(x), also inside  *)
(* a statement; a lone trailing backslash stays), brace depth, the statement handed to the         *)
(* argument splitter (X!SplitM = argSplitter.go), one argument = a key or match index, more = a    *)
(* call whose arguments are compiled by Compile again (same compiler, so the same mode).           *)
(* Resolving escapes is part of compilation in BOTH modes; `raw` is the negative control           *)
(* (a template without `{` taken as a literal as it stands).                                       *)
AllNames == {"sumi", "subi", "multi", "divi", "modi", "maxi", "mini", "sumf", "subf", "multf", "divf", "pow",
             "sqrt", "floor", "ceil", "round", "eq", "neq", "not", "and", "or", "if", "unless",
             "switch", "coalesce", "isint", "isnum", "lt", "gt", "lte", "gte", "len", "like",
             "prefix", "suffix", "substr", "select", "upper", "lower", "format", "tab", "bucket",
             "bucketrange", "clamp", "expbucket", "csv", "hi", "percent", "basename", "extname",
             "time", "badlive", "classifylen", "name-of-func", "u1", "u2", "u3", "u4", "u5", "u6",
             "u7", "u8", "u9"}      \* the domain of NameB
NameOf(b) == IF \E f \in AllNames : NameB(f) = b THEN CHOOSE f \in AllNames : NameB(f) = b ELSE ""
HasB(s, b) == \E i \in 1..Len(s) : s[i] = b
ArgOf(t) == IF t = <<>> THEN <<Lit(<<>>)>> ELSE t                    \* joinStages of no stage: the empty literal

RECURSIVE ParseT(_, _), PLoop(_, _, _, _, _, _)
PStmt(sb, raw) ==
  LET args == X!SplitM(sb) IN
  IF Len(args) = 0 THEN <<>>                                          \* empty statement: an error, no stage
  ELSE IF Len(args) = 1 THEN <<IF ParseIntOK(args[1]) THEN Grp(ParseIntVal(args[1])) ELSE Key(args[1])>>
  ELSE LET f == NameOf(args[1]) IN
       IF f = "" THEN <<Lit(X!ErrText(args[1]))>>
       ELSE <<Call(f, [j \in 1..(Len(args) - 1) |-> ArgOf(ParseT(args[j + 1], raw))])>>
PLoop(r, i, depth, sb, st, raw) ==
  IF i > Len(r) THEN (IF sb # <<>> THEN Append(st, Lit(sb)) ELSE st)
  ELSE LET c == r[i] IN
    IF c = 92 THEN
      IF i + 1 <= Len(r) THEN PLoop(r, i + 2, depth, Append(sb, X!Unescape(r[i + 1])), st, raw)
      ELSE PLoop(r, i + 1, depth, Append(sb, 92), st, raw)
    ELSE IF c = 123 THEN
      IF depth = 0 THEN PLoop(r, i + 1, 1, <<>>, IF sb # <<>> THEN Append(st, Lit(sb)) ELSE st, raw)
      ELSE PLoop(r, i + 1, depth + 1, Append(sb, c), st, raw)
    ELSE IF c = 125 /\ depth > 0 THEN
      IF depth = 1 THEN PLoop(r, i + 1, 0, <<>>, st \o PStmt(sb, raw), raw)
      ELSE PLoop(r, i + 1, depth - 1, Append(sb, c), st, raw)
    ELSE PLoop(r, i + 1, depth, Append(sb, c), st, raw)
ParseT(r, raw) == IF raw /\ r # <<>> /\ ~HasB(r, 123) THEN <<Lit(r)>> ELSE PLoop(r, 1, 0, <<>>, <<>>, raw)

RawIn(opt) == (SkipUnesc = "opt" /\ opt) \/ (SkipUnesc = "noopt" /\ ~opt)
ReadT(text) == ParseT(text, FALSE)                                   \* the tree a text denotes
CompTxt(text, opt, k0, cdefs) == CompT(ParseT(text, RawIn(opt)), opt, k0, cdefs)
\* the loader: every body TEXT is compiled by the optimising compiler with the earlier definitions registered
RECURSIVE CompDefsTxt(_, _, _)
CompDefsTxt(dts, k0, acc) ==
  IF dts = <<>> THEN acc
  ELSE CompDefsTxt(Tail(dts), k0, Append(acc, [name |-> dts[1].name, body |-> CompTxt(dts[1].body, TRUE, k0, acc)]))

\* normal form of a tree: adjacent literals are one literal, empty literals vanish, an argument
\* without content is the empty literal (what reading a text can tell apart)
RECURSIVE NormT(_, _), MergeLits(_, _)
MergeLits(t, acc) ==
  IF t = <<>> THEN acc
  ELSE LET x == t[1] IN
    IF x.t = "lit" /\ x.v = <<>> THEN MergeLits(Tail(t), acc)
    ELSE IF x.t = "lit" /\ acc # <<>> /\ acc[Len(acc)].t = "lit"
      THEN MergeLits(Tail(t), [acc EXCEPT ![Len(acc)] = Lit(acc[Len(acc)].v \o x.v)])
    ELSE MergeLits(Tail(t), Append(acc, x))
NormT(t, isarg) ==
  LET m == MergeLits([i \in 1..Len(t) |->
                        IF t[i].t = "call" THEN [t[i] EXCEPT !.args = [j \in 1..Len(t[i].args) |-> NormT(t[i].args[j], TRUE)]] ELSE t[i]], <<>>)
  IN IF isarg THEN ArgOf(m) ELSE m
RoundTrip(t, sty) == NormT(ReadT(TextS(t, sty)), FALSE) = NormT(t, FALSE)

\* agreement with C09's parse model (X!CompileF under the table of all names): the same tree
FtAll == [b \in {NameB(f) : f \in AllNames} |-> 0]
RECURSIVE FromX(_)
FromXArg(x) == IF x.k = "cat" THEN [j \in 1..Len(x.args) |-> FromX(x.args[j])] ELSE <<FromX(x)>>
FromX(x) ==
  CASE x.k = "lit" -> Lit(x.s)
    [] x.k = "grp" -> Grp(x.n)
    [] x.k = "key" -> Key(x.s)
    [] x.k = "call" -> Call(NameOf(x.s), [j \in 1..Len(x.args) |-> FromXArg(x.args[j])])
    [] OTHER -> Lit(<<>>)
AgreesWithSyntaxP(text, rd) ==
  LET p == X!CompileF(text, FtAll) IN
  NormT([j \in 1..Len(p.st) |-> FromX(p.st[j])], FALSE) = NormT(rd, FALSE)
AgreesWithSyntax(text) == AgreesWithSyntaxP(text, ReadT(text))
=============================================================================

------------------------------ MODULE ExprOpt ------------------------------
(* C10 - static optimisation and user-defined (funcs-file) functions never      *)
(* change the value of an expression.                                           *)
(*                                                                              *)
(* Expression trees.  A template is a sequence of nodes (the compiler's stage   *)
(* list); an argument of a call is again a template:                            *)
(*   Lit(v) | Grp(n) = {n} | Key(k) = {k} | Call(f, <<template, ...>>)          *)
(*                                                                              *)
(* Two layers:                                                                  *)
(*  abstract   ValT(template, ctx, clk, defs): the documented value.  Scalar    *)
(*             helpers come from ExprScalar (INSTANCE S); `time now/live/delta` *)
(*             read the clock clk = [now, live, delta] (the texts the three      *)
(*             key-words yield: ClkAt(compile time, evaluation time), or the    *)
(*             symbolic ClkSym whose values are the marker bytes 1, 2, 3 - the  *)
(*             vector generator uses it, the driver checks the real clock);     *)
(*             a funcs-file function is *substitution*: the body with {i}       *)
(*             replaced by the i-th call argument (missing: empty), keys        *)
(*             resolved in the caller's context.  Optimisation does not exist   *)
(*             at this level - that is the property.                            *)
(*  impl-shaped CompT / ExecT: written like pkg/expressions: Compile builds     *)
(*             stages, helpers pre-evaluate constant arguments with a probe     *)
(*             (EvalStaticStage: evaluate against the all-empty monitor context *)
(*             and count look-ups), optimize() folds stages with zero look-ups  *)
(*             and merges adjacent constants, `time live/delta` touch the       *)
(*             context, funcs-file functions evaluate their body against a lazy *)
(*             argument context (funcfile/stage.go lazySubContext).             *)
(* TLC checks (ExprOpt_MC) Exec o Comp(optimise) = Exec o Comp(no optimise) and *)
(* that both refine the abstract value.                                         *)
EXTENDS Bytes, TLC

CONSTANT Fixed     \* TRUE: sub-contexts forward the context touch (negative index) to the outer
                   \* context (the repaired code); FALSE: the touch is swallowed (negative control)

S == INSTANCE ExprScalar

\* ---------------------------------------------------------------- abstract values
UNK    == <<0 - 1>>      \* outside the specified domain: nothing is demanded
TRUTHY == <<0 - 2>>      \* the docs only say "truthy"
FALSY  == <<0 - 3>>      \* empty or blank
MARKER == <<0 - 4>>      \* one of the documented error markers
IsBytes(v) == v = <<>> \/ v[1] >= 0
\* clocks: what {time now}, {time live}, {time delta} yield
ClkAt(c, e) == [now |-> Itoa(c), live |-> Itoa(e), delta |-> Itoa(e - c)]
ClkSym == [now |-> <<1>>, live |-> <<2>>, delta |-> <<3>>]     \* symbolic (marker bytes)
IsVol(v) == IsBytes(v) /\ \E i \in 1..Len(v) : v[i] \in {1, 2, 3}

\* ---------------------------------------------------------------- trees
Nd(t, v, n, f, args, body) == [t |-> t, v |-> v, n |-> n, f |-> f, args |-> args, body |-> body]
Lit(v)        == Nd("lit", v, 0, "", <<>>, <<>>)
Grp(n)        == Nd("grp", <<>>, n, "", <<>>, <<>>)
Key(k)        == Nd("key", k, 0, "", <<>>, <<>>)
Call(f, args) == Nd("call", <<>>, 0, f, args, <<>>)
T1(nd) == <<nd>>                                   \* the one-node template

\* ---------------------------------------------------------------- contexts
\* base: the match context (groups g[1..], keys = <<name, value>> pairs);
\* lazy: a funcs-file call's argument context over the caller's context sub[1]
Base(g, keys)   == [kind |-> "base", g |-> g, keys |-> keys, args |-> <<>>, sub |-> <<>>]
Lazy(args, sub) == [kind |-> "lazy", g |-> <<>>, keys |-> <<>>, args |-> args, sub |-> <<sub>>]
EmptyBase == Base(<<>>, <<>>)                      \* what the optimiser probes with
GetMatch(c, i) == IF i >= 0 /\ i < Len(c.g) THEN c.g[i + 1] ELSE <<>>
GetKey(c, name) ==
  LET H == {i \in 1..Len(c.keys) : c.keys[i][1] = name} IN IF H = {} THEN <<>> ELSE c.keys[MinOf(H)][2]

\* funcs-file definitions: a sequence of [name, body]; definition i may call definitions < i
DefIdx(f, defs) == LET H == {i \in 1..Len(defs) : defs[i].name = f} IN IF H = {} THEN 0 ELSE MaxOf(H)

\* distinct names; a body calls only definitions that stand before it ("later definitions may call earlier ones")
RECURSIVE CallsT(_)
CallsN(nd) == IF nd.t # "call" THEN {} ELSE {nd.f} \cup UNION {CallsT(nd.args[i]) : i \in 1..Len(nd.args)}
CallsT(tpl) == UNION {CallsN(tpl[i]) : i \in 1..Len(tpl)}
WellScoped(defs) ==
  /\ \A i, j \in 1..Len(defs) : i # j => defs[i].name # defs[j].name
  /\ \A i \in 1..Len(defs) : \A f \in CallsT(defs[i].body) : DefIdx(f, defs) < i

\* ---------------------------------------------------------------- helper names as text
NameB(f) ==
  CASE f = "sumi" -> <<115, 117, 109, 105>>
    [] f = "subi" -> <<115, 117, 98, 105>>
    [] f = "multi" -> <<109, 117, 108, 116, 105>>
    [] f = "divi" -> <<100, 105, 118, 105>>
    [] f = "modi" -> <<109, 111, 100, 105>>
    [] f = "maxi" -> <<109, 97, 120, 105>>
    [] f = "mini" -> <<109, 105, 110, 105>>
    [] f = "sumf" -> <<115, 117, 109, 102>>
    [] f = "subf" -> <<115, 117, 98, 102>>
    [] f = "multf" -> <<109, 117, 108, 116, 102>>
    [] f = "divf" -> <<100, 105, 118, 102>>
    [] f = "pow" -> <<112, 111, 119>>
    [] f = "sqrt" -> <<115, 113, 114, 116>>
    [] f = "floor" -> <<102, 108, 111, 111, 114>>
    [] f = "ceil" -> <<99, 101, 105, 108>>
    [] f = "round" -> <<114, 111, 117, 110, 100>>
    [] f = "eq" -> <<101, 113>>
    [] f = "neq" -> <<110, 101, 113>>
    [] f = "not" -> <<110, 111, 116>>
    [] f = "and" -> <<97, 110, 100>>
    [] f = "or" -> <<111, 114>>
    [] f = "if" -> <<105, 102>>
    [] f = "unless" -> <<117, 110, 108, 101, 115, 115>>
    [] f = "switch" -> <<115, 119, 105, 116, 99, 104>>
    [] f = "coalesce" -> <<99, 111, 97, 108, 101, 115, 99, 101>>
    [] f = "isint" -> <<105, 115, 105, 110, 116>>
    [] f = "isnum" -> <<105, 115, 110, 117, 109>>
    [] f = "lt" -> <<108, 116>>
    [] f = "gt" -> <<103, 116>>
    [] f = "lte" -> <<108, 116, 101>>
    [] f = "gte" -> <<103, 116, 101>>
    [] f = "len" -> <<108, 101, 110>>
    [] f = "like" -> <<108, 105, 107, 101>>
    [] f = "prefix" -> <<112, 114, 101, 102, 105, 120>>
    [] f = "suffix" -> <<115, 117, 102, 102, 105, 120>>
    [] f = "substr" -> <<115, 117, 98, 115, 116, 114>>
    [] f = "select" -> <<115, 101, 108, 101, 99, 116>>
    [] f = "upper" -> <<117, 112, 112, 101, 114>>
    [] f = "lower" -> <<108, 111, 119, 101, 114>>
    [] f = "format" -> <<102, 111, 114, 109, 97, 116>>
    [] f = "tab" -> <<116, 97, 98>>
    [] f = "bucket" -> <<98, 117, 99, 107, 101, 116>>
    [] f = "bucketrange" -> <<98, 117, 99, 107, 101, 116, 114, 97, 110, 103, 101>>
    [] f = "clamp" -> <<99, 108, 97, 109, 112>>
    [] f = "expbucket" -> <<101, 120, 112, 98, 117, 99, 107, 101, 116>>
    [] f = "csv" -> <<99, 115, 118>>
    [] f = "hi" -> <<104, 105>>
    [] f = "percent" -> <<112, 101, 114, 99, 101, 110, 116>>
    [] f = "basename" -> <<98, 97, 115, 101, 110, 97, 109, 101>>
    [] f = "extname" -> <<101, 120, 116, 110, 97, 109, 101>>
    [] f = "time" -> <<116, 105, 109, 101>>
    [] f = "badlive" -> <<98, 97, 100, 108, 105, 118, 101>>
    [] f = "classifylen" -> <<99,108,97,115,115,105,102,121,108,101,110>>
    [] f = "name-of-func" -> <<110,97,109,101,45,111,102,45,102,117,110,99>>
    [] f = "u1" -> <<117, 49>>
    [] f = "u2" -> <<117, 50>>
    [] f = "u3" -> <<117, 51>>
    [] f = "u4" -> <<117, 52>>
    [] f = "u5" -> <<117, 53>>
    [] f = "u6" -> <<117, 54>>

\* ---------------------------------------------------------------- printing (template text)
\* Domain of the printer: literals inside arguments are non-empty words without blanks, quotes,
\* braces or backslashes (an argument that is exactly the empty literal prints as "");
\* top-level literals may contain single blanks.  (Escaping is C09's subject.)
RECURSIVE TextT(_), TextN(_), TextArgs(_)
\* a literal argument containing a blank is written in quotes
TextArg(tpl) == LET s == TextT(tpl) IN
                IF s = <<>> THEN <<34, 34>>
                ELSE IF Len(tpl) = 1 /\ tpl[1].t = "lit" /\ \E i \in 1..Len(s) : s[i] = 32 THEN <<34>> \o s \o <<34>>
                ELSE s
TextArgs(args) == IF args = <<>> THEN <<>> ELSE <<32>> \o TextArg(args[1]) \o TextArgs(Tail(args))
TextN(nd) ==
  CASE nd.t = "lit" -> nd.v
    [] nd.t = "grp" -> <<123>> \o Itoa(nd.n) \o <<125>>
    [] nd.t = "key" -> <<123>> \o nd.v \o <<125>>
    [] nd.t = "call" -> <<123>> \o NameB(nd.f) \o TextArgs(nd.args) \o <<125>>
TextT(tpl) == IF tpl = <<>> THEN <<>> ELSE TextN(tpl[1]) \o TextT(Tail(tpl))

\* ---------------------------------------------------------------- substitution (funcs-file call semantics)
RECURSIVE SubstT(_, _), SubstN(_, _)
SubstN(nd, args) ==
  CASE nd.t = "grp" -> IF nd.n < Len(args) THEN args[nd.n + 1] ELSE <<Lit(<<>>)>>
    [] nd.t = "call" -> <<[nd EXCEPT !.args = [i \in 1..Len(nd.args) |-> SubstT(nd.args[i], args)]]>>
    [] OTHER -> <<nd>>
SubstT(tpl, args) == IF tpl = <<>> THEN <<>> ELSE SubstN(tpl[1], args) \o SubstT(Tail(tpl), args)

\* ---------------------------------------------------------------- syntactic classes of an argument
RECURSIVE ClosedT(_)
\* closed: built from literals and pure helpers only (no group, key, clock, user function)
ClosedN(nd) == nd.t = "lit" \/ (nd.t = "call" /\ nd.f \in S!Funcs /\ \A i \in 1..Len(nd.args) : ClosedT(nd.args[i]))
ClosedT(tpl) == \A i \in 1..Len(tpl) : ClosedN(tpl[i])
\* "c": a compile-time constant; "d": certainly read from the context (a group or key at the top
\* level of the argument); "u": neither is certain (e.g. {if "" {0} 5}: constant for the probe)
PosOf(tpl) == IF ClosedT(tpl) THEN "c"
              ELSE IF \E i \in 1..Len(tpl) : tpl[i].t \in {"grp", "key"} THEN "d" ELSE "u"

\* ================================================================= abstract value
\* a value containing a (symbolic) clock reading is a number: true
CondOf(v) == IF v = TRUTHY THEN "true" ELSE IF v = FALSY THEN "empty"
             ELSE IF ~IsBytes(v) THEN "unknown" ELSE IF IsVol(v) THEN "true" ELSE S!CondClass(v)
LogicOf(v) == IF v = TRUTHY THEN "true" ELSE IF ~IsBytes(v) THEN "unknown"
              ELSE IF IsVol(v) THEN "true" ELSE S!LogicClass(v)
FromExp(e) == CASE e.k = "out" -> e.v [] e.k = "truthy" -> TRUTHY [] e.k = "falsy" -> FALSY
                [] e.k = "marker" -> MARKER [] OTHER -> UNK
RECURSIVE AbsSwitch(_, _)
AbsSwitch(av, i) ==
  IF i > Len(av) THEN <<>>
  ELSE IF i = Len(av) THEN av[i]
  ELSE LET c == CondOf(av[i]) IN
       IF c = "unknown" THEN UNK ELSE IF c = "true" THEN av[i + 1] ELSE AbsSwitch(av, i + 2)
RECURSIVE AbsCoalesce(_, _)
AbsCoalesce(av, i) ==
  IF i > Len(av) THEN <<>>
  ELSE IF av[i] = TRUTHY THEN TRUTHY
  ELSE IF ~IsBytes(av[i]) THEN UNK
  ELSE IF av[i] # <<>> THEN av[i] ELSE AbsCoalesce(av, i + 1)

Lazy6 == {"if", "unless", "switch", "coalesce", "and", "or", "not"}
AbsLazy(f, av) ==
  LET n == Len(av) IN
  CASE f = "if" -> IF n \notin {2, 3} THEN S!ARGN
                   ELSE LET c == CondOf(av[1]) IN
                        IF c = "unknown" THEN UNK ELSE IF c = "true" THEN av[2]
                        ELSE IF n = 3 THEN av[3] ELSE <<>>
    [] f = "unless" -> IF n # 2 THEN S!ARGN
                       ELSE LET c == CondOf(av[1]) IN
                            IF c = "unknown" THEN UNK ELSE IF c = "true" THEN <<>> ELSE av[2]
    [] f = "switch" -> IF n < 2 THEN S!ARGN ELSE AbsSwitch(av, 1)
    [] f = "coalesce" -> AbsCoalesce(av, 1)
    [] f = "and" -> IF \E i \in 1..n : LogicOf(av[i]) = "empty" THEN FALSY
                    ELSE IF \E i \in 1..n : LogicOf(av[i]) = "unknown" THEN UNK ELSE TRUTHY
    [] f = "or" -> IF \E i \in 1..n : LogicOf(av[i]) = "true" THEN TRUTHY
                   ELSE IF \E i \in 1..n : LogicOf(av[i]) = "unknown" THEN UNK ELSE FALSY
    [] f = "not" -> IF n # 1 THEN S!ARGN
                    ELSE LET c == LogicOf(av[1]) IN
                         IF c = "unknown" THEN UNK ELSE IF c = "empty" THEN S!ONE ELSE <<>>

\* a scalar helper of ExprScalar applied to abstract argument values
AbsScalar(f, av, pos) ==
  LET n == Len(av)
      sens == S!ConstOnly(f) \cup S!SoftConst(f)
  IN
  IF ~S!ArityOK(f, n) THEN S!ARGN
  ELSE IF \E i \in sens : i <= n /\ pos[i] = "u" THEN UNK
  ELSE IF \E i \in S!ConstOnly(f) : i <= n /\ pos[i] = "d" THEN MARKER
  ELSE IF \E i \in 1..n : ~IsBytes(av[i]) \/ IsVol(av[i]) THEN UNK
  ELSE FromExp(S!Expect(f, av, [i \in 1..n |-> IF pos[i] = "c" THEN "c" ELSE "d"]))

KwNow   == <<110, 111, 119>>
KwLive  == <<108, 105, 118, 101>>
KwDelta == <<100, 101, 108, 116, 97>>

RECURSIVE ValT(_, _, _, _), ValN(_, _, _, _), ValCat(_, _)
ValCat(a, b) == IF IsBytes(a) /\ IsBytes(b) THEN a \o b
                ELSE IF a = <<>> THEN b ELSE IF b = <<>> THEN a ELSE UNK
ValN(nd, c, clk, defs) ==
  CASE nd.t = "lit" -> nd.v
    [] nd.t = "grp" -> GetMatch(c, nd.n)
    [] nd.t = "key" -> GetKey(c, nd.v)
    [] nd.t = "call" ->
       LET n == Len(nd.args)  d == DefIdx(nd.f, defs) IN
       \* the arguments belong to the caller (they may call any definition); the body calls earlier
       \* definitions only (WellScoped), so the whole list can be used for the substituted body
       IF d > 0 THEN ValT(SubstT(defs[d].body, nd.args), c, clk, defs)
       ELSE IF nd.f = "time" THEN
         (IF n = 1 /\ ClosedT(nd.args[1]) THEN
            LET w == ValT(nd.args[1], c, clk, defs) IN
            IF ~IsBytes(w) THEN UNK
            ELSE LET kw == LowerASCII(w) IN
                 IF kw = KwNow THEN clk.now
                 ELSE IF kw = KwLive THEN clk.live
                 ELSE IF kw = KwDelta THEN clk.delta ELSE UNK
          ELSE UNK)
       ELSE IF nd.f = "badlive" THEN clk.live
       ELSE IF nd.f \notin S!Funcs \/ n = 0 THEN UNK
       ELSE LET av == [i \in 1..n |-> ValT(nd.args[i], c, clk, defs)] IN
            IF nd.f \in Lazy6 THEN AbsLazy(nd.f, av)
            ELSE AbsScalar(nd.f, av, [i \in 1..n |-> PosOf(nd.args[i])])
ValT(tpl, c, clk, defs) ==
  IF tpl = <<>> THEN <<>> ELSE ValCat(ValN(tpl[1], c, clk, defs), ValT(Tail(tpl), c, clk, defs))

\* does an observed (or impl-level) value satisfy the abstract one ?
AbsOK(val, got) ==
  \/ val = UNK
  \/ val = TRUTHY /\ S!TruthClass(got) = "true"
  \/ val = FALSY /\ S!TruthClass(got) \in {"empty", "blank"}
  \/ val = MARKER /\ got \in S!Markers
  \/ val = got
Demands(val) == val # UNK

\* ================================================================= implementation-shaped layer
\* compiled stages: "lit" "grp" "key" | "fn" helper stage | "live" | "delta" (n = compile clock)
\* | "bad" | "udf" (body = the definition's compiled body, args = compiled arguments)
TypedInt == {"sumi", "subi", "multi", "divi", "modi", "maxi", "mini"}
Strict   == {"eq", "neq", "not", "len", "upper", "lower", "tab", "isint"}
LazyImpl == {"if", "unless", "switch", "coalesce", "and", "or"}
Static   == {"bucket", "clamp"}
Modelled == TypedInt \cup Strict \cup LazyImpl \cup Static

R(v, n) == [v |-> v, n |-> n]
IsIntS(s) == S!IntClass(s) # "no"

RECURSIVE ExecT(_, _, _), ExecN(_, _, _), CtxMatch(_, _, _), CtxKey(_, _)
\* context access: value and number of look-ups that reached the base (match / monitor) context
CtxMatch(ctx, i, k) ==
  IF ctx.kind = "base" THEN R(GetMatch(ctx, i), 1)
  ELSE IF i < 0 THEN (IF Fixed THEN CtxMatch(ctx.sub[1], i, k) ELSE R(<<>>, 0))
  ELSE IF i >= Len(ctx.args) THEN R(<<>>, 0)
  ELSE ExecT(ctx.args[i + 1], ctx.sub[1], k)           \* lazily evaluated in the caller's context
CtxKey(ctx, name) ==
  IF ctx.kind = "base" THEN R(GetKey(ctx, name), 1) ELSE CtxKey(ctx.sub[1], name)
Touch(ctx, k) == CtxMatch(ctx, 0 - 1, k).n                \* context.GetMatch(-1)

RECURSIVE IntRun(_, _, _, _, _, _), SwitchRun(_, _, _, _, _), CoalesceRun(_, _, _, _, _),
          AndRun(_, _, _, _, _), OrRun(_, _, _, _, _), StrictArgs(_, _, _, _, _, _)
\* arithmaticHelperiChecked: left to right, stop at the first unparsable operand / failed operation
IntRun(f, args, i, acc, n, env) ==
  IF i > Len(args) THEN R(Itoa(acc), n)
  ELSE LET a == ExecT(args[i], env[1], env[2]) IN
       IF ~IsIntS(a.v) THEN R(S!BADTYPE, n + a.n)
       ELSE LET r == S!IntOp(f, acc, S!IntVal(a.v)) IN
            IF r.st = "zero" THEN R(S!VALUEM, n + a.n)
            ELSE IntRun(f, args, i + 1, r.v, n + a.n, env)
SwitchRun(args, i, n, ctx, k) ==
  IF i + 1 <= Len(args) THEN
    LET c == ExecT(args[i], ctx, k) IN
    IF Truthy(c.v) THEN LET v == ExecT(args[i + 1], ctx, k) IN R(v.v, n + c.n + v.n)
    ELSE SwitchRun(args, i + 2, n + c.n, ctx, k)
  ELSE IF Len(args) % 2 = 1 THEN LET v == ExecT(args[Len(args)], ctx, k) IN R(v.v, n + v.n)
  ELSE R(<<>>, n)
CoalesceRun(args, i, n, ctx, k) ==
  IF i > Len(args) THEN R(<<>>, n)
  ELSE LET a == ExecT(args[i], ctx, k) IN
       IF a.v # <<>> THEN R(a.v, n + a.n) ELSE CoalesceRun(args, i + 1, n + a.n, ctx, k)
AndRun(args, i, n, ctx, k) ==
  IF i > Len(args) THEN R(S!ONE, n)
  ELSE LET a == ExecT(args[i], ctx, k) IN
       IF a.v = <<>> THEN R(<<>>, n + a.n) ELSE AndRun(args, i + 1, n + a.n, ctx, k)
OrRun(args, i, n, ctx, k) ==
  IF i > Len(args) THEN R(<<>>, n)
  ELSE LET a == ExecT(args[i], ctx, k) IN
       IF a.v # <<>> THEN R(S!ONE, n + a.n) ELSE OrRun(args, i + 1, n + a.n, ctx, k)
StrictArgs(args, i, vals, n, ctx, k) ==
  IF i > Len(args) THEN [vals |-> vals, n |-> n]
  ELSE LET a == ExecT(args[i], ctx, k) IN StrictArgs(args, i + 1, Append(vals, a.v), n + a.n, ctx, k)

StrictVal(f, av) ==
  IF f = "isint" THEN (IF IsIntS(av[1]) THEN S!ONE ELSE <<>>)
  ELSE S!Eval(f, av).v                                 \* eq neq not len upper lower tab: exact in ExprScalar

ExecFn(nd, ctx, k) ==
  LET f == nd.f  args == nd.args IN
  CASE f \in TypedInt ->
         LET a == ExecT(args[1], ctx, k) IN
         IF ~IsIntS(a.v) THEN R(S!BADTYPE, a.n) ELSE IntRun(f, args, 2, S!IntVal(a.v), a.n, <<ctx, k>>)
    [] f = "if" ->
         LET c == ExecT(args[1], ctx, k) IN
         IF Truthy(c.v) THEN LET v == ExecT(args[2], ctx, k) IN R(v.v, c.n + v.n)
         ELSE IF Len(args) >= 3 THEN LET v == ExecT(args[3], ctx, k) IN R(v.v, c.n + v.n)
         ELSE R(<<>>, c.n)
    [] f = "unless" ->
         LET c == ExecT(args[1], ctx, k) IN
         IF ~Truthy(c.v) THEN LET v == ExecT(args[2], ctx, k) IN R(v.v, c.n + v.n) ELSE R(<<>>, c.n)
    [] f = "switch" -> SwitchRun(args, 1, 0, ctx, k)
    [] f = "coalesce" -> CoalesceRun(args, 1, 0, ctx, k)
    [] f = "and" -> AndRun(args, 1, 0, ctx, k)
    [] f = "or" -> OrRun(args, 1, 0, ctx, k)
    [] f = "bucket" ->          \* args[2] was replaced by its constant at compile time
         LET a == ExecT(args[1], ctx, k) IN
         IF ~IsIntS(a.v) THEN R(S!BADTYPE, a.n)
         ELSE R(Itoa(S!Bucket(S!IntVal(a.v), S!IntVal(args[2][1].v))), a.n)
    [] f = "clamp" ->
         LET a == ExecT(args[1], ctx, k) IN
         IF ~IsIntS(a.v) THEN R(S!BADTYPE, a.n)
         ELSE LET v == S!IntVal(a.v) IN
              IF v < S!IntVal(args[2][1].v) THEN R(S!WMIN, a.n)
              ELSE IF v > S!IntVal(args[3][1].v) THEN R(S!WMAX, a.n) ELSE R(a.v, a.n)
    [] OTHER -> LET s == StrictArgs(args, 1, <<>>, 0, ctx, k) IN R(StrictVal(f, s.vals), s.n)

ExecN(nd, ctx, k) ==
  CASE nd.t = "lit" -> R(nd.v, 0)
    [] nd.t = "grp" -> CtxMatch(ctx, nd.n, k)
    [] nd.t = "key" -> CtxKey(ctx, nd.v)
    [] nd.t = "live" -> R(Itoa(k), Touch(ctx, k))           \* touches the context so it is never constant
    [] nd.t = "delta" -> R(Itoa(k - nd.n), Touch(ctx, k))
    [] nd.t = "bad" ->          \* negative control: looks at its data first, touches only afterwards
         LET a == ExecT(nd.args[1], ctx, k) IN
         IF a.v = <<>> THEN R(Itoa(k), a.n) ELSE R(Itoa(k), a.n + Touch(ctx, k))
    [] nd.t = "udf" -> ExecT(nd.body, Lazy(nd.args, ctx), k)
    [] nd.t = "fn" -> ExecFn(nd, ctx, k)
ExecT(tpl, ctx, k) ==
  IF tpl = <<>> THEN R(<<>>, 0)
  ELSE LET a == ExecN(tpl[1], ctx, k)  b == ExecT(Tail(tpl), ctx, k) IN R(a.v \o b.v, a.n + b.n)

\* EvalStaticStage: evaluate against the monitor context, constant iff nothing was looked up
ProbeN(nd, k0) == ExecN(nd, EmptyBase, k0)
ProbeT(tpl, k0) == ExecT(tpl, EmptyBase, k0)

\* CompiledKeyBuilder.optimize: one pass over the stages with a pending constant buffer
RECURSIVE OptLoop(_, _, _, _, _)
OptLoop(st, i, sb, ret, k0) ==
  LET flush == IF sb # <<>> THEN Append(ret, Lit(sb)) ELSE ret IN
  IF i > Len(st) THEN flush
  ELSE LET p == ProbeN(st[i], k0) IN
       IF p.n = 0 THEN OptLoop(st, i + 1, sb \o p.v, ret, k0)
       ELSE OptLoop(st, i + 1, <<>>, Append(flush, st[i]), k0)
OptStages(st, k0) == OptLoop(st, 1, <<>>, <<>>, k0)

Fn(f, args) == Nd("fn", <<>>, 0, f, args, <<>>)
ArityImpl(f, n) ==
  CASE f \in TypedInt \cup {"eq", "neq", "switch"} -> n >= 2
    [] f \in {"not", "len", "upper", "lower", "isint"} -> n = 1
    [] f \in {"unless", "bucket"} -> n = 2
    [] f = "clamp" -> n = 3
    [] f = "if" -> n \in {2, 3}
    [] OTHER -> TRUE

RECURSIVE CompT(_, _, _, _), CompN(_, _, _, _)
\* cdefs: compiled definitions [name, body] (bodies are always compiled with optimisation, main.go)
CompN(nd, opt, k0, cdefs) ==
  IF nd.t # "call" THEN nd
  ELSE
    LET n == Len(nd.args)
        cargs == [i \in 1..n |-> CompT(nd.args[i], opt, k0, cdefs)]
        d == DefIdx(nd.f, cdefs)
        pr == [i \in 1..n |-> ProbeT(cargs[i], k0)]
        constInt(i) == pr[i].n = 0 /\ IsIntS(pr[i].v)
    IN
    IF d > 0 THEN Nd("udf", <<>>, 0, nd.f, cargs, cdefs[d].body)
    ELSE IF nd.f = "badlive" THEN Nd("bad", <<>>, 0, nd.f, cargs, <<>>)
    ELSE IF nd.f = "time" THEN
      LET kw == LowerASCII(pr[1].v) IN          \* kfTimeParse: special key-words of a constant first argument
      IF pr[1].n = 0 /\ kw = KwNow THEN Lit(Itoa(k0))
      ELSE IF pr[1].n = 0 /\ kw = KwLive THEN Nd("live", <<>>, 0, "", <<>>, <<>>)
      ELSE IF pr[1].n = 0 /\ kw = KwDelta THEN Nd("delta", <<>>, k0, "", <<>>, <<>>)
      ELSE Lit(S!PARSEERR)                      \* date parsing is not modelled here (C18)
    ELSE IF ~ArityImpl(nd.f, n) THEN Lit(S!ARGN)
    ELSE IF nd.f \in TypedInt THEN
      \* mapTypedArgs / evalTypedStage: constant operands are parsed once at compile time
      IF \E i \in 1..n : pr[i].n = 0 /\ ~IsIntS(pr[i].v) THEN Lit(S!BADTYPE)
      ELSE Fn(nd.f, [i \in 1..n |-> IF pr[i].n = 0 THEN <<Lit(pr[i].v)>> ELSE cargs[i]])
    ELSE IF nd.f = "bucket" THEN
      IF ~constInt(2) THEN Lit(S!BADTYPE)
      ELSE IF S!IntVal(pr[2].v) <= 0 THEN Lit(S!VALUEM)
      ELSE Fn(nd.f, <<cargs[1], <<Lit(pr[2].v)>>>>)
    ELSE IF nd.f = "clamp" THEN
      IF ~constInt(2) \/ ~constInt(3) THEN Lit(S!BADTYPE)
      ELSE Fn(nd.f, <<cargs[1], <<Lit(pr[2].v)>>, <<Lit(pr[3].v)>>>>)
    ELSE Fn(nd.f, cargs)
CompT(tpl, opt, k0, cdefs) ==
  LET st == [i \in 1..Len(tpl) |-> CompN(tpl[i], opt, k0, cdefs)] IN
  IF opt THEN OptStages(st, k0) ELSE st

\* LoadDefinitions: every definition is compiled (optimising) with the earlier ones registered
RECURSIVE CompDefs(_, _, _)
CompDefs(defs, k0, acc) ==
  IF defs = <<>> THEN acc
  ELSE CompDefs(Tail(defs), k0, Append(acc, [name |-> defs[1].name, body |-> CompT(defs[1].body, TRUE, k0, acc)]))

\* the value the compiled expression yields: compiled at clock k0, evaluated at clock e
Run(tpl, opt, c, k0, e, defs) == ExecT(CompT(tpl, opt, k0, CompDefs(defs, k0, <<>>)), c, e).v
=============================================================================

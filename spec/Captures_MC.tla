----------------------------- MODULE Captures_MC -----------------------------
(* C02 / B3 - the capture laws, decided by TLC over every line over Alphabet up   *)
(* to MaxLen, every index vector with up to MaxGroups groups after group 0 and     *)
(* every group number / key.  One state per line; the laws are invariants of that  *)
(* state.                                                                          *)
EXTENDS Captures, TLC

CONSTANTS Alphabet, MaxLen, MaxGroups
VARIABLE line
Lines == UNION {[1..n -> Alphabet] : n \in 0..MaxLen}
\* the lines form a tree (extend by one byte), so that TLC's workers share the leaves
Init == line = <<>>
Next == Len(line) < MaxLen /\ \E a \in Alphabet : line' = Append(line, a)

\* every pair a matcher may produce for a line of length n
Absent == << 0 - 1, 0 - 1 >>
Pairs(n) == {Absent} \cup {p \in (0..n) \X (0..n) : p[1] <= p[2]}
\* whole-match pairs (group 0 always participates)
Pairs0(n) == Pairs(n) \ {Absent}
Vectors(n) == UNION {{Flatten(<<p0>> \o f) : p0 \in Pairs0(n), f \in [1..k -> Pairs(n)]} : k \in 0..MaxGroups}
\* shapes no matcher returns, on which the code must still be total and read as empty
Odd(n) == {<<0>>, <<0, n, 0>>, <<>>}

NA == <<97>>  NB == <<98>>  NQ == <<113>>
Tables == {<<>>, <<<<NA, 1>>>>, <<<<NA, 1>>, <<NB, 2>>>>, <<<<NB, 2>>>>, <<<<NA, 3>>, <<NB, 1>>>>, <<<<NA, 7>>>>}
Keys == {NA, NB, NQ, KSrc, KLine, KAt}
Nums == -2..(MaxGroups + 2)

\* L1  the slice arithmetic implements "absent / out of range / negative reads as empty"
GetMatchLaw ==
  \A idx \in Vectors(Len(line)) :
    /\ WellFormedIdx(line, idx)
    /\ \A i \in Nums : GetMatch(line, idx, i) = CaptureRef(line, idx, i)
\* L2  the code is total on malformed vectors (nothing is read outside the vector)
TotalLaw == \A idx \in Odd(Len(line)) : \A i \in Nums :
              GetMatch(line, idx, i) = (IF idx = <<0, Len(line), 0>> /\ i = 0 THEN line ELSE <<>>)
\* L3  {@} = groups 1..n joined by NUL; with no NUL in the text it splits back into the groups
ArrayLaw ==
  \A idx \in Vectors(Len(line)) :
    /\ Array(line, idx) = ArrayRef(line, idx)
    /\ NGroups(idx) <= 1 => Array(line, idx) = <<>>
    /\ (NGroups(idx) >= 2 /\ \A j \in 1..Len(line) : line[j] # NUL) =>
          SplitOn(Array(line, idx), NUL) = [g \in 1..(NGroups(idx) - 1) |-> CaptureRef(line, idx, g)]
\* L4  names: {name} reads like its group number, unknown names give the marker, specials win
KeyLaw ==
  \A idx \in Vectors(Len(line)) : \A nt \in Tables : \A key \in Keys :
    LET c == Ctx(<<102, 49>>, 12, line, idx, nt) IN
    /\ NamesOK(nt)
    /\ GetKey(c, key) = KeyRef(c, key)
    /\ HasName(nt, key) => GetKey(c, key) = GetMatch(line, idx, NameIndex(nt, key))
    /\ (~HasName(nt, key) /\ key \notin Specials) => GetKey(c, key) = ErrName
    /\ GetKey(c, KLine) = <<49, 50>> /\ GetKey(c, KSrc) = <<102, 49>>
\* L5  template evaluation is a homomorphism and agrees with the property-level evaluation
Tpls == {<<Var(0)>>, <<Var(1), Lit(<<124>>), Var(2)>>, <<Key(NA), Lit(<<124>>), Key(KAt)>>,
         <<Key(KSrc), Lit(<<58>>), Key(KLine), Lit(<<58>>), Var(1)>>, <<Var(-1), Var(9), Key(NQ)>>}
EvalLaw ==
  \A idx \in Vectors(Len(line)) : \A nt \in {<<>>, <<<<NA, 1>>, <<NB, 2>>>>} :
    LET c == Ctx(<<102, 49>>, 7, line, idx, nt) IN
    \A t1 \in Tpls :
      /\ Eval(c, t1) = EvalRef(c, t1)
      /\ \A t2 \in {<<Var(1), Lit(<<124>>), Var(2)>>, <<Key(NA), Lit(<<124>>), Key(KAt)>>} :
            Eval(c, t1 \o t2) = Eval(c, t1) \o Eval(c, t2)
\* L6  the default matcher: {0} is the line, there are no groups
AlwaysLaw ==
  /\ WellFormedIdx(line, AlwaysIdx(line))
  /\ GetMatch(line, AlwaysIdx(line), 0) = line
  /\ \A i \in Nums \ {0} : GetMatch(line, AlwaysIdx(line), i) = <<>>
  /\ Array(line, AlwaysIdx(line)) = <<>>
\* L7  {line} is the decimal of the number
LineNoLaw == \A n \in 1..120 : ParseIntOK(Itoa(n)) /\ ParseIntVal(Itoa(n)) = n
=============================================================================

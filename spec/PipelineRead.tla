----------------------------- MODULE PipelineRead -----------------------------
(* C01 - the Read layer below the reader loop: what ARE the lines of an input     *)
(* whose reads can fail?                                                           *)
(*                                                                                 *)
(* Pipeline.tla takes Lines[f] as given.  In the code a reader goroutine obtains  *)
(* them from a stack of io.Readers:                                                *)
(*    source (file, gzip decoder, stdin, follow reader)                            *)
(*      -> stage (readerMetrics: the byte-counting wrapper every input is read     *)
(*         through)                                                                *)
(*      -> scanner (readahead.ImmediateReadAhead: appends the n bytes of a Read to *)
(*         its buffer, THEN looks at the error; any error ends the input: the rest *)
(*         of the buffer is the last line)                                         *)
(*      -> batcher loop (append, cut when full / on the timer, final flush)        *)
(* The io.Reader contract allows a Read to return n > 0 TOGETHER with an error     *)
(* (compress/gzip does on a truncated stream: the last decoded window arrives with *)
(* io.ErrUnexpectedEOF; many readers return the last bytes with io.EOF).  The      *)
(* bytes of such a Read were delivered: they are lines of the input like all       *)
(* others, and must be read and classified exactly once.                           *)
(*                                                                                 *)
(* A source is a script of Read results [d |-> bytes, e |-> "nil"|"eof"|"err"],    *)
(* the last one - and only the last - with e # "nil".  Delivered = all d           *)
(* concatenated; LinesOf(Delivered) = the LF-terminated pieces plus a non-empty    *)
(* unterminated rest.  Laws: DeliveredOK (in every state what left the reader loop *)
(* is a prefix of those lines, in order), RFinalOK (at the end it is all of them,  *)
(* the partial batch was flushed, and a hard error was reported exactly once),     *)
(* RTerminates.                                                                    *)
(* Designs (CONSTANTS), the code first:                                           *)
(*   Stage     "pass"  the wrapper returns (n, err) unchanged          (the code) *)
(*             "lossy" n := 0 when the error is a hard one ("a failed read has     *)
(*                     nothing to count")                  REFUTED                 *)
(*             "lossyeof" n := 0 whenever err # nil        REFUTED                 *)
(*   ScanOnErr "keep"  end += n before the error is examined           (the code) *)
(*             "drop"  an erroneous Read contributes nothing  REFUTED              *)
(*   OnErr     "flush" a hard error ends the input like EOF: rest of the buffer,   *)
(*                     final flush of the partial batch                (the code) *)
(*             "abort" the reader returns at once            REFUTED               *)
EXTENDS Integers, Sequences, FiniteSets, TLC

CONSTANTS Alphabet,    \* byte values, LF (10) among them
          MaxReads,    \* scripts of 1..MaxReads reads
          MaxChunk,    \* 0..MaxChunk bytes per read
          Batch, TimeFlush, Stage, ScanOnErr, OnErr

LF == 10
RECURSIVE Split(_, _, _)
\* lines of a byte sequence: bs scanned from i, cur = the bytes of the line being collected
Split(bs, i, cur) ==
  IF i > Len(bs) THEN (IF cur = <<>> THEN <<>> ELSE <<cur>>)
  ELSE IF bs[i] = LF THEN <<cur>> \o Split(bs, i + 1, <<>>)
  ELSE Split(bs, i + 1, Append(cur, bs[i]))
LinesOf(bs) == Split(bs, 1, <<>>)

RECURSIVE Concat(_)
Concat(ss) == IF ss = <<>> THEN <<>> ELSE Head(ss) \o Concat(Tail(ss))

Chunks == UNION {[1..n -> Alphabet] : n \in 0..MaxChunk}
Scripts == UNION {{s \in [1..k -> [d : Chunks, e : {"nil", "eof", "err"}]] :
                     /\ s[k].e # "nil"
                     /\ \A i \in 1..(k - 1) : s[i].e = "nil"} : k \in 1..MaxReads}

VARIABLES script,        \* the source (chosen initially, never changes)
          ri,            \* next Read of the script
          buf, eof,      \* scanner: unconsumed bytes, "a Read returned an error"
          batch, sent,   \* reader loop: current batch, batches sent (sequences of lines)
          errs,          \* OnError callbacks = reported read errors
          pc
rvars == <<script, ri, buf, eof, batch, sent, errs, pc>>

Delivered(s) == Concat([i \in DOMAIN s |-> s[i].d])
HardErr(s) == s[Len(s)].e = "err"

RInit == /\ script \in Scripts
         /\ ri = 1 /\ buf = <<>> /\ eof = FALSE /\ batch = <<>> /\ sent = <<>> /\ errs = 0 /\ pc = "scan"

\* what the stage hands to the scanner for the source's Read result r
Staged(r) ==
  CASE Stage = "pass"     -> r
    [] Stage = "lossy"    -> IF r.e = "err" THEN [d |-> <<>>, e |-> r.e] ELSE r
    [] Stage = "lossyeof" -> IF r.e # "nil" THEN [d |-> <<>>, e |-> r.e] ELSE r

HasLF(bs) == \E i \in DOMAIN bs : bs[i] = LF
FirstLF(bs) == CHOOSE i \in DOMAIN bs : bs[i] = LF /\ \A j \in 1..(i - 1) : bs[j] # LF

\* n, err := s.r.Read(s.buf[s.end:]); s.end += n; if err != nil { s.eof = true; onError unless io.EOF }
ScannerRead ==
  /\ pc = "scan" /\ ~eof /\ ~HasLF(buf) /\ ri <= Len(script)
  /\ LET r == Staged(script[ri]) IN
       /\ buf' = IF r.e # "nil" /\ ScanOnErr = "drop" THEN buf ELSE buf \o r.d
       /\ eof' = (r.e # "nil")
       /\ errs' = errs + (IF r.e = "err" THEN 1 ELSE 0)
       /\ pc' = IF r.e = "err" /\ OnErr = "abort" THEN "done" ELSE pc
  /\ ri' = ri + 1
  /\ UNCHANGED <<script, batch, sent>>

\* Scan() returned true: the line is appended; the batch is cut when full (or by the timer)
Emit(line, rest) ==
  /\ buf' = rest
  /\ \/ /\ Len(batch) + 1 >= Batch \/ TimeFlush
        /\ sent' = Append(sent, Append(batch, line)) /\ batch' = <<>>
     \/ /\ Len(batch) + 1 < Batch
        /\ batch' = Append(batch, line) /\ sent' = sent
  /\ UNCHANGED <<script, ri, eof, errs, pc>>
ScannerLine ==
  /\ pc = "scan"
  /\ \/ /\ HasLF(buf)
        /\ LET k == FirstLF(buf) IN Emit(SubSeq(buf, 1, k - 1), SubSeq(buf, k + 1, Len(buf)))
     \/ /\ ~HasLF(buf) /\ eof /\ buf # <<>>
        /\ Emit(buf, <<>>)

\* Scan() returned false: final flush of the partial batch, the reader returns
ReaderEnd ==
  /\ pc = "scan" /\ eof /\ buf = <<>>
  /\ sent' = IF batch # <<>> THEN Append(sent, batch) ELSE sent
  /\ batch' = <<>>
  /\ pc' = "done"
  /\ UNCHANGED <<script, ri, buf, eof, errs>>

RStep == ScannerRead \/ ScannerLine \/ ReaderEnd
RNext == RStep \/ (pc = "done" /\ UNCHANGED rvars)
RSpec == RInit /\ [][RNext]_rvars /\ WF_rvars(RStep)

\* ------------------------------------------------------------------ laws
IsPrefixOf(a, b) == Len(a) <= Len(b) /\ SubSeq(b, 1, Len(a)) = a
Handed == Concat(sent) \o batch
RTypeOK == /\ ri \in 1..(Len(script) + 1) /\ pc \in {"scan", "done"} /\ Len(batch) < Batch
           /\ \A i \in DOMAIN sent : sent[i] # <<>> /\ Len(sent[i]) <= Batch
\* nothing invented, nothing skipped, nothing reordered: a prefix of the input's lines
DeliveredOK == IsPrefixOf(Handed, LinesOf(Delivered(script)))
\* at the end: every line of everything the source delivered - including the bytes that came
\* together with the error - has left the reader, nothing is left in a partial batch
RFinalOK == pc = "done" =>
  /\ Concat(sent) = LinesOf(Delivered(script))
  /\ batch = <<>>
  /\ errs = (IF HardErr(script) THEN 1 ELSE 0)
RTerminates == <>(pc = "done")
=============================================================================

---------------------------- MODULE InputsBig_Gen ----------------------------
(* B1 generator for the big inputs: the corpus is enumerated by TLC together    *)
(* with the observation Expected(r) the specification demands.  The window      *)
(* sizes are several powers of two (no constant of the implementation is used): *)
(* for each B, contents of k*B bytes of records (+ 0 or 2 records and an        *)
(* unterminated tail) whose width divides B, unshifted (a line end ON every     *)
(* multiple of B), shifted by 1, by w-1 (line ends next to the multiples) and   *)
(* by 7; read as a regular file without and with -z, as gzip, as multi-member   *)
(* gzip cut next to B, through a FIFO and through standard input; and runs of   *)
(* three such inputs read concurrently.  Also emitted: small descriptors with   *)
(* their explicit bytes, against which the driver's renderer is checked.        *)
EXTENDS InputsBig, Json, TLC
CONSTANT Level
VARIABLE r

BigB   == IF Level >= 2 THEN {16384, 32768, 65536, 131072, 262144} ELSE {16384, 65536, 131072, 262144}
SmallB == {4096, 32768}                     \* probe / decompressor sized windows: one window + a little
Widths == {64, 1024}
Ks(B)  == IF B \in SmallB /\ B \notin BigB THEN {1} ELSE IF Level >= 2 THEN {1, 2, 3} ELSE {2}
Contents(B, ks) ==
  UNION {{[pre |-> p, w |-> w, n |-> (k * B) \div w + d, tail |-> IF d = 2 THEN 5 ELSE 0] :
            k \in ks, p \in {0, 1, 7, w - 1}, d \in {0, 2}} : w \in Widths}
Name(i) == <<105, 110>> \o Itoa(i)                                  \* "in1", "in2", ...
In(i, g, k, mem, via) == [name |-> Name(i), g |-> g, k |-> k, mem |-> mem, via |-> via]
\* members cut one byte before, on and after the window: B-1 | 1 | 0 | 1 | rest   (Size > B + 1)
CutsAt(g, B) == <<B - 1, 1, 0, 1, Size(g) - B - 1>>
\* the seven ways one content is read: <<input, -z>>
Shapes(g, B) == <<
  <<In(1, g, "file", <<>>, "file"), FALSE>>, <<In(1, g, "file", <<>>, "file"), TRUE>>,
  <<In(1, g, "gz", <<>>, "file"), TRUE>>,    <<In(1, g, "mgz", CutsAt(g, B), "file"), TRUE>>,
  <<In(1, g, "file", <<>>, "stdin"), FALSE>>, <<In(1, g, "file", <<>>, "fifo"), FALSE>>,
  <<In(1, g, "mgz", CutsAt(g, B), "fifo"), TRUE>> >>
Pick(g, s) == Level >= 2 \/ (g.pre + g.n + (g.w \div 64) + s) % 5 = 0
Single(B, ks) ==
  {[ins |-> <<Shapes(g, B)[s][1]>>, gz |-> Shapes(g, B)[s][2], readers |-> 1 + 2 * (s % 2),
    batch |-> IF (g.pre + s) % 2 = 0 THEN 1000 ELSE 7, B |-> B] : g \in {c \in Contents(B, ks) : Size(c) > B + 1}, s \in 1..7}
Triple(B) ==
  LET n64 == (2 * B) \div 64  n1k == (2 * B) \div 1024 IN
  {[ins |-> <<In(1, [pre |-> 0, w |-> 64, n |-> n64, tail |-> 0], "file", <<>>, "file"),
              In(2, [pre |-> 1, w |-> 64, n |-> n64 + 1, tail |-> 3], "gz", <<>>, "file"),
              In(3, [pre |-> 0, w |-> 1024, n |-> n1k, tail |-> 0], "mgz", <<B, 0, B>>, "file")>>,
    gz |-> TRUE, readers |-> rd, batch |-> 100, B |-> B] : rd \in {1, 3}}
Corpus ==
  {x \in UNION {Single(B, Ks(B)) : B \in BigB \cup SmallB} : Pick(x.ins[1].g, Len(x.ins[1].mem) + x.readers + (IF x.gz THEN 1 ELSE 0))}
  \cup UNION {Triple(B) : B \in BigB}

GInit == r \in Corpus
GNext == UNCHANGED r
RunRec(x) == [ins |-> x.ins, gz |-> x.gz, readers |-> x.readers, batch |-> x.batch]
\* which geometry the run exercises (for the coverage counters of the check)
HitsOn(x)   == \E i \in DOMAIN x.ins : x.ins[i].g.pre = 0 /\ x.B \in Ends(x.ins[i].g)
HitsNear(x) == \E i \in DOMAIN x.ins : x.ins[i].g.pre \in {1, x.ins[i].g.w - 1}
Dump == RunOK(RunRec(r)) /\ PrintT("VFJ " \o ToJson([run |-> RunRec(r), exp |-> Expected(RunRec(r)), B |-> r.B,
                                                       on |-> HitsOn(r), near |-> HitsNear(r)]))

\* ---- renderer conformance: small descriptors with their bytes
SmallG == [pre : {0, 1, 3}, w : {2, 5, 12}, n : {0, 3, 11}, tail : {0, 2}]
RenderDump == PrintT("VFJ " \o ToJson([render |-> [g \in SmallG |-> 0] = [g \in SmallG |-> 0],
                                       list |-> LET s == SetToSeq(SmallG) IN [i \in DOMAIN s |-> [g |-> s[i], bytes |-> BigBytes(s[i])]]]))
=============================================================================

--------------------------- MODULE MathExpr_Trace ---------------------------
(* B2 for C19: records of what the real code did, judged by the specification.  *)
(*  {k:"val", toks, bind, eng, got}  one evaluation of the formula `toks`       *)
(*      (stdmath.Compile or `{! ..}` through the KeyBuilder) under the binding  *)
(*      bind (values <<n, d>> of the variables 1..8).  The specification        *)
(*      classifies the tokens and, when well-formed, parses them with the       *)
(*      reference grammar and evaluates the tree in exact rationals:            *)
(*         never a panic; "mal" => rejected; "wf" => accepted, and inside the   *)
(*         value domain the result is within 10^-4 of the rational              *)
(*  {k:"law", toks, got:<<g0, g1, ..>>}  the outcomes of one formula in all its *)
(*      variants where numeric constants are replaced by variables bound to the *)
(*      same value and the reverse: all must agree (no value model needed, so   *)
(*      trigonometric / logarithmic functions and huge bindings are covered)    *)
(*  {k:"lex", text, bind, eng, got}  one evaluation of a formula given as BYTES *)
(*      (a random formula rendered to text, most of them with a byte inserted,   *)
(*      overwritten, deleted, doubled or swapped): classified by the lexical     *)
(*      layer MathExprLex!LexClass - malformed (bracket, operand, structure) =>  *)
(*      rejected; well-formed => accepted with the value of LexTree; the known   *)
(*      blank-in-group leniency keeps its own class                              *)
(*  {k:"bind", toks, bind, badv, eng, got}  one evaluation of the compiled       *)
(*      formula `toks` on match data where the variables listed in badv read no  *)
(*      number (a word, an empty or absent cell) and the others the values of    *)
(*      bind: judged by MathExprBind!BindResult - <BAD-TYPE> when a variable of  *)
(*      the formula reads no number (not demanded with && / ||), else the value  *)
(* An outcome: c = "num" (ip = floor, fp = millionths), "big" (sg, ex, mt: sign, *)
(* decimal exponent, 7 digits), "nan", "pinf", "ninf", "err" (rejected at       *)
(* compile time), "panic"; x = the exact result (the text `{! ..}` printed, or  *)
(* the float64 in shortest round-trip form).                                    *)
(* The trace spec is total: every record is consumed; the records the           *)
(* specification cannot explain are collected in `bad`.                         *)
EXTENDS MathExprLex, MathExprBind, Json

Trace == ndJsonDeserialize("trace.ndjson")

VARIABLES l, bad, nontrivial
tvars == <<l, bad, nontrivial>>

Close(g, v) ==
  /\ g.c = "num"
  /\ AbsI(g.ip) <= NLIM + 1
  /\ LET A == g.ip * v.d - v.n IN
       /\ AbsI(A) <= v.d + 1
       /\ AbsI(A * 1000000 + g.fp * v.d) <= 100 * v.d
Agree(a, b) ==
  /\ a.c = b.c
  /\ a.x = b.x                             \* the exact result text: the law needs no tolerance
  /\ a.c = "num" => AbsI(a.ip - b.ip) <= 1 /\ AbsI((a.ip - b.ip) * 1000000 + (a.fp - b.fp)) <= 100
  /\ a.c = "big" => a.sg = b.sg /\ a.ex = b.ex /\ AbsI(a.mt - b.mt) <= 10

ValClass(r) ==
  LET c == Class(r.toks) IN
  IF r.got.c = "panic" THEN "panic"
  ELSE IF c = "mal" THEN
       IF r.got.c = "err" THEN ""
       ELSE IF Class(GroupMerge(r.toks)) # "mal" THEN "accept-malformed:blank-in-group" ELSE "accept-malformed"
  ELSE IF c = "wf" THEN
       IF r.got.c = "err" THEN "reject-wellformed"
       ELSE LET v == Value(ParseRef(r.toks).t, r.bind) IN
            IF v.def /\ ~Close(r.got, v) THEN "value" ELSE ""
  ELSE ""
LawClass(r) ==
  IF \E i \in 1..Len(r.got) : r.got[i].c = "panic" THEN "panic"
  ELSE IF \A i \in 2..Len(r.got) : Agree(r.got[1], r.got[i]) THEN "" ELSE "law"
LexRecClass(r) ==
  LET o == LexClass(r.text) IN
  IF r.got.c = "panic" THEN "panic"
  ELSE IF o.cls = "mal" THEN (IF r.got.c = "err" THEN "" ELSE "accept-malformed:" \o o.why)
  ELSE IF o.cls = "wf" THEN
       IF r.got.c = "err" THEN "reject-wellformed"
       ELSE LET v == Value(o.t, r.bind) IN IF v.def /\ ~Close(r.got, v) THEN "value" ELSE ""
  ELSE ""
BindRow(r) == [i \in 1..Len(r.bind) |-> IF \E j \in 1..Len(r.badv) : r.badv[j] = i THEN BadCell ELSE NumCell(r.bind[i])]
BindRecClass(r) ==
  IF r.got.c = "panic" THEN "panic"
  ELSE IF Class(r.toks) # "wf" THEN ""
  ELSE LET t == ParseRef(r.toks).t
           want == BindResult(t, BindRow(r))
           marker == r.got.c = "text" /\ r.got.x = "<BAD-TYPE>" IN
       IF r.got.c = "err" THEN "reject-wellformed"
       ELSE IF want.bad THEN (IF Lazy(t) \/ marker THEN "" ELSE "bind:missed-bad")
       ELSE IF r.got.c = "text" THEN "bind:false-bad"
       ELSE IF want.v.def /\ ~Close(r.got, want.v) THEN "bind:value" ELSE ""
BadClass(r) == IF r.k = "val" THEN ValClass(r) ELSE IF r.k = "law" THEN LawClass(r)
               ELSE IF r.k = "lex" THEN LexRecClass(r) ELSE IF r.k = "bind" THEN BindRecClass(r) ELSE "unknown"
Demands(r) ==
  IF r.k = "law" THEN Len(r.got) >= 2
  ELSE IF r.k = "bind" THEN Class(r.toks) = "wf" /\ (LET w == BindResult(ParseRef(r.toks).t, BindRow(r)) IN
                                                      (w.bad /\ ~Lazy(ParseRef(r.toks).t)) \/ (~w.bad /\ w.v.def))
  ELSE IF r.k = "lex" THEN (LET o == LexClass(r.text) IN o.cls = "mal" \/ (o.cls = "wf" /\ Value(o.t, r.bind).def))
  ELSE LET c == Class(r.toks) IN
       c = "mal" \/ (c = "wf" /\ Value(ParseRef(r.toks).t, r.bind).def)

TInit == l = 1 /\ bad = <<>> /\ nontrivial = 0
TNext ==
  /\ l <= Len(Trace)
  /\ l' = l + 1
  /\ LET c == BadClass(Trace[l]) IN
     bad' = IF c = "" THEN bad ELSE Append(bad, [t |-> l, l |-> l, class |-> c])
  /\ nontrivial' = nontrivial + (IF Demands(Trace[l]) THEN 1 ELSE 0)
TSpec == TInit /\ [][TNext]_tvars

Final == (l = Len(Trace) + 1) =>
  JsonSerialize("bad.json", [bad |-> bad, consumed |-> l - 1, done |-> TRUE, nontrivial |-> nontrivial])
=============================================================================

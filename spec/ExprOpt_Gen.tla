----------------------------- MODULE ExprOpt_Gen -----------------------------
(* B1 for C10: TLC enumerates                                                     *)
(*  "vec"  every tree of the ExprOpt_MC universe as TEMPLATE TEXT with, for a     *)
(*         list of match contexts (the all-empty one included), the value the     *)
(*         abstract specification ValT gives it (symbolic clock: the bytes 1, 2,  *)
(*         3 stand for what {time now}, {time live}, {time delta} yield - the     *)
(*         driver checks them against the real clock), and for a call of a        *)
(*         funcs-file function the text of its body with the arguments            *)
(*         substituted;                                                           *)
(*  "file" funcs files: the definitions u1..u6 written in generated layouts       *)
(*         (FuncFileOps!LayFile: cuts at blanks / inside a word, indentation,     *)
(*         trailing blanks, trailing comments, `\ # comment`, blank and comment   *)
(*         lines between the lines of a definition, comment lines ending in `\`,  *)
(*         EOF inside a continuation, missing final newline) together with what   *)
(*         the specified loader makes of them; and the documentation's example.   *)
(* The Go driver compiles every template with NewKeyBuilderEx(true) and (false),  *)
(* loads every file with the real loader, and compares.                           *)
EXTENDS ExprOpt_MC, FuncFileOps, Json

CONSTANT NFiles

Txt(s) == s
\* ---------------------------------------------------------------- the definitions as text
DefTexts == [i \in 1..Len(Defs) |-> [name |-> NameB(Defs[i].name), body |-> TextT(Defs[i].body)]]

StyleAt(n) == Style(n % 6, (n \div 6) % 3, (n \div 18) % 4, (n \div 72) % 4, (n \div 288) % 4, (n \div 1152) % 2 = 1)
\* the definitions whose bodies hold backslashes (u7 u8 u9) are cut after backslashes in every second file, so that
\* physical lines end in 2, 3, .. backslashes and continuation lines start with one
HasBsl(d) == HasByteL(d.body, BSL)
StyleFor(r, i) == LET st == StyleAt((r * 7 + i * 37) % 2304) IN
                  IF HasBsl(DefTexts[i]) /\ r % 2 = 1 THEN [st EXCEPT !.cut = 3 + ((r \div 2) % 3)] ELSE st
FileLines(r) == LayFile(DefTexts, [i \in 1..Len(DefTexts) |-> StyleFor(r, i)], 1)
MaxRun(lines) == MaxOf({0} \cup {BslRun(StripLine(lines[i])) : i \in 1..Len(lines)})
FileRec(r) ==
  LET lines == FileLines(r)  ld == Load(lines) IN
  [kind |-> "file", id |-> r, doc |-> FALSE, bytes |-> FileBytes(lines, r % 2 = 0), nlines |-> Len(lines), maxrun |-> MaxRun(lines),
   loaded |-> ld, ok |-> (ld = DefTexts /\ Meaning(lines) = DefTexts)]

\* ---------------------------------------------------------------- files in which some definitions do not compile
\* (FuncFileOps!LoadC: a failing definition is reported and skipped, every definition that compiles in its place is
\* delivered).  One or two of BadDefs are written between / before / after the definitions u1..u9, in generated layouts:
\* a misspelt helper, an unterminated and an empty statement, a call of a definition that itself failed, a call of a
\* definition that comes later in the file, and a failing RE-definition of u1 (the first u1 stays).
BuiltinB == {NameB(f) : f \in AllNames \ ({Defs[i].name : i \in 1..Len(Defs)} \cup {"badlive", "classifylen", "name-of-func"})}
BadDefs == <<
  [name |-> <<122, 122, 49>>, body |-> <<123, 115, 117, 109, 109, 105, 32, 123, 48, 125, 32, 49, 125>>],          \* zz1 {summi {0} 1}
  [name |-> <<122, 122, 50>>, body |-> <<123, 115, 117, 109, 105, 32, 123, 48, 125, 32, 123, 49, 125>>],          \* zz2 {sumi {0} {1}
  [name |-> <<122, 122, 51>>, body |-> <<97, 123, 125, 98>>],                                                      \* zz3 a{}b
  [name |-> <<122, 122, 52>>, body |-> <<123, 122, 122, 49, 32, 123, 48, 125, 125>>],                              \* zz4 {zz1 {0}}
  [name |-> <<122, 122, 53>>, body |-> <<123, 117, 57, 32, 123, 48, 125, 32, 49, 125>>],   \* zz5 {u9 {0} 1}   (u9 comes later in the file)
  [name |-> <<117, 49>>, body |-> <<123, 115, 117, 109, 105, 32, 123, 48, 125, 125, 123>>] >>                      \* u1 {sumi {0}}{
NBad == IF Thorough THEN 72 ELSE 18
PutAfter(sq, k, x) == SubSeq(sq, 1, k) \o <<x>> \o SubSeq(sq, k + 1, Len(sq))      \* x after the first k elements
BadDs(r) ==
  LET b == 1 + (r % Len(BadDefs))
      n == Len(DefTexts)
      k == IF b = 6 THEN 1 + ((r \div 6) % n) ELSE IF b = 5 THEN ((r \div 6) % (n - 1)) ELSE (r \div 6 + r) % (n + 1)
      one == PutAfter(DefTexts, k, BadDefs[b])
  IN IF b = 4 THEN PutAfter(one, 0, BadDefs[1]) ELSE IF r % 4 = 3 THEN PutAfter(one, Len(one), BadDefs[2]) ELSE one
BadLines(r) == LET ds == BadDs(r) IN LayFile(ds, [i \in 1..Len(ds) |-> StyleAt((r * 11 + i * 41) % 2304)], 1)
FileBadRec(r) ==
  LET lines == BadLines(r)  ld == LoadC(lines, BuiltinB) IN
  [kind |-> "file", id |-> 200000 + r, doc |-> FALSE, bad |-> TRUE, bytes |-> FileBytes(lines, r % 2 = 0), nlines |-> Len(lines), maxrun |-> MaxRun(lines),
   loaded |-> ld, nfail |-> Len(Load(lines)) - Len(ld),
   ok |-> (ld = DefTexts /\ Len(Load(lines)) > Len(ld) /\ Meaning(lines) = BadDs(r))]

\* ---------------------------------------------------------------- the documentation's example
W5 == <<53>>
W15 == <<49, 53>>
LenOf0 == T1(Call("len", <<T1(Grp(0))>>))
DocDefs == <<
  [name |-> "name-of-func", body |-> T1(Call("sumi", <<T1(Grp(0)), T1(Grp(1))>>))],
  [name |-> "classifylen", body |-> T1(Call("switch", <<T1(Call("lt", <<LenOf0, L(W5)>>)), L(<<115,104,111,114,116>>),
                                                       T1(Call("gt", <<LenOf0, L(W15)>>)), L(<<108,111,110,103>>),
                                                       L(<<109,101,100,105,117,109>>)>>))] >>
Word(n) == [i \in 1..n |-> 96 + ((i - 1) % 26) + 1]
DocTrees ==
  {T1(Call("classifylen", <<a>>)) : a \in {L(Word(3)), L(Word(4)), L(Word(5)), L(Word(15)), L(Word(16)), L(Word(21)), T1(Grp(0)), T1(Key(Kk)), L(E)}}
  \cup {T1(Call("classifylen", <<L(Word(2)), T1(Grp(0))>>))}
  \cup {T1(Call("name-of-func", <<a, b>>)) : a \in {L(B7), T1(Grp(0))}, b \in {L(B0), T1(Grp(1)), L(Ba)}}
  \cup {T1(Call("name-of-func", <<a>>)) : a \in {L(B7), T1(Grp(0))}}
DocCtx == <<EmptyBase, Ctx(B7, B7, Ba), Ctx(Word(5), B0, Word(16)), Ctx(Word(20), Ba, Word(3)), Ctx(Ba, E, E)>>
DocFileRec == [kind |-> "file", id |-> 100000, doc |-> TRUE, bytes |-> FileBytes(DocExample, TRUE), nlines |-> Len(DocExample), maxrun |-> 1,
               loaded |-> Load(DocExample), ok |-> Load(DocExample) = DocMeaning]

\* ---------------------------------------------------------------- contexts of the vectors
GenCtxSet == IF Thorough THEN CtxAll
             ELSE {Ctx(g0, gk[1], gk[2]) : g0 \in Vals, gk \in {<<E, E>>, <<B7, Ba>>, <<Ba, B0>>}} \cup {EmptyBase}
GenCtx == SetToSeq(GenCtxSet)

Enc(v) == IF v = UNK THEN [k |-> "any", v |-> <<>>]
          ELSE IF v = TRUTHY THEN [k |-> "truthy", v |-> <<>>]
          ELSE IF v = FALSY THEN [k |-> "falsy", v |-> <<>>]
          ELSE IF v = MARKER THEN [k |-> "marker", v |-> <<>>]
          ELSE [k |-> "out", v |-> v]
RECURSIVE UsesUdfT(_, _)
UsesUdfN(nd, defs) == nd.t = "call" /\ (DefIdx(nd.f, defs) > 0 \/ \E i \in 1..Len(nd.args) : UsesUdfT(nd.args[i], defs))
UsesUdfT(t, defs) == \E i \in 1..Len(t) : UsesUdfN(t[i], defs)
HeadOf(t) == IF Len(t) = 1 /\ t[1].t = "call" THEN t[1].f ELSE "seq"

\* abs: the value itself is demanded (escapes, if any, only in top-level literals - documented); otherwise only the
\* relations of the property: optimised = unoptimised, call = inlined body, any layout = one line per definition
VecRec(g, t, sty, ctxs, defs) ==
  LET st == IF IsUdfCallIn(t, defs) THEN SubstT(defs[DefIdx(t[1].f, defs)].body, t[1].args) ELSE <<>> IN
  [kind |-> "vec", g |-> g[1], f |-> HeadOf(t), tpl |-> TextS(t, sty), sty |-> sty,
   udf |-> UsesUdfT(t, defs), clock |-> UsesClockT(t),
   abs |-> (~EscInArgsT(t, FALSE) /\ "u8" \notin CallsT(t)),
   rt |-> RoundTrip(t, sty),
   sub |-> IF IsUdfCallIn(t, defs) /\ RoundTrip(st, sty) THEN TextS(st, sty) ELSE <<>>,
   cases |-> [i \in 1..Len(ctxs) |-> [m |-> ctxs[i].g, ks |-> ctxs[i].keys, e |-> Enc(ValT(t, ctxs[i], ClkSym, defs))]]]

GenGroups == Groups \cup {<<"badfiles", "">>, <<"files", "">>, <<"doc", "">>, <<"meta", "">>}
GenItems(g) ==
  CASE g[1] = "files" -> {T1(Grp(r)) : r \in 0..(NFiles - 1)}
    [] g[1] = "badfiles" -> {T1(Grp(r)) : r \in 0..(NBad - 1)}
    [] g[1] = "doc" -> DocTrees \cup {T1(Grp(100000))}
    [] g[1] = "meta" -> {T1(Grp(0))}
    [] OTHER -> Trees(g)

Rec(cc) ==
  CASE cc.g[1] = "files" -> FileRec(cc.t[1].n)
    [] cc.g[1] = "badfiles" -> FileBadRec(cc.t[1].n)
    [] cc.g[1] = "meta" -> [kind |-> "defs", defs |-> DefTexts, docdefs |-> DocMeaning]
    [] cc.g[1] = "doc" -> IF cc.t = T1(Grp(100000)) THEN DocFileRec ELSE VecRec(cc.g, cc.t, DefSty, DocCtx, DocDefs)
    [] cc.g[1] \in EscKinds -> VecRec(cc.g, cc.t, cc.sty, SetToSeq(CtxEsc), Defs)
    [] OTHER -> VecRec(cc.g, cc.t, DefSty, GenCtx, Defs)

GInit == c \in {Hdr(g) : g \in GenGroups}
GNext == c.hdr /\ \E t \in GenItems(c.g), sty \in StylesOf(c.g) : c' = [hdr |-> FALSE, g |-> c.g, t |-> t, sty |-> sty]
Dump == (c.hdr /\ WellScoped(Defs) /\ WellScoped(DocDefs)) \/ PrintT("VFJ " \o ToJson(Rec(c)))
=============================================================================

------------------------------- MODULE Rare_MC -------------------------------
(* C03, B3 -- the interleaving argument.                                        *)
(* A small model of the concurrent pipeline of one run (written like the code:  *)
(* R reader goroutines pull files from the argument list and cut them into      *)
(* batches of at most B lines (the timer flush may cut a batch short), a        *)
(* bounded channel carries the batches to W workers (match / ignore / extract), *)
(* a second bounded channel carries the non-empty match batches to the single   *)
(* aggregation step, which samples a batch at a time under the output mutex).   *)
(* TLC explores every interleaving and checks that the final aggregate, the     *)
(* counters of the summary line and therefore every observable of Rare.tla are  *)
(* those of the sequential reference aggregation RefAgg -- for the order-free   *)
(* folds with any R, W, B, capacity; for any fold when R = W = 1.               *)
EXTENDS Rare

CONSTANTS R, W, B, Cap,     \* readers, workers, batch size, channel capacity
          CorpusIx, CmdIx   \* selects one of the corpora / command descriptors below

\* bytes: a=97 b=98 x=120 y=121 |=124 digits 48..57
L(k, s, v) == k \o <<SEP>> \o s \o <<SEP>> \o v
Corpora == <<
  \* 1: two files, repeated keys, increments, one parse error, one unmatched line, one empty key
  << << L(<<97>>, <<120>>, <<49>>), L(<<98>>, <<121>>, <<50>>), L(<<97>>, <<121>>, <<120>>) >>,
     << L(<<97>>, <<120>>, <<51>>), <<97, 98>>, L(<<>>, <<>>, <<53>>) >> >>,
  \* 2: three files, one empty
  << << L(<<97>>, <<120>>, <<49>>), L(<<98>>, <<120>>, <<45, 49>>) >>, << >>,
     << L(<<98>>, <<120>>, <<50>>), L(<<97>>, <<121>>, <<50>>) >> >>
>>
Cmds == <<
  [cmd |-> "histogram", ext |-> <<1>>,       mt |-> "re", delim |-> <<>>, ig |-> 0, iv |-> <<>>, grp |-> 0, acc |-> <<>>],
  [cmd |-> "histogram", ext |-> <<1, 3>>,    mt |-> "re", delim |-> <<>>, ig |-> 2, iv |-> <<121>>, grp |-> 0, acc |-> <<>>],
  [cmd |-> "table",     ext |-> <<1, 2, 3>>, mt |-> "re", delim |-> <<>>, ig |-> 0, iv |-> <<>>, grp |-> 0, acc |-> <<>>],
  [cmd |-> "bargraph",  ext |-> <<1, 2>>,    mt |-> "re", delim |-> <<>>, ig |-> 0, iv |-> <<>>, grp |-> 0, acc |-> <<>>],
  [cmd |-> "analyze",   ext |-> <<3>>,       mt |-> "re", delim |-> <<>>, ig |-> 0, iv |-> <<>>, grp |-> 0, acc |-> <<>>],
  [cmd |-> "reduce",    ext |-> <<1, 2, 3>>, mt |-> "re", delim |-> <<>>, ig |-> 0, iv |-> <<>>, grp |-> 1, acc |-> <<"count", "sum", "max">>],
  [cmd |-> "reduce",    ext |-> <<1, 2, 3>>, mt |-> "re", delim |-> <<>>, ig |-> 0, iv |-> <<>>, grp |-> 1, acc |-> <<"sum", "last">>]
>>
Files == Corpora[CorpusIx]
cd == Cmds[CmdIx]
AllLines == Flatten(Files)
\* constant-level, evaluated once by TLC
RefSamples == Samples(cd, AllLines)
RefFinal == RefAgg(cd, AllLines)
RefMatched == CountClass(cd, AllLines, "sample")
RefIgnored == CountClass(cd, AllLines, "ignored")
NoBatch == <<>>

VARIABLES nextFile,   \* next file argument nobody opened yet
          rd,         \* reader -> [f: open file or 0, pos: next line]
          inCh,       \* batches of lines on their way to the workers
          wk,         \* worker -> batch in hand
          outCh,      \* match batches on their way to the aggregation step
          agg,        \* the aggregator
          hist,       \* elements sampled so far (observation only)
          nread, nmatched, nignored
vars == <<nextFile, rd, inCh, wk, outCh, agg, hist, nread, nmatched, nignored>>

Init ==
  /\ nextFile = 1
  /\ rd = [r \in 1..R |-> [f |-> 0, pos |-> 1]]
  /\ inCh = <<>> /\ outCh = <<>>
  /\ wk = [w \in 1..W |-> NoBatch]
  /\ agg = AggInit(cd) /\ hist = <<>>
  /\ nread = 0 /\ nmatched = 0 /\ nignored = 0

\* a reader takes the next file of the argument list
Open(r) ==
  /\ rd[r].f = 0 /\ nextFile <= Len(Files)
  /\ rd' = [rd EXCEPT ![r] = [f |-> nextFile, pos |-> 1]]
  /\ nextFile' = nextFile + 1
  /\ UNCHANGED <<inCh, wk, outCh, agg, hist, nread, nmatched, nignored>>
\* end of file
CloseFile(r) ==
  /\ rd[r].f # 0 /\ rd[r].pos > Len(Files[rd[r].f])
  /\ rd' = [rd EXCEPT ![r] = [f |-> 0, pos |-> 1]]
  /\ UNCHANGED <<nextFile, inCh, wk, outCh, agg, hist, nread, nmatched, nignored>>
\* a batch of 1..B lines is cut (full batch, final partial batch, or timer flush)
Cut(r) ==
  /\ rd[r].f # 0 /\ Len(inCh) < Cap
  /\ LET file == Files[rd[r].f]
         left == Len(file) - rd[r].pos + 1
     IN /\ left > 0
        /\ \E n \in 1..(IF left < B THEN left ELSE B) :
             /\ inCh' = Append(inCh, SubSeq(file, rd[r].pos, rd[r].pos + n - 1))
             /\ rd' = [rd EXCEPT ![r].pos = @ + n]
  /\ UNCHANGED <<nextFile, wk, outCh, agg, hist, nread, nmatched, nignored>>
Take(w) ==
  /\ wk[w] = NoBatch /\ inCh # <<>>
  /\ wk' = [wk EXCEPT ![w] = Head(inCh)] /\ inCh' = Tail(inCh)
  /\ UNCHANGED <<nextFile, rd, outCh, agg, hist, nread, nmatched, nignored>>
\* a worker finishes its batch: counters, and the matches (if any) go to the aggregation channel
Process(w) ==
  /\ wk[w] # NoBatch
  /\ LET ms == Samples(cd, wk[w]) IN
       /\ (ms # <<>>) => Len(outCh) < Cap
       /\ outCh' = IF ms = <<>> THEN outCh ELSE Append(outCh, ms)
       /\ nmatched' = nmatched + Len(ms)
  /\ nread' = nread + Len(wk[w])
  /\ nignored' = nignored + CountClass(cd, wk[w], "ignored")
  /\ wk' = [wk EXCEPT ![w] = NoBatch]
  /\ UNCHANGED <<nextFile, rd, inCh, agg, hist>>
\* the aggregation step samples one match batch (under outputMutex)
Aggregate ==
  /\ outCh # <<>>
  /\ agg' = FoldLeft(LAMBDA st, el : AggSample(cd, st, el), agg, Head(outCh))
  /\ hist' = hist \o Head(outCh)
  /\ outCh' = Tail(outCh)
  /\ UNCHANGED <<nextFile, rd, inCh, wk, nread, nmatched, nignored>>

Done ==
  /\ nextFile > Len(Files) /\ \A r \in 1..R : rd[r].f = 0
  /\ inCh = <<>> /\ outCh = <<>> /\ \A w \in 1..W : wk[w] = NoBatch
Next ==
  \/ \E r \in 1..R : Open(r) \/ CloseFile(r) \/ Cut(r)
  \/ \E w \in 1..W : Take(w) \/ Process(w)
  \/ Aggregate
  \/ (Done /\ UNCHANGED vars)
Spec == Init /\ [][Next]_vars /\ WF_vars(Next)

-----------------------------------------------------------------------------
\* the property: whatever the interleaving, the run ends in the reference aggregate
FinalAgg == Done => agg = RefFinal
FinalCounts ==
  Done => /\ nread = Len(AllLines)
          /\ nmatched = RefMatched
          /\ nignored = RefIgnored
\* with one reader and one worker the aggregator sees the samples in corpus order
SeqOrder == (R = 1 /\ W = 1) => IsPrefixOf(hist, RefSamples)
\* nothing is sampled twice or invented: the sampled elements are always a sub-bag
NoInvention ==
  \A e \in ToSet(hist) :
     Cardinality({i \in 1..Len(hist) : hist[i] = e}) <=
     Cardinality({i \in 1..Len(RefSamples) : RefSamples[i] = e})
Terminates == <>Done
=============================================================================

--------------------------- MODULE ExprArray_Trace ---------------------------
(* B2 for C17: every recorded evaluation of the real compiler                    *)
(*   {x, m, ks, got, panic}   (expression tree, match groups, named keys,        *)
(*                             observed result)                                  *)
(* must satisfy the specification: ArrMatches(EvalT(x, Env(m, ks)), got), and     *)
(* must have returned.  The trace spec is total: every record is consumed, the   *)
(* indices the specification cannot explain are collected in `bad` and written   *)
(* by the Final invariant.                                                        *)
EXTENDS ExprArray, Json, TLC

Trace == ndJsonDeserialize("trace.ndjson")

VARIABLES l, bad, nontrivial
tvars == <<l, bad, nontrivial>>

Exp(r) == EvalT(r.x, Env(r.m, r.ks))
SpecOK(r) == ~r.panic /\ ArrMatches(Exp(r), r.got)
HeadF(x) == IF x.t = "call" THEN x.f ELSE x.t
Class(r) ==
  IF r.panic THEN "panic"
  ELSE LET e == Exp(r) IN
       IF e.k = "out" THEN (IF CountNul(e.v) # CountNul(r.got) \/ (e.v = <<>>) # (r.got = <<>>) THEN "shape" ELSE "value")
       ELSE e.k

TInit == l = 1 /\ bad = <<>> /\ nontrivial = 0
TNext ==
  /\ l <= Len(Trace)
  /\ l' = l + 1
  /\ bad' = IF SpecOK(Trace[l]) THEN bad
            ELSE Append(bad, [t |-> l, l |-> l, f |-> HeadF(Trace[l].x), class |-> Class(Trace[l])])
  /\ nontrivial' = nontrivial + (IF Exp(Trace[l]).k # "any" THEN 1 ELSE 0)
TSpec == TInit /\ [][TNext]_tvars

Final == (l = Len(Trace) + 1) =>
  JsonSerialize("bad.json", [bad |-> bad, consumed |-> l - 1, done |-> TRUE, nontrivial |-> nontrivial])
=============================================================================

---------------------------- MODULE ExprScalarBig ----------------------------
(* C11 - exact arithmetic on decimals of any length (TLC integers are 32 bit):  *)
(* natural numbers are sequences of ASCII digits without leading zeros          *)
(* (<<>> is 0); a decimal is [neg, ip, fp]: integer digits without leading      *)
(* zeros, fraction digits without trailing zeros.                               *)
(*                                                                              *)
(* The helpers floor / ceil / round are documented on "a floating-point number":*)
(* the number the argument denotes is the binary64 value nearest to it.  Where  *)
(* binary64 holds the decimal exactly (F64Exact: the value is N / 2^s with the  *)
(* odd part of N below 2^53) that number IS the decimal, and the documented     *)
(* result is plain arithmetic on it, whatever its size: 2^63, 10^19, 10^22,     *)
(* 2^52 - 0.5 ...  Decimals that binary64 cannot hold exactly and that are too  *)
(* long for the scaled-integer model of ExprScalar stay outside the domain.     *)
EXTENDS Bytes

RECURSIVE BnNorm(_)
BnNorm(d) == IF d # <<>> /\ d[1] = 48 THEN BnNorm(Tail(d)) ELSE d
RECURSIVE BnZeros(_)
BnZeros(n) == IF n <= 0 THEN <<>> ELSE <<48>> \o BnZeros(n - 1)
BnAllZero(d) == \A i \in 1..Len(d) : d[i] = 48
BnIsNat(d) == \A i \in 1..Len(d) : IsDigit(d[i])

\* a < b for normalised naturals
BnLess(a, b) ==
  \/ Len(a) < Len(b)
  \/ Len(a) = Len(b) /\ \E i \in 1..Len(a) : a[i] < b[i] /\ \A j \in 1..(i - 1) : a[j] = b[j]

\* doubling and halving need no carry chain: the carry into a digit depends on its right (left) neighbour only
BnDouble(d) ==
  IF d = <<>> THEN <<>>
  ELSE LET n == Len(d)
           cin(i) == IF i < n /\ d[i + 1] >= 53 THEN 1 ELSE 0 IN
       (IF d[1] >= 53 THEN <<49>> ELSE <<>>) \o [i \in 1..n |-> 48 + ((2 * (d[i] - 48) + cin(i)) % 10)]
BnHalve(d) ==                                                   \* floor(d / 2)
  BnNorm([i \in 1..Len(d) |-> 48 + (((d[i] - 48) + (IF i > 1 /\ (d[i - 1] - 48) % 2 = 1 THEN 10 ELSE 0)) \div 2)])
BnOdd(d) == d # <<>> /\ (d[Len(d)] - 48) % 2 = 1
RECURSIVE BnInc(_)
BnInc(d) ==
  IF d = <<>> THEN <<49>>
  ELSE IF d[Len(d)] < 57 THEN SubSeq(d, 1, Len(d) - 1) \o <<d[Len(d)] + 1>>
  ELSE BnInc(SubSeq(d, 1, Len(d) - 1)) \o <<48>>
RECURSIVE BnShl(_, _)
BnShl(d, k) ==                                                  \* d * 2^k
  IF k <= 0 THEN d
  ELSE LET d2 == BnDouble(d) IN IF Len(d2) >= 0 THEN BnShl(d2, k - 1) ELSE <<>>   \* (the test makes TLC evaluate d2 first)
RECURSIVE BnOddPart(_)
BnOddPart(d) ==
  IF d = <<>> \/ BnOdd(d) THEN d
  ELSE LET h == BnHalve(d) IN IF Len(h) >= 0 THEN BnOddPart(h) ELSE <<>>
\* small TLC integer -> natural
BnOfInt(n) == IF n = 0 THEN <<>> ELSE NatDigits(n)

P2x53 == <<57, 48, 48, 55, 49, 57, 57, 50, 53, 52, 55, 52, 48, 57, 57, 50>>       \* 2^53 = 9007199254740992

\* is ip.fp exactly a binary64 value?  ip.fp = a / 10^s = (a * 2^s / 10^s) / 2^s: N = a / 5^s must be
\* an integer with at most 53 significant bits (exponents are far inside the range for these lengths)
BigBounds(ip, fp) == Len(ip) <= 40 /\ Len(fp) <= 20
F64Exact(ip, fp) ==
  LET s == Len(fp)
      t == BnShl(BnNorm(ip \o fp), s) IN
  /\ BigBounds(ip, fp)
  /\ Len(t) >= s /\ BnAllZero(SubSeq(t, Len(t) - s + 1, Len(t)))
  /\ BnLess(BnOddPart(SubSeq(t, 1, Len(t) - s)), P2x53)

\* ip.fp cut to p decimals: the scaled naturals below and above, and where the value lies between them
\* st: "exact" (dn is the value), "lt" / "gt" (nearer to dn / to up), "tie"
BnRound(ip, fp, p) ==
  LET s == Len(fp)
      kept == IF s >= p THEN SubSeq(fp, 1, p) ELSE fp \o BnZeros(p - s)
      rest == IF s > p THEN SubSeq(fp, p + 1, s) ELSE <<>>
      dn == BnNorm(ip \o kept) IN
  [dn |-> dn, up |-> BnInc(dn),
   st |-> IF rest = <<>> THEN "exact"
          ELSE IF rest[1] > 53 THEN "gt" ELSE IF rest[1] < 53 THEN "lt"
          ELSE IF Len(rest) = 1 THEN "tie" ELSE "gt"]            \* fp has no trailing zeros

\* Q / 10^p as text
BnFmt(Q, p) ==
  LET q == BnZeros(p + 1 - Len(Q)) \o Q IN
  IF p = 0 THEN q ELSE SubSeq(q, 1, Len(q) - p) \o <<46>> \o SubSeq(q, Len(q) - p + 1, Len(q))
BnSigned(neg, body) == IF neg THEN <<45>> \o body ELSE body

\* floor and ceil of (+/-) ip.fp as text; floor(-0.5) = -1, ceil(-0.5) = 0
BnFloor(neg, ip, fp) ==
  IF fp = <<>> THEN BnSigned(neg /\ ip # <<>>, BnFmt(ip, 0))
  ELSE IF neg THEN <<45>> \o BnInc(ip) ELSE BnFmt(ip, 0)
BnCeil(neg, ip, fp) ==
  IF fp = <<>> THEN BnSigned(neg /\ ip # <<>>, BnFmt(ip, 0))
  ELSE IF neg THEN BnSigned(ip # <<>>, BnFmt(ip, 0)) ELSE BnInc(ip)
=============================================================================

------------------------------ MODULE TermTrim ------------------------------
(* C20.  Transcription of pkg/multiterm/linetrim.go WriteLineNoWrap (shared by    *)
(* the in-place writer TermWriter.tla and the buffered writer TermBuffered.tla).  *)
EXTENDS TermOracle

(* linetrim.go WriteLineNoWrap: i and visibleRunes as in the Go loop (i 0-based) *)
RECURSIVE SkipToM(_, _)
SkipToM(runes, i) ==              \* for runes[i] != 'm' && i < len(runes)-1 { i++ }
  IF runes[i + 1] # 109 /\ i < Len(runes) - 1 THEN SkipToM(runes, i + 1) ELSE i
RECURSIVE TrimLoop(_, _, _, _)
TrimLoop(runes, i, visibleRunes, cols) ==
  IF i < Len(runes) /\ visibleRunes < cols
  THEN IF runes[i + 1] = ESC
       THEN TrimLoop(runes, SkipToM(runes, i) + 1, visibleRunes, cols)
       ELSE TrimLoop(runes, i + 1, visibleRunes + 1, cols)
  ELSE i
Cut(text, cols) == SubSeq(text, 1, TrimLoop(text, 0, 0, cols))
WriteLineNoWrap(text, autoTrim, cols) == IF ~autoTrim THEN Utf8(text) ELSE Utf8(Cut(text, cols))

(* A design class the law must exclude (negative control of TermTrimSgr_MC): the scan  *)
(* for the closing `m` gives up after `bound` runes ("a stray ESC must not swallow the  *)
(* rest of the line") - the rest of a longer colour sequence is then counted as visible. *)
RECURSIVE SkipToMB(_, _, _)
SkipToMB(runes, i, end) ==
  IF runes[i + 1] # 109 /\ i < Len(runes) - 1 /\ i < end THEN SkipToMB(runes, i + 1, end) ELSE i
RECURSIVE TrimLoopB(_, _, _, _, _)
TrimLoopB(runes, i, visibleRunes, cols, bound) ==
  IF i < Len(runes) /\ visibleRunes < cols
  THEN IF runes[i + 1] = ESC
       THEN TrimLoopB(runes, SkipToMB(runes, i, i + bound) + 1, visibleRunes, cols, bound)
       ELSE TrimLoopB(runes, i + 1, visibleRunes + 1, cols, bound)
  ELSE i
CutBounded(text, cols, bound) == SubSeq(text, 1, TrimLoopB(text, 0, 0, cols, bound))

\* the trimming law for one text and width (the oracle's GoodCut applied to the transcription)
TrimLawAt(text, w) == WellFormed(text) => GoodCut(text, Cut(text, w), w)
=============================================================================

------------------------------ MODULE TermTrim ------------------------------
(* C20.  Transcription of pkg/multiterm/linetrim.go WriteLineNoWrap (shared by    *)
(* the in-place writer TermWriter.tla and the buffered writer TermBuffered.tla).  *)
EXTENDS TermOracle

(* linetrim.go WriteLineNoWrap: i and visibleRunes as in the Go loop (i 0-based) *)
RECURSIVE SkipToM(_, _)
SkipToM(runes, i) ==              \* for runes[i] != 'm' && i < len(runes)-1 { i++ }
  IF runes[i + 1] # 109 /\ i < Len(runes) - 1 THEN SkipToM(runes, i + 1) ELSE i
RECURSIVE TrimLoop(_, _, _, _)
TrimLoop(runes, i, visibleRunes, cols) ==
  IF i < Len(runes) /\ visibleRunes < cols
  THEN IF runes[i + 1] = ESC
       THEN TrimLoop(runes, SkipToM(runes, i) + 1, visibleRunes, cols)
       ELSE TrimLoop(runes, i + 1, visibleRunes + 1, cols)
  ELSE i
Cut(text, cols) == SubSeq(text, 1, TrimLoop(text, 0, 0, cols))
WriteLineNoWrap(text, autoTrim, cols) == IF ~autoTrim THEN Utf8(text) ELSE Utf8(Cut(text, cols))

\* the trimming law for one text and width (the oracle's GoodCut applied to the transcription)
TrimLawAt(text, w) == WellFormed(text) => GoodCut(text, Cut(text, w), w)
=============================================================================

----------------------------- MODULE TimeCal_Gen -----------------------------
(* B1 generator for C18.  TLC enumerates instants within a few seconds of every     *)
(* month (hence quarter and year), ISO-week-year and DST boundary of the LOCAL      *)
(* calendar of each modelled zone, 1970-2100 (a seed-dependent subsample of years   *)
(* and zones unless Thorough), and prints for each the calls                        *)
(*   timeformat (every named and custom layout), timeattr (weekday, week,           *)
(*   yearweek, quarter), time on the text the model prints for every layout that    *)
(*   can be read back, the nested round trip, buckettime on such a text and on the  *)
(*   nested timeformat for every bucket size,                                       *)
(* each with the text TimeCal.Expect demands.  Further groups: texts that must be   *)
(* rejected (every one-character corruption of a printed text, truncation,          *)
(* extension, out-of-range fields), non-numeric unix times, unknown zone /          *)
(* attribute / bucket, default arguments, format detection on RFC3339 text, and     *)
(* duration <-> durationformat over ranges.  The Go driver evaluates every call     *)
(* through the real expression compiler and compares.                               *)
EXTENDS TimeCal, Json, TLC

CONSTANTS Thorough, Seed, Part, NParts       \* Part of NParts: the groups are split over several TLC runs

VARIABLE vec

Mk(f, n, x, fmt, z, b) == [f |-> f, n |-> n, x |-> x, fmt |-> fmt, z |-> z, b |-> b]

ZoneSeq == <<"UTC", "America/New_York", "Etc/GMT-14", "Europe/Berlin", "Asia/Kolkata", "Australia/Sydney",
             "Etc/GMT+5", "utc", "Etc/GMT+12", "Etc/GMT-3">>
ZoneIdx(z) == CHOOSE i \in 1..Len(ZoneSeq) : ZoneSeq[i] = z
RuleZones == {"America/New_York", "Europe/Berlin", "Australia/Sydney"}
Offs(z) == {Zone(z).std, Zone(z).dst}

RTFormats    == {f \in KnownFormats : LET lay == Layout(f) IN HasDate(lay) /\ HasTime(lay) /\ HasNumOff(lay) /\ Parseable(lay)}
ParseFormats == {f \in KnownFormats : ParseFormat(f)}
PF == SetToSeq(ParseFormats)
RF == SetToSeq(RTFormats)
BucketKinds == <<"nanos", "seconds", "minutes", "hours", "days", "months", "years">>
BucketVariant(kind, i) ==       \* the i-th documented spelling (0..2)
  LET names == SelectSeq(SetToSeq(BucketNames), LAMBDA b : BucketKind(b) = kind) IN names[(i % 3) + 1]

Pick(seq, i) == seq[(i % Len(seq)) + 1]

\* the calls made for the instant t in zone z
InstCalls(t, z, mode) ==
  LET x   == UnixDigits(t)
      l   == Local(Zone(z), t)
      h   == t.d + t.s + ZoneIdx(z)
      txt(f) == Format(Layout(f), l)
  IN IF mode = "full" THEN
       SetToSeq({Mk("timeformat", 3, x, f, z, "") : f \in KnownFormats})
       \o SetToSeq({Mk("timeattr", 3, x, "", z, a) : a \in AttrNames})
       \o SetToSeq({Mk("rt", 3, x, f, z, "") : f \in RTFormats})
       \o SetToSeq({Mk("time", 3, txt(f), f, z, "") : f \in ParseFormats})
       \o [i \in 1..7 |-> LET f == Pick(PF, h + i) IN Mk("buckettime", 4, txt(f), f, z, BucketVariant(BucketKinds[i], h + i))]
       \o [i \in 1..7 |-> Mk("bucketrt", 4, x, Pick(PF, h + 3 * i), z, BucketVariant(BucketKinds[i], h + i + 1))]
     ELSE
       SetToSeq({Mk("timeattr", 3, x, "", z, a) : a \in AttrNames})
       \o <<Mk("timeformat", 3, x, "RFC3339", z, ""), Mk("timeformat", 3, x, Pick(SetToSeq(NamedFormats), h), z, ""),
            Mk("rt", 3, x, Pick(RF, h), z, ""),
            Mk("bucketrt", 4, x, Pick(PF, h), z, BucketVariant(BucketKinds[(h % 4) + 4], h))>>

\* ---------------------------------------------------------------- texts that must be rejected
Corruptions(s) == {[i \in 1..Len(s) |-> IF i = k THEN 120 ELSE s[i]] : k \in 1..Len(s)}
                  \cup {SubSeq(s, 1, Len(s) - 1), s \o <<120>>, s \o <<48>>, <<>>}
BadFields(l) ==       \* calendar fields no date has
  {[l EXCEPT !.m = 13], [l EXCEPT !.m = 0], [l EXCEPT !.d = 32], [l EXCEPT !.d = 0], [l EXCEPT !.m = 2, !.d = 30],
   [l EXCEPT !.y = 2023, !.m = 2, !.d = 29], [l EXCEPT !.y = 2100, !.m = 2, !.d = 29], [l EXCEPT !.m = 4, !.d = 31],
   [l EXCEPT !.hh = 24], [l EXCEPT !.mi = 60], [l EXCEPT !.ss = 60]}
NumericDate(f) == ~HasTok(Layout(f), {"Jan"})
ErrCalls(t, z) ==
  LET l == Local(Zone(z), t) h == t.d + t.s IN
  SetToSeq(UNION {{Mk("time", 3, bad, f, z, "") : bad \in Corruptions(Format(Layout(f), l))} : f \in ParseFormats})
  \o SetToSeq(UNION {{Mk("buckettime", 4, bad, f, z, BucketVariant(Pick(BucketKinds, Len(bad)), Len(bad))) :
                        bad \in Corruptions(Format(Layout(f), l))} : f \in {Pick(PF, h), Pick(PF, h + 5)}})
  \o SetToSeq({Mk("time", 3, Format(Layout(f), bl), f, z, "") : f \in {g \in ParseFormats : NumericDate(g)}, bl \in BadFields(l)})
  \o SetToSeq({Mk("time", 3, Format(Layout(f), bl), f, z, "") :
                 f \in ParseFormats \ {g \in ParseFormats : NumericDate(g)},
                 bl \in {b \in BadFields(l) : b.m \in 1..12}})
  \o SetToSeq({Mk("buckettime", 4, Format(Layout("RFC3339"), bl), "RFC3339", z, "d") : bl \in BadFields(l)})
  \* leap days that do exist
  \o <<Mk("time", 3, Format(Layout("RFC3339"), [l EXCEPT !.y = 2024, !.m = 2, !.d = 29]), "RFC3339", z, ""),
       Mk("time", 3, Format(Layout("RFC1123Z"), [l EXCEPT !.y = 2000, !.m = 2, !.d = 29, !.wd = 2]), "RFC1123Z", z, "")>>

NotNumbers == {<<>>, <<120>>, <<49, 50, 97>>, <<49, 46, 53>>, <<32, 49>>, <<49, 101, 51>>, <<48, 120, 49, 48>>, <<49, 95, 48>>, <<45>>}
MiscCalls(t) ==
  LET x == UnixDigits(t) IN
  SetToSeq({Mk(f, 3, nn, "RFC3339", "UTC", "week") : f \in {"timeformat", "timeattr"}, nn \in NotNumbers})
  \o SetToSeq({Mk("durationformat", 1, nn, "", "", "") : nn \in NotNumbers})
  \o <<Mk("timeformat", 3, x, "RFC3339", "Nowhere/Land", ""), Mk("timeattr", 3, x, "", "Nowhere/Land", "week"),
       Mk("time", 3, x, "RFC3339", "Nowhere/Land", ""), Mk("buckettime", 4, x, "RFC3339", "Nowhere/Land", "d"),
       Mk("timeattr", 3, x, "", "UTC", "bogus"), Mk("timeattr", 2, x, "", "", "bogus"),
       Mk("buckettime", 4, x, "RFC3339", "UTC", "bogus"), Mk("buckettime", 3, x, "RFC3339", "", "bogus"),
       Mk("timeformat", 3, <<43>> \o x, "RFC3339", "Europe/Berlin", ""), Mk("timeformat", 3, <<48, 48>> \o x, "ANSIC", "UTC", ""),
       Mk("timeattr", 3, <<43>> \o x, "", "UTC", "yearweek")>>
\* omitted optional arguments: RFC3339 and UTC
DefaultCalls(t, z) ==
  LET x == UnixDigits(t) u == Local(Zone("UTC"), t) l == Local(Zone(z), t) IN
  <<Mk("timeformat", 1, x, "", "", ""), Mk("timeformat", 2, x, "NGINX", "", ""), Mk("timeformat", 2, x, "UNIX", "", ""),
    Mk("timeformat", 2, x, "2006-01-02 15:04:05", "", "")>>
  \o SetToSeq({Mk("timeattr", 2, x, "", "", a) : a \in AttrNames})
  \o SetToSeq({Mk("time", 2, Format(Layout(f), u), f, "", "") : f \in ParseFormats})
  \o SetToSeq({Mk("time", 2, Format(Layout(f), l), f, "", "") : f \in RTFormats})        \* the offset in the text decides
  \o SetToSeq({Mk("buckettime", 3, Format(Layout(f), u), f, "", b) : f \in {"ANSIC", "RFC3339"}, b \in {"mo", "h", "y"}})
  \* format detection agrees with the explicit format on RFC3339 text
  \o <<Mk("time", 3, Format(Layout("RFC3339"), l), "auto", z, ""), Mk("time", 3, Format(Layout("RFC3339"), l), "cache", z, ""),
       Mk("time", 1, Format(Layout("RFC3339"), l), "", "", ""), Mk("time", 2, Format(Layout("RFC3339"), u), "auto", "", "")>>

\* ---------------------------------------------------------------- durations
DurStr(a, ua, b, ub) == Itoa(a) \o <<ua>> \o Itoa(b) \o <<ub>>
DurCalls(n) ==       \* block n: 0..
  LET R == (n * 600 - 70)..(n * 600 + 529)
      S == {0, 1, 59, 60, 61, 100} IN
  SetToSeq({Mk(f, 1, Itoa(v), "", "", "") : f \in {"durationformat", "durrt"}, v \in R})
  \o SetToSeq({Mk(f, 1, Itoa(v * 3600 + dl), "", "", "") : f \in {"durationformat", "durrt"}, v \in (n * 10)..(n * 10 + 9), dl \in {0 - 1, 0, 1}})
  \o SetToSeq({Mk(f, 1, DurText(v), "", "", "") : f \in {"duration", "fmtdur"}, v \in R})
  \o (IF n > 0 THEN <<>> ELSE
      SetToSeq({Mk(f, 1, DurStr(a, ua, b, ub), "", "", "") : f \in {"duration", "fmtdur"}, a \in S, b \in S, ua \in {104, 109, 115}, ub \in {104, 109, 115}})
      \o SetToSeq({Mk("duration", 1, s, "", "", "") :
           s \in {<<>>, <<48>>, <<45, 48>>, <<53>>, <<49, 50>>, <<53, 120>>, <<49, 104, 53>>, <<104>>, <<49, 100>>, <<53, 32, 115>>,
                  <<32, 53, 115>>, <<49, 104, 32, 53, 109>>, <<45, 45, 53, 115>>, <<115, 53>>, <<97, 98, 99>>, <<45>>, <<43>>,
                  <<43, 53, 115>>, <<45, 57, 48, 109>>, <<50, 55, 48, 48, 48, 48, 104>>, <<48, 104>>, <<48, 48, 55, 115>>,
                  <<49, 119>>, <<53, 77>>, <<53, 72>>, <<53, 83>>}})
      \o SetToSeq({Mk(f, 1, Itoa(v), "", "", "") : f \in {"durationformat", "durrt"},
                   v \in {999999999, 0 - 999999999, 86400, 0 - 86400, 31536000, 359999, 360000, 0 - 3599, 0 - 3600, 0 - 3601}}))

\* ---------------------------------------------------------------- the enumeration
H(g, z, n) == [hdr |-> TRUE, g |-> g, z |-> z, n |-> n]
Years(k) == {y \in 1970..2100 : (y + Seed) % k = 0}
Chosen(z, y) == Thorough \/ (ZoneIdx(z) + y) % 3 = Seed % 3
Deltas == IF Thorough THEN {0 - 2, 0 - 1, 0, 1, 2} ELSE {0 - 1, 0}

Groups ==
  {H("month", z, y) : z \in ZoneNames, y \in IF Thorough THEN 1970..2100 ELSE Years(9)}
  \cup {H("year", z, b) : z \in ZoneNames, b \in 0..13}
  \cup {H("week", z, b) : z \in ZoneNames, b \in 0..13}
  \cup {H("dst", z, y) : z \in RuleZones, y \in IF Thorough THEN 1996..2100 ELSE Years(5)}
  \cup {H("err", z, y) : z \in {"UTC", "America/New_York", "Etc/GMT-14"}, y \in {1970 + (Seed % 60), 2024, 2100 - (Seed % 30)}}
  \cup {H("misc", "", 0)}
  \cup {H("dur", "", b) : b \in 0..(IF Thorough THEN 39 ELSE 11)}

InstV(g, z, t, mode) == [hdr |-> FALSE, g |-> g, k |-> "inst", z |-> z, t |-> t, mode |-> mode]
CallsV(g, id, calls) == [hdr |-> FALSE, g |-> g, k |-> "calls", id |-> id, calls |-> calls]
ModeOf(y) == IF ~Thorough \/ (y + Seed) % 8 = 0 THEN "full" ELSE "lite"

\* the Monday that starts ISO week 1 of year y
IsoYearStart(y) == LET j4 == DaysFromCivil(y, 1, 4) IN j4 - IsoWd(j4) + 1

Cases(h) ==
  LET zd == Zone(h.z) IN
  CASE h.g = "month" ->
         IF ~Chosen(h.z, h.n) THEN {}
         ELSE {InstV("month", h.z, t, ModeOf(h.n)) :
                 t \in {u \in {Norm(DaysFromCivil(h.n, m, 1), dl - off) : m \in 1..12, dl \in Deltas, off \in Offs(h.z)} : InZoneDomain(zd, u)}}
    [] h.g = "year" ->        \* every year boundary of the local calendar
         {InstV("year", h.z, t, "lite") :
            t \in {u \in {Norm(DaysFromCivil(y, 1, 1), dl - off) : y \in {y \in (1970 + 10 * h.n)..(1979 + 10 * h.n) : y <= 2101 /\ Chosen(h.z, y + 1)},
                                                                  dl \in Deltas, off \in Offs(h.z)} : InZoneDomain(zd, u)}}
    [] h.g = "week" ->        \* the start of every ISO week-year (and of every ISO week of some years)
         {InstV("week", h.z, t, "lite") :
            t \in {u \in {Norm(d, dl - off) :
                            d \in UNION {{IsoYearStart(y)} \cup (IF ZoneIdx(h.z) <= 2 /\ (Thorough \/ (y + Seed) % 19 = 0)
                                                                 THEN {IsoYearStart(y) + 7 * w : w \in 1..52} ELSE {}) :
                                         y \in {y \in (1970 + 10 * h.n)..(1979 + 10 * h.n) : y <= 2101 /\ Chosen(h.z, y + 2)}},
                            dl \in {0 - 1, 0}, off \in Offs(h.z)} : InZoneDomain(zd, u)}}
    [] h.g = "dst" ->
         IF DaysFromCivil(h.n, 1, 2) < zd.from THEN {}
         ELSE LET tr == Transitions(zd.kind, h.n) IN
              {InstV("dst", h.z, Plus(t, dl), "full") : t \in {tr.on, tr.off}, dl \in Deltas}
              \cup {InstV("dst", h.z, Plus(t, dl), "lite") : t \in {tr.on, tr.off}, dl \in {0 - 3601, 0 - 3600, 1800, 3599, 3600}}
    [] h.g = "err" ->
         LET ts == {Norm(DaysFromCivil(h.n, 3 + (Seed % 7), 9), 3600 * k + 47 * Seed + 13) : k \in {1, 9, 22}} IN
         {CallsV("err", h.z, ErrCalls(t, h.z)) : t \in ts} \cup {CallsV("default", h.z, DefaultCalls(t, h.z)) : t \in ts}
    [] h.g = "misc" -> {CallsV("misc", "", MiscCalls(Inst(17361 + Seed, 9600)))}
    [] h.g = "dur" -> {CallsV("dur", "", DurCalls(h.n))}

Init == vec \in {h \in Groups : h.n % NParts = Part}
Next == vec.hdr /\ \E x \in Cases(vec) : vec' = x

\* one printed call: the arguments and what the specification demands (k = "any": nothing)
Out(c) ==
  LET e == Expect(c) IN
  [f |-> c.f, n |-> c.n, x |-> c.x, fmt |-> c.fmt, z |-> c.z, b |-> c.b, k |-> e.k, e |-> e.v, ce |-> IF e.ce THEN "y" ELSE "n"]
Dump ==
  vec.hdr \/
  LET cs == IF vec.k = "inst" THEN InstCalls(vec.t, vec.z, vec.mode) ELSE vec.calls IN
  PrintT("VFJ " \o ToJson([g |-> vec.g, calls |-> [i \in 1..Len(cs) |-> Out(cs[i])]]))
=============================================================================

-------------------------------- MODULE Term --------------------------------
(* C20.  A VT100-subset terminal emulator as a state machine over the BYTE      *)
(* stream a program writes to the terminal.  It knows nothing about the program *)
(* that produces the bytes (multiterm): it is the reference against which the   *)
(* emitted cursor-movement / erase sequences are judged.                         *)
(*                                                                              *)
(* Emulated subset (everything rare's in-place writer may legitimately use):     *)
(*   printable runes (UTF-8, every rune one cell wide) - written at the cursor,  *)
(*       cursor advances; a rune arriving when the cursor is past the last       *)
(*       column wraps to the next row and sets the sticky flag `wrapped`         *)
(*   LF (down one row; column 0 as well when `onlcr`, the tty default),  CR      *)
(*   ESC[nA up, ESC[nB down, ESC[nG column, ESC[0K ESC[K ESC[1K ESC[2K erase,    *)
(*   ESC[?25l / ESC[?25h cursor visibility, ESC[...m colours (zero width)        *)
(* Flags:  broken - a control sequence / UTF-8 sequence was interrupted by a     *)
(*                  control byte or the start of another sequence (what happens  *)
(*                  when a text is cut inside ESC[...m);                          *)
(*         junk   - a byte outside the emulated subset was seen (the emulator     *)
(*                  cannot judge the screen any more: inconclusive, no verdict); *)
(*         ctl    - a cursor-control sequence (move, column, erase, visibility)   *)
(*                  was used: output that is not plain lines top to bottom.       *)
(* Assumptions: the terminal is at least as tall as the rows used (no            *)
(* scrolling: `rows` grows on demand); erase at the deferred-wrap position       *)
(* (cursor past the last column) erases nothing.                                 *)
EXTENDS Bytes

ESC   == 27
Blank == 32

\* longest parameter string of a control sequence the emulator follows (a colour sequence may stack
\* many attributes: ESC[0;1;4;38;2;r;g;b;48;2;r;g;bm has 39 parameter bytes); beyond it: junk
MaxPar == 96

MaxI(a, b) == IF a >= b THEN a ELSE b
MinI(a, b) == IF a <= b THEN a ELSE b

(* `above`: rows of earlier output above the row the cursor starts on.           *)
NewTerm(cols, onlcr, above) ==
  [cols |-> cols, onlcr |-> onlcr,
   rows |-> above \o << <<>> >>, r |-> Len(above) + 1, c |-> 0,
   vis |-> TRUE, wrapped |-> FALSE, broken |-> FALSE, junk |-> FALSE, ctl |-> FALSE,
   st |-> "ground", par |-> <<>>, need |-> 0, acc |-> 0]

Blanks(n) == [i \in 1..n |-> Blank]
EnsureRows(rows, r) == IF Len(rows) >= r THEN rows ELSE rows \o [i \in 1..(r - Len(rows)) |-> <<>>]

\* put rune x into the cell at 0-based column c of a row (cells past the end of the row are blank)
PutCell(row, c, x) ==
  LET p == IF Len(row) < c THEN row \o Blanks(c - Len(row)) ELSE row
  IN  IF Len(p) = c THEN Append(p, x) ELSE [p EXCEPT ![c + 1] = x]

PutRune(t, x) ==
  LET wrap  == t.c >= t.cols
      r2    == IF wrap THEN t.r + 1 ELSE t.r
      c2    == IF wrap THEN 0 ELSE t.c
      rows2 == EnsureRows(t.rows, r2)
  IN  [t EXCEPT !.rows = [rows2 EXCEPT ![r2] = PutCell(rows2[r2], c2, x)],
                !.r = r2, !.c = c2 + 1, !.wrapped = t.wrapped \/ wrap]

LineFeed(t) ==
  [t EXCEPT !.rows = EnsureRows(t.rows, t.r + 1), !.r = t.r + 1,
            !.c = IF t.onlcr THEN 0 ELSE t.c]

IsDigits(p) == \A i \in 1..Len(p) : p[i] \in 48..57
RECURSIVE DecVal(_)
DecVal(p) == IF p = <<>> THEN 0 ELSE DecVal(Front(p)) * 10 + (Last(p) - 48)
\* numeric parameter of a CSI sequence; absent or 0 means 1
Count(p) == IF p = <<>> \/ DecVal(p) = 0 THEN 1 ELSE DecVal(p)

Junk(t) == [t EXCEPT !.junk = TRUE]

\* a complete sequence ESC [ par final
DispatchRaw(t, par, final) ==
  LET num == IsDigits(par) /\ Len(par) <= 6
      row == t.rows[t.r]
  IN
  CASE final = 65 /\ num ->                                     \* A: up, stops at the top row
         [t EXCEPT !.r = MaxI(1, t.r - Count(par)), !.c = MinI(t.c, t.cols - 1)]
    [] final = 66 /\ num ->                                     \* B: down
         [t EXCEPT !.rows = EnsureRows(t.rows, t.r + Count(par)), !.r = t.r + Count(par),
                   !.c = MinI(t.c, t.cols - 1)]
    [] final = 71 /\ num ->                                     \* G: absolute column
         [t EXCEPT !.c = MinI(Count(par), t.cols) - 1]
    [] final = 75 /\ par \in {<<>>, <<48>>} ->                  \* K / 0K: erase cursor..end of row
         [t EXCEPT !.rows[t.r] = SubSeq(row, 1, MinI(t.c, Len(row)))]
    [] final = 75 /\ par = <<49>> ->                            \* 1K: erase start of row..cursor
         LET n == MinI(t.c + 1, t.cols) IN
         [t EXCEPT !.rows[t.r] = Blanks(n) \o SubSeq(row, n + 1, Len(row))]
    [] final = 75 /\ par = <<50>> ->                            \* 2K: erase the row
         [t EXCEPT !.rows[t.r] = <<>>]
    [] final = 109 /\ \A i \in 1..Len(par) : par[i] \in 48..59 ->   \* m: colours, zero width
         t
    [] final = 104 /\ par = <<63, 50, 53>> -> [t EXCEPT !.vis = TRUE]    \* ?25h
    [] final = 108 /\ par = <<63, 50, 53>> -> [t EXCEPT !.vis = FALSE]   \* ?25l
    [] OTHER -> Junk(t)
Dispatch(t, par, final) ==
  LET t2 == DispatchRaw(t, par, final) IN IF final = 109 THEN t2 ELSE [t2 EXCEPT !.ctl = TRUE]

Ground(t, b) ==
  IF b = ESC THEN [t EXCEPT !.st = "esc"]
  ELSE IF b = 10 THEN LineFeed(t)
  ELSE IF b = 13 THEN [t EXCEPT !.c = 0]
  ELSE IF b \in 32..126 THEN PutRune(t, b)
  ELSE IF b \in 194..223 THEN [t EXCEPT !.st = "utf", !.need = 1, !.acc = b - 192]
  ELSE IF b \in 224..239 THEN [t EXCEPT !.st = "utf", !.need = 2, !.acc = b - 224]
  ELSE IF b \in 240..244 THEN [t EXCEPT !.st = "utf", !.need = 3, !.acc = b - 240]
  ELSE Junk(t)                       \* other C0 controls, DEL, stray continuation bytes

ToGround(t) == [t EXCEPT !.st = "ground", !.par = <<>>, !.need = 0, !.acc = 0]
Interrupted(t, b) == Ground([ToGround(t) EXCEPT !.broken = TRUE], b)

(* One byte. *)
Step(t, b) ==
  CASE t.st = "ground" -> Ground(t, b)
    [] t.st = "utf" ->
         IF b \in 128..191
         THEN LET a == t.acc * 64 + (b - 128) IN
              IF t.need = 1 THEN PutRune(ToGround(t), a)
              ELSE [t EXCEPT !.need = t.need - 1, !.acc = a]
         ELSE Interrupted(t, b)
    [] t.st = "esc" ->
         IF b = 91 THEN [t EXCEPT !.st = "csi", !.par = <<>>]
         ELSE IF b < 32 THEN Interrupted(t, b)
         ELSE Junk(ToGround(t))                                  \* ESC x: not emulated
    [] t.st = "csi" ->
         IF b \in 48..63
         THEN IF Len(t.par) < MaxPar THEN [t EXCEPT !.par = Append(t.par, b)] ELSE Junk(ToGround(t))
         ELSE IF b \in 64..126 THEN Dispatch(ToGround(t), t.par, b)
         ELSE IF b < 32 THEN Interrupted(t, b)
         ELSE Junk(ToGround(t))

Feed(t, bytes) == FoldLeft(Step, t, bytes)

\* a row as seen by a person: trailing blanks are invisible
RECURSIVE RTrim(_)
RTrim(s) == IF s # <<>> /\ Last(s) = Blank THEN RTrim(Front(s)) ELSE s

Idle(t) == t.st = "ground"            \* not in the middle of a sequence

=============================================================================

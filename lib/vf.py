"""Shared machinery for the /verif checks (TLC runner, Go harness builder, evidence,
known-finding classification).  Standard library only."""
import atexit
import json
import os
import re
import shutil
import subprocess
import sys
import tempfile
import threading
import time

ROOT = os.path.dirname(os.path.dirname(os.path.abspath(__file__)))
REPO = os.environ.get("VERIF_REPO", "/repo")
SPEC = os.path.join(ROOT, "spec")
JARS = "/opt/veriftools/tla/tla2tools.jar:/opt/veriftools/tla/CommunityModules-deps.jar"

GOENV = dict(os.environ)
GOENV.update({
    "GOFLAGS": "-mod=mod", "GOPROXY": "off", "GOSUMDB": "off", "GOTOOLCHAIN": "local",
    "GOCACHE": os.environ.get("GOCACHE", os.path.expanduser("~/.cache/go-build")),
})


class Inconclusive(Exception):
    """Infrastructure failure (build error, TLC crash, timeout): exit 2, never a violation."""


class TLCResult:
    def __init__(self, out, rc, workdir):
        self.out = out
        self.rc = rc
        self.workdir = workdir
        self.generated = 0
        self.distinct = 0
        m = re.findall(r"(\d+) states generated, (\d+) distinct states found", out)
        if m:
            self.generated, self.distinct = int(m[-1][0]), int(m[-1][1])
        self.violated = re.findall(r"Invariant (\S+) is violated", out)
        self.violated += re.findall(r"Action property (\S+) is violated", out)
        if "Temporal properties were violated" in out or re.search(r"Temporal property \S+ was violated", out):
            self.violated.append("<temporal>")
        if re.search(r"Deadlock reached", out):
            self.violated.append("<deadlock>")
        self.postcond_failed = "Postcondition" in out and "violated" in out
        self.finished = "Model checking completed" in out or "Finished in" in out or \
            "Finished computing initial states" in out and "The depth of the complete" in out
        self.errors = [l for l in out.splitlines() if l.startswith("Error:")]
        self.coverage = {}
        # action coverage lines:  <Action line 12, col 1 to line 14, col 20 of module M>: 10:20
        for mm in re.finditer(r"^<(\w+) line \d+, col \d+ to line \d+, col \d+ of module (\w+)>: (\d+):(\d+)",
                              out, re.M):
            self.coverage[mm.group(2) + "." + mm.group(1)] = (int(mm.group(3)), int(mm.group(4)))

    @property
    def ok(self):
        return self.rc == 0 and not self.violated and not self.errors

    def json_out(self, name):
        p = os.path.join(self.workdir, name)
        if not os.path.exists(p):
            return None
        with open(p) as f:
            return json.load(f)


class Run:
    def __init__(self, prop, tier, level="model_checking"):
        self.prop = prop
        self.tier = tier
        self.level = level
        self.seed = int(os.environ.get("VERIF_SEED", "1"))
        self.t0 = time.time()
        base = os.environ.get("VERIF_TMP") or tempfile.gettempdir()
        self.scratch = tempfile.mkdtemp(prefix="rare-verif-%s-" % prop, dir=base)
        atexit.register(lambda: shutil.rmtree(self.scratch, ignore_errors=True))
        self.cov = {"states": 0, "transitions": 0, "traces_validated_against_impl": 0,
                    "evaluations": 0, "distinct_nontrivial": 0, "samples": [],
                    "tlc_runs": [], "rule": ""}
        self.assumptions = []
        self.violations = []   # (signature, text, replay_path)
        self.known_hits = []
        self._bin = {}
        self._tlcn = 0
        self._lock = threading.Lock()
        with open(os.path.join(ROOT, "known_findings.json")) as f:
            kf = json.load(f)
        self.known = [k for k in kf.get("known", []) if k["property"] == prop]
        self.replay_dir = os.path.join(ROOT, "replay", prop)

    # ---------------------------------------------------------------- building
    def _modfile(self):
        """harness go.mod with the replace pointing at REPO (default /repo)."""
        hd = os.path.join(self.scratch, "harness")
        if not os.path.isdir(hd):
            shutil.copytree(os.path.join(ROOT, "harness"), hd)
            gm = open(os.path.join(hd, "go.mod")).read()
            gm = re.sub(r"replace rare => .*", "replace rare => " + REPO, gm)
            open(os.path.join(hd, "go.mod"), "w").write(gm)
            shutil.copy(os.path.join(REPO, "go.sum"), os.path.join(hd, "go.sum"))
        return hd

    def build_harness(self, race=False, name=None):
        """builds harness/cmd/<name> (default: this property's driver, e.g. cmd/c04)."""
        name = name or self.prop.lower()
        key = name + ("-race" if race else "")
        if key in self._bin:
            return self._bin[key]
        hd = self._modfile()
        out = os.path.join(self.scratch, key)
        cmd = ["go", "build", "-tags", "verif"] + (["-race"] if race else []) + ["-o", out, "./cmd/" + name]
        p = subprocess.run(cmd, cwd=hd, env=GOENV, capture_output=True, text=True)
        if p.returncode != 0:
            raise Inconclusive("harness build failed:\n" + p.stdout + p.stderr)
        self._bin[key] = out
        return out

    def build_cli(self, race=False):
        key = "rare-race" if race else "rare"
        if key in self._bin:
            return self._bin[key]
        out = os.path.join(self.scratch, key)
        cmd = ["go", "build", "-tags", "verif"] + (["-race"] if race else []) + ["-o", out, "."]
        p = subprocess.run(cmd, cwd=REPO, env=GOENV, capture_output=True, text=True)
        if p.returncode != 0:
            raise Inconclusive("rare build failed:\n" + p.stdout + p.stderr)
        self._bin[key] = out
        return out

    def drv(self, args, race=False, timeout=1800, env=None, check=True, cwd=None, name=None):
        b = self.build_harness(race, name)
        e = dict(GOENV)
        e["VERIF_SEED"] = str(self.seed)
        if env:
            e.update(env)
        try:
            p = subprocess.run([b] + [str(a) for a in args], capture_output=True, text=True,
                               timeout=timeout, env=e, cwd=cwd or self.scratch)
        except subprocess.TimeoutExpired:
            raise Inconclusive("driver timeout: %s" % args)
        if check and p.returncode != 0:
            err = p.stderr if len(p.stderr) <= 9000 else p.stderr[:4500] + "\n...\n" + p.stderr[-4500:]
            raise Inconclusive("driver failed (%d): %s\n%s" % (p.returncode, args, err))
        return p

    # --------------------------------------------------------------------- TLC
    def tlc(self, module, cfg, files=(), workers=8, timeout=900, simulate=None, depth=None,
            coverage=False, xmx="6g", deadlock=None, extra=(), label=None, dfs=False, modules=None):
        """Run TLC on spec/<module>.tla in a private scratch copy.
        cfg: text of the config.  files: extra data files (path, or (name, path)) copied into the
        working directory (trace.ndjson etc)."""
        with self._lock:
            self._tlcn += 1
            wd = os.path.join(self.scratch, "tlc%d" % self._tlcn)
        os.makedirs(wd)
        for fn in os.listdir(SPEC):
            if fn.endswith(".tla"):
                shutil.copy(os.path.join(SPEC, fn), wd)
        for f in files:
            if isinstance(f, tuple):
                shutil.copy(f[1], os.path.join(wd, f[0]))
            else:
                shutil.copy(f, wd)
        with open(os.path.join(wd, "MC.cfg"), "w") as f:
            f.write(cfg)
        jopts = ["-XX:+UseParallelGC", "-XX:ParallelGCThreads=4", "-Xmx" + xmx, "-Xss64m"]
        if dfs:
            jopts.append("-Dtlc2.tool.queue.IStateQueue=StateDeque")
        cmd = ["java"] + jopts + ["-cp", JARS, "tlc2.TLC", "-metadir", os.path.join(wd, "meta"),
                                  "-workers", str(workers), "-config", "MC.cfg"]
        if simulate:
            cmd += ["-simulate", simulate]
            if depth:
                cmd += ["-depth", str(depth)]
            cmd += ["-seed", str(self.seed)]
        if coverage:
            cmd += ["-coverage", "1"]
        if deadlock is False:
            cmd += ["-deadlock"]
        cmd += list(extra) + [module]
        t = time.time()
        try:
            p = subprocess.run(cmd, cwd=wd, capture_output=True, text=True, timeout=timeout)
            out, rc = p.stdout + p.stderr, p.returncode
        except subprocess.TimeoutExpired as ex:
            if simulate:   # simulation is ended by the timeout on purpose
                out = (ex.stdout or b"").decode("utf8", "replace") if isinstance(ex.stdout, bytes) else (ex.stdout or "")
                rc = 0
            else:
                raise Inconclusive("TLC timeout on %s (%ss)" % (module, timeout))
        r = TLCResult(out, rc, wd)
        r.wall = time.time() - t
        self.cov["states"] += r.distinct
        self.cov["transitions"] += r.generated
        self.cov["tlc_runs"].append({"module": module, "label": label or module, "generated": r.generated,
                                     "distinct": r.distinct, "wall_s": round(r.wall, 2),
                                     "mode": "simulate" if simulate else "bfs", "workers": workers})
        if rc != 0 and not r.violated and not r.postcond_failed:
            # parse errors, evaluation errors: infrastructure failure
            raise Inconclusive("TLC failed on %s (rc=%d):\n%s" % (module, rc, out[-6000:]))
        return r

    # --------------------------------------------------------------- verdicts
    def save_replay(self, name, content):
        os.makedirs(self.replay_dir, exist_ok=True)
        p = os.path.join(self.replay_dir, name)
        with open(p, "w") as f:
            if isinstance(content, str):
                f.write(content)
            else:
                json.dump(content, f, indent=1)
        return p

    def violation(self, signature, what, replay):
        """signature: stable class string used to match known findings (prefix match)."""
        for k in self.known:
            if re.fullmatch(k["signature"], signature):
                if k not in self.known_hits:
                    self.known_hits.append(k)
                return False
        self.violations.append((signature, what, replay))
        return True

    def sample(self, x):
        if len(self.cov["samples"]) < 8:
            self.cov["samples"].append(x)

    def finish(self):
        wall = time.time() - self.t0
        for k in self.known_hits:
            print("KNOWN-FINDING: property=%s %s" % (self.prop, k["what"]))
        seen = set()
        for sig, what, replay in self.violations:
            if sig in seen:
                continue
            seen.add(sig)
            n = len(seen)
            path = replay if isinstance(replay, str) and os.path.exists(replay) else \
                self.save_replay("violation-%d.json" % n, {"signature": sig, "what": what, "replay": replay})
            print("VIOLATION property=%s replay=%s" % (self.prop, path))
            print("  %s: %s" % (sig, what))
            if n >= 20:
                print("  ... %d more violation records" % (len(self.violations) - n))
                break
        cov = dict(self.cov)
        if not cov["samples"]:
            cov["samples"] = ["(none recorded)"]
        cov["known_findings_hit"] = [k["signature"] for k in self.known_hits]
        ev = {"property_id": self.prop, "tier": self.tier, "seed": self.seed, "level": self.level,
              "coverage": cov, "assumptions": self.assumptions, "wall_s": round(wall, 2),
              "violations": len(seen)}
        # checks beyond the listed properties (ids not starting with C) keep their evidence apart from the manifest's
        evdir = os.path.join(ROOT, "evidence") if self.prop.startswith("C") else os.path.join(ROOT, "evidence", "extra")
        os.makedirs(evdir, exist_ok=True)
        with open(os.path.join(evdir, self.prop + ".json"), "w") as f:
            json.dump(ev, f, indent=1, default=str)
        print("%s %s: %d TLC states, %d impl traces, %d evaluations, %.1fs, violations=%d known=%d" % (
            self.prop, self.tier, cov["states"], cov["traces_validated_against_impl"], cov["evaluations"],
            wall, len(seen), len(self.known_hits)))
        return 1 if seen else 0


def read_ndjson(path):
    out = []
    with open(path) as f:
        for line in f:
            line = line.strip()
            if line:
                out.append(json.loads(line))
    return out


def write_ndjson(path, recs):
    with open(path, "w") as f:
        for r in recs:
            f.write(json.dumps(r, separators=(",", ":")) + "\n")


def b2s(arr):
    """byte array -> printable python repr for messages"""
    try:
        return repr(bytes(arr))
    except Exception:
        return repr(arr)


def main(checks):
    """checks: dict id -> function(run)."""
    import argparse
    ap = argparse.ArgumentParser()
    ap.add_argument("prop")
    ap.add_argument("--tier", default=os.environ.get("VERIF_TIER", "quick"), choices=["quick", "thorough"])
    ap.add_argument("--replay")
    a = ap.parse_args()
    if a.prop not in checks:
        print("no check for", a.prop, file=sys.stderr)
        sys.exit(2)
    fn, level = checks[a.prop]
    run = Run(a.prop, a.tier, level)
    try:
        fn(run)
        rc = run.finish()
    except Inconclusive as e:
        print("INCONCLUSIVE %s: %s" % (a.prop, e), file=sys.stderr)
        crash = rare_crash(str(e))
        if crash:
            # the real code aborted the driver process: whatever the specification demanded of that call was not delivered
            run.violation("process:crash:%s" % crash[1],
                          "the code under test aborted the conformance driver: %s in %s\n%s" % crash, {"stderr": str(e)[-6000:]})
        if run.violations:
            # disagreements between the real code and the specification established before the trouble stand
            print("(the check did not complete; the violations found before that point are reported)", file=sys.stderr)
            sys.exit(run.finish())
        sys.exit(2)
    sys.exit(rc)


def rare_crash(msg):
    """(header, frame, excerpt) if msg holds a Go runtime abort (panic / fatal error) whose first frame that belongs
    either to the program under test (package path rare/...) or to the harness is the program's, else None. Frames of the
    Go runtime and the standard library in between are skipped: a panic inside strings.Repeat is its caller's."""
    m = re.search(r"^(panic: .*|fatal error: .*)$", msg, re.M)
    if not m:
        return None
    for ln in msg[m.end():].splitlines():
        if ln.startswith(("rare/pkg/", "rare/cmd/", "rare.")) and "(" in ln:
            return (m.group(1)[:300], ln.split("(")[0][:120], msg[m.start():m.start() + 1500])
        if ln.startswith(("verifharness/", "main.")):
            return None
    return None


# ------------------------------------------------------------------ shared helpers for checks
def vfj_lines(out):
    """JSON values printed by TLC through PrintT("VFJ " \\o ToJson(x))."""
    res = []
    for line in out.splitlines():
        if line.startswith('"VFJ '):
            try:
                res.append(json.loads(json.loads(line)[4:]))
            except Exception:
                pass
    return res


def parallel(jobs, n=4):
    """run callables in threads; re-raise the first exception."""
    from concurrent.futures import ThreadPoolExecutor
    with ThreadPoolExecutor(max_workers=n) as ex:
        futs = [ex.submit(j) for j in jobs]
        return [f.result() for f in futs]


def require_clean(run, r, what):
    """A B3 run must finish without any violated invariant/property; a violation of the MODEL is
    a specification error or design finding, never directly a code verdict -> inconclusive."""
    if r.violated or r.errors or not r.finished:
        raise Inconclusive("model check of %s did not pass: violated=%s errors=%s\n%s" % (
            what, r.violated, r.errors[:3], r.out[-3000:]))


def validate_traces(run, module, trace_path, invariants=("Final",), label=None, timeout=1800, xmx="8g"):
    """B2: run the total trace spec `module` (TSpec, Final writes bad.json) over trace_path.
    Returns (bad, records) where bad = [{t, l}] rejected traces."""
    cfg = "SPECIFICATION TSpec\nINVARIANTS %s\nCHECK_DEADLOCK FALSE\n" % " ".join(invariants)
    r = run.tlc(module, cfg, files=[("trace.ndjson", trace_path)], workers=1, timeout=timeout,
                label=label or module, xmx=xmx)
    if r.violated or r.errors:
        raise Inconclusive("trace validation %s failed to run: %s %s\n%s" % (module, r.violated, r.errors[:3], r.out[-3000:]))
    res = r.json_out("bad.json")
    if res is None:
        raise Inconclusive("trace validation %s wrote no result\n%s" % (module, r.out[-3000:]))
    return res, r


def tlaps(run, module, timeout=1500, threads=4):
    """Checks the TLAPS proof in spec/<module>.tla with tlapm (in a private scratch copy). Returns the number of proof
    obligations, all proved; anything else (tool missing, timeout, an unproved obligation) is a problem of the proof or
    of the tooling, never of the code: Inconclusive. The count is added to the evidence."""
    root = os.path.dirname(os.path.dirname(os.path.abspath(__file__)))
    d = os.path.join(run.scratch, "tlaps-" + module)
    os.makedirs(d, exist_ok=True)
    shutil.copy(os.path.join(root, "spec", module + ".tla"), d)
    try:
        p = subprocess.run(["tlapm", "--threads", str(threads), module + ".tla"], cwd=d, capture_output=True, text=True, timeout=timeout)
    except (subprocess.TimeoutExpired, FileNotFoundError) as e:
        raise Inconclusive("tlapm %s did not finish: %s" % (module, e))
    m = re.search(r"All (\d+) obligations? proved", p.stdout + p.stderr)
    if not m:
        raise Inconclusive("TLAPS did not prove %s.tla: %s" % (module, (p.stdout + p.stderr)[-1500:]))
    n = int(m.group(1))
    run.cov.setdefault("tlaps", {})[module] = n
    return n


def trace_slice(trace_path, tid):
    """lines of the trace with id tid (from its reset line to the next reset)."""
    out, on = [], False
    with open(trace_path) as f:
        for line in f:
            if '"event":"reset"' in line:
                on = json.loads(line).get("t") == tid
            if on:
                out.append(line)
    return "".join(out)

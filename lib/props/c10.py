"""C10 - optimisation and user-defined (funcs-file) functions never change an expression's value."""
import json
import os
from vf import Inconclusive, parallel, require_clean, validate_traces, vfj_lines

CLAIM = {
    "text": "ExprOpt.tla has two layers. Abstract: ValT(template, context, clock, definitions) is the documented value of an expression tree "
            "(scalar helpers through C11's ExprScalar, {time now|live|delta} read a clock, a funcs-file function IS substitution: the body with {i} "
            "replaced by the i-th argument, missing arguments empty, named keys resolved in the caller's match, later definitions calling earlier "
            "ones) - optimisation does not exist at this level. Implementation-shaped: CompT/ExecT written like pkg/expressions (stages, "
            "EvalStaticStage = evaluation against the all-empty look-up counting context, optimize() folding zero-look-up stages and merging "
            "adjacent constants, typed pre-parsing of constant integer operands, compile-time arguments of bucket/clamp, the context touch of "
            "time live/delta, lazySubContext with lazily evaluated arguments and forwarded touches). TLC proves on the model, for every tree of "
            "depth <= 2 over typed, strict, lazy, compile-time-argument, volatile helpers and six funcs-file functions with constant/dynamic/mixed "
            "arguments, every stage sequence of length <= 3, and every context over {'',0,7,a} incl. the probe context: Exec(Comp(optimise)) = "
            "Exec(Comp(plain)); both satisfy ValT; a stage the probe found constant has that value in every context; a call runs like its "
            "substituted body; a volatile stage is never folded - and that the model REJECTS a helper that looks at its data before touching the "
            "context and a sub-context that swallows the touch. FuncFile.tla: the loader as a state machine over physical lines (one action per "
            "scanner.Scan(), EOF inside a continuation) against the declarative Meaning of a file (comment stripping, blank lines, `\\` "
            "continuation, `\\ # comment`, name/body split): TLC checks equality for every file of <= N lines over 14 line forms, the "
            "documentation's example, and that 864 layouts of each of five definitions all load to that definition. ExprCallPool.tla: the pooled per-call "
            "argument contexts (Get / sub = caller / lazy argument evaluation in the caller's context / Return) for W goroutines sharing the call "
            "sites: every read reaches the reader's own match, no object held twice, none leaked; without the mutex, with an early Return or "
            "without the initialisation TLC finds the counter-example. Binding B1: TLC prints every tree as template text with the abstract value "
            "per context (clock readings symbolic) and funcs files in generated layouts; the real compiler evaluates them with "
            "NewKeyBuilderEx(true) and (false) as histories on one compiled expression, files are written to disk and loaded with "
            "funcfile.LoadDefinitionsFile, the substituted body text must give the same value, clock readings are checked against the real clock "
            "again 1.2 s later, a sample runs through `rare --funcs f expression` with and without --no-optimize. B2: law records over ALL "
            "registered helpers x arities x argument shapes (constant, {i}, {key}, constant fall-back, literal+group, nested constant call, through "
            "a funcs-file function) as histories (optimised = unoptimised = freshly compiled), random funcs files in random layouts (call = inlined "
            "body), W in {2,8} goroutines on one compiled expression (concurrent = sequential), the command line, and clock-reading expressions "
            "at top level, in funcs-file functions, @map/@filter/@reduce/@for bodies and nested calls evaluated twice >= 1.2 s apart - all judged "
            "by the total trace specification ExprOpt_Trace. ESCAPES (strengthened): every law is stated on the TEXT of the tree. ExprOpt.tla has the "
            "compiler's reading of a text (escape scanner `\\x` -> unescape(x) also inside statements, brace depth, argument splitter = C09's X!SplitM, "
            "recursive Compile of every argument in the same mode; agreement with C09's parse model X!CompileF is checked) and a printer over tagged text "
            "that undoes each level (Compile / splitter quoted / splitter unquoted), with 18 writing styles (quoting x where LF TAB CR are resolved: "
            "own level = 1, 4, 16 backslashes at depth 0, 1, 2 | raw | outermost level x needless escapes \\\" \\} \\a \\.). Groups e0 e1 e2 eu put literals "
            "holding LF, TAB, backslash, `\\n` as two characters, braces, quotes, blanks at the top level (with and without statements), into arguments "
            "(quoted / unquoted / mixed with {0}), two levels deep, into funcs-file bodies (u7 {0}\\t{1}, u8 with an escape inside an argument of its "
            "body, u9 without any statement) and into arguments of funcs-file calls: TLC proves L0 text denotes the tree, L1 optimised = unoptimised, "
            "L2 = ValT, L4 call = TEXT of the substituted body under both compilers; SkipUnesc = opt / noopt (a template without `{` taken as a literal "
            "as it stands by ONE of the two compilers) is refuted in every group kind. FuncFile: line forms ending in 0, 1, 2, 3 backslashes (with "
            "trailing blanks / comment), `\\#`, lines starting with backslashes; layouts cut after every backslash run / every backslash / the first "
            "of a run, continuation mark followed directly by `#`; TrimAll = TRUE (TrimRight instead of TrimSuffix) is refuted on files, prefixes and "
            "layouts. B1 additionally compares, case by case, optimised / unoptimised / reverse history / inlined body under both compilers / every "
            "layout against one-definition-per-line (relations the model proves), demands the value itself only where escapes stand in top-level "
            "literal text (documented), and sends every 10th escape vector through the CLI with and without --no-optimize. "
            "FAILING DEFINITIONS (strengthened): the loader machine compiles every definition (C09's parse model under the function table of that moment: "
            "builtins + definitions registered so far); a body with an unknown function (misspelt helper, call of a definition that failed or comes later), "
            "an unterminated or an empty statement is reported and skipped, the loader goes on, and everything that compiled is delivered to the function "
            "table: InvRegs (at every step), InvKeepsGood (what is delivered = every definition of Meaning(file) that compiles in its place), InvIndep (the "
            "failing ones are as if not written) over every file of <= N lines incl. five such line forms; OnError = dropall (nothing delivered when any "
            "definition failed) and stop (give up at the first) are refuted. B1: 18 (72) generated files holding u1..u9 in generated layouts plus one or two "
            "failing definitions before / between / after them (incl. a failing re-definition of u1): names delivered = LoadC, every call vector evaluated "
            "against them = the value with the canonical file, and `rare --funcs f` / RARE_FUNC_FILES=f on such files; B2: every second random funcs file "
            "holds 1-3 failing definitions (also wrong argument counts). "
            "THE PROBE IS AN EVALUATION (strengthened): ExprProbe.tla models the process - compile (with optimisation: one evaluation of every expression "
            "against the all-empty context, on the exit path THAT context forces: no element, or the iteration cap of a {@for} whose start or bound comes from "
            "the match) and then G goroutines evaluating nested array helpers that take their sub-context from the one process-wide pool (Get, re-initialise, "
            "bind element, {0} / key look-ups, nested helpers, {0} again, Return). Laws in both modes and for LIFO and FIFO pools: OwnValues (every look-up "
            "answered with the asking activation's own element / line = the pool-free semantics), ProbeNeutral (compilation leaves every object in the pool "
            "exactly once), Exclusive, Survives, Conserved, termination. ExprProbeScn.tla makes it concrete: 11 expressions (6 run away under the probe, 3 "
            "see no element, 2 end) x 4 witnesses (nested 1-3 deep) as ExprArray trees; Shape/ProbeExit compute the model's activation shapes from the trees "
            "(declared shapes = computed shapes is checked). Refuted: an exit path (for/inf, map/zero, filter/err) that returns its object twice - with "
            "optimisation; WITHOUT optimisation the same deviation satisfies every law, i.e. the two modes differ. B1: every scenario runs in two fresh child "
            "processes (optimising / plain compiler): p and w on 4 lines twice sequentially, then from 8 goroutines; every value = ExprArray!EvalT's value in "
            "both processes, the processes agree, neither dies. B2: random processes with data-bounded loops and nested witnesses, law proc-opt-noopt. "
            "THE MOMENT A DEFINITION IS COMPILED (strengthened): ExprStartup.tla models a run as a start-up script - apply the global switches (--noformat, "
            "--color/--nocolor, --noload, --nounicode), load the funcs files in the order given with ONE compiler, definition by definition (compile the body, always "
            "optimising; register the name), compile the expression (optimising or not), evaluate. Two things in force at the moment a body is compiled are "
            "frozen into it: the function table (a call inside a body is resolved when the body is compiled, to the latest definition that compiled before it; "
            "a re-definition further down or in a second file changes what the expression and later definitions see, never an earlier body) and the environment "
            "(helpers read process-wide switches when they are evaluated; the optimiser evaluates constant parts of a body while the file is loaded). Abstract "
            "layer: Expected = ValP(Inline(expr)) - every funcs-file call replaced by the body of the latest good definition before that place, {i} by the "
            "arguments, evaluated in the RUN's environment; a compile error when the inlined text does not compile there ({load} under --noload). "
            "Implementation-shaped layer: Comp (names resolved now, whatever a probe with the all-empty counting context finds constant folded now, under the "
            "environment of now; optionally a text -> compiled memory) and ExecT (bound definitions, lazy argument frames, look-up count). TLC proves Agrees "
            "(out = Expected, optimising or not), BindsAtDefinition, FoldsUnderRunEnv over 7 switch sets x hand-written funcs files with flag-dependent constants ({hi N}, "
            "{color c x}, {load f}, {bar v max len}, nested, a later definition calling an earlier one with such a constant) and re-definitions (inside one file, across two "
            "files, identically spelt bodies and arguments before and after, a failing re-definition) x calls with a constant, {0} and an empty argument, and over EVERY history of <= 2 (3; 4 over five entries) definitions "
            "drawn from a pool (two spellings of the helper, two identically spelt callers, a wrapped re-definition of a caller, a caller of the caller, a helper "
            "with a flag-dependent constant, a failing re-definition) as one file and split into two files at every position; "
            "refuted: Order = funcs-first (files loaded before the switches are applied) and Cache = text (the compiler remembers compiled texts across "
            "registrations). B1: every scenario through the real command line `rare <switches> --funcs f1 [--funcs f2] expression [--no-optimize]` and "
            "RARE_FUNC_FILES=f1,f2, the inlined text under the same switches, and in-process the way main.go registers them. ExprCallPool.tla: the end of a call "
            "is an ORDER of steps (Get / bind caller / evaluate / [clear] / Return): Clear = before is equivalent to the code, Clear = after (Return, then drop "
            "the caller reference - two deferred calls in source order) satisfies every value law for ONE evaluator and violates SeesOwn for two. B1: one "
            "funcs-file call site (a body calling an earlier definition twice, arguments read three times each) compiled once in a child process and evaluated "
            "from 16 and 64 goroutines, each on its own line with TLC's value for that line, 20 000 (200 000) rounds, optimising and plain compiler; a child "
            "that dies with a rare frame or any foreign / missing value is a violation.",
    "note": "Probe scenarios: activation shapes abstract one element per activation; the exit path of a NESTED helper under the probe is computed with "
            "empty elements; ExprProbe models only the process-wide sub-context pool (the per-call-site pools of funcs-file functions are ExprCallPool's, "
            "the per-stage pools of {! ..} are exercised by conc-seq on optimised expressions); the contended call site samples real interleavings for a fixed "
            "number of rounds (the enumeration is on the model); start-up scenarios cover --noformat / --color / --nocolor / --noload / --nounicode with hi, color, load and "
            "empty / full bars (partial blocks, hf, bytesize .. are not modelled; --notrim does not reach expressions); a funcs-file name shadowing a builtin is outside; a pool that merely grows (leak) is not demanded. Failing definitions: wrong argument counts are not in the "
            "parse model (B2 only); what the loader's error value says is not demanded. "
            "Bounded: trees of depth <= 2, values over {'',0,7,a}, the modelled helper subset in B3/B1 (the law records of B2 cover every "
            "registered helper but only relate two observations). Outside the substitution law: bodies that re-bind {0} in a nested "
            "sub-expression (@map \"{0}\"); '#' inside a definition (always a comment), a body ending in a backslash; for escapes inside arguments only the relations of the property are demanded of the real code (their value is C09's subject). hist-fresh is not demanded of time/buckettime, "
            "whose documented 'cache' format remembers the first detected layout. Records in which both sides panic or the command reports a "
            "compile error are C08's subject. Real goroutine interleavings are sampled (the enumeration is on the model); the race detector "
            "runs in the thorough tier. Trusted: TLC, the Go runtime and clock, C11's scalar specification, urfave/cli argument handling.",
    "technique": "TLA+ abstract + implementation-shaped specification of the optimiser and of funcs-file calls, loader state machine and pooled-"
                 "context state machine model-checked with TLC (with negative controls) + model-generated vectors and funcs-file layouts replayed "
                 "on the real code + TLC validation of recorded law observations",
}


def _mc_cfg(thorough, withbad=False, fixed=True, inv="LawOK LawVolatile", init="Init", skip="none"):
    return ("INIT " + init + "\nNEXT Next\nCONSTANTS Thorough = %s\n WithBad = %s\n Fixed = %s\n SkipUnesc = \"%s\"\nINVARIANTS %s\nCHECK_DEADLOCK FALSE\n"
            % (_b(thorough), _b(withbad), _b(fixed), skip, inv))


def _b(x):
    return "TRUE" if x else "FALSE"


def _gen_cfg(thorough, nfiles):
    return ("INIT GInit\nNEXT GNext\nCONSTANTS Thorough = %s\n WithBad = FALSE\n Fixed = TRUE\n SkipUnesc = \"none\"\n NFiles = %d\nINVARIANTS Dump\nCHECK_DEADLOCK FALSE\n"
            % (_b(thorough), nfiles))


def _ff_cfg(n, mode, trimall=False, inv="InvLineCount InvNoLeak InvPrefix InvDone InvLayout InvRuns InvRegs InvKeepsGood InvIndep", onerror="skip"):
    return ("SPECIFICATION Spec\nCONSTANTS N = %d\n Mode = \"%s\"\n TrimAll = %s\n OnError = \"%s\"\n Builtins <- MCBuiltins\nINVARIANTS %s\n"
            "PROPERTY Terminates\nCHECK_DEADLOCK FALSE\n" % (n, mode, _b(trimall), onerror, inv))


def _probe_cfg(case, pis, wis, opts=(True, False), evalp=False, g=2, fifo=False, double=(), leak=(), noreset=(), runinf=False,
               inv="PTypeOK OwnValues Survives Exclusive ProbeNeutral Conserved Agree", live=False):
    st = lambda xs: "{" + ", ".join(str(x) for x in xs) + "}"
    qs = lambda xs: "{" + ", ".join('"%s"' % x for x in xs) + "}"
    return ("SPECIFICATION MCSpec\nCONSTANTS Case = \"%s\"\n PIs = %s\n WIs = %s\n Opts = %s\n EvalP = %s\n G = %d\n N = 1\n PoolSize = 2\n MaxObj = 9\n"
            " Fifo = %s\n RunInf = %s\n Double = %s\n Leak = %s\n NoReset = %s\nINVARIANTS %s\n%sCHECK_DEADLOCK FALSE\n"
            % (case, st(pis), st(wis), st(_b(o) for o in opts), _b(evalp), g, _b(fifo), _b(runinf), qs(double), qs(leak), qs(noreset), inv,
               "PROPERTY Terminates\n" if live else ""))


def _pool_cfg(w, j, p, prog, locked=True, early=False, init=True, inv="TypeOK SeesOwn Exclusive NoLeak Bounded", clear="none"):
    return ("SPECIFICATION Spec\nCONSTANTS W = %d\n J = %d\n P = %d\n Sites <- Sites%s\n Body <- Body%s\n Args <- Args%s\n Main <- Main%s\n"
            " Locked = %s\n EarlyReturn = %s\n InitSub = %s\n Clear = \"%s\"\nINVARIANTS %s\nCHECK_DEADLOCK FALSE\n"
            % (w, j, p, prog, prog, prog, prog, _b(locked), _b(early), _b(init), clear, inv))


def _su_cfg(order="flags-first", cache="none", scn="MCScenariosQ", inv="Agrees BindsAtDefinition FoldsUnderRunEnv", live=True):
    return ("SPECIFICATION Spec\nCONSTANTS Order = \"%s\"\n Cache = \"%s\"\n Scenarios <- %s\nINVARIANTS %s\n%sCHECK_DEADLOCK FALSE\n"
            % (order, cache, scn, inv, "PROPERTY Terminates\n" if live else ""))


def check(run):
    try:
        _check(run)
    except Inconclusive:
        raise
    except Exception as e:  # infrastructure trouble is never a verdict
        import traceback
        raise Inconclusive("c10 check failed: %s\n%s" % (e, traceback.format_exc()))


def _check(run):
    quick = run.tier == "quick"
    run.assumptions += [
        "a funcs-file call is substitution: {name a1 .. an} = body with {i} replaced by the text of a_(i+1), missing arguments empty, named keys "
        "from the caller's match; bodies that re-bind {0} in a nested sub-expression are outside this law",
        "{time now} is the compile time (of the expression, or of the funcs file for a body); {time live} the evaluation time; {time delta} "
        "evaluation time minus compile time; the driver checks the readings against windows of its own clock readings (whole seconds)",
        "a value is a function of template and context; the documented exception is the 'cache' date format of time/buckettime (first "
        "detected layout is remembered) - for these only optimised = unoptimised along the same history is demanded",
        "the law records relate two observations of the real code; records where both evaluations panic or the command line reports a compile "
        "error on both sides are outside this property (C08)",
        "funcs-file layouts: names without blanks, no '#', raw TAB/LF or backslash-final text in a definition (escapes \\t \\n \\\\ \\{ inside bodies are generated); a definition whose body "
        "has a compile error is refused (reported, skipped); the other definitions of that file are delivered - the unchanged loader goes on after a bad "
        "definition and main.go registers what it is handed even when the loader reports errors; the documentation is silent, the property speaks of every "
        "function loaded from a funcs file",
        "the optimiser's probe may take any time, but it may not change what a later evaluation in the same process answers; expressions whose loop "
        "runs away on REAL data are outside (C08)",
        "definition-time binding: a call inside a funcs-file body is bound to the definition in force where the body is defined (what the unchanged "
        "compiler does: names are resolved when a text is compiled); 'the body written inline' is therefore read as inline AT THE PLACE OF THE DEFINITION; "
        "for names that are not re-defined later this is the body written inline in the expression itself, which is what the command-line comparison runs",
        "global switches are read at evaluation time; the default environment of a run whose output is a pipe has colour off, formatting on, loading on",
        "command-line sample: group values that urfave/cli would split, trim or drop (commas, surrounding blanks, empty) are not sent through the CLI",
    ]
    run.build_harness()
    cli = run.build_cli()
    vec_path = os.path.join(run.scratch, "c10-vectors.ndjson")
    res_path = os.path.join(run.scratch, "c10-replay.json")
    law_trace = os.path.join(run.scratch, "c10-law-trace.ndjson")
    law_info = os.path.join(run.scratch, "c10-law-info.ndjson")
    law_sum = os.path.join(run.scratch, "c10-law-summary.json")
    fdir = os.path.join(run.scratch, "c10-files")
    ldir = os.path.join(run.scratch, "c10-lawfiles")
    os.makedirs(fdir, exist_ok=True)
    os.makedirs(ldir, exist_ok=True)
    nfiles = 40 if quick else 432

    # ---- B3 (a): the optimisation laws on the model
    def laws():
        r = run.tlc("ExprOpt_MC", _mc_cfg(not quick), workers=4 if quick else 8, timeout=3000, label="ExprOpt_MC laws Thorough=%s" % (not quick))
        require_clean(run, r, "ExprOpt_MC (laws)")
        if r.distinct < 10000:
            raise Inconclusive("law check explored only %d trees" % r.distinct)
        run.cov["b3_trees"] = r.distinct
        return r

    # ---- B3 (a'): the model must reject a helper that reads its data before touching the context, and a swallowed touch
    def negatives():
        neg = {}
        for name, kw in [("helper-branches-before-touching-the-context", dict(withbad=True)), ("sub-context-swallows-the-touch", dict(fixed=False))]:
            r = run.tlc("ExprOpt_MC", _mc_cfg(False, inv="LawOK", init="InitNeg", **kw), workers=1, timeout=1500, label="ExprOpt_MC negative: " + name)
            if "LawOK" not in r.violated:
                raise Inconclusive("ExprOpt does not reject %s (violated=%s)\n%s" % (name, r.violated, r.out[-1500:]))
            neg[name] = "LawOK violated"
        # a compiler that skips the unescape step for a template without `{` (one of the two modes only) must be refuted by
        # optimised = unoptimised (L1) in every kind of escape group: top level, arguments, two levels, funcs-file bodies/calls
        for skip in ("opt", "noopt"):
            for kind in ("E0", "E1", "E2", "EU"):
                if quick and skip == "noopt" and kind in ("E1", "E2"):
                    continue
                name = "unescape-skipped-by-the-%s-compiler/%s" % ("optimising" if skip == "opt" else "plain", kind.lower())
                r = run.tlc("ExprOpt_MC", _mc_cfg(False, inv="LawL1", init="Init" + kind, skip=skip), workers=1, timeout=1500, label="ExprOpt_MC negative: " + name)
                if "LawL1" not in r.violated:
                    raise Inconclusive("ExprOpt does not reject %s (violated=%s)\n%s" % (name, r.violated, r.out[-1500:]))
                neg[name] = "LawL1 violated"
        run.cov["model_rejects"] = neg
        # the loader that drops every trailing backslash of a continuation line (TrimRight) must be refuted
        lneg = {}
        for name, mode, inv in [("loader-drops-all-trailing-backslashes/files", "lines", "InvDone"), ("loader-drops-all-trailing-backslashes/prefix", "lines", "InvPrefix"),
                                ("loader-drops-all-trailing-backslashes/layouts", "layout", "InvLayout")]:
            r = run.tlc("FuncFile_MC", _ff_cfg(2 if mode == "lines" else 1, mode, trimall=True, inv=inv).replace("PROPERTY Terminates\n", ""), workers=1, timeout=900,
                        label="FuncFile_MC negative: " + name)
            if inv not in r.violated:
                raise Inconclusive("FuncFile does not reject %s (violated=%s)\n%s" % (name, r.violated, r.out[-1500:]))
            lneg[name] = inv + " violated"
        # a loader that hands back nothing when ANY definition failed (`return nil, err`), or gives up at the first failing
        # definition, must be refuted by "every definition that compiles in its place is delivered"
        for name, oe in [("one-failing-definition-loses-all-of-the-file", "dropall"), ("loader-stops-at-the-first-failing-definition", "stop")]:
            r = run.tlc("FuncFile_MC", _ff_cfg(2, "lines", inv="InvKeepsGood", onerror=oe).replace("PROPERTY Terminates\n", ""), workers=1, timeout=900,
                        label="FuncFile_MC negative: " + name)
            if "InvKeepsGood" not in r.violated:
                raise Inconclusive("FuncFile does not reject %s (violated=%s)\n%s" % (name, r.violated, r.out[-1500:]))
            lneg[name] = "InvKeepsGood violated"
        run.cov["loader_model_rejects"] = lneg

    # ---- B3 (b): the loader
    def loader():
        n = 3 if quick else 4
        r = run.tlc("FuncFile_MC", _ff_cfg(n, "lines"), workers=2 if quick else 4, timeout=3000, label="FuncFile_MC lines N=%d" % n, coverage=quick)
        require_clean(run, r, "FuncFile_MC lines")
        if quick:
            for act in ("FuncFile.Scan", "FuncFile.Eof", "FuncFile.Emit"):
                if act in r.coverage and r.coverage[act][0] == 0:
                    raise Inconclusive("loader action %s never taken" % act)
        run.cov["b3_loader_states"] = r.distinct

    def loader_layout():
        r2 = run.tlc("FuncFile_MC", _ff_cfg(1, "layout", inv="InvLineCount InvNoLeak InvPrefix InvDone InvLayout InvRuns InvKeepsGood").replace("PROPERTY Terminates\n", ""),
                      workers=2 if quick else 4, timeout=3000, label="FuncFile_MC layout law")
        require_clean(run, r2, "FuncFile_MC layout")
        if r2.distinct < 50000:
            raise Inconclusive("layout law explored only %d states" % r2.distinct)
        run.cov["b3_loader_layout_states"] = r2.distinct

    # ---- B3 (c): pooled per-call contexts
    def pools():
        cfgs = [(2, 2, 1, "Flat"), (2, 2, 1, "NestS"), (2, 1, 1, "Reent"), (3, 1, 2, "Key")] if quick else \
               [(2, 2, 1, "Flat"), (3, 2, 1, "Flat"), (2, 2, 1, "NestS"), (2, 1, 1, "Nest"), (2, 2, 1, "Reent"), (2, 2, 2, "Key"), (3, 1, 2, "Key"),
                (2, 1, 5, "Nest")]
        total = 0
        for (w, j, p, prog) in cfgs:
            r = run.tlc("ExprCallPool_MC", _pool_cfg(w, j, p, prog), workers=2, timeout=3000, label="ExprCallPool W=%d J=%d P=%d %s" % (w, j, p, prog))
            require_clean(run, r, "ExprCallPool W=%d J=%d P=%d %s" % (w, j, p, prog))
            total += r.distinct
        if total < 50000:
            raise Inconclusive("call-pool model explored only %d states" % total)
        # the end of a call as an order of steps: dropping the caller reference BEFORE the object goes back is as good as not dropping it
        r = run.tlc("ExprCallPool_MC", _pool_cfg(2, 2, 1, "Flat", clear="before"), workers=2, timeout=3000, label="ExprCallPool W=2 J=2 P=1 Flat Clear=before")
        require_clean(run, r, "ExprCallPool Clear=before")
        total += r.distinct
        # .. and dropping it AFTER (two deferred calls in source order) is invisible to ONE evaluator (values and pool are fine) ..
        r = run.tlc("ExprCallPool_MC", _pool_cfg(1, 2, 1, "Reent", clear="after", inv="SeesOwn NoLeak"), workers=1, timeout=900,
                    label="ExprCallPool control: cleared after Return, one goroutine")
        require_clean(run, r, "ExprCallPool (clear-after-Return cannot be seen by a single evaluator)")
        neg = {}
        for name, inv, kw in [("get-without-mutex", "Exclusive", dict(locked=False)), ("returned-before-the-body", "SeesOwn", dict(early=True)),
                              ("cleared-after-return/two-goroutines-one-site", "SeesOwn", dict(clear="after")),
                              ("returned-before-the-body/one-goroutine-re-entrant-site", "Exclusive", dict(early=True)),
                              ("no-initialisation", "SeesOwn", dict(init=False))]:
            w, j = (1, 2) if name == "no-initialisation" else (1, 1) if "re-entrant" in name else (2, 1)
            prog = "Reent" if "re-entrant" in name else "Flat"
            r = run.tlc("ExprCallPool_MC", _pool_cfg(w, j, 1, prog, inv=inv, **kw), workers=1, timeout=900, label="ExprCallPool negative: " + name)
            if inv not in r.violated:
                raise Inconclusive("ExprCallPool does not reject %s (violated=%s)\n%s" % (name, r.violated, r.out[-1500:]))
            neg[name] = inv + " violated"
        run.cov["pool_model_rejects"] = neg
        run.cov["b3_pool_states"] = total

    # ---- B3 (d): the optimiser's probe is an evaluation (ExprProbe)
    def probe_model():
        def run_one(spec):
            case, pis, wis, kw = spec
            lab = "ExprProbe_MC %s P=%s W=%s %s" % (case, pis, wis, kw)
            r = run.tlc("ExprProbe_MC", _probe_cfg(case, pis, wis, **kw), workers=2 if quick else 3, timeout=3000, label=lab)
            require_clean(run, r, lab)
            return r.distinct

        def agree():
            r = run.tlc("ExprProbe_MC", _probe_cfg("agree", [1], [1], opts=(False,), g=1), workers=1, timeout=900, label="ExprProbe_MC shapes = Shape(trees)")
            require_clean(run, r, "ExprProbe_MC (declared shapes agree with ExprProbeScn!Shape)")
            return 0

        runs = [("scn", [1, 5, 6, 8], [1, 2], dict()), ("abs", [0], [1], dict(fifo=True))] if quick else \
               [("scn", list(range(1, 12)), [1, 2, 3, 4], dict()), ("scn", [1], [1, 2], dict(evalp=True, live=True)),
                ("scn", [1, 6, 8], [1, 4], dict(fifo=True)), ("abs", [0], [1, 2, 3], dict(fifo=True)), ("abs", [0], [1, 3], dict(live=True)),
                ("scn", [1], [4], dict(g=3)), ("abs", [0], [1], dict(runinf=True))]

        def negs():
            neg = {}
            # a helper exit path that hands its object back twice: reachable through the probe only -> the optimising process
            # breaks OwnValues / ProbeNeutral, the plain process satisfies every law (that difference IS the violation of C10)
            cases = [("for-bail-out-returns-twice", "scn", [1], [1], ["for/inf"], "OwnValues"),
                     ("for-bail-out-returns-twice/two-workers-flat-map", "scn", [2], [4], ["for/inf"], "OwnValues"),
                     ("map-over-nothing-returns-twice", "scn", [7], [1], ["map/zero"], "OwnValues")]
            if not quick:
                cases += [("for-bail-out-returns-twice/pool", "scn", [1], [4], ["for/inf"], "ProbeNeutral"),
                          ("filter-error-path-returns-twice", "abs", [0], [2], ["filter/err"], "OwnValues")]
            for name, case, pis, wis, dbl, inv in cases:
                r = run.tlc("ExprProbe_MC", _probe_cfg(case, pis, wis, opts=(True,), double=dbl, inv=inv), workers=1, timeout=900,
                            label="ExprProbe_MC negative (optimising): " + name)
                if inv not in r.violated:
                    raise Inconclusive("ExprProbe does not reject %s (violated=%s)\n%s" % (name, r.violated, r.out[-1500:]))
                neg[name] = inv + " violated with optimisation"
            r = run.tlc("ExprProbe_MC", _probe_cfg("scn", [1], [1], opts=(False,), double=["for/inf"]), workers=1, timeout=900,
                        label="ExprProbe_MC control: for/inf returns twice, --no-optimize")
            require_clean(run, r, "ExprProbe_MC (the deviation is unreachable without the probe)")
            neg["for-bail-out-returns-twice"] += "; every law holds without optimisation"
            if not quick:
                # not demanded of the code: an exit path that does not return its object only makes the pool allocate (values are fine)
                r = run.tlc("ExprProbe_MC", _probe_cfg("scn", [1], [1], opts=(True,), leak=["for/inf"], inv="OwnValues Survives Exclusive"), workers=1,
                            timeout=900, label="ExprProbe_MC control: for/inf leaks its object")
                require_clean(run, r, "ExprProbe_MC (a leak does not change a value)")
            run.cov["probe_model_rejects"] = neg
            return 0

        if quick:
            res = parallel([agree, negs] + [(lambda sp=sp: run_one(sp)) for sp in runs], 4)
        else:
            res = [agree(), negs()] + parallel([(lambda sp=sp: run_one(sp)) for sp in runs], 2)
        total = sum(res)
        if total < 100000:
            raise Inconclusive("probe model explored only %d states" % total)
        run.cov["b3_probe_states"] = total

    probe_path = os.path.join(run.scratch, "c10-probe-vectors.ndjson")
    su_path = os.path.join(run.scratch, "c10-startup-vectors.ndjson")
    su_res = os.path.join(run.scratch, "c10-startup.json")

    # ---- B3 (e) + generator: the moment a definition is compiled (ExprStartup)
    def startup_model():
        scn = "MCScenariosQ" if quick else "MCScenariosT"     # hand-written files + every history of <= 2 (3; 4 over a smaller pool) definitions
        r = run.tlc("ExprStartup_Gen", "INIT GInit\nNEXT GNext\nCONSTANTS Order = \"flags-first\"\n Cache = \"none\"\n Scenarios <- %s\n"
                    "INVARIANTS Dump\nCHECK_DEADLOCK FALSE\n" % scn, workers=2 if quick else 3, timeout=1800, label="ExprStartup_Gen " + scn)
        if r.violated or r.errors or not r.finished:
            raise Inconclusive("start-up generator failed: %s" % r.out[-2000:])
        n = 0
        with open(su_path, "w") as f:
            for v in vfj_lines(r.out):
                f.write(json.dumps(v, separators=(",", ":")) + "\n")
                n += 1
        if n < 200:
            raise Inconclusive("start-up generator produced only %d scenarios" % n)
        if not quick:
            startup_laws()
        return n

    def startup_laws():
        scn = "MCScenariosQ" if quick else "MCScenariosT"
        # (quick: BindsAtDefinition - implied by Agrees on the calls of every defined name - is left to the thorough tier)
        r = run.tlc("ExprStartup_MC", _su_cfg(scn=scn, inv="Agrees FoldsUnderRunEnv" if quick else "Agrees BindsAtDefinition FoldsUnderRunEnv"), workers=2 if quick else 3, timeout=1800, label="ExprStartup_MC laws " + scn)
        require_clean(run, r, "ExprStartup_MC (laws)")
        if r.distinct < 3000:
            raise Inconclusive("start-up model explored only %d states" % r.distinct)
        run.cov["b3_startup_states"] = r.distinct
        neg = {}
        for name, kw, inv in [("funcs-files-loaded-before-the-switches-are-applied", dict(order="funcs-first", scn="NegEnv"), "Agrees"),
                              ("funcs-files-loaded-before-the-switches-are-applied/nounicode", dict(order="funcs-first", scn="NegEnvUni"), "Agrees"),
                              ("funcs-files-loaded-before-the-switches-are-applied/environment", dict(order="funcs-first"), "FoldsUnderRunEnv"),
                              ("compiler-remembers-texts-across-registrations", dict(cache="text", scn="NegCache"), "Agrees"),
                              ("compiler-remembers-texts-across-registrations/binding", dict(cache="text"), "BindsAtDefinition"),
                              ("compiler-remembers-texts-across-registrations/generated-histories-of-4-definitions", dict(cache="text", scn="NegCacheGen"), "Agrees")]:
            if quick and "/" in name:
                continue
            r = run.tlc("ExprStartup_MC", _su_cfg(inv=inv, live=False, **kw), workers=1, timeout=900, label="ExprStartup_MC negative: " + name)
            if inv not in r.violated:
                raise Inconclusive("ExprStartup does not reject %s (violated=%s)\n%s" % (name, r.violated, r.out[-1500:]))
            neg[name] = inv + " violated"
        run.cov["startup_model_rejects"] = neg

    def startup_replay():
        if quick:           # (quick: the model's laws run in this lane, beside the longer lanes of the second phase)
            startup_laws()
        p = run.drv(["startup", "-in", su_path, "-out", su_res, "-dir", os.path.join(run.scratch, "c10-startup-files"), "-cli", cli,
                     "-rounds", 20000 if quick else 100000, "-par", 4, "-envevery", 3 if quick else 1, "-genevery", 4 if quick else 8], check=False, timeout=2400)
        if p.returncode != 0:
            raise Inconclusive("start-up driver failed (%d):\n%s" % (p.returncode, (p.stdout + p.stderr)[-4000:]))
        return json.load(open(su_res))

    def gen_probe():
        r = run.tlc("ExprProbe_Gen", "INIT GInit\nNEXT GNext\nINVARIANTS Dump\nCHECK_DEADLOCK FALSE\n", workers=2, timeout=900, label="ExprProbe_Gen")
        if r.violated or r.errors or not r.finished:
            raise Inconclusive("probe generator failed: %s" % r.out[-2000:])
        n = 0
        with open(probe_path, "w") as f:
            for v in vfj_lines(r.out):
                f.write(json.dumps(v, separators=(",", ":")) + "\n")
                n += 1
        if n < 40:
            raise Inconclusive("probe generator produced only %d scenarios" % n)
        return n

    # ---- B1 generator
    def gen():
        r = run.tlc("ExprOpt_Gen", _gen_cfg(not quick, nfiles), workers=3 if quick else 6, timeout=3000, label="ExprOpt_Gen Thorough=%s" % (not quick))
        if r.violated or r.errors or not r.finished:
            raise Inconclusive("generator failed: %s" % r.out[-2000:])
        n = 0
        with open(vec_path, "w") as f:
            for v in vfj_lines(r.out):
                f.write(json.dumps(v, separators=(",", ":")) + "\n")
                n += 1
        if n < 10000:
            raise Inconclusive("generator produced only %d records" % n)
        return n

    # ---- B2 driver
    def law():
        args = ["law", "-out", law_trace, "-info", law_info, "-dir", ldir, "-summary", law_sum, "-cli", cli]
        if quick:
            args += ["-tuples", 3, "-extra", 3, "-funcfiles", 40, "-rounds", 300, "-clin", 50, "-probes", 6]
        else:
            args += ["-tuples", 12, "-extra", 10, "-funcfiles", 400, "-rounds", 4000, "-clin", 400, "-probes", 40]
        p = run.drv(args, check=False, timeout=2400)
        if p.returncode == 5:
            hang = [json.loads(ln[5:]) for ln in p.stdout.splitlines() if ln.startswith("HANG ")]
            if hang:
                run.violation("law:hang", "an evaluation did not return within the deadline: %s" % hang[0], hang[0])
                return None
        if p.returncode != 0:
            raise Inconclusive("law driver failed (%d):\n%s" % (p.returncode, (p.stdout + p.stderr)[-4000:]))
        return json.load(open(law_sum))

    def replay():
        with open(vec_path, "a") as f:
            f.write(open(probe_path).read())
        p = run.drv(["replay", "-in", vec_path, "-out", res_path, "-dir", fdir, "-cli", cli, "-clin", 120 if quick else 1500,
                     "-proberounds", 300 if quick else 3000], check=False, timeout=2400)
        if p.returncode == 5:
            hang = [json.loads(ln[5:]) for ln in p.stdout.splitlines() if ln.startswith("HANG ")]
            if hang:
                run.violation("b1:hang", "an evaluation did not return within the deadline: %s" % hang[0], hang[0])
                return None
        if p.returncode != 0:
            raise Inconclusive("replay driver failed (%d):\n%s" % (p.returncode, (p.stdout + p.stderr)[-4000:]))
        return json.load(open(res_path))

    def validate():
        lines = open(law_trace).read().splitlines()
        infos = [json.loads(x) for x in open(law_info).read().splitlines()]
        if len(lines) != len(infos) or len(lines) < 1000:
            raise Inconclusive("law trace has %d records, info %d" % (len(lines), len(infos)))
        # canary: corrupted copies of real records must be rejected
        ncan = 0
        canary = []
        for ln in lines:
            rec = json.loads(ln)
            if rec["kind"] == "eq" and not rec["pa"] and not rec["pb"] and rec["a"] == rec["b"] and ncan < 150:
                rec["a"] = rec["a"] + [48]
                canary.append(json.dumps(rec, separators=(",", ":")))
                ncan += 1
            elif rec["kind"] == "vol" and rec["what"] != "now":
                rec["v2"] = rec["v1"]      # a frozen reading
                canary.append(json.dumps(rec, separators=(",", ":")))
        allp = os.path.join(run.scratch, "c10-law-all.ndjson")
        with open(allp, "w") as f:
            f.write("\n".join(lines + canary) + "\n")
        res, r = validate_traces(run, "ExprOpt_Trace", allp, label="ExprOpt_Trace", timeout=3000, xmx="4g")
        if res["consumed"] != len(lines) + len(canary) or not res["done"]:
            raise Inconclusive("law trace: consumed %d of %d records" % (res["consumed"], len(lines) + len(canary)))
        return lines, infos, canary, res

    # phase 1: generator (3) + laws (4) + loader (1)   | the Go law driver runs beside them
    if quick:
        nvec, _, _, lsum, _, _ = parallel([gen, laws, loader, law, gen_probe, startup_model], 6)
        rep, val, _, _, _, _, sur = parallel([replay, validate if lsum else (lambda: None), negatives, pools, loader_layout, probe_model, startup_replay], 7)
    else:
        nvec, _, lsum, _, _ = parallel([gen, loader, law, gen_probe, startup_model], 5)
        laws()
        rep, val, _, _, _, sur = parallel([replay, validate if lsum else (lambda: None), negatives, pools, loader_layout, startup_replay], 6)
        probe_model()

    # ---- B1 verdicts: start-up scenarios (switches, re-definitions) and the contended call site
    if sur["harness_failures"]:
        raise Inconclusive("start-up scenarios: harness failures: %s" % sur["harness_failures"][:3])
    site = sur["site"]
    if not sur["n_mismatches"] and (sur["cli_runs"] < 400 or sur["inline_cli_runs"] < 150 or sur["inproc_runs"] < 100 or sur["skipped"] > 0
                                    or sur["scenarios_with_switches"] < 100 or sur["scenarios_with_redefinitions"] < 120 or sur["per_group"].get("gen", 0) < 50
                                    or site["children"] < 5 or site["evaluations"] < 1000000 or 64 not in site["goroutines"]):
        raise Inconclusive("start-up replay too small: %s" % {k: v for k, v in sur.items() if k != "mismatches"})
    run.cov["b1_startup_scenarios"] = sur["scenarios"]
    run.cov["b1_startup_scenarios_per_group"] = sur["per_group"]
    run.cov["b1_startup_cli_runs"] = sur["cli_runs"] + sur["inline_cli_runs"]
    run.cov["b1_startup_evaluations_in_process"] = sur["inproc_runs"]
    run.cov["b1_call_site_contention"] = {k: v for k, v in site.items()}
    run.cov["traces_validated_against_impl"] += sur["cli_runs"] + sur["inline_cli_runs"] + sur["inproc_runs"] + site["evaluations"]
    run.cov["evaluations"] += sur["cli_runs"] + sur["inline_cli_runs"] + sur["inproc_runs"] + site["evaluations"]
    seen = {}
    for m in sur["mismatches"]:
        if m["class"].startswith("site-"):
            sig = "b1:site:%s:%s" % (m["class"][5:], "opt" if m["opt"] else "noopt")
            if m["class"] == "site-process-dies":
                txt = ("a process that loads the funcs file below, compiles %s once (optimise=%s) and evaluates it from %d goroutines, each on its own line, "
                       "dies: %s (ExprCallPool.tla: SeesOwn / Exclusive for W evaluators of one call site). File:\n%s" % (
                           m["template"], m["opt"], m["goroutines"], m["got"], "\n".join(m["files"])))
            else:
                txt = ("%s (%s, optimise=%s) evaluated from %d goroutines on one compiled expression, each on its own line: goroutine %s in round %s on match "
                       "groups %s got %r%s, ExprStartup.tla gives %r (%d wrong values; ExprCallPool.tla: every read reaches the reader's own match). File:\n%s" % (
                           m["template"], m["which"], m["opt"], m["goroutines"], m.get("goroutine"), m.get("round"), m.get("m"), m.get("got"),
                           " PANIC " + m["panic"] if m.get("panic") else "", m.get("expect"), m.get("wrong_values", 0), "\n".join(m["files"])))
        else:
            sig = "b1:startup:%s:%s:%s" % (m["g"], m["class"], "+".join(m["flags"]) or "default")
            txt = ("%s with the switches %s and the funcs files below, expression %s%s on match groups %s: %s; ExprStartup.tla (a call is its body written inline "
                   "with the function table of the place of the definition, evaluated in the run's environment) gives %s. Files:\n%s" % (
                       {"inproc": "loaded the way main.go does (one compiler for all files)", "inline": "the inlined text on the command line"}.get(
                           m["class"], "rare %s--funcs .. expression" % ("RARE_FUNC_FILES=.. " if m.get("via_environment") else "")),
                       m["flags"], "" if m["opt"] else "--no-optimize ", m["template"], m["m"],
                       ("fails: %s" % m.get("err")) if m.get("failed") or (m["class"] == "inproc" and m.get("err")) else "answers %r%s" % (
                           m["got"], " PANIC " + m["panic"] if m.get("panic") else ""),
                       "a compile error" if m["expect_kind"] == "err" else repr(m["expect"]), "\n---\n".join(m["files"])))
        seen[sig] = seen.get(sig, 0) + 1
        if seen[sig] <= 3:
            run.violation(sig, txt, m)
    if sur["n_mismatches"]:
        run.cov["b1_startup_mismatches_total"] = sur["n_mismatches"]

    # ---- B1 verdicts
    if rep is not None:
        if rep["gen_not_ok"]:
            raise Inconclusive("%d generated funcs files are not loaded to their definitions by the MODEL loader" % rep["gen_not_ok"])
        if rep["layout_files"] < (30 if quick else 400) or rep["clock_runs"] < 1000 or rep["decided"] * 10 < rep["runs"] * 5 \
                or rep["rel_comparisons"] < 100000 or rep["files_with_run_ge2"] < 10 or rep["per_group"].get("e0", 0) < 500 \
                or rep["per_group"].get("e1", 0) < 500 or rep["per_group"].get("e2", 0) < 300 or rep["per_group"].get("eu", 0) < 200:
            raise Inconclusive("replay too small: %s" % {k: v for k, v in rep.items() if k not in ("mismatches", "per_func", "samples")})
        pb = rep["probe"]
        if pb["harness_failures"]:
            raise Inconclusive("probe scenarios: child processes failed: %s" % pb["harness_failures"][:3])
        if rep["bad_files"] < 10 or rep["failing_definitions"] < 10 or pb["scenarios"] < 40 or pb["runaway_scenarios"] < 20 or pb["decided"] < 2000 \
                or pb["both_crash"] > 0 or pb["skipped"] > 0:
            raise Inconclusive("replay too small (files with failing definitions / probe scenarios): %s %s" % (rep["bad_files"], pb))
        run.cov["b1_files_with_failing_definitions"] = rep["bad_files"]
        run.cov["b1_failing_definitions_in_them"] = rep["failing_definitions"]
        run.cov["b1_probe_scenarios"] = pb["scenarios"]
        run.cov["b1_probe_scenarios_whose_probe_runs_to_the_iteration_cap"] = pb["runaway_scenarios"]
        run.cov["b1_probe_processes"] = pb["processes"]
        run.cov["b1_probe_evaluations"] = pb["evaluations"]
        run.cov["b1_probe_values_compared_with_the_specification"] = pb["decided"]
        run.cov["traces_validated_against_impl"] += pb["evaluations"]
        run.cov["evaluations"] += pb["evaluations"]
        run.cov["b1_vectors"] = rep["vectors"]
        run.cov["b1_evaluations"] = rep["runs"]
        run.cov["b1_evaluations_with_a_demanded_value"] = rep["decided"]
        run.cov["b1_funcs_file_layouts"] = rep["layout_files"]
        run.cov["b1_layouts_with_a_line_ending_in_2_or_more_backslashes"] = rep["files_with_run_ge2"]
        run.cov["b1_longest_backslash_run_at_a_line_end"] = rep["max_backslash_run"]
        run.cov["b1_relational_comparisons"] = rep["rel_comparisons"]
        run.cov["b1_layout_evaluations"] = rep["layout_runs"]
        run.cov["b1_clock_expressions"] = rep["clock_expressions"]
        run.cov["b1_clock_evaluations_1.2s_later"] = rep["clock_runs"]
        run.cov["b1_cli_runs"] = rep["cli_runs"]
        run.cov["b1_per_group"] = rep["per_group"]
        run.cov["traces_validated_against_impl"] += rep["runs"]
        run.cov["evaluations"] += rep["runs"]
        run.cov["distinct_nontrivial"] += rep["distinct_nontrivial"]
        for s in rep["samples"] or []:
            run.sample({"b1": s})
        for m in rep["mismatches"] or []:
            if m["g"] == "load":
                run.violation("b1:load:%s:%s" % (m["f"], m["class"]),
                              "the funcs file %s (%s) is loaded to the functions %s (error %r%s); the specified loader defines %s. File:\n%s" % (
                                  m["env"], m["f"], m["got_names"], m["load_error"], " PANIC " + m["panic"] if m["panic"] else "", m["want_names"], m["file"]), m)
                continue
            if m["g"] == "probe":
                if m["class"] == "process-dies":
                    run.violation("b1:probe:process-dies:%s" % m["mode"].replace(" ", "-"),
                                  "a process that compiles %s and %s with the %s compiler and evaluates them dies (%s); %s (ExprProbe.tla: Survives in "
                                  "both modes)" % (m["template"], m["witness"], m["mode"], m["got"], m["expect_kind"]), m)
                elif m["class"] == "opt-noopt":
                    run.violation("b1:probe:opt-noopt",
                                  "a process that compiles %s and %s with the optimising compiler and one that compiles them with the plain compiler "
                                  "disagree: %s versus %s (ExprProbe.tla: the probe evaluation leaves no trace)" % (m["template"], m["witness"], m["got"], m["got_other"]), m)
                else:
                    run.violation("b1:probe:value:%s:%s:%s" % (m["mode"], m["which"], m["phase"]),
                                  "in a process that compiled %s%s and %s with the %s compiler, %s (%s) on match groups %s and keys %s evaluates to %r%s; "
                                  "the specification (ExprArray!EvalT) gives %r in every process" % (
                                      m["template"], " (its probe runs to the iteration cap of @for)" if m["probe_runs_away"] else "", m["witness"], m["mode"],
                                      m["evaluated"], m["phase"], m.get("m"), m.get("ks"), m.get("got"), " PANIC " + m["panic"] if m.get("panic") else "", m.get("expect")), m)
                continue
            where = m.get("where") or m["g"]
            if m["g"] == "cli":
                where = "cli"
                if m["class"] == "file-with-failing-definitions":
                    run.violation("b1:cli:file-with-failing-definitions:%s" % m["f"],
                                  "rare %s expression %s%s with match groups %s and keys %s answers %r (error: %s); the funcs file holds definitions that do not "
                                  "compile next to the one called, and FuncFile.tla delivers every definition that compiles: the value is %r. File:\n%s" % (
                                      "RARE_FUNC_FILES=.." if m["via_environment"] else "--funcs ..", "" if m["opt"] else "--no-optimize ", m["template"], m.get("m"),
                                      m.get("ks"), m.get("got"), m.get("err"), m.get("expect"), m["file"]), m)
                    continue
            if where == "rel":
                run.violation("b1:rel:%s:%s:%s" % (m["class"], m["g"], m["f"]),
                              "%s: template %s%s with match groups %s and keys %s (funcs file %s, step %s of its history): %s; the first gives %r, "
                              "the second %r%s; ExprOpt.tla proves them equal" % (
                                  m["class"], m["template"], " / " + m["other"] if m["other"] != m["template"] else "", m.get("m"), m.get("ks"), m.get("env"),
                                  m.get("step"), m["expect_kind"], m.get("got"), m.get("got_other"), " PANIC " + m["panic"] if m.get("panic") else ""), m)
                continue
            run.violation("b1:%s:%s:%s" % (where, m["f"], m["class"]),
                          "template %s%s with match groups %s and keys %s (%s, optimise=%s, funcs file %s, step %s of its history) evaluates to %r%s; "
                          "ExprOpt.tla specifies %s %r" % (
                              m["template"], " (the body of %s with the arguments substituted)" % m["call"] if where == "inline" else "",
                              m.get("m"), m.get("ks"), where, m.get("opt"), m.get("env"), m.get("step"), m.get("got"),
                              " PANIC " + m["panic"] if m.get("panic") else "", m.get("expect_kind"), m.get("expect")), m)
        if rep["n_mismatches"] > len(rep["mismatches"] or []):
            run.cov["b1_mismatches_total"] = rep["n_mismatches"]

    # ---- B2 verdicts
    if val is not None:
        lines, infos, canary, res = val
        ncan_rej = 0
        for bad in res["bad"]:
            i = bad["l"] - 1
            if i >= len(lines):
                ncan_rej += 1
                continue
            info = infos[i]
            cls = info.get("class") or (bad["what"] if bad["class"] == "differs" else bad["what"] + "-" + bad["class"])
            if bad["what"] in ("live", "delta", "now"):
                run.violation("law:%s:%s:%s" % (bad["class"], bad["what"], bad["f"]),
                              "{time %s} in %s (%s, optimise=%s) read %r and, at least 1.2 s later on the same compiled expression, %r: %s" % (
                                  bad["what"], info["template"], bad["f"], info.get("opt"), info["first"], info["second"],
                                  "the value did not move" if bad["class"] == "frozen" else "outside the window of the real clock"), info)
            else:
                run.violation("law:%s:%s" % (cls, bad["f"]),
                              "%s: template %s%s with match groups %s and keys %s (history %s step %s): %r versus %r%s" % (
                                  bad["what"], info.get("template"), " / inlined " + info["inlined"] if "inlined" in info else "",
                                  info.get("m"), info.get("ks"), info.get("history"), info.get("step"), info.get("a"), info.get("b"),
                                  " PANIC %s | %s" % (info.get("panic_a"), info.get("panic_b")) if info.get("panic_a") or info.get("panic_b") else ""), info)
        if ncan_rej != len(canary):
            raise Inconclusive("trace validation rejected only %d of %d deliberately corrupted records" % (ncan_rej, len(canary)))
        run.cov["b2_corrupted_records_rejected"] = "%d of %d" % (ncan_rej, len(canary))
        run.cov["b2_distinct_records"] = len(lines)
        run.cov["b2_records_inside_domain"] = res["nontrivial"] - len(canary)
        run.cov["b2_observations"] = lsum["observations"]
        run.cov["b2_per_law"] = lsum["per_what"]
        run.cov["b2_helpers"] = lsum["helpers"]
        run.cov["b2_templates"] = lsum["templates"]
        run.cov["b2_call_sites"] = lsum["call_sites"]
        run.cov["b2_concurrent"] = lsum["concurrent"]
        run.cov["b2_cli_runs"] = lsum["cli_runs"]
        run.cov["b2_probe_law"] = lsum["probe"]
        run.cov["b2_files_with_failing_definitions"] = lsum["bad_files"]
        if lsum["probe"]["harness_failures"]:
            raise Inconclusive("probe law: child processes failed: %s" % lsum["probe"]["harness_failures"][:3])
        if lsum["helpers_without_table_entry"]:
            run.cov["b2_helpers_with_generic_arguments"] = lsum["helpers_without_table_entry"]
        run.cov["traces_validated_against_impl"] += lsum["observations"]
        run.cov["evaluations"] += 2 * lsum["observations"]
        # (a funcs file the real loader refuses yields no call sites: with violations already reported a shortfall is their symptom)
        if not run.violations and (lsum["helpers"] < 80 or lsum["per_what"].get("opt-noopt", 0) < 20000 or lsum["per_what"].get("call-inline", 0) < 2000
                                   or lsum["concurrent"]["goroutines"] < 8 or lsum["vol_expressions"] < 40
                                   or lsum["probe"]["processes"] < 10 or lsum["bad_files"]["call_sites_in_such_files"] < 100):
            raise Inconclusive("law driver too small: %s" % {k: v for k, v in lsum.items() if k != "per_func"})
        k = 0
        for ln, info in zip(lines, infos):
            if info.get("what") in ("call-inline", "live") and k < 3 and info.get("a") != "":
                run.sample({"b2": {kk: vv for kk, vv in info.items() if kk != "file"}})
                k += 1

    # ---- thorough: the concurrent phase and the histories once more under the race detector
    if not quick:
        p = run.drv(["law", "-out", os.path.join(run.scratch, "race-trace.ndjson"), "-info", os.path.join(run.scratch, "race-info.ndjson"),
                     "-dir", ldir, "-summary", os.path.join(run.scratch, "race-sum.json"), "-tuples", 1, "-extra", 0, "-funcfiles", 20, "-rounds", 1500],
                    race=True, check=False, timeout=2400, env={"GORACE": "halt_on_error=1 exitcode=66"})
        if p.returncode == 66 or "WARNING: DATA RACE" in p.stderr:
            frames = [ln.strip() for ln in p.stderr.splitlines() if "rare/pkg/" in ln][:8]
            run.violation("law:conc:data-race", "the race detector reports a data race while goroutines evaluate one compiled expression: %s"
                          % "; ".join(frames), {"stderr": p.stderr[:4000]})
        elif p.returncode != 0:
            raise Inconclusive("race-detector run failed (%d):\n%s" % (p.returncode, p.stderr[-3000:]))
        else:
            rs = json.load(open(os.path.join(run.scratch, "race-sum.json")))
            run.cov["race_detector_observations"] = rs["observations"]
            rl = open(os.path.join(run.scratch, "race-trace.ndjson")).read().splitlines()
            ri = [json.loads(x) for x in open(os.path.join(run.scratch, "race-info.ndjson")).read().splitlines()]
            for ln, info in zip(rl, ri):
                rec = json.loads(ln)
                if rec["kind"] == "eq" and rec["what"] == "conc-seq" and (rec["a"] != rec["b"] or rec["pa"] != rec["pb"]):
                    run.violation("law:conc-seq:%s" % rec["f"], "(race build) %s: concurrent %r, sequential %r" % (info["template"], info["a"], info["b"]), info)

    run.cov["rule"] = ("B3: every tree of ExprOpt_MC x every context x evaluation clocks (5 laws), every file of FuncFile_MC, every reachable state of "
                       "ExprCallPool; B1: every (template, context) of every generated vector x {optimising, plain} compiler x {call, substituted "
                       "body} x every funcs-file layout, non-trivial = ExprOpt.tla demands a value (expectation other than 'any'); B2: one record "
                       "per observation pair, identical records merged before TLC judges them")
